#!/bin/bash
# try_seed.sh <ID> <patch.diff> [tier] [extra bin/check args...]
# Runs a check against a scratch worktree of /repo HEAD with the patch applied (so /repo itself stays untouched while
# other work is going on). Prints the tail of the output and "SEED-RESULT exit=<n>". The worktree is removed afterwards.
set -u
ID=$1; PATCH=$(readlink -f "$2"); TIER=${3:-quick}; shift; shift; shift || true
WT=$(mktemp -d /tmp/seedtry-XXXXXX); rmdir "$WT"
git -C /repo worktree add --detach "$WT" HEAD >/dev/null 2>&1 || { echo "worktree failed"; exit 9; }
if ! git -C "$WT" apply "$PATCH"; then echo "PATCH DOES NOT APPLY"; git -C /repo worktree remove --force "$WT"; exit 9; fi
cd /verif
VERIF_REPO="$WT" bin/check "$ID" --tier "$TIER" --no-evidence "$@" > "$WT.log" 2>&1
RC=$?
grep -E "VIOLATION|counterexample|UNCONFIRMED|INCONCLUSIVE|exit=" "$WT.log" | cut -c1-400 | head -20
echo "SEED-RESULT exit=$RC"
git -C /repo worktree remove --force "$WT"; rm -f "$WT.log"
exit $RC
