#!/usr/bin/env python3
"""Regenerates /verif/MANIFEST.json from /verif/tools/manifest_table.json (claimed checks) + properties.jsonl."""
import json, os
V = os.path.dirname(os.path.dirname(os.path.abspath(__file__)))
tab = json.load(open(os.path.join(V, "tools", "manifest_table.json")))
props = [json.loads(l) for l in open(os.path.join(V, "properties.jsonl")) if l.strip()]
checks, na = [], []
for p in props:
    pid = p["id"]
    t = tab["checks"].get(pid)
    if t and t.get("claimed"):
        checks.append({
            "property_id": pid,
            "quick_cmd": "bin/check %s --tier quick" % pid,
            "thorough_cmd": "bin/check %s --tier thorough" % pid,
            "evidence_file": "evidence/%s.json" % pid,
            "replay_cmd_template": "bin/check %s --replay {path}" % pid,
            "engine": "cbmc",
            "level_claimed": {"category": t.get("category", "model_checking"), "text": t["text"], "design_ref": t["design_ref"]},
            "level_note": t["note"],
            "technique": t.get("technique", "bounded symbolic execution of the real C code with CBMC, decided by SAT/SMT (cadical/kissat/cvc5)"),
        })
    else:
        na.append({"property_id": pid, "reason": (t or {}).get("reason", "check not built yet (work in progress in this session)")})
m = {
    "version": 1,
    "setup_cmd": "chmod +x bin/check lib/shim/cvc5 && cbmc --version && goto-cc --version && kissat --version && clang --version",
    "hooks": tab["hooks"],
    "engines": [{"name": "cbmc", "path": "bin/check", "serves_properties": [c["property_id"] for c in checks],
                 "kind_free_text": "driver: goto-cc compiles harness + real liblcb sources from /repo's working tree; cbmc 6.11 symbolic execution with unwinding assertions; SAT (cadical, kissat) / SMT (cvc5) decide; counterexamples replayed natively under ASan/UBSan"}],
    "checks": checks,
    "notes": tab.get("notes", ""),
    "not_applicable": na,
}
json.dump(m, open(os.path.join(V, "MANIFEST.json"), "w"), indent=1)
print("claimed:", [c["property_id"] for c in checks])
