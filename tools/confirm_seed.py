#!/usr/bin/env python3
"""confirm_seed.py <out_dir_of_one_change> <worktree> [--tests]
Confirms a seeded change independently: demo passes on the clean worktree, fails with patch applied; optionally the
repository's test suite passes with the patch (cmake -DENABLE_LIBLCB_TESTS=1). Writes confirm.json into the change dir."""
import json, os, re, subprocess, sys, shutil
d, wt = sys.argv[1], sys.argv[2]
run_tests = any(a.startswith("--tests") for a in sys.argv)
test_re = [a.split("=",1)[1] for a in sys.argv if a.startswith("--tests=")]
ctest_sel = ("-R '%s'" % test_re[0]) if test_re else ""
demo = os.path.join(d, "demo.c")
sh = os.path.join(d, "demo.sh")
def demo_cmd():
    if os.path.exists(os.path.join(d, "run_demo.sh")):
        return "bash %s %s" % (os.path.join(d, "run_demo.sh"), wt)
    src = open(demo).read() if os.path.exists(demo) else ""
    lines = src.split("\n")
    for i, l in enumerate(lines):
        if re.search(r"^\s*[*/]*\s*(cc|gcc|clang)\s", l):
            cmd = []
            for m in lines[i:i + 15]:
                t = re.sub(r"^\s*(\*|//)?\s*", "", m).rstrip()
                if not t:
                    break
                cmd.append(t.rstrip("\\").strip())
                if not t.endswith("\\"):
                    break
            return " ".join(cmd)
    if os.path.exists(sh):
        return "bash %s" % sh
    raise SystemExit("no demo command found")
cmd = demo_cmd()
def run(c, **kw):
    return subprocess.run(c, shell=True, capture_output=True, text=True, **kw)
res = {"demo_cmd": cmd}
run("git -C %s checkout -- ." % wt)
r0 = run(cmd, timeout=900)
res["clean_rc"] = r0.returncode
res["clean_tail"] = (r0.stdout + r0.stderr)[-300:]
a = run("git -C %s apply %s" % (wt, os.path.join(d, "patch.diff")))
res["apply_rc"] = a.returncode
r1 = run(cmd, timeout=900)
res["patched_rc"] = r1.returncode
res["patched_tail"] = (r1.stdout + r1.stderr)[-300:]
if run_tests:
    b = run("cd %s && cmake -G Ninja -B _build -DENABLE_LIBLCB_TESTS=1 >/dev/null 2>&1 && cmake --build _build 2>&1 | tail -3 && ctest --test-dir _build -j8 --timeout 2400 %s 2>&1 | tail -4" % (wt, ctest_sel), timeout=3000)
    res["tests_tail"] = (b.stdout + b.stderr)[-500:]
    res["tests_pass"] = "100% tests passed" in b.stdout
    res["tests_selected"] = test_re[0] if test_re else "all"
    shutil.rmtree(os.path.join(wt, "_build"), ignore_errors=True)
run("git -C %s checkout -- ." % wt)
res["confirmed"] = (res["clean_rc"] == 0 and res["apply_rc"] == 0 and res["patched_rc"] != 0 and (not run_tests or res.get("tests_pass")))
json.dump(res, open(os.path.join(d, "confirm.json"), "w"), indent=1)
print(json.dumps({k: res[k] for k in res if k in ("clean_rc", "apply_rc", "patched_rc", "tests_pass", "confirmed")}))
