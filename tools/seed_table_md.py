#!/usr/bin/env python3
"""Rewrites section 12 of DESIGN.md from /verif/seeded/*/meta.json."""
import json, os
V = os.path.dirname(os.path.dirname(os.path.abspath(__file__)))
rows = []
for s in sorted(os.listdir(os.path.join(V, "seeded"))):
    p = os.path.join(V, "seeded", s, "meta.json")
    if not os.path.exists(p):
        continue
    m = json.load(open(p))
    rows.append((s, m.get("round", 1), m.get("detected_by_check"), (m.get("detecting_check") or m["property"]) + " " + (m.get("tier") or "quick"),
                 (m.get("detection_notes") or "").replace("|", "/")))
yes = sum(1 for r in rows if r[2] == "yes")
first_missed = sum(1 for r in rows if r[2] == "yes" and ("initially MISSED" in r[4] or "MISSED at quick" in r[4]))
out = ["\n---------------------------------------------------------------------------------------------------\n",
       "## 12. Seeded changes: which check catches which\n",
       "Three rounds. Round 1: twenty independent sub-agents (one per property; each given only the property text and a private scratch\nworktree of `/repo`, nothing from `/verif`) produced 3 realistic, subtle property-breaking changes each that compile and pass the\nrepository's test suite. Round 2: fourteen more agents, told only which round-1 sites to avoid. Round 3 (follow-up session): six agents (C01, C03, C07, C09, C17, C20), two\nchanges each, told only the names of the earlier sites. The coordinator confirmed every\nkept change in a scratch worktree (`tools/confirm_seed.py`: demonstration passes on the clean tree, fails with the patch; the\naffected test binary still passes) and ran the matching check against a scratch worktree with the patch applied\n(`tools/try_seed.sh`; `/repo` itself is never touched). Kept under `/verif/seeded/<property>-<name>/{patch.diff, demo.c,\nrun_demo.sh, README.md, meta.json}`; `bin/selftest` re-runs them.\n",
       "**%d kept: %d detected (VIOLATION with a native replay), %d not detected.** %d of the detected ones were *missed at first* and led\nto a stronger check (new shape, new assertion, new harness, or a driver feature) — the strengthening is named in the row.\nTwo round-1 changes became obsolete (their site was rewritten by a `fix:` commit): `seeded/OBSOLETE.json`.\n" % (len(rows), yes, len(rows) - yes, first_missed),
       "| seed | round | detected | by (tier) | how / why not |\n|---|---|---|---|---|"]
for r in rows:
    out.append("| %s | %d | %s | %s | %s |" % r)
out.append("\nA final `bin/selftest` over the 101 changes of rounds 1 and 2 (three lanes, quick tier unless the row says thorough) reproduced every row of this table\n(one round-1 patch had to be re-based after a later `fix:` commit touched the same line); the round-3 rows (%d kept in all) were reproduced by\n`bin/selftest <seed>` per detected seed in the follow-up session." % len(rows))
out.append("\nThe not-detected ones mark where the claims end: SIMD transforms (C04), helper constructors of the task layer and the\nconnect/send helper (C16), damaged packets in the message queue and sub-syscall interleavings of two workers on the virtual\nqueue (C05), the lapped-reader logic of the ring buffer that the recorded known findings exclude (C19), and (round 3) growing `ini_val_set`\nreplacements with names/values longer than the 1-byte thorough shapes (C17) plus whatever the rows marked `no` below say.\n")
d = open(os.path.join(V, "DESIGN.md")).read()
i = d.find("\n---------------------------------------------------------------------------------------------------\n\n## 12. Seeded changes")
if i < 0:
    i = d.find("## 12. Seeded changes")
    i = d.rfind("\n-----", 0, i)
d = d[:i] + "\n".join(out) + "\n"
open(os.path.join(V, "DESIGN.md"), "w").write(d)
print(len(rows), yes, first_missed)
