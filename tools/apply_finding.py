#!/usr/bin/env python3
"""apply_finding.py <ID> <name> : applies /verif/harness/<ID>/findings/<name>.diff to /repo as one unguarded 'fix:' commit
and records it in known_findings.json (status fixed)."""
import json, os, re, subprocess, sys
pid, name = sys.argv[1], sys.argv[2]
fd = "/verif/harness/%s/findings" % pid
diff = os.path.join(fd, name + ".diff")
md = open(os.path.join(fd, name + ".md")).read()
title = md.splitlines()[0].lstrip("# ").strip()
title = re.sub(r"^%s\s*[-:]\s*" % re.escape(name), "", title)
title = title.replace("`", "")
r = subprocess.run(["git", "-C", "/repo", "apply", diff], capture_output=True, text=True)
if r.returncode != 0:
    print("APPLY FAILED", name, r.stderr[:400]); sys.exit(1)
msg = "fix: " + title
subprocess.run(["git", "-C", "/repo", "commit", "-qam", msg], check=True)
h = subprocess.run(["git", "-C", "/repo", "log", "--format=%h", "-1"], capture_output=True, text=True).stdout.strip()
kp = "/verif/known_findings.json"
k = json.load(open(kp))
k["findings"].append({"property": pid, "status": "fixed", "commit": h, "finding": name,
                      "what": "fixed: property=%s %s %s (details and failing input: harness/%s/findings/%s.md)" % (pid, h, title, pid, name)})
json.dump(k, open(kp, "w"), indent=1)
print(h, msg)
