#!/usr/bin/env python3
"""mk_mut_prompt.py <ID> [n] -> creates a scratch worktree /tmp/mut-<ID> of /repo HEAD and prints the prompt for an
independent sub-agent that is asked to break property <ID> (it gets nothing from /verif except the property text)."""
import json, subprocess, sys, os
pid = sys.argv[1]; n = int(sys.argv[2]) if len(sys.argv) > 2 else 2
V = os.path.dirname(os.path.dirname(os.path.abspath(__file__)))
p = [json.loads(l) for l in open(os.path.join(V, "properties.jsonl")) if l.strip()]
p = [x for x in p if x["id"] == pid][0]
wt = "/tmp/mut-%s" % pid
if not os.path.isdir(wt):
    subprocess.run(["git", "-C", "/repo", "worktree", "add", "--detach", wt, "HEAD"], check=True, capture_output=True)
out = "/tmp/mut-%s-out" % pid
os.makedirs(out, exist_ok=True)
print(f"""You are testing how good a verification suite is at noticing regressions in the C library rozhuk-im/liblcb. You get a private scratch git worktree of the library at {wt} (work ONLY there and in {out}; never touch /repo or /verif, and do not read anything under /verif — your change must be independent of what the suite already checks).

Property that must hold for the library ("{p['title']}"):
{p['statement']}
Quantified over: {p['quantifier']['text']}
Code it is anchored in: {', '.join(p['anchors']['files'])}

Task: produce {n} DIFFERENT small source changes (separate patches, at different sites / of different kinds) to the library, each of which
 1. BREAKS the property above for some inputs / schedules / histories,
 2. still compiles, and the library's existing test suite still passes with it (build+run: `cd {wt} && cmake -G Ninja -B _build -DENABLE_LIBLCB_TESTS=1 >/dev/null && cmake --build _build >/dev/null && ctest --test-dir _build -j4 --timeout 900`; the threadpool test takes about a minute or two; if your change cannot affect a test binary you may skip re-running that binary but say so),
 3. is REALISTIC (the kind of slip a maintainer could make in a refactoring or 'optimisation': off-by-one, wrong operator or constant, dropped check, swapped arguments, wrong variable, missing cleanup on one error path, reordered statements...) and SUBTLE: it must need something specific to manifest — a particular interleaving, a fault at a particular point, a multi-step sequence of operations, an unusual/boundary input, or two cooperating sites that each look fine alone — NOT something ordinary use or the existing tests would expose at once.
For each change write into {out}/<k>/ (k = 1..{n}):
  - patch.diff : `git -C {wt} diff` of exactly that change against the worktree's HEAD (apply-able with `git apply` at the repository root),
  - demo.c (or demo.sh + sources): a small stand-alone demonstration program that exits non-zero / prints FAIL WITH the change and exits 0 / prints PASS WITHOUT it, with the exact compile+run command in a comment at the top (compile against {wt}/include and the needed {wt}/src/*.c files; the real build defines are: -DLINUX -D__USE_GNU=1 -D_GNU_SOURCE -DHAVE_STRNCASECMP -DHAVE_SOCK_NONBLOCK -DHAVE_SOCK_CLOEXEC -DHAVE_REALLOCARRAY -DHAVE_PTHREAD_SETNAME_NP -DHAVE_PIPE2 -DHAVE_MEMRCHR -DHAVE_MEMMEM -DHAVE_EXPLICIT_BZERO -DHAVE_ACCEPT4),
  - run_demo.sh : a script taking the repository root as $1 that compiles the demonstration against THAT root (use "$1/include", "$1/src/...") and runs it; exit status 0 = property holds (PASS), non-zero = FAIL,
  - README.md : which clause of the property it breaks, what exactly is needed for it to manifest (the specific input / sequence / interleaving), and what you ran (demo with and without the change, test suite result).
Make each change, verify it (demo fails with it, passes without it, test suite passes), save the diff, then `git -C {wt} checkout -- .` before starting the next one. Leave the worktree clean at the end (no build directory needed afterwards: remove {wt}/_build when you are done). Keep terminal output short. Final reply: for each change one paragraph (site, what breaks, trigger) and the paths.""")
