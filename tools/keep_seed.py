#!/usr/bin/env python3
"""keep_seed.py <ID> <k> <name> <detected: yes|no|partial> "<which jobs caught it / notes>"
Copies /tmp/mut-<ID>-out/<k>/ into /verif/seeded/<ID>-<name>/ with meta.json."""
import json, os, shutil, sys
pid, k, name, det, notes = sys.argv[1:6]
src = "/tmp/mut-%s-out/%s" % (pid, k)
dst = "/verif/seeded/%s-%s" % (pid, name)
os.makedirs(dst, exist_ok=True)
for f in os.listdir(src):
    if f in ("demo",) or f.endswith(".o"):
        continue
    p = os.path.join(src, f)
    if os.path.isfile(p) and os.path.getsize(p) < 200000:
        shutil.copy(p, dst)
conf = json.load(open(os.path.join(src, "confirm.json"))) if os.path.exists(os.path.join(src, "confirm.json")) else {}
readme = open(os.path.join(src, "README.md")).read() if os.path.exists(os.path.join(src, "README.md")) else ""
meta = {"property": pid, "name": name, "origin": "independent sub-agent given only the property text and a scratch worktree",
        "needs_to_manifest": readme[:1500],
        "confirmed_by_coordinator": {"demo_passes_clean": conf.get("clean_rc") == 0, "demo_fails_patched": conf.get("patched_rc", 0) != 0,
                                     "test_suite_passes_patched": conf.get("tests_pass"), "demo_cmd": conf.get("demo_cmd")},
        "ran": "tools/confirm_seed.py (scratch worktree, cmake -DENABLE_LIBLCB_TESTS=1 + ctest) and tools/try_seed.sh %s patch.diff quick" % pid,
        "detected_by_check": det, "detection_notes": notes}
json.dump(meta, open(os.path.join(dst, "meta.json"), "w"), indent=1)
print("kept", dst)
