#!/bin/bash
# proc_seed.sh <ID> <k> [--tests=<regex>] : confirm a sub-agent's change (/tmp/mut-<ID>-out/<k>) and run the quick check on it.
ID=$1; K=$2; shift; shift
D=/tmp/mut-$ID-out/$K
[ -f $D/patch.diff ] || { echo "no patch in $D"; exit 2; }
python3 /verif/tools/confirm_seed.py $D /tmp/mut-$ID "$@"
/verif/tools/try_seed.sh $ID $D/patch.diff quick
