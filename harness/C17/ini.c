/* C17: INI store (src/utils/ini.c + buf_get_next_line of src/utils/buf_str.c) against a reference association list.
 *
 * Shape (concrete, from jobs.py):
 *   NLN, LENS   number of text lines and their lengths (the positions of the line feeds are the shape; every other
 *               byte is symbolic over the alphabet below, so whether a line is a section header, a key, a comment,
 *               an invalid or a CR-terminated line is decided by the solver), TERM: text ends with a line feed,
 *   TLEN        total text length (= sum LENS + NLN - 1 + TERM),
 *   NSET        number of ini_val_set calls (0..2) with section/key/value lengths SS,SK,SV (symbolic contents),
 *   QS,QK       lengths of the symbolic query (section, key) used for the lookups,
 *   MODE        what is asserted: M_GET lookups (ini_val_get + ini_vali_get), M_ENUM enumeration order,
 *               M_GEN calc_size/gen/short buffer (GCAP = capacity handed to ini_buf_gen), M_RT text round trip.
 *
 * Environment stubs (part of the claim, see META): calloc/realloc/reallocarray/free. Under CBMC every record is a
 * typed object of the concrete capacity sizeof(ini_line_t) + MAXDATA + 16 (a symbolic allocation size is intractable); the requested size must fit
 * (asserted). An overrun of the *requested* size that stays inside that capacity is therefore not seen here (memory safety
 * of ini.c is C12's subject); overruns of caller buffers (ini_buf_gen output, query strings, text) are seen because
 * those are exactly sized objects. realloc moves or keeps the block as chosen by IN (both real behaviours).
 * In the native replay the real libc allocator is used.
 */
#include "verif.h"
#include <malloc.h>
#include <errno.h>
#include <sys/types.h>
#include <inttypes.h>
#include <string.h>
#include <strings.h>
#include <stdlib.h>

#ifndef NSET
#define NSET 0
#endif
#define MAXDATA 24				/* largest record payload any shape here needs (asserted) */

#define M_GET 1
#define M_ENUM 2
#define M_GEN 3
#define M_RT 4

struct set_s { uint8_t s[SS ? SS : 1], k[SK ? SK : 1], v[SV ? SV : 1]; };
#ifndef ZCONV
#define ZCONV 0
#endif
struct in_s {
	uint8_t text[TLEN];
	uint8_t qs[QS ? QS : 1], qk[QK ? QK : 1];
	struct set_s set[NSET ? NSET : 1];
	uint8_t realloc_moves[4];
};
#include "verif_in.h"

/* ---------------- allocation stubs ---------------- */
#ifndef REPLAY
static void *v_calloc_ini(size_t n, size_t sz);
static void *v_calloc_rec(size_t n, size_t sz);
static void *v_realloc(void *old, size_t sz);
static void *v_reallocarray(void *old, size_t n, size_t sz);
static void *v_memset(void *p, int c, size_t n);
/* two call sites: calloc(1, sizeof(ini_t)) and calloc(1, <record size>); separate stubs keep the points-to sets apart */
#define calloc(n, sz) (__builtin_constant_p(sz) ? v_calloc_ini((n), (sz)) : v_calloc_rec((n), (sz)))
#define realloc v_realloc
#define reallocarray v_reallocarray
#define memset v_memset		/* only realloc_items() zeroing the fresh lines array goes through this */
#ifndef NO_TYPED_MEMMOVE
static void *v_memmove(void *dst, const void *src, size_t n);
#define memmove v_memmove	/* only ini_val_set() shifting the tail of the lines array goes through this */
#endif
#endif

#include "utils/mem_utils.h"
#include "utils/buf_str.c"
#include "utils/ini.c"

#ifndef REPLAY
/* typed objects (a byte-array object makes every field / lines[i] access a byte-level extraction) */
struct v_rec { ini_line_t hdr; uint8_t data[MAXDATA + INI_LINE_ALLOC_PADDING]; size_t v_req; /* ghost: bytes the code asked for */ };
/* LINES_TAB <= INI_LINES_PREALLOC pointers are materialised: the code asks for 64; handing out a SHORTER object is sound
 * for a HOLD verdict because any access past entry LINES_TAB-1 is an object-bounds violation and is reported. */
#define LINES_TAB (NLN + 2 * NSET + 2)
struct v_lines { ini_line_p p[LINES_TAB]; };
static struct v_lines *v_last_lines;
static unsigned v_realloc_calls;
static void *v_calloc_ini(size_t n, size_t sz) {
	V_ASSERT(n * sz == sizeof(ini_t), "HARNESS constant-size calloc is the ini_t");
	ini_t *p = malloc(sizeof(ini_t));
	__CPROVER_assume(p != 0);
	p->lines = NULL; p->lines_count = 0; p->lines_allocated = 0;
	return (p);
}
static void *v_calloc_rec(size_t n, size_t sz) {
	size_t want = n * sz;
	V_ASSERT(want >= sizeof(ini_line_t) && want <= sizeof(struct v_rec), "HARNESS record fits the concrete capacity");
	struct v_rec *r = malloc(sizeof(struct v_rec));
	__CPROVER_assume(r != 0);
	r->hdr.data = NULL; r->hdr.data_size = 0; r->hdr.data_allocated_size = 0; r->hdr.type = 0;
	r->hdr.name = NULL; r->hdr.name_size = 0; r->hdr.val = NULL; r->hdr.val_size = 0;
	for (size_t i = 0; i < sizeof(r->data); i++) r->data[i] = 0;
	r->v_req = want;
	return (r);
}
static void *v_realloc(void *old, size_t sz) {
	V_ASSERT(sz <= sizeof(struct v_rec), "HARNESS record fits the concrete capacity");
	((struct v_rec *)old)->v_req = sz;
	unsigned c = v_realloc_calls++;
	if (c < 4 && (IN.realloc_moves[c] & 1)) {
		struct v_rec *r = malloc(sizeof(struct v_rec));
		__CPROVER_assume(r != 0);
		*r = *(struct v_rec *)old;
		free(old);
		return (r);
	}
	return (old);
}
static void *v_reallocarray(void *old, size_t n, size_t sz) {
	V_ASSERT(old == NULL && n * sz == INI_LINES_PREALLOC * sizeof(ini_line_p), "HARNESS lines array is allocated once with INI_LINES_PREALLOC entries");
	struct v_lines *p = malloc(sizeof(struct v_lines));
	__CPROVER_assume(p != 0);
	v_last_lines = p;
	return (p);
}
#ifndef NO_TYPED_MEMMOVE
#undef memmove
/* ini_val_set: memmove(&lines[off + 1], &lines[off], sizeof(ptr) * (count - off)).  CBMC's built-in memmove copies a
 * symbolic number of BYTES; pointers that travel through it lose their points-to information, every later
 * ini->lines[i]->field then reads an unconstrained "invalid object" and cbmc reports counterexamples that do not exist
 * natively (the UNCONFIRMED replays of the set-then-get / set-then-gen shapes). Same semantics, element-wise: */
static void *v_memmove(void *dst, const void *src, size_t n) {
	ini_line_p *d = (ini_line_p *)dst;
	ini_line_p *s = (ini_line_p *)src;
	size_t cnt = n / sizeof(ini_line_p);
	V_ASSERT((n % sizeof(ini_line_p)) == 0 && d == s + 1, "HARNESS memmove only shifts the tail of the lines array up by one slot");
	for (size_t i = cnt; i > 0; i--) d[i - 1] = s[i - 1];	/* overlapping, dst above src: copy from the top */
	return (dst);
}
#endif
#undef memset
static void *v_memset(void *p, int c, size_t n) {
	/* realloc_items: memset(new_array + 0, 0, 64 * sizeof(ptr)) right after reallocarray */
	V_ASSERT(p == (void *)v_last_lines && c == 0 && n == INI_LINES_PREALLOC * sizeof(ini_line_p), "HARNESS memset only zeroes the fresh lines array");
	for (size_t i = 0; i < LINES_TAB; i++) v_last_lines->p[i] = NULL;
	return (p);
}
#endif

/* ---------------- shape ---------------- */
static const uint8_t v_lens[NLN] = { LENS };
static int in_alpha(uint8_t c) {	/* text alphabet (LF only at the shape's line ends) */
	return (c == '[' || c == ']' || c == '=' || c == '\r' || c == ';' || c == 'a' || c == 'A' || c == 'b' || c == ' ');
}
static int in_name_alpha(uint8_t c) {	/* bytes of names / values given to ini_val_set and of queries */
	return (c == 'a' || c == 'A' || c == 'b' || c == ']' || c == ' ');
}

/* ---------------- reference: association list over byte strings ---------------- */
#define RT_EMPTY 0
#define RT_OTHER 1	/* comment or invalid */
#define RT_SECT 3
#define RT_VAL 4
#define RMAX (NLN + 2 * NSET)
#define RDATA 16
struct rline { uint8_t type; uint8_t data[RDATA]; uint8_t dlen, noff, nlen, voff, vlen; };
static struct rline R[RMAX ? RMAX : 1];
static size_t rcount;

static uint8_t lc(uint8_t c) { return ((c >= 'A' && c <= 'Z') ? (uint8_t)(c | 32) : c); }
static int r_eq(const uint8_t *a, size_t alen, const uint8_t *b, size_t blen, int icase) {
	if (alen != blen) return (0);
	for (size_t i = 0; i < alen && i < RDATA; i++) {
		if (icase ? (lc(a[i]) != lc(b[i])) : (a[i] != b[i])) return (0);
	}
	return (1);
}
static void r_classify(struct rline *l) {
	l->type = RT_OTHER; l->noff = l->nlen = l->voff = l->vlen = 0;
	if (l->dlen == 0) { l->type = RT_EMPTY; return; }
	if (l->data[0] == ';' || l->data[0] == '#') return;
	if (l->data[0] == '[') {
		for (size_t i = l->dlen; i > 0; i--) {
			if (l->data[i - 1] == ']') { l->type = RT_SECT; l->noff = 1; l->nlen = (uint8_t)(i - 2); return; }
		}
		return;
	}
	for (size_t i = 0; i < l->dlen && i < RDATA; i++) {
		if (l->data[i] == '=') {
			l->type = RT_VAL; l->noff = 0; l->nlen = (uint8_t)i; l->voff = (uint8_t)(i + 1);
			l->vlen = (uint8_t)(l->dlen - i - 1);
			return;
		}
	}
}
static void r_parse(const uint8_t *text) {
	size_t off = 0;
	rcount = 0;
	for (size_t i = 0; i < NLN; i++) {
		size_t len = v_lens[i];
		int lf_follows = (i + 1 < NLN) || TERM;
		if (lf_follows && len > 0 && text[off + len - 1] == '\r') len--;	/* CR LF line end */
		struct rline *l = &R[rcount++];
		l->dlen = (uint8_t)len;
		for (size_t k = 0; k < len && k < RDATA; k++) l->data[k] = text[off + k];
		r_classify(l);
		off += v_lens[i] + 1;
	}
}
/* index of the line holding (sect, key), or -1 */
static int r_find_sect(const uint8_t *s, size_t slen, int icase) {
	for (size_t i = 0; i < rcount && i < RMAX; i++) {
		if (R[i].type == RT_SECT && r_eq(&R[i].data[R[i].noff], R[i].nlen, s, slen, icase)) return ((int)i);
	}
	return (-1);
}
static int r_find_val(int si, const uint8_t *k, size_t klen, int icase) {
	for (size_t i = (size_t)(si + 1); i < rcount && i < RMAX; i++) {
		if (R[i].type == RT_SECT) return (-1);
		if (R[i].type == RT_VAL && r_eq(&R[i].data[R[i].noff], R[i].nlen, k, klen, icase)) return ((int)i);
	}
	return (-1);
}
static void r_insert(size_t at) {
	for (size_t i = rcount; i > at && i > 0; i--) R[i] = R[i - 1];
	rcount++;
}
/* ordered-map "set": replace the value of the first match, else append to the end of the section (before its
 * trailing blank lines), creating the section at the end of the store if needed */
static void r_set(const uint8_t *s, size_t slen, const uint8_t *k, size_t klen, const uint8_t *v, size_t vlen) {
	int si = r_find_sect(s, slen, 0);
	if (si < 0) {
		struct rline *l = &R[rcount];
		l->type = RT_SECT; l->dlen = (uint8_t)(slen + 2); l->noff = 1; l->nlen = (uint8_t)slen; l->voff = l->vlen = 0;
		l->data[0] = '[';
		for (size_t i = 0; i < slen; i++) l->data[1 + i] = s[i];
		l->data[1 + slen] = ']';
		si = (int)rcount++;
	}
	int vi = r_find_val(si, k, klen, 0);
	if (vi < 0) {
		size_t at = (size_t)si + 1;
		while (at < rcount && R[at].type != RT_SECT) at++;
		while (at > 0 && R[at - 1].type == RT_EMPTY) at--;
		r_insert(at);
		vi = (int)at;
		R[vi].type = RT_VAL; R[vi].noff = 0; R[vi].nlen = (uint8_t)klen;
		for (size_t i = 0; i < klen; i++) R[vi].data[i] = k[i];
		R[vi].data[klen] = '=';
	}
	R[vi].voff = (uint8_t)(R[vi].nlen + 1); R[vi].vlen = (uint8_t)vlen;
	R[vi].dlen = (uint8_t)(R[vi].nlen + 1 + vlen);
	for (size_t i = 0; i < vlen; i++) R[vi].data[R[vi].voff + i] = v[i];
}

/* ---------------- checks ---------------- */
static void check_lookup(ini_p ini, const uint8_t *qs, const uint8_t *qk, int icase, const char *tag) {
	const uint8_t *val = NULL;
	size_t vsz = 777;
	/* ZCONV: size 0 = "NUL-terminated name" convention, per argument (bit 0 section, bit 1 key) */
	const size_t ps = ((ZCONV & 1) ? 0 : QS), pk = ((ZCONV & 2) ? 0 : QK);
	int e = icase ? ini_vali_get(ini, qs, ps, qk, pk, &val, &vsz) : ini_val_get(ini, qs, ps, qk, pk, &val, &vsz);
	int si = r_find_sect(qs, QS, icase);
	int vi = (si < 0) ? -1 : r_find_val(si, qk, QK, icase);
	(void)tag;
	if (vi < 0) {
		V_ASSERT(e == ENOENT, "GET absent (section, key) is reported as ENOENT");
		V_WITNESS("lookup: absent");
		return;
	}
	V_ASSERT(e == 0, "GET present (section, key) is found");
	if (e != 0) return;
	V_ASSERT(vsz == R[vi].vlen, "GET value length equals the reference");
	if (vsz != R[vi].vlen) return;
	for (size_t i = 0; i < vsz && i < RDATA; i++)
		V_ASSERT(val[i] == R[vi].data[R[vi].voff + i], "GET value bytes equal the reference");
	V_WITNESS("lookup: found");
}

void harness(void) {
	V_BEGIN();
	uint8_t *text = v_alloc(TLEN);
	/* build the text: symbolic bytes, line feeds exactly at the shape's line ends */
	{
		size_t off = 0;
		for (size_t i = 0; i < NLN; i++) {
			for (size_t k = 0; k < v_lens[i]; k++) {
				V_ASSUME(in_alpha(IN.text[off + k]));
				text[off + k] = IN.text[off + k];
			}
			off += v_lens[i];
			if (i + 1 < NLN || TERM) text[off++] = '\n';
		}
		V_ASSERT(off == TLEN, "HARNESS shape lengths add up");
	}
#if ZCONV
	uint8_t qs0[QS + 1], qk0[QK + 1];
	for (size_t i = 0; i < QS; i++) qs0[i] = IN.qs[i];
	for (size_t i = 0; i < QK; i++) qk0[i] = IN.qk[i];
	qs0[QS] = 0; qk0[QK] = 0;
	uint8_t *qs = v_buf(qs0, QS + ((ZCONV & 1) ? 1 : 0)), *qk = v_buf(qk0, QK + ((ZCONV & 2) ? 1 : 0));
#else
	uint8_t *qs = v_buf(IN.qs, QS), *qk = v_buf(IN.qk, QK);
#endif
	for (size_t i = 0; i < QS; i++) V_ASSUME(in_name_alpha(qs[i]));
	for (size_t i = 0; i < QK; i++) V_ASSUME(in_name_alpha(qk[i]) && qk[i] != ']');

	ini_p ini = NULL;
	V_ASSERT(ini_create(&ini) == 0 && ini != NULL, "ini_create succeeds");
	V_ASSERT(ini_buf_parse(ini, text, TLEN) == 0, "PARSE succeeds on any text");
	/* representation invariant: a line never claims more storage than it asked the allocator for (the real block is that
	 * small; the typed stub's object is larger). Seeded change C12-ini-line-alloc-sizeof: sizeof(pointer) for sizeof(struct). */
	for (size_t li = 0; li < NLN + 1; li++) {
		if (li < ini->lines_count && NULL != ini->lines[li])
#ifdef REPLAY	/* natively the block is the real one: compare with what malloc actually gave */
			V_ASSERT(sizeof(ini_line_t) + ini->lines[li]->data_allocated_size <= malloc_usable_size(ini->lines[li]),
			    "ALLOC a line's claimed capacity fits the block it allocated");
#else
			V_ASSERT(sizeof(ini_line_t) + ini->lines[li]->data_allocated_size <= ((struct v_rec *)ini->lines[li])->v_req,
			    "ALLOC a line's claimed capacity fits the block it allocated");
#endif
	}
	r_parse(text);
	V_ASSERT(ini->lines_count == rcount, "PARSE one record per text line");

#if NSET > 0
	for (size_t n = 0; n < NSET; n++) {
		uint8_t *s = v_buf(IN.set[n].s, SS), *k = v_buf(IN.set[n].k, SK), *v = v_buf(IN.set[n].v, SV);
		for (size_t i = 0; i < SS; i++) V_ASSUME(in_name_alpha(s[i]));
		for (size_t i = 0; i < SK; i++) V_ASSUME(in_name_alpha(k[i]) && k[i] != ']');
		for (size_t i = 0; i < SV; i++) V_ASSUME(in_name_alpha(v[i]) || v[i] == '=');
		V_ASSERT(ini_val_set(ini, s, SS, k, SK, v, SV) == 0, "SET succeeds");
		r_set(s, SS, k, SK, v, SV);
		V_ASSERT(ini->lines_count == rcount, "SET record count follows the reference");
		/* the value just set is what a lookup returns */
		const uint8_t *val = NULL; size_t vsz = 0;
		V_ASSERT(ini_val_get(ini, s, SS, k, SK, &val, &vsz) == 0 && vsz == SV, "SET then GET returns the value just set (length)");
		for (size_t i = 0; i < SV; i++) V_ASSERT(val[i] == v[i], "SET then GET returns the value just set (bytes)");
	}
#endif

#ifdef KF_VALFIND_ICASE	/* finding val_find_ignores_case: block inputs in which some key name equals the query only up to case */
	for (size_t i = 0; i < rcount && i < RMAX; i++) {
		if (R[i].type == RT_VAL)
			V_ASSUME(!(r_eq(&R[i].data[R[i].noff], R[i].nlen, qk, QK, 1) && !r_eq(&R[i].data[R[i].noff], R[i].nlen, qk, QK, 0)));
	}
#endif

#if MODE == M_GET
	check_lookup(ini, qs, qk, 0, "exact");
	check_lookup(ini, qs, qk, 1, "icase");
#endif

#if MODE == M_ENUM
	/* enumeration yields sections, and within each section its entries, in file order */
	{
		size_t so = 0, ri = 0;
		const uint8_t *nm; size_t nsz;
		for (size_t guard = 0; guard <= RMAX; guard++) {
			int e = ini_sect_enum(ini, &so, &nm, &nsz);
			while (ri < rcount && R[ri].type != RT_SECT) ri++;
			if (ri >= rcount) { V_ASSERT(e == ENOENT, "ENUM no more sections than the reference"); break; }
			V_ASSERT(e == 0 && so == ri, "ENUM next section is the next section line in file order");
			if (e != 0) break;
			V_ASSERT(nsz == R[ri].nlen, "ENUM section name length");
			/* entries of this section */
			size_t vo = 0, rj = ri + 1;
			const uint8_t *kn, *vv; size_t ksz, vsz;
			for (size_t g2 = 0; g2 <= RMAX; g2++) {
				int e2 = ini_sect_val_enum(ini, so, &vo, &kn, &ksz, &vv, &vsz);
				while (rj < rcount && R[rj].type != RT_SECT && R[rj].type != RT_VAL) rj++;
				if (rj >= rcount || R[rj].type == RT_SECT) { V_ASSERT(e2 == ENOENT, "ENUM no more entries than the reference"); break; }
				V_ASSERT(e2 == 0 && vo == rj, "ENUM next entry is the next key line of the section in file order");
				if (e2 != 0) break;
				V_ASSERT(ksz == R[rj].nlen && vsz == R[rj].vlen, "ENUM entry name/value lengths");
				V_WITNESS("enum: an entry");
				vo++; rj++;
			}
			so++; ri++;
		}
		V_WITNESS("enum: done");
	}
#endif

#if MODE == M_GEN || MODE == M_RT
	{
		size_t calc = 777, expect = 0, got = 777;
		V_ASSERT(ini_buf_calc_size(ini, &calc) == 0, "CALC succeeds");
		for (size_t i = 0; i < rcount && i < RMAX; i++) expect += (size_t)R[i].dlen + 2;
		V_ASSERT(calc == expect, "CALC size equals reference lines + CR LF each");
		uint8_t *out = v_alloc(GCAP);
#ifdef KF_GEN_OVERRUN	/* finding gen_short_buffer_overrun: ini_buf_gen compares each line with the WHOLE capacity, not with
			 * what is left; blocked input class: buffer shorter than the total although every single line fits */
		if (GCAP < calc) {
			int each_fits = 1;
			for (size_t i = 0; i < rcount && i < RMAX; i++) if ((size_t)R[i].dlen + 2 > GCAP) each_fits = 0;
			V_ASSUME(!each_fits);
		}
#endif
		int e = ini_buf_gen(ini, out, GCAP, &got);
		if (GCAP >= calc) {
			V_ASSERT(e == 0, "GEN into a buffer of at least the calculated size succeeds");
			V_ASSERT(got == calc, "GEN writes exactly the calculated number of bytes");
			size_t off = 0;
			for (size_t i = 0; i < rcount && i < RMAX; i++) {
				for (size_t k = 0; k < R[i].dlen && k < RDATA; k++)
					V_ASSERT(out[off + k] == R[i].data[k], "GEN line bytes equal the reference");
				off += R[i].dlen;
				V_ASSERT(out[off] == '\r' && out[off + 1] == '\n', "GEN lines end in CR LF");
				off += 2;
			}
			if (GCAP == calc) V_WITNESS("gen: exact size buffer");
			V_WITNESS("gen: success");
#if MODE == M_RT
			/* text round trip: parse the generated text into a second store; every lookup agrees */
			ini_p ini2 = NULL;
			V_ASSERT(ini_create(&ini2) == 0 && ini2 != NULL, "ini_create succeeds");
			V_ASSERT(ini_buf_parse(ini2, out, got) == 0, "RT re-parse succeeds");
			V_ASSERT(ini2->lines_count == ini->lines_count, "RT same number of lines");
			for (int ic = 0; ic < 2; ic++) {
				const uint8_t *v1 = NULL, *v2 = NULL; size_t z1 = 0, z2 = 0;
				int e1 = ic ? ini_vali_get(ini, qs, QS, qk, QK, &v1, &z1) : ini_val_get(ini, qs, QS, qk, QK, &v1, &z1);
				int e2 = ic ? ini_vali_get(ini2, qs, QS, qk, QK, &v2, &z2) : ini_val_get(ini2, qs, QS, qk, QK, &v2, &z2);
				V_ASSERT(e1 == e2, "RT lookup result code agrees after the round trip");
				if (e1 == 0 && e2 == 0) {
					V_ASSERT(z1 == z2, "RT value length agrees after the round trip");
					for (size_t i = 0; i < z1 && i < z2 && i < RDATA; i++) V_ASSERT(v1[i] == v2[i], "RT value bytes agree after the round trip");
					V_WITNESS("rt: found in both");
				}
			}
			V_WITNESS("rt: done");
#endif
		} else {
			V_ASSERT(e != 0, "GEN into a buffer smaller than the calculated size fails");
			V_ASSERT(got <= GCAP, "GEN reports not more than the capacity");
			V_WITNESS("gen: short buffer");
		}
	}
#endif
	V_WITNESS("end");
}
