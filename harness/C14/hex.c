/* C14: hex round trip. Shape: LEN (bytes), EXTRA (spare hex capacity). */
#include "verif.h"
#include <errno.h>
#include <sys/types.h>
#include "utils/buf_str.c"

struct in_s { uint8_t data[LEN + 1]; uint8_t upper; };
#include "verif_in.h"

void harness(void) {
	V_BEGIN();
	uint8_t *bin = v_buf(IN.data, LEN);
	const size_t hcap = 2 * LEN + EXTRA;
	uint8_t *hex = (uint8_t *)v_alloc(hcap);
	size_t hsz = 777;
	int r = cvt_bin2hex(bin, LEN, 1, hex, hcap, &hsz);
	V_ASSERT(r == 0, "bin2hex succeeds with 2n (+spare) bytes");
	V_ASSERT(hsz == 2 * LEN, "reported hex length == 2n == bytes produced");
	for (size_t i = 0; i < LEN; i++) {
		uint8_t hi = IN.data[i] >> 4, lo = IN.data[i] & 15;
		V_ASSERT(hex[2 * i] == (hi < 10 ? '0' + hi : 'a' + hi - 10), "high nibble digit");
		V_ASSERT(hex[2 * i + 1] == (lo < 10 ? '0' + lo : 'a' + lo - 10), "low nibble digit");
	}
#if EXTRA > 0
	V_ASSERT(hex[2 * LEN] == 0, "NUL when there is room");
#endif
	/* parser accepts either case */
	for (size_t i = 0; i < 2 * LEN; i++)
		if (((IN.upper >> (i & 7)) & 1) && hex[i] >= 'a') hex[i] = (uint8_t)(hex[i] - 'a' + 'A');
	uint8_t *back = (uint8_t *)v_alloc(LEN);
	size_t bsz = 777;
	r = cvt_hex2bin(hex, 2 * LEN, 0, back, LEN, &bsz);
	V_ASSERT(r == 0, "hex2bin succeeds into exactly n bytes");
	V_ASSERT(bsz == LEN, "reported binary length == n");
	for (size_t i = 0; i < LEN; i++)
		V_ASSERT(back[i] == IN.data[i], "hex2bin(bin2hex(x)) == x");
#if LEN > 1
	{
		size_t need = 777;
		uint8_t *small = (uint8_t *)v_alloc(2 * LEN - 1);
		int r2 = cvt_bin2hex(bin, LEN, 1, small, 2 * LEN - 1, &need);
		V_ASSERT(r2 == EOVERFLOW && need == 2 * LEN, "short hex buffer: error and required size");
	}
#endif
	V_WITNESS_MUST("end");
}
