/* C14: http_url_decode inverts RFC 3986 percent-encoding. Shape: PAT = string of 'L' (literal unreserved byte) and
 * 'P' (percent-escaped byte, %HH with hex digits in either case). */
#include "verif.h"
#include <errno.h>
#include <sys/types.h>
#include "proto/http.c"

#define NPAT (sizeof(PAT) - 1)
struct in_s { uint8_t s[NPAT + 1]; uint8_t ucase[NPAT + 1]; };
#include "verif_in.h"

static uint8_t hexdig(uint8_t v, int upper) { return (uint8_t)(v < 10 ? '0' + v : (upper ? 'A' : 'a') + v - 10); }

void harness(void) {
	V_BEGIN();
	static const char pat[] = PAT;
	size_t elen = 0;
	for (size_t i = 0; i < NPAT; i++) elen += (pat[i] == 'P') ? 3 : 1;
	uint8_t *enc = (uint8_t *)v_alloc(elen);
	size_t o = 0;
	for (size_t i = 0; i < NPAT; i++) {
		uint8_t c = IN.s[i];
		if (pat[i] == 'P') {
			enc[o++] = '%';
			enc[o++] = hexdig(c >> 4, IN.ucase[i] & 1);
			enc[o++] = hexdig(c & 15, IN.ucase[i] & 2);
		} else {
			V_ASSUME((c >= 'A' && c <= 'Z') || (c >= 'a' && c <= 'z') || (c >= '0' && c <= '9') ||
			    c == '-' || c == '.' || c == '_' || c == '~');
			enc[o++] = c;
		}
	}
	uint8_t *out = (uint8_t *)v_alloc(NPAT + 1);
	size_t n = http_url_decode(enc, elen, out, NPAT + 1);
	V_ASSERT(n == NPAT, "reported length == number of decoded bytes");
	for (size_t i = 0; i < NPAT; i++)
		V_ASSERT(out[i] == IN.s[i], "url_decode(percent_encode(s)) == s");
	V_ASSERT(out[NPAT] == 0, "NUL terminated");
	V_WITNESS_MUST("end");
}
