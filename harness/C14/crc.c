/* C14: CRC-32 variants equal the catalogue definition (bit-at-a-time, from poly/init/refin/xorout).
 * Shape: LEN, MODE: 0 = one-shot macro + update macro on LEN bytes; 1 = 256-entry-table kernel, one byte, symbolic state;
 * 2 = 16-entry (nibble) kernel, one byte, symbolic state; 3 = long buffer, concrete prefix + symbolic tail.  VAR selects the variant. */
#include "verif.h"
#include <errno.h>
#include <sys/types.h>
#include "math/crc32.h"

struct in_s { uint8_t d[LEN + 1]; uint32_t prev; uint8_t split; };
#include "verif_in.h"

/* catalogue parameters (reveng CRC catalogue), written independently of the library's tables */
#if VAR == 0	/* CRC-32/BZIP2 */
#define POLY 0x04c11db7u
#define INIT 0xffffffffu
#define REFL 0
#define XOUT 0xffffffffu
#define ONESHOT(p, n) crc32a(p, n)
#define UPDATE(c, p, n) crc32a_update(c, p, n)
#define T256 crc32_tbl256_04c11db7
#define T16 crc32_tbl256_04c11db7
#elif VAR == 1	/* CRC-32/CKSUM */
#define POLY 0x04c11db7u
#define INIT 0x00000000u
#define REFL 0
#define XOUT 0xffffffffu
#define ONESHOT(p, n) crc32cksum(p, n)
#define UPDATE(c, p, n) crc32cksum_update(c, p, n)
#define T256 crc32_tbl256_04c11db7
#define T16 crc32_tbl256_04c11db7
#elif VAR == 2	/* CRC-32/MPEG-2 */
#define POLY 0x04c11db7u
#define INIT 0xffffffffu
#define REFL 0
#define XOUT 0x00000000u
#define ONESHOT(p, n) crc32mpeg2(p, n)
#define UPDATE(c, p, n) crc32mpeg2_update(c, p, n)
#define T256 crc32_tbl256_04c11db7
#define T16 crc32_tbl256_04c11db7
#elif VAR == 3	/* CRC-32/ISO-HDLC */
#define POLY 0x04c11db7u
#define INIT 0xffffffffu
#define REFL 1
#define XOUT 0xffffffffu
#define ONESHOT(p, n) crc32b(p, n)
#define UPDATE(c, p, n) crc32b_update(c, p, n)
#define T256 crc32_tbl256_edb88320
#define T16 crc32_tbl16_edb88320
#elif VAR == 4	/* CRC-32/JAMCRC */
#define POLY 0x04c11db7u
#define INIT 0xffffffffu
#define REFL 1
#define XOUT 0x00000000u
#define ONESHOT(p, n) crc32jamcrc(p, n)
#define UPDATE(c, p, n) crc32jamcrc_update(c, p, n)
#define T256 crc32_tbl256_edb88320
#define T16 crc32_tbl16_edb88320
#elif VAR == 5	/* CRC-32/ISCSI (Castagnoli) */
#define POLY 0x1edc6f41u
#define INIT 0xffffffffu
#define REFL 1
#define XOUT 0xffffffffu
#define ONESHOT(p, n) crc32c(p, n)
#define UPDATE(c, p, n) crc32c_update(c, p, n)
#define T256 crc32_tbl256_1edc6f41
#define T16 crc32_tbl16_1edc6f41
#elif VAR == 6	/* CRC-32/BASE91-D */
#define POLY 0xa833982bu
#define INIT 0xffffffffu
#define REFL 1
#define XOUT 0xffffffffu
#define ONESHOT(p, n) crc32d(p, n)
#define UPDATE(c, p, n) crc32d_update(c, p, n)
#define T256 crc32_tbl256_a833982b
#define T16 crc32_tbl16_a833982b
#else		/* CRC-32/AIXM */
#define POLY 0x814141abu
#define INIT 0x00000000u
#define REFL 0
#define XOUT 0x00000000u
#define ONESHOT(p, n) crc32q(p, n)
#define UPDATE(c, p, n) crc32q_update(c, p, n)
#define T256 crc32_tbl256_814141ab
#define T16 crc32_tbl256_814141ab
#endif

static uint32_t bitrev32(uint32_t x) {
	uint32_t r = 0;
	for (int i = 0; i < 32; i++) { r = (r << 1) | (x & 1); x >>= 1; }
	return (r);
}
/* register-level definition: one message byte, bit at a time */
static uint32_t ref_byte(uint32_t st, uint8_t b) {
#if REFL
	const uint32_t rp = bitrev32(POLY);
	st ^= b;
	for (int k = 0; k < 8; k++) st = (st & 1) ? ((st >> 1) ^ rp) : (st >> 1);
#else
	st ^= ((uint32_t)b) << 24;
	for (int k = 0; k < 8; k++) st = (st & 0x80000000u) ? ((st << 1) ^ POLY) : (st << 1);
#endif
	return (st);
}

void harness(void) {
	V_BEGIN();
	uint8_t *buf = v_buf(IN.d, LEN);
#if MODE == 0
	uint32_t st = INIT;
	for (size_t i = 0; i < LEN; i++) st = ref_byte(st, IN.d[i]);
	V_ASSERT(ONESHOT(buf, LEN) == (st ^ XOUT), "one-shot CRC == catalogue definition");
	/* incremental: continue from an arbitrary previous CRC value */
	uint32_t s2 = IN.prev ^ XOUT;
	for (size_t i = 0; i < LEN; i++) s2 = ref_byte(s2, IN.d[i]);
	V_ASSERT(UPDATE(IN.prev, buf, LEN) == (s2 ^ XOUT), "update from any previous CRC == definition");
	size_t k = IN.split;
	V_ASSUME(k <= LEN);
	uint32_t c1 = ONESHOT(buf, k);
	V_ASSERT(UPDATE(c1, buf + k, LEN - k) == (st ^ XOUT), "splitting the data across update calls does not matter");
#elif MODE == 3
	/* long buffer: concrete prefix, symbolic last two bytes (crosses the 16-entry / 256-entry table dispatch at 64) */
	for (size_t i = 0; i + 2 < LEN; i++) buf[i] = (uint8_t)(i * 37 + 11);
	uint32_t st = INIT;
	for (size_t i = 0; i < LEN; i++) st = ref_byte(st, buf[i]);
	V_ASSERT(ONESHOT(buf, LEN) == (st ^ XOUT), "one-shot CRC == catalogue definition");
#elif MODE == 1
#if REFL
	V_ASSERT(crc32_reflect8(T256, IN.prev, buf, 1) == ref_byte(IN.prev, IN.d[0]), "256-entry table step == 8 bit steps (any state, any byte)");
#else
	V_ASSERT(crc32_normal8(T256, IN.prev, buf, 1) == ref_byte(IN.prev, IN.d[0]), "256-entry table step == 8 bit steps (any state, any byte)");
#endif
#else
#if REFL
	V_ASSERT(crc32_reflect4(T16, IN.prev, buf, 1) == ref_byte(IN.prev, IN.d[0]), "nibble table step == 8 bit steps (any state, any byte)");
#else
	V_ASSERT(crc32_normal4(T16, IN.prev, buf, 1) == ref_byte(IN.prev, IN.d[0]), "nibble table step == 8 bit steps (any state, any byte)");
#endif
#endif
	V_WITNESS_MUST("end");
}
