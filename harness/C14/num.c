/* C14: integer -> text -> integer round trip, canonical decimal text, reported length.
 * Build parameters: T_FMT (e.g. u322str), T_PARSE (e.g. str2u32), T_TYPE, T_SIGNED, T_CH (char|uint8_t),
 * NDIG (magnitudes with exactly NDIG decimal digits; fixes loop trip counts), CAP = buffer capacity (concrete:
 * symbolic allocation sizes cost 30x in CBMC's memory model).
 *
 * Canonical text is decided WITHOUT a digit-by-digit reference (a reference built from sum(d_i*10^i) made the
 * equality query intractable for >= 9 digits): the text is canonical iff  optional '-' only for negatives,
 * exactly `rlen` characters, all digits, no leading zero unless the magnitude is a single digit, NUL at [len],
 * and the Horner value of the digits equals the magnitude (uniqueness of decimal representation). */
#include "verif.h"
#include <errno.h>
#include <sys/types.h>
#include "utils/num2str.h"
#include "utils/str2num.h"

struct in_s { T_TYPE v; };
#include "verif_in.h"

static const uint64_t p10[20] = { 1ull, 10ull, 100ull, 1000ull, 10000ull, 100000ull, 1000000ull, 10000000ull,
	100000000ull, 1000000000ull, 10000000000ull, 100000000000ull, 1000000000000ull, 10000000000000ull,
	100000000000000ull, 1000000000000000ull, 10000000000000000ull, 100000000000000000ull,
	1000000000000000000ull, 10000000000000000000ull };

void harness(void) {
	V_BEGIN();
	T_TYPE v = IN.v;
	int neg = (T_SIGNED && v < 0);
	uint64_t mag = neg ? (0 - (uint64_t)(int64_t)v) : (uint64_t)v;
	V_ASSUME(mag >= (NDIG == 1 ? 0 : p10[NDIG - 1]));
	if (NDIG < 20) V_ASSUME(mag < p10[NDIG]);
#ifdef BASE	/* wide magnitudes, arithmetic properties only: concrete base + symbolic offset window (stated bound) */
	V_ASSUME(mag >= (uint64_t)(BASE) && mag - (uint64_t)(BASE) < (uint64_t)(BASEW));
#endif
	size_t nd = NDIG;
	size_t rlen = nd + (size_t)neg;

	size_t cap = CAP;
	T_CH *buf = (T_CH *)v_alloc(cap);
	size_t len = 777;
	int r = T_FMT(v, buf, cap, &len);
#if CAP == 0
	V_ASSERT(r == EINVAL, "zero capacity is refused");
	V_WITNESS("zero capacity");
	return;
#endif
	if (cap < rlen + 1) {
		V_ASSERT(r == ENOSPC, "too small buffer reports ENOSPC");
		V_ASSERT(len == rlen + 1, "required size reported = text length + NUL");
		V_WITNESS("enospc");
		return;
	}
	V_ASSERT(r == 0, "sufficient buffer (incl. the exactly required size) succeeds");
	V_ASSERT(len == rlen, "reported length equals canonical length");
	V_ASSERT(buf[rlen] == 0, "NUL terminated at the reported length");
	if (neg) V_ASSERT(buf[0] == (T_CH)'-', "negative values start with '-'");
	uint64_t acc = 0;
	for (size_t i = (size_t)neg; i < rlen; i++) {
		V_ASSERT(buf[i] >= (T_CH)'0' && buf[i] <= (T_CH)'9', "only decimal digits after the optional sign");
		acc = acc * 10 + (uint64_t)(buf[i] - '0');
	}
	V_ASSERT(acc == mag, "digits denote the magnitude (Horner value)");
	if (nd > 1) V_ASSERT(buf[neg] != (T_CH)'0', "no leading zero");
	T_TYPE back = T_PARSE(buf, len);
	V_ASSERT(back == v, "parse(format(v)) == v");
	if (neg) V_WITNESS("negative value formatted");
	if (cap == rlen + 1) V_WITNESS("exact-size buffer");
	V_WITNESS("success path");
}
