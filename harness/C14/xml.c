/* C14: xml_encode == entity reference encoder; xml_decode(xml_encode(s)) == s; reported sizes. Shape: LEN. */
#include "verif.h"
#include <errno.h>
#include <sys/types.h>
/* cbmc 6.11's built-in memcpy model mis-copies when both the source (one of several string literals of different
 * sizes, chosen by a symbolic index) and the size are symbolic [observed: "&apos;" arrived as "&apos\\0"; the native
 * replay disagreed]. A byte loop is precise. CBMC only; natively the real memcpy is used. */
#ifndef REPLAY
#include <string.h>
static void *v_memcpy(void *d, const void *s, size_t n) {
	unsigned char *dp = (unsigned char *)d; const unsigned char *sp = (const unsigned char *)s;
	for (size_t i = 0; i < n; i++) dp[i] = sp[i];
	return (d);
}
#define memcpy v_memcpy
#endif
#include "utils/xml.c"
#ifndef REPLAY
#undef memcpy
#endif

struct in_s { uint8_t s[LEN + 1]; };
#include "verif_in.h"

static size_t ref_encode(const uint8_t *s, size_t n, uint8_t *out) {
	size_t o = 0;
	for (size_t i = 0; i < n; i++) {
		const char *e = 0;
		switch (s[i]) {
		case '\'': e = "&apos;"; break;
		case '"': e = "&quot;"; break;
		case '&': e = "&amp;"; break;
		case '<': e = "&lt;"; break;
		case '>': e = "&gt;"; break;
		}
		if (e) { while (*e) out[o++] = (uint8_t)*e++; } else out[o++] = s[i];
	}
	return (o);
}

void harness(void) {
	V_BEGIN();
	/* strings over the XML special characters plus the letters that occur inside entity names */
	for (size_t i = 0; i < LEN; i++) {
		uint8_t c = IN.s[i];
		V_ASSUME(c == '\'' || c == '"' || c == '&' || c == '<' || c == '>' || c == 'a' || c == 'l' || c == 't' ||
		    c == ';' || c == 'm' || c == 'p' || c == 'x');
	}
	uint8_t *src = v_buf(IN.s, LEN);
	uint8_t ref[6 * LEN + 1];
	size_t rn = ref_encode(IN.s, LEN, ref);
	const size_t cap = 6 * LEN + 2;
#if MODE == 0
	uint8_t *enc = (uint8_t *)v_alloc(cap);
	size_t esz = 777;
	int r = xml_encode(src, LEN, enc, cap, &esz);
	V_ASSERT(r == 0, "xml_encode succeeds with ample room");
	V_ASSERT(esz == rn, "reported encoded size == bytes of the reference encoding");
	for (size_t i = 0; i < 6 * LEN; i++)
		if (i < rn) V_ASSERT(enc[i] == ref[i], "encoded text == entity encoding");
#else
	int r;
	uint8_t *dec = (uint8_t *)v_alloc(cap);
	size_t dsz = 777;
	/* decode the reference text (== enc by the assertion above; decouples the two proofs) */
	uint8_t *enc2 = (uint8_t *)v_alloc(6 * LEN + 1);
	memcpy(enc2, ref, 6 * LEN + 1 > rn ? rn : 0);
	r = xml_decode(enc2, rn, dec, cap, &dsz);
	V_ASSERT(r == 0, "xml_decode succeeds");
	V_ASSERT(dsz == LEN, "decoded size == original size");
	for (size_t i = 0; i < LEN; i++)
		V_ASSERT(dec[i] == IN.s[i], "xml_decode(xml_encode(s)) == s");
#endif
	V_WITNESS_MUST("end");
}
