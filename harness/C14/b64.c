/* C14: Base64 encode == RFC 4648, decode inverts, tolerant decoder with interleaved non-alphabet bytes.
 * Shape: LEN (data bytes), NINS (inserted junk bytes for decode_fmt). */
#include "verif.h"
#include <errno.h>
#include <sys/types.h>
#include "utils/base64.h"

#define ENC (4 * ((LEN + 2) / 3))
struct in_s { uint8_t data[LEN + 1]; uint8_t junk[NINS + 1]; uint32_t mask; };
#include "verif_in.h"

/* RFC 4648 section 4 alphabet, arithmetically (independent of the library's table string). */
static uint8_t ref_alpha(uint32_t i) {
	if (i < 26) return (uint8_t)('A' + i);
	if (i < 52) return (uint8_t)('a' + (i - 26));
	if (i < 62) return (uint8_t)('0' + (i - 52));
	return (uint8_t)(i == 62 ? '+' : '/');
}
static int in_alpha(uint8_t c) {
	return ((c >= 'A' && c <= 'Z') || (c >= 'a' && c <= 'z') || (c >= '0' && c <= '9') || c == '+' || c == '/');
}
/* RFC 4648: 24-bit groups, 6-bit indices, '=' padding. */
static void ref_encode(const uint8_t *d, size_t n, uint8_t *out) {
	size_t o = 0;
	for (size_t i = 0; i < n; i += 3) {
		size_t rem = n - i;
		uint32_t g = (uint32_t)d[i] << 16;
		if (rem > 1) g |= (uint32_t)d[i + 1] << 8;
		if (rem > 2) g |= (uint32_t)d[i + 2];
		out[o++] = ref_alpha((g >> 18) & 63);
		out[o++] = ref_alpha((g >> 12) & 63);
		out[o++] = (rem > 1) ? ref_alpha((g >> 6) & 63) : (uint8_t)'=';
		out[o++] = (rem > 2) ? ref_alpha(g & 63) : (uint8_t)'=';
	}
}

void harness(void) {
	V_BEGIN();
	uint8_t *src = v_buf(IN.data, LEN);
	uint8_t ref[ENC + 1];
	ref_encode(IN.data, LEN, ref);

	/* encode (capacity ENC+1: the terminator the library writes at dst[ENC] is C12's subject) */
	uint8_t *enc = (uint8_t *)v_alloc(ENC + 1);
	size_t esz = 777;
	int r = base64_encode(src, LEN, enc, ENC + 1, &esz);
	V_ASSERT(r == 0, "encode succeeds");
	V_ASSERT(esz == ENC, "reported encoded length == 4*ceil(n/3) == bytes produced");
	for (size_t i = 0; i < ENC; i++)
		V_ASSERT(enc[i] == ref[i], "encoded text equals RFC 4648");
#if LEN > 0
	V_ASSERT(enc[ENC] == 0, "NUL after the text");
	/* too small: reports the required size, writes nothing */
	{
		uint8_t *small = (uint8_t *)v_alloc(ENC - 1);
		size_t need = 777;
		int r2 = base64_encode(src, LEN, small, ENC - 1, &need);
		V_ASSERT(r2 == ENOBUFS && need == ENC, "short buffer: ENOBUFS and required size");
	}
#endif
	/* decode inverts encode */
	uint8_t *dec = (uint8_t *)v_alloc(LEN + 4);
	size_t dsz = 777;
	r = base64_decode(enc, ENC, dec, LEN + 4, &dsz);
	V_ASSERT(r == 0, "decode of canonical text succeeds");
	V_ASSERT(dsz == LEN, "reported decoded length == original length");
	for (size_t i = 0; i < LEN; i++)
		V_ASSERT(dec[i] == IN.data[i], "decode(encode(x)) == x");

	/* tolerant decoder: NINS non-alphabet bytes interleaved at solver-chosen positions */
#if NINS > 0 && LEN > 0
	{
		const size_t tot = ENC + NINS;
		uint8_t *txt = (uint8_t *)v_alloc(tot);
		size_t ei = 0, ji = 0;
		for (size_t p = 0; p < tot; p++) {
			int want_junk = (int)((IN.mask >> p) & 1);
			if ((want_junk && ji < NINS) || ei >= ENC) {
				V_ASSUME(!in_alpha(IN.junk[ji]));
				txt[p] = IN.junk[ji++];
			} else {
				txt[p] = ref[ei++];
			}
		}
		V_ASSUME(ji == NINS && ei == ENC);
		uint8_t *out = (uint8_t *)v_alloc(tot + 1);
		size_t osz = 777;
		r = base64_decode_fmt(txt, tot, out, tot + 1, &osz);
		V_ASSERT(r == 0, "tolerant decode succeeds");
		V_ASSERT(osz == LEN, "tolerant decode length");
		for (size_t i = 0; i < LEN; i++)
			V_ASSERT(out[i] == IN.data[i], "tolerant decode skips non-alphabet bytes and recovers x");
		V_WITNESS("tolerant path");
	}
#endif
	V_WITNESS_MUST("end");
}
