import os
TYPES = [  # name, ctype, signed, bits, max decimal digits
    ("u8", "uint8_t", 0, 8, 3), ("u16", "uint16_t", 0, 16, 5), ("u32", "uint32_t", 0, 32, 10), ("u64", "uint64_t", 0, 64, 20),
    ("usize", "size_t", 0, 64, 20), ("s8", "int8_t", 1, 8, 3), ("s16", "int16_t", 1, 16, 5), ("s32", "int32_t", 1, 32, 10),
    ("s64", "int64_t", 1, 64, 19), ("ssize", "ssize_t", 1, 64, 19)]
WIDE = 7   # from this many digits on, the arithmetic properties are decided on windows only
SOLVER = os.environ.get("C14_SOLVER", "cadical")

META = {
    "bounds": "integers: full value range of each of the ten types split by decimal digit count k, capacities {0,1,k..k+3} "
              "(thorough: 0..k+3): memory safety, error codes, reported sizes, sign, digit-ness, NUL, no leading zero for ALL "
              "values; value-of-digits (Horner) and parse(format(v))==v for ALL values below 10^6 and, for magnitudes with "
              ">= 7 digits, on windows [base, base+10^5) around class minimum, class/type maximum, 2^31, 2^32, 2^63 and "
              "equally spaced interior bases",
    "outside": "arithmetic round-trip for >= 7 digit magnitudes outside the listed windows (SAT/SMT back ends did not decide "
               "10 chained 64-bit divisions by ten with > 20 free bits within 100 s)",
    "assumptions": ["malloc never fails in harness allocations (v_alloc assumes non-NULL)",
                    "uniqueness of decimal representation (digits + Horner value + no leading zero => canonical text)"],
}

def num_jobs(tier):
    out = []
    for name, ct, sg, bits, nd in TYPES:
        tmax = (1 << (bits - 1)) if sg else (1 << bits) - 1     # largest magnitude
        for ch, pre in (("char", ""), ("uint8_t", "u")):
            if tier == "quick" and ch == "uint8_t" and name not in ("u32", "s16"):
                continue
            classes = list(range(1, nd + 1))
            if tier == "quick" and nd > 5:
                classes = [1, 2, 6, 7, 10, nd] if nd > 10 else [1, 2, 5, nd]
            for k in sorted(set(classes)):
                caps = list(range(0, k + 4)) if tier == "thorough" else [0, k, k + 1, k + 2]
                if tier == "quick" and ch == "uint8_t":
                    caps = [k, k + 1, k + 2]
                base_defs = {"T_FMT": "%s2%sstr" % (name, pre), "T_PARSE": "%sstr2%s" % (pre, name),
                             "T_TYPE": ct, "T_SIGNED": sg, "T_CH": ch, "NDIG": k}
                for cap in sorted(set(caps)):
                    wide = (k >= WIDE and cap >= k + 1)
                    out.append({
                        "name": "num-%s-%sstr-d%d-c%d%s" % (name, pre, k, cap, "-main" if wide else ""), "src": "num.c",
                        "prop_exclude": "Horner|parse\\(" if wide else None,
                        "defs": dict(base_defs, CAP=cap), "unwind": 22, "solver": SOLVER,
                        "shape": "type=%s text=%s decimal digits=%d capacity=%d, all magnitudes with that many digits" % (ct, ch, k, cap),
                        "desc": ("memory safety, error codes, sizes, sign, digits, NUL, no leading zero" if wide else
                                 "format->canonical text, exact/short buffers, reported sizes, parse back == v"),
                    })
                if k >= WIDE:
                    lo, top = 10 ** (k - 1), min(10 ** k - 1, tmax)
                    W = 100000
                    bases = {lo, top - W + 1, (lo + top) // 2}
                    for b in (1 << 31, 1 << 32, 1 << 63):
                        for c in (b - W // 2,):
                            if lo <= c and c + W - 1 <= top:
                                bases.add(c)
                    if tier == "thorough":
                        bases |= {lo + i * ((top - lo) // 8) for i in range(1, 8)}
                    acaps = [k + 2] if tier == "quick" else [k + 1, k + 2, k + 3]
                    for bi, b in enumerate(sorted(bases)):
                        for cap in acaps:
                            out.append({
                                "name": "num-%s-%sstr-d%d-c%d-arith-b%d" % (name, pre, k, cap, bi), "src": "num.c",
                                "prop_include": "Horner|parse\\(",
                                "defs": dict(base_defs, CAP=cap, BASE="%dull" % b, BASEW="%dull" % W), "unwind": 22, "solver": SOLVER,
                                "shape": "type=%s text=%s decimal digits=%d capacity=%d magnitude in [%d, %d+%d)" % (ct, ch, k, cap, b, b, W),
                                "desc": "Horner value of output digits == magnitude; parse(format(v)) == v",
                            })
    return out

def jobs(tier):
    return num_jobs(tier)
