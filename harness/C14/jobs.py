import os
TYPES = [  # name, ctype, signed, bits, max decimal digits
    ("u8", "uint8_t", 0, 8, 3), ("u16", "uint16_t", 0, 16, 5), ("u32", "uint32_t", 0, 32, 10), ("u64", "uint64_t", 0, 64, 20),
    ("usize", "size_t", 0, 64, 20), ("s8", "int8_t", 1, 8, 3), ("s16", "int16_t", 1, 16, 5), ("s32", "int32_t", 1, 32, 10),
    ("s64", "int64_t", 1, 64, 19), ("ssize", "ssize_t", 1, 64, 19)]
WIDE = 7   # from this many digits on, the arithmetic properties are decided on windows only
SOLVER = os.environ.get("C14_SOLVER", "cadical")

META = {
    "bounds": "integers: full value range of each of the ten types split by decimal digit count k, capacities {0,1,k..k+3} "
              "(thorough: 0..k+3): memory safety, error codes, reported sizes, sign, digit-ness, NUL, no leading zero for ALL "
              "values; value-of-digits (Horner) and parse(format(v))==v for ALL values below 10^6 and, for magnitudes with "
              ">= 7 digits, on windows [base, base+10^5) around class minimum, class/type maximum, 2^31, 2^32, 2^63 and "
              "equally spaced interior bases",
    "outside": "arithmetic round-trip for >= 7 digit magnitudes outside the listed windows (SAT/SMT back ends did not decide "
               "10 chained 64-bit divisions by ten with > 20 free bits within 100 s)",
    "assumptions": ["malloc never fails in harness allocations (v_alloc assumes non-NULL)",
                    "uniqueness of decimal representation (digits + Horner value + no leading zero => canonical text)",
                    "mem_replace_arr compares a found pointer with a possibly-NULL pointer using '<' (ISO C undefined, false on every "
                    "flat-address platform, and the NULL case is re-tested right after): cbmc's 'same object violation' there is "
                    "ignored in the xml jobs and reported separately in evidence, it is not observable under ASan/UBSan",
                    "libc models lib/libc_models.h (memchr, memrchr, memmem, explicit_bzero) under CBMC"],
}

def num_jobs(tier):
    out = []
    for name, ct, sg, bits, nd in TYPES:
        tmax = (1 << (bits - 1)) if sg else (1 << bits) - 1     # largest magnitude
        for ch, pre in (("char", ""), ("uint8_t", "u")):
            classes = list(range(1, nd + 1))
            if tier == "quick" and nd > 5:
                classes = [1, 2, 6, 7, 10, nd] if nd > 10 else [1, 2, 5, nd]
            if tier == "quick" and ch == "uint8_t" and name not in ("u32", "s16"):
                # the uint8_t* spellings are separate functions: at least the widest digit class of every type
                # (seeded change C14-ustr2s64-int32, a copy/paste slip in one of them, was missed without it)
                classes = [nd]
            for k in sorted(set(classes)):
                caps = list(range(0, k + 4)) if tier == "thorough" else [0, k, k + 1, k + 2]
                if ch == "uint8_t":
                    caps = [k, k + 1, k + 2]
                base_defs = {"T_FMT": "%s2%sstr" % (name, pre), "T_PARSE": "%sstr2%s" % (pre, name),
                             "T_TYPE": ct, "T_SIGNED": sg, "T_CH": ch, "NDIG": k}
                for cap in sorted(set(caps)):
                    wide = (k >= WIDE and cap >= k + 1)
                    out.append({
                        "name": "num-%s-%sstr-d%d-c%d%s" % (name, pre, k, cap, "-main" if wide else ""), "src": "num.c",
                        "prop_exclude": "Horner|parse\\(" if wide else None,
                        "defs": dict(base_defs, CAP=cap), "unwind": 22, "solver": SOLVER,
                        "shape": "type=%s text=%s decimal digits=%d capacity=%d, all magnitudes with that many digits" % (ct, ch, k, cap),
                        "desc": ("memory safety, error codes, sizes, sign, digits, NUL, no leading zero" if wide else
                                 "format->canonical text, exact/short buffers, reported sizes, parse back == v"),
                    })
                if k >= WIDE:
                    lo, top = 10 ** (k - 1), min(10 ** k - 1, tmax)
                    W = 100000
                    bases = {lo, top - W + 1, (lo + top) // 2}
                    for b in (1 << 31, 1 << 32, 1 << 63):
                        for c in (b - W // 2,):
                            if lo <= c and c + W - 1 <= top:
                                bases.add(c)
                    if tier == "thorough":
                        bases |= {lo + i * ((top - lo) // 8) for i in range(1, 8)}
                    acaps = [k + 2] if tier == "quick" else [k + 1, k + 2]
                    if ch == "uint8_t" and tier == "thorough":
                        bases = set(sorted(bases)[:3])
                    for bi, b in enumerate(sorted(bases)):
                        for cap in acaps:
                            out.append({
                                "name": "num-%s-%sstr-d%d-c%d-arith-b%d" % (name, pre, k, cap, bi), "src": "num.c",
                                "prop_include": "Horner|parse\\(",
                                "defs": dict(base_defs, CAP=cap, BASE="%dull" % b, BASEW="%dull" % W), "unwind": 22, "solver": SOLVER,
                                "shape": "type=%s text=%s decimal digits=%d capacity=%d magnitude in [%d, %d+%d)" % (ct, ch, k, cap, b, b, W),
                                "desc": "Horner value of output digits == magnitude; parse(format(v)) == v",
                            })
    return out

def b64_jobs(tier):
    out = []
    lens = range(0, 7) if tier == "quick" else range(0, 13)
    for n in lens:
        for nins in ([0, 2] if tier == "quick" else [0, 1, 2, 4]):
            if n == 0 and nins:
                continue
            enc = 4 * ((n + 2) // 3)
            out.append({"name": "b64-n%d-j%d" % (n, nins), "src": "b64.c", "defs": {"LEN": n, "NINS": nins},
                        "unwind": enc + nins + 3, "solver": "cadical",
                        "shape": "data length %d, %d interleaved non-alphabet bytes at symbolic positions" % (n, nins),
                        "desc": "encode == RFC 4648 reference; decode(encode(x)) == x; decode_fmt skips junk; reported lengths"})
    return out

def hex_jobs(tier):
    out = []
    for n in (range(1, 5) if tier == "quick" else range(1, 10)):
        for extra in (0, 1, 3):
            out.append({"name": "hex-n%d-e%d" % (n, extra), "src": "hex.c", "defs": {"LEN": n, "EXTRA": extra},
                        "unwind": 2 * n + extra + 3, "solver": "cadical",
                        "shape": "data length %d, hex capacity 2n+%d" % (n, extra),
                        "desc": "bin2hex digits, lengths, NUL; hex2bin(bin2hex(x)) == x in either letter case"})
    return out

def xml_jobs(tier):
    return [{"name": "xml-n%d-%s" % (n, ("enc", "dec")[mode]), "src": "xml.c", "defs": {"LEN": n, "MODE": mode}, "unwind": 6 * n + 3, "solver": "cadical",
             "timeout": 600 if tier == "quick" else 1500,
             "ignore": "(same object violation|pointer relation: .*) in founded\\[",
             "unwindset": ["mem_replace_arr.0:6", "mem_replace_arr.1:6", "mem_replace_arr.2:6", "mem_replace_arr.3:%d" % (n + 2),
                           "memmem.0:%d" % (6 * n + 2), "memmem.1:%d" % (6 * n + 2)],
             "shape": "string of %d bytes over {' \" & < > a l t ; m p x}" % n,
             "desc": "xml_encode == entity encoding, sizes; xml_decode(xml_encode(s)) == s"}
            for n in (range(1, 3) if tier == "quick" else range(1, 5)) for mode in (0, 1)]

def url_jobs(tier):
    pats = ["L", "P", "LP", "PL", "PP", "LPL", "PLP"] if tier == "quick" else \
           ["L", "P", "LP", "PL", "PP", "LPL", "PLP", "PPP", "LLPPLL", "PLLP", "PPLPP", "LPLPLP"]
    return [{"name": "url-%s" % p, "src": "url.c", "defs": {"PAT": '"%s"' % p}, "unwind": 3 * len(p) + 6, "solver": "cadical",
             "shape": "percent-encoded text with structure %s (L literal unreserved, P %%HH escape of any byte, hex case symbolic)" % p,
             "desc": "http_url_decode(percent_encode(s)) == s, length, NUL"} for p in pats]

CRCV = ["bzip2", "cksum", "mpeg2", "iso-hdlc", "jamcrc", "iscsi", "base91-d", "aixm"]
def crc_jobs(tier):
    out = []
    for v, vn in enumerate(CRCV):
        for mode, mn in ((1, "tbl256-step"), (2, "nibble-step")):
            out.append({"name": "crc-%s-%s" % (vn, mn), "src": "crc.c", "defs": {"VAR": v, "MODE": mode, "LEN": 1},
                        "unwind": 40, "solver": "cadical", "shape": "one byte, symbolic 32-bit state and byte",
                        "desc": "table-driven byte step == 8 bit-at-a-time steps from the catalogue polynomial"})
        lens = [0, 1, 2]   # 3 and 4 fully symbolic bytes: run time varies from 50 s to > 1500 s between variants (XOR chains, SAT luck) [measured] -> not part of either tier
        for n in lens:
            for pn, pre in (("oneshot", "one-shot"), ("update", "update from"), ("split", "splitting")):
                out.append({"name": "crc-%s-n%d-%s" % (vn, n, pn), "src": "crc.c", "defs": {"VAR": v, "MODE": 0, "LEN": n},
                            "prop_include": pre, "timeout": 300 if tier == "quick" else 1500,
                            "unwind": max(40, n + 3), "solver": "cadical", "shape": "%d symbolic bytes, symbolic previous CRC, symbolic split point" % n,
                            "desc": "one-shot and update macros == catalogue definition; split independence"})
        for n in ([63, 64, 65] if tier == "thorough" else [64]):
            out.append({"name": "crc-%s-n%d-tail" % (vn, n), "src": "crc.c", "defs": {"VAR": v, "MODE": 3, "LEN": n},
                        "unwind": n + 3, "solver": "cadical", "shape": "%d bytes: concrete pattern prefix, last 2 bytes symbolic (256-entry table path at n >= 64)" % n,
                        "desc": "one-shot macro == catalogue definition across the small-table/large-table dispatch"})
    return out

def jobs(tier):
    return num_jobs(tier) + b64_jobs(tier) + hex_jobs(tier) + xml_jobs(tier) + url_jobs(tier) + crc_jobs(tier)
