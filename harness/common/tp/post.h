/* common/tp/post.h - PART 2 of the thread pool environment model: stub definitions.
 * Included AFTER the real units (needs tpt_msg_pkt_t) and after the harness defined env_move().
 * The harness may define before this file:
 *   V_EW_BLOCK()      expression returned by a blocking epoll_wait() that has nothing to report
 *                     (default: pre-empt = fail with EBADF, which makes tpt_loop leave through its error branch),
 *   h_pthread_join    `static int h_pthread_join(int slot)`: what joining created thread #slot does,
 *   h_thread_created  `static void h_thread_created(int slot)`: notification.
 *
 * Environment contract encoded here (every item is part of the claim, see META["assumptions"]):
 *  - pipe: writes of one 32-byte packet are atomic (sub-PIPE_BUF); capacity V_QCAP packets, then EAGAIN; read returns
 *    every queued packet that fits (whole packets only, FIFO); read on empty non-blocking pipe = -1/EAGAIN;
 *  - descriptors are never reused (a second close of the same number is a double close and is flagged);
 *  - epoll: ADD/MOD/DEL with EEXIST/ENOENT; closing a descriptor drops its registrations; level triggered;
 *    epoll_wait(maxevents 1) reports any one ready registration (solver's choice via v_ew_pick);
 *    a nested epoll descriptor may be reported spuriously (another worker already took the event);
 *  - the k-th resource acquiring call (calloc, epoll_create1, pipe2, epoll_ctl ADD, timerfd_create,
 *    pthread_key_create) fails with a documented errno when k == IN.tp.fail_at;
 *  - failing calls set errno != 0; successful close()/free() leave errno alone.
 */
#ifndef TP_POST_H
#define TP_POST_H

#undef calloc
#undef free

/* ---- actor / TLS ---- */
static int		v_cur = -1;		/* -1: a thread outside the pool; 0..NTHR-1: pool thread */
static const void *	v_tls[NTHR + 1];	/* pthread TLS slot per actor (index v_cur + 1) */
static int		v_key_created;

/* ---- ledger ---- */
static int	v_live_fds, v_live_allocs, v_live_threads;
static int	v_acq;			/* resource acquiring calls so far */
static int	v_fault_hit;		/* the injected fault happened */
static int	v_n_write, v_n_write_fail, v_last_write_failed;

static int
v_fail(void) {
#ifdef V_NO_FAULTS	/* compile-time: keeps descriptor numbers etc. constant for CBMC's constant propagation */
	return (0);
#endif
	int k = v_acq ++;
	if (IN.tp.fail_at >= 0 && k == (int)IN.tp.fail_at) {
		v_fault_hit = 1;
		return (1);
	}
	return (0);
}

/* ---- descriptors ---- */
enum { FD_FREE = 0, FD_EPOLL, FD_PIPE_R, FD_PIPE_W, FD_TIMER, FD_CLOSED };
static struct v_fd_s { uint8_t kind; uint8_t idx; } v_fdt[V_NFD];
static int v_fd_next = 3;

static struct v_pipe_s {
	tpt_msg_pkt_t	q[V_QCAP];
	unsigned	cnt;
	uint8_t		r_open, w_open;
} v_pipes[V_NPIPE];
static int v_npipe;

/* epoll instances: at most V_EPR registrations each (own message queue + the virtual thread's epoll) */
#define V_EPR	2
static struct v_epoll_s {
	struct v_reg_s { int fd; void *ptr; uint8_t used, kind, idx; } r[V_EPR];
} v_epolls[NTHR + 1];
static int v_nepoll;

static int
v_fd_kind(int fd) {
	if (fd < 3 || fd >= V_NFD)
		return (FD_FREE);
	return (v_fdt[fd].kind);
}

static int
v_fd_new(int kind, int idx) {
	int fd = v_fd_next;
	V_ASSERT(fd < V_NFD, "BUDGET descriptor table of the model");
	v_fd_next ++;
	v_fdt[fd].kind = (uint8_t)kind;
	v_fdt[fd].idx = (uint8_t)idx;
	v_live_fds ++;
	return (fd);
}

static int
v_pipe2(int fd[2], int flags) {
	env_move(EP_SYS, NULL);
	V_ASSERT(0 != (flags & O_NONBLOCK), "message queue pipe is created non-blocking");
	if (v_fail()) {
		errno = (0 != (IN.tp.fail_errsel & 1)) ? EMFILE : ENFILE;
		return (-1);
	}
	V_ASSERT(v_npipe < V_NPIPE, "BUDGET pipes of the model");
	int p = v_npipe ++;
	v_pipes[p].cnt = 0;
	v_pipes[p].r_open = 1;
	v_pipes[p].w_open = 1;
	fd[0] = v_fd_new(FD_PIPE_R, p);
	fd[1] = v_fd_new(FD_PIPE_W, p);
	return (0);
}

static int
v_epoll_create1(int flags) {
	(void)flags;
	env_move(EP_SYS, NULL);
	if (v_fail()) {
		errno = (0 != (IN.tp.fail_errsel & 1)) ? EMFILE : ENOMEM;
		return (-1);
	}
	V_ASSERT(v_nepoll < NTHR + 1, "BUDGET epoll instances of the model");
	int e = v_nepoll ++;
	return (v_fd_new(FD_EPOLL, e));
}

static int
v_timerfd_create(int clk, int flags) {
	(void)clk; (void)flags;
	env_move(EP_SYS, NULL);
	if (v_fail()) {
		errno = EMFILE;
		return (-1);
	}
	return (v_fd_new(FD_TIMER, 0));
}

static int
v_close(int fd) {
	env_move(EP_SYS, NULL);
	if (fd < 0) { /* close(-1): harmless EBADF (tpt_data_uninit after a failed epoll_create1) */
		errno = EBADF;
		return (-1);
	}
	int k = v_fd_kind(fd);
	V_ASSERT(FD_CLOSED != k, "close(): descriptor closed twice");
	V_ASSERT(FD_FREE != k, "close(): descriptor was never handed out to the pool");
	if (FD_FREE == k || FD_CLOSED == k) {
		errno = EBADF;
		return (-1);
	}
	if (FD_PIPE_R == k) v_pipes[v_fdt[fd].idx].r_open = 0;
	if (FD_PIPE_W == k) v_pipes[v_fdt[fd].idx].w_open = 0;
	for (int e = 0; e < NTHR + 1; e ++) { /* the kernel drops registrations of a closed file / of a closed epoll */
		for (int i = 0; i < V_EPR; i ++) {
			if (v_epolls[e].r[i].used && (v_epolls[e].r[i].fd == fd || (FD_EPOLL == k && v_fdt[fd].idx == e)))
				v_epolls[e].r[i].used = 0;
		}
	}
	v_fdt[fd].kind = FD_CLOSED;
	v_live_fds --;
	return (0);
}

static int
v_epoll_ctl(int epfd, int op, int fd, struct epoll_event *ev) {
	int i, at = -1, fr = -1;

	env_move(EP_SYS, NULL);
	int ke = v_fd_kind(epfd), kf = v_fd_kind(fd);
	if (FD_EPOLL != ke || FD_FREE == kf || FD_CLOSED == kf || epfd == fd) {
		errno = (FD_FREE == ke || FD_CLOSED == ke || FD_FREE == kf || FD_CLOSED == kf) ? EBADF : EINVAL;
		return (-1);
	}
	struct v_epoll_s *e = &v_epolls[v_fdt[epfd].idx];
	for (i = 0; i < V_EPR; i ++) {
		if (e->r[i].used && e->r[i].fd == fd) at = i;
		if (!e->r[i].used && fr < 0) fr = i;
	}
	switch (op) {
	case EPOLL_CTL_ADD:
		if (at >= 0) { errno = EEXIST; return (-1); }
		if (v_fail()) { errno = (0 != (IN.tp.fail_errsel & 1)) ? ENOSPC : ENOMEM; return (-1); }
		V_ASSERT(fr >= 0, "BUDGET epoll registrations of the model");
		if (fr < 0) { errno = ENOSPC; return (-1); }
		e->r[fr].used = 1;
		e->r[fr].fd = fd;
		e->r[fr].ptr = ev->data.ptr;
		e->r[fr].kind = (uint8_t)kf;
		e->r[fr].idx = v_fdt[fd].idx;
		return (0);
	case EPOLL_CTL_MOD:
		if (at < 0) { errno = ENOENT; return (-1); }
		e->r[at].ptr = ev->data.ptr;
		return (0);
	case EPOLL_CTL_DEL:
		if (at < 0) { errno = ENOENT; return (-1); }
		e->r[at].used = 0;
		return (0);
	}
	errno = EINVAL;
	return (-1);
}

/* readiness of a registration (one level of nesting: a pipe, or an epoll that watches pipes) */
static int
v_reg_ready(const struct v_reg_s *r) {
	if (!r->used)
		return (0);
	if (FD_PIPE_R == r->kind)
		return (v_pipes[r->idx].cnt > 0);
	if (FD_EPOLL == r->kind) {
		const struct v_epoll_s *n = &v_epolls[r->idx];
		for (int j = 0; j < V_EPR; j ++) {
			if (n->r[j].used && FD_PIPE_R == n->r[j].kind && v_pipes[n->r[j].idx].cnt > 0)
				return (1);
		}
	}
	return (0);
}

static int v_ew_budget;		/* blocking epoll_wait() calls that may still return an event before pre-emption */
static int v_ew_pick;		/* 1: prefer reporting the nested (virtual thread) epoll, 0: prefer the own queue */
static int v_ew_spurious;	/* 1: the nested epoll may be reported although it has nothing (stale wake-up) */
static int v_ew_delivered;	/* events handed out */
static int v_ew_only = -1;	/* >= 0: outer waits report only registrations of that nesting kind (concrete shape knob) */
#ifndef V_EW_BLOCK
#define V_EW_BLOCK()	(errno = EBADF, -1)
#endif

static int
v_epoll_wait(int epfd, struct epoll_event *ev, int maxev, int timeout) {
	int i, found = -1, found_nested = 0, cand = 0;

	env_move(EP_EPOLL_WAIT, NULL);
	V_ASSERT(FD_EPOLL == v_fd_kind(epfd), "epoll_wait() on an open epoll descriptor");
	V_ASSERT(maxev >= 1, "epoll_wait() maxevents >= 1");
	if (0 != timeout) { /* the blocking wait at the top of tpt_loop */
		if (0 == v_ew_budget) { /* harness pre-emption: tpt_loop returns through its error branch */
			errno = EBADF;
			return (-1);
		}
		v_ew_budget --;
	}
	const struct v_epoll_s *e = &v_epolls[v_fdt[epfd].idx];
	/* The result is assigned inside the loop (constant i) so that CBMC keeps the registration's pointer constant. */
	for (i = 0; i < V_EPR; i ++) {
		if (!e->r[i].used)
			continue;
		int nested = (FD_EPOLL == e->r[i].kind);
		if (0 != timeout && v_ew_only >= 0 && nested != v_ew_only)
			continue;	/* shape: this step reports only the own queue (0) / only the nested epoll (1) */
		if (!cand) { /* *ev is unspecified when the call returns <= 0: the model leaves the first candidate there, which
			      * keeps the pointer concrete for CBMC when only one registration qualifies */
			cand = 1;
			ev->events = EPOLLIN;
			ev->data.ptr = e->r[i].ptr;
		}
		if (!(v_reg_ready(&e->r[i]) || (nested && v_ew_spurious)))
			continue;
		if (found < 0 || (nested == v_ew_pick && found_nested != v_ew_pick)) {
			found = i;
			found_nested = nested;
			ev->events = EPOLLIN;
			ev->data.ptr = e->r[i].ptr;
		}
	}
	if (found < 0) {
		if (0 == timeout)
			return (0);
		return (V_EW_BLOCK());
	}
	v_ew_delivered ++;
	return (1);
}

/* ---- pipe I/O ---- */
static ssize_t
v_write(int fd, const void *buf, size_t n) {
	env_move(EP_WRITE, NULL);
	v_last_write_failed = 1;
	V_ASSERT(FD_PIPE_W == v_fd_kind(fd), "write() targets an open message-queue descriptor");
	if (FD_PIPE_W != v_fd_kind(fd)) {
		errno = EBADF;
		return (-1);
	}
	V_ASSERT(n == sizeof(tpt_msg_pkt_t), "write() of exactly one packet (atomic, below PIPE_BUF)");
	struct v_pipe_s *p = &v_pipes[v_fdt[fd].idx];
	V_ASSERT(v_n_write < V_NW, "BUDGET write() calls of the model");
#ifdef V_WRES	/* concrete shape: result selector of the i-th write() */
	unsigned sel = (unsigned)(V_WRES(v_n_write));
#else
	unsigned sel = (v_n_write < V_NW) ? IN.tp.wres[v_n_write] : 0;
#endif
	v_n_write ++;
	if (!p->r_open) sel = 2;
	else if (0 == sel && p->cnt >= V_QCAP) sel = 1;
	if (0 != sel) {
		v_n_write_fail ++;
		errno = (1 == sel) ? EAGAIN : ((2 == sel) ? EPIPE : EBADF);
		return (-1);
	}
	p->q[p->cnt] = *(const tpt_msg_pkt_t *)buf;
	p->cnt ++;
	v_last_write_failed = 0;
	return ((ssize_t)n);
}

static ssize_t
v_read(int fd, void *buf, size_t n) {
	env_move(EP_READ, NULL);
	if (FD_PIPE_R != v_fd_kind(fd)) { /* timerfd etc.: not used by these harnesses */
		errno = (FD_TIMER == v_fd_kind(fd)) ? EAGAIN : EBADF;
		return (-1);
	}
	struct v_pipe_s *p = &v_pipes[v_fdt[fd].idx];
	unsigned k = p->cnt, room = (unsigned)(n / sizeof(tpt_msg_pkt_t)), i;
	V_ASSERT(room >= V_QCAP, "read() buffer holds at least the pipe capacity of the model");
	if (0 == k) {
		if (!p->w_open)
			return (0);
		errno = EAGAIN;
		return (-1);
	}
	/* Every slot of the (tiny) pipe buffer is copied, the return value says how many packets are real.  Bytes beyond
	 * the returned count are "unspecified" for a caller; giving them the stale slot contents (instead of leaving the
	 * caller's uninitialised stack) keeps callback pointers concrete for CBMC, and a receiver that wrongly looked
	 * beyond the count would re-deliver an old message - which the exactly-once assertions catch. */
	tpt_msg_pkt_t *dst = (tpt_msg_pkt_t *)buf;
	for (i = 0; i < V_QCAP; i ++)
		dst[i] = p->q[i];
	p->cnt = 0;
	return ((ssize_t)(k * sizeof(tpt_msg_pkt_t)));
}

/* ---- never reached by these harnesses (socket / timer / process events); kept total ---- */
static int v_timerfd_settime(int fd, int flags, const struct itimerspec *n, struct itimerspec *o) { (void)fd; (void)flags; (void)n; (void)o; return (0); }
static int v_setsockopt(int s, int lvl, int opt, const void *v, socklen_t l) { (void)s; (void)lvl; (void)opt; (void)v; (void)l; return (0); }
static int v_getsockopt(int s, int lvl, int opt, void *v, socklen_t *l) { (void)s; (void)lvl; (void)opt; (void)v; (void)l; errno = ENOTSOCK; return (-1); }
static pid_t v_waitpid(pid_t pid, int *st, int opt) { (void)pid; (void)st; (void)opt; errno = ECHILD; return (-1); }
static int v_fcntl3(int fd, int cmd, ...) { (void)fd; (void)cmd; return (0); }
static long v_syscall3(long nr, ...) { (void)nr; errno = ENOSYS; return (-1); }

/* ---- process / scheduler ---- */
static long
v_sysconf(int name) {
	(void)name;
	return ((0 == IN.tp.ncpu) ? -1L : (long)IN.tp.ncpu);
}
static int v_getdtablesize(void) { return (1024); }
static int v_sched_yield(void) { env_move(EP_YIELD, NULL); return (0); }
static int v_nanosleep(const struct timespec *rq, struct timespec *rm) { (void)rq; (void)rm; env_move(EP_SLEEP, NULL); return (0); }
static void v_syslog(int prio, const char *fmt, ...) { (void)prio; (void)fmt; }
static int v_snprintf(char *dst, size_t n, const char *fmt, ...) { (void)fmt; if (n > 0) dst[0] = 0; return (0); }
static int v_sigemptyset(sigset_t *s) { (void)s; return (0); }
static int v_sigaddset(sigset_t *s, int sig) { (void)s; (void)sig; return (0); }
static int v_pthread_sigmask(int how, const sigset_t *set, sigset_t *old) { (void)how; (void)set; (void)old; return (0); }
static int v_pthread_setaffinity_np(pthread_t t, size_t sz, const cpu_set_t *cs) { (void)t; (void)sz; (void)cs; return (0); }
static int v_pthread_setname_np(pthread_t t, const char *name) { (void)t; (void)name; return (0); }
static pthread_t v_pthread_self(void) { return ((pthread_t)(1000 + v_cur + 1)); }

static int
v_pthread_key_create(pthread_key_t *key, void (*dtor)(void *)) {
	(void)dtor;
	if (v_fail())
		return (EAGAIN);
	*key = 1;
	v_key_created ++;
	return (0);
}
static void *
v_pthread_getspecific(pthread_key_t key) {
	(void)key;
	V_ASSERT(v_key_created > 0, "TLS key used only after tp_init() created it");
	return ((void *)v_tls[v_cur + 1]);
}
static int
v_pthread_setspecific(pthread_key_t key, const void *val) {
	(void)key;
	v_tls[v_cur + 1] = val;
	return (0);
}

/* ---- threads ---- */
#define V_NPC	(NTHR + 2)
static struct v_thr_s { void *(*fn)(void *); void *arg; uint8_t created, joined, finished; } v_thr[NTHR];
static int v_n_thr, v_n_pc;
#ifndef V_PC_RESULT	/* result selector of the i-th pthread_create(): 0 ok, 1 EAGAIN, 2 EPERM */
#define V_PC_RESULT(i)	0
#endif

static int
v_pthread_create(pthread_t *t, const pthread_attr_t *a, void *(*fn)(void *), void *arg) {
	(void)a;
	env_move(EP_CREATE, NULL);
	int i = v_n_pc ++;
	unsigned sel = (i < V_NPC) ? (unsigned)(V_PC_RESULT(i)) : 0;
	if (1 == sel) return (EAGAIN);
	if (2 == sel) return (EPERM);
	V_ASSERT(v_n_thr < NTHR, "BUDGET threads of the model");
	int slot = v_n_thr ++;
	v_thr[slot].fn = fn;
	v_thr[slot].arg = arg;
	v_thr[slot].created = 1;
	v_live_threads ++;
	*t = (pthread_t)(slot + 2);
#ifdef V_HAVE_THREAD_CREATED
	h_thread_created(slot);
#endif
	return (0);
}

static int
v_pthread_join(pthread_t t, void **ret) {
	(void)ret;
	env_move(EP_JOIN, NULL);
	int slot = (int)t - 2;
	if (slot < 0 || slot >= NTHR || !v_thr[slot].created)
		return (ESRCH);
	if (v_thr[slot].joined)
		return (EINVAL);
#ifdef V_HAVE_JOIN
	int r = h_pthread_join(slot);
	if (0 != r)
		return (r);
#endif
	v_thr[slot].joined = 1;
	v_live_threads --;
	return (0);
}

/* ---- allocator ledger ----
 * Natively: the real calloc (ASan red zones).  Under CBMC: calloc() objects are untyped byte arrays, which defeats
 * field-sensitive constant propagation (function pointers, thread states and loop bounds all become byte_extract
 * terms and every callback dispatch explores every candidate); the three allocation shapes of the units are therefore
 * given malloc(sizeof(T)) objects of the right type, zero-filled. Same size, same lifetime, same deallocation checks. */
#ifndef REPLAY
struct v_tp_obj { tp_t tp; tp_thread_t thr[NTHR + 1]; };
static const struct v_tp_obj	v_tp_obj_zero;
static const tpt_msg_queue_t	v_mq_zero;
static const tpt_msg_data_t	v_md_zero;
#endif
static void *
v_calloc(size_t n, size_t sz) {
	void *p;
	if (v_fail()) {
		errno = ENOMEM;
		return (NULL);
	}
#ifdef REPLAY
	p = calloc(n, sz);
	if (NULL == p) exit(4);
#else
	size_t tot = n * sz;
	if (tot == sizeof(struct v_tp_obj)) {
		struct v_tp_obj *o = malloc(sizeof(struct v_tp_obj));
		__CPROVER_assume(o != NULL);
		*o = v_tp_obj_zero;
		p = o;
	} else if (tot == sizeof(tpt_msg_queue_t)) {
		tpt_msg_queue_t *o = malloc(sizeof(tpt_msg_queue_t));
		__CPROVER_assume(o != NULL);
		*o = v_mq_zero;
		p = o;
	} else if (tot == sizeof(tpt_msg_data_t)) {
		tpt_msg_data_t *o = malloc(sizeof(tpt_msg_data_t));
		__CPROVER_assume(o != NULL);
		*o = v_md_zero;
		p = o;
	} else {
		p = calloc(n, sz);
		__CPROVER_assume(p != NULL);
	}
#endif
	v_live_allocs ++;
	return (p);
}
static void
v_free(void *p) {
	if (NULL == p)
		return;
	v_live_allocs --;
	free(p);
}

/* ---- mutex model ---- */
static void
v_mtx_init(v_mtx_t *m) {
	env_move(EP_MTX_INIT, m);
	m->st = 1;
	m->owner = -2;
	m->depth = 0;
}
static void
v_mtx_destroy(v_mtx_t *m) {
	V_ASSERT(1 == m->st, "mutex destroyed while initialised and unlocked");
	m->st = 3;
	env_move(EP_MTX_DESTROY, m);
}
static void
v_mtx_lock(v_mtx_t *m) {
	env_move(EP_MTX_LOCK, m);	/* others may run before the lock is taken */
	V_ASSERT(1 == m->st || 2 == m->st, "lock of an initialised, not destroyed mutex");
	if (2 == m->st) {
		V_ASSERT(m->owner == v_cur, "sequential model: mutex is free when an actor reaches lock()");
		m->depth ++;
		return;
	}
	m->st = 2;
	m->owner = v_cur;
	m->depth = 1;
	/* no scheduling point inside the critical section: everything it touches is protected by this lock */
}
static void
v_mtx_unlock(v_mtx_t *m) {
	V_ASSERT(2 == m->st && m->owner == v_cur, "unlock by the holder");
	m->depth --;
	if (0 == m->depth) {
		m->st = 1;
		m->owner = -2;
	}
	env_move(EP_MTX_UNLOCK, m);	/* others (and the waiting caller) may run right after the release */
}

/* Stop exploring this path (the prefix executed so far stays checked). */
#ifdef REPLAY
#define H_STOP(msg) do { printf("REPLAY-DONE path ends here: %s\n", msg); fflush(stdout); exit(0); } while (0)
#else
#define H_STOP(msg) __CPROVER_assume(0)
#endif

#endif /* TP_POST_H */
