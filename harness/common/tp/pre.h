/* common/tp/pre.h - environment model for liblcb's thread pool units (Linux branch: epoll + pipe queue),
 * shared by the C05 / C10 / C11 harnesses.   PART 1: included BEFORE `struct in_s` and before the real units.
 *
 * Usage in a harness:
 *     #include "verif.h"
 *     #define NTHR 2                 (from jobs.py: number of real pool threads; the virtual thread is index NTHR)
 *     #include "common/tp/pre.h"     system headers, struct tp_in_s, mutex model, redirection macros
 *     struct in_s { struct tp_in_s tp; ... };
 *     #include "verif_in.h"
 *     #include "threadpool/threadpool.c"          the real code (static functions become reachable)
 *     #include "threadpool/threadpool_msg_sys.c"
 *     static void env_move(int point, const void *obj) { ... }     what the environment may do at a scheduling point
 *     #include "common/tp/post.h"    definitions of the stubs (need tpt_msg_pkt_t etc.)
 *
 * Sequentialisation (DESIGN 1.5): real functions run atomically between scheduling points = every mutex operation
 * and every system call; each stub calls env_move(point, obj) so the harness can let other actors move there.
 * Every source of nondeterminism is an array in IN.tp indexed by a call counter (replayable).
 */
#ifndef TP_PRE_H
#define TP_PRE_H

/* Everything the two units include, before any name is redirected. */
#include <sys/param.h>
#include <sys/types.h>
#include <sys/epoll.h>
#include <sys/timerfd.h>
#include <sys/ioctl.h>
#include <sys/socket.h>
#include <sys/syscall.h>
#include <sys/wait.h>
#include <sys/queue.h>
#include <sys/fcntl.h>
#include <fcntl.h>
#include <inttypes.h>
#include <stdlib.h>
#include <stdio.h>
#include <stdarg.h>
#include <unistd.h>
#include <string.h>
#include <strings.h>
#include <errno.h>
#include <signal.h>
#include <pthread.h>
#include <sched.h>
#include <time.h>
#include <syslog.h>

#ifndef NTHR
#error "NTHR (number of real pool threads) must be defined by the job"
#endif
#ifndef V_QCAP
#define V_QCAP 2		/* packets a pipe holds before write() reports EAGAIN */
#endif
#ifndef V_NW
#define V_NW 8			/* write() calls whose result the solver chooses (later calls: budget property) */
#endif
#define V_NPIPE		(NTHR + 1)
#define V_NFD		(3 + 3 * (NTHR + 1) + 2)	/* 0..2 reserved; per thread: epoll + 2 pipe ends */

/* The HAVE_* / LINUX defines of the real cmake build are passed by bin/check (CONVENTIONS, "Update"). */

/* Symbolic inputs consumed by the stubs. */
struct tp_in_s {
	uint8_t	wres[V_NW];	/* write(): 0 = ok (EAGAIN if the pipe is full), 1 = EAGAIN, 2 = EPIPE, 3 = EBADF */
	int8_t	fail_at;	/* index of the resource-acquiring call that fails (-1 / out of range: none) */
	uint8_t	fail_errsel;	/* selects among the documented errno values of the failing call */
	uint8_t	ncpu;		/* sysconf(_SC_NPROCESSORS_CONF): 0 -> reports -1 (error) */
};

/* Scheduling points. */
enum { EP_MTX_INIT = 1, EP_MTX_LOCK, EP_MTX_LOCKED, EP_MTX_UNLOCK, EP_MTX_DESTROY, EP_WRITE, EP_READ, EP_YIELD, EP_SLEEP,
       EP_EPOLL_WAIT, EP_JOIN, EP_CREATE, EP_SYS };
static void env_move(int point, const void *obj);

/* ---------------- mutex model (MTX_* are #ifndef-guarded in utils/macro.h) ---------------- */
typedef struct v_mtx_s {
	int	st;	/* 0 = never initialised, 1 = unlocked, 2 = locked, 3 = destroyed */
	int	owner;	/* v_cur of the holder */
	int	depth;	/* recursive (the real MTX_INIT asks for PTHREAD_MUTEX_RECURSIVE) */
} v_mtx_t;
static void	v_mtx_init(v_mtx_t *m);
static void	v_mtx_destroy(v_mtx_t *m);
static void	v_mtx_lock(v_mtx_t *m);
static void	v_mtx_unlock(v_mtx_t *m);
#define MTX_S			v_mtx_t
#define MTX_INIT(__m)		v_mtx_init((__m))
#define MTX_DESTROY(__m)	v_mtx_destroy((__m))
#define MTX_LOCK(__m)		v_mtx_lock((__m))
#define MTX_TRYLOCK(__m)	v_mtx_trylock_unused((__m))
#define MTX_UNLOCK(__m)		v_mtx_unlock((__m))

/* ---------------- stubs: prototypes ---------------- */
static ssize_t	v_write(int fd, const void *buf, size_t n);
static ssize_t	v_read(int fd, void *buf, size_t n);
static int	v_pipe2(int fd[2], int flags);
static int	v_close(int fd);
static int	v_epoll_create1(int flags);
static int	v_epoll_ctl(int epfd, int op, int fd, struct epoll_event *ev);
static int	v_epoll_wait(int epfd, struct epoll_event *ev, int maxev, int timeout);
static int	v_timerfd_create(int clk, int flags);
static int	v_timerfd_settime(int fd, int flags, const struct itimerspec *n, struct itimerspec *o);
static int	v_setsockopt(int s, int lvl, int opt, const void *v, socklen_t l);
static int	v_getsockopt(int s, int lvl, int opt, void *v, socklen_t *l);
static pid_t	v_waitpid(pid_t pid, int *st, int opt);
static int	v_fcntl3(int fd, int cmd, ...);
static long	v_syscall3(long nr, ...);
static long	v_sysconf(int name);
static int	v_getdtablesize(void);
static int	v_sched_yield(void);
static int	v_nanosleep(const struct timespec *rq, struct timespec *rm);
static void	v_syslog(int prio, const char *fmt, ...);
static int	v_snprintf(char *dst, size_t n, const char *fmt, ...);
static int	v_pthread_key_create(pthread_key_t *key, void (*dtor)(void *));
static void *	v_pthread_getspecific(pthread_key_t key);
static int	v_pthread_setspecific(pthread_key_t key, const void *val);
static int	v_pthread_create(pthread_t *t, const pthread_attr_t *a, void *(*fn)(void *), void *arg);
static int	v_pthread_join(pthread_t t, void **ret);
static pthread_t v_pthread_self(void);
static int	v_pthread_sigmask(int how, const sigset_t *set, sigset_t *old);
static int	v_pthread_setaffinity_np(pthread_t t, size_t sz, const cpu_set_t *cs);
static int	v_pthread_setname_np(pthread_t t, const char *name);
static int	v_sigemptyset(sigset_t *s);
static int	v_sigaddset(sigset_t *s, int sig);
static void *	v_calloc(size_t n, size_t sz);
static void	v_free(void *p);

/* ---------------- redirections (function-like: only calls are rewritten) ---------------- */
#define write(a, b, c)			v_write((a), (b), (c))
#define read(a, b, c)			v_read((a), (b), (c))
#define pipe2(a, b)			v_pipe2((a), (b))
#define close(a)			v_close((a))
#define epoll_create1(a)		v_epoll_create1((a))
#define epoll_ctl(a, b, c, d)		v_epoll_ctl((a), (b), (c), (d))
#define epoll_wait(a, b, c, d)		v_epoll_wait((a), (b), (c), (d))
#define timerfd_create(a, b)		v_timerfd_create((a), (b))
#define timerfd_settime(a, b, c, d)	v_timerfd_settime((a), (b), (c), (d))
#define setsockopt(a, b, c, d, e)	v_setsockopt((a), (b), (c), (d), (e))
#define getsockopt(a, b, c, d, e)	v_getsockopt((a), (b), (c), (d), (e))
#define waitpid(a, b, c)		v_waitpid((a), (b), (c))
#define fcntl(...)			v_fcntl3(__VA_ARGS__)
#define syscall(...)			v_syscall3(__VA_ARGS__)
#define sysconf(a)			v_sysconf((a))
#define getdtablesize()			v_getdtablesize()
#define sched_yield()			v_sched_yield()
#define nanosleep(a, b)			v_nanosleep((a), (b))
#define syslog(...)			v_syslog(__VA_ARGS__)
#define snprintf(...)			v_snprintf(__VA_ARGS__)
#define pthread_key_create(a, b)	v_pthread_key_create((a), (b))
#define pthread_getspecific(a)		v_pthread_getspecific((a))
#define pthread_setspecific(a, b)	v_pthread_setspecific((a), (b))
#define pthread_create(a, b, c, d)	v_pthread_create((a), (b), (c), (d))
#define pthread_join(a, b)		v_pthread_join((a), (b))
#define pthread_self()			v_pthread_self()
#define pthread_sigmask(a, b, c)	v_pthread_sigmask((a), (b), (c))
#define pthread_setaffinity_np(a, b, c)	v_pthread_setaffinity_np((a), (b), (c))
#define pthread_setname_np(a, b)	v_pthread_setname_np((a), (b))
#undef sigemptyset
#undef sigaddset
#define sigemptyset(a)			v_sigemptyset((a))
#define sigaddset(a, b)			v_sigaddset((a), (b))
#undef explicit_bzero
#define explicit_bzero(a, b)		((void)memset((a), 0, (b)))	/* same effect; CBMC has a cheap built-in memset */
#define calloc(a, b)			v_calloc((a), (b))
#define free(a)				v_free((a))

#endif /* TP_PRE_H */
