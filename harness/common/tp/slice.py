"""Verbatim slicing of a liblcb C unit: copy the file from the repository's working tree at run time and drop the
*definitions* of the named functions (everything else - includes, typedefs, macros, prototypes, the remaining
functions - is kept byte for byte, and `#line` directives keep the original line numbers).

Why: CBMC resolves an indirect call to *every* address-taken function of a compatible signature.  In
threadpool_msg_sys.c all message callbacks share one signature, so each `msg_cb(...)` in tpt_msg_send /
tpt_msg_recv_and_process fans out into the broadcast proxies (which send again, recursively) even in a harness that
never broadcasts.  Dropping the functions a job does not exercise removes them from the candidate set; nothing that is
kept is altered.  The list of dropped functions is part of each job's stated shape.
"""
import re, sys, os

FUNC_RE = re.compile(r'^([A-Za-z_][A-Za-z_0-9]*)\(')


def slice_unit(src_path, drop, out_path, logical_name=None):
    with open(src_path) as f:
        lines = f.read().split('\n')
    n = len(lines)
    out, i, dropped = [], 0, set()
    out.append('#line 1 "%s"' % (logical_name or src_path))
    while i < n:
        m = FUNC_RE.match(lines[i])
        if m and m.group(1) in drop:
            # find the end of the declarator: a definition has '{' before ';'
            j = i
            is_def = None
            while j < n:
                if '{' in lines[j]:
                    is_def = True
                    break
                if ';' in lines[j]:
                    is_def = False
                    break
                j += 1
            if is_def:
                # the return type / storage class lines directly above belong to the definition
                k = len(out)
                while k > 1 and out[k - 1].strip() != '' and not out[k - 1].startswith('#') and \
                        not out[k - 1].rstrip().endswith((';', '}', '*/')):
                    k -= 1
                del out[k:]
                e = j
                while e < n and lines[e] != '}':
                    e += 1
                if e >= n:
                    raise RuntimeError("no closing brace for %s" % m.group(1))
                dropped.add(m.group(1))
                i = e + 1
                out.append('#line %d "%s"' % (i + 1, logical_name or src_path))
                continue
        out.append(lines[i])
        i += 1
    missing = set(drop) - dropped
    if missing:
        raise RuntimeError("functions to drop not found in %s: %s" % (src_path, sorted(missing)))
    with open(out_path, 'w') as f:
        f.write('\n'.join(out))
    return sorted(dropped)


MSG_BCAST = ["tpt_msg_cb_done_proxy_cb", "tpt_msg_active_thr_count_dec", "tpt_msg_sync_proxy_cb",
             "tpt_msg_one_by_one_proxy_cb", "tpt_msg_broadcast_send__int", "tpt_msg_bsend_ex",
             "tpt_msg_one_by_one_send_next__int", "tpt_msg_cbsend"]
MSG_OBO = ["tpt_msg_one_by_one_proxy_cb", "tpt_msg_one_by_one_send_next__int"]
MSG_AOP = ["tpt_msg_async_op_alloc", "tpt_msg_async_op_cb_free_cb", "tpt_msg_async_op_cb_free",
           "tpt_msg_async_op_udata", "tpt_msg_async_op_udata_get", "tpt_msg_async_op_udata_set",
           "tpt_msg_async_op_udata_sz", "tpt_msg_async_op_udata_sz_get", "tpt_msg_async_op_udata_sz_set",
           "tpt_msg_async_op_udata_ssz", "tpt_msg_async_op_udata_ssz_get", "tpt_msg_async_op_udata_ssz_set"]
