/*
 * ec_mult_spec.h - specification stubs for the scalar-multiplication ENTRY POINTS of elliptic_curve.h
 * (ec_point_mult_bp, ec_point_twin_mult_bp, ec_point_unknown_pt_mult), redirected by macro between
 * "math/elliptic_curve.h" and "crypto/dsa/ecdsa.h" (ec_env.h: -DEC_ENV_POST_EC='"common/ec/ec_mult_spec.h"').
 * Contract = what C02 establishes for the real entry points: status 0 and the result is the table's point
 *   k*G,  k*G + l*P,  k*P   (index arithmetic on the enumerated group), operands unchanged.
 * With -DMULT_FAULT the entry points additionally may FAIL: a solver-chosen status is returned and, when it is
 * non-zero, the output object holds solver-chosen coordinates (C03 assertion 4: a failed internal computation
 * must never end in "signature valid" / a produced signature).
 */
#ifndef EC_MULT_SPEC_H
#define EC_MULT_SPEC_H

static uint8_t mspec_hx, mspec_hy;		/* coordinates left in a result at infinity / after a failure */
#ifdef MULT_FAULT
static int mspec_fault_status[4];		/* per call: 0 = works */
static unsigned mspec_calls;
static int mspec_failed;			/* some call reported failure */
#endif

static inline unsigned
mspec_index_affine(ec_point_p a) {
	unsigned i;
	sbv_t x, y;

	if (0 != a->infinity)
		return (0);
	SB_PRE(&a->x); SB_PRE(&a->y);
	x = sb_val(&a->x);
	y = sb_val(&a->y);
	if (x >= CV_P || y >= CV_P) {
		SB_REQ(0);
		return (0);
	}
	i = XIDX[x];
	if (0 != i && TY[i] != y)
		i = ((TY[(CV_NTOT - i)] == y) ? (CV_NTOT - i) : 0);
	SB_REQ(0 != i); /* operand must be a point of the curve: C02 says nothing otherwise */
	return (i);
}
static inline void
mspec_set(ec_point_p a, unsigned idx) {
	SB_REQ(a->x.count >= 1 && a->y.count >= 1);
	if (0 == idx) {
		sb_set(&a->x, (mspec_hx % CV_P));
		sb_set(&a->y, (mspec_hy % CV_P));
		a->infinity = 1;
	} else {
		sb_set(&a->x, TX[idx]);
		sb_set(&a->y, TY[idx]);
		a->infinity = 0;
	}
}
static inline int
mspec_fault(ec_point_p out) {
#ifdef MULT_FAULT
	int st = mspec_fault_status[(mspec_calls ++) & 3];
	if (0 != st) {
		mspec_failed = 1;
		sb_set(&out->x, (mspec_hx % CV_P));
		sb_set(&out->y, (mspec_hy % CV_P));
		return (st);
	}
#else
	(void)out;
#endif
	return (0);
}
/* scalar value mod group order, as index multiplier */
static inline sbv_t
mspec_scalar(bn_p d) {
	SB_PRE(d);
	return ((sb_val(d) % CV_NTOT));
}

static inline int
spec_ec_point_mult_bp(bn_p d, ec_curve_p curve, ec_point_p res) {
	int st;
	if (NULL == d || NULL == curve || NULL == res)
		return (EINVAL);
	if (0 != (st = mspec_fault(res)))
		return (st);
	mspec_set(res, ((mspec_scalar(d) * CV_H) % CV_NTOT));
	return (0);
}
static inline int
spec_ec_point_twin_mult_bp(bn_p Gd, ec_point_p b, bn_p bd, ec_curve_p curve, ec_point_p res) {
	int st;
	unsigned ib;
	if (NULL == Gd || NULL == b || NULL == bd || NULL == curve || NULL == res)
		return (EINVAL);
	if (0 != (st = mspec_fault(res)))
		return (st);
	ib = mspec_index_affine(b);
	mspec_set(res, (((mspec_scalar(Gd) * CV_H) + (mspec_scalar(bd) * ib)) % CV_NTOT));
	return (0);
}
static inline int
spec_ec_point_unknown_pt_mult(ec_point_p point, bn_p d, ec_curve_p curve) {
	int st;
	if (NULL == point || NULL == d || NULL == curve)
		return (EINVAL);
	if (0 != (st = mspec_fault(point)))
		return (st);
	mspec_set(point, ((mspec_scalar(d) * mspec_index_affine(point)) % CV_NTOT));
	return (0);
}

#define ec_point_mult_bp		spec_ec_point_mult_bp
#define ec_point_twin_mult_bp		spec_ec_point_twin_mult_bp
#define ec_point_unknown_pt_mult	spec_ec_point_unknown_pt_mult

#endif /* EC_MULT_SPEC_H */
