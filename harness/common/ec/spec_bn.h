/*
 * spec_bn.h - specification stubs for liblcb's modular layer (big_num.h), used by the EC / ECDSA harnesses
 * (C02, C03, C09).  DESIGN 1.3 "specification stubs for a verified lower layer".
 *
 * Include order in a harness:
 *     #include "math/big_num.h"          (real: bn_t layout, bn_init, bn_assign, bn_cmp, bn_add, ... stay real)
 *     #include "common/ec/spec_bn.h"     (defines spec_bn_* and redirects the names below by macro)
 *     #include "math/elliptic_curve.h" / "crypto/dsa/ecdsa.h"   (real code under test, now calling the stubs)
 *
 * Redirected: bn_mod, bn_mod_add, bn_mod_sub, bn_mod_mult, bn_mod_mult_digit, bn_mod_square, bn_mod_exp_digit,
 *             bn_mod_inv (= bn_mod_inv_bin), bn_import_be_hex (constructor only), bn_import_be_bin, bn_export_be_bin [, bn_mod_reduce with -DSPEC_MOD_REDUCE] [, bn_mod_sqrt with -DSPEC_MOD_SQRT].
 *
 * Each stub is the value-level transliteration of the real function's text: the real function is a composition of
 * bn_add / bn_sub / bn_mult / bn_mult_digit / bn_div whose contracts (exact result modulo 2^capacity, EOVERFLOW /
 * EINVAL conditions) are C01's subject.  The stub evaluates that composition on uint32_t values and returns the
 * same error codes in the same situations (capacity too small, zero modulus, operand out of range for the
 * inverse).  The real bn_t is read and written: value = num[0..digits), digits normalised, digits above `digits`
 * are filled with a solver-chosen garbage digit (the real code leaves stale digits there, DESIGN 4).
 *
 * The stubs also CHECK (V_ASSERT) the preconditions under which C01's contracts are stated: operands are
 * normalised (top digit non-zero), and bn_mult_digit(bn, 2|3) does not drop a carry (known C01 finding #11).
 */
#ifndef SPEC_BN_H
#define SPEC_BN_H

#include <errno.h>

#if BN_DIGIT_BIT_CNT != 8
#error "spec_bn.h: EC harnesses run at 8-bit digits"
#endif

/* Width discipline.  All values the EC / ECDSA layers hand to the modular layer are small (field elements and
 * group-order residues of one byte, or two bytes with CV_M == 16; intermediate sums and products accordingly).
 * The stubs therefore evaluate in uint32_t and CHECK - as properties, so a violation makes the job fail - that
 *   - every operand has at most 3 significant digits (value < 2^24),
 *   - operands of a multiplication are <= SB_OPMAX (one byte, or two bytes with -DSB_OPBITS=16),
 * which keeps every intermediate below 2^32.  Narrow operands are what makes the SAT encoding small
 * (a 64x64-bit multiplier + divider per call cost ~75k clauses; [measured] 915k clauses for one affine addition). */
#ifndef SB_OPBITS
#if defined(CV_M) && CV_M > 8
#define SB_OPBITS 16
#else
#define SB_OPBITS 8
#endif
#endif
#define SB_OPMAX	((((uint32_t)1) << SB_OPBITS) - 1)

typedef uint32_t sbv_t;

/* one solver-chosen digit used for every stale position (set by the harness from IN) */
static bn_digit_t sb_garbage;

static inline sbv_t
sb_val(bn_p b) {
	sbv_t v = 0;
	if (b->digits > 0) v |= ((sbv_t)b->num[0]);
	if (b->digits > 1) v |= (((sbv_t)b->num[1]) << 8);
	if (b->digits > 2) v |= (((sbv_t)b->num[2]) << 16);
	return (v);
}
static inline int
sb_is_norm(bn_p b) {
	return (b->digits <= b->count && b->count <= BN_MAX_DIGITS && b->digits <= 3 &&
	    (0 == b->digits || 0 != b->num[(b->digits - 1)]));
}
static inline sbv_t
sb_mask(bn_p b) {
	return ((b->count >= 4) ? ~(sbv_t)0 : ((((sbv_t)1) << (b->count * BN_DIGIT_BITS)) - 1));
}
static inline size_t
sb_digits_of(sbv_t v) {
	return ((0 == v) ? 0 : ((v <= 0xff) ? 1 : ((v <= 0xffff) ? 2 : ((v <= 0xffffff) ? 3 : 4))));
}
/* v must fit into the capacity of b (callers mask) */
static inline void
sb_set(bn_p b, sbv_t v) {
	size_t d = sb_digits_of(v);
	for (size_t i = 0; i < BN_MAX_DIGITS; i ++) {
		if (i < b->count)
			b->num[i] = ((i < d && i < 4) ? (bn_digit_t)(v >> (BN_DIGIT_BITS * (i & 3))) : sb_garbage);
	}
	b->digits = d;
}
static inline unsigned
sb_clz8(unsigned top) { /* leading zeros of a non-zero 8-bit digit */
	return ((top & 0x80) ? 0 : ((top & 0x40) ? 1 : ((top & 0x20) ? 2 : ((top & 0x10) ? 3 :
	    ((top & 0x08) ? 4 : ((top & 0x04) ? 5 : ((top & 0x02) ? 6 : 7)))))));
}
static inline unsigned
sb_top(sbv_t v) { /* top non-zero digit, v != 0 */
	return ((v <= 0xff) ? v : ((v <= 0xffff) ? (v >> 8) : ((v <= 0xffffff) ? (v >> 16) : (v >> 24))));
}

/* Precondition violations are accumulated and asserted once by the harness (SB_FINAL) - one property instead of
 * three per stub call keeps symbolic execution and the solver's property loop small. */
static int sb_bad;
#define SB_REQ(c)	do { if (!(c)) sb_bad = 1; } while (0)
#define SB_PRE(b)	SB_REQ(sb_is_norm(b))
#define SB_FINAL()	V_ASSERT(0 == sb_bad, "stub preconditions held in every call: operands normalised, within capacity and width, no carry lost in bn_mult_digit(2|3), moduli are p / n / n-1")

/* remainder step shared by all stubs = real  bn_div(bn, m, bn)  seen from the value side.
 * `count` is the capacity of bn when bn_div is entered.  The moduli that occur are the field prime, the group
 * order and (bn_mod_reduce) the group order minus one; naming them lets the solver see a constant divisor. */
static inline int
sb_rem(sbv_t *v, size_t count, sbv_t mv) {
	if (0 == mv)
		return (EINVAL);			/* dividend / 0 */
	if ((*v) < mv)
		return (0);				/* bn_div: n < d, remainder aliases bn: unchanged */
	if ((*v) == mv) {
		(*v) = 0;
		return (0);
	}
	/* normalisation: no room to shift the dividend left */
	if (count == sb_digits_of((*v)) && sb_clz8(sb_top(mv)) > sb_clz8(sb_top((*v))))
		return (EOVERFLOW);
	if (CV_P == mv) {
		(*v) %= CV_P;
	} else if (CV_N == mv) {
		(*v) %= CV_N;
	} else if ((CV_N - 1) == mv) {
		(*v) %= (CV_N - 1);
	} else {
		SB_REQ(0); /* modulus is not the field prime, the group order or the group order minus one */
		(*v) %= mv;
	}
	return (0);
}

static inline int
spec_bn_mod(bn_p bn, bn_p m, bn_mod_rd_data_p md) {
	sbv_t v;
	int error;

	(void)md;
	if (NULL == bn || NULL == m)
		return (EINVAL);
	SB_PRE(bn); SB_PRE(m);
	if (bn == m) {
		bn_assign_zero(bn);
		return (0);
	}
	v = sb_val(bn);
	error = sb_rem(&v, bn->count, sb_val(m));
	if (0 != error)
		return (error);
	sb_set(bn, v);
	return (0);
}

/* bn = (bn + n) mod m :  bn_add(bn, n, NULL); if (bn >= m) bn_sub(bn, m, NULL); */
static inline int
spec_bn_mod_add(bn_p bn, bn_p n, bn_p m, bn_mod_rd_data_p md) {
	sbv_t v, mv;

	(void)md;
	if (NULL == bn || NULL == n || NULL == m)
		return (EINVAL);
	SB_PRE(bn); SB_PRE(n); SB_PRE(m);
	if (n->digits > bn->count)
		return (EOVERFLOW);
	v = ((sb_val(bn) + sb_val(n)) & sb_mask(bn));
	mv = sb_val(m);
	if (v >= mv)
		v = ((v - mv) & sb_mask(bn));
	sb_set(bn, v);
	return (0);
}

/* bn = (bn - n) mod m :  if (bn < n) bn_add(bn, m, NULL); bn_sub(bn, n, NULL); bn_mod(bn, m); */
static inline int
spec_bn_mod_sub(bn_p bn, bn_p n, bn_p m, bn_mod_rd_data_p md) {
	sbv_t v, nv, mv;
	int error;

	(void)md;
	if (NULL == bn || NULL == n || NULL == m)
		return (EINVAL);
	SB_PRE(bn); SB_PRE(n); SB_PRE(m);
	v = sb_val(bn);
	nv = sb_val(n);
	mv = sb_val(m);
	if (v < nv) {
		if (m->digits > bn->count)
			return (EOVERFLOW);
		v = ((v + mv) & sb_mask(bn));
	}
	if (n->digits > bn->count)
		return (EOVERFLOW);
	v = ((v - nv) & sb_mask(bn));
	error = sb_rem(&v, bn->count, mv);
	if (0 != error)
		return (error);
	sb_set(bn, v);
	return (0);
}

/* bn = (bn * n) mod m :  bn_mult(bn, n); bn_mod(bn, m); */
static inline int
spec_bn_mod_mult(bn_p bn, bn_p n, bn_p m, bn_mod_rd_data_p md) {
	sbv_t v, a, b;
	int error;

	(void)md;
	if (NULL == bn || NULL == n || NULL == m)
		return (EINVAL);
	SB_PRE(bn); SB_PRE(n); SB_PRE(m);
	if (0 == bn->digits || 0 == n->digits) {
		v = 0;
	} else {
		if ((bn->digits + n->digits) > bn->count)
			return (EOVERFLOW);
		a = sb_val(bn);
		b = sb_val(n);
		SB_REQ(a <= SB_OPMAX && b <= SB_OPMAX);
		v = ((a & SB_OPMAX) * (b & SB_OPMAX));
	}
	error = sb_rem(&v, bn->count, sb_val(m));
	if (0 != error)
		return (error);
	sb_set(bn, v);
	return (0);
}

/* bn = (bn * d) mod m :  bn_mult_digit(bn, d); bn_mod(bn, m); */
static inline int
spec_bn_mod_mult_digit(bn_p bn, bn_digit_t d, bn_p m, bn_mod_rd_data_p md) {
	sbv_t v, w;
	int error;

	(void)md;
	if (NULL == bn || NULL == m)
		return (EINVAL);
	SB_PRE(bn); SB_PRE(m);
	v = sb_val(bn);
	if (0 != bn->digits) {
		switch (d) {
		case 0:
			v = 0;
			break;
		case 1:
			break;
		case 2: /* bn_add(bn, bn, NULL) */
			w = (v + v);
			SB_REQ(w == (w & sb_mask(bn)));
			v = (w & sb_mask(bn));
			break;
		case 3: /* tmp = bn + bn; bn += tmp (tmp has the capacity of bn) */
			w = (v + v + v);
			SB_REQ(w == (w & sb_mask(bn)));
			v = (w & sb_mask(bn));
			break;
		default:
			if (bn->digits >= bn->count)
				return (EOVERFLOW);
			SB_REQ(v <= SB_OPMAX);
			v = ((v & SB_OPMAX) * d);
			break;
		}
	}
	error = sb_rem(&v, bn->count, sb_val(m));
	if (0 != error)
		return (error);
	sb_set(bn, v);
	return (0);
}

static inline int
spec_bn_mod_square(bn_p bn, bn_p m, bn_mod_rd_data_p md) {
	return (spec_bn_mod_mult(bn, bn, m, md));
}

/* transliteration of bn_mod_exp_digit with the inner bn_mod_mult calls going to the stub */
static inline int
spec_bn_mod_exp_digit(bn_p bn, size_t exp, bn_p m, bn_mod_rd_data_p md) {
	bn_t base;

	if (NULL == bn || NULL == m)
		return (EINVAL);
	SB_PRE(bn); SB_PRE(m);
	if (bn->count < m->count || (bn->digits * 2) > bn->count)
		return (EOVERFLOW);
	switch (exp) {
	case 0:
		BN_RET_ON_ERR(bn_assign_digit(bn, 1));
		return (0);
	case 1:
		return (0);
	case 2:
		BN_RET_ON_ERR(spec_bn_mod_mult(bn, bn, m, md));
		return (0);
	case 3:
		BN_RET_ON_ERR(bn_assign_init(&base, bn));
		BN_RET_ON_ERR(spec_bn_mod_mult(&base, bn, m, md));
		BN_RET_ON_ERR(spec_bn_mod_mult(bn, &base, m, md));
		return (0);
	}
	if (1 == bn->digits && (0 == bn->num[0] || 1 == bn->num[0]))
		return (0);
	BN_RET_ON_ERR(bn_assign_init(&base, bn));
	BN_RET_ON_ERR(bn_assign_digit(bn, 1));
	for (; 0 != exp; exp >>= 1) {
		if (0 != (exp & 1)) {
			BN_RET_ON_ERR(spec_bn_mod_mult(bn, &base, m, md));
		}
		BN_RET_ON_ERR(spec_bn_mod_mult(&base, &base, m, md));
	}
	return (0);
}

/* bn = bn^-1 mod m (bn_mod_inv_bin): EINVAL for 0, >= m, zero modulus, or when the temporaries
 * ((4 + max digits) digits) do not fit BN_BIT_LEN; the inverse comes from the generated tables. */
static inline int
spec_bn_mod_inv(bn_p bn, bn_p m, bn_mod_rd_data_p md) {
	sbv_t v, mv, r = 0;

	(void)md;
	if (NULL == bn || NULL == m)
		return (EINVAL);
	SB_PRE(bn); SB_PRE(m);
	v = sb_val(bn);
	mv = sb_val(m);
	if (0 == v || 0 == mv || v >= mv)
		return (EINVAL);
	if (((4 + ((bn->digits > m->digits) ? bn->digits : m->digits)) * BN_DIGIT_BITS) > BN_BIT_LEN)
		return (EINVAL);
	SB_REQ(CV_P == mv || CV_N == mv);
	if (CV_P == mv)
		r = INVP[(v < CV_P) ? v : 0];
	else if (CV_N == mv)
		r = INVN[(v < CV_N) ? v : 0];
	/* bn_assign(bn, &x1): result < m always fits where bn (< m) was */
	sb_set(bn, r);
	return (0);
}

#ifdef SPEC_MOD_REDUCE
/* bn = (bn mod (m - 1)) + 1 when bn >= m, else unchanged:
 * tmp = m - 1 (capacity of m); bn_mod(bn, tmp); bn_add_digit(bn, 1, NULL) */
static inline int
spec_bn_mod_reduce(bn_p bn, bn_p m, bn_mod_rd_data_p md) {
	sbv_t v, mv;
	int error;

	(void)md;
	if (NULL == bn || NULL == m)
		return (EINVAL);
	SB_PRE(bn); SB_PRE(m);
	v = sb_val(bn);
	mv = sb_val(m);
	if (v < mv)
		return (0);
	SB_REQ(mv >= 2);
	error = sb_rem(&v, bn->count, (mv - 1));
	if (0 != error)
		return (error);
	v = ((v + 1) & sb_mask(bn));
	sb_set(bn, v);
	return (0);
}
#define bn_mod_reduce		spec_bn_mod_reduce
#endif

#ifdef SPEC_MOD_SQRT
/* bn = a square root of bn mod m (m = field prime), -1 for a non-residue.  Which of the two roots the real
 * function returns is not part of its contract: the stub returns either, chosen by the solver (sb_sqrt_pick). */
static unsigned sb_sqrt_pick;
static inline int
spec_bn_mod_sqrt(bn_p bn, bn_p m, bn_mod_rd_data_p md) {
	sbv_t v, mv, r;
	int error;

	(void)md;
	if (NULL == bn || NULL == m)
		return (EINVAL);
	SB_PRE(bn); SB_PRE(m);
	if (0 == m->digits || 0 == (m->num[0] & 1))
		return (EINVAL);
	v = sb_val(bn);
	mv = sb_val(m);
	SB_REQ(CV_P == mv);
	error = sb_rem(&v, bn->count, mv);
	if (0 != error)
		return (error);
	if (0 == v || 1 == v) {
		sb_set(bn, v);
		return (0);
	}
	r = SQRTP[(v < CV_P) ? v : 0];
	if (255 == r) {
		sb_set(bn, v);
		return (-1);
	}
	if (0 != (sb_sqrt_pick & 1))
		r = (CV_P - r);
	sb_set(bn, r);
	return (0);
}
#define bn_mod_sqrt		spec_bn_mod_sqrt
#endif

/* bn_import_be_hex (used by ecdsa_curve_from_str on the curve constants): the real scanner walks a pointer to one
 * before the start of the string (`for (...; r_pos >= buf; r_pos --)`), which CBMC rejects as an out-of-bounds
 * pointer relation; text <-> bignum conversion is C01's subject, here only the constructor's use of it matters.
 * Same result: value of the hex digits (other characters skipped), remaining digits zero, EINVAL / EOVERFLOW. */
static inline int
spec_bn_import_be_hex(bn_p bn, const uint8_t *buf, size_t buf_size) {
	sbv_t v = 0;
	size_t nibbles = 0;

	if (NULL == bn || NULL == buf)
		return (EINVAL);
	if (0 == bn->count || 0 == buf_size)
		return (EINVAL);
	if ((bn->count * BN_DIGIT_SIZE) < (buf_size / 2))
		return (EOVERFLOW);
	SB_REQ(buf_size <= 6);
	for (size_t i = 0; i < 6; i ++) {
		uint8_t c;
		if (i >= buf_size)
			break;
		c = buf[i];
		if ('0' <= c && '9' >= c) {
			c -= '0';
		} else if ('a' <= c && 'f' >= c) {
			c -= ('a' - 10);
		} else if ('A' <= c && 'F' >= c) {
			c -= ('A' - 10);
		} else {
			continue;
		}
		v = ((v << 4) | c);
		nibbles ++;
	}
	if (((nibbles / 2) > (bn->count * BN_DIGIT_SIZE)))
		return (EOVERFLOW);
	for (size_t i = 0; i < BN_MAX_DIGITS; i ++) {
		if (i < bn->count)
			bn->num[i] = ((i < 4) ? (bn_digit_t)(v >> (BN_DIGIT_BITS * (i & 3))) : 0);
	}
	bn->digits = sb_digits_of(v);
	return (0);
}
#define bn_import_be_hex	spec_bn_import_be_hex

/* bn_import_be_bin / bn_export_be_bin: same one-before-the-start pointer idiom in the real loops
 * (`for (; r_pos >= buf; r_pos --)`), reported by CBMC's pointer checks and invisible to ASan; byte <-> bignum
 * conversion is C01's subject.  The stubs touch exactly buf[0 .. buf_size), so an over-read / over-write of the
 * CALLER's buffer is still an object-bounds violation.  Used on freshly initialised bignums only (checked). */
static inline int
spec_bn_import_be_bin(bn_p bn, const uint8_t *buf, size_t buf_size) {
	sbv_t v = 0;

	if (NULL == bn || NULL == buf)
		return (EINVAL);
	if (0 == bn->count || 0 == buf_size)
		return (EINVAL);
	if ((bn->count * BN_DIGIT_SIZE) < buf_size)
		return (EOVERFLOW);
	SB_REQ(0 == bn->digits && buf_size <= 3);
	for (size_t i = 0; i < 3; i ++) {
		if (i < buf_size)
			v = ((v << 8) | buf[i]);
	}
	sb_set(bn, v);
	return (0);
}
static inline int
spec_bn_export_be_bin(bn_p bn, uint32_t flags, uint8_t *buf, size_t buf_size, size_t *buf_size_ret) {
	sbv_t v;

	if (NULL == bn || NULL == buf)
		return (EINVAL);
	if (0 == buf_size)
		return (EINVAL);
	SB_PRE(bn);
	SB_REQ(0 == flags && buf_size <= 4);
	if (NULL != buf_size_ret)
		(*buf_size_ret) = buf_size;
	if (bn->digits > buf_size)
		return (EOVERFLOW);
	v = sb_val(bn);
	for (size_t i = 0; i < 4; i ++) {
		if (i < buf_size)
			buf[i] = (uint8_t)(v >> (8 * ((buf_size - 1 - i) & 3)));
	}
	return (0);
}
#define bn_import_be_bin	spec_bn_import_be_bin
#define bn_export_be_bin	spec_bn_export_be_bin

#define bn_mod			spec_bn_mod
#define bn_mod_add		spec_bn_mod_add
#define bn_mod_sub		spec_bn_mod_sub
#define bn_mod_mult		spec_bn_mod_mult
#define bn_mod_mult_digit	spec_bn_mod_mult_digit
#define bn_mod_square		spec_bn_mod_square
#define bn_mod_exp_digit	spec_bn_mod_exp_digit
#undef bn_mod_inv
#define bn_mod_inv(bn, m, md)	spec_bn_mod_inv((bn), (m), (md))

#endif /* SPEC_BN_H */
