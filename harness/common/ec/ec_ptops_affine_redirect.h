/* Included by the generated ec_split.h in front of the first affine ladder function: from here on the affine
 * point operations defined above are the specification stubs of ec_ptops_spec.h. */
#ifndef EC_PTOPS_AFFINE_REDIRECT_H
#define EC_PTOPS_AFFINE_REDIRECT_H
#define ec_point_affine_add		spec_ec_point_affine_add
#define ec_point_affine_sub		spec_ec_point_affine_sub
#define ec_point_affine_dbl_n		spec_ec_point_affine_dbl_n
#endif
