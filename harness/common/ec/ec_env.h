/*
 * ec_env.h - common front part of the EC / ECDSA harnesses (C02, C03, C09).
 *
 * Build parameters (jobs.py):  CURVE (table id, see gen_curve.py), CV_M (curve->m: 8, or 16 = two-byte field
 * elements for the same small prime), plus liblcb's own configuration macros (EC_USE_PROJECTIVE, ...).
 * Fixed here: BN_DIGIT_BIT_CNT = 8, BN_BIT_LEN = 2 * CV_M + 24, EC_PF_FXP_MULT_PRECALC_DBL_SIZE = CV_M.
 *
 * The curve object is produced by liblcb's real constructor ecdsa_curve_from_str() from hex strings emitted by
 * the generator, so the base-point precomputation (G_fpx_mult_data) is the library's own.
 */
#ifndef EC_ENV_H
#define EC_ENV_H

#include "verif.h"
#include <errno.h>
#include <sys/types.h>
#include <sys/param.h>

#ifndef BN_DIGIT_BIT_CNT
#define BN_DIGIT_BIT_CNT	8
#endif
#ifndef CV_M
#define CV_M			8
#endif
#ifndef BN_BIT_LEN			/* largest temporary of the EC layer: 2 * m + 3 digits (ec_point_proj_dbl_n) */
#define BN_BIT_LEN		((2 * CV_M) + 24)
#endif
#ifndef EC_PF_FXP_MULT_PRECALC_DBL_SIZE
#define EC_PF_FXP_MULT_PRECALC_DBL_SIZE	CV_M
#endif

#include "ec_tables.h"			/* generated: CV_P ... TX TY XIDX INVP INVN SQRTP */

/* libc memcpy with a symbolic length (bn_assign copies `digits` digits) is modelled by CBMC as a byte-array
 * update of symbolic extent, which dominated the formula; a bignum here has at most BN_BIT_LEN / 8 = 8 bytes,
 * so memcpy is replaced by the obvious bounded byte loop (environment stub; the bound is checked). */
static int env_bad;
static inline void *
v_memcpy(void *dst, const void *src, size_t n) {
	if (n > (BN_BIT_LEN / 8)) env_bad = 1;
	for (size_t i = 0; i < (BN_BIT_LEN / 8); i ++) {
		if (i < n)
			((uint8_t *)dst)[i] = ((const uint8_t *)src)[i];
	}
	return (dst);
}
#include <string.h>
#define memcpy v_memcpy
#include "math/big_num.h"
#include "common/ec/spec_bn.h"		/* redirects the modular layer to the specification stubs */
#ifdef EC_ENV_PRE_ECDSA
EC_ENV_PRE_ECDSA			/* hook for harnesses that redirect names between the two headers */
#endif
#ifdef EC_LADDER_STUBS
#include "ec_split.h"			/* generated: elliptic_curve.h with the point operations below the ladders stubbed */
#else
#include "math/elliptic_curve.h"
#endif
#ifdef EC_ENV_POST_EC
#include EC_ENV_POST_EC			/* e.g. fault-injecting replacements of the scalar multiplications */
#endif
#include "crypto/dsa/ecdsa.h"

#define CV_BYTES	((CV_M + 7) / 8)

static ec_curve_t CV;

static ec_curve_str_t cv_str = {
	/*.name =*/	"synthetic", 9, /*.OID =*/ "0", 1,
	/*.num_size =*/	2,
	/*.t =*/	(CV_M / 2),
	/*.m =*/	CV_M,
	/*.Fx =*/	{0},
	/*.p =*/	CV_P_HEX,
	/*.SEED =*/	NULL, 0,
	/*.a =*/	CV_A_HEX,
	/*.b =*/	CV_B_HEX,
	/*.Gx =*/	CV_GX_HEX,
	/*.Gy =*/	CV_GY_HEX,
	/*.n =*/	CV_N_HEX,
	/*.h =*/	CV_H,
	/*.algo =*/
#ifdef CV_ALGO_GOST
			EC_CURVE_ALGO_GOST20XX,
#else
			EC_CURVE_ALGO_ECDSA,
#endif
	/*.flags =*/	(CV_A_M3 ? EC_CURVE_FLAG_A_M3 : 0),
};

/* returns the constructor's status */
static inline int
env_curve_init(void) {
	return (ecdsa_curve_from_str(&cv_str, &CV));
}

/* value -> normalised bn (bn_assign_digit(bn, 0) would give the non-normalised zero) */
static inline void
env_bn_set(bn_p bn, size_t bits, uint32_t v) {
	int error = bn_init(bn, bits);
	V_ASSUME(0 == error);
	sb_set(bn, (v & sb_mask(bn)));
}

/* Point number idx of the table (0 = infinity) in a fresh ec_point_t of `bits` capacity.
 * A point at infinity carries stale coordinates (gx, gy), as it does after P - P in the library. */
static inline void
env_point(ec_point_p pt, unsigned idx, size_t bits, unsigned gx, unsigned gy) {
	int error = ec_point_init(pt, bits);
	V_ASSUME(0 == error);
	if (0 == idx) {
		sb_set(&pt->x, gx);
		sb_set(&pt->y, gy);
		pt->infinity = 1;
	} else {
		sb_set(&pt->x, TX[idx]);
		sb_set(&pt->y, TY[idx]);
		pt->infinity = 0;
	}
}

/* Same with the infinity decision made by the caller as a CONSTANT (is_inf), so that code whose loop bounds
 * depend on "operand at infinity" (comb / window set-up) keeps concrete control flow; idx != 0 when !is_inf. */
static inline void
env_point_c(ec_point_p pt, int is_inf, unsigned idx, size_t bits, unsigned gx, unsigned gy) {
	int error = ec_point_init(pt, bits);
	V_ASSUME(0 == error);
	if (is_inf) {
		sb_set(&pt->x, gx);
		sb_set(&pt->y, gy);
		pt->infinity = 1;
	} else {
		sb_set(&pt->x, TX[idx]);
		sb_set(&pt->y, TY[idx]);
		pt->infinity = 0;
	}
}

/* is pt the table's point idx? */
static inline int
env_point_is(ec_point_p pt, unsigned idx) {
	if (0 == idx)
		return (0 != pt->infinity);
	return (0 == pt->infinity && sb_is_norm(&pt->x) && sb_is_norm(&pt->y) &&
	    sb_val(&pt->x) == TX[idx] && sb_val(&pt->y) == TY[idx]);
}

/* affine (x, y) -> table index, 0 = not on the curve */
static inline unsigned
env_index_of(uint32_t x, uint32_t y) {
	unsigned i;

	if (x >= CV_P || y >= CV_P)
		return (0);
	i = XIDX[x];
	if (0 == i)
		return (0);
	if (TY[i] == y)
		return (i);
	if (TY[(CV_NTOT - i)] == y)
		return ((CV_NTOT - i));
	return (0);
}

#ifdef EC_LADDER_STUBS
/* havoc coordinates used by the point-operation stubs for results at infinity */
#define ENV_PTOPS_IN	uint8_t phx, phy;
#define ENV_PTOPS_INIT()	do { ptops_hx = IN.phx; ptops_hy = IN.phy; } while (0)
#else
#define ENV_PTOPS_IN
#define ENV_PTOPS_INIT()	do { } while (0)
#endif

/* every harness ends with this */
#define ENV_FINAL()	do { SB_FINAL(); V_ASSERT(0 == env_bad, "memcpy never copies more than one bignum"); } while (0)

#endif /* EC_ENV_H */
