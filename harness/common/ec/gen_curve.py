#!/usr/bin/env python3
"""
Generator of the synthetic-curve oracle tables shared by C02 / C03 / C09.

Everything here is computed from first principles with Python integers (affine textbook group law over F_p,
brute-force point enumeration, brute-force orders); nothing comes from liblcb.

For every curve the WHOLE group E(F_p) is enumerated as  T[i] = i * G0  (T[0] = point at infinity) where G0
generates E(F_p) (all curves used here have a cyclic group).  The group law is then index arithmetic modulo
NTOT = #E(F_p);  the library's base point is  G = H * G0  of prime order  N = NTOT / H.

write(outdir) emits  ec_tables.h ; a harness selects one curve with -DCURVE=<id> (and -DCV_M=8|16).
"""
import os, sys


def isprime(n):
    if n < 2:
        return False
    i = 2
    while i * i <= n:
        if n % i == 0:
            return False
        i += 1
    return True


def inv(a, p):
    a %= p
    assert a
    return pow(a, p - 2, p)


def add(P, Q, a, p):
    if P is None:
        return Q
    if Q is None:
        return P
    x1, y1 = P
    x2, y2 = Q
    if x1 == x2:
        if (y1 + y2) % p == 0:
            return None
        lam = (3 * x1 * x1 + a) * inv(2 * y1, p) % p
    else:
        lam = (y2 - y1) * inv(x2 - x1, p) % p
    x3 = (lam * lam - x1 - x2) % p
    return (x3, (lam * (x1 - x3) - y1) % p)


def mul(k, P, a, p):
    R = None
    for _ in range(k):          # deliberately the dumbest possible definition
        R = add(R, P, a, p)
    return R


def enumerate_points(a, b, p):
    return [(x, y) for x in range(p) for y in range(p) if (y * y - (x ** 3 + a * x + b)) % p == 0]


# id: (p, a, b, cofactor h, comment)
CURVES = {
    1: (23, 20, 8, 1, "a = p-3 (EC_CURVE_FLAG_A_M3), prime order 31 > p"),
    2: (31, 2, 14, 1, "generic a, prime order 23 < p"),
    3: (61, 2, 5, 1, "generic a, prime order 59, p = 5 mod 8"),
    4: (23, 20, 11, 2, "a = p-3, order 26 = 2*13, one 2-torsion point (y = 0)"),
    5: (23, 2, 4, 2, "generic a, order 26 = 2*13, one 2-torsion point (y = 0)"),
    6: (251, 248, 26, 1, "a = p-3, prime order 223: bit length of n = 8 = field bytes * 8"),
    7: (251, 2, 34, 1, "generic a, prime order 239: bit length of n = 8"),
    8: (7, 4, 6, 1, "tiny, a = p-3, prime order 11 > p (build-matrix curve)"),
    9: (11, 2, 7, 1, "tiny, generic a, prime order 7 < p"),
    10: (7, 4, 4, 2, "tiny, a = p-3, order 10 = 2*5, one 2-torsion point"),
    11: (11, 1, 1, 2, "tiny, generic a, order 14 = 2*7, one 2-torsion point"),
}


def build(cid):
    p, a, b, h, comment = CURVES[cid]
    assert isprime(p) and p < 256 and (4 * a ** 3 + 27 * b * b) % p != 0
    pts = enumerate_points(a, b, p)
    ntot = len(pts) + 1
    assert ntot % h == 0
    n = ntot // h
    assert isprime(n) and n < 256
    # generator of the whole group: smallest point (x, then y) of order ntot
    g0 = None
    for P in pts:
        k, Q = 1, P
        while Q is not None:
            Q = add(Q, P, a, p)
            k += 1
        if k == ntot and P[0] != 0:     # x = 0 points stay in the table, but not as the base point
            g0 = P
            break
    assert g0 is not None, "group not cyclic"
    T = [None]
    Q = None
    for i in range(1, ntot):
        Q = add(Q, g0, a, p)
        assert Q is not None
        T.append(Q)
    assert add(Q, g0, a, p) is None
    assert sorted(T[1:]) == sorted(pts)
    # independent cross-check of a few table entries with the dumb multiplication
    for k in sorted(set((2, 3, ntot // 2, ntot - 1))):
        assert mul(k, g0, a, p) == T[k]
    G = T[h]
    assert mul(n, G, a, p) is None and G is not None
    return dict(id=cid, p=p, a=a, b=b, h=h, n=n, ntot=ntot, T=T, G=G, a_m3=(a == p - 3), comment=comment)


def c_array(name, ctype, vals, per=24):
    out = ["static const %s %s[%d] = {" % (ctype, name, len(vals))]
    for i in range(0, len(vals), per):
        out.append("\t" + ", ".join(str(v) for v in vals[i:i + per]) + ",")
    out.append("};")
    return "\n".join(out)


def emit(c):
    p, n, ntot, T = c["p"], c["n"], c["ntot"], c["T"]
    L = []
    L.append("#if CURVE == %d  /* y^2 = x^3 + %d x + %d over F_%d : %s */" % (c["id"], c["a"], c["b"], p, c["comment"]))
    L.append("#define CV_P %d\n#define CV_A %d\n#define CV_B %d\n#define CV_N %d\n#define CV_H %d" % (p, c["a"], c["b"], n, c["h"]))
    L.append("#define CV_NTOT %d\n#define CV_A_M3 %d\n#define CV_GX %d\n#define CV_GY %d" % (ntot, 1 if c["a_m3"] else 0, c["G"][0], c["G"][1]))
    L.append("#define CV_NBITS %d" % n.bit_length())
    L.append('#define CV_P_HEX "%02x"\n#define CV_A_HEX "%02x"\n#define CV_B_HEX "%02x"\n#define CV_GX_HEX "%02x"\n#define CV_GY_HEX "%02x"\n#define CV_N_HEX "%02x"'
             % (p, c["a"], c["b"], c["G"][0], c["G"][1], n))
    L.append(c_array("TX", "uint8_t", [0] + [P[0] for P in T[1:]]))
    L.append(c_array("TY", "uint8_t", [0] + [P[1] for P in T[1:]]))
    # x -> index in T of the point (x, smaller y); 0 = no point with that x.  The other point with this x is
    # T[NTOT - i] (the negative).  Index 0 itself is infinity and has no affine form.
    xidx = [0] * p
    for i, P in enumerate(T):
        if P is not None and P[1] <= (p - P[1]) % p:
            xidx[P[0]] = i
    for i, P in enumerate(T):
        if P is not None:
            j = xidx[P[0]]
            assert j and (T[j] == P or T[ntot - j] == P) and T[ntot - j] == (P[0], (p - T[j][1]) % p)
    assert ntot < 256
    L.append(c_array("XIDX", "uint8_t", xidx, 32))
    L.append(c_array("INVP", "uint8_t", [0] + [inv(v, p) for v in range(1, p)]))
    L.append(c_array("INVN", "uint8_t", [0] + [inv(v, n) for v in range(1, n)]))
    # square roots mod p: SQRTP[v] = the smaller root, 255 = non-residue (0 -> 0)
    sq = []
    for v in range(p):
        r = [y for y in range(p) if (y * y) % p == v]
        sq.append(min(r) if r else 255)
    assert all(s == 255 or s <= (p - 1) // 2 for s in sq)
    L.append(c_array("SQRTP", "uint8_t", sq))
    L.append("#endif")
    return "\n".join(L)


def write_split_header(repo, outdir):
    """ec_split.h = liblcb's include/math/elliptic_curve.h, text unchanged, plus two #include lines:
    one in front of the first projective ladder function (ec_point_proj_bin_mult) and one in front of the first
    affine ladder function (ec_point_affine_bin_mult).  The included files redirect - from that line on - the
    point operations defined ABOVE the line to their specification stubs, so that the ladder / window / comb /
    JSF / NAF code below runs as written while the point operations it calls are the contract that the
    group-law jobs (C02 grp.c) establish for the real ones.  Same effect as `goto-instrument --replace-calls`
    (DESIGN 1.3 mechanism ii), which the driver has no step for.  Fails (-> check fails closed) if the anchors move."""
    src = os.path.join(repo, "include", "math", "elliptic_curve.h")
    with open(src) as f:
        lines = f.read().split("\n")
    anchors = [("ec_point_proj_bin_mult(ec_point_proj_p point, bn_p d, ec_curve_p curve) {",
                '#include "common/ec/ec_ptops_spec.h"\t/* inserted by gen_curve.py */'),
               ("ec_point_affine_bin_mult(ec_point_p point, bn_p d, ec_curve_p curve) {",
                '#include "common/ec/ec_ptops_affine_redirect.h"\t/* inserted by gen_curve.py */')]
    for anchor, inc in anchors:
        idx = [i for i, l in enumerate(lines) if l == anchor]
        assert len(idx) == 1, "anchor not found exactly once: " + anchor
        i = idx[0]
        assert lines[i - 1] == "static inline int", "unexpected text in front of " + anchor
        lines.insert(i - 1, inc)
    # every redirected operation must be DEFINED above its include line and only CALLED below it
    text = "\n".join(lines)
    p1 = text.index(anchors[0][1])
    p2 = text.index(anchors[1][1])
    for fn in ("ec_point_proj_add", "ec_point_proj_sub", "ec_point_proj_dbl_n", "ec_point_proj_add_mix",
               "ec_point_proj_sub_mix", "ec_point_proj_norm", "ec_point_proj_export_affine"):
        d = text.index("\n" + fn + "(")
        assert d < p1 and text.find("\n" + fn + "(", d + 1) < 0, fn
    for fn in ("ec_point_affine_add", "ec_point_affine_sub", "ec_point_affine_dbl_n"):
        d = text.index("\n" + fn + "(")
        assert p1 < d < p2 and text.find("\n" + fn + "(", d + 1) < 0, fn
    with open(os.path.join(outdir, "ec_split.h"), "w") as f:
        f.write("/* GENERATED from %s by harness/common/ec/gen_curve.py: two #include lines inserted, nothing else. */\n" % src)
        f.write(text)


def write(outdir):
    parts = ["/* GENERATED by harness/common/ec/gen_curve.py - synthetic curves, whole groups enumerated with Python integers. */",
             "#ifndef EC_TABLES_H\n#define EC_TABLES_H\n#include <stdint.h>"]
    for cid in sorted(CURVES):
        parts.append(emit(build(cid)))
    parts.append("#ifndef CV_P\n#error \"-DCURVE=<id> missing or unknown\"\n#endif\n#endif")
    with open(os.path.join(outdir, "ec_tables.h"), "w") as f:
        f.write("\n".join(parts) + "\n")


if __name__ == "__main__":
    write(sys.argv[1])
    write_split_header(sys.argv[2] if len(sys.argv) > 2 else "/repo", sys.argv[1])
    for cid in sorted(CURVES):
        c = build(cid)
        print(cid, {k: c[k] for k in ("p", "a", "b", "h", "n", "ntot", "G", "a_m3")})
