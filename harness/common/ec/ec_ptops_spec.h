/*
 * ec_ptops_spec.h - specification stubs for the POINT OPERATIONS of elliptic_curve.h, included by the generated
 * ec_split.h right in front of the first ladder function (see gen_curve.py:write_split_header).
 *
 * Layering of the C02 claim (DESIGN 1.3, "specification stubs for a verified lower layer", one level up):
 *   (A) harness/C02/grp.c runs the REAL point operations (affine add/sub/dbl_n, Jacobian add/sub/add_mix/sub_mix/
 *       dbl_n with arbitrary Z, norm/export) on all pairs of group elements and every Jacobian representative and
 *       shows: status 0, result is a representative of the group-law point, second operand unchanged.
 *   (B) the scalar-multiplication code (binary, precomputed doubles, sliding window, comb 1T/2T, twin binary /
 *       JSF / NAF, the dispatch macros, check_scalar_mult) is executed as written, with the point operations
 *       replaced by exactly that contract: decode each operand to its index in the enumerated group, add indices,
 *       write back a representative of the result (affine coordinates scaled by the build constant PTOPS_Z),
 *       havoc the coordinates of a result at infinity.  The code above the point operations never looks at
 *       coordinates other than Z == 0 / the infinity flag (checked by reading; the PTOPS_Z != 1 jobs exercise it).
 *   (C) a few end-to-end jobs without these stubs tie the two together.
 * A stub reports (SB_REQ -> the job fails) when an operand is not a point of the curve: (A) says nothing then.
 */
#ifndef EC_PTOPS_SPEC_H
#define EC_PTOPS_SPEC_H

/* Scale factor of the representatives the Jacobian stubs hand back: a build parameter (1 = affine coordinates
 * with Z = 1; thorough jobs repeat selected configurations with another constant).  A solver-chosen factor made
 * the solver re-derive x * z^2 * (z^-1)^2 = x (mod p) at every operation and did not finish [measured]. */
#ifndef PTOPS_Z
#define PTOPS_Z 1
#endif
static uint8_t ptops_hx, ptops_hy;	/* solver-chosen coordinates written into a result at infinity */

static inline sbv_t
ptops_next_z(void) {
	return ((PTOPS_Z % CV_P) ? (PTOPS_Z % CV_P) : 1);
}

/* affine (x, y) -> index (0 = not on the curve) */
static inline unsigned
ptops_index_xy(sbv_t x, sbv_t y) {
	unsigned i;

	if (x >= CV_P || y >= CV_P)
		return (0);
	i = XIDX[x];
	if (0 == i)
		return (0);
	if (TY[i] == y)
		return (i);
	if (TY[(CV_NTOT - i)] == y)
		return ((CV_NTOT - i));
	return (0);
}

static inline unsigned
ptops_index_affine(ec_point_p a) {
	unsigned i;

	if (0 != a->infinity)
		return (0);
	SB_PRE(&a->x); SB_PRE(&a->y);
	i = ptops_index_xy(sb_val(&a->x), sb_val(&a->y));
	SB_REQ(0 != i); /* operand must be a point of the curve */
	return (i);
}

static inline unsigned
ptops_index_proj(ec_point_proj_p a) {
	sbv_t x, y, z, zi, zi2;
	unsigned i;

	SB_PRE(&a->z);
	if (0 == a->z.digits)
		return (0);
	SB_PRE(&a->x); SB_PRE(&a->y);
	x = sb_val(&a->x);
	y = sb_val(&a->y);
	z = sb_val(&a->z);
	SB_REQ(x < CV_P && y < CV_P && z < CV_P);
	if (1 != z) {
		zi = INVP[(z < CV_P) ? z : 0];
		zi2 = ((zi * zi) % CV_P);
		x = (((x & 0xff) * zi2) % CV_P);
		y = (((((y & 0xff) * zi2) % CV_P) * zi) % CV_P);
	}
	i = ptops_index_xy(x, y);
	SB_REQ(0 != i); /* operand must be a point of the curve */
	return (i);
}

static inline void
ptops_set_affine(ec_point_p a, unsigned idx) {
	SB_REQ(a->x.count >= 1 && a->y.count >= 1);
	if (0 == idx) {
		sb_set(&a->x, (ptops_hx % CV_P));
		sb_set(&a->y, (ptops_hy % CV_P));
		a->infinity = 1;
	} else {
		sb_set(&a->x, TX[idx]);
		sb_set(&a->y, TY[idx]);
		a->infinity = 0;
	}
}

static inline void
ptops_set_proj(ec_point_proj_p a, unsigned idx, sbv_t z) {
	sbv_t z2;

	SB_REQ(a->x.count >= 1 && a->y.count >= 1 && a->z.count >= 1);
	if (0 == idx) {
		sb_set(&a->x, (ptops_hx % CV_P));
		sb_set(&a->y, (ptops_hy % CV_P));
		sb_set(&a->z, 0);
	} else {
		z2 = ((z * z) % CV_P);
		sb_set(&a->x, ((TX[idx] * z2) % CV_P));
		sb_set(&a->y, ((((TY[idx] * z2) % CV_P) * z) % CV_P));
		sb_set(&a->z, z);
	}
}

/* ---- Jacobian operations ---- */
static inline int
spec_ec_point_proj_add(ec_point_proj_p a, ec_point_proj_p b, ec_curve_p curve) {
	if (NULL == a || NULL == b || NULL == curve)
		return (EINVAL);
	ptops_set_proj(a, ((ptops_index_proj(a) + ptops_index_proj(b)) % CV_NTOT), ptops_next_z());
	return (0);
}
static inline int
spec_ec_point_proj_sub(ec_point_proj_p a, ec_point_proj_p b, ec_curve_p curve) {
	if (NULL == a || NULL == b || NULL == curve)
		return (EINVAL);
	ptops_set_proj(a, ((ptops_index_proj(a) + CV_NTOT - ptops_index_proj(b)) % CV_NTOT), ptops_next_z());
	return (0);
}
static inline int
spec_ec_point_proj_dbl_n(ec_point_proj_p point, size_t n, ec_curve_p curve) {
	unsigned i;
#ifdef EC_PROJ_REPEAT_DOUBLE
	if (NULL == point || NULL == curve)
		return (EINVAL);
#endif
	SB_REQ(n <= 8);
	i = ptops_index_proj(point);
	for (size_t k = 0; k < 8; k ++) {
		if (k < n)
			i = ((i + i) % CV_NTOT);
	}
	ptops_set_proj(point, i, ptops_next_z());
	return (0);
}
static inline int
spec_ec_point_proj_add_mix(ec_point_proj_p a, ec_point_p b, ec_curve_p curve) {
	if (NULL == a || NULL == b || NULL == curve)
		return (EINVAL);
	ptops_set_proj(a, ((ptops_index_proj(a) + ptops_index_affine(b)) % CV_NTOT), ptops_next_z());
	return (0);
}
static inline int
spec_ec_point_proj_sub_mix(ec_point_proj_p a, ec_point_p b, ec_curve_p curve) {
	if (NULL == a || NULL == b || NULL == curve)
		return (EINVAL);
	ptops_set_proj(a, ((ptops_index_proj(a) + CV_NTOT - ptops_index_affine(b)) % CV_NTOT), ptops_next_z());
	return (0);
}
static inline int
spec_ec_point_proj_norm(ec_point_proj_p point, ec_curve_p curve) {
	unsigned i;

	if (NULL == point || NULL == curve)
		return (EINVAL);
	if (0 == point->z.digits)
		return (0);
	i = ptops_index_proj(point);
	ptops_set_proj(point, i, 1);
	return (0);
}
static inline int
spec_ec_point_proj_export_affine(ec_point_proj_p a, ec_point_p b, ec_curve_p curve) {
	unsigned i;

	if (NULL == a || NULL == b || (void*)a == (void*)b || NULL == curve)
		return (EINVAL);
	if (0 == a->z.digits) {
		b->infinity = 1;
		return (0);
	}
	i = ptops_index_proj(a);
	ptops_set_proj(a, i, 1);
	SB_REQ(b->x.count >= 1 && b->y.count >= 1);
	sb_set(&b->x, TX[i]);
	sb_set(&b->y, TY[i]);
	b->infinity = 0;
	return (0);
}

/* ---- affine operations ---- */
static inline int
spec_ec_point_affine_add(ec_point_p a, ec_point_p b, ec_curve_p curve) {
	unsigned ib;

	if (NULL == a || NULL == b || NULL == curve)
		return (EINVAL);
	ib = ptops_index_affine(b);
	if (0 == ib)
		return (0); /* a = a: untouched, as in the real function */
	ptops_set_affine(a, ((ptops_index_affine(a) + ib) % CV_NTOT));
	return (0);
}
static inline int
spec_ec_point_affine_sub(ec_point_p a, ec_point_p b, ec_curve_p curve) {
	unsigned ib;

	if (NULL == a || NULL == b || NULL == curve)
		return (EINVAL);
	ib = ptops_index_affine(b);
	if (0 == ib)
		return (0);
	ptops_set_affine(a, ((ptops_index_affine(a) + CV_NTOT - ib) % CV_NTOT));
	return (0);
}
static inline int
spec_ec_point_affine_dbl_n(ec_point_p point, size_t n, ec_curve_p curve) {
	unsigned i;

	(void)curve;
	SB_REQ(n <= 8);
	i = ptops_index_affine(point);
	if (0 == i || 0 == n)
		return (0);
	for (size_t k = 0; k < 8; k ++) {
		if (k < n)
			i = ((i + i) % CV_NTOT);
	}
	ptops_set_affine(point, i);
	return (0);
}

#define ec_point_proj_add		spec_ec_point_proj_add
#define ec_point_proj_sub		spec_ec_point_proj_sub
#define ec_point_proj_dbl_n		spec_ec_point_proj_dbl_n
#define ec_point_proj_add_mix		spec_ec_point_proj_add_mix
#define ec_point_proj_sub_mix		spec_ec_point_proj_sub_mix
#define ec_point_proj_norm		spec_ec_point_proj_norm
#define ec_point_proj_export_affine	spec_ec_point_proj_export_affine

#endif /* EC_PTOPS_SPEC_H */
