/* Select the portable block transforms exactly as /repo/tests/hash/main.c does (#undef __SSE2__ before the
 * includes); the other x86 feature macros are undefined as well so that no SIMD path is compiled whatever -m flags
 * the compiler driver defaults to. SSE / SHA-NI / AVX transforms are OUTSIDE the claim (goto-cc does not model the
 * vendor intrinsics). */
#ifndef V_PORTABLE_H
#define V_PORTABLE_H
#include <sys/param.h>
#include <sys/types.h>
#include <inttypes.h>
#include <stddef.h>
#include <string.h>
#undef __SSE2__
#undef __SSE3__
#undef __SSSE3__
#undef __SSE4_1__
#undef __SSE4_2__
#undef __AVX__
#undef __AVX2__
#undef __SHA__
#endif
