/* Adapter: SHA-2 family (include/crypto/hash/sha2.h), portable path; -DBITS=224|256|384|512.
 * Abstracted functions: sha2_transform_block64_generic / sha2_transform_block128_generic (the dispatcher sha2_transform
 * stays real). They process all blocks in [blocks, blocks_max). */
#ifndef V_ALG_SHA2_H
#define V_ALG_SHA2_H
#include "common/hash/v_portable.h"

#ifndef BITS
#error "BITS = 224 | 256 | 384 | 512"
#endif
#define A_NAME		"sha2"
typedef uint64_t	a_havoc_t;
#define A_STW		8
#define A_DIG		(BITS / 8)
#define A_BE		1
#if BITS == 224 || BITS == 256
#define A_BLK		64
#define A_BLK_LOG2	6
typedef uint32_t	a_word_t;
#define A_LENB		8
#define A_HAVOC		80	/* W[80] uint64 scratch (the 32-bit variants use the first half) */
#include "v_ref_sha256.h"
#define a_ref_compress	v_ref_sha256_compress
#if BITS == 224
#define a_iv		v_sha224_iv
#else
#define a_iv		v_sha256_iv
#endif
#else
#define A_BLK		128
#define A_BLK_LOG2	7
typedef uint64_t	a_word_t;
#define A_LENB		16
#define A_HAVOC		80
#include "v_ref_sha512.h"
#define a_ref_compress	v_ref_sha512_compress
#if BITS == 384
#define a_iv		v_sha384_iv
#else
#define a_iv		v_sha512_iv
#endif
#endif

#ifdef V_ABSTRACT
#include "common/hash/v_abs.h"
struct sha2_ctx_s;
static void v_sha2_transform_stub(struct sha2_ctx_s *ctx, const uint8_t *blocks, const uint8_t *blocks_max);
static void v_sha2_transform_wrong(struct sha2_ctx_s *ctx, const uint8_t *blocks, const uint8_t *blocks_max);
#if A_BLK == 64
#define sha2_transform_block64_generic(A, B, C)		V_CAT(V_T64_, A), B, C)
#define sha2_transform_block128_generic(A, B, C)	V_CAT(V_T128_, A), B, C)
#define V_T64_sha2_ctx_p	sha2_transform_block64_generic__real(sha2_ctx_p
#define V_T64_ctx		v_sha2_transform_stub(ctx
#define V_T128_sha2_ctx_p	sha2_transform_block128_generic__real(sha2_ctx_p
#define V_T128_ctx		v_sha2_transform_wrong(ctx
#else
#define sha2_transform_block64_generic(A, B, C)		V_CAT(V_T64_, A), B, C)
#define sha2_transform_block128_generic(A, B, C)	V_CAT(V_T128_, A), B, C)
#define V_T64_sha2_ctx_p	sha2_transform_block64_generic__real(sha2_ctx_p
#define V_T64_ctx		v_sha2_transform_wrong(ctx
#define V_T128_sha2_ctx_p	sha2_transform_block128_generic__real(sha2_ctx_p
#define V_T128_ctx		v_sha2_transform_stub(ctx
#endif
#endif

#include "crypto/hash/sha2.h"

#ifdef V_ABSTRACT
#undef sha2_transform_block64_generic
#undef sha2_transform_block128_generic
static void v_sha2_transform_stub(struct sha2_ctx_s *ctx, const uint8_t *blocks, const uint8_t *blocks_max) {
	for (unsigned guard = 0; blocks < blocks_max && guard < V_MAXCALLS; blocks += A_BLK, guard++) {
		unsigned k = v_abs_step((a_word_t *)ctx->hash, blocks);
		if (k < V_MAXCALLS)
			for (size_t i = 0; i < A_HAVOC; i++)
				ctx->W[i] = v_havoc[k][i];
	}
	V_ASSERT(!(blocks < blocks_max), "transform asked for more blocks than any padded message of this shape has");
}
/* the dispatcher must pick the transform that belongs to the variant's block size */
static void v_sha2_transform_wrong(struct sha2_ctx_s *ctx, const uint8_t *blocks, const uint8_t *blocks_max) {
	(void)ctx; (void)blocks; (void)blocks_max;
	V_ASSERT(0, "sha2_transform dispatched to the transform of the other block size");
}
#else
static inline void a_real_transform(sha2_ctx_t *ctx, const uint8_t *blocks, size_t nblocks) {
	sha2_transform(ctx, blocks, blocks + nblocks * A_BLK);
}
/* everything except the chaining state and the schedule W[] must stay as it was */
#define a_frame_check(c, b)	do { \
	V_ASSERT((c)->count == (b)->count && (c)->count_hi == (b)->count_hi, "FRAME transform leaves the counters alone"); \
	V_ASSERT((c)->hash_size == (b)->hash_size && (c)->block_size == (b)->block_size, "FRAME transform leaves the sizes alone"); \
	for (size_t i_ = 0; i_ < SHA2_MSG_BLK_MAX_64CNT; i_++) \
		V_ASSERT((c)->buffer[i_] == (b)->buffer[i_], "FRAME transform leaves the input buffer alone"); \
	for (size_t i_ = (A_STW * sizeof(a_word_t)) / 8; i_ < 8; i_++) \
		V_ASSERT((c)->hash[i_] == (b)->hash[i_], "FRAME 32-bit variants leave the upper half of hash[] alone"); } while (0)
/* xform.c: the dispatcher looks at block_size; hash_size is irrelevant to the transform but must be a legal value */
#define a_xform_prepare(c)	do { (c)->block_size = A_BLK; } while (0)
#endif

typedef sha2_ctx_t	a_ctx_t;
typedef hmac_sha2_ctx_t	a_hctx_t;
#define a_state(c)	((a_word_t *)(c)->hash)
#define a_buffer(c)	((uint8_t *)(c)->buffer)
#define A_STATE_OFF	offsetof(sha2_ctx_t, hash)
/* step.c domain: FIPS 180-4: < 2^64 bits (SHA-224/256), < 2^128 bits (SHA-384/512) */
#if A_BLK == 64
#define A_MAXQ_HI	0
#define A_MAXN_HI	0
#define A_MAXN_LO	((((uint64_t)1) << 61) - 1)
#else
#define A_MAXQ_HI	((((uint64_t)1) << 54) - 1)
#define A_MAXN_HI	((((uint64_t)1) << 61) - 1)
#endif
#define a_count_lo(c)	((c)->count)
#define a_count_hi(c)	((c)->count_hi)
#define a_step_prepare(c, lo, hi)	do { (c)->count = (lo); (c)->count_hi = (hi); (c)->hash_size = A_DIG; (c)->block_size = A_BLK; } while (0)
#define a_step_invariant(c)		do { V_ASSERT((c)->hash_size == A_DIG && (c)->block_size == A_BLK, "variant sizes unchanged by update"); } while (0)
#define a_init(c)			sha2_init(BITS, (c))
#define a_update(c, d, n)		sha2_update((c), (d), (n))
#define a_final(c, out)			sha2_final((c), (out))
#define a_oneshot(d, n, out)		do { size_t dsz_ = 777; sha2_get_digest(BITS, (d), (n), (out), &dsz_); V_ASSERT(dsz_ == A_DIG, "reported digest size"); } while (0)
#define a_oneshot_str(d, n, str)	do { size_t ssz_ = 777; sha2_get_digest_str(BITS, (const char *)(d), (n), (str), &ssz_); V_ASSERT(ssz_ == 2 * A_DIG, "reported hex size"); } while (0)
#define a_hmac_init(k, kl, h)		hmac_sha2_init(BITS, (k), (kl), (h))
#define a_hmac_update(h, d, n)		hmac_sha2_update((h), (d), (n))
#define a_hmac_final(h, out)		do { size_t dsz_ = 777; hmac_sha2_final((h), (out), &dsz_); V_ASSERT(dsz_ == A_DIG, "reported MAC size"); } while (0)
#define a_hmac(k, kl, d, n, out)	hmac_sha2(BITS, (k), (kl), (d), (n), (out), NULL)
#define a_hmac_oneshot(k, kl, d, n, out)	do { size_t dsz_ = 777; sha2_hmac_get_digest(BITS, (k), (kl), (d), (n), (out), &dsz_); V_ASSERT(dsz_ == A_DIG, "reported MAC size"); } while (0)
#define a_hmac_str(k, kl, d, n, str)	do { size_t ssz_ = 777; sha2_hmac_get_digest_str(BITS, (const char *)(k), (kl), (const char *)(d), (n), (str), &ssz_); V_ASSERT(ssz_ == 2 * A_DIG, "reported hex size"); } while (0)
#define a_hmac_kopad(h)			((uint8_t *)(h)->k_opad)
#define A_KOPAD_BYTES			sizeof(((hmac_sha2_ctx_t *)0)->k_opad)
#endif
