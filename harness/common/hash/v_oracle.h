/* Oracle side of the streaming-level harnesses: padding per RFC 1321 / FIPS 180-4, log comparison, serialisation.
 * Needs the adapter macros (A_BLK, A_LENB, A_BE, A_STW, a_word_t, a_iv) and v_abs.h. Written for clarity, byte by byte. */
#ifndef V_ORACLE_H
#define V_ORACLE_H

/* tail || 0x80 || 0x00.. || bit length of the WHOLE message, where the whole message has
 * total_hi * 2^64 + total_lo bytes and `tail` are its last taillen (< A_BLK + ...) bytes starting at a block boundary.
 * Returns number of bytes written (a multiple of A_BLK). */
static size_t v_pad_tail(uint8_t *dst, size_t cap, const uint8_t *tail, size_t taillen, uint64_t total_lo, uint64_t total_hi) {
	uint8_t lenfield[16];
	/* bit length = byte length * 8 as a 128-bit number (hi:lo) */
	uint64_t bits_lo = total_lo << 3;
	uint64_t bits_hi = (total_hi << 3) | (total_lo >> 61);
	/* smallest multiple of the block size that holds tail, the 0x80 byte and the length field */
	size_t n = ((taillen + 1 + A_LENB + A_BLK - 1) / A_BLK) * A_BLK;

	for (size_t i = 0; i < 8; i++) {	/* lenfield: big endian 128 bit */
		lenfield[i] = (uint8_t)(bits_hi >> (56 - 8 * i));
		lenfield[8 + i] = (uint8_t)(bits_lo >> (56 - 8 * i));
	}
	/* loops have constant bounds (taillen may be symbolic in step.c): taillen < A_BLK + A_BLK */
	for (size_t i = 0; i < cap; i++) {	/* cap: size of dst, constant */
		if (i >= n)
			break;
		if (i < taillen)
			dst[i] = tail[i];
		else if (i == taillen)
			dst[i] = 0x80;
		else if (i < n - A_LENB)
			dst[i] = 0x00;
		else {
			size_t j = i - (n - A_LENB);	/* 0 .. A_LENB-1 */
#if A_BE
			dst[i] = lenfield[16 - A_LENB + j];	/* most significant byte first */
#else
			dst[i] = lenfield[15 - j];		/* least significant byte first (MD5) */
#endif
		}
	}
	return (n);
}
#define v_pad(dst, cap, msg, len)	v_pad_tail((dst), (cap), (msg), (len), (uint64_t)(len), 0)

/* calls [first, first + n) of the transform log processed exactly the n blocks at `blocks`, chained correctly;
 * iv != 0: call `first` starts a new hash computation and must see the standard initial value. */
static void v_check_seg(const uint8_t *blocks, size_t n, size_t first, const a_word_t *iv) {
	V_ASSERT(v_ncalls >= first + n, "transform called at least once per block of pad(msg)");
	if (v_ncalls < first + n)
		return;
	for (size_t k = 0; k < V_MAXCALLS; k++) {	/* constant bound: n may be symbolic in step.c */
		if (k >= n)
			break;
		for (size_t i = 0; i < A_BLK; i++)
			V_ASSERT(v_log_blk[first + k][i] == blocks[k * A_BLK + i], "block bytes given to the transform == pad(msg) block");
		for (size_t i = 0; i < A_STW; i++) {
			if (k == 0 && iv != 0)
				V_ASSERT(v_log_st[first][i] == iv[i], "first block is compressed from the standard initial value");
			else if (first + k > 0)
				V_ASSERT(v_log_st[first + k][i] == v_out[first + k - 1][i], "chaining value == result of the previous transform call");
		}
	}
}
static void v_check_log(const uint8_t *blocks, size_t n, size_t first, int last) {
	v_check_seg(blocks, n, first, a_iv);
	if (last)
		V_ASSERT(v_ncalls == first + n, "no transform call beyond the blocks of pad(msg)");
}

/* digest byte order: MD5 little endian words (RFC 1321 3.5), SHA big endian words (FIPS 180-4 6.x) */
static void v_serialise(uint8_t *dst, const a_word_t *w) {
	for (size_t i = 0; i < A_STW; i++)
		for (size_t b = 0; b < sizeof(a_word_t); b++) {
#if A_BE
			dst[i * sizeof(a_word_t) + b] = (uint8_t)(w[i] >> (8 * (sizeof(a_word_t) - 1 - b)));
#else
			dst[i * sizeof(a_word_t) + b] = (uint8_t)(w[i] >> (8 * b));
#endif
		}
}
#endif
