/* Adapter: MD5 (include/crypto/hash/md5.h). See v_abs.h for the substitution mechanism. */
#ifndef V_ALG_MD5_H
#define V_ALG_MD5_H
#include "common/hash/v_portable.h"

#define A_NAME		"md5"
#define A_BLK		64
#define A_STW		4
typedef uint32_t	a_word_t;
#define A_DIG		16	/* digest bytes */
#define A_LENB		8	/* bytes of the length field in the padding */
#define A_BE		0	/* length field and digest words little endian (RFC 1321 3.2, 3.5) */
#define A_HAVOC		8	/* md5_transform copies an unaligned block into ctx->buffer (uint64_t[8]) */
typedef uint64_t	a_havoc_t;
#include "v_ref_md5.h"		/* generated: v_md5_iv[], v_ref_md5_compress() */
#define a_iv		v_md5_iv
#define a_ref_compress	v_ref_md5_compress
#define a_ref_compress_w	v_ref_md5_compress_w
#define a_ref_decode	v_ref_md5_decode

#ifdef V_ABSTRACT
#include "common/hash/v_abs.h"
struct md5_ctx_s;
static void v_md5_transform_stub(struct md5_ctx_s *ctx, const uint8_t *block);
#define md5_transform(A, B)	V_CAT(V_T_, A), B)
#define V_T_md5_ctx_p		md5_transform__real(md5_ctx_p
#define V_T_ctx			v_md5_transform_stub(ctx
#endif

#include "crypto/hash/md5.h"

#ifdef V_ABSTRACT
#undef md5_transform
#undef V_T_md5_ctx_p
#undef V_T_ctx
static void v_md5_transform_stub(struct md5_ctx_s *ctx, const uint8_t *block) {
	unsigned k = v_abs_step(ctx->hash, block);
	/* the real transform may overwrite ctx->buffer (copy of an unaligned block); only when block is not the buffer */
	if (k < V_MAXCALLS && block != (const uint8_t *)ctx->buffer)
		for (size_t i = 0; i < A_HAVOC; i++)
			ctx->buffer[i] = v_havoc[k][i];
}
#else
static inline void a_real_transform(md5_ctx_t *ctx, const uint8_t *blocks, size_t nblocks) {
	for (size_t i = 0; i < nblocks; i++)
		md5_transform(ctx, blocks + i * MD5_MSG_BLK_SIZE);
}
/* bytes of the context the transform is allowed to change besides the chaining state */
/* everything except the chaining state and ctx->buffer (scratch copy of an unaligned block) must stay as it was */
#define a_frame_check(c, b)	do { \
	V_ASSERT((c)->count == (b)->count, "FRAME transform leaves count alone"); } while (0)
#endif

typedef md5_ctx_t	a_ctx_t;
typedef hmac_md5_ctx_t	a_hctx_t;
#define a_state(c)	((c)->hash)
#define a_buffer(c)	((uint8_t *)(c)->buffer)
#define A_BLK_LOG2	6
/* step.c: count is a 64-bit BYTE counter; RFC 1321 3.2 uses the low-order 64 bits of the bit length */
#define A_MAXQ_HI	0
#define A_MAXN_HI	0
#define a_count_lo(c)	((c)->count)
#define a_count_hi(c)	((uint64_t)0)
#define a_step_prepare(c, lo, hi)	do { (c)->count = (lo); } while (0)
#define a_step_invariant(c)		do { } while (0)
#define A_STATE_OFF	offsetof(md5_ctx_t, hash)
#define a_init(c)			md5_init(c)
#define a_update(c, d, n)		md5_update((c), (d), (n))
#define a_final(c, out)			md5_final((c), (out))
#define a_oneshot(d, n, out)		md5_get_digest((d), (n), (out))
#define a_oneshot_str(d, n, str)	md5_get_digest_str((const char *)(d), (n), (str))
#define a_hmac_init(k, kl, h)		hmac_md5_init((k), (kl), (h))
#define a_hmac_update(h, d, n)		hmac_md5_update((h), (d), (n))
#define a_hmac_final(h, out)		hmac_md5_final((h), (out))
#define a_hmac(k, kl, d, n, out)	hmac_md5((k), (kl), (d), (n), (out))
#define a_hmac_oneshot(k, kl, d, n, out)	md5_hmac_get_digest((k), (kl), (d), (n), (out))
#define a_hmac_str(k, kl, d, n, str)	md5_hmac_get_digest_str((const char *)(k), (kl), (const char *)(d), (n), (str))
#define a_hmac_kopad(h)			((uint8_t *)(h)->k_opad)
#define A_KOPAD_BYTES			sizeof(((hmac_md5_ctx_t *)0)->k_opad)
#endif
