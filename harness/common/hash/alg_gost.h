/* Adapter: GOST R 34.11-2012 "Streebog" (include/crypto/hash/gost3411-2012.h), portable path; -DBITS=256|512.
 * Optional build variants of the library: -DGOST3411_2012_USE_SMALL_TABLES [-DGOST3411_2012_USE_SMALL_TABLES_TABLE_TAU].
 *
 * Three modes (see v_abs.h for the substitution mechanism):
 *   (none)            real code throughout                                        (gxform.c MODE_FULL / MODE_SLP)
 *   V_ABSTRACT_SLP    gost3411_2012_SLP() (= L(P(S(.))), the 8x256 table kernel) is replaced by a logging stub with
 *                     arbitrary results; gost3411_2012_XSLP / transform_n_generic / transform_1_generic stay real
 *                                                                                 (gxform.c MODE_ABS)
 *   V_ABSTRACT        gost3411_2012_transform_n_generic / _1_generic are replaced (streaming level: gstream.c, gstep.c,
 *                     C07). The stub for transform_n keeps the two 512-bit accumulators the real transform maintains:
 *                     counter += bits, sigma += block (reference adder v_gost_add512; the real adders are verified
 *                     against the same reference in gxform.c).
 * 512-bit vectors are 64 bytes, byte 0 least significant == the library's uint64_t[8] in memory on little endian. */
#ifndef V_ALG_GOST_H
#define V_ALG_GOST_H
#include "common/hash/v_portable.h"

#ifndef BITS
#error "BITS = 256 | 512"
#endif
#define A_NAME		"gost3411-2012"
#define A_BLK		64
#define A_STW		8
typedef uint64_t	a_word_t;
typedef uint64_t	a_havoc_t;
#define A_DIG		(BITS / 8)
#define A_BE		0
#define A_LENB		0
#define A_HAVOC		32	/* kbuf, tbuf, sbuf, buffer */
#include "v_ref_streebog.h"

#if defined(V_ABSTRACT) || defined(V_ABSTRACT_SLP)
#define V_PADBLOCKS(len)	((len) / A_BLK + 3)	/* full blocks + padded block + g_0(N) + g_0(Sigma) */
#include "common/hash/v_abs.h"
struct gost3411_2012_ctx_s;
#endif

#ifdef V_ABSTRACT
static void v_gost_tn_stub(struct gost3411_2012_ctx_s *ctx, const size_t bits, const uint8_t *blocks, const uint8_t *blocks_max);
static void v_gost_t1_stub(struct gost3411_2012_ctx_s *ctx, const uint64_t *block);
#define gost3411_2012_transform_n_generic(A, B, C, D)	V_CAT(V_TN_, A), B, C, D)
#define gost3411_2012_transform_1_generic(A, B)		V_CAT(V_T1_, A), B)
#define V_TN_gost3411_2012_ctx_p	gost3411_2012_transform_n_generic__real(gost3411_2012_ctx_p
#define V_TN_ctx			v_gost_tn_stub(ctx
#define V_T1_gost3411_2012_ctx_p	gost3411_2012_transform_1_generic__real(gost3411_2012_ctx_p
#define V_T1_ctx			v_gost_t1_stub(ctx
#endif
#ifdef V_ABSTRACT_SLP
static void v_gost_slp_stub(struct gost3411_2012_ctx_s *ctx, uint64_t *dst, const uint64_t *src);
#define gost3411_2012_SLP(A, B, C)	V_CAT(V_SLP_, A), B, C)
#define V_SLP_gost3411_2012_ctx_p	gost3411_2012_SLP__real(gost3411_2012_ctx_p
#define V_SLP_ctx			v_gost_slp_stub(ctx
#endif

#include "crypto/hash/gost3411-2012.h"

#ifdef V_ABSTRACT
#undef gost3411_2012_transform_n_generic
#undef gost3411_2012_transform_1_generic
#define V_GOST_T1	((size_t)-1)			/* marker in v_log_bits: call was transform_1 (g_0) */
static size_t v_log_bits[V_MAXCALLS];			/* block_size_bits argument per call */
static uint8_t v_log_N[V_MAXCALLS][64];			/* counter N seen on entry */
static uint8_t v_log_sigma[V_MAXCALLS][64];		/* Sigma seen on entry */

#ifdef V_GOST_FAST
/* Word-wise variant of the stub bookkeeping (C07/ghmac.c): the same N += bits, Sigma += block, but on the uint64_t[8]
 * representation and with typed logs - an order of magnitude fewer symbolic-execution steps than the byte-wise copies.
 * C07's job gost-add512w-lemma decides v_gost_add512w == v_gost_add512 (the byte-wise reference adder) for all inputs. */
static uint64_t v_log_Nw[V_MAXCALLS][8];		/* counter N seen on entry, little endian words */
static uint64_t v_log_Sw[V_MAXCALLS][8];		/* Sigma seen on entry */
static inline uint64_t v_ld64(const uint8_t *p) {
	return ((uint64_t)p[0] | ((uint64_t)p[1] << 8) | ((uint64_t)p[2] << 16) | ((uint64_t)p[3] << 24) |
	    ((uint64_t)p[4] << 32) | ((uint64_t)p[5] << 40) | ((uint64_t)p[6] << 48) | ((uint64_t)p[7] << 56));
}
static void v_gost_add512w(uint64_t *a, const uint64_t *b) {
	unsigned c = 0;
	for (int i = 0; i < 8; i++) {
		uint64_t s = a[i] + b[i];
		unsigned c1 = (s < a[i]);
		uint64_t t = s + c;
		unsigned c2 = (t < s);
		a[i] = t;
		c = c1 | c2;
	}
}
#endif

static void v_gost_havoc(struct gost3411_2012_ctx_s *ctx, unsigned k, int buffer_too) {
	for (size_t i = 0; i < 8; i++) {
		ctx->kbuf[i] = v_havoc[k][i];
		ctx->tbuf[i] = v_havoc[k][8 + i];
		ctx->sbuf[i] = v_havoc[k][16 + i];
		if (buffer_too)	/* the real transform_n copies a block that is not 8-byte aligned into ctx->buffer */
			ctx->buffer[i] = v_havoc[k][24 + i];
	}
}
static void v_gost_tn_stub(struct gost3411_2012_ctx_s *ctx, const size_t bits, const uint8_t *blocks, const uint8_t *blocks_max) {
	for (unsigned guard = 0; blocks < blocks_max && guard < V_MAXCALLS; blocks += A_BLK, guard++) {
		unsigned k = v_ncalls;
#ifdef V_GOST_FAST
		uint64_t bw[8] = { 0 }, mw[8];
		if (k < V_MAXCALLS) {
			v_log_bits[k] = bits;
			for (size_t i = 0; i < 8; i++) {
				v_log_Nw[k][i] = ctx->counter[i];
				v_log_Sw[k][i] = ctx->sigma[i];
			}
		}
		k = v_abs_step(ctx->hash, blocks);
		if (k >= V_MAXCALLS)
			return;
		bw[0] = (uint64_t)bits;
		for (size_t i = 0; i < 8; i++)
			mw[i] = v_ld64(&v_log_blk[k][8 * i]);
		v_gost_add512w(ctx->counter, bw);
		v_gost_add512w(ctx->sigma, mw);
#else
		uint8_t bits512[64] = { 0 };
		if (k < V_MAXCALLS) {
			v_log_bits[k] = bits;
			memcpy(v_log_N[k], ctx->counter, 64);
			memcpy(v_log_sigma[k], ctx->sigma, 64);
		}
		k = v_abs_step(ctx->hash, blocks);
		if (k >= V_MAXCALLS)
			return;
		for (size_t i = 0; i < sizeof(size_t); i++)
			bits512[i] = (uint8_t)(bits >> (8 * i));
		v_gost_add512((uint8_t *)ctx->counter, bits512);
		v_gost_add512((uint8_t *)ctx->sigma, v_log_blk[k]);
#endif
		v_gost_havoc(ctx, k, blocks != (const uint8_t *)ctx->buffer);
	}
	V_ASSERT(!(blocks < blocks_max), "transform asked for more blocks than any padded message of this shape has");
}
static void v_gost_t1_stub(struct gost3411_2012_ctx_s *ctx, const uint64_t *block) {
	unsigned k = v_ncalls;
	if (k < V_MAXCALLS) {
		v_log_bits[k] = V_GOST_T1;
#ifndef V_GOST_FAST
		memcpy(v_log_N[k], ctx->counter, 64);
		memcpy(v_log_sigma[k], ctx->sigma, 64);
#endif
	}
	k = v_abs_step(ctx->hash, (const uint8_t *)block);
	if (k < V_MAXCALLS)
		v_gost_havoc(ctx, k, 0);
}
#endif

#ifdef V_ABSTRACT_SLP
#undef gost3411_2012_SLP
/* SLP stub: logs the 64 input bytes, returns an arbitrary vector per call (v_out). Reuses v_abs_step with the
 * "state" being the destination: dst = v_out[k]; the value logged as "state on entry" is meaningless here. */
static void v_gost_slp_stub(struct gost3411_2012_ctx_s *ctx, uint64_t *dst, const uint64_t *src) {
	uint8_t in[64];
	(void)ctx;
	memcpy(in, src, 64);		/* src may alias dst */
	(void)v_abs_step(dst, in);
}
#endif

typedef gost3411_2012_ctx_t		a_ctx_t;
typedef hmac_gost3411_2012_ctx_t	a_hctx_t;
#define a_state(c)	((c)->hash)
#define a_buffer(c)	((uint8_t *)(c)->buffer)
#define a_init(c)			gost3411_2012_init(BITS, (c))
#define a_update(c, d, n)		gost3411_2012_update((c), (d), (n))
#define a_final(c, out)			gost3411_2012_final((c), (out))
#define a_oneshot(d, n, out)		do { size_t dsz_ = 777; gost3411_2012_get_digest(BITS, (d), (n), (out), &dsz_); V_ASSERT(dsz_ == A_DIG, "reported digest size"); } while (0)
#define a_oneshot_str(d, n, str)	do { size_t ssz_ = 777; gost3411_2012_get_digest_str(BITS, (const char *)(d), (n), (str), &ssz_); V_ASSERT(ssz_ == 2 * A_DIG, "reported hex size"); } while (0)
#define a_hmac_init(k, kl, h)		hmac_gost3411_2012_init(BITS, (k), (kl), (h))
#define a_hmac_update(h, d, n)		hmac_gost3411_2012_update((h), (d), (n))
#define a_hmac_final(h, out)		do { size_t dsz_ = 777; hmac_gost3411_2012_final((h), (out), &dsz_); V_ASSERT(dsz_ == A_DIG, "reported MAC size"); } while (0)
#define a_hmac(k, kl, d, n, out)	hmac_gost3411_2012(BITS, (k), (kl), (d), (n), (out), NULL)
#define a_hmac_oneshot(k, kl, d, n, out)	do { size_t dsz_ = 777; gost3411_2012_hmac_get_digest(BITS, (k), (kl), (d), (n), (out), &dsz_); V_ASSERT(dsz_ == A_DIG, "reported MAC size"); } while (0)
#define a_hmac_str(k, kl, d, n, str)	do { size_t ssz_ = 777; gost3411_2012_hmac_get_digest_str(BITS, (const char *)(k), (kl), (const char *)(d), (n), (str), &ssz_); V_ASSERT(ssz_ == 2 * A_DIG, "reported hex size"); } while (0)
#define a_hmac_kopad(h)			((uint8_t *)(h)->k_opad)
#define A_KOPAD_BYTES			sizeof(((hmac_gost3411_2012_ctx_t *)0)->k_opad)

/* RFC 6986 section 6: IV = 0^512 (512-bit digest) resp. (00000001)^64 (256-bit digest) */
#if BITS == 256
#define A_GOST_IV_BYTE	0x01
#else
#define A_GOST_IV_BYTE	0x00
#endif
#endif
