#!/usr/bin/env python3
"""Streebog (GOST R 34.11-2012, RFC 6986) reference generator for C04 / C07.

Tables are written in the notation of RFC 6986:  pi (section 5.1 "Nonlinear Bijection"), tau (5.3 byte permutation),
the 64 rows of the matrix A (5.4 linear transformation l; row j is selected by bit 63-j of the 64-bit word) and the
iteration constants C1..C12 (5.5) as 512-bit hexadecimal numbers, most significant byte first.
No byte of it is read from liblcb. Development-time validation (selfcheck()): the Python implementation below, which
uses only these tables, reproduces libgcrypt's and nettle's Streebog digests for all message lengths 0..300 and the
two example messages of RFC 6986 section 10; the known answers embedded here were produced that way and are re-checked
on every generator run (against libgcrypt again when it is loadable).

Byte conventions: a 512-bit vector is handled as 64 bytes, byte 0 = LEAST significant (this is how RFC 6986 maps
messages: the first message byte is the least significant byte of the block). Digests are returned in that same
byte order (byte 0 first) - the convention of every deployed implementation (OpenSSL gost-engine, libgcrypt, nettle,
RFC 7836 test vectors); the hexadecimal numbers printed in RFC 6986 section 10 are these bytes reversed.
"""
import ctypes
import ctypes.util
import os

PI = bytes.fromhex(
    "fceedd11cf6e3116fbc4fada23c5044de977f0db932e99ba1736f1bb14cd5fc1"
    "f918655ae25cef21811c3c428b018e4f058402aee36a8fa0060bed987fd4d31f"
    "eb342c51eac848abf22a68a2fd3aceccb5700e56080c7612bf7213479cb75d87"
    "15a19629107b9ac7f391786f9d9eb2b13275193dff358a7e6d54c680c3bd0d57"
    "dff524a93ea843c9d779d6f67c22b903e00fecde7a94b0bcdce828504e330a4a"
    "a79760731e0062441ab83882649f2641ad454692275e552f8ca3a57d69d5953b"
    "0758b34086ac1df730376be488d9e789e11b83494c3ff8fe8d53aa90cad88561"
    "207167a42d2b095bcb9b25d0bee56c5259a674d2e6f4b4c0d166afc2394b63b6")

TAU = [8 * (i % 8) + i // 8 for i in range(64)]     # 0, 8, 16, ..., 56, 1, 9, ...

A = [int(x, 16) for x in """
8e20faa72ba0b470 47107ddd9b505a38 ad08b0e0c3282d1c d8045870ef14980e
6c022c38f90a4c07 3601161cf205268d 1b8e0b0e798c13c8 83478b07b2468764
a011d380818e8f40 5086e740ce47c920 2843fd2067adea10 14aff010bdd87508
0ad97808d06cb404 05e23c0468365a02 8c711e02341b2d01 46b60f011a83988e
90dab52a387ae76f 486dd4151c3dfdb9 24b86a840e90f0d2 125c354207487869
092e94218d243cba 8a174a9ec8121e5d 4585254f64090fa0 accc9ca9328a8950
9d4df05d5f661451 c0a878a0a1330aa6 60543c50de970553 302a1e286fc58ca7
18150f14b9ec46dd 0c84890ad27623e0 0642ca05693b9f70 0321658cba93c138
86275df09ce8aaa8 439da0784e745554 afc0503c273aa42a d960281e9d1d5215
e230140fc0802984 71180a8960409a42 b60c05ca30204d21 5b068c651810a89e
456c34887a3805b9 ac361a443d1c8cd2 561b0d22900e4669 2b838811480723ba
9bcf4486248d9f5d c3e9224312c8c1a0 effa11af0964ee50 f97d86d98a327728
e4fa2054a80b329c 727d102a548b194e 39b008152acb8227 9258048415eb419d
492c024284fbaec0 aa16012142f35760 550b8e9e21f7a530 a48b474f9ef5dc18
70a6a56e2440598e 3853dc371220a247 1ca76e95091051ad 0edd37c48a08a6d8
07e095624504536c 8d70c431ac02a736 c83862965601dd1b 641c314b2b8ee083
""".split()]

C_HEX = """
b1085bda1ecadae9ebcb2f81c0657c1f2f6a76432e45d016714eb88d7585c4fc4b7ce09192676901a2422a08a460d31505767436cc744d23dd806559f2a64507
6fa3b58aa99d2f1a4fe39d460f70b5d7f3feea720a232b9861d55e0f16b501319ab5176b12d699585cb561c2db0aa7ca55dda21bd7cbcd56e679047021b19bb7
f574dcac2bce2fc70a39fc286a3d843506f15e5f529c1f8bf2ea7514b1297b7bd3e20fe490359eb1c1c93a376062db09c2b6f443867adb31991e96f50aba0ab2
ef1fdfb3e81566d2f948e1a05d71e4dd488e857e335c3c7d9d721cad685e353fa9d72c82ed03d675d8b71333935203be3453eaa193e837f1220cbebc84e3d12e
4bea6bacad4747999a3f410c6ca923637f151c1f1686104a359e35d7800fffbdbfcd1747253af5a3dfff00b723271a167a56a27ea9ea63f5601758fd7c6cfe57
ae4faeae1d3ad3d96fa4c33b7a3039c02d66c4f95142a46c187f9ab49af08ec6cffaa6b71c9ab7b40af21f66c2bec6b6bf71c57236904f35fa68407a46647d6e
f4c70e16eeaac5ec51ac86febf240954399ec6c7e6bf87c9d3473e33197a93c90992abc52d822c3706476983284a05043517454ca23c4af38886564d3a14d493
9b1f5b424d93c9a703e7aa020c6e41414eb7f8719c36de1e89b4443b4ddbc49af4892bcb929b069069d18d2bd1a5c42f36acc2355951a8d9a47f0dd4bf02e71e
378f5a541631229b944c9ad8ec165fde3a7d3a1b258942243cd955b7e00d0984800a440bdbb2ceb17b2b8a9aa6079c540e38dc92cb1f2a607261445183235adb
abbedea680056f52382ae548b2e4f3f38941e71cff8a78db1fffe18a1b3361039fe76702af69334b7a1e6c303b7652f43698fad1153bb6c374b4c7fb98459ced
7bcd9ed0efc889fb3002c6cd635afe94d8fa6bbbebab076120018021148466798a1d71efea48b9caefbacd1d7d476e98dea2594ac06fd85d6bcaa4cd81f32d1b
378ee767f11631bad21380b00449b17acda43c32bcdf1d77f82012d430219f9b5d80ef9d1891cc86e71da4aa88e12852faf417d5d9b21b9948bc924af11bd720
""".split()
C = [bytes.fromhex(h)[::-1] for h in C_HEX]         # as 64 bytes, least significant first

assert len(PI) == 256 and sorted(PI) == list(range(256)), "pi must be a permutation of 0..255"
assert len(A) == 64 and len(C) == 12 and all(len(c) == 64 for c in C)


# ------------------------------------------------------------------ RFC 6986 in Python (bytes, LSB first)
def X(a, b):
    return bytes(x ^ y for x, y in zip(a, b))


def S(a):
    return bytes(PI[x] for x in a)


def P(a):
    # RFC 6986: P(a) = a_tau(63) || ... || a_tau(0): byte i of the result is byte tau(i) of the argument
    return bytes(a[TAU[i]] for i in range(64))


def L(a):
    out = bytearray()
    for w in range(8):
        v = int.from_bytes(a[8 * w:8 * w + 8], "little")
        r = 0
        for j in range(64):
            if (v >> (63 - j)) & 1:
                r ^= A[j]
        out += r.to_bytes(8, "little")
    return bytes(out)


def LPS(a):
    return L(P(S(a)))


def Lw(v):
    r = 0
    for j in range(64):
        if (v >> (63 - j)) & 1:
            r ^= A[j]
    return r


# Derived table (NOT part of RFC 6986, computed from pi and A above): because L and P are GF(2)-linear and S acts on
# bytes, word i of L(P(S(x))) is the XOR over m = 0..7 of AX[m][byte i of word m of x], AX[m][b] = l(pi(b) << 8m).
AX = [[Lw(PI[b] << (8 * m)) for b in range(256)] for m in range(8)]


def LPS_tab(a):
    w = [int.from_bytes(a[8 * j:8 * j + 8], "little") for j in range(8)]
    out = bytearray()
    for i in range(8):
        r = 0
        for m in range(8):
            r ^= AX[m][(w[m] >> (8 * i)) & 0xFF]
        out += r.to_bytes(8, "little")
    return bytes(out)


def E(k, m):
    for i in range(12):
        m = LPS(X(k, m))
        k = LPS(X(k, C[i]))
    return X(k, m)


def g(n, h, m):
    return X(X(E(LPS(X(h, n)), m), h), m)


def add512(a, b):
    return ((int.from_bytes(a, "little") + int.from_bytes(b, "little")) % (1 << 512)).to_bytes(64, "little")


def streebog(msg, bits):
    h = (b"\x01" if bits == 256 else b"\x00") * 64
    n = sigma = bytes(64)
    while len(msg) >= 64:
        m, msg = msg[:64], msg[64:]
        h = g(n, h, m)
        n = add512(n, (512).to_bytes(64, "little"))
        sigma = add512(sigma, m)
    m = msg + b"\x01" + bytes(63 - len(msg))
    h = g(n, h, m)
    n = add512(n, (8 * len(msg)).to_bytes(64, "little"))
    sigma = add512(sigma, m)
    h = g(bytes(64), h, n)
    h = g(bytes(64), h, sigma)
    return h if bits == 512 else h[32:]


# known answers (digest bytes, byte 0 first). M1/M2: RFC 6986 section 10.1 / 10.2 (the RFC prints them reversed).
M1 = b"012345678901234567890123456789012345678901234567890123456789012"
M2 = bytes.fromhex("d1e520e2e5f2f0e82c20d1f2f0e8e1eee6e820e2edf3f6e82c20e2e5fef2fa20f120eceef0ff20f1f2f0e5ebe0ece820ede0"
                   "20f5f0e0e1f0fbff20efebfaeafb20c8e3eef0e5e2fb")
KAT = {
    (512, M1): "1b54d01a4af5b9d5cc3d86d68d285462b19abc2475222f35c085122be4ba1ffa00ad30f8767b3a82384c6574f024c311e2a481332b08ef7f41797891c1646f48",
    (256, M1): "9d151eefd8590b89daa6ba6cb74af9275dd051026bb149a452fd84e5e57b5500",
    (512, M2): "1e88e62226bfca6f9994f1f2d51569e0daf8475a3b0fe61a5300eee46d961376035fe83549ada2b8620fcd7c496ce5b33f0cb9dddc2b6460143b03dabac9fb28",
    (256, M2): "9dd2fe4e90409e5da87f53976d7405b0c0cac628fc669a741d50063c557e8f50",
}


def _gcrypt():
    try:
        name = ctypes.util.find_library("gcrypt") or "libgcrypt.so.20"
        lib = ctypes.CDLL(name)
        lib.gcry_check_version.restype = ctypes.c_char_p
        lib.gcry_check_version(None)
        lib.gcry_md_hash_buffer.argtypes = [ctypes.c_int, ctypes.c_void_p, ctypes.c_void_p, ctypes.c_size_t]

        def f(msg, bits):
            out = ctypes.create_string_buffer(bits // 8)
            lib.gcry_md_hash_buffer(309 if bits == 256 else 310, out, msg, len(msg))   # GCRY_MD_STRIBOG256/512
            return out.raw
        f(b"", 256)
        return f
    except Exception:
        return None


def selfcheck(deep=False):
    import random
    rnd = random.Random(6986)
    for _ in range(200 if deep else 20):
        x = bytes(rnd.getrandbits(8) for _ in range(64))
        assert LPS_tab(x) == LPS(x), "derived table form of LPS disagrees with the definition"
    for p in range(64):                 # every byte position, every byte value (all other bytes zero)
        for b in (range(256) if deep else (0, 1, 0x80, 0xFF)):
            x = bytes(b if i == p else 0 for i in range(64))
            assert LPS_tab(x) == LPS(x)
    for (bits, msg), hx in KAT.items():
        assert streebog(msg, bits).hex() == hx, "Streebog reference self check failed (known answer %d)" % bits
    ref = _gcrypt()
    if ref:
        lens = range(0, 301) if deep else (0, 1, 63, 64, 65, 127, 128, 200)
        for n in lens:
            msg = bytes((i * 29 + n * 7 + 3) & 0xFF for i in range(n))
            for bits in (256, 512):
                assert streebog(msg, bits) == ref(msg, bits), "Streebog reference != libgcrypt (len %d)" % n


# ------------------------------------------------------------------ C emission
def gen():
    def arr(name, ctype, vals, fmt, per):
        rows = [", ".join(fmt % v for v in vals[i:i + per]) for i in range(0, len(vals), per)]
        return ["static const %s %s[%d] = {" % (ctype, name, len(vals))] + ["\t" + r + "," for r in rows] + ["};"]
    Ls = ["/* generated by hashgen_streebog.py from RFC 6986 - do not edit */", "#ifndef V_REF_STREEBOG_H",
          "#define V_REF_STREEBOG_H", "#include <stdint.h>", "#include <string.h>"]
    Ls += arr("v_gost_pi", "uint8_t", list(PI), "0x%02x", 16)
    Ls += arr("v_gost_tau", "uint8_t", TAU, "%d", 16)
    Ls += arr("v_gost_A", "uint64_t", A, "0x%016xull", 4)
    Ls.append("/* derived from v_gost_pi and v_gost_A (see hashgen_streebog.py): AX[m][b] = l(pi(b) << 8m) */")
    Ls.append("static const uint64_t v_gost_AX[8][256] = {")
    for m in range(8):
        Ls.append("\t{ " + ", ".join("0x%016xull" % v for v in AX[m]) + " },")
    Ls.append("};")
    Ls.append("/* C1..C12 as 64 bytes each, least significant byte first */")
    Ls.append("static const uint8_t v_gost_C[12][64] = {")
    for c in C:
        Ls.append("\t{ " + ", ".join("0x%02x" % b for b in c) + " },")
    Ls.append("};")
    Ls.append(r'''
/* All vectors: 64 bytes, byte 0 least significant (RFC 6986 maps the first message byte to the least significant byte). */
static void v_gost_X(uint8_t *o, const uint8_t *a, const uint8_t *b) { for (int i = 0; i < 64; i++) o[i] = a[i] ^ b[i]; }
static void v_gost_S(uint8_t *o, const uint8_t *a) { for (int i = 0; i < 64; i++) o[i] = v_gost_pi[a[i]]; }
static void v_gost_P(uint8_t *o, const uint8_t *a) { for (int i = 0; i < 64; i++) o[i] = a[v_gost_tau[i]]; }
static void v_gost_L(uint8_t *o, const uint8_t *a) {
	for (int w = 0; w < 8; w++) {
		uint64_t v = 0, r = 0;
		for (int b = 0; b < 8; b++) v |= (uint64_t)a[8 * w + b] << (8 * b);
		for (int j = 0; j < 64; j++) if ((v >> (63 - j)) & 1) r ^= v_gost_A[j];
		for (int b = 0; b < 8; b++) o[8 * w + b] = (uint8_t)(r >> (8 * b));
	}
}
static void v_gost_LPS(uint8_t *o, const uint8_t *a) { uint8_t s[64], p[64]; v_gost_S(s, a); v_gost_P(p, s); v_gost_L(o, p); }
/* the same function through the derived table, on eight little endian 64-bit words */
static void v_gost_LPS_tab(uint64_t *o, const uint64_t *w) {
	for (int i = 0; i < 8; i++) {
		uint64_t r = v_gost_AX[0][(w[0] >> (8 * i)) & 0xff];
		for (int m = 1; m < 8; m++) r ^= v_gost_AX[m][(w[m] >> (8 * i)) & 0xff];
		o[i] = r;
	}
}
/* a += b mod 2^512 */
static void v_gost_add512(uint8_t *a, const uint8_t *b) {
	unsigned c = 0;
	for (int i = 0; i < 64; i++) { c += (unsigned)a[i] + b[i]; a[i] = (uint8_t)c; c >>= 8; }
}
/* h = g_N(h, m) = E(LPS(h ^ N), m) ^ h ^ m */
static void v_gost_g(uint8_t *h, const uint8_t *N, const uint8_t *m) {
	uint8_t k[64], t[64], x[64];
	v_gost_X(x, h, N); v_gost_LPS(k, x);
	memcpy(t, m, 64);
	for (int i = 0; i < 12; i++) {
		v_gost_X(x, k, t); v_gost_LPS(t, x);
		v_gost_X(x, k, v_gost_C[i]); v_gost_LPS(k, x);
	}
	v_gost_X(t, t, k); v_gost_X(t, t, h); v_gost_X(h, t, m);
}
#endif''')
    return "\n".join(Ls) + "\n"


STREEBOG_GENERATORS = [("v_ref_streebog.h", gen, selfcheck)]

if __name__ == "__main__":
    import sys
    selfcheck(deep=True)
    print("streebog reference: known answers and libgcrypt comparison ok")
