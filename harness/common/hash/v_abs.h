/*
 * v_abs.h - abstraction of a hash compression function ("transform") for the streaming-level harnesses of C04(b)/C07.
 *
 * How the transform is substituted without touching /repo (pure preprocessor, works for goto-cc and for the native
 * replay alike): the library defines the transform and calls it from the same header, e.g.
 *
 *     static inline void md5_transform(md5_ctx_p ctx, const uint8_t *block) { ... }      (definition)
 *     ... md5_transform(ctx, (uint8_t*)ctx->buffer); ...                                 (calls, in md5_update/_final)
 *
 * A function-like macro `md5_transform(A, B)` pastes a prefix onto the FIRST TOKEN of its first argument:
 * in the definition that token is the type name `md5_ctx_p`, in every call it is the identifier `ctx`. So
 *
 *     V_T_md5_ctx_p  ->  md5_transform__real(md5_ctx_p        the library's own body keeps existing under a new name
 *     V_T_ctx        ->  v_md5_transform_stub(ctx             every call inside the header goes to the stub
 *
 * If liblcb ever spells a call differently the paste yields an undeclared identifier: the job fails to compile
 * (status ERROR, fail closed) - it can not silently verify the wrong thing.
 *
 * The stub (v_abs_step): call number k
 *     - records the chaining state it was entered with and the 64/128 block bytes it was given  (v_log_st/v_log_blk)
 *     - replaces the chaining state by v_out[k], a value the harness copied from the solver inputs IN.out[k]:
 *       an ARBITRARY value per call. This is more general than an uninterpreted function (it does not even assume
 *       that equal inputs give equal outputs), so whatever is proved holds for every compression function, in
 *       particular for the real one which C04(a) proves equal to the standard's.
 *     - overwrites the scratch areas the real transform may write (adapter specific) with arbitrary bytes v_havoc[k]
 * The harness then checks the log against pad(msg) cut into blocks, the chaining (state seen by call k == v_out[k-1],
 * call 0 sees the standard IV) and digest == serialisation of the last output.
 *
 * Needs from the including adapter:  A_BLK (block bytes), A_STW (state words), a_word_t, V_MAXCALLS, a_havoc_t, A_HAVOC
 * (number of a_havoc_t words of scratch).
 */
#ifndef V_ABS_H
#define V_ABS_H

#define V_CAT_(a, b) a##b
#define V_CAT(a, b) V_CAT_(a, b)

/* number of blocks of pad(msg) for a message of len bytes */
#ifndef V_PADBLOCKS
#define V_PADBLOCKS(len)	(((len) + 1 + A_LENB + A_BLK - 1) / A_BLK)
#endif

#ifndef V_MAXCALLS
#error "define V_MAXCALLS (upper bound on transform calls in one harness run) before including the adapter"
#endif

static a_word_t v_out[V_MAXCALLS][A_STW];		/* next chaining value per call (copied from IN) */
static a_havoc_t v_havoc[V_MAXCALLS][A_HAVOC];	/* arbitrary words for the transform's scratch areas (from IN); typed like
							 * the scratch array so that the copy is word assignments, not byte surgery */
static a_word_t v_log_st[V_MAXCALLS][A_STW];		/* chaining value seen on entry */
static uint8_t v_log_blk[V_MAXCALLS][A_BLK];		/* block bytes seen */
static unsigned v_ncalls;

static inline void v_abs_load(const void *out, const void *havoc) {
	memcpy(v_out, out, sizeof(v_out));
	memcpy(v_havoc, havoc, sizeof(v_havoc));
	v_ncalls = 0;
}

/* returns the call index, or V_MAXCALLS when the log is full (the harness asserts v_ncalls == expected) */
static inline unsigned v_abs_step(a_word_t *state, const uint8_t *block) {
	unsigned k = v_ncalls;

	if (k >= V_MAXCALLS) {
		V_ASSERT(0, "more transform calls than any padded message of this shape has blocks");
		return (V_MAXCALLS);
	}
	for (size_t i = 0; i < A_STW; i++)	/* word assignments: far fewer symbolic-execution steps than memcpy */
		v_log_st[k][i] = state[i];
	memcpy(v_log_blk[k], block, A_BLK);
	for (size_t i = 0; i < A_STW; i++)
		state[i] = v_out[k][i];
	v_ncalls = k + 1;
	return (k);
}
#endif
