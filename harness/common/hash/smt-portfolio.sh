#!/bin/bash
# SMT back end for the transform-equivalence jobs of C04(a):  cbmc --cvc5 --external-smt2-solver <this script>
# Runs z3 and cvc5 (native bit-vector solving, NOT the driver's bv-as-int shim) on the same SMT-LIB file and prints the
# output of the first one that answers sat/unsat.
# Why two: [measured, MD5 one block] word-level rewriting proves the equality when the code is right
# (cvc5 0.4 s aligned block; z3 3 s for the unaligned-copy path where cvc5 does not finish) while only cvc5's
# bit-blaster finds the counterexample when a constant/rotation is wrong (8-36 s; z3 > 120 s).
# cbmc passes: --lang smtlib <file>   (the file is the last argument)
for a in "$@"; do f="$a"; done
d=$(mktemp -d "${TMPDIR:-/tmp}/smtpf.XXXXXX") || exit 1
p1=; p2=
trap 'kill $p1 $p2 2>/dev/null; rm -rf "$d"' EXIT
/usr/bin/z3 -smt2 "$f" > "$d/z3.out" 2>&1 & p1=$!
/usr/bin/cvc5 --lang smtlib "$f" > "$d/cvc5.out" 2>&1 & p2=$!
finished() { ! kill -0 "$1" 2>/dev/null; }
answered() { head -n 1 "$d/$1.out" | grep -q -x -e sat -e unsat; }
while :; do
	if finished $p1 && answered z3; then cat "$d/z3.out"; exit 0; fi
	if finished $p2 && answered cvc5; then cat "$d/cvc5.out"; exit 0; fi
	if finished $p1 && finished $p2; then	# neither produced a verdict: hand cbmc the error text
		cat "$d/cvc5.out" "$d/z3.out"
		exit 0
	fi
	sleep 0.1
done
