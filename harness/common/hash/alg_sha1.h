/* Adapter: SHA-1 (include/crypto/hash/sha1.h), portable path. See v_abs.h for the substitution mechanism.
 * Abstracted function: sha1_transform_generic (the dispatcher sha1_transform stays real; in the portable build it only
 * forwards). It processes all 64-byte blocks in [blocks, blocks_max). */
#ifndef V_ALG_SHA1_H
#define V_ALG_SHA1_H
#include "common/hash/v_portable.h"

#define A_NAME		"sha1"
#define A_BLK		64
#define A_BLK_LOG2	6
#define A_STW		5
typedef uint32_t	a_word_t;
#define A_DIG		20
#define A_LENB		8
#define A_BE		1	/* big endian words and length (FIPS 180-4 5.1.1, 6.1) */
#define A_HAVOC		80	/* W[80] scratch */
typedef uint32_t	a_havoc_t;
#include "v_ref_sha1.h"
#define a_iv		v_sha1_iv
#define a_ref_compress	v_ref_sha1_compress

#ifdef V_ABSTRACT
#include "common/hash/v_abs.h"
struct sha1_ctx_s;
static void v_sha1_transform_stub(struct sha1_ctx_s *ctx, const uint8_t *blocks, const uint8_t *blocks_max);
#define sha1_transform_generic(A, B, C)	V_CAT(V_T_, A), B, C)
#define V_T_sha1_ctx_p			sha1_transform_generic__real(sha1_ctx_p
#define V_T_ctx				v_sha1_transform_stub(ctx
#endif

#include "crypto/hash/sha1.h"

#ifdef V_ABSTRACT
#undef sha1_transform_generic
#undef V_T_sha1_ctx_p
#undef V_T_ctx
static void v_sha1_transform_stub(struct sha1_ctx_s *ctx, const uint8_t *blocks, const uint8_t *blocks_max) {
	for (unsigned guard = 0; blocks < blocks_max && guard < V_MAXCALLS; blocks += SHA1_MSG_BLK_SIZE, guard++) {
		unsigned k = v_abs_step(ctx->hash, blocks);
		if (k < V_MAXCALLS)
			for (size_t i = 0; i < A_HAVOC; i++)
				ctx->W[i] = v_havoc[k][i];
	}
	V_ASSERT(!(blocks < blocks_max), "transform asked for more blocks than any padded message of this shape has");
}
#else
static inline void a_real_transform(sha1_ctx_t *ctx, const uint8_t *blocks, size_t nblocks) {
	sha1_transform(ctx, blocks, blocks + nblocks * SHA1_MSG_BLK_SIZE);
}
/* everything except the chaining state and the schedule W[] must stay as it was */
#define a_frame_check(c, b)	do { \
	V_ASSERT((c)->count == (b)->count, "FRAME transform leaves count alone"); \
	for (size_t i_ = 0; i_ < SHA1_MSG_BLK_64CNT; i_++) \
		V_ASSERT((c)->buffer[i_] == (b)->buffer[i_], "FRAME transform leaves the input buffer alone"); } while (0)
#endif

typedef sha1_ctx_t	a_ctx_t;
typedef hmac_sha1_ctx_t	a_hctx_t;
#define a_state(c)	((c)->hash)
#define a_buffer(c)	((uint8_t *)(c)->buffer)
#define A_STATE_OFF	offsetof(sha1_ctx_t, hash)
/* step.c: FIPS 180-4: message length < 2^64 bits, i.e. < 2^61 bytes */
#define A_MAXQ_HI	0
#define A_MAXN_HI	0
#define A_MAXN_LO	((((uint64_t)1) << 61) - 1)
#define a_count_lo(c)	((c)->count)
#define a_count_hi(c)	((uint64_t)0)
#define a_step_prepare(c, lo, hi)	do { (c)->count = (lo); } while (0)
#define a_step_invariant(c)		do { } while (0)
#define a_init(c)			sha1_init(c)
#define a_update(c, d, n)		sha1_update((c), (d), (n))
#define a_final(c, out)			sha1_final((c), (out))
#define a_oneshot(d, n, out)		sha1_get_digest((d), (n), (out))
#define a_oneshot_str(d, n, str)	sha1_get_digest_str((const char *)(d), (n), (str))
#define a_hmac_init(k, kl, h)		hmac_sha1_init((k), (kl), (h))
#define a_hmac_update(h, d, n)		hmac_sha1_update((h), (d), (n))
#define a_hmac_final(h, out)		hmac_sha1_final((h), (out))
#define a_hmac(k, kl, d, n, out)	hmac_sha1((k), (kl), (d), (n), (out))
#define a_hmac_oneshot(k, kl, d, n, out)	sha1_hmac_get_digest((k), (kl), (d), (n), (out))
#define a_hmac_str(k, kl, d, n, str)	sha1_hmac_get_digest_str((const char *)(k), (kl), (const char *)(d), (n), (str))
#define a_hmac_kopad(h)			((uint8_t *)(h)->k_opad)
#define A_KOPAD_BYTES			sizeof(((hmac_sha1_ctx_t *)0)->k_opad)
#endif
