/* Symbolic inputs consumed by the kernel stubs of tpev_env.h (shared by C06 and C16).
 * A harness embeds `struct tpev_in_s env;` in its `struct in_s` and defines TPEV_IN as `IN.env`
 * before including tpev_env.h.  Array sizes = call budgets (concrete; a call beyond the budget is a
 * failed "call budget" property, i.e. the job is not silently truncated). */
#ifndef TPEV_IN_H
#define TPEV_IN_H
#include <stdint.h>

#ifndef TPEV_NCTL
#define TPEV_NCTL 6	/* epoll_ctl calls */
#endif
#ifndef TPEV_NSET
#define TPEV_NSET 4	/* timerfd_settime calls */
#endif
#ifndef TPEV_NCRE
#define TPEV_NCRE 3	/* timerfd_create + pidfd_open calls */
#endif
#ifndef TPEV_NWAIT
#define TPEV_NWAIT 3	/* epoll_wait calls that deliver something */
#endif
#ifndef TPEV_NMISC
#define TPEV_NMISC 3	/* getsockopt / read / waitpid / fcntl calls (each) */
#endif

struct tpev_wait_in_s {
	int32_t		cnt;	/* epoll_wait() return value: -1, 0 or 1 */
	int32_t		err;	/* errno when cnt == -1 */
	uint32_t	events;	/* raw readiness bits (masked by the registration's interest set) */
};

struct tpev_in_s {
	int32_t		errno0;			/* stale errno before the first call */
	int32_t		ctl_err[TPEV_NCTL];	/* 0: the epoll model decides (EEXIST/ENOENT/0); else: fails with this errno */
	int32_t		set_err[TPEV_NSET];	/* 0: succeeds when the itimerspec is valid (else EINVAL); else errno */
	int32_t		cre_fd[TPEV_NCRE];	/* descriptor returned by timerfd_create / pidfd_open; -1: fails */
	int32_t		cre_err[TPEV_NCRE];
	struct tpev_wait_in_s wait[TPEV_NWAIT];
	int32_t		gso_ret[TPEV_NMISC];	/* getsockopt(SO_ERROR): 0 / -1 */
	int32_t		gso_val[TPEV_NMISC];
	int32_t		gso_err[TPEV_NMISC];
	int32_t		rd_ok[TPEV_NMISC];	/* read(timerfd): != 0 -> 8 bytes = rd_val, 0 -> -1/EAGAIN */
	uint64_t	rd_val[TPEV_NMISC];
	int32_t		wp_status[TPEV_NMISC];	/* waitpid status */
	int32_t		fcntl_err[TPEV_NMISC];
};
#endif
