/* Kernel-side environment for src/threadpool/threadpool.c (Linux/epoll branch), shared by C06 and C16.
 *
 * Usage:   struct in_s { ...; struct tpev_in_s env; };  #include "verif_in.h"
 *          #define TPEV_IN IN.env
 *          #include "common/tpev/tpev_env.h"      <- defines the stubs, then includes the REAL threadpool.c
 *
 * Stubs (all by macro redirection, names v_*, so the harness also builds natively for replay):
 *   epoll_ctl, epoll_wait, timerfd_create, timerfd_settime, close, read, getsockopt, setsockopt, waitpid,
 *   syscall(SYS_pidfd_open), fcntl, syslog.
 * They record their arguments in the tpev_lc_* (epoll_ctl), tpev_ls_* (timerfd_settime), tpev_lcre_* (timerfd_create / pidfd_open)
 * and tpev_log_close arrays and take their results from TPEV_IN (solver variables), restricted only
 * by what the man pages promise:
 *   epoll_ctl : EEXIST iff ADD of a registered (epfd,fd); ENOENT iff MOD/DEL of an unregistered one; any other errno may
 *               be injected at any call; EPOLLERR|EPOLLHUP are always in the interest set (epoll_ctl(2));
 *   epoll_wait: reports only registered descriptors (which one: fixed by the harness, see tpev_deliver_ptr), only bits of the interest set, and after an EPOLLONESHOT report
 *               the descriptor stays silent until EPOLL_CTL_MOD (epoll_ctl(2)); readiness itself is arbitrary;
 *   timerfd_settime: EINVAL when a timespec is not normalised (tv_sec < 0 or tv_nsec outside [0, 1e9)), EBADF for a
 *               descriptor that is not an open timerfd, any other errno may be injected;
 *   timerfd_create / pidfd_open: -1 with any errno, or a fresh descriptor;
 *   close     : drops the descriptor from every epoll set (epoll(7) Q6).
 */
#ifndef TPEV_ENV_H
#define TPEV_ENV_H

#include <sys/param.h>
#include <sys/types.h>
#include <sys/epoll.h>
#include <sys/timerfd.h>
#include <sys/ioctl.h>
#include <sys/socket.h>
#include <sys/syscall.h>
#include <sys/wait.h>
#include <sys/queue.h>
#include <sys/fcntl.h>
#include <sys/uio.h>
#include <inttypes.h>
#include <stdlib.h>
#include <stdio.h>
#include <stdarg.h>
#include <unistd.h>
#include <string.h>
#include <strings.h>
#include <errno.h>
#include <signal.h>
#include <pthread.h>
#include <time.h>
#include <syslog.h>

#ifndef TPEV_KSLOTS
#define TPEV_KSLOTS	4	/* epoll registrations alive at the same time (all epoll instances) */
#endif
#ifndef TPEV_TSLOTS
#define TPEV_TSLOTS	3	/* timerfd / pidfd descriptors ever created */
#endif
#ifndef TPEV_NCLOSE
#define TPEV_NCLOSE	4
#endif
#define TPEV_EPFD	3	/* epoll descriptor of the worker thread */
#define TPEV_EPFD_PVT	4	/* epoll descriptor of the pool virtual thread */
#ifndef TPEV_FD_COUNT
#define TPEV_FD_COUNT	16	/* tp->fd_count (getdtablesize() in tp_create) */
#endif
#define TPEV_EP_PRIVATE	((uint32_t)(EPOLLWAKEUP | EPOLLONESHOT | EPOLLET | EPOLLEXCLUSIVE))

/* ---- kernel model state ----
 * Struct-of-arrays on purpose: writes to an array of structs at a solver-dependent index (e.g. the log slot after a
 * call whose number of system calls depends on the path) cost CBMC ~4x more variables than scalar arrays [measured]. */
static int tpev_k_used[TPEV_KSLOTS], tpev_k_epfd[TPEV_KSLOTS], tpev_k_fd[TPEV_KSLOTS];	/* epoll registrations */
static uint32_t tpev_k_events[TPEV_KSLOTS];
static void *tpev_k_ptr[TPEV_KSLOTS];
static int tpev_t_open[TPEV_TSLOTS], tpev_t_fd[TPEV_TSLOTS], tpev_t_is_pidfd[TPEV_TSLOTS], tpev_t_clock[TPEV_TSLOTS],
    tpev_t_cflags[TPEV_TSLOTS], tpev_t_set_flags[TPEV_TSLOTS], tpev_t_set_cnt[TPEV_TSLOTS];	/* timerfd / pidfd descriptors */
static int64_t tpev_t_val_sec[TPEV_TSLOTS], tpev_t_val_nsec[TPEV_TSLOTS], tpev_t_int_sec[TPEV_TSLOTS], tpev_t_int_nsec[TPEV_TSLOTS];
static int tpev_user_fd[4] = { -1, -1, -1, -1 };	/* descriptors the "application" holds open (idents) */

/* ---- call logs ---- */
static int tpev_lc_epfd[TPEV_NCTL], tpev_lc_op[TPEV_NCTL], tpev_lc_fd[TPEV_NCTL], tpev_lc_ret[TPEV_NCTL], tpev_lc_err[TPEV_NCTL];
static uint32_t tpev_lc_events[TPEV_NCTL];
static void *tpev_lc_ptr[TPEV_NCTL];
static int tpev_ls_fd[TPEV_NSET], tpev_ls_flags[TPEV_NSET], tpev_ls_ret[TPEV_NSET], tpev_ls_has_old[TPEV_NSET];
static int64_t tpev_ls_val_sec[TPEV_NSET], tpev_ls_val_nsec[TPEV_NSET], tpev_ls_int_sec[TPEV_NSET], tpev_ls_int_nsec[TPEV_NSET];
static int tpev_lcre_is_pidfd[TPEV_NCRE], tpev_lcre_clock[TPEV_NCRE], tpev_lcre_flags[TPEV_NCRE], tpev_lcre_ret[TPEV_NCRE];
static long tpev_lcre_pid[TPEV_NCRE];
static int tpev_log_close[TPEV_NCLOSE];
static int tpev_n_ctl, tpev_n_set, tpev_n_cre, tpev_n_close, tpev_n_wait, tpev_n_gso, tpev_n_rd, tpev_n_wp,
    tpev_n_fcntl, tpev_n_sso, tpev_n_waitcalls;
static void *tpev_last_ptr[TPEV_NWAIT];	/* per delivering epoll_wait call: udata pointer and bits reported (NULL/0: none) */
static uint32_t tpev_last_rep[TPEV_NWAIT];
static int tpev_wait_left;	/* epoll_wait calls on the worker descriptor that may still report something */
static void tpev_on_wait_exhausted(void);	/* defined below, after threadpool.c: stops the worker loop */

#define TPEV_SYSCALLS()	(tpev_n_ctl + tpev_n_set + tpev_n_cre + tpev_n_close + tpev_n_waitcalls + tpev_n_gso + \
			 tpev_n_rd + tpev_n_wp + tpev_n_fcntl + tpev_n_sso)

static int tpev_k_find(int epfd, int fd) {
	for (int i = 0; i < TPEV_KSLOTS; i++)
		if (tpev_k_used[i] && tpev_k_epfd[i] == epfd && tpev_k_fd[i] == fd) return (i);
	return (-1);
}
static int tpev_t_find(int fd) {	/* open timerfd/pidfd with this number */
	for (int i = 0; i < TPEV_TSLOTS; i++)
		if (tpev_t_open[i] && tpev_t_fd[i] == fd) return (i);
	return (-1);
}
static int tpev_fd_in_use(int fd) {
	if (fd == TPEV_EPFD || fd == TPEV_EPFD_PVT || fd == 0 || fd == 1 || fd == 2) return (1);
	if (tpev_t_find(fd) >= 0) return (1);
	for (int i = 0; i < 4; i++) if (tpev_user_fd[i] == fd) return (1);
	return (0);
}

static int v_epoll_ctl(int epfd, int op, int fd, struct epoll_event *ev) {
	int k = tpev_n_ctl++;
	V_ASSERT(k < TPEV_NCTL, "call budget: epoll_ctl");
	if (k >= TPEV_NCTL) exit(5);
	tpev_lc_epfd[k] = epfd; tpev_lc_op[k] = op; tpev_lc_fd[k] = fd;
	tpev_lc_events[k] = ev ? ev->events : 0; tpev_lc_ptr[k] = ev ? ev->data.ptr : NULL;
	int inj = TPEV_IN.ctl_err[k], s, e = 0;
	if (inj != 0) {
		V_ASSUME(inj > 0 && inj < 4096 && inj != EEXIST && inj != ENOENT);
		e = inj;
	} else if (epfd != TPEV_EPFD && epfd != TPEV_EPFD_PVT) {
		e = EBADF;
	} else {
		s = tpev_k_find(epfd, fd);
		switch (op) {
		case EPOLL_CTL_ADD:
			if (s >= 0) { e = EEXIST; break; }
			for (s = 0; s < TPEV_KSLOTS && tpev_k_used[s]; s++) ;
			V_ASSERT(s < TPEV_KSLOTS, "call budget: epoll registrations");
			if (s >= TPEV_KSLOTS) exit(5);
			tpev_k_used[s] = 1; tpev_k_epfd[s] = epfd; tpev_k_fd[s] = fd;
			tpev_k_events[s] = ev->events | EPOLLERR | EPOLLHUP; tpev_k_ptr[s] = ev->data.ptr;
			break;
		case EPOLL_CTL_MOD:
			if (s < 0) { e = ENOENT; break; }
			tpev_k_events[s] = ev->events | EPOLLERR | EPOLLHUP; tpev_k_ptr[s] = ev->data.ptr;
			break;
		case EPOLL_CTL_DEL:
			if (s < 0) { e = ENOENT; break; }
			tpev_k_used[s] = 0;
			break;
		default:
			e = EINVAL;
		}
	}
	tpev_lc_err[k] = e; tpev_lc_ret[k] = e ? -1 : 0;
	if (e) { errno = e; return (-1); }
	return (0);
}

/* Which registration a delivering epoll_wait reports is fixed by the harness (tpev_deliver_ptr: the udata pointer the
 * registration must carry, tpev_deliver_epfd: the epoll instance it lives in), everything else is the solver's choice.
 * Reason: a solver-chosen pointer flowing through epoll_event.data into `tp_udata->...` accesses of tpt_loop made the
 * formula 4x larger (1.4 M variables for one delivery) [measured]; deliveries are therefore enumerated by target in the
 * job shapes.  When the target lives in the pool virtual thread's epoll set, the worker's wait reports the pvt
 * descriptor first (its registration carries tpev_pvt_ptr) and the nested wait on the pvt descriptor reports the target. */
static void *tpev_deliver_ptr, *tpev_pvt_ptr;
static int tpev_deliver_epfd;

static int v_epoll_wait(int epfd, struct epoll_event *evs, int maxevents, int timeout) {
	tpev_n_waitcalls++;
	if (epfd == TPEV_EPFD) {
		if (tpev_wait_left <= 0) { tpev_on_wait_exhausted(); return (0); }
		tpev_wait_left--;
	}
	int k = tpev_n_wait++;
	V_ASSERT(k < TPEV_NWAIT, "call budget: epoll_wait");
	if (k >= TPEV_NWAIT) exit(5);
	tpev_last_ptr[k] = NULL; tpev_last_rep[k] = 0;
	int cnt = TPEV_IN.wait[k].cnt;
	V_ASSUME(cnt >= -1 && cnt <= 1 && maxevents >= 1);
	if (cnt == -1) { V_ASSUME(TPEV_IN.wait[k].err > 0 && TPEV_IN.wait[k].err < 4096); errno = TPEV_IN.wait[k].err; return (-1); }
	if (cnt == 0) return (0);
	V_ASSUME(tpev_deliver_ptr != NULL);
	void *want = tpev_deliver_ptr;
	if (epfd != tpev_deliver_epfd) want = tpev_pvt_ptr;
	int s = -1;
	for (int i = 0; i < TPEV_KSLOTS; i++) if (tpev_k_used[i] && tpev_k_epfd[i] == epfd && tpev_k_ptr[i] == want) s = i;
	V_ASSUME(s >= 0);	/* only registered descriptors are reported */
	uint32_t rep = TPEV_IN.wait[k].events & tpev_k_events[s] & ~TPEV_EP_PRIVATE;
	V_ASSUME(rep != 0);	/* silent after a one-shot report, silent without readiness */
	if (tpev_k_events[s] & EPOLLONESHOT) tpev_k_events[s] &= TPEV_EP_PRIVATE;
	evs[0].events = rep;
	evs[0].data.ptr = want;
	tpev_last_ptr[k] = want; tpev_last_rep[k] = rep;
	return (1);
}

static int tpev_new_fd(int k, int is_pidfd) {
	int fd = TPEV_IN.cre_fd[k];
	if (fd == -1) {
		V_ASSUME(TPEV_IN.cre_err[k] > 0 && TPEV_IN.cre_err[k] < 4096);
		errno = TPEV_IN.cre_err[k];
		return (-1);
	}
	V_ASSUME(fd > 0 && !tpev_fd_in_use(fd));	/* a fresh descriptor; 0..2 are open */
	int s;
	for (s = 0; s < TPEV_TSLOTS && tpev_t_open[s]; s++) ;
	V_ASSERT(s < TPEV_TSLOTS, "call budget: open timerfd/pidfd");
	if (s >= TPEV_TSLOTS) exit(5);
	tpev_t_open[s] = 1; tpev_t_fd[s] = fd; tpev_t_is_pidfd[s] = is_pidfd;
	tpev_t_clock[s] = 0; tpev_t_cflags[s] = 0; tpev_t_set_flags[s] = 0; tpev_t_set_cnt[s] = 0;
	tpev_t_val_sec[s] = 0; tpev_t_val_nsec[s] = 0; tpev_t_int_sec[s] = 0; tpev_t_int_nsec[s] = 0;
	return (fd);
}

static int v_timerfd_create(int clockid, int flags) {
	int k = tpev_n_cre++;
	V_ASSERT(k < TPEV_NCRE, "call budget: timerfd_create");
	if (k >= TPEV_NCRE) exit(5);
	tpev_lcre_is_pidfd[k] = 0; tpev_lcre_clock[k] = clockid; tpev_lcre_flags[k] = flags;
	int fd = tpev_new_fd(k, 0);
	tpev_lcre_ret[k] = fd;
	if (fd >= 0) { int s = tpev_t_find(fd); tpev_t_clock[s] = clockid; tpev_t_cflags[s] = flags; }
	return (fd);
}

static long v_syscall(long nr, ...) {	/* only pidfd_open() is issued through syscall() */
	va_list ap;
	va_start(ap, nr);
	long pid = (long)va_arg(ap, int);
	unsigned int flags = va_arg(ap, unsigned int);
	va_end(ap);
	int k = tpev_n_cre++;
	V_ASSERT(k < TPEV_NCRE, "call budget: pidfd_open");
	if (k >= TPEV_NCRE) exit(5);
	V_ASSERT(nr == SYS_pidfd_open, "only pidfd_open goes through syscall()");
	tpev_lcre_is_pidfd[k] = 1; tpev_lcre_pid[k] = pid; tpev_lcre_flags[k] = (int)flags;
	int fd = tpev_new_fd(k, 1);
	tpev_lcre_ret[k] = fd;
	return (fd);
}

static int tpev_ts_valid(const struct timespec *ts) {
	return (ts->tv_sec >= 0 && ts->tv_nsec >= 0 && ts->tv_nsec < 1000000000L);
}

static int v_timerfd_settime(int fd, int flags, const struct itimerspec *nv, struct itimerspec *ov) {
	int k = tpev_n_set++;
	V_ASSERT(k < TPEV_NSET, "call budget: timerfd_settime");
	if (k >= TPEV_NSET) exit(5);
	tpev_ls_fd[k] = fd; tpev_ls_flags[k] = flags; tpev_ls_has_old[k] = (ov != NULL);
	tpev_ls_val_sec[k] = nv->it_value.tv_sec; tpev_ls_val_nsec[k] = nv->it_value.tv_nsec;
	tpev_ls_int_sec[k] = nv->it_interval.tv_sec; tpev_ls_int_nsec[k] = nv->it_interval.tv_nsec;
	int e = 0, s = tpev_t_find(fd), inj = TPEV_IN.set_err[k];
	if (s < 0 || tpev_t_is_pidfd[s]) e = (s < 0) ? EBADF : EINVAL;
	else if (!tpev_ts_valid(&nv->it_value) || !tpev_ts_valid(&nv->it_interval)) e = EINVAL;
	else if (flags & ~(TFD_TIMER_ABSTIME | TFD_TIMER_CANCEL_ON_SET)) e = EINVAL;
	else if (inj != 0) { V_ASSUME(inj > 0 && inj < 4096); e = inj; }
	tpev_ls_ret[k] = e ? -1 : 0;
	if (e) { errno = e; return (-1); }
	tpev_t_val_sec[s] = nv->it_value.tv_sec; tpev_t_val_nsec[s] = nv->it_value.tv_nsec;
	tpev_t_int_sec[s] = nv->it_interval.tv_sec; tpev_t_int_nsec[s] = nv->it_interval.tv_nsec;
	tpev_t_set_flags[s] = flags; tpev_t_set_cnt[s]++;
	return (0);
}

static int v_close(int fd) {
	int k = tpev_n_close++;
	V_ASSERT(k < TPEV_NCLOSE, "call budget: close");
	if (k >= TPEV_NCLOSE) exit(5);
	tpev_log_close[k] = fd;
	int s = tpev_t_find(fd), known = (s >= 0);
	if (s >= 0) tpev_t_open[s] = 0;
	for (int i = 0; i < 4; i++) if (tpev_user_fd[i] == fd) { tpev_user_fd[i] = -1; known = 1; }
	if (!known) { errno = EBADF; return (-1); }
	for (int i = 0; i < TPEV_KSLOTS; i++) if (tpev_k_used[i] && tpev_k_fd[i] == fd) tpev_k_used[i] = 0;
	return (0);
}

static ssize_t v_read(int fd, void *buf, size_t n) {
	int k = tpev_n_rd++;
	V_ASSERT(k < TPEV_NMISC, "call budget: read");
	if (k >= TPEV_NMISC) exit(5);
	int s = tpev_t_find(fd);
	if (s < 0) { errno = EBADF; return (-1); }
	if (n < 8) { errno = EINVAL; return (-1); }
	if (!TPEV_IN.rd_ok[k]) { errno = EAGAIN; return (-1); }
	V_ASSUME(TPEV_IN.rd_val[k] != 0);
	memcpy(buf, &TPEV_IN.rd_val[k], 8);
	return (8);
}

static int v_getsockopt(int fd, int level, int opt, void *val, socklen_t *len) {
	int k = tpev_n_gso++;
	V_ASSERT(k < TPEV_NMISC, "call budget: getsockopt");
	if (k >= TPEV_NMISC) exit(5);
	V_ASSUME(TPEV_IN.gso_ret[k] == 0 || TPEV_IN.gso_ret[k] == -1);
	if (TPEV_IN.gso_ret[k] == -1) {
		V_ASSUME(TPEV_IN.gso_err[k] > 0 && TPEV_IN.gso_err[k] < 4096);
		errno = TPEV_IN.gso_err[k];
		return (-1);
	}
	if (*len >= sizeof(int)) { memcpy(val, &TPEV_IN.gso_val[k], sizeof(int)); *len = sizeof(int); }
	return (0);
}

static int tpev_sso_fd, tpev_sso_level, tpev_sso_opt; static uint32_t tpev_sso_val;
static int v_setsockopt(int fd, int level, int opt, const void *val, socklen_t len) {
	tpev_n_sso++;
	tpev_sso_fd = fd; tpev_sso_level = level; tpev_sso_opt = opt;
	if (len >= 4) memcpy(&tpev_sso_val, val, 4);
	return (0);
}

static pid_t v_waitpid(pid_t pid, int *status, int options) {
	int k = tpev_n_wp++;
	V_ASSERT(k < TPEV_NMISC, "call budget: waitpid");
	if (k >= TPEV_NMISC) exit(5);
	if (status) *status = TPEV_IN.wp_status[k];
	return (pid);
}

static int v_fcntl(int fd, int cmd, ...) {
	int k = tpev_n_fcntl++;
	V_ASSERT(k < TPEV_NMISC, "call budget: fcntl");
	if (k >= TPEV_NMISC) exit(5);
	if (TPEV_IN.fcntl_err[k] != 0) {
		V_ASSUME(TPEV_IN.fcntl_err[k] > 0 && TPEV_IN.fcntl_err[k] < 4096);
		errno = TPEV_IN.fcntl_err[k];
		return (-1);
	}
	return (0);
}

static void v_syslog(int prio, const char *fmt, ...) { (void)prio; (void)fmt; }

#define epoll_ctl	v_epoll_ctl
#define epoll_wait	v_epoll_wait
#define timerfd_create	v_timerfd_create
#define timerfd_settime	v_timerfd_settime
#define close		v_close
#define read		v_read
#define getsockopt	v_getsockopt
#define setsockopt	v_setsockopt
#define waitpid		v_waitpid
#define syscall		v_syscall
#define fcntl		v_fcntl
#define syslog		v_syslog

#include "threadpool/threadpool.c"	/* the code under test (gives access to its static functions) */

#ifndef TPEV_HAVE_MSG_SYS
/* threadpool_msg_sys.c (C05/C10) is not part of these translation units; tpt_data_event_init/destroy reference these
 * functions (and tp_shutdown references tpt_msg_send) but nothing here calls them (the pool pre-state is built by tpev_env_init). Present for the native link only. */
tpt_msg_queue_p tpt_msg_queue_create(tpt_p tpt, const uint32_t flags) { (void)tpt; (void)flags; abort(); return (NULL); }
void tpt_msg_queue_destroy(tpt_msg_queue_p q) { (void)q; abort(); }
int tpt_msg_send(tpt_p dst, tpt_p src, uint32_t flags, tpt_msg_cb msg_cb, void *udata) {
	(void)dst; (void)src; (void)flags; (void)msg_cb; (void)udata; abort(); return (0); }
#endif

/* ---- pool pre-state: what tp_create(threads_max = 1) + tpt_data_init leave behind (pool life cycle itself is C11) ---- */
static tp_p tpev_tp;
static tpt_p tpev_tpt, tpev_pvt;

static void tpev_on_wait_exhausted(void) { tpev_tpt->state = TP_THREAD_STATE_STOP; }

/* Static objects (not one calloc block as in tp_create): CBMC propagates constants through fields of static objects
 * but not of heap objects, and e.g. a non-constant tpt->io_fd made every delivery 4x more expensive [measured].
 * The code under test reaches the threads only through tp->pvt / tp_udata->tpt, never through tp->threads[]. */
static tp_t tpev_tp_obj;
static tp_thread_t tpev_thr_obj[2];

static void tpev_env_init(uint32_t s_flags) {
	tpev_tp = &tpev_tp_obj;
	tpev_tp->s.flags = s_flags;
	tpev_tp->s.threads_max = 1;
	tpev_tp->cpu_count = 1;
	tpev_tp->fd_count = TPEV_FD_COUNT;
	tpev_tp->threads_cnt = 1;
	tpev_pvt = &tpev_thr_obj[1];
	tpev_tpt = &tpev_thr_obj[0];
	tpev_tp->pvt = tpev_pvt;
	tpev_pvt->tp = tpev_tp; tpev_pvt->io_fd = TPEV_EPFD_PVT; tpev_pvt->cpu_id = -1; tpev_pvt->thread_num = 1;
	tpev_pvt->state = TP_THREAD_STATE_RUNNING;
	tpev_tpt->tp = tpev_tp; tpev_tpt->io_fd = TPEV_EPFD; tpev_tpt->cpu_id = 0; tpev_tpt->thread_num = 0;
	tpev_tpt->state = TP_THREAD_STATE_RUNNING;
	/* tpt_data_event_init(): the pool virtual thread's epoll descriptor is watched by the worker */
	tpev_tpt->pvt_udata.cb_func = NULL;
	tpev_tpt->pvt_udata.ident = TPEV_EPFD_PVT;
	tpev_tpt->pvt_udata.tpt = tpev_tpt;
	tpev_k_used[0] = 1; tpev_k_epfd[0] = TPEV_EPFD; tpev_k_fd[0] = TPEV_EPFD_PVT;
	tpev_k_events[0] = EPOLLHUP | EPOLLERR | EPOLLIN | EPOLLRDHUP | EPOLLPRI;
	tpev_k_ptr[0] = &tpev_tpt->pvt_udata;
	tpev_pvt_ptr = &tpev_tpt->pvt_udata;
	V_ASSUME(TPEV_IN.errno0 >= 0 && TPEV_IN.errno0 < 4096);
	errno = TPEV_IN.errno0;
}

#endif /* TPEV_ENV_H */
