/* Kernel-side environment for src/threadpool/threadpool.c (Linux/epoll branch), shared by C06 and C16.
 *
 * Usage:   struct in_s { ...; struct tpev_in_s env; };  #include "verif_in.h"
 *          #define TPEV_IN IN.env
 *          #include "common/tpev/tpev_env.h"      <- defines the stubs, then includes the REAL threadpool.c
 *
 * Stubs (all by macro redirection, names v_*, so the harness also builds natively for replay):
 *   epoll_ctl, epoll_wait, timerfd_create, timerfd_settime, close, read, getsockopt, setsockopt, waitpid,
 *   syscall(SYS_pidfd_open), fcntl, syslog.
 * They record their arguments in tpev_log_* and take their results from TPEV_IN (solver variables), restricted only
 * by what the man pages promise:
 *   epoll_ctl : EEXIST iff ADD of a registered (epfd,fd); ENOENT iff MOD/DEL of an unregistered one; any other errno may
 *               be injected at any call; EPOLLERR|EPOLLHUP are always in the interest set (epoll_ctl(2));
 *   epoll_wait: reports only registered descriptors, only bits of the interest set, and after an EPOLLONESHOT report
 *               the descriptor stays silent until EPOLL_CTL_MOD (epoll_ctl(2)); readiness itself is arbitrary;
 *   timerfd_settime: EINVAL when a timespec is not normalised (tv_sec < 0 or tv_nsec outside [0, 1e9)), EBADF for a
 *               descriptor that is not an open timerfd, any other errno may be injected;
 *   timerfd_create / pidfd_open: -1 with any errno, or a fresh descriptor;
 *   close     : drops the descriptor from every epoll set (epoll(7) Q6).
 */
#ifndef TPEV_ENV_H
#define TPEV_ENV_H

#include <sys/param.h>
#include <sys/types.h>
#include <sys/epoll.h>
#include <sys/timerfd.h>
#include <sys/ioctl.h>
#include <sys/socket.h>
#include <sys/syscall.h>
#include <sys/wait.h>
#include <sys/queue.h>
#include <sys/fcntl.h>
#include <sys/uio.h>
#include <inttypes.h>
#include <stdlib.h>
#include <stdio.h>
#include <stdarg.h>
#include <unistd.h>
#include <string.h>
#include <strings.h>
#include <errno.h>
#include <signal.h>
#include <pthread.h>
#include <time.h>
#include <syslog.h>

#ifndef TPEV_KSLOTS
#define TPEV_KSLOTS	4	/* epoll registrations alive at the same time (all epoll instances) */
#endif
#ifndef TPEV_TSLOTS
#define TPEV_TSLOTS	3	/* timerfd / pidfd descriptors ever created */
#endif
#ifndef TPEV_NCLOSE
#define TPEV_NCLOSE	4
#endif
#define TPEV_EPFD	3	/* epoll descriptor of the worker thread */
#define TPEV_EPFD_PVT	4	/* epoll descriptor of the pool virtual thread */
#ifndef TPEV_FD_COUNT
#define TPEV_FD_COUNT	16	/* tp->fd_count (getdtablesize() in tp_create) */
#endif
#define TPEV_EP_PRIVATE	((uint32_t)(EPOLLWAKEUP | EPOLLONESHOT | EPOLLET | EPOLLEXCLUSIVE))

/* ---- kernel model state ---- */
struct tpev_kent_s { int used, epfd, fd; uint32_t events; void *ptr; };
struct tpev_tfd_s { int open, fd, is_pidfd, clock, cflags, set_flags, set_cnt; struct itimerspec spec; };
static struct tpev_kent_s tpev_k[TPEV_KSLOTS];
static struct tpev_tfd_s tpev_t[TPEV_TSLOTS];
static int tpev_user_fd[4] = { -1, -1, -1, -1 };	/* descriptors the "application" holds open (idents) */

/* ---- call logs ---- */
struct tpev_ctl_log_s { int epfd, op, fd, ret, err; uint32_t events; void *ptr; };
struct tpev_set_log_s { int fd, flags, ret; struct itimerspec v; int has_old; };
struct tpev_cre_log_s { int is_pidfd, clock, flags, ret; long pid; };
static struct tpev_ctl_log_s tpev_log_ctl[TPEV_NCTL];
static struct tpev_set_log_s tpev_log_set[TPEV_NSET];
static struct tpev_cre_log_s tpev_log_cre[TPEV_NCRE];
static int tpev_log_close[TPEV_NCLOSE];
static int tpev_n_ctl, tpev_n_set, tpev_n_cre, tpev_n_close, tpev_n_wait, tpev_n_gso, tpev_n_rd, tpev_n_wp,
    tpev_n_fcntl, tpev_n_sso, tpev_n_waitcalls;
static void *tpev_last_ptr[TPEV_NWAIT];	/* per delivering epoll_wait call: udata pointer and bits reported (NULL/0: none) */
static uint32_t tpev_last_rep[TPEV_NWAIT];
static int tpev_wait_left;	/* epoll_wait calls on the worker descriptor that may still report something */
static void tpev_on_wait_exhausted(void);	/* defined below, after threadpool.c: stops the worker loop */

#define TPEV_SYSCALLS()	(tpev_n_ctl + tpev_n_set + tpev_n_cre + tpev_n_close + tpev_n_waitcalls + tpev_n_gso + \
			 tpev_n_rd + tpev_n_wp + tpev_n_fcntl + tpev_n_sso)

static int tpev_k_find(int epfd, int fd) {
	for (int i = 0; i < TPEV_KSLOTS; i++)
		if (tpev_k[i].used && tpev_k[i].epfd == epfd && tpev_k[i].fd == fd) return (i);
	return (-1);
}
static int tpev_t_find(int fd) {	/* open timerfd/pidfd with this number */
	for (int i = 0; i < TPEV_TSLOTS; i++)
		if (tpev_t[i].open && tpev_t[i].fd == fd) return (i);
	return (-1);
}
static int tpev_fd_in_use(int fd) {
	if (fd == TPEV_EPFD || fd == TPEV_EPFD_PVT || fd == 0 || fd == 1 || fd == 2) return (1);
	if (tpev_t_find(fd) >= 0) return (1);
	for (int i = 0; i < 4; i++) if (tpev_user_fd[i] == fd) return (1);
	return (0);
}

static int v_epoll_ctl(int epfd, int op, int fd, struct epoll_event *ev) {
	int k = tpev_n_ctl++;
	V_ASSERT(k < TPEV_NCTL, "call budget: epoll_ctl");
	if (k >= TPEV_NCTL) exit(5);
	struct tpev_ctl_log_s *l = &tpev_log_ctl[k];
	l->epfd = epfd; l->op = op; l->fd = fd; l->events = ev ? ev->events : 0; l->ptr = ev ? ev->data.ptr : NULL;
	int inj = TPEV_IN.ctl_err[k], s, e = 0;
	if (inj != 0) {
		V_ASSUME(inj > 0 && inj < 4096 && inj != EEXIST && inj != ENOENT);
		e = inj;
	} else if (epfd != TPEV_EPFD && epfd != TPEV_EPFD_PVT) {
		e = EBADF;
	} else {
		s = tpev_k_find(epfd, fd);
		switch (op) {
		case EPOLL_CTL_ADD:
			if (s >= 0) { e = EEXIST; break; }
			for (s = 0; s < TPEV_KSLOTS && tpev_k[s].used; s++) ;
			V_ASSERT(s < TPEV_KSLOTS, "call budget: epoll registrations");
			if (s >= TPEV_KSLOTS) exit(5);
			tpev_k[s].used = 1; tpev_k[s].epfd = epfd; tpev_k[s].fd = fd;
			tpev_k[s].events = ev->events | EPOLLERR | EPOLLHUP; tpev_k[s].ptr = ev->data.ptr;
			break;
		case EPOLL_CTL_MOD:
			if (s < 0) { e = ENOENT; break; }
			tpev_k[s].events = ev->events | EPOLLERR | EPOLLHUP; tpev_k[s].ptr = ev->data.ptr;
			break;
		case EPOLL_CTL_DEL:
			if (s < 0) { e = ENOENT; break; }
			tpev_k[s].used = 0;
			break;
		default:
			e = EINVAL;
		}
	}
	l->err = e; l->ret = e ? -1 : 0;
	if (e) { errno = e; return (-1); }
	return (0);
}

/* Which registration a delivering epoll_wait reports is fixed by the harness (tpev_deliver_ptr: the udata pointer the
 * registration must carry, tpev_deliver_epfd: the epoll instance it lives in), everything else is the solver's choice.
 * Reason: a solver-chosen pointer flowing through epoll_event.data into `tp_udata->...` accesses of tpt_loop made the
 * formula 4x larger (1.4 M variables for one delivery) [measured]; deliveries are therefore enumerated by target in the
 * job shapes.  When the target lives in the pool virtual thread's epoll set, the worker's wait reports the pvt
 * descriptor first (its registration carries tpev_pvt_ptr) and the nested wait on the pvt descriptor reports the target. */
static void *tpev_deliver_ptr, *tpev_pvt_ptr;
static int tpev_deliver_epfd;

static int v_epoll_wait(int epfd, struct epoll_event *evs, int maxevents, int timeout) {
	tpev_n_waitcalls++;
	if (epfd == TPEV_EPFD) {
		if (tpev_wait_left <= 0) { tpev_on_wait_exhausted(); return (0); }
		tpev_wait_left--;
	}
	int k = tpev_n_wait++;
	V_ASSERT(k < TPEV_NWAIT, "call budget: epoll_wait");
	if (k >= TPEV_NWAIT) exit(5);
	tpev_last_ptr[k] = NULL; tpev_last_rep[k] = 0;
	int cnt = TPEV_IN.wait[k].cnt;
	V_ASSUME(cnt >= -1 && cnt <= 1 && maxevents >= 1);
	if (cnt == -1) { V_ASSUME(TPEV_IN.wait[k].err > 0 && TPEV_IN.wait[k].err < 4096); errno = TPEV_IN.wait[k].err; return (-1); }
	if (cnt == 0) return (0);
	V_ASSUME(tpev_deliver_ptr != NULL);
	void *want = (epfd == tpev_deliver_epfd) ? tpev_deliver_ptr : tpev_pvt_ptr;
	int s = -1;
	for (int i = 0; i < TPEV_KSLOTS; i++) if (tpev_k[i].used && tpev_k[i].epfd == epfd && tpev_k[i].ptr == want) s = i;
	V_ASSUME(s >= 0);	/* only registered descriptors are reported */
	uint32_t rep = TPEV_IN.wait[k].events & tpev_k[s].events & ~TPEV_EP_PRIVATE;
	V_ASSUME(rep != 0);	/* silent after a one-shot report, silent without readiness */
	if (tpev_k[s].events & EPOLLONESHOT) tpev_k[s].events &= TPEV_EP_PRIVATE;
	evs[0].events = rep;
	evs[0].data.ptr = want;
	tpev_last_ptr[k] = want; tpev_last_rep[k] = rep;
	return (1);
}

static int tpev_new_fd(int k, int is_pidfd) {
	int fd = TPEV_IN.cre_fd[k];
	if (fd == -1) {
		V_ASSUME(TPEV_IN.cre_err[k] > 0 && TPEV_IN.cre_err[k] < 4096);
		errno = TPEV_IN.cre_err[k];
		return (-1);
	}
	V_ASSUME(fd > 0 && !tpev_fd_in_use(fd));	/* a fresh descriptor; 0..2 are open */
	int s;
	for (s = 0; s < TPEV_TSLOTS && tpev_t[s].open; s++) ;
	V_ASSERT(s < TPEV_TSLOTS, "call budget: open timerfd/pidfd");
	if (s >= TPEV_TSLOTS) exit(5);
	memset(&tpev_t[s], 0, sizeof(tpev_t[s]));
	tpev_t[s].open = 1; tpev_t[s].fd = fd; tpev_t[s].is_pidfd = is_pidfd;
	return (fd);
}

static int v_timerfd_create(int clockid, int flags) {
	int k = tpev_n_cre++;
	V_ASSERT(k < TPEV_NCRE, "call budget: timerfd_create");
	if (k >= TPEV_NCRE) exit(5);
	tpev_log_cre[k].is_pidfd = 0; tpev_log_cre[k].clock = clockid; tpev_log_cre[k].flags = flags;
	int fd = tpev_new_fd(k, 0);
	tpev_log_cre[k].ret = fd;
	if (fd >= 0) { int s = tpev_t_find(fd); tpev_t[s].clock = clockid; tpev_t[s].cflags = flags; }
	return (fd);
}

static long v_syscall(long nr, ...) {	/* only pidfd_open() is issued through syscall() */
	va_list ap;
	va_start(ap, nr);
	long pid = (long)va_arg(ap, int);
	unsigned int flags = va_arg(ap, unsigned int);
	va_end(ap);
	int k = tpev_n_cre++;
	V_ASSERT(k < TPEV_NCRE, "call budget: pidfd_open");
	if (k >= TPEV_NCRE) exit(5);
	V_ASSERT(nr == SYS_pidfd_open, "only pidfd_open goes through syscall()");
	tpev_log_cre[k].is_pidfd = 1; tpev_log_cre[k].pid = pid; tpev_log_cre[k].flags = (int)flags;
	int fd = tpev_new_fd(k, 1);
	tpev_log_cre[k].ret = fd;
	return (fd);
}

static int tpev_ts_valid(const struct timespec *ts) {
	return (ts->tv_sec >= 0 && ts->tv_nsec >= 0 && ts->tv_nsec < 1000000000L);
}

static int v_timerfd_settime(int fd, int flags, const struct itimerspec *nv, struct itimerspec *ov) {
	int k = tpev_n_set++;
	V_ASSERT(k < TPEV_NSET, "call budget: timerfd_settime");
	if (k >= TPEV_NSET) exit(5);
	struct tpev_set_log_s *l = &tpev_log_set[k];
	l->fd = fd; l->flags = flags; l->v = *nv; l->has_old = (ov != NULL);
	int e = 0, s = tpev_t_find(fd), inj = TPEV_IN.set_err[k];
	if (s < 0 || tpev_t[s].is_pidfd) e = (s < 0) ? EBADF : EINVAL;
	else if (!tpev_ts_valid(&nv->it_value) || !tpev_ts_valid(&nv->it_interval)) e = EINVAL;
	else if (flags & ~(TFD_TIMER_ABSTIME | TFD_TIMER_CANCEL_ON_SET)) e = EINVAL;
	else if (inj != 0) { V_ASSUME(inj > 0 && inj < 4096); e = inj; }
	l->ret = e ? -1 : 0;
	if (e) { errno = e; return (-1); }
	tpev_t[s].spec = *nv; tpev_t[s].set_flags = flags; tpev_t[s].set_cnt++;
	return (0);
}

static int v_close(int fd) {
	int k = tpev_n_close++;
	V_ASSERT(k < TPEV_NCLOSE, "call budget: close");
	if (k >= TPEV_NCLOSE) exit(5);
	tpev_log_close[k] = fd;
	int s = tpev_t_find(fd), known = (s >= 0);
	if (s >= 0) tpev_t[s].open = 0;
	for (int i = 0; i < 4; i++) if (tpev_user_fd[i] == fd) { tpev_user_fd[i] = -1; known = 1; }
	if (!known) { errno = EBADF; return (-1); }
	for (int i = 0; i < TPEV_KSLOTS; i++) if (tpev_k[i].used && tpev_k[i].fd == fd) tpev_k[i].used = 0;
	return (0);
}

static ssize_t v_read(int fd, void *buf, size_t n) {
	int k = tpev_n_rd++;
	V_ASSERT(k < TPEV_NMISC, "call budget: read");
	if (k >= TPEV_NMISC) exit(5);
	int s = tpev_t_find(fd);
	if (s < 0) { errno = EBADF; return (-1); }
	if (n < 8) { errno = EINVAL; return (-1); }
	if (!TPEV_IN.rd_ok[k]) { errno = EAGAIN; return (-1); }
	V_ASSUME(TPEV_IN.rd_val[k] != 0);
	memcpy(buf, &TPEV_IN.rd_val[k], 8);
	return (8);
}

static int v_getsockopt(int fd, int level, int opt, void *val, socklen_t *len) {
	int k = tpev_n_gso++;
	V_ASSERT(k < TPEV_NMISC, "call budget: getsockopt");
	if (k >= TPEV_NMISC) exit(5);
	V_ASSUME(TPEV_IN.gso_ret[k] == 0 || TPEV_IN.gso_ret[k] == -1);
	if (TPEV_IN.gso_ret[k] == -1) {
		V_ASSUME(TPEV_IN.gso_err[k] > 0 && TPEV_IN.gso_err[k] < 4096);
		errno = TPEV_IN.gso_err[k];
		return (-1);
	}
	if (*len >= sizeof(int)) { memcpy(val, &TPEV_IN.gso_val[k], sizeof(int)); *len = sizeof(int); }
	return (0);
}

static int tpev_sso_fd, tpev_sso_level, tpev_sso_opt; static uint32_t tpev_sso_val;
static int v_setsockopt(int fd, int level, int opt, const void *val, socklen_t len) {
	tpev_n_sso++;
	tpev_sso_fd = fd; tpev_sso_level = level; tpev_sso_opt = opt;
	if (len >= 4) memcpy(&tpev_sso_val, val, 4);
	return (0);
}

static pid_t v_waitpid(pid_t pid, int *status, int options) {
	int k = tpev_n_wp++;
	V_ASSERT(k < TPEV_NMISC, "call budget: waitpid");
	if (k >= TPEV_NMISC) exit(5);
	if (status) *status = TPEV_IN.wp_status[k];
	return (pid);
}

static int v_fcntl(int fd, int cmd, ...) {
	int k = tpev_n_fcntl++;
	V_ASSERT(k < TPEV_NMISC, "call budget: fcntl");
	if (k >= TPEV_NMISC) exit(5);
	if (TPEV_IN.fcntl_err[k] != 0) {
		V_ASSUME(TPEV_IN.fcntl_err[k] > 0 && TPEV_IN.fcntl_err[k] < 4096);
		errno = TPEV_IN.fcntl_err[k];
		return (-1);
	}
	return (0);
}

static void v_syslog(int prio, const char *fmt, ...) { (void)prio; (void)fmt; }

#define epoll_ctl	v_epoll_ctl
#define epoll_wait	v_epoll_wait
#define timerfd_create	v_timerfd_create
#define timerfd_settime	v_timerfd_settime
#define close		v_close
#define read		v_read
#define getsockopt	v_getsockopt
#define setsockopt	v_setsockopt
#define waitpid		v_waitpid
#define syscall		v_syscall
#define fcntl		v_fcntl
#define syslog		v_syslog

#include "threadpool/threadpool.c"	/* the code under test (gives access to its static functions) */

#ifndef TPEV_HAVE_MSG_SYS
/* threadpool_msg_sys.c (C05/C10) is not part of these translation units; tpt_data_event_init/destroy reference these
 * functions (and tp_shutdown references tpt_msg_send) but nothing here calls them (the pool pre-state is built by tpev_env_init). Present for the native link only. */
tpt_msg_queue_p tpt_msg_queue_create(tpt_p tpt, const uint32_t flags) { (void)tpt; (void)flags; abort(); return (NULL); }
void tpt_msg_queue_destroy(tpt_msg_queue_p q) { (void)q; abort(); }
int tpt_msg_send(tpt_p dst, tpt_p src, uint32_t flags, tpt_msg_cb msg_cb, void *udata) {
	(void)dst; (void)src; (void)flags; (void)msg_cb; (void)udata; abort(); return (0); }
#endif

/* ---- pool pre-state: what tp_create(threads_max = 1) + tpt_data_init leave behind (pool life cycle itself is C11) ---- */
static tp_p tpev_tp;
static tpt_p tpev_tpt, tpev_pvt;

static void tpev_on_wait_exhausted(void) { tpev_tpt->state = TP_THREAD_STATE_STOP; }

static void tpev_env_init(uint32_t s_flags) {
	size_t sz = sizeof(tp_t) + 2 * sizeof(tp_thread_t);
	tpev_tp = (tp_p)v_alloc(sz);
	memset(tpev_tp, 0, sz);
	tpev_tp->s.flags = s_flags;
	tpev_tp->s.threads_max = 1;
	tpev_tp->cpu_count = 1;
	tpev_tp->fd_count = TPEV_FD_COUNT;
	tpev_tp->threads_cnt = 1;
	tpev_pvt = &tpev_tp->threads[1];
	tpev_tpt = &tpev_tp->threads[0];
	tpev_tp->pvt = tpev_pvt;
	tpev_pvt->tp = tpev_tp; tpev_pvt->io_fd = TPEV_EPFD_PVT; tpev_pvt->cpu_id = -1; tpev_pvt->thread_num = 1;
	tpev_pvt->state = TP_THREAD_STATE_RUNNING;
	tpev_tpt->tp = tpev_tp; tpev_tpt->io_fd = TPEV_EPFD; tpev_tpt->cpu_id = 0; tpev_tpt->thread_num = 0;
	tpev_tpt->state = TP_THREAD_STATE_RUNNING;
	/* tpt_data_event_init(): the pool virtual thread's epoll descriptor is watched by the worker */
	tpev_tpt->pvt_udata.cb_func = NULL;
	tpev_tpt->pvt_udata.ident = TPEV_EPFD_PVT;
	tpev_tpt->pvt_udata.tpt = tpev_tpt;
	tpev_k[0].used = 1; tpev_k[0].epfd = TPEV_EPFD; tpev_k[0].fd = TPEV_EPFD_PVT;
	tpev_k[0].events = EPOLLHUP | EPOLLERR | EPOLLIN | EPOLLRDHUP | EPOLLPRI;
	tpev_k[0].ptr = &tpev_tpt->pvt_udata;
	tpev_pvt_ptr = &tpev_tpt->pvt_udata;
	V_ASSUME(TPEV_IN.errno0 >= 0 && TPEV_IN.errno0 < 4096);
	errno = TPEV_IN.errno0;
}

#endif /* TPEV_ENV_H */
