/* libc environment shared by the C20 / C15 harnesses.  Include right after "verif.h", before any liblcb header.
 *
 * Default build: bin/check passes the real cmake/Linux feature macros (-DHAVE_MEMMEM -DHAVE_MEMRCHR
 * -DHAVE_STRNCASECMP ...), so mem_find* / mem_chr* / mem_cmpi* are the thin wrappers over libc's memmem / memchr /
 * memrchr / strncasecmp that the shipped library uses; under CBMC these four are the man-page-contract bodies of
 * /verif/lib/libc_models.h (memchr, memrchr, memmem) and CBMC's built-in strncasecmp; natively the real glibc.
 * (strnlen likewise comes from libc_models.h.)
 *
 * -DLCB_FALLBACK (build variant): HAVE_MEMMEM / HAVE_MEMRCHR / HAVE_STRNCASECMP are undefined again, so liblcb's OWN
 * fallback memmem()/memrchr() (include/al/os.h) and the hand-written case-folding loop of mem_cmpi()
 * (include/utils/mem_utils.h) are the code under test.  The fallbacks are renamed lcb_memmem / lcb_memrchr by macro
 * (definition and all callers alike) only to avoid the clash with libc's / libc_models.h's symbols of the same name.
 */
#ifndef V_LIBC_ENV_H
#define V_LIBC_ENV_H
#include <stddef.h>
#include <stdint.h>
#include <string.h>
#include <strings.h>

/* memcpy as every real libc implements it for identical pointers (dst == src is harmless); CBMC's model and the
 * letter of the C standard call dst == src an overlap.  Only used where stated (C15 RADIUS in-place password coding). */
static inline void *v_memcpy_same_ok(void *d, const void *s, size_t n) {
	if (d == s || n == 0) return (d);
	return (memcpy(d, s, n));
}

#ifndef REPLAY
/* CBMC-only memmem (man-page contract, same as lib/libc_models.h) written so that symbolic execution does not invent
 * matches: the "whole needle matched" test sits inside the comparison loop, before the paths of a symbolic byte
 * comparison are merged.  With the generic model (`while (j < nn && h[i+j] == n[j]) j++; if (j == nn) return`) every
 * symbolic haystack byte leaves j = ite(c, 1, 0) behind, `j == nn` is then undecided for symex, the result pointer
 * becomes an if-then-else over all positions and the callers' nested loops explode (measured on http_hdr_val_get_count:
 * 157 k vs 1.2 k symex steps on the same 33-byte block).  Natively the real libc memmem is used. */
static inline void *v_memmem(const void *h, size_t hn, const void *nd, size_t nn) {
	const unsigned char *hp = (const unsigned char *)h, *np = (const unsigned char *)nd;
	if (nn == 0) return ((void *)h);
	if (nn > hn) return ((void *)0);
	for (size_t i = 0; i + nn <= hn; i++) {
		for (size_t j = 0;; j++) {
			if (j == nn) return ((void *)(hp + i));
			if (hp[i + j] != np[j]) break;
		}
	}
	return ((void *)0);
}
#ifndef LCB_FALLBACK
#define memmem v_memmem
#endif
#endif

#ifdef LCB_FALLBACK
#undef HAVE_MEMMEM
#undef HAVE_MEMRCHR
#undef HAVE_STRNCASECMP
#define memmem lcb_memmem
#define memrchr lcb_memrchr
#endif
#endif
