/* C13 / fixed-header validators: SDP, SAP, RTP, MPEG-TS, DHCPv4.
 * Shape: LEN = received bytes (exactly sized heap object, contents symbolic), T = function under test. */
#include "verif.h"
#include <errno.h>
#include "envstubs.h"
#include <arpa/inet.h>
#if T == 11 && !defined(REPLAY)
/* memchr model for the sparse size_detect shape (CBMC only; the replay uses glibc's memchr).  Same contract as memchr
 * (first occurrence of c in s[0..n), NULL otherwise; the range must lie inside the buffer, asserted), but written as a
 * scan over the CONCRETE indices of the one buffer under test, so that the concrete zero bytes fold away during
 * symbolic execution and only the symbolic bytes branch.  c13_buf is set by the harness. */
static const unsigned char *c13_buf;
static void *c13_memchr(const void *s, int c, size_t n) {
	const unsigned char *p = (const unsigned char *)s;
	__CPROVER_assert(p >= c13_buf && (size_t)(p - c13_buf) <= LEN && n <= LEN - (size_t)(p - c13_buf),
	    "PROP memchr range lies inside the buffer");
	size_t off = (size_t)(p - c13_buf);
	for (size_t i = 0; i < LEN; i++) {
		if (i >= off && i - off < n && c13_buf[i] == (unsigned char)c) return ((void *)(c13_buf + i));
	}
	return (NULL);
}
#define memchr c13_memchr
#endif
#include "utils/macro.h"
#include "proto/sdp.h"
#include "proto/sap.h"
#include "proto/rtp.h"
#include "proto/mpeg2ts.h"
#include "proto/dhcpv4.h"

#ifndef NF
#define NF 3
#endif

#if T == 11	/* sparse shape: see below */
#define NCL (sizeof(cl_pos) / sizeof(cl_pos[0]))
static const size_t cl_pos[] = { CL_POS };
#ifndef CLW
#define CLW 6
#endif
#endif

struct in_s {
#if T == 11
	uint8_t c[sizeof(cl_pos) / sizeof(cl_pos[0])][CLW];
	uint8_t d[1];
#else
	uint8_t d[LEN ? LEN : 1];
#endif
	size_t off;
	size_t line;
	uint8_t type;
};
#include "verif_in.h"

#define INSIDE(p, n) V_IN_SPAN((p), (n), m, LEN)

void harness(void) {
	V_BEGIN();
#if T == 11
	/* mpeg2_ts_pkt_size_detect on an exactly sized heap buffer of LEN bytes: all bytes zero (never a sync byte) except
	 * CLW = 6 fully symbolic bytes at each concrete candidate position CL_POS: sync byte, TEI/PUSI/PID-hi, PID-lo,
	 * scrambling/adaptation-control/cc, adaptation_field_length (or table id), byte 5 (PSI flags of a payload-only
	 * packet).  Each of them may itself be 0x47, so up to 6 candidates per cluster. */
	uint8_t *m = (uint8_t *)v_alloc(LEN);
	memset(m, 0, LEN);
	for (size_t k = 0; k < NCL; k++) {
		for (size_t b = 0; b < CLW; b++) m[cl_pos[k] + b] = IN.c[k][b];
	}
#ifndef REPLAY
	c13_buf = m;
#endif
#else
	uint8_t *m = v_buf(IN.d, LEN);
#endif
	int r;
	(void)r;

#if T == 1	/* sdp_msg_type_get */
	size_t line = IN.line, vs = 777;
	uint8_t *val = NULL;
	V_ASSUME(line <= LEN);
#ifdef KF_SDP_TYPE_GET_END
	/* blocked: a CRLF with fewer than two bytes behind it, and messages shorter than two bytes */
	V_ASSUME(LEN != 1);
	for (size_t i = 0; i + 1 < LEN; i++) V_ASSUME(!(m[i] == '\r' && m[i + 1] == '\n' && i + 4 > LEN));
#endif
	r = sdp_msg_type_get(m, LEN, IN.type, &line, &val, &vs);
	if (r == 0) {
		V_ASSERT(INSIDE(val, vs), "value span inside the message");
		V_ASSERT(val >= m + 2 && val[-2] == IN.type && val[-1] == '=', "value follows '<type>='");
		V_WITNESS("type found");
	} else {
		V_ASSERT(r == EINVAL, "EINVAL when absent");
		V_WITNESS("type absent");
	}
#elif T == 2	/* sdp_msg_sec_chk (includes sdp_msg_type_get_count) */
#ifdef KF_SDP_TYPE_GET_END
	for (size_t i = 0; i + 1 < LEN; i++) V_ASSUME(!(m[i] == '\r' && m[i + 1] == '\n' && i + 4 > LEN));
#endif
	r = sdp_msg_sec_chk(m, LEN);
	V_ASSERT(r >= 0 && r <= 9, "result code in range");
	if (r == 0) V_WITNESS("accepted");
	else V_WITNESS("rejected");
#elif T == 3	/* sdp_msg_feilds_get */
	uint8_t *f[NF];
	size_t fs[NF], c;
	c = sdp_msg_feilds_get(m, LEN, NF, f, fs);
	V_ASSERT(c <= NF, "not more fields than asked for");
	for (size_t i = 0; i < NF; i++) {
		if (i < c) V_ASSERT(INSIDE(f[i], fs[i]), "field span inside the buffer");
	}
	if (c == NF) V_WITNESS("all fields filled");
	V_WITNESS("split");
#elif T == 4	/* sap_packet_is_valid + accessors */
	r = sap_packet_is_valid(m, LEN);
	if (r != 0) {
		uint8_t *src = sap_packet_get_orig_src(m);
		uint8_t *auth = sap_packet_get_auth_data(m);
		uint8_t *pl = sap_packet_get_payload(m, LEN);
		uint16_t af = sap_packet_get_orig_src_type(m);
		size_t al = (af == AF_INET) ? 4 : 16;
		V_ASSERT(af == AF_INET || af == AF_INET6, "address family");
		V_ASSERT(INSIDE(src, al), "origin address inside the packet");
		V_ASSERT(INSIDE(auth, m[1]), "authentication data inside the packet");
		V_ASSERT(INSIDE(pl, 0), "payload pointer inside the packet");
		V_WITNESS("valid packet");
	} else {
		V_WITNESS("invalid packet");
	}
#elif T == 5	/* rtp_payload_get */
	size_t s = 777, e = 777;
	r = rtp_payload_get(m, LEN, &s, &e);
	if (r == 0) {
		V_ASSERT(s >= 12 && s <= LEN && e <= LEN && s + e <= LEN, "payload offsets inside the packet");
		if (e != 0) V_WITNESS("padded packet");
		if (s > 12) V_WITNESS("CSRC / extension skipped");
		V_WITNESS("payload located");
	} else {
		V_ASSERT(r == EINVAL, "EINVAL");
		V_WITNESS("rejected");
	}
#elif T == 6	/* mpeg2_ts_pkt_is_valid: one packet of exactly LEN bytes */
#ifdef KF_TS_AF_LEN
	/* blocked: PSI PID (PAT/CAT/TSDT/SDT/EIT) with an adaptation field that leaves fewer than 2 bytes of the packet */
	if (LEN >= 188) {
		const mpeg2_ts_hdr_t *h = (const mpeg2_ts_hdr_t *)m;
		uint32_t pid = MPEG2_TS_PID(h);
		int psi = (pid == MPEG2_TS_PID_PAT || pid == MPEG2_TS_PID_CAT || pid == MPEG2_TS_PID_TSDT ||
		    pid == MPEG2_TS_PID_SDT || pid == MPEG2_TS_PID_EIT);
		V_ASSUME(!(h->afe != 0 && psi && (size_t)m[4] + 7 > LEN));
	}
#endif
	r = mpeg2_ts_pkt_is_valid((const mpeg2_ts_hdr_t *)m, LEN);
	V_ASSERT(r == 0 || r == 1, "boolean");
	if (r) V_WITNESS("valid");
	else V_WITNESS("invalid");
#elif T == 7	/* mpeg2_ts_pkt_get_next: buffer LEN, packet size PSZ, offset inside the buffer */
	uint8_t *pkt = NULL;
	V_ASSUME(IN.off <= LEN);
	r = mpeg2_ts_pkt_get_next(m, LEN, IN.off, PSZ, &pkt);
	V_ASSERT(r == 0 || r == 1, "boolean");
	if (r) {
		V_ASSERT(INSIDE(pkt, PSZ), "whole packet inside the buffer");
		V_ASSERT(pkt[0] == 0x47, "points at a sync byte");
		V_WITNESS("found");
	} else {
		V_WITNESS("not found");
	}
#elif T == 8	/* dhcp4_hdr_check */
	r = dhcp4_hdr_check(m, LEN);
	V_ASSERT(r == 0 || r == EINVAL || r == EBADMSG, "documented result codes only");
	if (r == 0) {
		V_ASSERT(LEN >= sizeof(dhcp4_hdr_t), "accepted header is complete");
		V_WITNESS("accepted");
	} else {
		V_WITNESS("rejected");
	}
#elif T == 9	/* mpeg2_ts_pkt_size_detect */
	size_t ps = 0;
	r = mpeg2_ts_pkt_size_detect(m, LEN, &ps);
	if (r == 0) {
		V_ASSERT(ps == 188 || ps == 192 || ps == 204 || ps == 208, "one of the four sizes");
		V_WITNESS("detected");
	} else {
		V_ASSERT(r == EINVAL, "EINVAL");
		V_WITNESS("not detected");
	}
#elif T == 11	/* mpeg2_ts_pkt_size_detect, sparse symbolic buffer */
	size_t ps = 0;
	r = mpeg2_ts_pkt_size_detect(m, LEN, &ps);
	if (r == 0) {
		V_ASSERT(ps == 188 || ps == 192 || ps == 204 || ps == 208, "one of the four sizes");
		if (ps != 208) V_WITNESS("size other than the default detected");
		V_WITNESS("detected");
	} else {
		V_ASSERT(r == EINVAL, "EINVAL");
		V_WITNESS("not detected");
	}
#elif T == 10	/* sdp_msg_type_get_count */
#ifdef KF_SDP_TYPE_GET_END
	V_ASSUME(LEN != 1);
	for (size_t i = 0; i + 1 < LEN; i++) V_ASSUME(!(m[i] == '\r' && m[i + 1] == '\n' && i + 4 > LEN));
#endif
	size_t c = sdp_msg_type_get_count(m, LEN, IN.type);
	V_ASSERT(c <= LEN / 2 + 1, "count bounded by the number of lines that fit");
	if (c > 1) V_WITNESS("counted >= 2");
	V_WITNESS("counted");
#else
#error "T"
#endif
}
