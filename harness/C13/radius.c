/* C13 / RADIUS: packet and attribute validation, attribute walkers and getters.
 * Shape: LEN = received bytes (exactly sized heap object), NBUF = caller's output capacity, T = function.
 * Documented call order of radius.h ("This cheks allready done in radius_pkt_chk()", "Call after radius_pkt_chk()"):
 * the attribute functions trust pkt->len, so for T >= 2 the pre-state is "radius_pkt_chk(pkt, LEN) == 0",
 * established by running the real radius_pkt_chk (V_ASSUME on its result), not by a model. */
#include "verif.h"
#include <errno.h>
#include "envstubs.h"
#include "proto/radius.h"

#ifndef NBUF
#define NBUF 1
#endif

struct in_s {
	uint8_t pkt[LEN ? LEN : 1];
	size_t off;
	size_t count;
	uint8_t type;
};
#include "verif_in.h"

void harness(void) {
	V_BEGIN();
	uint8_t *m = v_buf(IN.pkt, LEN);
	rad_pkt_hdr_p pkt = (rad_pkt_hdr_p)m;
	size_t off = IN.off;
	int r;

#if T == 1	/* radius_pkt_chk on any received byte string */
#ifdef KF_RADIUS_CHK_SHORT
	/* blocked: LEN < 4 (length field itself not received) - compile-time shape, see jobs.py */
#endif
	r = radius_pkt_chk(pkt, LEN);
	V_ASSERT(r == 0 || r == EBADMSG, "0 or EBADMSG");
	if (r == 0) {
		V_ASSERT(LEN >= 20, "accepted packet has a full header");
		size_t plen = ntohs(pkt->len);
		V_ASSERT(plen >= 20 && plen <= LEN, "declared length lies inside the received bytes");
		/* structural consistency: attributes tile [20, plen) exactly */
		size_t pos = 20;
		for (int i = 0; i < (LEN / 3) + 1 && pos < plen; i++) {
			V_ASSERT(pos + 2 <= plen, "attribute header inside the packet");
			V_ASSERT(m[pos + 1] >= 3 && pos + m[pos + 1] <= plen, "attribute inside the packet");
			pos += m[pos + 1];
		}
		V_ASSERT(pos == plen, "attributes tile the packet");
		if (plen > 20) V_WITNESS("packet with attributes accepted");
		V_WITNESS("packet accepted");
	} else {
		V_WITNESS("packet rejected");
	}
#else
	V_ASSUME(LEN >= 20);
	V_ASSUME(radius_pkt_chk(pkt, LEN) == 0);
	size_t plen = ntohs(pkt->len);
#if T == 2	/* radius_pkt_attr_get_from_offset */
	rad_pkt_attr_p attr = NULL;
#ifdef KF_RADIUS_ATTR_OFF_END
	/* blocked: offset in the last two bytes (attribute header not inside the packet), or a length byte < 2 there */
	V_ASSUME(!(off + 2 > plen && off <= plen));
	if (off >= 20 && off <= plen - 2) V_ASSUME(m[off + 1] >= 2);
#endif
	r = radius_pkt_attr_get_from_offset(pkt, off, &attr);
	if (r == 0) {
		V_ASSERT(V_IN_SPAN(attr, 2, m, plen), "attribute header inside the packet");
		V_ASSERT(V_IN_SPAN(attr, attr->len, m, plen), "attribute inside the packet");
		V_ASSERT(attr->len >= 2, "attribute length covers its own header");
		V_WITNESS("attribute returned");
	} else {
		V_WITNESS("offset rejected");
	}
#elif T == 3	/* radius_pkt_attr_find_raw */
	rad_pkt_attr_p attr = NULL;
	size_t off_ret = 0;
#ifdef KF_RADIUS_ATTR_OFF_END
	V_ASSUME(!(off + 2 > plen && off <= plen && off != 0));
#endif
	r = radius_pkt_attr_find_raw(pkt, off, IN.type, &attr, &off_ret);
	if (r == 0) {
		V_ASSERT((uint8_t *)attr == m + off_ret, "pointer and offset agree");
		V_ASSERT(off_ret >= 20 && off_ret + 2 <= plen, "attribute header inside the packet");
		V_ASSERT(off_ret + attr->len <= plen && attr->len >= 2, "attribute inside the packet");
		V_ASSERT(attr->type == IN.type, "type matches");
		V_WITNESS("attribute found");
	} else {
		V_WITNESS("not found / rejected");
	}
#elif T == 4	/* radius_pkt_attr_get_data_ptr(_raw) */
	uint8_t ty = 0, *data = NULL;
	size_t dl = 0;
#ifdef KF_RADIUS_ATTR_OFF_END
	V_ASSUME(!(off + 2 > plen && off <= plen));
	if (off >= 20 && off <= plen - 2) V_ASSUME(m[off + 1] >= 2);
#endif
	r = radius_pkt_attr_get_data_ptr(pkt, off, &ty, &data, &dl);
	if (r == 0) {
		V_ASSERT(V_IN_SPAN(data, dl, m, plen), "data pointer and length inside the packet");
		V_WITNESS("data returned");
	} else {
		V_WITNESS("offset rejected");
	}
#elif T == 5	/* radius_pkt_attr_get_data_to_buf */
	uint8_t *buf = (uint8_t *)v_alloc(NBUF);
	size_t bs = 0;
#ifdef KF_RADIUS_ATTR_OFF_END
	/* The copy loop advances `offset` behind each attribute it copied and calls radius_pkt_attr_find() again; when the
	 * copied attribute ends the packet this is the known offset == packet length call.  Blocked: start offsets in
	 * the last two bytes; an attribute of the wanted type (in the walk that starts at `off`) that ends exactly at the
	 * packet end; and type User-Password (its data length is cut with strnlen, so the next offset can be anywhere). */
	V_ASSUME(!(off + 2 > plen && off <= plen && off != 0));
	V_ASSUME(IN.type != RADIUS_ATTR_TYPE_USER_PASSWORD);
	if (off == 0 || (off >= 20 && off <= plen)) {
		size_t pos = off ? off : 20;
		for (int i = 0; i < (LEN / 2) + 1 && pos + 2 <= plen; i++) {
			size_t al = m[pos + 1];
			if (al < 2 || pos + al > plen) break;
			V_ASSUME(!(m[pos] == IN.type && pos + al + 2 > plen));
			pos += al;
		}
	}
#endif
	r = radius_pkt_attr_get_data_to_buf(pkt, off, IN.count, IN.type, buf, NBUF, &bs);
	V_ASSERT(bs <= NBUF, "never reports more than the buffer holds");
	if (r == 0) V_WITNESS("data copied");
	else V_WITNESS("nothing copied");
#else
#error "T"
#endif
#endif
}
