import os

NOKF = bool(os.environ.get("C13_NOKF"))      # run without the known-finding blocking clauses (to re-confirm the defects / check fixes)
KF_OFF = set(filter(None, os.environ.get("C13_KF_OFF", "").split(",")))   # switch off single clauses, e.g. C13_KF_OFF=KF_TS_AF_LEN
SOLVER = os.environ.get("C13_SOLVER", "cadical")

# known-finding defines in force (see findings/*.md); each blocks exactly the described input class
KF = {}   # all twelve findings were repaired in /repo (see /verif/known_findings.json); the #ifdef KF_ blocks in the harnesses are dead code now

META = {
    "bounds": "packet/buffer = exactly sized heap object of concrete length L with ALL byte contents symbolic; offsets, counts, types, "
              "start lines symbolic (full size_t / field range). quick | thorough lengths: "
              "DNS name walkers (get_name_len, 2name with name buffers 1..8) L=0,11..15 | ..16 (16 = smallest message holding a "
              "compression cycle, real DNS_MAX_NAME_CYCLES=64 unwound); SequenceOfLabelsGetSize/ToDomainName L<=5 | <=8; question L<=17 | <=19; "
              "RR L<=23 | <=25; dns_msg_info_get/validate/size_get (all four header counts symbolic) L<=17 | <=28; "
              "RADIUS radius_pkt_chk L=0..4,19..26 | ..30, attribute getters/finders on chk-accepted packets L=20..26 | ..28, get_data_to_buf out 1..8; "
              "HTTP skip_spwsp(2) L<=3 | <=6, wsp2sp/ht2sp (separate and in place) L<=6 | <=9, request line L=11,14,16 | 10..24, status line L=13..17 | ..21, "
              "hdr_val_get_ex/get_count/remove L<=6 | <=9 with names of 1 | 0..2 symbolic bytes, query get/del L<=5 | <=7, chunked L<=8 | <=11 plus the "
              "2^64-wrap shapes (L=18..21, size line starting with 15 'f'), url_decode L<=5 | <=8 with out buffers 0..L+1, req_sec_chk L<=4 | <=6; "
              "SDP type_get/feilds_get L<=8 | <=11, sec_chk L<16 (early reject); SAP L=0..40 | ..60; RTP L=0..20 | ..80; MPEG-TS is_valid L=187,188,208,209 | all "
              "four sizes, get_next buffers 187..210 | ..250; "
              "mpeg2_ts_pkt_size_detect on SPARSE buffers (exactly sized heap object, every byte zero except w fully symbolic bytes - sync, TEI/PUSI/PID-hi, "
              "PID-lo, scrambling/adaptation/cc, adaptation_field_length|table id, next byte - at each listed candidate position; each of them may be a sync "
              "byte): 208 bytes with clusters (w=6) at 0 and 20 | also 187 bytes (refused), 2x188=376 bytes with clusters (w=6) at 0 and 188, 188+208=396 bytes "
              "with clusters (w=4) at 0 and 188; dhcp4_hdr_check L=0,239,240,241 | ..300. "
              "Decided per job: every dereference / memcpy / memmove / memcmp range inside the objects (CBMC bounds + pointer checks), termination "
              "(unwinding assertions), result codes, and every returned pointer/length/offset inside the message (V_ASSERTs).",
    "outside": "sdp_msg_sec_chk on messages >= 16 bytes that pass the 'v=0' prefix test (6 nested count/find walks: no verdict in 1500 s at L=16; its callees "
               "sdp_msg_type_get / count are decided separately for L<=11); http_req_sec_chk for blocks > 6 bytes and http_hdr_val_get_count for blocks > 9 bytes "
               "(same reason); dns_msg_rr_find (510-byte on-stack name buffer with symbolic-length memcpy: cbmc / the SAT back end run out of memory at L=23 with 8 and "
               "with 20 GB; its callee dns_msg_rr_get_data is decided separately); compression walks in messages longer than 16 bytes; mpeg2_ts_pkt_size_detect on buffers with arbitrary "
               "content (decided only on the sparse shapes listed under bounds: at most 12 possible sync bytes, never two valid candidates exactly one "
               "packet size apart except in the 396-byte shape); lengths above the listed ones up to the protocol maxima (64 KiB DNS/TCP, 4 KiB RADIUS, ...); DHCPv4 option "
               "walkers (the header defines option tables but no walker function; only dhcp4_hdr_check exists); the non-glibc fallbacks of al/os.h "
               "(memmem/memrchr) and the byte-loop variant of mem_cmpi (the real Linux build uses libc).",
    "assumptions": [
        "malloc never fails in harness allocations (v_alloc assumes non-NULL)",
        "libc environment: memchr / memrchr / memmem / strnlen = /verif/lib/libc_models.h (CBMC-only bodies; real glibc under ASan in replays); memcmp, "
        "memcpy, memmove, strncasecmp = CBMC built-in models",
        "forming or comparing an out-of-range pointer VALUE without dereferencing it (e.g. `val = sdp_msg - 2`, `name = http_hdr_end + 2`, `cur_pos + label > max_pos`) "
        "is not counted as a violation: cbmc's 'pointer relation: pointer outside object bounds' checks are deselected (not observable by ASan/UBSan; "
        "--pointer-overflow-check is off in the driver for the same reason)",
        "RADIUS attribute functions are run on packets for which the real radius_pkt_chk(pkt, received_size) returned 0 (documented call order in radius.h)",
        "dns_msg_question_get_data / dns_msg_rr_get_data / dns_msg_rr_find are given offsets >= 12 (behind the header): for offsets 1..7 the code forms "
        "`(dns_question_p)(hdr + offset + name_size - sizeof(uint8_t*))`, a pointer before the object whose accessed fields are inside it; cbmc's "
        "integer-to-pointer model flags that although no byte outside is touched",
        "mpeg2_ts_pkt_get_next: caller's offset <= buf_size (otherwise `buf_size - off` wraps: caller parameter, not packet content)",
        "ts-sizedetect jobs only: memchr = c13_memchr in media.c (CBMC only; glibc memchr in the replay): same contract as memchr, range asserted to lie "
        "inside the buffer under test, written as a scan over the concrete indices of that buffer so that its concrete zero bytes fold away in symbolic execution",
        "http_hdr_val_remove: hdr_lcase is the lower-case copy of the same size produced by the real mem_to_lower()",
        "known-finding clauses in force (KF dict in jobs.py; each excludes exactly the input class of one unrepaired defect, see findings/*.md). "
        "ref_walk_leaves_msg / ref_seq_leaves_buf2 / ref_sections_hit_known_defect in dns.c are reference walks used ONLY as these blocking predicates",
    ],
    "harness_functions": ["harness", "v_alloc", "v_buf", "memchr", "memrchr", "memmem", "explicit_bzero", "strnlen",
                          "ref_walk_leaves_msg", "ref_seq_leaves_buf", "ref_seq_leaves_buf2", "ref_sections_hit_known_defect", "c13_memchr"],
}
if not NOKF:
    META["assumptions"] += ["%s: blocked input class = %s" % (k, v) for k, v in sorted(KF.items()) if k not in KF_OFF]


def kf(*names):
    if NOKF:
        return {}
    return {n: None for n in names if n in KF and n not in KF_OFF}


def J(out, name, src, defs, shape, desc, unwind=None, unwindset=None, kfs=(), timeout=None, solver=None, flags=None, cost=1, heavy=False):
    d = dict(defs)
    d.update(kf(*kfs))
    us = list(unwindset or [])
    if src != "dns.c" and not any(u.startswith("memmem.0:") for u in us):
        us.append("memmem.0:4")      # inner (needle) loop of the memmem stub: needles are CRLF, "://", or the <= 3 byte name
    j = {"name": name, "src": src, "defs": d, "shape": shape, "desc": desc, "unwind": unwind,
         "unwindset": us, "solver": solver or SOLVER, "flags": list(flags or []), "cost": cost,
         # comparing / forming an out-of-range pointer VALUE without dereferencing it is not counted (not observable
         # natively; DESIGN 1.2 item 7) - every dereference, memcpy/memmove/memcmp range and the returned spans are.
         "prop_exclude": "pointer relation: pointer outside object bounds"}
    if timeout:
        j["timeout"] = timeout
    if heavy:
        j["heavy"] = True
    out.append(j)


def dns_jobs(tier, out):
    q = tier == "quick"
    NAMEKF = ("KF_DNS_NAME_END", "KF_DNS_SEQ_END")
    # T=1 name length, T=2 name expansion.  Loop trip count: up to 64 jumps, each followed by the labels that fit.
    for L in ([0, 11, 12, 13, 14, 15] if q else [0, 11, 12, 13, 14, 15, 16]):
        area = max(L - 12, 0)
        it = 8 if area < 4 else 66 * (1 + area // 2) + 4
        J(out, "dns-name-len-L%d" % L, "dns.c", {"T": 1, "LEN": L, "REFSTEPS": it},
          "message %d bytes, any offset" % L, "dns_msg_sequence_of_labels_get_name_len: in-bounds reads, result codes",
          unwind=4, unwindset=["dns_msg_sequence_of_labels_get_name_len.0:%d" % it, "ref_walk_leaves_msg.0:%d" % (it + 1)],
          kfs=NAMEKF, cost=it * 10, timeout=(2400 if it > 8 else None))
        for nb in ([1, 4] if q else [1, 2, 4, 8]):
            it2 = 8 if area < 4 else 66 + nb + 4
            J(out, "dns-2name-L%d-B%d" % (L, nb), "dns.c", {"T": 2, "LEN": L, "NBUF": nb, "REFSTEPS": it2},
              "message %d bytes, name buffer %d bytes, any offset" % (L, nb),
              "dns_msg_sequence_of_labels2name: in-bounds reads/writes, NUL, reported length",
              unwind=4, unwindset=["dns_msg_sequence_of_labels2name.0:%d" % it2, "ref_walk_leaves_msg.0:%d" % (it2 + 1)],
              kfs=NAMEKF, cost=it2 * 3, timeout=(2400 if it2 > 8 else None))
    for L in ([0, 1, 2, 3, 5] if q else range(0, 9)):
        J(out, "dns-seqsize-L%d" % L, "dns.c", {"T": 3, "LEN": L}, "label sequence buffer %d bytes" % L,
          "SequenceOfLabelsGetSize: in-bounds reads, size inside the buffer", unwind=L + 3, kfs=NAMEKF)
        for nb in sorted(set([max(L - 1, 1), L + 1] if q else [1, max(L - 1, 1), max(L, 1), L + 1])):
            J(out, "dns-seq2name-L%d-B%d" % (L, nb), "dns.c", {"T": 4, "LEN": L, "NBUF": nb},
              "label sequence buffer %d bytes, name buffer %d" % (L, nb),
              "SequenceOfLabelsToDomainName: in-bounds reads/writes", unwind=L + 3, kfs=NAMEKF + ("KF_DNS_SEQ2NAME_ROOT",))
    # question / RR extraction call the name expander; a compression cycle needs two pointers inside the message, which a
    # question (RR) that passes the span check can only have from 18 (24) bytes on: below that the walk is short
    def nm_us(L, cyc, extra=()):
        it = 70 if L >= cyc else 8
        return it, ["dns_msg_sequence_of_labels2name.0:%d" % it, "ref_walk_leaves_msg.0:%d" % (it + 1),
                    "SequenceOfLabelsGetSize.0:%d" % (max(L - 12, 0) + 3), "ref_seq_leaves_buf2.0:%d" % (L + 3)] + list(extra)
    for L in ([12, 16, 17] if q else [0, 11, 12, 13, 16, 17, 18, 19]):
        it, us = nm_us(L, 18)
        J(out, "dns-question-L%d" % L, "dns.c", {"T": 5, "LEN": L, "NBUF": 4, "REFSTEPS": it}, "message %d bytes, name buffer 4, any offset" % L,
          "dns_msg_question_get_data: span inside the message, name terminated", unwind=4, unwindset=us, kfs=NAMEKF, cost=it)
    for L in ([12, 22, 23] if q else [0, 11, 12, 13, 21, 22, 23, 24, 25]):
        it, us = nm_us(L, 24)
        J(out, "dns-rr-L%d" % L, "dns.c", {"T": 6, "LEN": L, "NBUF": 4, "REFSTEPS": it}, "message %d bytes, name buffer 4, any offset" % L,
          "dns_msg_rr_get_data: span, RDATA pointer/length inside the message", unwind=4, unwindset=us,
          kfs=NAMEKF + ("KF_DNS_RR_RDLENGTH",), cost=it)
    for L in []:   # dns_msg_rr_find: no verdict (see META outside); harness kept (dns.c T=7)
        it, us = nm_us(L, 24, ["dns_msg_rr_find.0:%d" % ((L - 12) // 11 + 2), "strncasecmp.0:6"])
        J(out, "dns-rrfind-L%d" % L, "dns.c", {"T": 7, "LEN": L, "REFSTEPS": it}, "message %d bytes, any offset/count, name <= 4 bytes" % L,
          "dns_msg_rr_find: found RR inside the message", unwind=4, unwindset=us,
          kfs=NAMEKF + ("KF_DNS_RR_RDLENGTH",), cost=it * 2)
    for L in ([0, 11, 12, 17] if q else [0, 11, 12, 13, 17, 18, 22, 23, 24, 28]):
        a = max(L - 12, 0)
        us = ["dns_msg_info_get.0:%d" % (a // 5 + 2), "dns_msg_info_get.1:%d" % (a // 11 + 2), "dns_msg_info_get.2:%d" % (a // 11 + 2),
              "dns_msg_info_get.3:%d" % (a // 11 + 2), "SequenceOfLabelsGetSize.0:%d" % (a + 2), "ref_seq_leaves_buf2.0:%d" % (L + 3),
              "ref_sections_hit_known_defect.0:%d" % (L // 5 + 2), "ref_sections_hit_known_defect.1:%d" % (L // 11 + 2)]
        J(out, "dns-info-L%d" % L, "dns.c", {"T": 8, "LEN": L}, "message %d bytes, all header counts" % L,
          "dns_msg_info_get/validate/size_get: section offsets ordered and inside the message", unwind=4, unwindset=us,
          kfs=NAMEKF + ("KF_DNS_RR_RDLENGTH",), cost=50)
        if L in (12, 17):
            J(out, "dns-validate-L%d" % L, "dns.c", {"T": 9, "LEN": L}, "message %d bytes, all header counts" % L,
              "dns_msg_validate / dns_msg_size_get: reported size inside the buffer", unwind=4, unwindset=us,
              kfs=NAMEKF + ("KF_DNS_RR_RDLENGTH",), cost=60)


def radius_jobs(tier, out):
    q = tier == "quick"
    for L in ([0, 2, 3, 4, 19, 20, 23, 26] if q else list(range(0, 5)) + list(range(19, 31))):
        if L < 4 and kf("KF_RADIUS_CHK_SHORT"):
            continue        # known finding radius_pkt_chk_short: these shapes ARE the defect class
        J(out, "radius-chk-L%d" % L, "radius.c", {"T": 1, "LEN": L}, "received %d bytes" % L,
          "radius_pkt_chk: in-bounds reads; accepted => attributes tile [20,len) inside the received bytes",
          unwind=L // 3 + 3, kfs=("KF_RADIUS_CHK_SHORT",) if L < 4 else ())
    for L in ([20, 23, 26] if q else range(20, 29)):
        for t, nm, ds in ((2, "attr-off", "radius_pkt_attr_get_from_offset"), (3, "attr-find", "radius_pkt_attr_find_raw"),
                          (4, "attr-data", "radius_pkt_attr_get_data_ptr(_raw)")):
            J(out, "radius-%s-L%d" % (nm, L), "radius.c", {"T": t, "LEN": L}, "checked packet in %d received bytes, any offset" % L,
              ds + ": returned attribute/data inside the packet", unwind=L // 3 + 3, kfs=("KF_RADIUS_ATTR_OFF_END",))
        for nb in ([1, 4] if q else [1, 4, 8]):
            if q and ((nb == 4 and L > 23) or (nb == 1 and L != 26)):
                continue   # quick: B4 at L20/L23, plus B1 at L26 (an attribute larger than the whole out buffer; seeded change C13-radius-tobuf-wrap)
            J(out, "radius-attr-tobuf-L%d-B%d" % (L, nb), "radius.c", {"T": 5, "LEN": L, "NBUF": nb},
              "checked packet in %d received bytes, out buffer %d, any offset/count/type" % (L, nb),
              "radius_pkt_attr_get_data_to_buf: in-bounds reads/writes", unwind=L // 3 + 4, kfs=("KF_RADIUS_ATTR_OFF_END",))


def http_jobs(tier, out):
    q = tier == "quick"
    def hdr_us(L, nl=17):
        f = L // 3 + 2
        return ["http_hdr_val_get_ex.0:%d" % f, "http_hdr_val_get_ex.1:%d" % f, "http_hdr_val_get_count.0:%d" % f,
                "strncasecmp.0:%d" % (nl + 2)]
    for t, nm in ((1, "skip-spwsp"), (2, "skip-spwsp2")):
        for L in ([0, 1, 3] if q else range(0, 7)):
            if L == 0 and kf("KF_HTTP_SKIP_SPWSP_END"):
                continue        # known finding http_skip_spwsp: the empty buffer IS in the defect class
            J(out, "http-%s-L%d" % (nm, L), "http.c", {"T": t, "LEN": L}, "buffer %d bytes" % L,
              nm + ": in-bounds reads, returned span inside the buffer", unwind=L + 3, kfs=("KF_HTTP_SKIP_SPWSP_END",))
    for t, nm in ((3, "wsp2sp"), (4, "ht2sp")):
        for L in ([0, 1, 3, 6] if q else range(0, 10)):
            for ip in (0, 1):
                J(out, "http-%s-L%d-%s" % (nm, L, "inplace" if ip else "copy"), "http.c", {"T": t, "LEN": L, "INPLACE": ip},
                  "buffer %d bytes, %s" % (L, "in place" if ip else "separate output of the same size"),
                  nm + ": in-bounds reads/writes, size", unwind=L + 3)
    for L in ([11, 14, 16] if q else [10, 11, 12, 13, 14, 15, 16, 17, 18, 20, 22, 24]):
        J(out, "http-reqline-L%d" % L, "http.c", {"T": 5, "LEN": L}, "header block %d bytes" % L,
          "http_parse_req_line: every returned span inside the line", unwind=L + 3, kfs=("KF_HTTP_SKIP_SPWSP_END",), cost=20)
    for L in ([13, 14, 17] if q else range(13, 22)):
        J(out, "http-respline-L%d" % L, "http.c", {"T": 6, "LEN": L}, "header block %d bytes" % L,
          "http_parse_resp_line: returned span inside the line", unwind=L + 3)
    for L in ([0, 3, 6] if q else range(0, 10)):
        for nl in ([1] if q else [0, 1, 2]):
            J(out, "http-hdrget-L%d-N%d" % (L, nl), "http.c", {"T": 7, "LEN": L, "NLEN": nl},
              "header block %d bytes, name %d bytes, any offset" % (L, nl),
              "http_hdr_val_get_ex: value span / next offset inside the block", unwind=L + 3, unwindset=hdr_us(L, nl),
              kfs=("KF_HTTP_SKIP_SPWSP_END",), cost=10)
            J(out, "http-hdrcount-L%d-N%d" % (L, nl), "http.c", {"T": 8, "LEN": L, "NLEN": nl},
              "header block %d bytes, name %d bytes" % (L, nl), "http_hdr_val_get_count: terminates, bounded count",
              unwind=L + 3, unwindset=hdr_us(L, nl), cost=20)
            J(out, "http-hdrremove-L%d-N%d" % (L, nl), "http.c", {"T": 9, "LEN": L, "NLEN": nl},
              "header block %d bytes (+ lower-case copy), name %d bytes" % (L, nl),
              "http_hdr_val_remove: in-bounds reads/moves, size shrinks", unwind=L + 3,
              unwindset=["http_hdr_val_remove.0:%d" % (L + 2)], kfs=("KF_HTTP_HDR_REMOVE_END",), cost=10)
    for L in ([0, 2, 5] if q else range(0, 8)):
        for nl in ([1] if q else [0, 1, 2]):
            us = ["http_query_val_get_ex.2:%d" % (L // 2 + 2), "http_query_val_del.2:%d" % (L // 2 + 2), "strncasecmp.0:%d" % (nl + 2)]
            J(out, "http-queryget-L%d-N%d" % (L, nl), "http.c", {"T": 10, "LEN": L, "NLEN": nl},
              "query %d bytes, name %d bytes" % (L, nl), "http_query_val_get_ex: spans inside the query", unwind=L + 3, unwindset=us)
            J(out, "http-querydel-L%d-N%d" % (L, nl), "http.c", {"T": 11, "LEN": L, "NLEN": nl},
              "query %d bytes, name %d bytes" % (L, nl), "http_query_val_del: in-bounds moves, size shrinks", unwind=L + 3,
              unwindset=us, cost=20)
    # chunk sizes: up to 11 bytes of input hold at most 9 hex digits (no pointer wrap possible, and none in CBMC's 52-bit
    # offset arithmetic either); the 2^64 wrap is looked for by dedicated shapes whose size line starts with 15 'f'
    for L in ([0, 1, 4, 8] if q else range(0, 12)):
        J(out, "http-chunked-L%d" % L, "http.c", {"T": 12, "LEN": L}, "body %d bytes" % L,
          "http_data_decode_chunked: in-bounds reads/moves, decoded span inside the buffer", unwind=L + 3,
          unwindset=["http_data_decode_chunked.0:%d" % (L // 4 + 3)])
    if not kf("KF_HTTP_CHUNKED_SIZE_WRAP"):     # known finding http_chunked_size_wrap: these shapes ARE the defect class
        for L in ([18] if q else [18, 19, 21]):
            J(out, "http-chunked-wrap-L%d" % L, "http.c", {"T": 12, "LEN": L, "CHUNK16F": None}, "body %d bytes, size line fffffffffffffff?..." % L,
              "http_data_decode_chunked: chunk size near 2^64 is refused", unwind=L + 3,
              unwindset=["http_data_decode_chunked.0:%d" % (L // 4 + 3)])
    for L in ([0, 1, 3, 5] if q else range(0, 9)):
        for nb in sorted(set([0, 1, L + 1] if q else [0, 1, 2, L, L + 1])):
            J(out, "http-urldecode-L%d-B%d" % (L, nb), "http.c", {"T": 13, "LEN": L, "NBUF": nb},
              "url %d bytes, out buffer %d" % (L, nb), "http_url_decode: in-bounds reads/writes, NUL, length",
              unwind=L + 3, kfs=("KF_HTTP_URL_DECODE_PCT_END",))
    for L in ([0, 4] if q else range(0, 7)):
        J(out, "http-secchk-L%d" % L, "http.c", {"T": 14, "LEN": L}, "header block %d bytes, any method code" % L,
          "http_req_sec_chk: in-bounds reads, terminates", unwind=L + 3, unwindset=hdr_us(L, 17), cost=30)


def media_jobs(tier, out):
    q = tier == "quick"
    for L in ([0, 1, 2, 5, 8] if q else range(0, 12)):
        if L == 1 and kf("KF_SDP_TYPE_GET_END"):
            continue            # known finding sdp_type_get_end: every 1-byte message is in the defect class
        J(out, "sdp-typeget-L%d" % L, "media.c", {"T": 1, "LEN": L}, "message %d bytes, any start line/type" % L,
          "sdp_msg_type_get: in-bounds reads, value span inside the message", unwind=L + 3, kfs=("KF_SDP_TYPE_GET_END",))
        J(out, "sdp-fields-L%d" % L, "media.c", {"T": 3, "LEN": L, "NF": 3}, "line %d bytes, 3 field slots" % L,
          "sdp_msg_feilds_get: field spans inside the buffer", unwind=L + 5)
    for L in ([0, 4, 6] if q else [0, 2, 4, 6, 8, 9]):
        n = L // 2 + 2
        J(out, "sdp-typecount-L%d" % L, "media.c", {"T": 10, "LEN": L}, "message %d bytes, any type" % L,
          "sdp_msg_type_get_count: in-bounds reads, terminates, bounded count", unwind=L + 3,
          unwindset=["sdp_msg_type_get_count.0:%d" % n, "sdp_msg_type_get.0:%d" % n, "sdp_msg_type_get.1:%d" % n],
          kfs=("KF_SDP_TYPE_GET_END",), cost=10)
    for L in ([0, 15] if q else [0, 5, 15]):
        J(out, "sdp-secchk-L%d" % L, "media.c", {"T": 2, "LEN": L}, "message %d bytes" % L,
          "sdp_msg_sec_chk: in-bounds reads, terminates", unwind=L + 3,
          unwindset=["sdp_msg_type_get_count.0:%d" % (L // 4 + 3), "sdp_msg_type_get.0:%d" % (L // 4 + 3),
                     "sdp_msg_type_get.1:%d" % (L // 4 + 3)], kfs=("KF_SDP_TYPE_GET_END",), cost=5)
    for L in ([0, 3, 4, 24, 36, 40] if q else [0, 3, 4, 23, 24, 25, 35, 36, 37, 40, 60]):
        J(out, "sap-L%d" % L, "media.c", {"T": 4, "LEN": L}, "packet %d bytes" % L,
          "sap_packet_is_valid + accessors: pointers inside the packet", unwind=L + 3)
    for L in ([0, 11, 12, 16, 20] if q else [0, 11, 12, 13, 15, 16, 17, 20, 24, 76, 80]):
        J(out, "rtp-L%d" % L, "media.c", {"T": 5, "LEN": L}, "packet %d bytes" % L,
          "rtp_payload_get: offsets inside the packet", unwind=4)
    for L in ([187, 188, 208, 209] if q else [0, 187, 188, 192, 204, 208, 209]):
        J(out, "ts-valid-L%d" % L, "media.c", {"T": 6, "LEN": L}, "packet %d bytes" % L,
          "mpeg2_ts_pkt_is_valid: in-bounds reads", unwind=4, kfs=("KF_TS_AF_LEN",))
    for L, ps in ([(187, 188), (188, 188), (190, 188), (210, 208)] if q else
                  [(0, 188), (187, 188), (188, 188), (189, 188), (190, 188), (192, 192), (204, 204), (208, 208), (210, 208), (250, 188)]):
        J(out, "ts-next-L%d-P%d" % (L, ps), "media.c", {"T": 7, "LEN": L, "PSZ": ps}, "buffer %d bytes, packet size %d, offset <= size" % (L, ps),
          "mpeg2_ts_pkt_get_next: returned packet wholly inside the buffer", unwind=L + 3,
          unwindset=["mpeg2_ts_pkt_get_next.0:3"])
    # mpeg2_ts_pkt_size_detect: sparse shapes (all bytes zero except 6 fully symbolic bytes at each listed candidate position;
    # every one of them may be a sync byte).  Loop bounds: scan loop = one round per possible sync byte; the sequence loops
    # run over the candidates that have 208 bytes behind them.
    for L, cl, w in ([(208, (0, 20), 6)] if q else [(187, (0,), 6), (208, (0, 20), 6), (376, (0, 188), 6), (396, (0, 188), 4)]):
        nsync = w * len(cl)
        fits = len([p + b for p in cl for b in range(w) if p + b + 208 <= L])
        J(out, "ts-sizedetect-L%d" % L, "media.c", {"T": 11, "LEN": L, "CLW": w, "CL_POS": ",".join(str(p) for p in cl)},
          "buffer %d bytes, zero except %d symbolic bytes at %s" % (L, w, "/".join(str(p) for p in cl)),
          "mpeg2_ts_pkt_size_detect: in-bounds reads (incl. the PSI header probe of each candidate), terminates, one of the four sizes",
          unwind=7, unwindset=["harness.0:%d" % (L + 2), "c13_memchr.0:%d" % (L + 2), "mpeg2_ts_pkt_size_detect.0:%d" % (nsync + 2),
                               "mpeg2_ts_pkt_size_detect.1:%d" % (fits + 2), "mpeg2_ts_pkt_size_detect.2:%d" % (fits + 2),
                               "mpeg2_ts_pkt_size_detect.3:5", "mpeg2_ts_pkt_size_detect.4:5"],
          timeout=(400 if q else 1500), cost=200, **({"heavy": True} if L >= 376 else {}))
    for L in ([0, 239, 240, 241] if q else [0, 1, 239, 240, 241, 300]):
        J(out, "dhcp4-hdr-L%d" % L, "media.c", {"T": 8, "LEN": L}, "datagram %d bytes" % L,
          "dhcp4_hdr_check: in-bounds reads, accepted => complete header", unwind=6)


def jobs(tier):
    out = []
    dns_jobs(tier, out)
    radius_jobs(tier, out)
    http_jobs(tier, out)
    media_jobs(tier, out)
    return out
