/* C13 helpers.
 * libc: memchr / memrchr / memmem come from /verif/lib/libc_models.h (CBMC-only bodies, real glibc in the replay);
 * the build configuration (-DHAVE_MEMMEM ... = the real cmake/Linux build) comes from the driver.  The only further
 * libc function the C13 units reach without a CBMC model is strnlen (radius_pkt_attr_get_data_ptr): CBMC-only body
 * below, transcribed from the man page (reads at most maxlen bytes, stops at the first NUL). */
#ifndef C13_ENVSTUBS_H
#define C13_ENVSTUBS_H
#include <string.h>
#include <strings.h>

#ifndef REPLAY
size_t strnlen(const char *s, size_t maxlen) {
	size_t i = 0;
	for (; i < maxlen; i++) {
		if (s[i] == 0) break;
	}
	return (i);
}
#endif

/* span check: pointer `p`, length `n` inside [base, base+size]; one-past-the-end allowed for an empty span, as for
 * any C array */
#define V_IN_SPAN(p, n, base, size) \
	((const uint8_t *)(p) >= (const uint8_t *)(base) && \
	 (size_t)((const uint8_t *)(p) - (const uint8_t *)(base)) <= (size_t)(size) && \
	 (size_t)(n) <= (size_t)(size) - (size_t)((const uint8_t *)(p) - (const uint8_t *)(base)))
#endif
