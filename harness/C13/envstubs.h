/* C13 helpers.
 * libc: memchr / memrchr / memmem / strnlen come from /verif/lib/libc_models.h (CBMC-only bodies, real glibc in the
 * replay); the build configuration (-DHAVE_MEMMEM ... = the real cmake/Linux build) comes from the driver. */
#ifndef C13_ENVSTUBS_H
#define C13_ENVSTUBS_H
#include <string.h>
#include <strings.h>


/* span check: pointer `p`, length `n` inside [base, base+size]; one-past-the-end allowed for an empty span, as for
 * any C array */
#define V_IN_SPAN(p, n, base, size) \
	((const uint8_t *)(p) >= (const uint8_t *)(base) && \
	 (size_t)((const uint8_t *)(p) - (const uint8_t *)(base)) <= (size_t)(size) && \
	 (size_t)(n) <= (size_t)(size) - (size_t)((const uint8_t *)(p) - (const uint8_t *)(base)))
#endif
