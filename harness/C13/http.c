/* C13 / HTTP: line/field scanners and in-place decoders of src/proto/http.c.
 * Shape: LEN = bytes handed to the function (exactly sized heap object, contents symbolic), NLEN = length of the
 * searched name (own exactly sized object), NBUF = output capacity, T = function under test. */
#include "verif.h"
#include <errno.h>
#include "envstubs.h"
#include "proto/http.c"

#ifndef NBUF
#define NBUF 1
#endif
#ifndef NLEN
#define NLEN 1
#endif

struct in_s {
	uint8_t d[LEN ? LEN : 1];
	uint8_t name[NLEN ? NLEN : 1];
	size_t off;
	uint32_t method;
};
#include "verif_in.h"

#define INSIDE(p, n) V_IN_SPAN((p), (n), m, LEN)

void harness(void) {
	V_BEGIN();
	uint8_t *m = v_buf(IN.d, LEN);
	int r;
	(void)r;

#if T == 1	/* skip_spwsp */
	const uint8_t *p = NULL;
	size_t n = 777;
#ifdef KF_HTTP_SKIP_SPWSP_END	/* blocked: nothing but SP/WSP (or nothing at all) in the buffer */
	{ int all = 1; for (size_t i = 0; i < LEN; i++) if (m[i] >= 33) all = 0; V_ASSUME(!all); }
#endif
	r = skip_spwsp(m, LEN, &p, &n);
	V_ASSERT(r == 0, "succeeds");
	V_ASSERT(INSIDE(p, n), "returned span inside the buffer");
	V_ASSERT(p + n == m + LEN, "returned span ends at the buffer end");
	V_ASSERT(n == 0 || p[0] >= 33, "first returned byte is not SP/WSP");
	V_WITNESS("skipped");
#elif T == 2	/* skip_spwsp2 */
	const uint8_t *p = NULL;
	size_t n = 777;
#ifdef KF_HTTP_SKIP_SPWSP_END	/* blocked: nothing but SP/WSP (or nothing at all) in the buffer */
	{ int all = 1; for (size_t i = 0; i < LEN; i++) if (m[i] >= 33) all = 0; V_ASSUME(!all); }
#endif
	r = skip_spwsp2(m, LEN, &p, &n);
	V_ASSERT(r == 0, "succeeds");
	V_ASSERT(INSIDE(p, n), "returned span inside the buffer");
	V_ASSERT(n == 0 || (p[0] >= 33 && p[n - 1] >= 33), "trimmed on both sides");
	V_WITNESS("skipped");
#elif T == 3	/* wsp2sp into a separate buffer of the same size, and in place */
	uint8_t *out = INPLACE ? m : (uint8_t *)v_alloc(LEN);
	size_t n = 777;
	r = wsp2sp(m, LEN, out, &n);
	if (r == 0) {
		V_ASSERT(n <= LEN, "result not longer than the input");
		V_WITNESS("converted");
	} else {
		V_ASSERT(LEN == 0, "EINVAL only for an empty buffer");
		V_WITNESS("rejected");
	}
#elif T == 4	/* ht2sp */
	uint8_t *out = INPLACE ? m : (uint8_t *)v_alloc(LEN);
	size_t n = 777;
	r = ht2sp(m, LEN, out, &n);
	if (r == 0) {
		V_ASSERT(n == LEN, "size unchanged");
		V_WITNESS("converted");
	} else {
		V_ASSERT(LEN == 0, "EINVAL only for an empty buffer");
		V_WITNESS("rejected");
	}
#elif T == 5	/* http_parse_req_line */
	http_req_line_data_t rd;
	memset(&rd, 0, sizeof(rd));
#ifdef KF_HTTP_SKIP_SPWSP_END
	/* skip_spwsp() runs from a SP to the end of the line; it reads the byte behind the line when everything up to
	 * there is SP/WSP.  Behind the line is the CR of CRLF unless the line is the whole buffer: blocked = no CRLF in
	 * the buffer and the last byte is SP/WSP (slightly wider than the defect, see findings/http_skip_spwsp.md) */
	{
		int crlf = 0;
		for (size_t i = 0; i + 1 < LEN; i++) if (m[i] == '\r' && m[i + 1] == '\n') crlf = 1;
		if (LEN != 0) V_ASSUME(crlf || m[LEN - 1] >= 33);
	}
#endif
	r = http_parse_req_line(m, LEN, &rd);
	if (r == 0) {
		V_ASSERT(rd.line_size <= LEN, "line inside the buffer");
		V_ASSERT(rd.method == m && rd.method_size <= rd.line_size, "method span inside the line");
		V_ASSERT(INSIDE(rd.uri, rd.uri_size), "uri span inside the buffer");
		V_ASSERT(rd.uri + rd.uri_size <= m + rd.line_size, "uri span inside the line");
		V_ASSERT(rd.scheme == NULL || (rd.scheme == rd.uri && rd.scheme_size <= rd.uri_size), "scheme span inside the uri");
		V_ASSERT(rd.host == NULL || (rd.host >= rd.uri && V_IN_SPAN(rd.host, rd.host_size, rd.uri, rd.uri_size)),
		    "host span inside the uri");
		V_ASSERT(rd.abs_path == NULL || V_IN_SPAN(rd.abs_path, rd.abs_path_size, rd.uri, rd.uri_size),
		    "abs_path span inside the uri");
		V_ASSERT(rd.query == NULL || V_IN_SPAN(rd.query, rd.query_size, rd.uri, rd.uri_size), "query span inside the uri");
		if (rd.query != NULL) V_WITNESS("request line with query parsed");
		if (rd.scheme != NULL) V_WITNESS("absolute-URI request line parsed");
		V_WITNESS("request line parsed");
	} else {
		V_ASSERT(r == EINVAL || r == EBADMSG, "EINVAL or EBADMSG");
		V_WITNESS("request line rejected");
	}
#elif T == 6	/* http_parse_resp_line */
	http_resp_line_data_t rs;
	memset(&rs, 0, sizeof(rs));
	r = http_parse_resp_line(m, LEN, &rs);
	if (r == 0) {
		V_ASSERT(rs.line_size <= LEN, "line inside the buffer");
		V_ASSERT(rs.reason_phrase == m + 13 && rs.reason_phrase_size + 13 == rs.line_size,
		    "reason phrase span inside the line");
		V_ASSERT(INSIDE(rs.reason_phrase, rs.reason_phrase_size), "reason phrase span inside the buffer");
		V_ASSERT(rs.status_code <= 999, "three digit status");
		V_WITNESS("status line parsed");
	} else {
		V_ASSERT(r == EINVAL || r == EBADMSG, "EINVAL or EBADMSG");
		V_WITNESS("status line rejected");
	}
#elif T == 7	/* http_hdr_val_get_ex */
	uint8_t *name = v_buf(IN.name, NLEN);
	const uint8_t *val = NULL;
	size_t vs = 777, next = 777;
#ifdef KF_HTTP_SKIP_SPWSP_END
	/* skip_spwsp2(value) reads the byte behind the block when the value of the last field is empty / all SP/WSP up to
	 * the end of the block and no field-terminating CRLF follows: blocked = the bytes behind the last ':' .. end are
	 * all SP/WSP and the block does not end in CRLF (slightly wider than the defect) */
	if (LEN != 0) {
		size_t e = LEN;
		while (e > 0 && m[e - 1] < 33) e--;
		int ends_crlf = (LEN >= 2 && m[LEN - 2] == '\r' && m[LEN - 1] == '\n');
		V_ASSUME(!(e > 0 && m[e - 1] == ':' && !ends_crlf));
	}
#endif
	r = http_hdr_val_get_ex(m, LEN, name, NLEN, IN.off, &val, &vs, &next);
	if (r == 0) {
		V_ASSERT(INSIDE(val, vs), "value span inside the header block");
		V_ASSERT(next <= LEN, "next offset inside the header block");
		V_ASSERT((size_t)(val - m) + vs <= next, "value ends before the next offset");
		V_WITNESS("header value found");
	} else {
		V_ASSERT(r == ESPIPE, "ESPIPE when absent");
		V_WITNESS("header value absent");
	}
#elif T == 8	/* http_hdr_val_get_count */
	uint8_t *name = v_buf(IN.name, NLEN);
	size_t c = http_hdr_val_get_count(m, LEN, name, NLEN);
	V_ASSERT(c <= LEN / 3, "count bounded by the number of CRLF-led fields that fit");
	if (c > 0) V_WITNESS("counted >= 1");
	V_WITNESS("counted");
#elif T == 9	/* http_hdr_val_remove */
	uint8_t *name = v_buf(IN.name, NLEN);
	uint8_t *lc = (uint8_t *)v_alloc(LEN);
	size_t ns = LEN, c;	/* in/out style: untouched when the arguments are refused (as in http_hdr_vals_remove) */
	mem_to_lower(lc, m, LEN);
#ifdef KF_HTTP_HDR_REMOVE_END
	/* blocked: the searched name occurs at the very end of the block (the byte behind it is tested for ':') */
	if (LEN >= NLEN && NLEN != 0) V_ASSUME(memcmp(lc + (LEN - NLEN), name, NLEN) != 0);
#endif
	c = http_hdr_val_remove(m, lc, LEN, &ns, name, NLEN);
	if (LEN != 0) V_ASSERT(ns <= LEN, "new size not larger than the old one");
	if (c > 0) V_ASSERT(ns < LEN, "removal shrinks the block");
	if (c > 0) V_WITNESS("header removed");
	V_WITNESS("done");
#elif T == 10	/* http_query_val_get_ex */
	uint8_t *name = v_buf(IN.name, NLEN);
	const uint8_t *vn = NULL, *val = NULL;
	size_t vs = 777;
	r = http_query_val_get_ex(m, LEN, name, NLEN, &vn, &val, &vs);
	if (r == 0) {
		V_ASSERT(INSIDE(vn, NLEN + 1), "name span (with '=') inside the query");
		V_ASSERT(INSIDE(val, vs), "value span inside the query");
		V_ASSERT(val == vn + NLEN + 1, "value follows name and '='");
		V_WITNESS("query value found");
	} else {
		V_ASSERT(r == ESPIPE, "ESPIPE when absent");
		V_WITNESS("query value absent");
	}
#elif T == 11	/* http_query_val_del */
	uint8_t *name = v_buf(IN.name, NLEN);
	size_t ns = 777, c;
	c = http_query_val_del(m, LEN, name, NLEN, &ns);
	V_ASSERT(ns <= LEN, "new size not larger than the old one");
	if (c > 0) V_ASSERT(ns < LEN, "deletion shrinks the query");
	if (c > 0) V_WITNESS("value deleted");
	V_WITNESS("done");
#elif T == 12	/* http_data_decode_chunked */
	uint8_t *dr = NULL;
	size_t ds = 777;
#ifdef CHUNK16F	/* shape: the first chunk-size line starts with 15 'f' digits (sizes near 2^64: pointer wrap) */
	for (size_t i = 0; i < 15 && i < LEN; i++) V_ASSUME(m[i] == 'f' || m[i] == 'F');
#endif
	r = http_data_decode_chunked(m, LEN, &dr, &ds);
	if (r == 0) {
		V_ASSERT(ds <= LEN, "decoded size not larger than the input");
		if (ds != 0) {
			V_ASSERT(INSIDE(dr, ds), "decoded span inside the buffer");
			V_WITNESS("chunks decoded");
		}
		V_WITNESS("decoded");
	} else {
		V_ASSERT(r == EINVAL, "EINVAL");
		V_WITNESS("rejected");
	}
#elif T == 13	/* http_url_decode */
	uint8_t *out = (uint8_t *)v_alloc(NBUF);
	size_t n;
#ifdef KF_HTTP_URL_DECODE_PCT_END
	/* blocked: a '%' that the decoder reaches with fewer than two bytes behind it */
	{
		size_t i = 0, o = 0;
		while (i < LEN && o + 1 < NBUF) {
			if (m[i] == '%') { V_ASSUME(i + 3 <= LEN); i += 3; } else { i++; }
			o++;
		}
	}
#endif
	n = http_url_decode(m, LEN, out, NBUF);
	if (LEN == 0 || NBUF == 0) {
		V_ASSERT(n == 0, "nothing decoded");
		V_WITNESS("empty");
	} else {
		V_ASSERT(n < NBUF && n <= LEN, "decoded length fits buffer and input");
		V_ASSERT(out[n] == 0, "NUL terminated");
		V_WITNESS("decoded");
	}
#elif T == 14	/* http_req_sec_chk */
	r = http_req_sec_chk(m, LEN, IN.method);
	V_ASSERT(r >= 0 && r <= 7, "result code in range");
	if (r == 0) V_WITNESS("accepted");
	else V_WITNESS("rejected");
#else
#error "T"
#endif
}
