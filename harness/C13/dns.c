/* C13 / DNS: name walkers, question / RR extraction, section walk.
 * Shape: LEN = message size (exactly sized heap object, contents symbolic), NBUF = caller's name buffer capacity,
 * T = function under test.  Offsets handed to the functions are symbolic size_t (the functions validate them).
 *
 * Known-finding guards (see findings/): with -DKF_DNS_NAME_END the packets whose name walk leaves the message are
 * excluded through ref_walk_leaves_msg(), a reference walk with the correct bound, used ONLY as the blocking
 * predicate (never as an oracle for results). */
#include "verif.h"
#include <errno.h>
#include "envstubs.h"
#include "proto/dns.h"

#ifndef NBUF
#define NBUF 1
#endif
#ifndef REFSTEPS	/* iteration bound of the blocking-predicate walk = bound given to the real walker's loop */
#define REFSTEPS (LEN + 2)
#endif

struct in_s {
	uint8_t msg[LEN ? LEN : 1];
	size_t off;
	size_t cnt;
	uint8_t qname[4];
	uint8_t qname_len;
};
#include "verif_in.h"

/* Blocking predicate for KF_DNS_NAME_END: does a walk of the name at `off` (labels + compression pointers, as
 * RFC 1035 4.1.4) touch a byte at or beyond msg_size?  (label length byte, label data, or second pointer byte) */
static int ref_walk_leaves_msg(const uint8_t *m, size_t msg_size, size_t off) {
	size_t pos = off, steps;
	for (steps = 0; steps < REFSTEPS; steps++) {
		if (pos >= msg_size) return (1);
		uint8_t l = m[pos];
		if ((l & 0xC0) == 0xC0) {
			if (pos + 1 >= msg_size) return (1);
			size_t np = (((size_t)l & 0x3f) << 8) | m[pos + 1];
			if (np > msg_size || np < 12 || np == pos) return (0); /* rejected by the code */
			pos = np;
			continue;
		}
		if ((l & 0xC0) != 0) return (0);
		if (l == 0) return (0);
		if (pos + 1 + l > msg_size) return (1); /* data beyond the message */
		pos += 1 + (size_t)l;
	}
	return (0);
}

/* Same for the compression-unaware SequenceOfLabelsGetSize(buf, size); *sz = size of the sequence when it ends inside. */
static int ref_seq_leaves_buf2(const uint8_t *b, size_t size, size_t *sz) {
	size_t pos = 0, steps;
	*sz = 0;
	if (size == 0) return (0);	/* refused by the code before any read */
	for (steps = 0; steps < LEN + 2; steps++) {
		if (pos >= size) return (1);
		uint8_t l = b[pos];
		if ((l & 0xC0) == 0xC0) { *sz = pos + 2; return (pos + 1 >= size); }
		if ((l & 0xC0) != 0) { *sz = pos + 1; return (0); }
		if (l == 0) { *sz = pos + 1; return (0); }
		if (pos + 1 + l > size) return (0);  /* rejected by the code (EBADMSG) */
		pos += 1 + (size_t)l;
	}
	return (0);
}
static int ref_seq_leaves_buf(const uint8_t *b, size_t size) {
	size_t sz;
	return (ref_seq_leaves_buf2(b, size, &sz));
}

/* Blocking predicate for the section walk (dns_msg_info_get) under KF_DNS_SEQ_END / KF_DNS_RR_RDLENGTH: does the walk
 * over qd questions and rrs resource records starting at offset 12 meet a record whose label sequence runs into the
 * end of the message, or an RR whose fixed part (type..rdlength, 10 bytes) is not wholly inside the message? */
static int ref_sections_hit_known_defect(const uint8_t *m, size_t msg_size, size_t qd, size_t rrs) {
	size_t off = 12, sz, i;
	for (i = 0; i < (LEN / 5) + 1 && i < qd; i++) {
		if (off == 0 || off > msg_size) return (0);
		if (off == msg_size) return (0);			/* refused: empty label buffer */
		if (ref_seq_leaves_buf2(m + off, msg_size - off, &sz)) return (1);
		if (sz == 0 || off + sz + 4 > msg_size) return (0);	/* rejected by the code */
		off += sz + 4;
	}
	if (i < qd) return (0);
	for (i = 0; i < (LEN / 11) + 1 && i < rrs; i++) {
		if (off >= msg_size) return (0);
		if (ref_seq_leaves_buf2(m + off, msg_size - off, &sz)) return (1);
		if (sz == 0) return (0);
		if (off + sz + 10 > msg_size) return (1);		/* rdlength read outside */
		size_t rd = ((size_t)m[off + sz + 8] << 8) | m[off + sz + 9];
		if (off + sz + 10 + rd > msg_size) return (0);
		off += sz + 10 + rd;
	}
	return (0);
}

void harness(void) {
	V_BEGIN();
	uint8_t *m = v_buf(IN.msg, LEN);
	dns_hdr_p hdr = (dns_hdr_p)m;
	size_t off = IN.off;
	int r;

#if T == 1	/* dns_msg_sequence_of_labels_get_name_len */
	size_t nl = 0;
#ifdef KF_DNS_NAME_END
	if (off >= 12 && off <= LEN && LEN >= 12) V_ASSUME(!ref_walk_leaves_msg(m, LEN, off));
#endif
	r = dns_msg_sequence_of_labels_get_name_len(hdr, LEN, off, &nl);
	V_ASSERT(r == 0 || r == EINVAL || r == EBADMSG || r == EOPNOTSUPP || r == ELOOP, "documented result codes only");
	if (r == 0) {
		V_ASSERT(off >= 12 && off < LEN, "success only for an offset inside the message");
		V_WITNESS("name length computed");
	}
	if (r == ELOOP) V_WITNESS("compression loop detected");
	if (r == EBADMSG) V_WITNESS("bad message");
	if (r == EINVAL) V_WITNESS("bad offset");
#elif T == 2	/* dns_msg_sequence_of_labels2name */
	uint8_t *name = (uint8_t *)v_alloc(NBUF);
	size_t nl = 0;
#ifdef KF_DNS_NAME_END
	if (off >= 12 && off <= LEN && LEN >= 12) V_ASSUME(!ref_walk_leaves_msg(m, LEN, off));
#endif
	r = dns_msg_sequence_of_labels2name(hdr, LEN, off, name, NBUF, &nl);
	V_ASSERT(r == 0 || r == EINVAL || r == EBADMSG || r == EOPNOTSUPP || r == ELOOP || r == EOVERFLOW,
	    "documented result codes only");
	if (r == 0) {
		V_ASSERT(nl < NBUF, "returned name length fits the caller's buffer");
		V_ASSERT(name[nl] == 0, "name is NUL terminated at the returned length");
		V_WITNESS("name expanded");
	}
	if (r == EOVERFLOW) {
		V_ASSERT(nl >= NBUF, "EOVERFLOW reports a length that does not fit");
		V_WITNESS("name buffer too small");
	}
	if (r == ELOOP) V_WITNESS("compression loop detected");
	if (r == EBADMSG) V_WITNESS("bad message");
	if (r == EINVAL) V_WITNESS("bad offset");
#elif T == 3	/* SequenceOfLabelsGetSize on the whole buffer */
	size_t sz = 0;
#ifdef KF_DNS_SEQ_END
	V_ASSUME(!ref_seq_leaves_buf(m, LEN));
#endif
	r = SequenceOfLabelsGetSize(m, LEN, &sz);
	V_ASSERT(r == 0 || r == EINVAL || r == EBADMSG, "documented result codes only");
	if (r == 0) {
		V_ASSERT(sz >= 1 && sz <= LEN, "returned size lies inside the buffer");
		V_WITNESS("size computed");
	} else {
		V_WITNESS("rejected");
	}
#elif T == 4	/* SequenceOfLabelsToDomainName */
	uint8_t *name = (uint8_t *)v_alloc(NBUF);
	size_t nl = 0;
#ifdef KF_DNS_SEQ_END
	V_ASSUME(!ref_seq_leaves_buf(m, LEN));
#endif
#ifdef KF_DNS_SEQ2NAME_ROOT
	if (LEN >= 1) V_ASSUME(m[0] != 0);	/* blocked: the root name (first label is the null label) */
#endif
	r = SequenceOfLabelsToDomainName(m, LEN, name, NBUF, &nl);
	V_ASSERT(r == 0 || r == EINVAL || r == EBADMSG || r == EOPNOTSUPP || r == EOVERFLOW, "documented result codes only");
	if (r == 0) {
		V_ASSERT(nl >= 1 && nl <= LEN, "returned size lies inside the buffer");
		V_WITNESS("name copied");
	} else {
		V_WITNESS("rejected");
	}
#elif T == 5	/* dns_msg_question_get_data */
	V_ASSUME(off >= 12);	/* records live behind the 12-byte header (see jobs.py META: CBMC artefact for offsets < 8) */
	uint8_t *name = (uint8_t *)v_alloc(NBUF);
	size_t nl = NBUF, qs = 0;
	uint16_t qt = 0, qc = 0;
#ifdef KF_DNS_SEQ_END
	if (off != 0 && off < LEN) V_ASSUME(!ref_seq_leaves_buf(m + off, LEN - off));
#endif
#ifdef KF_DNS_NAME_END
	if (off >= 12 && off <= LEN && LEN >= 12) V_ASSUME(!ref_walk_leaves_msg(m, LEN, off));
#endif
	r = dns_msg_question_get_data(hdr, LEN, off, name, &nl, &qt, &qc, &qs);
	if (r == 0) {
		V_ASSERT(off + qs <= LEN && qs >= 5, "question span lies inside the message");
		V_ASSERT(nl < NBUF && name[nl] == 0, "name fits and is terminated");
		V_WITNESS("question extracted");
	} else {
		V_WITNESS("rejected");
	}
#elif T == 6	/* dns_msg_rr_get_data */
	V_ASSUME(off >= 12);	/* records live behind the 12-byte header (see jobs.py META: CBMC artefact for offsets < 8) */
	uint8_t *name = (uint8_t *)v_alloc(NBUF);
	size_t nl = NBUF, rs = 0;
	uint16_t ty = 0, cl = 0, ds = 0;
	uint32_t ttl = 0;
	void *data = NULL;
#ifdef KF_DNS_SEQ_END
	if (off != 0 && off < LEN) V_ASSUME(!ref_seq_leaves_buf(m + off, LEN - off));
#endif
#ifdef KF_DNS_NAME_END
	if (off >= 12 && off <= LEN && LEN >= 12) V_ASSUME(!ref_walk_leaves_msg(m, LEN, off));
#endif
#ifdef KF_DNS_RR_RDLENGTH
	if (off != 0 && off < LEN) {
		size_t sz;
		if (!ref_seq_leaves_buf2(m + off, LEN - off, &sz) && sz != 0) V_ASSUME(off + sz + 10 <= LEN);
	}
#endif
	r = dns_msg_rr_get_data(hdr, LEN, off, name, &nl, &ty, &cl, &ttl, &ds, &data, &rs);
	if (r == 0) {
		V_ASSERT(off + rs <= LEN && rs >= 11, "RR span lies inside the message");
		V_ASSERT(V_IN_SPAN(data, ds, m, LEN), "RDATA pointer and length lie inside the message");
		V_ASSERT(nl < NBUF && name[nl] == 0, "name fits and is terminated");
		V_WITNESS("RR extracted");
	} else {
		V_WITNESS("rejected");
	}
#elif T == 7	/* dns_msg_rr_find */
	V_ASSUME(off >= 12);	/* records live behind the 12-byte header (see jobs.py META: CBMC artefact for offsets < 8) */
	size_t cnt = IN.cnt, cnt0, rs = 0;
	uint16_t ty = 0, cl = 0, ds = 0;
	uint32_t ttl = 0;
	void *data = NULL;
	V_ASSUME(IN.qname_len <= 4);
	V_ASSUME(cnt <= 0xffff * 3);
	cnt0 = cnt;
	/* documented use: offset of the first RR as returned by dns_msg_info_get() of a validated message; here any
	 * offset the function itself accepts */
	r = dns_msg_rr_find(hdr, LEN, &off, &cnt, IN.qname, IN.qname_len, &ty, &cl, &ttl, &ds, &data, &rs);
	V_ASSERT(cnt <= cnt0, "remaining count never grows");
	if (r == 0) {
		V_ASSERT(off + rs <= LEN, "found RR lies inside the message");
		V_ASSERT(V_IN_SPAN(data, ds, m, LEN), "RDATA pointer and length lie inside the message");
		V_WITNESS("RR found");
	} else {
		V_WITNESS("not found / rejected");
	}
#elif T == 8	/* dns_msg_info_get */
	size_t qd = 0, an = 0, ns = 0, ar = 0, rc = 0, ms = 0;
#if defined(KF_DNS_SEQ_END) || defined(KF_DNS_RR_RDLENGTH)
	if (LEN >= 12) V_ASSUME(!ref_sections_hit_known_defect(m, LEN, dns_hdr_qd_get(hdr),
	    (size_t)dns_hdr_an_get(hdr) + dns_hdr_ns_get(hdr) + dns_hdr_ar_get(hdr)));
#endif
	r = dns_msg_info_get(hdr, LEN, &qd, &an, &ns, &ar, &rc, &ms);
	if (r == 0) {
		V_ASSERT(qd == 12 && qd <= an && an <= ns && ns <= ar && ar <= ms, "section offsets are ordered");
		V_ASSERT(ms <= LEN, "real message size lies inside the buffer");
		V_ASSERT(rc == (size_t)dns_hdr_an_get(hdr) + dns_hdr_ns_get(hdr) + dns_hdr_ar_get(hdr), "RR count = header counts");
		if (rc != 0) V_WITNESS("message with RRs accepted");
		if (dns_hdr_qd_get(hdr) != 0) V_WITNESS("message with questions accepted");
		V_WITNESS("message accepted");
	} else {
		V_WITNESS("message rejected");
	}
#elif T == 9	/* dns_msg_validate / dns_msg_size_get wrappers */
#if defined(KF_DNS_SEQ_END) || defined(KF_DNS_RR_RDLENGTH)
	if (LEN >= 12) V_ASSUME(!ref_sections_hit_known_defect(m, LEN, dns_hdr_qd_get(hdr),
	    (size_t)dns_hdr_an_get(hdr) + dns_hdr_ns_get(hdr) + dns_hdr_ar_get(hdr)));
#endif
	r = dns_msg_validate(hdr, LEN);
	size_t ms = dns_msg_size_get(hdr, LEN);
	V_ASSERT(ms <= LEN, "reported size lies inside the buffer");
	if (r == 0) {
		V_ASSERT(ms >= 12, "valid message has a header");
		V_WITNESS("valid");
	} else {
		V_ASSERT(ms == 0, "size 0 for an invalid message");
		V_WITNESS("invalid");
	}
#else
#error "T"
#endif
}
