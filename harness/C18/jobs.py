META = {
    "bounds": "prefix arithmetic: all 2^32 IPv4 words / four symbolic IPv6 words, all prefix lengths 0..65535; text: IPv4 text lengths {7,15}, "
              "IPv6 text lengths {2,3,39,45}, all ports, all addresses, output buffer sizes 0..TLEN+10 (quick: a subset) and 64",
    "outside": "that glibc's inet_ntop emits dotted quad / RFC 5952 and what inet_pton accepts (libc is outside the repository); AF_UNIX paths longer than 40 bytes; text lengths other than the listed ones; "
               "parser behaviour on arbitrary text beyond 'text not produced by the formatter for this family is rejected by the stubbed inet_pton'",
    "assumptions": ["inet_ntop(af,a) = writes a solver-chosen NUL-terminated string of TLEN characters over the family's alphabet, ENOSPC when size < TLEN+1",
                    "inet_pton(af,s) = 1 exactly for the string produced for that family, returning the address; 0 otherwise",
                    "parse.c: inet_pton on arbitrary text = may accept (returning any address) or reject, chosen by the solver per call", "IPv6 text never ends in a single ':' (true of every inet_ntop output)",
                    "malloc never fails in harness allocations"],
    "harness_functions": ["harness", "v_inet_ntop", "v_inet_pton", "ref_u16", "be32", "ref_mask4", "ref_mask6_byte"],
}

def jobs(tier):
    out = []
    for mode, nm in ((0, "ipv4"), (1, "ipv6")):
        out.append({"name": "prefix-%s" % nm, "src": "prefix.c", "defs": {"MODE": mode}, "unwind": 40,
                    "unwindset": ["harness.5:131", "harness.6:18"] if mode == 1 else [],
                    "solver": "cadical", "timeout": 600 if tier == "quick" else 1500,
                    "shape": "all words / all prefix lengths (%s)" % nm,
                    "desc": "len2mask/mask2len inverse; mask2len of any word; truncation and membership == integer arithmetic"})
    for af, tlens in ((4, [7, 15]), (6, [2, 3, 39, 45] if tier == "thorough" else [2, 3, 39])):
        for tl in tlens:
            full = list(range(0, tl + 12)) + [64]
            sizes = full if tier == "thorough" else [0, 1, 2, 3, tl, tl + 1, tl + 2, tl + 3, tl + 8, tl + 9, tl + 10, 64]
            for bs in sorted(set(sizes)):
                out.append({"name": "text-af%d-t%d-bs%d" % (af, tl, bs), "src": "text.c", "defs": {"AF": af, "TLEN": tl, "BS": bs},
                            "unwind": tl + 18, "solver": "cadical", "timeout": 400 if tier == "quick" else 1500,
                            "shape": "AF_INET%s, libc text of %d chars (symbolic), buffer %d bytes, port and address symbolic" % ("6" if af == 6 else "", tl, bs),
                            "desc": "format == conventional text, sizes, no overrun; parse(format(a,port)) == (a,port)"})
    for af, tlens in ((4, [7, 15]), (6, [2, 39])):
        for tl in tlens:
            for bs in (sorted(set([0, 1, tl - 1, tl, tl + 1, tl + 2, tl + 3])) if tier == "quick" else list(range(0, tl + 4))):
                for nl, nt in (((0, 0), (1, 1)) if tier == "quick" else ((0, 0), (1, 0), (0, 1), (1, 1), (2, 2))):
                    if tier == "quick" and (nl, nt) != (0, 0) and bs not in (tl + 1, tl + 2):
                        continue
                    out.append({"name": "addr-af%d-t%d-bs%d-d%d%d" % (af, tl, bs, nl, nt), "src": "text.c",
                                "defs": {"AF": af, "TLEN": tl, "BS": bs, "MODE": 1, "NL": nl, "NT": nt}, "unwind": max(tl + 8, 19), "solver": "cadical",
                                "shape": "AF_INET%s text %d chars, sa_addr_to_str buffer %d, parse with %d leading / %d trailing decoration chars" % ("6" if af == 6 else "", tl, bs, nl, nt),
                                "desc": "sa_addr_to_str text/sizes/no overrun; sa_addr_from_str accepts decorated text, rejects what libc rejects"})
            for pd in ((1, 2) if af == 4 else (1, 2, 3)):
              out.append({"name": "net-af%d-t%d-p%d" % (af, tl, pd), "src": "text.c", "defs": {"AF": af, "TLEN": tl, "BS": 64, "MODE": 2, "PDIG": pd}, "unwind": max(tl + 12, 19),
                        "solver": "cadical", "shape": "addr/len text, addr %d chars, every prefix length with %d decimal digits" % (tl, pd),
                        "desc": "str_net_to_ss parses address and prefix length; default host prefix"})
    for pl in ([2, 13] if tier == "quick" else [1, 2, 5, 13, 40]):
        for bs in sorted(set([0, 1, pl - 1, pl, pl + 1, pl + 2]) if tier == "quick" else set(range(0, pl + 3))):
            if bs < 0:
                continue
            out.append({"name": "unix-p%d-bs%d" % (pl, bs), "src": "unixpath.c", "defs": {"PLEN": pl, "BS": bs}, "unwind": pl + 6, "solver": "cadical",
                        "shape": "AF_UNIX path of %d symbolic bytes, buffer %d bytes" % (pl, bs),
                        "desc": "sa_addr_to_str / sa_addr_port_to_str: text == path or ENOSPC, sizes, no overrun; sa_addr_from_str round trip"})
    for fn, fnn in ((0, "addr"), (1, "addrport")):
        for n in ([1, 3, 111, 112, 113] if tier == "quick" else [1, 2, 3, 4, 8, 110, 111, 112, 113, 114, 116]):
            out.append({"name": "parse-%s-n%d" % (fnn, n), "src": "parse.c", "defs": {"LEN": n, "FN": fn}, "unwind": n + 8, "solver": "cadical",
                        "timeout": 300 if tier == "quick" else 1500,
                        "shape": "arbitrary text of %d bytes (symbolic), inet_pton accepts or rejects per call (symbolic)" % n,
                        "desc": "%s: memory safe incl. the on-stack copy, result is 0 with a known family or EINVAL; over-long address part refused" % ("sa_addr_from_str" if fn == 0 else "sa_addr_port_from_str")})
    return out
