/* C18: AF_UNIX socket addresses: format into buffers of every size around the path length, parse back.
 * (Added after the seeded change C18-unix-addr-to-str-truncation - "returns 0 although strlcpy cut the last character" -
 * was missed because AF_UNIX was outside the claim.)  Shape: PLEN (path length), BS (buffer size). */
#include "verif.h"
#include <errno.h>
#include <sys/types.h>
#include <sys/socket.h>
#include <sys/un.h>
#include <netinet/in.h>
#include <arpa/inet.h>

struct in_s { uint8_t path[PLEN + 1]; };
#include "verif_in.h"

static int v_inet_pton(int af, const char *src, void *dst) { (void)af; (void)src; (void)dst; return (0); }	/* a path is never an IP literal */
#define inet_pton v_inet_pton
#include "net/socket_address.c"
#undef inet_pton

void harness(void) {
	V_BEGIN();
	char path[PLEN + 1];
	for (size_t i = 0; i < PLEN; i++) {
		uint8_t c = IN.path[i];
		V_ASSUME(c != 0 && c != ' ' && c != '\t' && c != '[' && c != ']' && c != ':');
		path[i] = (char)c;
	}
	V_ASSUME(path[0] == '/' || path[0] == '.');
	path[PLEN] = 0;
	struct sockaddr_storage ss;
	memset(&ss, 0, sizeof(ss));
	V_ASSERT(0 == sa_init(&ss, AF_UNIX, path, 0), "sa_init(AF_UNIX, path)");

	char *buf = (char *)v_alloc(BS);
	size_t ret = 7777;
	int r = sa_addr_to_str(&ss, buf, BS, &ret);
#if BS == 0
	V_ASSERT(r == EINVAL, "zero-size buffer refused");
	V_WITNESS("bs0");
#else
	if (r == 0) {
		V_ASSERT(BS > PLEN, "success only if path and NUL fit");
		V_ASSERT(ret == PLEN, "reported length == strlen(path)");
		for (size_t i = 0; i <= PLEN && i < BS; i++) V_ASSERT(buf[i] == path[i], "text == path, NUL terminated");
		struct sockaddr_storage back;
		memset(&back, 0xee, sizeof(back));
		V_ASSERT(0 == sa_addr_from_str(&back, buf, PLEN), "parse(format(unix address)) succeeds");
		V_ASSERT(back.ss_family == AF_UNIX, "family AF_UNIX");
		V_ASSERT(0 == strcmp(((struct sockaddr_un *)&back)->sun_path, path), "path survives the round trip");
		V_WITNESS("formatted");
	} else {
		V_ASSERT(r == ENOSPC, "too small buffer: ENOSPC");
		V_ASSERT(BS <= PLEN, "refused only when path + NUL do not fit");
		V_WITNESS("refused");
	}
	if (BS > PLEN) V_ASSERT(r == 0, "a buffer with room for path and NUL is accepted");
	/* with port formatting entry point (port is meaningless for AF_UNIX): same text */
	{
		char *b2 = (char *)v_alloc(BS);
		size_t ret2 = 7777;
		int r2 = sa_addr_port_to_str(&ss, b2, BS, &ret2);
		V_ASSERT((r2 == 0) == (r == 0), "addr_port_to_str agrees with addr_to_str for AF_UNIX");
		if (r2 == 0) for (size_t i = 0; i <= PLEN && i < BS; i++) V_ASSERT(b2[i] == path[i], "same text");
	}
#endif
	V_WITNESS_MUST("end");
}
