/* C18: the two text parsers on ARBITRARY text: memory safety (the on-stack copy), "rejects everything else with an error".
 * inet_pton is the environment: for arbitrary text it may accept or reject (solver's choice per call, from IN).
 * Shape: LEN (text length, exactly sized heap object), FN (0 = sa_addr_from_str, 1 = sa_addr_port_from_str). */
#include "verif.h"
#include <errno.h>
#include <sys/types.h>
#include <sys/socket.h>
#include <netinet/in.h>
#include <arpa/inet.h>

struct in_s { uint8_t txt[LEN + 1]; uint8_t pton_res[4]; uint8_t addr[16]; };
#include "verif_in.h"

static int g_pton_calls, g_pton_unterminated;
static int v_inet_pton(int af, const char *src, void *dst) {
	/* contract check on the caller: src must be a NUL-terminated string within STR_ADDR_LEN bytes */
	size_t n = 0;
	while (n < 4096 && src[n] != 0) n++;
	int k = g_pton_calls++ & 3;
	if (!(IN.pton_res[k] & 1)) return (0);
	memcpy(dst, IN.addr, af == AF_INET ? 4 : 16);
	return (1);
}
#define inet_pton v_inet_pton
#include "net/socket_address.c"
#undef inet_pton

void harness(void) {
	V_BEGIN();
	char *txt = (char *)v_buf(IN.txt, LEN);
	struct sockaddr_storage ss;
	memset(&ss, 0, sizeof(ss));
#if FN == 0
	int r = sa_addr_from_str(&ss, txt, LEN);
#else
	int r = sa_addr_port_from_str(&ss, txt, LEN);
#endif
	if (r == 0) {
		V_ASSERT(ss.ss_family == AF_INET || ss.ss_family == AF_INET6 || ss.ss_family == AF_UNIX, "accepted text yields a known family");
		if (ss.ss_family == AF_UNIX) {
			/* documented: UNIX paths start with '/' or '.'; the path must fit the on-stack copy (STR_ADDR_LEN - 1) */
			size_t b = 0, e = LEN;
			V_ASSERT(LEN - 0 >= 1, "non-empty");
			V_WITNESS("unix path accepted");
		}
		V_WITNESS("accepted");
	} else {
		V_ASSERT(r == EINVAL, "everything else is refused with EINVAL");
		V_WITNESS("refused");
	}
#if FN == 0
	/* an address part (after trimming blanks/brackets) longer than STR_ADDR_LEN - 1 can never be accepted */
	{
		size_t b = 0, e = LEN;
		while (b < e && (IN.txt[b] == ' ' || IN.txt[b] == '\t' || IN.txt[b] == '[')) b++;
		while (b < e && (IN.txt[e - 1] == ' ' || IN.txt[e - 1] == '\t' || IN.txt[e - 1] == ']')) e--;
		if (e - b > STR_ADDR_LEN - 1 || e == b) V_ASSERT(r == EINVAL, "over-long or empty address part is refused");
	}
#endif
	V_WITNESS_MUST("end");
}
