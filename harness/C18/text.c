/* C18: socket-address text: format / parse round trip, bracket and port placement, buffer sizes.
 * libc's inet_ntop / inet_pton are the environment: replaced by their contract (DESIGN 5.18):
 *   v_inet_ntop writes a solver-chosen NUL-terminated string of TLEN legal characters (ENOSPC if it does not fit),
 *   v_inet_pton succeeds exactly on that string for that family and returns the address it was produced from.
 * Shape: AF (4|6), TLEN (text length), BS (output buffer size). */
#include "verif.h"
#include <errno.h>
#include <sys/types.h>
#include <sys/socket.h>
#include <netinet/in.h>
#include <arpa/inet.h>

struct in_s { uint8_t txt[TLEN + 1]; uint8_t addr[16]; uint16_t port; };
#include "verif_in.h"

static int g_ntop_calls, g_ntop_bad_size;
static const char *v_inet_ntop(int af, const void *src, char *dst, socklen_t size) {
	g_ntop_calls++;
	if (af != (AF == 4 ? AF_INET : AF_INET6)) { errno = EAFNOSUPPORT; return (NULL); }
	if ((size_t)size < TLEN + 1) { errno = ENOSPC; return (NULL); }
	for (size_t i = 0; i < TLEN; i++) dst[i] = (char)IN.txt[i];
	dst[TLEN] = 0;
	return (dst);
}
static int v_inet_pton(int af, const char *src, void *dst) {
	if (af != (AF == 4 ? AF_INET : AF_INET6)) return (0);
	for (size_t i = 0; i < TLEN; i++) if (src[i] != (char)IN.txt[i]) return (0);
	if (src[TLEN] != 0) return (0);
	memcpy(dst, IN.addr, AF == 4 ? 4 : 16);
	return (1);
}
#define inet_ntop v_inet_ntop
#define inet_pton v_inet_pton
#include "net/socket_address.c"
#undef inet_ntop
#undef inet_pton

static size_t ref_u16(uint16_t v, char *out) {	/* canonical decimal */
	char tmp[6]; size_t n = 0;
	do { tmp[n++] = (char)('0' + v % 10); v /= 10; } while (v);
	for (size_t i = 0; i < n; i++) out[i] = tmp[n - 1 - i];
	return (n);
}

void harness(void) {
	V_BEGIN();
	for (size_t i = 0; i < TLEN; i++) {	/* legal characters of the textual forms */
		uint8_t c = IN.txt[i];
#if AF == 4
		V_ASSUME((c >= '0' && c <= '9') || c == '.');
#else
		V_ASSUME((c >= '0' && c <= '9') || (c >= 'a' && c <= 'f') || c == ':' || c == '.');
#endif
	}
#if AF == 6	/* libc never emits an IPv6 text that ends in a single ':' or starts with one */
	V_ASSUME(IN.txt[TLEN - 1] != ':' || IN.txt[TLEN - 2] == ':');
#endif
	struct sockaddr_storage ss;
	memset(&ss, 0, sizeof(ss));
	sa_init(&ss, AF == 4 ? AF_INET : AF_INET6, IN.addr, IN.port);

	/* expected text */
	char exp[TLEN + 16]; size_t en = 0;
	int with_port = (IN.port != 0);
#if AF == 6
	exp[en++] = '[';
#endif
	for (size_t i = 0; i < TLEN; i++) exp[en++] = (char)IN.txt[i];
#if AF == 6
	exp[en++] = ']';
#endif
	if (with_port) { exp[en++] = ':'; en += ref_u16(IN.port, exp + en); }
	exp[en] = 0;

	char *buf = (char *)v_alloc(BS);
	size_t ret = 7777;
	int r = sa_addr_port_to_str(&ss, buf, BS, &ret);
#if BS == 0
	V_ASSERT(r == EINVAL, "zero-size buffer refused");
	V_WITNESS("bs0");
#else
	if (r == 0) {
		V_ASSERT(ret == en, "reported length == strlen of the conventional text");
		V_ASSERT(BS > en, "success only if text and NUL fit");
		for (size_t i = 0; i <= en && i < BS; i++)
			V_ASSERT(buf[i] == exp[i], "text == address (IPv6 in brackets) [:port in canonical decimal]");
		/* parse it back */
		struct sockaddr_storage back;
		memset(&back, 0xee, sizeof(back));
		int r2 = sa_addr_port_from_str(&back, buf, en);
		V_ASSERT(r2 == 0, "parse(format(a)) succeeds");
		V_ASSERT(back.ss_family == ss.ss_family, "family survives the round trip");
		V_ASSERT(sa_port_get(&back) == IN.port, "port survives the round trip");
		V_ASSERT(0 == memcmp(sa_addr_get(&back), IN.addr, AF == 4 ? 4 : 16), "address survives the round trip");
		V_WITNESS("formatted");
	} else {
		V_ASSERT(BS < en + 1 + (with_port ? 0 : 0) + 8, "an error is only reported when the buffer is (nearly) too small");
		V_WITNESS("refused");
	}
	if (BS >= en + 8) V_ASSERT(r == 0, "a buffer with room for text, port and NUL is accepted");
	V_WITNESS_MUST("end");
#endif
}
