/* C18: socket-address text: format / parse round trip, bracket and port placement, buffer sizes.
 * libc's inet_ntop / inet_pton are the environment: replaced by their contract (DESIGN 5.18):
 *   v_inet_ntop writes a solver-chosen NUL-terminated string of TLEN legal characters (ENOSPC if it does not fit),
 *   v_inet_pton succeeds exactly on that string for that family and returns the address it was produced from.
 * Shape: AF (4|6), TLEN (text length), BS (output buffer size). */
#include "verif.h"
#include <errno.h>
#include <sys/types.h>
#include <sys/socket.h>
#include <netinet/in.h>
#include <arpa/inet.h>

struct in_s { uint8_t txt[TLEN + 1]; uint8_t addr[16]; uint16_t port; uint8_t deco[4]; uint16_t preflen; };
#include "verif_in.h"

static int g_ntop_calls, g_ntop_bad_size;
static const char *v_inet_ntop(int af, const void *src, char *dst, socklen_t size) {
	g_ntop_calls++;
	if (af != (AF == 4 ? AF_INET : AF_INET6)) { errno = EAFNOSUPPORT; return (NULL); }
	if ((size_t)size < TLEN + 1) { errno = ENOSPC; return (NULL); }
	for (size_t i = 0; i < TLEN; i++) dst[i] = (char)IN.txt[i];
	dst[TLEN] = 0;
	return (dst);
}
static int v_inet_pton(int af, const char *src, void *dst) {
	if (af != (AF == 4 ? AF_INET : AF_INET6)) return (0);
	for (size_t i = 0; i < TLEN; i++) if (src[i] != (char)IN.txt[i]) return (0);
	if (src[TLEN] != 0) return (0);
	memcpy(dst, IN.addr, AF == 4 ? 4 : 16);
	return (1);
}
#define inet_ntop v_inet_ntop
#define inet_pton v_inet_pton
#include "net/socket_address.c"
#if MODE == 2
#include "net/utils.c"
#endif
#undef inet_ntop
#undef inet_pton
#ifndef MODE
#define MODE 0
#endif

static size_t ref_u16(uint16_t v, char *out) {	/* canonical decimal */
	char tmp[6]; size_t n = 0;
	do { tmp[n++] = (char)('0' + v % 10); v /= 10; } while (v);
	for (size_t i = 0; i < n; i++) out[i] = tmp[n - 1 - i];
	return (n);
}

void harness(void) {
	V_BEGIN();
	for (size_t i = 0; i < TLEN; i++) {	/* legal characters of the textual forms */
		uint8_t c = IN.txt[i];
#if AF == 4
		V_ASSUME((c >= '0' && c <= '9') || c == '.');
#else
		V_ASSUME((c >= '0' && c <= '9') || (c >= 'a' && c <= 'f') || c == ':' || c == '.');
#endif
	}
#if AF == 6	/* libc never emits an IPv6 text that ends in a single ':' or starts with one */
	V_ASSUME(IN.txt[TLEN - 1] != ':' || IN.txt[TLEN - 2] == ':');
#endif
	struct sockaddr_storage ss;
	memset(&ss, 0, sizeof(ss));
	sa_init(&ss, AF == 4 ? AF_INET : AF_INET6, IN.addr, IN.port);

	/* expected text */
	char exp[TLEN + 16]; size_t en = 0;
	int with_port = (IN.port != 0);
#if AF == 6
	exp[en++] = '[';
#endif
	for (size_t i = 0; i < TLEN; i++) exp[en++] = (char)IN.txt[i];
#if AF == 6
	exp[en++] = ']';
#endif
	if (with_port) { exp[en++] = ':'; en += ref_u16(IN.port, exp + en); }
	exp[en] = 0;

#if MODE == 1
	/* address without port: sa_addr_to_str into BS bytes; then sa_addr_from_str of the text wrapped in the documented
	 * decorations: NL leading and NT trailing characters out of {space, tab, '[' / ']'} chosen by the solver */
	{
		char *b1 = (char *)v_alloc(BS);
		size_t ret1 = 7777;
		int r1 = sa_addr_to_str(&ss, b1, BS, &ret1);
#if BS > 0
		if (r1 == 0) {
			V_ASSERT(ret1 == TLEN && BS > TLEN, "addr_to_str: reported length == strlen, fits");
			for (size_t i = 0; i < TLEN; i++) V_ASSERT(b1[i] == (char)IN.txt[i], "addr_to_str: text == libc text");
			V_ASSERT(b1[TLEN] == 0, "addr_to_str: NUL terminated");
			V_WITNESS("addr formatted");
		} else {
			V_ASSERT(BS <= TLEN + 1, "addr_to_str refuses only buffers that cannot hold text + NUL (+1 slack)");
			V_WITNESS("addr refused");
		}
		if (BS >= TLEN + 2) V_ASSERT(r1 == 0, "addr_to_str accepts a buffer with room");
#else
		V_ASSERT(r1 == EINVAL, "zero-size buffer refused");
#endif
		char *in = (char *)v_alloc(TLEN + NL + NT);
		size_t o = 0;
		for (size_t i = 0; i < NL; i++) { uint8_t c = IN.deco[i]; V_ASSUME(c == ' ' || c == '\t' || c == '['); in[o++] = (char)c; }
		for (size_t i = 0; i < TLEN; i++) in[o++] = (char)IN.txt[i];
		for (size_t i = 0; i < NT; i++) { uint8_t c = IN.deco[2 + i]; V_ASSUME(c == ' ' || c == '\t' || c == ']'); in[o++] = (char)c; }
		struct sockaddr_storage back;
		memset(&back, 0xee, sizeof(back));
		int r2 = sa_addr_from_str(&back, in, TLEN + NL + NT);
		V_ASSERT(r2 == 0, "addr_from_str accepts the text with documented decorations");
		V_ASSERT(back.ss_family == ss.ss_family && sa_port_get(&back) == 0, "family set, port zero");
		V_ASSERT(0 == memcmp(sa_addr_get(&back), IN.addr, AF == 4 ? 4 : 16), "address recovered");
		/* a text libc rejects is rejected (unless it is a UNIX path) */
		char *junk = (char *)v_alloc(TLEN);
		for (size_t i = 0; i < TLEN; i++) junk[i] = (char)IN.txt[i];
		junk[TLEN - 1] = (char)(IN.txt[TLEN - 1] == '1' ? '2' : '1');	/* differs from the one accepted text */
		if (junk[0] != '/' && junk[0] != '.')
			V_ASSERT(sa_addr_from_str(&back, junk, TLEN) == EINVAL, "text rejected by libc is rejected");
		V_WITNESS_MUST("end mode 1");
	}
#elif MODE == 2
	{	/* "addr/len": str_net_to_ss */
		char in[TLEN + 8]; size_t o = 0;
		for (size_t i = 0; i < TLEN; i++) in[o++] = (char)IN.txt[i];
		uint16_t pl = IN.preflen;
		V_ASSUME(pl <= (AF == 4 ? 32 : 128));
		/* number of decimal digits of the prefix length is part of the shape (allocation sizes stay concrete) */
		V_ASSUME(PDIG == 1 ? pl < 10 : (PDIG == 2 ? (pl >= 10 && pl < 100) : pl >= 100));
		in[o++] = '/';
		(void)ref_u16(pl, in + o);
		o = TLEN + 1 + PDIG;
		char *inb = (char *)v_buf(in, TLEN + 1 + PDIG);
		struct sockaddr_storage back;
		uint16_t got = 0xeeee;
		int r3 = str_net_to_ss(inb, TLEN + 1 + PDIG, &back, &got);
		V_ASSERT(r3 == 0, "str_net_to_ss accepts addr/len");
		V_ASSERT(got == pl, "prefix length parsed");
		V_ASSERT(0 == memcmp(sa_addr_get(&back), IN.addr, AF == 4 ? 4 : 16), "network address parsed");
		uint16_t got2 = 0xeeee;
		char *inb2 = (char *)v_buf(in, TLEN);
		V_ASSERT(str_net_to_ss(inb2, TLEN, &back, &got2) == 0 && got2 == (AF == 4 ? 32 : 128), "missing /len means host prefix");
		V_WITNESS_MUST("end mode 2");
	}
#else
	char *buf = (char *)v_alloc(BS);
	size_t ret = 7777;
	int r = sa_addr_port_to_str(&ss, buf, BS, &ret);
#if BS == 0
	V_ASSERT(r == EINVAL, "zero-size buffer refused");
	V_WITNESS("bs0");
#else
	if (r == 0) {
		V_ASSERT(ret == en, "reported length == strlen of the conventional text");
		V_ASSERT(BS > en, "success only if text and NUL fit");
		for (size_t i = 0; i <= en && i < BS; i++)
			V_ASSERT(buf[i] == exp[i], "text == address (IPv6 in brackets) [:port in canonical decimal]");
		/* parse it back */
		struct sockaddr_storage back;
		memset(&back, 0xee, sizeof(back));
		int r2 = sa_addr_port_from_str(&back, buf, en);
		V_ASSERT(r2 == 0, "parse(format(a)) succeeds");
		V_ASSERT(back.ss_family == ss.ss_family, "family survives the round trip");
		V_ASSERT(sa_port_get(&back) == IN.port, "port survives the round trip");
		V_ASSERT(0 == memcmp(sa_addr_get(&back), IN.addr, AF == 4 ? 4 : 16), "address survives the round trip");
		V_WITNESS("formatted");
	} else {
		V_ASSERT(BS < en + 1 + (with_port ? 0 : 0) + 8, "an error is only reported when the buffer is (nearly) too small");
		V_WITNESS("refused");
	}
	if (BS >= en + 8) V_ASSERT(r == 0, "a buffer with room for text, port and NUL is accepted");
	V_WITNESS_MUST("end");
#endif
#endif
}
