/* C18: prefix-length / mask conversions, truncation, membership vs integer arithmetic on the address.
 * MODE 0: IPv4 (all 2^32 words, all lengths)   MODE 1: IPv6 (four symbolic words, all lengths). */
#include "verif.h"
#include <errno.h>
#include <sys/types.h>
#include <arpa/inet.h>
#include "net/socket_address.c"	/* utils.c calls into it (sa_copy, sa_addr_from_str) */
#include "net/utils.c"

struct in_s { uint32_t w[4]; uint32_t a[4]; uint16_t len; };
#include "verif_in.h"

/* independent definitions: big-endian integer arithmetic / "bit k is set iff k < len" */
static uint32_t be32(uint32_t net) {	/* value of 4 network-order bytes stored in a uint32_t */
	const uint8_t *p = (const uint8_t *)&net;
	return (((uint32_t)p[0] << 24) | ((uint32_t)p[1] << 16) | ((uint32_t)p[2] << 8) | (uint32_t)p[3]);
}
static uint32_t ref_mask4(unsigned len) { return (len == 0 ? 0u : (0xffffffffu << (32 - len))); }
static uint8_t ref_mask6_byte(unsigned len, unsigned b) {
	int nb = (int)len - 8 * (int)b;
	if (nb <= 0) return (0);
	if (nb >= 8) return (0xff);
	return ((uint8_t)(0xff << (8 - nb)));
}

void harness(void) {
	V_BEGIN();
	unsigned len = IN.len;
#if MODE == 0
	struct in_addr m;
	m.s_addr = 0x12345678;
	int r = inet_len2mask(len, &m);
	if (len > 32) {
		V_ASSERT(r == EINVAL, "prefix length > 32 is refused");
		V_WITNESS("len>32");
	} else {
		V_ASSERT(r == 0, "len2mask succeeds for 0..32");
		V_ASSERT(be32(m.s_addr) == ref_mask4(len), "mask == ~0 << (32-len) in network order");
		V_ASSERT(inet_mask2len(&m) == (int)len, "mask2len(len2mask(len)) == len");
	}
	/* any 32-bit word: result is the length of that mask, or 0 for a non-contiguous word */
	struct in_addr any;
	any.s_addr = IN.w[0];
	int l2 = inet_mask2len(&any);
	uint32_t inv = ~be32(any.s_addr);
	int contiguous = ((inv & (inv + 1)) == 0);
	V_ASSERT(l2 >= 0 && l2 <= 32, "mask2len range");
	if (contiguous) V_ASSERT(ref_mask4((unsigned)l2) == be32(any.s_addr), "mask2len of a contiguous mask is its length");
	else V_ASSERT(l2 == 0, "mask2len of a non-contiguous word is 0");
	/* truncation and membership */
	if (len <= 32) {
		struct sockaddr_storage ss;
		memset(&ss, 0, sizeof(ss));
		ss.ss_family = AF_INET;
		((struct sockaddr_in *)&ss)->sin_addr.s_addr = IN.a[0];
		net_addr_truncate_preflen(&ss, (uint16_t)len);
		uint32_t t = ((struct sockaddr_in *)&ss)->sin_addr.s_addr;
		V_ASSERT(be32(t) == (be32(IN.a[0]) & ref_mask4(len)), "truncate_preflen == addr & mask (integer arithmetic)");
		uint32_t net = IN.w[1], msk = m.s_addr, ad = IN.a[0];
		int in = is_addr_in_net(AF_INET, &net, &msk, &ad);
		V_ASSERT(in == ((be32(ad) & ref_mask4(len)) == be32(net)), "membership == ((addr & mask) == net) on integers");
		uint32_t n2 = IN.a[1], m2 = m.s_addr;
		net_addr_truncate_mask(AF_INET, &n2, &m2);
		V_ASSERT(be32(n2) == (be32(IN.a[1]) & ref_mask4(len)), "truncate_mask == net & mask");
		V_WITNESS("len<=32");
	}
#else
	struct in6_addr m6;
	memset(&m6, 0x5a, sizeof(m6));
	int r = inet6_len2mask(len, &m6);
	if (len > 128) {
		V_ASSERT(r == EINVAL, "prefix length > 128 is refused");
		V_WITNESS("len>128");
	} else {
		V_ASSERT(r == 0, "len2mask succeeds for 0..128");
		for (unsigned b = 0; b < 16; b++)
			V_ASSERT(m6.s6_addr[b] == ref_mask6_byte(len, b), "bit k of the mask is set iff k < len");
		V_ASSERT(inet6_mask2len(&m6) == (int)len, "mask2len(len2mask(len)) == len");
		struct sockaddr_storage ss;
		memset(&ss, 0, sizeof(ss));
		ss.ss_family = AF_INET6;
		memcpy(&((struct sockaddr_in6 *)&ss)->sin6_addr, IN.a, 16);
		net_addr_truncate_preflen(&ss, (uint16_t)len);
		const uint8_t *t = (const uint8_t *)&((struct sockaddr_in6 *)&ss)->sin6_addr;
		const uint8_t *a = (const uint8_t *)IN.a;
		int member_ref = 1;
		for (unsigned b = 0; b < 16; b++) {
			V_ASSERT(t[b] == (a[b] & ref_mask6_byte(len, b)), "truncate_preflen == addr & mask bytewise");
			if ((a[b] & ref_mask6_byte(len, b)) != ((const uint8_t *)IN.w)[b]) member_ref = 0;
		}
		uint32_t net[4], msk[4], ad[4];
		memcpy(net, IN.w, 16); memcpy(msk, &m6, 16); memcpy(ad, IN.a, 16);
		V_ASSERT(is_addr_in_net(AF_INET6, net, msk, ad) == member_ref, "membership == ((addr & mask) == net)");
		V_WITNESS("len<=128");
	}
	/* any four words that form a contiguous mask map back to their length */
	{
		struct in6_addr any;
		memcpy(&any, IN.w, 16);
		int l2 = inet6_mask2len(&any);
		V_ASSERT(l2 >= 0 && l2 <= 128, "mask2len range");
		int is_mask = 1;
		for (unsigned b = 0; b < 16; b++) if (any.s6_addr[b] != ref_mask6_byte((unsigned)l2, b)) is_mask = 0;
		int contiguous = 0;	/* does some length produce exactly these bytes? */
		for (unsigned l = 0; l <= 128; l++) {
			int eq = 1;
			for (unsigned b = 0; b < 16; b++) if (any.s6_addr[b] != ref_mask6_byte(l, b)) eq = 0;
			if (eq) contiguous = 1;
		}
		if (contiguous) V_ASSERT(is_mask, "mask2len of a contiguous mask is its length");
	}
#endif
	V_WITNESS_MUST("end");
}
