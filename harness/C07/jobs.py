ALGS = {
    "md5":    dict(h="common/hash/alg_md5.h", blk=64, defs={}),
    "sha1":   dict(h="common/hash/alg_sha1.h", blk=64, defs={}),
    "sha224": dict(h="common/hash/alg_sha2.h", blk=64, defs={"BITS": 224}),
    "sha256": dict(h="common/hash/alg_sha2.h", blk=64, defs={"BITS": 256}),
    "sha384": dict(h="common/hash/alg_sha2.h", blk=128, defs={"BITS": 384}),
    "sha512": dict(h="common/hash/alg_sha2.h", blk=128, defs={"BITS": 512}),
}
FULL = ("md5", "sha1", "sha256", "sha512")

META = {
    "bounds": "HMAC over MD5, SHA-1, SHA-224/256/384/512 (portable build): hmac_*_init/_update/_final with the message in two "
              "updates, one-shot hmac_*(), *_hmac_get_digest(), *_hmac_get_digest_str(); key bytes, message bytes and "
              "every block-transform result symbolic. quick: key lengths {0, B, B+1} (B = hash block bytes) x message "
              "lengths {0, B-8/B-16 boundary, B+2} for MD5/SHA-1/SHA-256/SHA-512, one shape each for SHA-224/384. thorough: "
              "key lengths {0,1,B-1,B,B+1,B+2,2B+1} x message lengths {0,1,B-9..B-7 resp. B-17..B-15,B-1,B,B+1,B+2} x "
              "splits {0, 1, MLEN/2, MLEN}. Decided: sequence and content of all transform inputs == RFC 2104 "
              "(key hashing iff len(K) > B, zero padding, ipad/opad, inner digest fed to the outer hash), MAC bytes, "
              "hex form, reported sizes, k_opad and the embedded hash context all zero after *_final.",
    "outside": "HMAC over GOST R 34.11-2012 (hmac_gost3411_2012_*): not checked (the Streebog streaming harness was not "
               "finished); SSE/SHA-NI/AVX builds (vendor intrinsics); messages longer than B+2 and more than two updates "
               "(the update logic itself is C04's subject: any length, any chunking); compiler/optimisation matrix.",
    "assumptions": [
        "block transform abstracted: md5_transform / sha1_transform_generic / sha2_transform_block{64,128}_generic are "
        "replaced (macro redirection, common/hash/v_abs.h) by a stub that logs (chaining value, block) and returns an "
        "arbitrary chaining value per call plus arbitrary bytes in the transform's scratch area; C04(a) decides "
        "transform == standard compression function",
        "oracle order: the three hashes of RFC 2104 are expected in the order key-hash, inner, outer (the abstraction "
        "indexes results by call number)",
        "portable build selected exactly as tests/hash/main.c does (#undef __SSE2__ ...)",
        "malloc never fails in harness allocations (v_alloc assumes non-NULL; --no-malloc-may-fail)",
    ],
    "harness_functions": ["harness", "oracle_check", "v_abs_load", "v_abs_step", "v_pad_tail", "v_check_seg", "v_check_log",
                          "v_serialise", "v_alloc", "v_buf", "v_md5_transform_stub", "v_sha1_transform_stub",
                          "v_sha2_transform_stub", "v_sha2_transform_wrong"],
}


def shapes(a, tier):
    B = ALGS[a]["blk"]
    LB = 16 if B == 128 else 8
    if tier == "quick":
        if a not in FULL:
            return [(B + 1, B - LB, 1)]
        return [(0, 0, 0), (B, B - LB, 1), (B + 1, B + 2, B)]
    ks = [0, 1, B - 1, B, B + 1, B + 2, 2 * B + 1] if a in FULL else [0, B, B + 1]
    ms = [0, 1, B - LB - 1, B - LB, B - LB + 1, B - 1, B, B + 1, B + 2] if a in FULL else [0, B - LB, B + 2]
    out = []
    for k in ks:
        for m in ms:
            for s in sorted({0, 1, m // 2, m}):
                if s <= m:
                    out.append((k, m, s))
    return out


def jobs(tier):
    out = []
    for a, A in ALGS.items():
        for k, m, s in shapes(a, tier):
            defs = dict({"ALG_H": '"%s"' % A["h"], "KLEN": k, "MLEN": m, "SPLIT": s}, **A["defs"])
            if s == 0 or tier == "quick":
                defs["ENTRY_POINTS"] = None
            out.append({"name": "hmac-%s-K%d-M%d-S%d" % (a, k, m, s), "src": "hmac.c", "defs": defs, "unwind": 1000,
                        "solver": "cadical", "flags": ["--no-malloc-may-fail"],
                        "shape": "HMAC-%s key %d bytes, message %d bytes as update(%d)+update(%d)%s; key, message and "
                                 "transform results symbolic" % (a, k, m, s, m - s,
                                                                 " + one-shot/get_digest/hex entry points" if "ENTRY_POINTS" in defs else ""),
                        "desc": "transform log == RFC 2104 (key hash iff key > block, ipad/opad blocks, inner digest into outer "
                                "hash), MAC == last state, k_opad and hash context wiped", "cost": 1 + (k + m) // 64})
    return out
