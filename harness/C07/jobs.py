ALGS = {
    "md5":    dict(h="common/hash/alg_md5.h", blk=64, defs={}),
    "sha1":   dict(h="common/hash/alg_sha1.h", blk=64, defs={}),
    "sha224": dict(h="common/hash/alg_sha2.h", blk=64, defs={"BITS": 224}),
    "sha256": dict(h="common/hash/alg_sha2.h", blk=64, defs={"BITS": 256}),
    "sha384": dict(h="common/hash/alg_sha2.h", blk=128, defs={"BITS": 384}),
    "sha512": dict(h="common/hash/alg_sha2.h", blk=128, defs={"BITS": 512}),
}
FULL = ("md5", "sha1", "sha256", "sha512")

META = {
    "bounds": "HMAC over GOST R 34.11-2012 256/512 (ghmac.c; B = 64): the same entry points, oracle RFC 2104 over the RFC 6986 "
              "stage structure with the two compression entry points abstracted; quick (KLEN,MLEN,SPLIT) = 256: (0,0,0),(65,1,1),"
              "(129,64,1); 512: (32,0,0),(64,63,1),(65,65,64); thorough key lengths {0,1,32,64,65,129} x message "
              "lengths {0,1,64,66} x splits {0,1,MLEN}; one-shot/get_digest/hex entry points on the shapes with MLEN <= 1 "
              "(quick: on (0,0,0) of the 256-bit variant only). "
              "HMAC over MD5, SHA-1, SHA-224/256/384/512 (portable build): hmac_*_init/_update/_final with the message in two "
              "updates, one-shot hmac_*(), *_hmac_get_digest(), *_hmac_get_digest_str(); key bytes, message bytes and "
              "every block-transform result symbolic. quick: key lengths {0, B, B+1} (B = hash block bytes) x message "
              "lengths {0, B-8/B-16 boundary, B+2} for MD5/SHA-1/SHA-256/SHA-512, one shape each for SHA-224/384. thorough: "
              "key lengths {0,1,B-1,B,B+1,B+2,2B+1} x message lengths {0,1,B-9..B-7 resp. B-17..B-15,B-1,B,B+1,B+2} x "
              "splits {0, 1, MLEN/2, MLEN}. Decided: sequence and content of all transform inputs == RFC 2104 "
              "(key hashing iff len(K) > B, zero padding, ipad/opad, inner digest fed to the outer hash), MAC bytes, "
              "hex form, reported sizes, k_opad and the embedded hash context all zero after *_final.",
    "outside": "SSE/SHA-NI/AVX builds (vendor intrinsics); messages longer than B+2 and more than two updates "
               "(the update logic itself is C04's subject: any length, any chunking); compiler/optimisation matrix.",
    "assumptions": [
        "block transform abstracted: md5_transform / sha1_transform_generic / sha2_transform_block{64,128}_generic are "
        "replaced (macro redirection, common/hash/v_abs.h) by a stub that logs (chaining value, block) and returns an "
        "arbitrary chaining value per call plus arbitrary bytes in the transform's scratch area; C04(a) decides "
        "transform == standard compression function",
        "Streebog: gost3411_2012_transform_n_generic / _1_generic replaced by logging stubs (common/hash/alg_gost.h); the "
        "transform_n stub keeps N += bits and Sigma += block with a byte-wise reference adder; C04 (gost-xform-*, gost-kernel-*) "
        "decides the real compression code against RFC 6986",
        "oracle order: the three hashes of RFC 2104 are expected in the order key-hash, inner, outer (the abstraction "
        "indexes results by call number)",
        "portable build selected exactly as tests/hash/main.c does (#undef __SSE2__ ...)",
        "malloc never fails in harness allocations (v_alloc assumes non-NULL; --no-malloc-may-fail)",
    ],
    "harness_functions": ["harness", "oracle_check", "v_abs_load", "v_abs_step", "v_pad_tail", "v_check_seg", "v_check_log",
                          "v_serialise", "v_alloc", "v_buf", "v_md5_transform_stub", "v_sha1_transform_stub",
                          "v_sha2_transform_stub", "v_sha2_transform_wrong", "expect_hash", "v_gost_tn_stub", "v_gost_t1_stub",
                          "v_gost_havoc", "v_gost_add512", "v_gost_X", "v_gost_S", "v_gost_P", "v_gost_L", "v_gost_LPS",
                          "v_gost_LPS_tab", "v_gost_g"],
}


def shapes(a, tier):
    B = ALGS[a]["blk"]
    LB = 16 if B == 128 else 8
    if tier == "quick":
        if a not in FULL:
            return [(B + 1, B - LB, 1)]
        return [(0, 0, 0), (B, B - LB, 1), (B + 1, B + 2, B)]
    ks = [0, 1, B - 1, B, B + 1, B + 2, 2 * B + 1] if a in FULL else [0, B, B + 1]
    ms = [0, 1, B - LB - 1, B - LB, B - LB + 1, B - 1, B, B + 1, B + 2] if a in FULL else [0, B - LB, B + 2]
    out = []
    for k in ks:
        for m in ms:
            for s in sorted({0, 1, m // 2, m}):
                if s <= m:
                    out.append((k, m, s))
    return out


def gost_shapes(bits, tier):
    """(KLEN, MLEN, SPLIT); block B = 64 for both digest sizes. Keys > 64 bytes take the key-hashing branch."""
    if tier == "quick":
        if bits == 256:
            return [(0, 0, 0), (65, 1, 1), (129, 64, 1)]
        return [(32, 0, 0), (64, 63, 1), (65, 65, 64)]
    ks = [0, 1, 32, 64, 65, 129]
    ms = [0, 1, 64, 66]
    out = []
    for k in ks:
        for m in ms:
            for sp in sorted({0, 1, m}):
                if sp <= m:
                    out.append((k, m, sp))
    return out


def gost_jobs(tier):
    out = []
    for bits in (256, 512):
        for k, m, sp in gost_shapes(bits, tier):
            defs = {"BITS": bits, "KLEN": k, "MLEN": m, "SPLIT": sp}
            # one-shot / get_digest / hex entry points: three more HMAC runs in the same job (symbolic execution time grows
            # quadratically with the runs per job), so only on small shapes; the incremental interface runs in every job
            if (tier == "quick" and bits == 256 and (k, m, sp) == gost_shapes(bits, tier)[0]) or (tier != "quick" and sp == 0 and m <= 1):
                defs["ENTRY_POINTS"] = None
            out.append({"name": "hmac-gost%d-K%d-M%d-S%d" % (bits, k, m, sp), "src": "ghmac.c", "defs": defs, "unwind": 700,
                        "solver": "cadical", "flags": ["--no-malloc-may-fail"],
                        "shape": "HMAC-Streebog-%d key %d bytes, message %d bytes as update(%d)+update(%d)%s; key, message and "
                                 "all compression results symbolic" % (bits, k, m, sp, m - sp,
                                                                       " + one-shot/get_digest/hex entry points" if "ENTRY_POINTS" in defs else ""),
                        "desc": "compression log == RFC 2104 over RFC 6986 (key hash iff key > 64, zero padding, ipad/opad "
                                "blocks, 0x01 padding, bit counts, N and Sigma re-initialised per hash, inner digest into outer hash), "
                                "MAC == last result, k_opad and hash context wiped",
                        "cost": 6 + (k + m) // 32, "timeout": 400 if tier == "quick" else 1500})
    return out


def jobs(tier):
    out = gost_jobs(tier)
    out.append({"name": "gost-add512w-lemma", "src": "glemma.c", "defs": {}, "unwind": 70, "solver": "cadical",
                "shape": "all 512-bit a, b", "desc": "word-wise 512-bit adder of the Streebog stub/oracle (V_GOST_FAST) == byte-wise "
                "reference adder v_gost_add512"})
    for a, A in ALGS.items():
        for k, m, s in shapes(a, tier):
            defs = dict({"ALG_H": '"%s"' % A["h"], "KLEN": k, "MLEN": m, "SPLIT": s}, **A["defs"])
            if s == 0 or tier == "quick":
                defs["ENTRY_POINTS"] = None
            out.append({"name": "hmac-%s-K%d-M%d-S%d" % (a, k, m, s), "src": "hmac.c", "defs": defs, "unwind": 1000,
                        "solver": "cadical", "flags": ["--no-malloc-may-fail"],
                        "shape": "HMAC-%s key %d bytes, message %d bytes as update(%d)+update(%d)%s; key, message and "
                                 "transform results symbolic" % (a, k, m, s, m - s,
                                                                 " + one-shot/get_digest/hex entry points" if "ENTRY_POINTS" in defs else ""),
                        "desc": "transform log == RFC 2104 (key hash iff key > block, ipad/opad blocks, inner digest into outer "
                                "hash), MAC == last state, k_opad and hash context wiped", "cost": 1 + (k + m) // 64})
    return out
