/* C07: hmac_*_init / _update / _final, the one-shot hmac_*() and the *_hmac_get_digest[_str] wrappers == RFC 2104,
 * over the REAL *_init/_update/_final code with only the block transform abstracted (common/hash/v_abs.h: every
 * transform call logs its chaining value and block and returns an arbitrary new chaining value taken from IN.out[]).
 *
 * RFC 2104 over that abstraction (B = block bytes, H = iterate the transform over pad(.) from the standard IV):
 *     K0  = (len(K) > B ? H(K) : K) zero-padded to B bytes
 *     MAC = H((K0 xor opad) || H((K0 xor ipad) || text))
 * so the expected transform log is: [blocks of pad(K) if len(K) > B]  then  blocks of pad((K0^ipad)||text)  then
 * blocks of pad((K0^opad)||inner digest), every hash started from the IV, chained through IN.out[], and the MAC is the
 * serialisation of the last result. With C04 (transform == standard, streaming == padding rules) this is the RFC's MAC.
 * Also: k_opad (and the whole hmac context) all zero after *_final.
 *
 * Build parameters: ALG_H (+BITS), KLEN, MLEN, SPLIT (message fed as update(SPLIT bytes) + update(rest)). */
#define V_ABSTRACT
#define NKEY	((KLEN) > A_BLK ? V_PADBLOCKS(KLEN) : 0)
#define NIN	V_PADBLOCKS(A_BLK + (MLEN))
#define NOUT	V_PADBLOCKS(A_BLK + A_DIG)
#define V_MAXCALLS (NKEY + NIN + NOUT + 1)
#include "verif.h"
#include ALG_H

struct in_s {
	uint8_t key[KLEN + 1];
	uint8_t msg[MLEN + 1];
	a_word_t out[V_MAXCALLS][A_STW];
	a_havoc_t havoc[V_MAXCALLS][A_HAVOC];
};
#include "verif_in.h"
#include "common/hash/v_oracle.h"

static uint8_t kpad[V_PADBLOCKS(KLEN) * A_BLK];
static uint8_t m1[A_BLK + MLEN + 1], p1[NIN * A_BLK];
static uint8_t m2[A_BLK + A_DIG], p2[NOUT * A_BLK];
static uint8_t want_mac[A_STW * sizeof(a_word_t)];

/* the oracle: fills the expected block sequences from IN and checks the transform log; MAC bytes into want_mac */
static void oracle_check(void) {
	uint8_t k0[A_BLK], ser[A_STW * sizeof(a_word_t)];
	size_t first = 0;

	memset(k0, 0, sizeof(k0));
#if (KLEN) > A_BLK
	v_pad(kpad, sizeof(kpad), IN.key, KLEN);
	v_check_seg(kpad, NKEY, 0, a_iv);
	v_serialise(ser, v_out[NKEY - 1]);
	for (size_t i = 0; i < A_DIG; i++)
		k0[i] = ser[i];
	first = NKEY;
#else
	for (size_t i = 0; i < (KLEN); i++)
		k0[i] = IN.key[i];
#endif
	for (size_t i = 0; i < A_BLK; i++) {
		m1[i] = k0[i] ^ 0x36;
		m2[i] = k0[i] ^ 0x5c;
	}
	for (size_t i = 0; i < (MLEN); i++)
		m1[A_BLK + i] = IN.msg[i];
	v_pad(p1, sizeof(p1), m1, A_BLK + (MLEN));
	v_check_seg(p1, NIN, first, a_iv);
	v_serialise(ser, v_out[first + NIN - 1]);
	for (size_t i = 0; i < A_DIG; i++)
		m2[A_BLK + i] = ser[i];
	v_pad(p2, sizeof(p2), m2, A_BLK + A_DIG);
	v_check_seg(p2, NOUT, first + NIN, a_iv);
	V_ASSERT(v_ncalls == first + NIN + NOUT, "no transform call beyond the three hashes of RFC 2104");
	v_serialise(want_mac, v_out[first + NIN + NOUT - 1]);
}

void harness(void) {
	V_BEGIN();
	{	/* incremental interface */
		a_hctx_t h_obj;
		a_hctx_t *h = &h_obj;
		uint8_t *key = v_buf(IN.key, KLEN);
		uint8_t *c1 = v_buf(IN.msg, SPLIT), *c2 = v_buf(IN.msg + (SPLIT), (MLEN) - (SPLIT));
		uint8_t *mac = (uint8_t *)v_alloc(A_DIG);

		v_abs_load(IN.out, IN.havoc);
		a_hmac_init(key, KLEN, h);
		a_hmac_update(h, c1, SPLIT);
		a_hmac_update(h, c2, (MLEN) - (SPLIT));
		a_hmac_final(h, mac);
		oracle_check();
		for (size_t i = 0; i < A_DIG; i++)
			V_ASSERT(mac[i] == want_mac[i], "MAC == RFC 2104 over the abstract hash");
		for (size_t i = 0; i < A_KOPAD_BYTES; i++)
			V_ASSERT(a_hmac_kopad(h)[i] == 0, "k_opad wiped after final");
		for (size_t i = 0; i < sizeof(h->ctx); i++)
			V_ASSERT(((const uint8_t *)&h->ctx)[i] == 0, "hash context inside the hmac context wiped after final");
		V_WITNESS_MUST("incremental HMAC ran");
	}
#ifdef ENTRY_POINTS
	{	/* one-shot: hmac_*() */
		uint8_t *key = v_buf(IN.key, KLEN), *m = v_buf(IN.msg, MLEN), *mac = (uint8_t *)v_alloc(A_DIG);
		v_abs_load(IN.out, IN.havoc);
		a_hmac(key, KLEN, m, MLEN, mac);
		oracle_check();
		for (size_t i = 0; i < A_DIG; i++)
			V_ASSERT(mac[i] == want_mac[i], "one-shot MAC == RFC 2104 over the abstract hash");
	}
	{	/* *_hmac_get_digest() */
		uint8_t *key = v_buf(IN.key, KLEN), *m = v_buf(IN.msg, MLEN), *mac = (uint8_t *)v_alloc(A_DIG);
		v_abs_load(IN.out, IN.havoc);
		a_hmac_oneshot(key, KLEN, m, MLEN, mac);
		oracle_check();
		for (size_t i = 0; i < A_DIG; i++)
			V_ASSERT(mac[i] == want_mac[i], "get_digest MAC == RFC 2104 over the abstract hash");
	}
	{	/* *_hmac_get_digest_str() */
		uint8_t *key = v_buf(IN.key, KLEN), *m = v_buf(IN.msg, MLEN);
		char *str = (char *)v_alloc(2 * A_DIG + 1);
		v_abs_load(IN.out, IN.havoc);
		a_hmac_str(key, KLEN, m, MLEN, str);
		oracle_check();
		for (size_t i = 0; i < A_DIG; i++) {
			V_ASSERT(str[2 * i] == "0123456789abcdef"[want_mac[i] >> 4], "hex MAC, high nibble");
			V_ASSERT(str[2 * i + 1] == "0123456789abcdef"[want_mac[i] & 15], "hex MAC, low nibble");
		}
		V_ASSERT(str[2 * A_DIG] == 0, "hex MAC NUL terminated");
	}
	V_WITNESS_MUST("one-shot HMAC entry points ran");
#endif
}
