/* C07 for GOST R 34.11-2012 (Streebog): hmac_gost3411_2012_init / _update / _final, hmac_gost3411_2012(),
 * gost3411_2012_hmac_get_digest[_str]() == RFC 2104 (block size B = 64 for both digest sizes, RFC 7836), over the REAL
 * gost3411_2012_init/_update/_final code with only the two compression entry points abstracted
 * (common/hash/alg_gost.h, V_ABSTRACT: transform_n logs (h, N, Sigma, block, bits), sets h to an arbitrary value from
 * IN.out[] and performs N += bits, Sigma += block with the reference adder; transform_1 logs and sets h likewise).
 *
 * Abstract hash H(X), |X| = 64 q + r (RFC 6986 section 8, the same oracle as C04/gstream.c): q+1 calls of transform_n
 * (full blocks with bits = 512, then X[64q..] || 0x01 || 0.. with bits = 8r) followed by transform_1(N = 8|X|) and
 * transform_1(Sigma = sum of the q+1 blocks); first call sees the IV and N = Sigma = 0; H(X) = last result (upper
 * half for the 256-bit variant).
 * RFC 2104:  K0 = (|K| > 64 ? H(K) : K) zero-padded to 64;  MAC = H((K0 ^ opad) || H((K0 ^ ipad) || text)).
 * Expected call log = [H(K) if |K| > 64], H(inner), H(outer) in this order, chained through IN.out[].
 * Also: k_opad and the embedded hash context all zero after *_final; reported sizes.
 *
 * Build parameters: BITS (256|512), KLEN, MLEN, SPLIT, ENTRY_POINTS. */
#define V_ABSTRACT
#define V_GOST_FAST
#define NKEY	((KLEN) > 64 ? V_PADBLOCKS(KLEN) : 0)
#define NIN	V_PADBLOCKS(64 + (MLEN))
#define NOUT	V_PADBLOCKS(64 + (BITS) / 8)
#define V_MAXCALLS (NKEY + NIN + NOUT + 1)
#include "verif.h"
#include "common/hash/alg_gost.h"

struct in_s {
	uint8_t key[KLEN + 1];
	uint8_t msg[MLEN + 1];
	a_word_t out[V_MAXCALLS][A_STW];
	a_havoc_t havoc[V_MAXCALLS][A_HAVOC];
};
#include "verif_in.h"

#define MAXX	((KLEN) > 64 + (MLEN) ? ((KLEN) > 128 ? (KLEN) : 128) : (64 + (MLEN) > 128 ? 64 + (MLEN) : 128))
static uint8_t want_mac[A_DIG];

/* calls [first, first + len/64 + 3) of the log are exactly the abstract hash of x[0..len); digest of it into dg */
static void expect_hash(const uint8_t *x, size_t len, size_t first, uint8_t *dg) {
	static uint8_t padded[(MAXX / 64 + 1) * 64];
	uint64_t n_total[8] = { 0 }, sigma_total[8] = { 0 }, run_n[8] = { 0 }, run_s[8] = { 0 }, b512[8] = { 512 }, mw[8];
	const size_t q = len / 64, r = len % 64;

	V_ASSERT(v_ncalls >= first + q + 3, "q+1 compression calls for the data and two for N and Sigma");
	if (v_ncalls < first + q + 3)
		return;
	for (size_t i = 0; i < (q + 1) * 64; i++)
		padded[i] = (i < len) ? x[i] : (i == len ? 0x01 : 0x00);
	for (size_t k = 0; k <= q; k++) {
		for (size_t i = 0; i < 8; i++)
			mw[i] = v_ld64(padded + 64 * k + 8 * i);
		v_gost_add512w(sigma_total, mw);
	}
	n_total[0] = (uint64_t)len * 8;
	for (size_t k = 0; k < q + 3; k++) {
		const size_t c = first + k;
		for (size_t i = 0; i < 8; i++) {
			const uint64_t w = (k <= q) ? v_ld64(padded + 64 * k + 8 * i) : (k == q + 1 ? n_total[i] : sigma_total[i]);
			V_ASSERT(v_ld64(&v_log_blk[c][8 * i]) == w, "block given to the compression function == block of the RFC 2104 / RFC 6986 input");
			if (k == 0)
				V_ASSERT(v_log_st[c][i] == (uint64_t)A_GOST_IV_BYTE * 0x0101010101010101ull, "each hash starts from the IV");
			else
				V_ASSERT(v_log_st[c][i] == v_out[c - 1][i], "chaining value == result of the previous call");
		}
		if (k <= q) {
			V_ASSERT(v_log_bits[c] == (k < q ? 512 : 8 * r), "bit count: 512 per full block, 8r for the last");
			for (size_t i = 0; i < 8; i++) {
				V_ASSERT(v_log_Nw[c][i] == run_n[i], "N seen == 512 * earlier blocks of THIS hash (re-initialised)");
				V_ASSERT(v_log_Sw[c][i] == run_s[i], "Sigma seen == sum of earlier blocks of THIS hash");
				mw[i] = v_ld64(padded + 64 * k + 8 * i);
			}
			v_gost_add512w(run_n, b512);
			v_gost_add512w(run_s, mw);
		} else
			V_ASSERT(v_log_bits[c] == V_GOST_T1, "N and Sigma are compressed with g_0 (transform_1)");
	}
	for (size_t i = 0; i < A_DIG; i++)
		dg[i] = ((const uint8_t *)v_out[first + q + 2])[64 - A_DIG + i];
}

static void oracle_check(void) {
	static uint8_t m1[64 + MLEN + 1], m2[64 + A_DIG];
	uint8_t k0[64] = { 0 }, d[A_DIG];
	size_t first = 0;

#if (KLEN) > 64
	expect_hash(IN.key, KLEN, 0, d);
	for (size_t i = 0; i < A_DIG; i++)
		k0[i] = d[i];
	first = NKEY;
#else
	for (size_t i = 0; i < (KLEN); i++)
		k0[i] = IN.key[i];
#endif
	for (size_t i = 0; i < 64; i++) {
		m1[i] = k0[i] ^ 0x36;
		m2[i] = k0[i] ^ 0x5c;
	}
	for (size_t i = 0; i < (MLEN); i++)
		m1[64 + i] = IN.msg[i];
	expect_hash(m1, 64 + (MLEN), first, d);
	for (size_t i = 0; i < A_DIG; i++)
		m2[64 + i] = d[i];
	expect_hash(m2, 64 + A_DIG, first + NIN, want_mac);
	V_ASSERT(v_ncalls == first + NIN + NOUT, "no compression call beyond the three hashes of RFC 2104");
}

void harness(void) {
	V_BEGIN();
	{	/* incremental interface */
		a_hctx_t h_obj;
		a_hctx_t *h = &h_obj;
		uint8_t *key = v_buf(IN.key, KLEN);
		uint8_t *c1 = v_buf(IN.msg, SPLIT), *c2 = v_buf(IN.msg + (SPLIT), (MLEN) - (SPLIT));
		uint8_t *mac = (uint8_t *)v_alloc(A_DIG);

		v_abs_load(IN.out, IN.havoc);
		a_hmac_init(key, KLEN, h);
		a_hmac_update(h, c1, SPLIT);
		a_hmac_update(h, c2, (MLEN) - (SPLIT));
		a_hmac_final(h, mac);
		oracle_check();
		for (size_t i = 0; i < A_DIG; i++)
			V_ASSERT(mac[i] == want_mac[i], "MAC == RFC 2104 over the abstract hash");
		for (size_t i = 0; i < A_KOPAD_BYTES; i++)
			V_ASSERT(a_hmac_kopad(h)[i] == 0, "k_opad wiped after final");
		for (size_t i = 0; i < sizeof(h->ctx); i++)
			V_ASSERT(((const uint8_t *)&h->ctx)[i] == 0, "hash context inside the hmac context wiped after final");
		V_WITNESS_MUST("incremental HMAC ran");
	}
#ifdef ENTRY_POINTS
	{	/* hmac_gost3411_2012() */
		uint8_t *key = v_buf(IN.key, KLEN), *m = v_buf(IN.msg, MLEN), *mac = (uint8_t *)v_alloc(A_DIG);
		v_abs_load(IN.out, IN.havoc);
		a_hmac(key, KLEN, m, MLEN, mac);
		oracle_check();
		for (size_t i = 0; i < A_DIG; i++)
			V_ASSERT(mac[i] == want_mac[i], "one-shot MAC == RFC 2104 over the abstract hash");
	}
	{	/* gost3411_2012_hmac_get_digest() */
		uint8_t *key = v_buf(IN.key, KLEN), *m = v_buf(IN.msg, MLEN), *mac = (uint8_t *)v_alloc(A_DIG);
		v_abs_load(IN.out, IN.havoc);
		a_hmac_oneshot(key, KLEN, m, MLEN, mac);
		oracle_check();
		for (size_t i = 0; i < A_DIG; i++)
			V_ASSERT(mac[i] == want_mac[i], "get_digest MAC == RFC 2104 over the abstract hash");
	}
	{	/* gost3411_2012_hmac_get_digest_str() */
		uint8_t *key = v_buf(IN.key, KLEN), *m = v_buf(IN.msg, MLEN);
		char *str = (char *)v_alloc(2 * A_DIG + 1);
		v_abs_load(IN.out, IN.havoc);
		a_hmac_str(key, KLEN, m, MLEN, str);
		oracle_check();
		for (size_t i = 0; i < A_DIG; i++) {
			V_ASSERT(str[2 * i] == "0123456789abcdef"[want_mac[i] >> 4], "hex MAC, high nibble");
			V_ASSERT(str[2 * i + 1] == "0123456789abcdef"[want_mac[i] & 15], "hex MAC, low nibble");
		}
		V_ASSERT(str[2 * A_DIG] == 0, "hex MAC NUL terminated");
	}
	V_WITNESS_MUST("one-shot HMAC entry points ran");
#endif
}
