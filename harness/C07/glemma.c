/* C07 lemma: the word-wise 512-bit adder used by the Streebog stub/oracle of ghmac.c (V_GOST_FAST, alg_gost.h) equals
 * the byte-wise reference adder v_gost_add512 (the one C04 decides the library's adders against) for ALL a, b. */
#define V_ABSTRACT
#define V_GOST_FAST
#define V_MAXCALLS 1
#define BITS 512
#include "verif.h"
#include "common/hash/alg_gost.h"
struct in_s { uint8_t a[64], b[64]; };
#include "verif_in.h"
void harness(void) {
	V_BEGIN();
	uint64_t aw[8], bw[8];
	uint8_t ab[64];
	for (size_t i = 0; i < 8; i++) {
		aw[i] = v_ld64(IN.a + 8 * i);
		bw[i] = v_ld64(IN.b + 8 * i);
	}
	memcpy(ab, IN.a, 64);
	v_gost_add512w(aw, bw);
	v_gost_add512(ab, IN.b);
	for (size_t i = 0; i < 8; i++)
		V_ASSERT(aw[i] == v_ld64(ab + 8 * i), "word-wise a + b mod 2^512 == byte-wise reference");
	V_WITNESS_MUST("lemma evaluated");
}
