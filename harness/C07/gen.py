#!/usr/bin/env python3
"""C07 generator: reference compression functions + IVs from the standards (see common/hash/hashgen.py)."""
import os, sys
sys.path.insert(0, os.path.join(os.path.dirname(os.path.abspath(__file__)), "..", "common", "hash"))
import hashgen
hashgen.main(sys.argv[1])
