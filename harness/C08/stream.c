/* C08 layer (b): ChaCha/XChaCha streaming logic with the block kernel abstracted.
 *
 * The three block kernels are replaced (see gen.py: chacha_stream.h) by one stub that
 *   - requires the alignment the real variant needs (aligned8: src,dst % 8 == 0; aligned4: % 4 == 0),
 *   - requires that constants/key/nonce words and `rounds` are the ones of the first kernel call (S0),
 *   - writes dst[i] = src[i] ^ KS(counter)[i] (or KS(counter)[i] for src == NULL) where KS(counter) word w is the
 *     an ARBITRARY function of the counter (free table IN.ks, see below) -- any interpretation, hence also the real
 *     block function, which kern.c proves equal to the RFC-order reference for every state,
 *   - increments the 64-bit counter in state[12..13] (proved for the real kernels in kern.c).
 * Property: for every key/nonce/initial counter/source, after the calls
 *     dst[i] == src[i] ^ KS(c0 + i/64)[i % 64]   for all i < total,   S0 == set-up(key, nonce) with counter c0.
 *
 * Build parameters (concrete): API 0 = chacha_blocks_transform, 1 = chacha_str_init + NCALLS x chacha_str_data_crypt,
 *   2 = chacha(), 3 = xchacha(), 4 = xchacha_str_init + NCALLS x chacha_str_data_crypt;
 *   L1,L2,L3 chunk lengths (or SYMLEN: symbolic lengths with l1+l2+l3 <= TOTAL); NCALLS; OFFS/OFFD offsets of src/dst in
 *   their 8-aligned heap objects; SRCMODE 0 separate / 1 in place / 2 NULL; KEYSIZE 16|32|128|256; CTRNULL; IVNULL; ROUNDS. */
#include "verif.h"
#include "ref_chacha.h"

struct chacha_context_s;
static void chacha_block_aligned8(struct chacha_context_s *ctx, const uint8_t *src, uint8_t *dst);
static void chacha_block_aligned4(struct chacha_context_s *ctx, const uint8_t *src, uint8_t *dst);
static void chacha_block_unaligneg(struct chacha_context_s *ctx, const uint8_t *src, uint8_t *dst);
#include "chacha_stream.h"
#ifndef C08_STREAM_VIEW
#error "chacha_stream.h must be the generated view"
#endif

#ifndef L2
#define L2 0
#endif
#ifndef L3
#define L3 0
#endif
#ifndef NCALLS
#define NCALLS 3
#endif
#ifndef OFFS
#define OFFS 0
#endif
#ifndef OFFD
#define OFFD 0
#endif
#ifndef IVNULL
#define IVNULL 0
#endif
#ifndef CTRNULL
#define CTRNULL 0
#endif
#ifndef ROUNDS
#define ROUNDS 20
#endif
#ifndef SYMLEN
#define TOTAL (L1 + L2 + L3)
#endif
#define KEYBITS ((KEYSIZE == 32 || KEYSIZE == 256) ? 256 : 128)
#define IS_X (API == 3 || API == 4)

struct in_s {
	uint8_t key[32];
	uint8_t iv[24];
	uint8_t ctr[8];
	uint8_t src[TOTAL + 1];
	uint8_t dst0[OFFD + TOTAL + 1];
	uint32_t junk[16];
	size_t l1, l2, l3;
	uint32_t ks[(TOTAL + 63) / 64 + 1][16];	/* the abstract key stream: one free block per counter offset */
};
#include "verif_in.h"

/* ---- the abstract block function ----
 * KS(counter) for the fixed key/nonce of a run is an arbitrary function of the counter.  Only counters c0 .. c0+NBMAX-1
 * may occur (asserted), they are pairwise distinct mod 2^64, so "arbitrary function" == one free 64-byte block per
 * offset j = counter - c0: the table IN.ks[j][].  (Same device as __CPROVER_uninterpreted_*, but replayable natively and
 * without the quadratic functional-consistency constraints: 320 applications cost 19 M clauses [measured].) */
#define NBMAX ((TOTAL + 63) / 64 + 1)
static uint64_t C0;
#define KSBYTE(j, i) ((uint8_t)(IN.ks[(j)][(i) / 4] >> (8 * ((i) % 4))))

static struct { unsigned calls; uint32_t s0[16]; size_t rounds0; } LOG;

static void stub_block(struct chacha_context_s *ctx, const uint8_t *src, uint8_t *dst, size_t align) {
	V_ASSERT((((size_t)dst) & (align - 1)) == 0, "kernel variant is called only with dst aligned as it requires");
	V_ASSERT(src == NULL || (((size_t)src) & (align - 1)) == 0, "kernel variant is called only with src aligned as it requires");
	if (LOG.calls == 0) {
		for (int k = 0; k < 16; k++) LOG.s0[k] = ctx->state[k];
		LOG.rounds0 = ctx->rounds;
	} else {
		for (int k = 0; k < 16; k++) {
			if (k == 12 || k == 13) continue;
			V_ASSERT(ctx->state[k] == LOG.s0[k], "constants/key/nonce words identical in every kernel call");
		}
		V_ASSERT(ctx->rounds == LOG.rounds0, "rounds identical in every kernel call");
	}
	uint64_t c = ((uint64_t)ctx->state[13] << 32) | ctx->state[12];
	uint64_t j = c - C0;
	V_ASSERT(j < NBMAX - 1, "block kernel is invoked only with counters c0 .. c0 + ceil(total/64) - 1");
	if (j >= NBMAX) j = NBMAX - 1;
	uint8_t blk[64];
	for (size_t i = 0; i < 64; i++) blk[i] = (uint8_t)((src ? src[i] : 0) ^ KSBYTE(j, i));	/* read all, then write: */
	for (size_t i = 0; i < 64; i++) dst[i] = blk[i];						/* in place is fine  */
	c++;
	ctx->state[12] = (uint32_t)c;
	ctx->state[13] = (uint32_t)(c >> 32);
	LOG.calls++;
}
static void chacha_block_aligned8(struct chacha_context_s *ctx, const uint8_t *src, uint8_t *dst) { stub_block(ctx, src, dst, 8); }
static void chacha_block_aligned4(struct chacha_context_s *ctx, const uint8_t *src, uint8_t *dst) { stub_block(ctx, src, dst, 4); }
static void chacha_block_unaligneg(struct chacha_context_s *ctx, const uint8_t *src, uint8_t *dst) { stub_block(ctx, src, dst, 1); }

void harness(void) {
	V_BEGIN();
#ifdef SYMLEN
	size_t l1 = IN.l1, l2 = (NCALLS >= 2) ? IN.l2 : 0, l3 = (NCALLS >= 3) ? IN.l3 : 0;
	V_ASSUME(l1 <= TOTAL && l2 <= TOTAL && l3 <= TOTAL && l1 + l2 + l3 <= TOTAL);
#else
	size_t l1 = L1, l2 = L2, l3 = L3;
#endif
	size_t total = l1 + l2 + l3;
	LOG.calls = 0;

	uint8_t *key = v_buf(IN.key, (KEYBITS == 256) ? 32 : 16);
	uint8_t *iv = IVNULL ? NULL : v_buf(IN.iv, IS_X ? 24 : 8);
	uint8_t *ctr = CTRNULL ? NULL : v_buf(IN.ctr, 8);
	uint64_t c0 = 0;
	for (int i = 0; i < 8 && !CTRNULL; i++) c0 |= (uint64_t)IN.ctr[i] << (8 * i);
	C0 = c0;

	uint8_t *dobj = v_buf(IN.dst0, OFFD + TOTAL);
	uint8_t *dst = dobj + OFFD;
#if SRCMODE == 0
	uint8_t *sobj = (uint8_t *)v_alloc(OFFS + TOTAL);
	memset(sobj, 0xa5, OFFS);
	memcpy(sobj + OFFS, IN.src, TOTAL);
	const uint8_t *src = sobj + OFFS;
#elif SRCMODE == 1
	memcpy(dst, IN.src, TOTAL);
	const uint8_t *src = dst;
#else
	const uint8_t *src = NULL;
#endif
#define SRCAT(o) (src ? src + (o) : NULL)

	uint64_t c_end = 0; size_t ks_len_end = 0; int have_ctx = 0;
#if API == 0
	chacha_context_t ctx;
	memcpy(ctx.x, IN.junk, sizeof(ctx.x));
	chacha_init(&ctx, key, KEYSIZE, ctr, iv, ROUNDS);
	chacha_blocks_transform(&ctx, src, total / 64, dst);
	c_end = ((uint64_t)ctx.state[13] << 32) | ctx.state[12]; have_ctx = 1;
#elif API == 1 || API == 4
	chacha_context_str_t sc;
	memcpy(sc.ks, IN.junk, sizeof(sc.ks));
	sc.ks_len = IN.junk[0];
#if API == 1
	chacha_str_init(&sc, key, KEYSIZE, ctr, iv, ROUNDS);
#else
	xchacha_str_init(&sc, key, KEYSIZE, ctr, iv, ROUNDS);
#endif
	chacha_str_data_crypt(&sc, SRCAT(0), l1, dst);
	if (NCALLS >= 2) chacha_str_data_crypt(&sc, SRCAT(l1), l2, dst + l1);
	if (NCALLS >= 3) chacha_str_data_crypt(&sc, SRCAT(l1 + l2), l3, dst + l1 + l2);
	c_end = ((uint64_t)sc.c.state[13] << 32) | sc.c.state[12]; ks_len_end = sc.ks_len; have_ctx = 2;
#elif API == 2
	chacha(key, KEYSIZE, ctr, iv, ROUNDS, src, total, dst);
#elif API == 3
	xchacha(key, KEYSIZE, ctr, iv, ROUNDS, src, total, dst);
#endif

	/* ---- output ---- */
	for (size_t i = 0; i < TOTAL; i++) {
		if (i < total) {
			uint8_t s = (SRCMODE == 2) ? 0 : IN.src[i];
			V_ASSERT(dst[i] == (uint8_t)(s ^ KSBYTE(i / 64, i % 64)),
			    "output byte i == src[i] ^ KS(counter0 + i/64)[i%64] independent of chunking, alignment, in-place use");
		} else {
			V_ASSERT(dst[i] == IN.dst0[OFFD + i], "bytes after the processed length untouched");
		}
	}
	for (size_t i = 0; i < OFFD; i++)
		V_ASSERT(dobj[i] == IN.dst0[i], "bytes in front of dst untouched");
#if SRCMODE == 0
	for (size_t i = 0; i < TOTAL; i++)
		V_ASSERT(src[i] == IN.src[i], "separate source not modified");
#endif
	/* ---- bookkeeping ---- */
	size_t nblk = (total + 63) / 64;
	V_ASSERT(LOG.calls == nblk, "exactly ceil(total/64) key stream blocks are generated");
	if (have_ctx) V_ASSERT(c_end == (uint64_t)(c0 + nblk), "block counter advanced by the number of blocks generated (mod 2^64)");
	if (have_ctx == 2) V_ASSERT(ks_len_end == (64 - total % 64) % 64, "saved key stream length == unused tail of the last block");
	/* ---- set-up seen by the first kernel call ---- */
	if (total != 0) {
		uint32_t exp[16];
		uint8_t sub[32];
		V_ASSERT(LOG.rounds0 == ROUNDS, "rounds passed to the kernel");
		V_ASSERT(LOG.s0[12] == (uint32_t)c0 && LOG.s0[13] == (uint32_t)(c0 >> 32), "first block uses the initial counter");
#if IS_X
		static const uint8_t zero32[32] = { 0 };
		ref_chacha_setup(exp, zero32, 256, c0, IVNULL ? NULL : IN.iv + 16);	/* sigma | . | counter | iv[16..23] */
		ref_hchacha(IN.key, KEYBITS, IVNULL ? NULL : IN.iv, ROUNDS, sub);
		for (int k = 0; k < 4; k++) V_ASSERT(LOG.s0[k] == exp[k], "xchacha: 256-bit-key constants");
		for (int k = 14; k < 16; k++) V_ASSERT(LOG.s0[k] == exp[k], "xchacha: nonce words = iv[16..23]");
		for (int k = 0; k < 8; k++)
			V_ASSERT(LOG.s0[4 + k] == ref_load32le(sub + 4 * k), "KS: xchacha sub-key words == reference HChaCha(key, iv[0..15])");
#else
		ref_chacha_setup(exp, IN.key, KEYBITS, c0, IVNULL ? NULL : IN.iv);
		for (int k = 0; k < 16; k++) V_ASSERT(LOG.s0[k] == exp[k], "chacha: state == constants | key | counter | nonce");
#endif
		V_WITNESS("some data processed");
	} else {
		V_WITNESS("zero total length");
	}
	if (total != 0 && (uint32_t)c0 == 0xffffffffu && total > 64) V_WITNESS("counter crosses 2^32 inside the message");
	if (total != 0 && c0 == UINT64_MAX && total > 64) V_WITNESS("counter wraps 2^64 inside the message");
}
