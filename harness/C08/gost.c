/* C08 layer (c): GOST 28147-89.  Compiled twice by jobs.py: expanded tables (default) and -DGOST28147_USE_SMALL_TABLES;
 * both builds are held to the same reference, hence agree with each other.
 * Build parameters (concrete):
 *   G   0 = gost28147_init(_be): argument checks, key words, S-box expansion == rol11(S) slices, rows are permutations
 *       1 = gost28147_block32(ctx, x) == nibble-wise f of the standard, all 2^32 x
 *       2 = gost28147_block_encrypt / _decrypt / gost28147_mac_block == 32/32/16-round cycles of the standard, and
 *           decrypt(encrypt(x)) == x, encrypt(decrypt(x)) == x; all keys, all blocks
 *       (3 = byte-buffer functions: gostbuf.c)
 *       4 = published vectors (GOST R 34.12-2015 A.2 / RFC 8891) against reference and library (concrete)
 *   SB  index into the S-box sets defined by gost28147.h (gen.py: gost_sboxes.h)
 * In G=2 the reference's round function is the library's gost28147_block32 (proved == the standard's f in G=1 for every
 * x and S-box set); assertions "TL:" are term-level equalities for cvc5, everything else goes to the SAT back end. */
#include "verif.h"
#include <errno.h>
#include <stdio.h>
#include "crypto/cipher/gost28147.h"
#include "gost_sboxes.h"

static gost28147_context_t CTX;
#if G == 2
#define REF_GOST_F(x) gost28147_block32(&CTX, (x))
#else
#define REF_GOST_F(x) ref_gost_f(SBOX, (x))
#endif
#include "ref_gost.h"

#ifndef SB
#define SB 0
#endif
static const uint8_t *const SBOXES[GOST_SBOX_COUNT] = GOST_SBOX_LIST;
#define SBOX (SBOXES[SB])

struct in_s {
	uint8_t key[32];
	uint32_t x, n1, n2, m1, m2;
	uint32_t junk[2];
};
#include "verif_in.h"

static void key_words(uint32_t k[8], int be) {
	for (int i = 0; i < 8; i++) k[i] = be ? ref_ld32be(IN.key + 4 * i) : ref_ld32le(IN.key + 4 * i);
}

#if G == 0	/* ------------------------------------------------------------------ init */
void harness(void) {
	V_BEGIN();
	uint8_t *key = v_buf(IN.key, 32);
	uint32_t k[8];
	V_ASSERT(gost28147_init(NULL, 32, SBOX, &CTX) == EINVAL, "NULL key refused");
	V_ASSERT(gost28147_init(key, 32, NULL, &CTX) == EINVAL, "NULL sbox refused");
	V_ASSERT(gost28147_init(key, 32, SBOX, NULL) == EINVAL, "NULL ctx refused");
	V_ASSERT(gost28147_init(key, 31, SBOX, &CTX) == EINVAL && gost28147_init(key, 0, SBOX, &CTX) == EINVAL &&
	    gost28147_init(key, 33, SBOX, &CTX) == EINVAL, "key size other than 32 bytes / 256 bits refused");
	CTX.mac[0] = IN.junk[0]; CTX.mac[1] = IN.junk[1];
#ifdef INIT_BE
	V_ASSERT(gost28147_init_be(key, (SB & 1) ? 256 : 32, SBOX, &CTX) == 0, "init_be succeeds");
	key_words(k, 1);
#else
	V_ASSERT(gost28147_init(key, (SB & 1) ? 256 : 32, SBOX, &CTX) == 0, "init succeeds");
	key_words(k, 0);
#endif
	for (int i = 0; i < 8; i++)
		V_ASSERT(CTX.key[i] == k[i], "key words K0..K7 = 4-byte groups of the key (little endian; big endian for _be)");
	V_ASSERT(CTX.mac[0] == 0 && CTX.mac[1] == 0, "MAC accumulator starts at zero");
	for (int r = 0; r < 8; r++) {
		unsigned seen = 0;
		for (int c = 0; c < 16; c++) {
			V_ASSERT(SBOX[16 * r + c] < 16, "S-box entries are 4-bit values");
			seen |= 1u << SBOX[16 * r + c];
		}
		V_ASSERT(seen == 0xffffu, "every S-box row is a permutation of 0..15");
	}
#ifndef GOST28147_USE_SMALL_TABLES
	for (uint32_t b = 0; b < 256; b++)
		for (int s = 0; s < 4; s++)
		{	/* slice of the standard's f contributed by byte s of the argument: the two nibbles 2s, 2s+1 substituted,
			 * put back in place, rotated by 11; f(x) is the XOR (= OR) of the four slices (checked in G=1) */
			uint32_t y = ((uint32_t)SBOX[16 * (2 * s) + (b & 15u)] | ((uint32_t)SBOX[16 * (2 * s + 1) + (b >> 4)] << 4)) << (8 * s);
			V_ASSERT(CTX.sboxx[s][b] == ((y << 11) | (y >> 21)),
			    "expanded table s, entry b == rol11 of the substituted nibbles 2s,2s+1 of b at byte position s");
		}
#else
	V_ASSERT(CTX.sbox == SBOX, "small-table build keeps the S-box pointer");
#endif
	V_WITNESS_MUST("init checked");
}

#elif G == 1	/* ------------------------------------------------------------------ round function */
void harness(void) {
	V_BEGIN();
	V_ASSERT(gost28147_init(IN.key, 32, SBOX, &CTX) == 0, "init succeeds");
	V_ASSERT(gost28147_block32(&CTX, IN.x) == ref_gost_f(SBOX, IN.x),
	    "gost28147_block32(x) == rol11(S7(x>>28)..S0(x&15)) for every 32-bit x");
	V_WITNESS_MUST("round function evaluated");
}

#elif G == 2	/* ------------------------------------------------------------------ block cycles */
void harness(void) {
	V_BEGIN();
	V_ASSERT(gost28147_init(IN.key, 32, SBOX, &CTX) == 0, "init succeeds");
	uint32_t k[8];
	key_words(k, 0);
	uint32_t e1, e2, d1, d2, r1, r2;

	gost28147_block_encrypt(&CTX, IN.n1, IN.n2, &e1, &e2);
	r1 = IN.n1; r2 = IN.n2;
	REF_GOST_CYCLE(k, ref_gost_order_enc, 32, 1, r1, r2);
	V_ASSERT(e1 == r1 && e2 == r2, "TL: block_encrypt == 32-round cycle, key order K0..K7 x3 then K7..K0, last round keeps N1");

	gost28147_block_decrypt(&CTX, IN.n1, IN.n2, &d1, &d2);
	r1 = IN.n1; r2 = IN.n2;
	REF_GOST_CYCLE(k, ref_gost_order_dec, 32, 1, r1, r2);
	V_ASSERT(d1 == r1 && d2 == r2, "TL: block_decrypt == 32-round cycle, key order K0..K7 then K7..K0 x3");

	gost28147_block_decrypt(&CTX, e1, e2, &r1, &r2);
	V_ASSERT(r1 == IN.n1 && r2 == IN.n2, "TL: decrypt(encrypt(x)) == x");
	gost28147_block_encrypt(&CTX, d1, d2, &r1, &r2);
	V_ASSERT(r1 == IN.n1 && r2 == IN.n2, "TL: encrypt(decrypt(x)) == x");

	CTX.mac[0] = IN.m1; CTX.mac[1] = IN.m2;
	gost28147_mac_block(&CTX, IN.n1, IN.n2);
	r1 = IN.m1 ^ IN.n1; r2 = IN.m2 ^ IN.n2;
	REF_GOST_CYCLE(k, ref_gost_order_enc, 16, 0, r1, r2);
	V_ASSERT(CTX.mac[0] == r1 && CTX.mac[1] == r2, "TL: mac_block == first 16 rounds of the encryption cycle on (mac ^ block)");
	for (int i = 0; i < 8; i++)
		V_ASSERT(CTX.key[i] == k[i], "key schedule not modified");
	V_WITNESS_MUST("block cycles evaluated");
}

#else		/* ------------------------------------------------------------------ published vectors (concrete) */
void harness(void) {
	V_BEGIN();
	static const uint8_t mkey[32] = { 0xff,0xee,0xdd,0xcc,0xbb,0xaa,0x99,0x88,0x77,0x66,0x55,0x44,0x33,0x22,0x11,0x00,
		0xf0,0xf1,0xf2,0xf3,0xf4,0xf5,0xf6,0xf7,0xf8,0xf9,0xfa,0xfb,0xfc,0xfd,0xfe,0xff };
	static const uint8_t pt[8] = { 0xfe,0xdc,0xba,0x98,0x76,0x54,0x32,0x10 };
	static const uint8_t ct[8] = { 0x4e,0xe9,0x01,0xe5,0xc2,0xd8,0xca,0x3d };
	/* the vectors are for S-box set id-tc26-gost-28147-param-Z, which must be the last table of the header */
	const uint8_t *z = id_tc26_gost_28147_param_z_sbox;
#undef REF_GOST_F
#define REF_GOST_F(x) ref_gost_f(z, (x))
	V_ASSERT(ref_gost_t(z, 0xfdb97531u) == 0x2a196f34u && ref_gost_t(z, 0x2a196f34u) == 0xebd9f03au &&
	    ref_gost_t(z, 0xebd9f03au) == 0xb039bb3du && ref_gost_t(z, 0xb039bb3du) == 0x68695433u, "reference t(): GOST R 34.12-2015 A.2.1");
	V_ASSERT(ref_gost_f(z, 0x87654321u + 0xfedcba98u) == 0xfdcbc20cu && ref_gost_f(z, 0xfdcbc20cu + 0x87654321u) == 0x7e791a4bu,
	    "reference g[k](a): GOST R 34.12-2015 A.2.2");
	uint32_t k[8], n1 = ref_ld32be(pt + 4), n2 = ref_ld32be(pt);
	for (int i = 0; i < 8; i++) k[i] = ref_ld32be(mkey + 4 * i);
	REF_GOST_CYCLE(k, ref_gost_order_enc, 32, 1, n1, n2);
	V_ASSERT(n2 == 0x4ee901e5u && n1 == 0xc2d8ca3du, "reference encryption cycle: GOST R 34.12-2015 A.2.4 / RFC 8891");
	REF_GOST_CYCLE(k, ref_gost_order_dec, 32, 1, n1, n2);
	V_ASSERT(n2 == 0xfedcba98u && n1 == 0x76543210u, "reference decryption cycle: A.2.5");
	/* library, concrete */
	uint8_t out[8], back[8];
	V_ASSERT(gost28147_init_be(mkey, 32, z, &CTX) == 0, "init_be");
	gost28147_blocks_encrypt_be(&CTX, pt, 1, out);
	gost28147_blocks_decrypt_be(&CTX, ct, 1, back);
	for (int i = 0; i < 8; i++) {
		V_ASSERT(out[i] == ct[i], "library blocks_encrypt_be reproduces the published ciphertext");
		V_ASSERT(back[i] == pt[i], "library blocks_decrypt_be reproduces the published plaintext");
	}
	V_WITNESS_MUST("vectors evaluated");
}
#endif
