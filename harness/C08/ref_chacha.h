/* C08 reference for ChaCha (original 64-bit counter / 64-bit nonce layout, D. J. Bernstein 2008) with the
 * quarter round, the column/diagonal schedule and the feed-forward written exactly in the order of RFC 8439
 * sections 2.1, 2.2 and 2.3 (the operations are NOT re-associated: a solver proves agreement with the
 * library only when both sides keep the RFC's evaluation order).  HChaCha per draft-irtf-cfrg-xchacha-03
 * section 2.2.  Nothing from /repo is used in this file. */
#ifndef C08_REF_CHACHA_H
#define C08_REF_CHACHA_H
#include <stdint.h>
#include <stddef.h>

#define REF_ROTL32(v, n) ((uint32_t)(((uint32_t)(v) << (n)) | ((uint32_t)(v) >> (32 - (n)))))

/* RFC 8439 2.1:  a += b; d ^= a; d <<<= 16;  c += d; b ^= c; b <<<= 12;
 *                a += b; d ^= a; d <<<= 8;   c += d; b ^= c; b <<<= 7;  */
#define REF_QR(a, b, c, d) do {							\
	a += b; d ^= a; d = REF_ROTL32(d, 16);					\
	c += d; b ^= c; b = REF_ROTL32(b, 12);					\
	a += b; d ^= a; d = REF_ROTL32(d, 8);					\
	c += d; b ^= c; b = REF_ROTL32(b, 7);					\
} while (0)

/* RFC 8439 2.3: inner_block = 4 column rounds then 4 diagonal rounds. */
static inline void ref_chacha_rounds(uint32_t x[16], unsigned rounds) {
	for (unsigned i = 0; i < rounds; i += 2) {
		REF_QR(x[0], x[4], x[8], x[12]);
		REF_QR(x[1], x[5], x[9], x[13]);
		REF_QR(x[2], x[6], x[10], x[14]);
		REF_QR(x[3], x[7], x[11], x[15]);
		REF_QR(x[0], x[5], x[10], x[15]);
		REF_QR(x[1], x[6], x[11], x[12]);
		REF_QR(x[2], x[7], x[8], x[13]);
		REF_QR(x[3], x[4], x[9], x[14]);
	}
}

static inline void ref_store32le(uint8_t *p, uint32_t v) {
	p[0] = (uint8_t)v; p[1] = (uint8_t)(v >> 8); p[2] = (uint8_t)(v >> 16); p[3] = (uint8_t)(v >> 24);
}
static inline uint32_t ref_load32le(const uint8_t *p) {
	return ((uint32_t)p[0] | ((uint32_t)p[1] << 8) | ((uint32_t)p[2] << 16) | ((uint32_t)p[3] << 24));
}

/* key stream block = serialize_le(rounds(state) + state) */
static inline void ref_chacha_block_words(const uint32_t st[16], unsigned rounds, uint32_t x[16]) {
	for (int i = 0; i < 16; i++) x[i] = st[i];
	ref_chacha_rounds(x, rounds);
	for (int i = 0; i < 16; i++) x[i] += st[i];
}
static inline void ref_chacha_block(const uint32_t st[16], unsigned rounds, uint8_t out[64]) {
	uint32_t x[16];
	ref_chacha_block_words(st, rounds, x);
	for (int i = 0; i < 16; i++) ref_store32le(out + 4 * i, x[i]);
}

/* "expand 32-byte k" / "expand 16-byte k"; a 128-bit key is used twice (Bernstein, "ChaCha, a variant of
 * Salsa20", and Salsa20 specification section 4). keybits in {128, 256}. */
static inline void ref_chacha_key(uint32_t st[16], const uint8_t *key, unsigned keybits) {
	static const uint8_t sigma[16] = { 'e','x','p','a','n','d',' ','3','2','-','b','y','t','e',' ','k' };
	static const uint8_t tau[16]   = { 'e','x','p','a','n','d',' ','1','6','-','b','y','t','e',' ','k' };
	const uint8_t *c = (keybits == 256) ? sigma : tau;
	for (int i = 0; i < 4; i++) st[i] = ref_load32le(c + 4 * i);
	for (int i = 0; i < 4; i++) st[4 + i] = ref_load32le(key + 4 * i);
	for (int i = 0; i < 4; i++) st[8 + i] = ref_load32le(key + ((keybits == 256) ? 16 : 0) + 4 * i);
}
static inline void ref_chacha_setup(uint32_t st[16], const uint8_t *key, unsigned keybits, uint64_t counter,
    const uint8_t *nonce8 /* NULL = zero */) {
	ref_chacha_key(st, key, keybits);
	st[12] = (uint32_t)counter;
	st[13] = (uint32_t)(counter >> 32);
	st[14] = nonce8 ? ref_load32le(nonce8) : 0;
	st[15] = nonce8 ? ref_load32le(nonce8 + 4) : 0;
}

/* HChaCha: state = const | key | nonce16 ; rounds ; output words 0..3 and 12..15, no feed-forward. */
static inline void ref_hchacha(const uint8_t *key, unsigned keybits, const uint8_t *nonce16 /* NULL = zero */,
    unsigned rounds, uint8_t out[32]) {
	uint32_t x[16];
	ref_chacha_key(x, key, keybits);
	for (int i = 0; i < 4; i++) x[12 + i] = nonce16 ? ref_load32le(nonce16 + 4 * i) : 0;
	ref_chacha_rounds(x, rounds);
	for (int i = 0; i < 4; i++) ref_store32le(out + 4 * i, x[i]);
	for (int i = 0; i < 4; i++) ref_store32le(out + 16 + 4 * i, x[12 + i]);
}
#endif
