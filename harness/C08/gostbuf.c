/* C08 layer (c), byte-buffer functions of GOST 28147-89 with the 64-bit block functions abstracted.
 *
 * gost28147_blocks_encrypt/_decrypt[_be], gost28147_blocks_mac[_be], gost28147_init[_be], gost28147_final[_be] are the
 * real code (gen.py: gost_blocks.h = gost28147.h with the three block-function *definitions* renamed).  Their callees
 *   gost28147_block_encrypt(ctx, n1, n2, &o1, &o2)  -> (o1,o2) = E(n1,n2)
 *   gost28147_block_decrypt(ctx, n1, n2, &o1, &o2)  -> (o1,o2) = D(n1,n2)
 *   gost28147_mac_block(ctx, n1, n2)                -> mac = M(mac[0]^n1, mac[1]^n2)
 * are stubs over UNINTERPRETED functions E, D, M (any interpretation, hence also the real 32/32/16-round cycles under
 * the run's key, which gost.c G=2 proves equal to the standard's cycles for all keys and blocks).  The stubs also require
 * that they get the harness context with the key schedule K0..K7 the standard prescribes.
 * Property: the buffer functions are ECB / chained-MAC over the block functions with the standard's byte order
 * (GOST 28147-89 / RFC 5830: N1 = bytes 0..3 little endian, N2 = bytes 4..7; GOST R 34.12-2015 for _be: block = a1||a0
 * big endian, a0 is the N1 half), for every alignment of src/dst, in place or not.
 * Build parameters: FN 0 encrypt, 1 decrypt, 2 encrypt_be, 3 decrypt_be, 4 mac, 5 mac_be; NBLK; OFFS/OFFD; SRCMODE
 * (0 separate, 1 in place); MACSZ (FN 4/5); SB. */
#include "verif.h"
#include <errno.h>
#include <stdio.h>
struct gost28147_context_s;
static void gost28147_mac_block(struct gost28147_context_s *ctx, uint32_t n1, uint32_t n2);
static void gost28147_block_encrypt(struct gost28147_context_s *ctx, uint32_t n1, uint32_t n2, uint32_t *d1, uint32_t *d2);
static void gost28147_block_decrypt(struct gost28147_context_s *ctx, uint32_t n1, uint32_t n2, uint32_t *d1, uint32_t *d2);
#include "gost_blocks.h"
#ifndef C08_GOST_BLOCKS_VIEW
#error "gost_blocks.h must be the generated view"
#endif
#include "gost_sboxes.h"
#include "ref_gost.h"

#ifndef SB
#define SB 0
#endif
#ifndef OFFS
#define OFFS 0
#endif
#ifndef OFFD
#define OFFD 0
#endif
#ifndef NBLK
#define NBLK 1
#endif
#ifndef MACSZ
#define MACSZ 8
#endif
#ifndef SRCMODE
#define SRCMODE 0
#endif
static const uint8_t *const SBOXES[GOST_SBOX_COUNT] = GOST_SBOX_LIST;
#define SBOX (SBOXES[SB])
#define IS_BE (FN == 2 || FN == 3 || FN == 5)

struct in_s {
	uint8_t key[32];
	uint8_t src[8 * NBLK];
	uint8_t dst0[OFFD + 8 * NBLK + 1];
	uint8_t mac0[MACSZ + 1];
};
#include "verif_in.h"

static gost28147_context_t CTX;
static uint32_t KW[8];
static unsigned CALLS;

#ifdef REPLAY
static uint64_t mix(uint64_t salt, uint32_t a, uint32_t b) {
	uint64_t z = (((uint64_t)b << 32) | a) + salt;
	z = (z ^ (z >> 30)) * 0xbf58476d1ce4e5b9ull; z = (z ^ (z >> 27)) * 0x94d049bb133111ebull;
	return (z ^ (z >> 31));
}
#define UF_E(a, b) mix(0x1111, (a), (b))
#define UF_D(a, b) mix(0x2222, (a), (b))
#define UF_M(a, b) mix(0x3333, (a), (b))
#else
uint64_t __CPROVER_uninterpreted_gost_e(uint32_t, uint32_t);
uint64_t __CPROVER_uninterpreted_gost_d(uint32_t, uint32_t);
uint64_t __CPROVER_uninterpreted_gost_m(uint32_t, uint32_t);
#define UF_E(a, b) __CPROVER_uninterpreted_gost_e((a), (b))
#define UF_D(a, b) __CPROVER_uninterpreted_gost_d((a), (b))
#define UF_M(a, b) __CPROVER_uninterpreted_gost_m((a), (b))
#endif

static void stub_check(struct gost28147_context_s *ctx) {
	V_ASSERT(ctx == &CTX, "block function gets the caller's context");
	for (int i = 0; i < 8; i++)
		V_ASSERT(ctx->key[i] == KW[i], "block function sees key words K0..K7 of the standard (LE groups; BE groups for _be)");
	CALLS++;
}
static void gost28147_block_encrypt(struct gost28147_context_s *ctx, uint32_t n1, uint32_t n2, uint32_t *d1, uint32_t *d2) {
	stub_check(ctx);
	uint64_t r = UF_E(n1, n2);
	*d1 = (uint32_t)r; *d2 = (uint32_t)(r >> 32);
}
static void gost28147_block_decrypt(struct gost28147_context_s *ctx, uint32_t n1, uint32_t n2, uint32_t *d1, uint32_t *d2) {
	stub_check(ctx);
	uint64_t r = UF_D(n1, n2);
	*d1 = (uint32_t)r; *d2 = (uint32_t)(r >> 32);
}
static void gost28147_mac_block(struct gost28147_context_s *ctx, uint32_t n1, uint32_t n2) {
	stub_check(ctx);
	uint64_t r = UF_M(ctx->mac[0] ^ n1, ctx->mac[1] ^ n2);
	ctx->mac[0] = (uint32_t)r; ctx->mac[1] = (uint32_t)(r >> 32);
}

static void load_block(const uint8_t *p, uint32_t *n1, uint32_t *n2) {
	if (IS_BE) { *n1 = ref_ld32be(p + 4); *n2 = ref_ld32be(p); }	/* Magma: a = a1 || a0, a0 is the N1 half */
	else { *n1 = ref_ld32le(p); *n2 = ref_ld32le(p + 4); }
}
static void store_block(uint8_t *p, uint32_t n1, uint32_t n2) {
	if (IS_BE) { ref_st32be(p, n2); ref_st32be(p + 4, n1); }
	else { ref_st32le(p, n1); ref_st32le(p + 4, n2); }
}

void harness(void) {
	V_BEGIN();
	int rc = IS_BE ? gost28147_init_be(IN.key, 32, SBOX, &CTX) : gost28147_init(IN.key, 32, SBOX, &CTX);
	V_ASSERT(rc == 0, "init succeeds");
	for (int i = 0; i < 8; i++) KW[i] = IS_BE ? ref_ld32be(IN.key + 4 * i) : ref_ld32le(IN.key + 4 * i);
	CALLS = 0;
	uint8_t *dobj = v_buf(IN.dst0, OFFD + 8 * NBLK);
	uint8_t *dst = dobj + OFFD;
#if SRCMODE == 0
	uint8_t *sobj = (uint8_t *)v_alloc(OFFS + 8 * NBLK);
	memset(sobj, 0x3c, OFFS);
	memcpy(sobj + OFFS, IN.src, 8 * NBLK);
	const uint8_t *src = sobj + OFFS;
#else
	memcpy(dst, IN.src, 8 * NBLK);
	const uint8_t *src = dst;
#endif
	int unaligned = ((SRCMODE == 0 ? OFFS : OFFD) % 4) != 0 || (FN < 4 && (OFFD % 4) != 0);
	(void)unaligned;

#if FN < 4
	if (FN == 0) gost28147_blocks_encrypt(&CTX, src, NBLK, dst);
	if (FN == 1) gost28147_blocks_decrypt(&CTX, src, NBLK, dst);
	if (FN == 2) gost28147_blocks_encrypt_be(&CTX, src, NBLK, dst);
	if (FN == 3) gost28147_blocks_decrypt_be(&CTX, src, NBLK, dst);
	for (int b = 0; b < NBLK; b++) {
		uint32_t n1, n2;
		uint8_t exp[8];
		load_block(IN.src + 8 * b, &n1, &n2);
		uint64_t r = (FN == 0 || FN == 2) ? UF_E(n1, n2) : UF_D(n1, n2);
		store_block(exp, (uint32_t)r, (uint32_t)(r >> 32));
#ifdef KF_GOST_DECRYPT_UNALIGNED
		/* known finding: the byte-wise (unaligned) branches of gost28147_blocks_decrypt and _decrypt_be carry each
		 * other's load code; only the value claim of exactly those shapes is excluded, all other checks stay. */
		if ((FN == 1 || FN == 3) && unaligned) continue;
#endif
		for (int i = 0; i < 8; i++)
			V_ASSERT(dst[8 * b + i] == exp[i],
			    "output block b == store(cycle(load(input block b))) in the standard's byte order, for every alignment");
	}
	for (int i = 0; i < OFFD; i++)
		V_ASSERT(dobj[i] == IN.dst0[i], "bytes in front of dst untouched");
#if SRCMODE == 0
	for (int i = 0; i < 8 * NBLK; i++)
		V_ASSERT(src[i] == IN.src[i], "separate source not modified");
#endif
	V_ASSERT(CTX.mac[0] == 0 && CTX.mac[1] == 0, "encryption/decryption does not touch the MAC accumulator");
	V_ASSERT(CALLS == NBLK, "one block-function call per block");
#else
	if (FN == 4) gost28147_blocks_mac(&CTX, src, NBLK);
	else gost28147_blocks_mac_be(&CTX, src, NBLK);
	uint32_t m1 = 0, m2 = 0;
	for (int b = 0; b < NBLK; b++) {
		uint32_t n1, n2;
		load_block(IN.src + 8 * b, &n1, &n2);
		uint64_t r = UF_M(m1 ^ n1, m2 ^ n2);
		m1 = (uint32_t)r; m2 = (uint32_t)(r >> 32);
	}
	V_ASSERT(CTX.mac[0] == m1 && CTX.mac[1] == m2, "MAC accumulator == 16-round cycles chained over the blocks, starting from zero");
	V_ASSERT(CALLS == NBLK, "one block-function call per block");
	for (int i = 0; i < 8 * NBLK; i++)
		V_ASSERT(src[i] == IN.src[i], "source not modified");
	uint8_t *mac = v_buf(IN.mac0, MACSZ);
	if (FN == 4) gost28147_final(&CTX, mac, MACSZ);
	else gost28147_final_be(&CTX, mac, MACSZ);
	uint8_t full[8];
	if (FN == 4) { ref_st32le(full, m1); ref_st32le(full + 4, m2); }	/* RFC 5830 / de-facto: bytes of N1 then N2 */
	else { ref_st32be(full, m1); ref_st32be(full + 4, m2); }		/* library convention: each word byte-swapped */
	for (int i = 0; i < MACSZ; i++)
		V_ASSERT(mac[i] == (i < 8 ? full[i] : 0), "final: MAC bytes = leading mac_size bytes of N1|N2, zero padded beyond 8");
	const uint8_t *cb = (const uint8_t *)&CTX;
	for (size_t i = 0; i < sizeof(CTX); i++)
		V_ASSERT(cb[i] == 0, "final zeroises the context");
#endif
	V_WITNESS_MUST("buffers processed");
}
