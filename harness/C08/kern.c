/* C08 layer (a): ChaCha block kernels, HChaCha, key/counter/nonce set-up, counter increment.
 * Build parameters (all concrete):
 *   MODE     0 = block kernel, 1 = hchacha, 2 = set-up functions, 3 = anchor of the reference on published vectors
 *   ROUNDS   8 | 12 | 20
 *   VARIANT  8 = chacha_block_aligned8, 4 = chacha_block_aligned4, 0 = chacha_block_unaligneg        (MODE 0)
 *   SRCMODE  0 = separate source buffer, 1 = in place (src == dst), 2 = src == NULL (raw key stream)  (MODE 0)
 *   OFFS/OFFD  byte offset of src / dst inside their (8-aligned) heap objects                         (MODE 0)
 *   KEYSIZE  value passed as key_size: 16 | 32 | 128 | 256                                            (MODE 1, 2)
 *   IVNULL / CTRNULL  pass NULL for iv / counter                                                      (MODE 1, 2)
 * Oracle: ref_chacha.h (RFC 8439 order).  All 16 state words, the temp area x[], the source block and the
 * previous content of dst are symbolic. */
#include "verif.h"
#include "crypto/cipher/chacha.h"
#include "ref_chacha.h"

#ifndef MODE
#define MODE 0
#endif
#ifndef OFFS
#define OFFS 0
#endif
#ifndef OFFD
#define OFFD 0
#endif
#ifndef IVNULL
#define IVNULL 0
#endif
#ifndef CTRNULL
#define CTRNULL 0
#endif
#define KEYBITS ((KEYSIZE == 32 || KEYSIZE == 256) ? 256 : 128)

struct in_s {
	uint32_t state[16];
	uint32_t x[16];
	uint8_t src[64];
	uint8_t dst0[OFFD + 64];
	uint8_t key[32];
	uint8_t iv[24];
	uint8_t ctr[8];
	uint64_t ctr64;
};
#include "verif_in.h"

#if MODE == 0
#if VARIANT == 8
#define KERNEL chacha_block_aligned8
#elif VARIANT == 4
#define KERNEL chacha_block_aligned4
#else
#define KERNEL chacha_block_unaligneg
#endif

void harness(void) {
	V_BEGIN();
	chacha_context_t ctx;
	memcpy(ctx.state, IN.state, sizeof(ctx.state));
	memcpy(ctx.x, IN.x, sizeof(ctx.x));
	ctx.rounds = ROUNDS;

	/* reference key stream words: rounds(state) + state, RFC 8439 2.3 */
	uint32_t ksw[16];
	ref_chacha_block_words(IN.state, ROUNDS, ksw);
	uint64_t c0 = ((uint64_t)IN.state[13] << 32) | IN.state[12];

	uint8_t *dobj = v_buf(IN.dst0, OFFD + 64);
	uint8_t *dst = dobj + OFFD;
#if SRCMODE == 0
	uint8_t *sobj = (uint8_t *)v_alloc(OFFS + 64);
	memset(sobj, 0x5a, OFFS);
	memcpy(sobj + OFFS, IN.src, 64);
	const uint8_t *src = sobj + OFFS;
#elif SRCMODE == 1
	memcpy(dst, IN.src, 64);
	const uint8_t *src = dst;
#else
	const uint8_t *src = NULL;
#endif

	KERNEL(&ctx, src, dst);

	/* The claim "dst == src ^ reference key stream" is decided as the conjunction of two obligations about this
	 * one call, each for all inputs (jobs.py gives them to different back ends):
	 *  KS:  the key stream block the kernel leaves in ctx->x[] equals the reference (term-level: cvc5),
	 *  XOR: dst == src ^ little-endian bytes of that ctx->x[] (bit-level, no rounds to reason about: SAT). */
	for (int i = 0; i < 16; i++)
		V_ASSERT(ctx.x[i] == ksw[i], "KS: key stream words in ctx->x == rounds(state)+state of the RFC-order reference");
	uint8_t ks[64];
	for (int i = 0; i < 16; i++) ref_store32le(ks + 4 * i, ctx.x[i]);
	for (int i = 0; i < 64; i++) {
#if SRCMODE == 2
		V_ASSERT(dst[i] == ks[i], "XOR: src==NULL: dst is the little-endian key stream block");
#else
		V_ASSERT(dst[i] == (uint8_t)(IN.src[i] ^ ks[i]), "XOR: dst == src xor little-endian key stream block");
#endif
	}
	for (int i = 0; i < OFFD; i++)
		V_ASSERT(dobj[i] == IN.dst0[i], "bytes in front of dst untouched");
#if SRCMODE == 0
	for (int i = 0; i < 64; i++)
		V_ASSERT(src[i] == IN.src[i], "separate source not modified");
#endif
	for (int i = 0; i < 16; i++) {
		if (i == 12 || i == 13) continue;
		V_ASSERT(ctx.state[i] == IN.state[i], "constants, key and nonce words unchanged");
	}
	uint64_t c1 = ((uint64_t)ctx.state[13] << 32) | ctx.state[12];
	V_ASSERT(c1 == (uint64_t)(c0 + 1), "64-bit block counter state[12..13] incremented by one with carry");
	V_ASSERT(ctx.rounds == ROUNDS, "rounds unchanged");
	if (IN.state[12] == 0xffffffffu && IN.state[13] == 5) V_WITNESS("counter at 2^32-1 carries into the high word");
	if (c0 == UINT64_MAX) V_WITNESS("counter at 2^64-1 wraps to 0");
	V_WITNESS_MUST("block produced");
}

#elif MODE == 1	/* ------------------------------------------------------------------ hchacha */
void harness(void) {
	V_BEGIN();
	uint8_t *key = v_buf(IN.key, (KEYBITS == 256) ? 32 : 16);
	uint8_t *iv = IVNULL ? NULL : v_buf(IN.iv, 16);
	uint8_t *dst = (uint8_t *)v_alloc(32);
	uint8_t ref[32];

	hchacha(key, KEYSIZE, iv, ROUNDS, dst);
	ref_hchacha(IN.key, KEYBITS, IVNULL ? NULL : IN.iv, ROUNDS, ref);
	for (int i = 0; i < 32; i++)
		V_ASSERT(dst[i] == ref[i], "KS: hchacha output == reference HChaCha (words 0..3, 12..15 after the rounds, no feed-forward)");
	for (int i = 0; i < ((KEYBITS == 256) ? 32 : 16); i++)
		V_ASSERT(key[i] == IN.key[i], "key not modified");
	V_WITNESS_MUST("hchacha done");
}

#elif MODE == 2	/* ------------------------------------------------------------------ set-up */
void harness(void) {
	V_BEGIN();
	uint8_t *key = v_buf(IN.key, (KEYBITS == 256) ? 32 : 16);
	uint8_t *iv = IVNULL ? NULL : v_buf(IN.iv, 8);
	uint8_t *ctr = CTRNULL ? NULL : v_buf(IN.ctr, 8);
	uint64_t c0 = 0;
	for (int i = 0; i < 8 && !CTRNULL; i++) c0 |= (uint64_t)IN.ctr[i] << (8 * i);
	uint32_t ref[16];
	ref_chacha_setup(ref, IN.key, KEYBITS, c0, IVNULL ? NULL : IN.iv);

	chacha_context_t ctx;
	memcpy(ctx.state, IN.state, sizeof(ctx.state));	/* arbitrary previous content */
	chacha_init(&ctx, key, KEYSIZE, ctr, iv, ROUNDS);
	for (int i = 0; i < 16; i++)
		V_ASSERT(ctx.state[i] == ref[i], "chacha_init state == constants | key | counter | nonce layout");
	V_ASSERT(ctx.rounds == ROUNDS, "rounds stored");
	V_ASSERT(chacha_counter_get_u64(&ctx) == c0, "counter_get_u64 returns the counter given as 8 little-endian bytes");

	chacha_counter_set_u64(&ctx, IN.ctr64);
	V_ASSERT(ctx.state[12] == (uint32_t)IN.ctr64 && ctx.state[13] == (uint32_t)(IN.ctr64 >> 32),
	    "counter_set_u64 stores low/high words");
	V_ASSERT(chacha_counter_get_u64(&ctx) == IN.ctr64, "counter_get_u64(counter_set_u64(c)) == c");
	for (int i = 0; i < 16; i++) {
		if (i == 12 || i == 13) continue;
		V_ASSERT(ctx.state[i] == ref[i], "counter_set_u64 leaves the other words alone");
	}

	chacha_context_str_t sc;
	sc.ks_len = 13;
	chacha_str_init(&sc, key, KEYSIZE, ctr, iv, ROUNDS);
	for (int i = 0; i < 16; i++)
		V_ASSERT(sc.c.state[i] == ref[i], "chacha_str_init state");
	V_ASSERT(sc.ks_len == 0 && sc.c.rounds == ROUNDS, "chacha_str_init: no saved key stream");

	chacha_final(&ctx);
	const uint8_t *cb = (const uint8_t *)&ctx;
	for (size_t i = 0; i < sizeof(ctx); i++)
		V_ASSERT(cb[i] == 0, "chacha_final zeroises the context");
	chacha_str_final(&sc);
	cb = (const uint8_t *)&sc;
	for (size_t i = 0; i < sizeof(sc); i++)
		V_ASSERT(cb[i] == 0, "chacha_str_final zeroises the context");
	V_WITNESS_MUST("set-up done");
}

#else	/* ------------------------------------------------------------------ anchor (concrete) */
/* Published vectors pin the *reference* (and, through the other jobs, the library):
 * draft-strombergson-chacha-test-vectors-01 TC1 (all-zero key and IV), first key stream block bytes 0..15,
 * and draft-irtf-cfrg-xchacha-03 section 2.2.1 (HChaCha20). */
static const uint8_t tc1_k128_r8[16]  = { 0xe2,0x8a,0x5f,0xa4,0xa6,0x7f,0x8c,0x5d,0xef,0xed,0x3e,0x6f,0xb7,0x30,0x34,0x86 };
static const uint8_t tc1_k128_r12[16] = { 0xe1,0x04,0x7b,0xa9,0x47,0x6b,0xf8,0xff,0x31,0x2c,0x01,0xb4,0x34,0x5a,0x7d,0x8c };
static const uint8_t tc1_k128_r20[16] = { 0x89,0x67,0x09,0x52,0x60,0x83,0x64,0xfd,0x00,0xb2,0xf9,0x09,0x36,0xf0,0x31,0xc8 };
static const uint8_t tc1_k256_r8[16]  = { 0x3e,0x00,0xef,0x2f,0x89,0x5f,0x40,0xd6,0x7f,0x5b,0xb8,0xe8,0x1f,0x09,0xa5,0xa1 };
static const uint8_t tc1_k256_r12[16] = { 0x9b,0xf4,0x9a,0x6a,0x07,0x55,0xf9,0x53,0x81,0x1f,0xce,0x12,0x5f,0x26,0x83,0xd5 };
static const uint8_t tc1_k256_r20[16] = { 0x76,0xb8,0xe0,0xad,0xa0,0xf1,0x3d,0x90,0x40,0x5d,0x6a,0xe5,0x53,0x86,0xbd,0x28 };
static const uint8_t hc20_nonce[16] = { 0x00,0x00,0x00,0x09,0x00,0x00,0x00,0x4a,0x00,0x00,0x00,0x00,0x31,0x41,0x59,0x27 };
static const uint8_t hc20_out[32] = {
	0x82,0x41,0x3b,0x42,0x27,0xb2,0x7b,0xfe,0xd3,0x0e,0x42,0x50,0x8a,0x87,0x7d,0x73,
	0xa0,0xf9,0xe4,0xd5,0x8a,0x74,0xa8,0x53,0xc1,0x2e,0xc4,0x13,0x26,0xd3,0xec,0xdc };

static void anchor(unsigned keybits, unsigned rounds, const uint8_t *exp) {
	uint8_t key[32] = { 0 }, ks[64];
	uint32_t st[16];
	ref_chacha_setup(st, key, keybits, 0, NULL);
	ref_chacha_block(st, rounds, ks);
	for (int i = 0; i < 16; i++)
		V_ASSERT(ks[i] == exp[i], "reference reproduces the published TC1 key stream");
}
void harness(void) {
	V_BEGIN();
	anchor(128, 8, tc1_k128_r8); anchor(128, 12, tc1_k128_r12); anchor(128, 20, tc1_k128_r20);
	anchor(256, 8, tc1_k256_r8); anchor(256, 12, tc1_k256_r12); anchor(256, 20, tc1_k256_r20);
	uint8_t key[32], out[32];
	for (int i = 0; i < 32; i++) key[i] = (uint8_t)i;
	ref_hchacha(key, 256, hc20_nonce, 20, out);
	for (int i = 0; i < 32; i++)
		V_ASSERT(out[i] == hc20_out[i], "reference reproduces the published HChaCha20 vector");
	/* the library itself on the same vectors (concrete runs; gives a natively reproducible failure for gross kernel
	 * regressions -- the universal claims are the KS/XOR obligations above, not these) */
	static const struct { size_t ksz; unsigned rounds; const uint8_t *exp; } lv[6] = {
		{ 16, 8, tc1_k128_r8 }, { 128, 12, tc1_k128_r12 }, { 16, 20, tc1_k128_r20 },
		{ 32, 8, tc1_k256_r8 }, { 256, 12, tc1_k256_r12 }, { 32, 20, tc1_k256_r20 } };
	for (int v = 0; v < 6; v++) {
		uint8_t zkey[32] = { 0 };
		uint8_t *buf = (uint8_t *)v_alloc(72);
		chacha(zkey, lv[v].ksz, NULL, NULL, lv[v].rounds, NULL, 70, buf + (v % 3));	/* aligned8 / unaligned paths + tail */
		for (int i = 0; i < 16; i++)
			V_ASSERT(buf[(v % 3) + i] == lv[v].exp[i], "library chacha() reproduces the published TC1 key stream");
	}
	uint8_t lout[32];
	hchacha(key, 32, hc20_nonce, 20, lout);
	for (int i = 0; i < 32; i++)
		V_ASSERT(lout[i] == hc20_out[i], "library hchacha() reproduces the published HChaCha20 vector");
	V_WITNESS_MUST("anchor evaluated");
}
#endif
