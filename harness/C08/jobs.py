import os
SOLVER = os.environ.get("C08_SOLVER", "cadical")
# Term-level back end for the deep kernels: plain cvc5 (bit-vector theory, NOT the driver's bv-as-int shim; int-blasting
# cannot produce the models the reachability witnesses need).  Both sides of a "KS:"/"E2E:" equality become the same
# term after cvc5's substitution of the SSA definitions, which a SAT miter of two 20-round circuits never achieves
# [measured: 8 rounds 170 s kissat, 20 rounds no verdict; cvc5 2 s].
CVC5BV = {"solver": "cvc5", "flags": ["--external-smt2-solver", "/usr/bin/cvc5"]}

META = {"bounds": "", "outside": "", "assumptions": []}


def kern_jobs(tier):
    out = []
    for rounds in (8, 12, 20):
        for var, offs in ((8, [(0, 0), (8, 0)]), (4, [(0, 0), (4, 0), (0, 4), (4, 4)]), (0, [(0, 0), (1, 0), (0, 1), (3, 5), (4, 2), (7, 7)])):
            for sm in (0, 1, 2):
                for (os_, od) in offs:
                    if sm != 0 and os_ != 0 and os_ != od:
                        continue
                    if sm != 0:
                        os_ = 0 if sm == 2 else od
                    base = {"src": "kern.c", "unwind": 66,
                            "defs": {"MODE": 0, "ROUNDS": rounds, "VARIANT": var, "SRCMODE": sm, "OFFS": os_, "OFFD": od},
                            "shape": "rounds=%d variant=%s src=%s offsets src+%d dst+%d; all 512 state bits, temp x[], source "
                                     "block and old dst content symbolic" % (
                                         rounds, {8: "aligned8", 4: "aligned4", 0: "unaligned"}[var],
                                         {0: "separate", 1: "in place", 2: "NULL"}[sm], os_, od)}
                    nm = "kern-r%d-v%d-s%d-o%d%d" % (rounds, var, sm, os_, od)
                    out.append(dict(base, name=nm + "-ks", prop_include="KS:", **CVC5BV,
                                    desc="key stream words left in ctx->x == RFC 8439-order reference rounds(state)+state"))
                    out.append(dict(base, name=nm + "-xor", solver=SOLVER, prop_exclude="KS:",
                                    desc="dst == src ^ LE(ctx->x) (or LE(ctx->x) for src==NULL); 64-bit counter +1 with carry; other "
                                         "state words, bytes before dst and a separate source unchanged; memory safety"))
    seen, uniq = set(), []
    for j in out:
        if j["name"] not in seen:
            seen.add(j["name"])
            uniq.append(j)
    return uniq


def jobs(tier):
    return kern_jobs(tier)
