import os
SOLVER = os.environ.get("C08_SOLVER", "kissat")

META = {"bounds": "", "outside": "", "assumptions": []}


def kern_jobs(tier):
    out = []
    for rounds in (8, 12, 20):
        for var, offs in ((8, [(0, 0), (8, 0)]), (4, [(0, 0), (4, 0), (0, 4), (4, 4)]), (0, [(0, 0), (1, 0), (0, 1), (3, 5), (4, 2), (7, 7)])):
            for sm in (0, 1, 2):
                for (os_, od) in offs:
                    if sm != 0 and os_ != 0 and os_ != od:
                        continue
                    if sm != 0:
                        os_ = 0 if sm == 2 else od
                    out.append({"name": "kern-r%d-v%d-s%d-o%d%d" % (rounds, var, sm, os_, od), "src": "kern.c",
                                "defs": {"MODE": 0, "ROUNDS": rounds, "VARIANT": var, "SRCMODE": sm, "OFFS": os_, "OFFD": od},
                                "unwind": 66, "solver": SOLVER,
                                "shape": "rounds=%d variant=%s src=%s offsets src+%d dst+%d" % (
                                    rounds, {8: "aligned8", 4: "aligned4", 0: "unaligned"}[var],
                                    {0: "separate", 1: "in place", 2: "NULL"}[sm], os_, od),
                                "desc": "dst == src ^ RFC-order reference key stream for all 512 state bits and all sources; "
                                        "64-bit counter +1; other state words unchanged"})
    seen, uniq = set(), []
    for j in out:
        if j["name"] not in seen:
            seen.add(j["name"])
            uniq.append(j)
    return uniq


def jobs(tier):
    return kern_jobs(tier)
