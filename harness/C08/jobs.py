import os
SOLVER = os.environ.get("C08_SOLVER", "cadical")
# Term-level back end for the deep kernels: plain cvc5 (bit-vector theory, NOT the driver's bv-as-int shim; int-blasting
# cannot produce the models the reachability witnesses need).  Both sides of a "KS:"/"E2E:" equality become the same
# term after cvc5's substitution of the SSA definitions, which a SAT miter of two 20-round circuits never achieves
# [measured: 8 rounds 170 s kissat, 20 rounds no verdict; cvc5 2 s].
CVC5BV = {"solver": "cvc5", "flags": ["--external-smt2-solver", "/usr/bin/cvc5"]}

META = {"bounds": "", "outside": "", "assumptions": []}


def kern_jobs(tier):
    out = []
    for rounds in (8, 12, 20):
        for var, offs in ((8, [(0, 0), (8, 0)]), (4, [(0, 0), (4, 0), (0, 4), (4, 4)]), (0, [(0, 0), (1, 0), (0, 1), (3, 5), (4, 2), (7, 7)])):
            for sm in (0, 1, 2):
                for (os_, od) in offs:
                    if sm != 0 and os_ != 0 and os_ != od:
                        continue
                    if sm != 0:
                        os_ = 0 if sm == 2 else od
                    base = {"src": "kern.c", "unwind": 66,
                            "defs": {"MODE": 0, "ROUNDS": rounds, "VARIANT": var, "SRCMODE": sm, "OFFS": os_, "OFFD": od},
                            "shape": "rounds=%d variant=%s src=%s offsets src+%d dst+%d; all 512 state bits, temp x[], source "
                                     "block and old dst content symbolic" % (
                                         rounds, {8: "aligned8", 4: "aligned4", 0: "unaligned"}[var],
                                         {0: "separate", 1: "in place", 2: "NULL"}[sm], os_, od)}
                    nm = "kern-r%d-v%d-s%d-o%d%d" % (rounds, var, sm, os_, od)
                    out.append(dict(base, name=nm + "-ks", prop_include="KS:", **CVC5BV,
                                    desc="key stream words left in ctx->x == RFC 8439-order reference rounds(state)+state"))
                    out.append(dict(base, name=nm + "-xor", solver=SOLVER, prop_exclude="KS:",
                                    desc="dst == src ^ LE(ctx->x) (or LE(ctx->x) for src==NULL); 64-bit counter +1 with carry; other "
                                         "state words, bytes before dst and a separate source unchanged; memory safety"))
    if tier == "quick":     # one offset pair per (rounds, variant, source mode)
        keep, sel = set(), []
        for j in out:
            k = (j["defs"]["ROUNDS"], j["defs"]["VARIANT"], j["defs"]["SRCMODE"])
            pref = {8: (8, 0), 4: (4, 4), 0: (3, 5)}[j["defs"]["VARIANT"]]
            want = (j["defs"]["OFFS"], j["defs"]["OFFD"])
            if j["defs"]["SRCMODE"] == 0 and want != pref:
                continue
            if j["defs"]["SRCMODE"] != 0 and j["defs"]["OFFD"] != {8: 0, 4: 4, 0: 7}[j["defs"]["VARIANT"]]:
                continue
            sel.append(j)
        out = sel
    seen, uniq = set(), []
    for j in out:
        if j["name"] not in seen:
            seen.add(j["name"])
            uniq.append(j)
    return uniq


def hchacha_jobs(tier):
    out = []
    for rounds in (8, 12, 20):
        for ks in (16, 32, 128, 256):
            for ivnull in (0, 1):
                if tier == "quick" and ks in (128, 256) and (ivnull or rounds != 20):
                    continue
                base = {"src": "kern.c", "unwind": 66,
                        "defs": {"MODE": 1, "ROUNDS": rounds, "KEYSIZE": ks, "IVNULL": ivnull},
                        "shape": "hchacha rounds=%d key_size argument=%d iv=%s; key and 16-byte iv symbolic" % (
                            rounds, ks, "NULL" if ivnull else "given")}
                nm = "hchacha-r%d-k%d-iv%d" % (rounds, ks, 1 - ivnull)
                out.append(dict(base, name=nm + "-ks", prop_include="KS:", **CVC5BV,
                                desc="32 output bytes == reference HChaCha (RFC-order rounds, words 0..3,12..15)"))
                out.append(dict(base, name=nm + "-mem", solver=SOLVER, prop_exclude="KS:",
                                desc="key not modified, memory safety of hchacha incl. exact 16/32-byte key, 16-byte iv, 32-byte dst"))
    return out


def setup_jobs(tier):
    out = []
    for ks in (16, 32, 128, 256):
        for ivnull in (0, 1):
            for ctrnull in (0, 1):
                if tier == "quick" and ks in (128, 256) and (ivnull or ctrnull):
                    continue
                out.append({"name": "setup-k%d-iv%d-ctr%d" % (ks, 1 - ivnull, 1 - ctrnull), "src": "kern.c", "unwind": 300,
                            "solver": SOLVER, "defs": {"MODE": 2, "ROUNDS": 20, "KEYSIZE": ks, "IVNULL": ivnull, "CTRNULL": ctrnull},
                            "shape": "key_size argument=%d iv=%s counter=%s; key, nonce, counter symbolic" % (
                                ks, "NULL" if ivnull else "given", "NULL" if ctrnull else "given"),
                            "desc": "chacha_init / chacha_str_init state == constants|key|counter|nonce layout; counter_set_u64 / "
                                    "counter_get_u64; chacha_final / chacha_str_final zeroise"})
    out.append({"name": "anchor-chacha", "src": "kern.c", "unwind": 66, "solver": SOLVER, "defs": {"MODE": 3, "ROUNDS": 20, "KEYSIZE": 32},
                "shape": "concrete published vectors (Strombergson TC1 8/12/20 rounds x 128/256-bit key; XChaCha draft HChaCha20)",
                "desc": "the harness reference reproduces published key stream / HChaCha20 output (pins the oracle, not the library)"})
    return out


# ------------------------------------------------------------------------------------------------ layer (b)
PART_QUICK = [(0, 0, 0), (1, 0, 0), (63, 0, 0), (64, 0, 0), (65, 0, 0), (128, 0, 0), (131, 0, 0), (0, 131, 0), (130, 0, 1),
              (10, 70, 51), (10, 20, 34), (10, 20, 40), (10, 20, 98), (10, 20, 101), (64, 1, 66), (63, 1, 64), (1, 63, 67),
              (7, 57, 67), (65, 65, 1), (128, 3, 0), (3, 128, 0), (5, 123, 3), (64, 64, 3), (33, 31, 64)]
PART_SIZES = [0, 1, 3, 8, 31, 32, 33, 56, 61, 63, 64, 65, 67, 70, 120, 127, 128, 129, 131]
ALIGN4 = [(0, 0), (1, 3), (4, 4), (8, 5)]     # (OFFS, OFFD): aligned8 / unaligned / aligned4 / mixed
SRCN = {0: "separate", 1: "in place", 2: "NULL"}


def stream_job(api, lens, offs, offd, sm, ks=32, ctrnull=0, ivnull=0, rounds=20, tag=""):
    l1, l2, l3 = lens
    total = l1 + l2 + l3
    if sm == 1:
        offs = offd
    if sm == 2:
        offs = 0
    apin = {0: "blocks", 1: "str", 2: "chacha", 3: "xchacha", 4: "xstr"}[api]
    nm = "stream-%s-%d_%d_%d-s%d-o%d%d-k%d%s%s%s" % (apin, l1, l2, l3, sm, offs, offd, ks, "-c0" if ctrnull else "",
                                                      "-i0" if ivnull else "", tag)
    defs = {"API": api, "L1": l1, "L2": l2, "L3": l3, "OFFS": offs, "OFFD": offd, "SRCMODE": sm, "KEYSIZE": ks,
            "CTRNULL": ctrnull, "IVNULL": ivnull, "ROUNDS": rounds}
    base = {"src": "stream.c", "defs": defs, "unwind": max(70, total + 6),
            "shape": "%s chunk lengths %d+%d+%d src=%s offsets src+%d dst+%d key_size=%d counter=%s iv=%s rounds=%d; key, nonce, "
                     "initial counter (all 2^64), source, old dst and the abstract key stream symbolic" % (
                         {0: "chacha_blocks_transform", 1: "chacha_str_init + 3 x chacha_str_data_crypt", 2: "chacha()",
                          3: "xchacha()", 4: "xchacha_str_init + 3 x chacha_str_data_crypt"}[api], l1, l2, l3, SRCN[sm], offs, offd,
                         ks, "NULL" if ctrnull else "given", "NULL" if ivnull else "given", rounds)}
    out = [dict(base, name=nm, solver=SOLVER, prop_exclude="KS:",
                desc="dst[i] == src[i] ^ KS(c0+i/64)[i%64] for every interpretation of the block function; kernel variants only "
                     "called with the alignment they need; key/nonce words constant over the calls and == spec set-up; counter, "
                     "ks_len bookkeeping; untouched bytes around dst; memory safety")]
    if api in (3, 4) and total:
        out.append(dict(base, name=nm + "-ks", prop_include="KS:", **CVC5BV,
                        desc="sub-key words in the state of the first block == reference HChaCha(key, iv[0..15]) (RFC-order)"))
    return out


def stream_jobs(tier):
    out = []
    if tier == "quick":
        parts = PART_QUICK
    else:
        parts = sorted(set(PART_QUICK) | {(a, b, c) for a in PART_SIZES for b in PART_SIZES for c in PART_SIZES if a + b + c <= 131})
    # chacha_str: every partition x source mode, alignment pairs rotate (thorough: two rotations)
    for n, lens in enumerate(parts):
        for sm in (0, 1, 2):
            for rot in ((0,) if tier == "quick" else (0, 2)):
                offs, offd = ALIGN4[(n + sm + rot) % 4]
                out += stream_job(1, lens, offs, offd, sm, ks=(16 if n % 5 == 0 else 32))
    # chacha_blocks_transform: dispatch on alignment
    for nblk in ((2,) if tier == "quick" else (0, 1, 2, 3)):
        for (offs, offd) in [(0, 0), (8, 8), (4, 0), (0, 4), (4, 4), (12, 4), (1, 0), (0, 2), (3, 3), (8, 7), (5, 16)]:
            for sm in (0, 1, 2):
                out += stream_job(0, (64 * nblk, 0, 0), offs, offd, sm)
    # one-shot chacha()/xchacha(), xchacha stream
    oneshot = [(131, 32, 0, 0, 20), (70, 16, 1, 1, 8), (0, 32, 0, 0, 20), (64, 256, 0, 1, 12), (1, 128, 1, 0, 20), (129, 32, 1, 0, 12)]
    if tier != "quick":
        oneshot += [(l, k, c, i, r) for l in (1, 63, 64, 65, 128, 131) for k in (16, 32) for c in (0, 1) for i in (0, 1) for r in (8, 20)]
    for n, (l, k, c, i, r) in enumerate(oneshot):
        for api in (2, 3):
            for sm in ((n % 3,) if tier == "quick" else (0, 1, 2)):
                offs, offd = ALIGN4[(n + sm) % 4]
                out += stream_job(api, (l, 0, 0), offs, offd, sm, ks=k, ctrnull=c, ivnull=i, rounds=r)
    xparts = [(10, 70, 51), (64, 1, 66), (0, 0, 0), (3, 128, 0)] if tier == "quick" else PART_QUICK
    for n, lens in enumerate(xparts):
        for sm in ((n % 3,) if tier == "quick" else (0, 1, 2)):
            offs, offd = ALIGN4[(n + sm + 1) % 4]
            out += stream_job(4, lens, offs, offd, sm, ks=(16 if n % 2 else 32), ivnull=(1 if n % 4 == 3 else 0), rounds=(8, 12, 20)[n % 3])
    seen, uniq = set(), []
    for j in out:
        if j["name"] not in seen:
            seen.add(j["name"])
            uniq.append(j)
    return uniq


def jobs(tier):
    return kern_jobs(tier) + hchacha_jobs(tier) + setup_jobs(tier) + stream_jobs(tier)
