import os
SOLVER = os.environ.get("C08_SOLVER", "cadical")
# Term-level back end for the deep kernels: plain cvc5 (bit-vector theory, NOT the driver's bv-as-int shim; int-blasting
# cannot produce the models the reachability witnesses need).  Both sides of a "KS:"/"E2E:" equality become the same
# term after cvc5's substitution of the SSA definitions, which a SAT miter of two 20-round circuits never achieves
# [measured: 8 rounds 170 s kissat, 20 rounds no verdict; cvc5 2 s].
CVC5BV = {"solver": "cvc5", "flags": ["--external-smt2-solver", "/usr/bin/cvc5"]}

META = {"bounds": "", "outside": "", "assumptions": []}


def kern_jobs(tier):
    out = []
    for rounds in (8, 12, 20):
        for var, offs in ((8, [(0, 0), (8, 0)]), (4, [(0, 0), (4, 0), (0, 4), (4, 4)]), (0, [(0, 0), (1, 0), (0, 1), (3, 5), (4, 2), (7, 7)])):
            for sm in (0, 1, 2):
                for (os_, od) in offs:
                    if sm != 0 and os_ != 0 and os_ != od:
                        continue
                    if sm != 0:
                        os_ = 0 if sm == 2 else od
                    base = {"src": "kern.c", "unwind": 66,
                            "defs": {"MODE": 0, "ROUNDS": rounds, "VARIANT": var, "SRCMODE": sm, "OFFS": os_, "OFFD": od},
                            "shape": "rounds=%d variant=%s src=%s offsets src+%d dst+%d; all 512 state bits, temp x[], source "
                                     "block and old dst content symbolic" % (
                                         rounds, {8: "aligned8", 4: "aligned4", 0: "unaligned"}[var],
                                         {0: "separate", 1: "in place", 2: "NULL"}[sm], os_, od)}
                    nm = "kern-r%d-v%d-s%d-o%d%d" % (rounds, var, sm, os_, od)
                    out.append(dict(base, name=nm + "-ks", prop_include="KS:", **CVC5BV,
                                    desc="key stream words left in ctx->x == RFC 8439-order reference rounds(state)+state"))
                    out.append(dict(base, name=nm + "-xor", solver=SOLVER, prop_exclude="KS:",
                                    desc="dst == src ^ LE(ctx->x) (or LE(ctx->x) for src==NULL); 64-bit counter +1 with carry; other "
                                         "state words, bytes before dst and a separate source unchanged; memory safety"))
    if tier == "quick":     # one offset pair per (rounds, variant, source mode)
        keep, sel = set(), []
        for j in out:
            k = (j["defs"]["ROUNDS"], j["defs"]["VARIANT"], j["defs"]["SRCMODE"])
            pref = {8: (8, 0), 4: (4, 4), 0: (3, 5)}[j["defs"]["VARIANT"]]
            want = (j["defs"]["OFFS"], j["defs"]["OFFD"])
            if j["defs"]["SRCMODE"] == 0 and want != pref:
                continue
            if j["defs"]["SRCMODE"] != 0 and j["defs"]["OFFD"] != {8: 0, 4: 4, 0: 7}[j["defs"]["VARIANT"]]:
                continue
            sel.append(j)
        out = sel
    seen, uniq = set(), []
    for j in out:
        if j["name"] not in seen:
            seen.add(j["name"])
            uniq.append(j)
    return uniq


def hchacha_jobs(tier):
    out = []
    for rounds in (8, 12, 20):
        for ks in (16, 32, 128, 256):
            for ivnull in (0, 1):
                if tier == "quick" and ks in (128, 256) and (ivnull or rounds != 20):
                    continue
                base = {"src": "kern.c", "unwind": 66,
                        "defs": {"MODE": 1, "ROUNDS": rounds, "KEYSIZE": ks, "IVNULL": ivnull},
                        "shape": "hchacha rounds=%d key_size argument=%d iv=%s; key and 16-byte iv symbolic" % (
                            rounds, ks, "NULL" if ivnull else "given")}
                nm = "hchacha-r%d-k%d-iv%d" % (rounds, ks, 1 - ivnull)
                out.append(dict(base, name=nm + "-ks", prop_include="KS:", **CVC5BV,
                                desc="32 output bytes == reference HChaCha (RFC-order rounds, words 0..3,12..15)"))
                out.append(dict(base, name=nm + "-mem", solver=SOLVER, prop_exclude="KS:",
                                desc="key not modified, memory safety of hchacha incl. exact 16/32-byte key, 16-byte iv, 32-byte dst"))
    return out


def setup_jobs(tier):
    out = []
    for ks in (16, 32, 128, 256):
        for ivnull in (0, 1):
            for ctrnull in (0, 1):
                if tier == "quick" and ks in (128, 256) and (ivnull or ctrnull):
                    continue
                out.append({"name": "setup-k%d-iv%d-ctr%d" % (ks, 1 - ivnull, 1 - ctrnull), "src": "kern.c", "unwind": 300,
                            "solver": SOLVER, "defs": {"MODE": 2, "ROUNDS": 20, "KEYSIZE": ks, "IVNULL": ivnull, "CTRNULL": ctrnull},
                            "shape": "key_size argument=%d iv=%s counter=%s; key, nonce, counter symbolic" % (
                                ks, "NULL" if ivnull else "given", "NULL" if ctrnull else "given"),
                            "desc": "chacha_init / chacha_str_init state == constants|key|counter|nonce layout; counter_set_u64 / "
                                    "counter_get_u64; chacha_final / chacha_str_final zeroise"})
    out.append({"name": "anchor-chacha", "src": "kern.c", "unwind": 66, "solver": SOLVER, "defs": {"MODE": 3, "ROUNDS": 20, "KEYSIZE": 32},
                "shape": "concrete published vectors (Strombergson TC1 8/12/20 rounds x 128/256-bit key; XChaCha draft HChaCha20)",
                "desc": "the harness reference reproduces published key stream / HChaCha20 output (pins the oracle, not the library)"})
    return out


def jobs(tier):
    return kern_jobs(tier) + hchacha_jobs(tier) + setup_jobs(tier)
