/* C08 reference for GOST 28147-89 (RFC 5830 sections 4-8; GOST R 34.12-2015 "Magma" for the big-endian entry
 * points), written from the standard: nibble-wise substitution, cyclic shift by 11, 32-round schedule with key
 * order K0..K7 three times then K7..K0 (decryption: K0..K7 then K7..K0 three times), 16-round MAC cycle.
 * Nothing from /repo is used in this file.
 *
 * The round function is a parameter: REF_GOST_F(x) must be #defined by the includer
 *   - as ref_gost_f(sbox, x) (the standard's f) or
 *   - as the library's gost28147_block32(ctx, x) once a sibling job has proved that one equal to ref_gost_f for
 *     all x and every built-in S-box set (DESIGN 1.3, specification stub for a verified lower layer). */
#ifndef C08_REF_GOST_H
#define C08_REF_GOST_H
#include <stdint.h>

/* S-box table layout of the API: sbox[8][16], one value 0..15 per byte; row r substitutes the r-th 4-bit group
 * counted from the least significant one (GOST 28147-89 node K(r+1); GOST R 34.12-2015 pi_r). */
static inline uint32_t ref_gost_t(const uint8_t *sbox, uint32_t x) {
	uint32_t y = 0;
	for (int r = 0; r < 8; r++)
		y |= (uint32_t)(sbox[16 * r + ((x >> (4 * r)) & 15u)] & 15u) << (4 * r);
	return (y);
}
static inline uint32_t ref_gost_f(const uint8_t *sbox, uint32_t x) {
	uint32_t y = ref_gost_t(sbox, x);
	return ((y << 11) | (y >> 21));
}

static const uint8_t ref_gost_order_enc[32] = { 0,1,2,3,4,5,6,7, 0,1,2,3,4,5,6,7, 0,1,2,3,4,5,6,7, 7,6,5,4,3,2,1,0 };
static const uint8_t ref_gost_order_dec[32] = { 0,1,2,3,4,5,6,7, 7,6,5,4,3,2,1,0, 7,6,5,4,3,2,1,0, 7,6,5,4,3,2,1,0 };

#ifdef REF_GOST_F
/* RFC 5830 section 5: rounds 1..31: (N1, N2) <- (N2 ^ f(N1 + K), N1); round 32: N2 <- N2 ^ f(N1 + K), N1 kept.
 * `last_keeps` = 1 for the 32-round cycles, 0 for the 16-round MAC cycle (none of its rounds is the 32nd). */
#define REF_GOST_CYCLE(key, order, nrounds, last_keeps, n1, n2) do {				\
	for (int r_ = 0; r_ < (nrounds); r_++) {						\
		uint32_t t_ = (n2) ^ REF_GOST_F((uint32_t)((n1) + (key)[(order)[r_]]));		\
		if ((last_keeps) && r_ == (nrounds) - 1) { (n2) = t_; }				\
		else { (n2) = (n1); (n1) = t_; }						\
	}											\
} while (0)
#endif

static inline uint32_t ref_ld32le(const uint8_t *p) {
	return ((uint32_t)p[0] | ((uint32_t)p[1] << 8) | ((uint32_t)p[2] << 16) | ((uint32_t)p[3] << 24));
}
static inline uint32_t ref_ld32be(const uint8_t *p) {
	return ((uint32_t)p[3] | ((uint32_t)p[2] << 8) | ((uint32_t)p[1] << 16) | ((uint32_t)p[0] << 24));
}
static inline void ref_st32le(uint8_t *p, uint32_t v) {
	p[0] = (uint8_t)v; p[1] = (uint8_t)(v >> 8); p[2] = (uint8_t)(v >> 16); p[3] = (uint8_t)(v >> 24);
}
static inline void ref_st32be(uint8_t *p, uint32_t v) {
	p[3] = (uint8_t)v; p[2] = (uint8_t)(v >> 8); p[1] = (uint8_t)(v >> 16); p[0] = (uint8_t)(v >> 24);
}
#endif
