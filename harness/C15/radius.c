/* C15 / RADIUS: packets built with radius_pkt_init / radius_pkt_attr_add*, checked with radius_pkt_chk /
 * radius_pkt_attr_find* / radius_pkt_attr_get_data_ptr; User-Password hiding; Request/Response Authenticator;
 * Message-Authenticator; radius_pkt_sign / radius_pkt_verify -- against RFC 2865 section 3, 5.2, RFC 2866 section 3,
 * RFC 2869 section 5.14 constructions written here over the SAME abstract hash (ahash.h).
 *
 * RMODE (concrete): 1 attributes, 2 password encode/decode, 3 authenticator calc/update/chk, 4 Message-Authenticator
 * calc/update/chk, 5 sign+verify of an Access-Request with User-Password, 6 sign+verify of a reply / of a request
 * with a computed authenticator, optional corruption of one byte.
 * Other shape parameters: KEYLEN, CODE, AL (attribute data length), AL1..AL3, NA, PWLEN, ADDMA, CORRUPT, SHORT, PCAP.
 */
#include "verif.h"
#include "common/libcenv/libc_env.h"
#include <errno.h>
#include <sys/socket.h>
#include <netinet/in.h>
#include <netinet/tcp.h>
#include <arpa/inet.h>
#include "al/os.h"
#include "crypto/hash/md5.h"
#include "ahash.h"
/* --- redirection of the hash layer (no source change; the real md5.h stays included for MD5_HASH_SIZE etc.) --- */
#define md5_ctx_t		ah_md5_ctx_t
#define hmac_md5_ctx_t		ah_hmac_ctx_t
#define md5_init		ah_md5_init
#define md5_update		ah_md5_update
#define md5_final		ah_md5_final
#define hmac_md5_init		ah_hmac_init
#define hmac_md5_update		ah_hmac_update
#define hmac_md5_final		ah_hmac_final
/* radius_pkt_sign / radius_pkt_verify code the User-Password in place: memcpy(buf, password, n) with buf == password */
#define memcpy			v_memcpy_same_ok
#include "proto/radius.h"
#undef memcpy

#ifndef KEYLEN
#define KEYLEN 3
#endif
#ifndef CODE
#define CODE 1
#endif
#ifndef AL
#define AL 2
#endif
#ifndef PWLEN
#define PWLEN 0
#endif
#ifndef ADDMA
#define ADDMA 0
#endif
#ifndef SHORT
#define SHORT 0
#endif
#ifndef NA
#define NA 1
#endif
#ifndef AL1
#define AL1 1
#endif
#ifndef AL2
#define AL2 1
#endif
#ifndef AL3
#define AL3 1
#endif
#ifndef T1
#define T1 1
#endif
#ifndef T2
#define T2 1
#endif
#ifndef T3
#define T3 1
#endif
#define ADMAX 20
#define PWMAX 48
#define ENCLEN ((PWLEN) == 0 ? 16 : (((PWLEN) + 15) / 16) * 16)

struct in_s {
	uint8_t dg[AH_NENT][16];
	uint8_t key[KEYLEN + 1];
	uint8_t code, id, auth[16], req_auth[16], req_id;
	uint8_t a_type[3], a_data[3][ADMAX];
	uint8_t pw[PWMAX + 1];
	uint8_t cx, cpos;
	uint8_t dirty;	/* previous content of the caller's packet buffer (every byte), e.g. a re-used or stack buffer */
};
#include "verif_in.h"

static uint8_t pkt_store[PCAP];		/* exactly sized packet buffer */
static uint8_t ref[PCAP + 32];		/* reference packet (RFC 2865 section 3 layout) */
static size_t ref_len;
static const uint8_t zero16[16];

/* class of a packet code with respect to its Authenticator field (RFC 2865 3, RFC 2866 3, RFC 5176 2.3, RFC 5997) */
#define CL_RANDOM 1	/* Access-Request, Status-Server (and the library's Status-Client): random, not computed */
#define CL_REQZERO 2	/* Accounting-/Disconnect-/CoA-Request: MD5 over the packet with a zero Authenticator */
#define CL_RESP 3	/* replies: MD5 over the packet with the Request Authenticator */
static int code_class(uint8_t c) {
	switch (c) {
	case 1: case 12: case 13: return (CL_RANDOM);
	case 4: case 40: case 43: return (CL_REQZERO);
	case 2: case 3: case 5: case 11: case 41: case 42: case 44: case 45: return (CL_RESP);
	}
	return (0);
}

static void ref_md5(const uint8_t *a, size_t an, const uint8_t *b, size_t bn, const uint8_t *c, size_t cn,
    const uint8_t *d, size_t dn, uint8_t *out) {
	ah_md5_ctx_t x;
	ah_md5_init(&x);
	ah_md5_update(&x, a, an); ah_md5_update(&x, b, bn); ah_md5_update(&x, c, cn); ah_md5_update(&x, d, dn);
	ah_md5_final(&x, out);
}
static void ref_hmac(const uint8_t *key, size_t kn, const uint8_t *a, size_t an, const uint8_t *b, size_t bn,
    const uint8_t *c, size_t cn, uint8_t *out) {
	ah_hmac_ctx_t x;
	ah_hmac_init(key, kn, &x);
	ah_hmac_update(&x, a, an); ah_hmac_update(&x, b, bn); ah_hmac_update(&x, c, cn);
	ah_hmac_final(&x, out);
}
/* RFC 2865 5.2: b1 = MD5(S + RA), c(1) = p1 xor b1, b(i) = MD5(S + c(i-1)), c(i) = pi xor b(i); p padded with NULs */
static void ref_pw_hide(const uint8_t *ra, const uint8_t *pw, size_t pwlen, size_t enclen, const uint8_t *key, size_t kn,
    uint8_t *out) {
	uint8_t b[16];
	for (size_t j = 0; j < enclen; j += 16) {
		if (j == 0) ref_md5(key, kn, ra, 16, zero16, 0, zero16, 0, b);
		else ref_md5(key, kn, out + j - 16, 16, zero16, 0, zero16, 0, b);
		for (size_t i = 0; i < 16; i++) out[j + i] = (uint8_t)(((j + i) < pwlen ? pw[j + i] : 0) ^ b[i]);
	}
}
static void ref_hdr(uint8_t code, uint8_t id, const uint8_t *auth) {
	ref[0] = code; ref[1] = id; ref[2] = 0; ref[3] = 20;
	for (size_t i = 0; i < 16; i++) ref[4 + i] = auth[i];
	ref_len = 20;
}
static void ref_attr(uint8_t type, const uint8_t *data, size_t n) {
	ref[ref_len++] = type; ref[ref_len++] = (uint8_t)(n + 2);
	for (size_t i = 0; i < n; i++) ref[ref_len++] = data ? data[i] : 0;
	ref[2] = (uint8_t)(ref_len >> 8); ref[3] = (uint8_t)(ref_len & 0xff);
}
static size_t ref_strnlen(const uint8_t *s, size_t n) { size_t i = 0; while (i < n && s[i] != 0) i++; return (i); }

/* RFC attribute length facts used as the oracle for radius_pkt_attr_add (RFC 2865 5.44 and the sections before it):
 * returns 1 accept, 0 refuse, -1 type not in the reference set */
static int ref_len_ok(uint8_t type, size_t n) {
	switch (type) {
	case 1: case 11: case 18: case 24: case 25: case 32: case 33: return (n >= 1 && n <= 253);	/* string/text, >= 1 octet */
	case 3: return (n == 17);			/* CHAP-Password: ident + 16 */
	case 4: case 8: case 9: case 14: return (n == 4);	/* addresses */
	case 5: case 6: case 7: case 10: case 12: case 13: case 15: case 16: case 27: case 28: case 61: case 62: return (n == 4); /* integers */
	case 26: return (n >= 5 && n <= 253);	/* Vendor-Specific: 4 octets vendor id + >= 1 */
	case 60: return (n >= 5 && n <= 253);	/* CHAP-Challenge: Length >= 7 */
	}
	return (-1);
}

void harness(void) {
	V_BEGIN();
	for (size_t i = 0; i < PCAP; i++) pkt_store[i] = IN.dirty;	/* the library must not depend on a zeroed buffer (seeded change C15-radius-pw-padding-dropped) */
	rad_pkt_hdr_p pkt = (rad_pkt_hdr_p)pkt_store;
	static uint8_t key[KEYLEN + 1];
	size_t sz = 777;
	int r;
	ah_fresh = &IN.dg[0][0];
	for (size_t i = 0; i < KEYLEN; i++) key[i] = IN.key[i];

#if RMODE == 1	/* ---------------------------------------------------------------- attributes */
	const size_t als[3] = { AL1, AL2, AL3 };
	const uint8_t types[3] = { T1, T2, T3 };	/* concrete per job: a symbolic index into the 256-entry rad_attr_params[] table of
							 * structs with string pointers did not get through symbolic execution in 100 s */
	size_t offs[3] = { 0, 0, 0 };
	int acc[3] = { 0, 0, 0 };
	int cls = code_class(CODE);	/* CODE concrete per job (a symbolic code makes "was the header written at all" symbolic) */
	r = radius_pkt_init(pkt, PCAP, &sz, CODE, IN.id, (uint8_t *)IN.auth);
	if (cls == 0) {
		V_ASSERT(r == EINVAL, "unknown packet code is refused");
		V_WITNESS("bad code");
		return;
	}
	V_ASSERT(r == 0 && sz == 20, "packet initialised, 20 bytes");
	ref_hdr(CODE, IN.id, (cls == CL_REQZERO) ? zero16 : IN.auth);
	for (size_t k = 0; k < NA; k++) {
		uint8_t t = types[k];
		int ok = ref_len_ok(t, als[k]);
		V_ASSUME(ok >= 0);
		size_t before = ref_len, o = 777;
		sz = 777;
		r = radius_pkt_attr_add(pkt, PCAP, &sz, t, (uint8_t)als[k], (uint8_t *)IN.a_data[k], &o);
		if (!ok) {
			V_ASSERT(r == EINVAL, "attribute whose length breaks the RFC 2865 rule for its type is refused");
			V_WITNESS("attr refused by length rule");
			continue;
		}
		if (before + 2 + als[k] > PCAP) {
			V_ASSERT(r == EOVERFLOW && sz == before + 2 + als[k], "attribute that does not fit: EOVERFLOW, needed size reported");
			V_WITNESS("attr does not fit");
			continue;
		}
		V_ASSERT(r == 0, "attribute with an RFC-conforming length is accepted");
		if (r != 0) return;
		ref_attr(t, IN.a_data[k], als[k]);
		V_ASSERT(o == before && sz == ref_len, "offset of the new attribute and new packet size reported");
		offs[k] = before; acc[k] = 1;
	}
	V_ASSERT(RADIUS_PKT_HDR_LEN_GET(pkt) == ref_len, "header length field = 20 + attributes");
	V_ASSERT(0 == memcmp(pkt_store, ref, ref_len), "packet bytes = RFC 2865 section 3 layout (code, id, length, authenticator, TLVs)");
	r = radius_pkt_chk(pkt, ref_len);
	if (CODE == RADIUS_PKT_TYPE_STATUS_SERVER) {
		V_ASSERT(r == EBADMSG, "Status-Server without Message-Authenticator is not valid (RFC 5997)");
	} else {
		V_ASSERT(r == 0, "the library's own check accepts the packet it built");
	}
	V_ASSERT(radius_pkt_chk(pkt, ref_len - 1) == EBADMSG, "truncated buffer is refused");
	for (size_t k = 0; k < NA; k++) {	/* listing */
		if (!acc[k]) continue;
		uint8_t t = 0, *dp = NULL; size_t dl = 777, fo = 777;
		V_ASSERT(0 == radius_pkt_attr_get_data_ptr(pkt, offs[k], &t, &dp, &dl), "attribute readable at its offset");
		V_ASSERT(t == types[k] && dl == als[k] && dp == pkt_store + offs[k] + 2 && 0 == memcmp(dp, IN.a_data[k], als[k]),
		    "same type, length and data");
		size_t firstsame = k;
		for (size_t j = 0; j < k; j++) if (acc[j] && types[j] == types[k] && firstsame == k) firstsame = j;
		V_ASSERT(0 == radius_pkt_attr_find(pkt, 0, types[k], &fo) && fo == offs[firstsame], "find from the start: first attribute of that type");
		V_ASSERT(0 == radius_pkt_attr_find(pkt, offs[k], types[k], &fo) && fo == offs[k], "find from its own offset: itself");
	}
	{
		uint8_t absent = IN.cx; size_t fo = 777;
		V_ASSUME(absent != 0);
		for (size_t k = 0; k < NA; k++) V_ASSUME(!acc[k] || absent != types[k]);
		V_ASSERT(ENOATTR == radius_pkt_attr_find(pkt, 0, absent, &fo), "type that was not added is not found");
	}
	V_WITNESS("attributes listed");

#elif RMODE == 2	/* ---------------------------------------------------------------- User-Password hiding */
	static uint8_t enc[ENCLEN], dec[ENCLEN], exp_enc[ENCLEN], pwbuf[PWLEN + 1];
	for (size_t i = 0; i < PWLEN; i++) pwbuf[i] = IN.pw[i];
#if SHORT
	r = radius_pkt_attr_password_encode((uint8_t *)IN.auth, pwbuf, PWLEN, key, KEYLEN, enc, ENCLEN - 1, &sz);
	V_ASSERT(r == EOVERFLOW && sz == ENCLEN, "output buffer one byte short: EOVERFLOW, needed size reported");
	V_WITNESS("short buffer");
	return;
#endif
	r = radius_pkt_attr_password_encode((uint8_t *)IN.auth, pwbuf, PWLEN, key, KEYLEN, enc, ENCLEN, &sz);
	V_ASSERT(r == 0 && sz == ENCLEN, "hidden password occupies the next multiple of 16 (16 for an empty password)");
	ref_pw_hide(IN.auth, pwbuf, PWLEN, ENCLEN, key, KEYLEN, exp_enc);
	V_ASSERT(0 == memcmp(enc, exp_enc, ENCLEN), "hidden password = RFC 2865 5.2 chain over the shared secret and the Request Authenticator");
	sz = 777;
	r = radius_pkt_attr_password_decode((uint8_t *)IN.auth, enc, ENCLEN, key, KEYLEN, dec, ENCLEN, &sz);
	V_ASSERT(r == 0, "un-hiding succeeds");
	{
		int same = 1;
		for (size_t i = 0; i < ENCLEN; i++) if (dec[i] != ((i < PWLEN) ? pwbuf[i] : 0)) same = 0;
		V_ASSERT(same, "decode(encode(pw)) = pw padded with NULs");
	}
	V_ASSERT(sz == ref_strnlen(pwbuf, PWLEN), "reported length = password length (up to its first NUL)");
	/* un-hiding IN PLACE (buf == enc_password), the way radius_pkt_verify() restores the attribute
	 * (added after the seeded change C15-pw-decode-in-place was missed: chain block taken from the already decoded buffer) */
	{
		size_t sz2 = 777;
		r = radius_pkt_attr_password_decode((uint8_t *)IN.auth, enc, ENCLEN, key, KEYLEN, enc, ENCLEN, &sz2);
		V_ASSERT(r == 0, "in-place un-hiding succeeds");
		int same2 = 1;
		for (size_t i = 0; i < ENCLEN; i++) if (enc[i] != ((i < PWLEN) ? pwbuf[i] : 0)) same2 = 0;
		V_ASSERT(same2, "in-place decode(encode(pw)) = pw padded with NULs");
		V_ASSERT(sz2 == sz, "in-place: same reported length");
	}
	V_ASSERT(!ah_overflow, "harness self-check: abstract hash table large enough");
	V_WITNESS("password round trip");

#elif RMODE == 3 || RMODE == 4	/* ------------------------------------------ authenticators */
	static rad_pkt_hdr_t req;
	static uint8_t out[16], expv[16];
	const int cls = code_class(CODE);
	req.code = RADIUS_PKT_TYPE_ACCESS_REQUEST; req.id = IN.req_id; req.len = htons(20);
	for (size_t i = 0; i < 16; i++) req.authenticator[i] = IN.req_auth[i];
	r = radius_pkt_init(pkt, PCAP, &sz, CODE, IN.id, (uint8_t *)IN.auth);
	V_ASSERT(r == 0, "init");
	r = radius_pkt_attr_add(pkt, PCAP, &sz, RADIUS_ATTR_TYPE_REPLY_MESSAGE, AL, (uint8_t *)IN.a_data[0], NULL);
	V_ASSERT(r == 0, "attribute added");
	const uint8_t *authx = (cls == CL_RANDOM) ? pkt->authenticator : (cls == CL_REQZERO) ? zero16 : req.authenticator;
#if RMODE == 3
	r = radius_pkt_authenticator_calc(pkt, key, KEYLEN, 0, &req, out);
	V_ASSERT(r == 0, "authenticator computed");
	if (cls == CL_RANDOM) {
		V_ASSERT(0 == memcmp(out, IN.auth, 16), "Access-Request / Status-Server: the Authenticator is the random value set at init");
	} else {
		/* RFC 2865 3 / RFC 2866 3: MD5(Code+ID+Length+{RequestAuth | 16 zero octets}+Attributes+Secret) */
		ref_md5(pkt_store, 4, authx, 16, pkt_store + 20, PCAP - 20, key, KEYLEN, expv);
		V_ASSERT(0 == memcmp(out, expv, 16), "computed Authenticator = RFC 2865 / 2866 value");
	}
	r = radius_pkt_authenticator_update(pkt, key, KEYLEN, 0, &req);
	V_ASSERT(r == 0 && 0 == memcmp(pkt->authenticator, out, 16), "update stores the computed value in the packet");
	V_ASSERT(0 == radius_pkt_authenticator_chk(pkt, key, KEYLEN, 0, &req), "check accepts the packet it just authenticated");
	{	/* one modified byte (authenticator or attribute data): decision = RFC comparison */
		size_t cp = IN.cpos;
		V_ASSUME(IN.cx != 0 && cp >= 4 && cp < PCAP && cp != 20 && cp != 21);
		for (size_t p = 4; p < PCAP; p++) {	/* case split: constant index on each path; type/length octets stay as built */
			if (p == 20 || p == 21) continue;
			if (cp == p) pkt_store[p] ^= IN.cx;
		}
		r = radius_pkt_authenticator_chk(pkt, key, KEYLEN, 0, &req);
		if (cls == CL_RANDOM) {
			V_ASSERT(r == 0, "nothing to check for a random Authenticator");
		} else {
			ref_md5(pkt_store, 4, authx, 16, pkt_store + 20, PCAP - 20, key, KEYLEN, expv);
			V_ASSERT((r == 0) == (0 == memcmp(pkt->authenticator, expv, 16)) && (r == 0 || r == EBADMSG),
			    "after a modification: accepted iff stored Authenticator = RFC recomputation, else EBADMSG");
			if (cp < 20) V_ASSERT(r == EBADMSG, "a modified Authenticator field is always rejected");
			if (r != 0) V_WITNESS("modified packet rejected");
		}
	}
#else	/* RMODE 4: Message-Authenticator, RFC 2869 5.14: HMAC-MD5(secret; Type, ID, Length, Request Authenticator, Attributes) */
	size_t mo = 777, mo2 = 777;
	r = radius_pkt_attr_add(pkt, PCAP, &sz, RADIUS_ATTR_TYPE_MSG_AUTHENTIC, 0, NULL, &mo);
	V_ASSERT(r == 0 && mo == 20 + 2 + AL && sz == PCAP, "Message-Authenticator attribute reserved (18 bytes, zero)");
	V_ASSERT(EEXIST == radius_pkt_attr_add(pkt, PCAP + 18, &sz, RADIUS_ATTR_TYPE_MSG_AUTHENTIC, 0, NULL, NULL), "a second Message-Authenticator is refused");
	r = radius_pkt_attr_msg_authenticator_update(pkt, 0, key, KEYLEN, 0, &req, &mo2);
	V_ASSERT(r == 0 && mo2 == mo, "Message-Authenticator found and written");
	{
		static uint8_t tmp[PCAP];
		memcpy(tmp, pkt_store, PCAP);
		for (size_t i = 0; i < 16; i++) tmp[mo + 2 + i] = 0;
		ref_hmac(key, KEYLEN, tmp, 4, authx, 16, tmp + 20, PCAP - 20, expv);
	}
	V_ASSERT(0 == memcmp(pkt_store + mo + 2, expv, 16), "Message-Authenticator = RFC 2869 5.14 HMAC over the packet with the field zeroed");
	V_ASSERT(0 == radius_pkt_attr_msg_authenticator_chk(pkt, 0, key, KEYLEN, 0, &req, NULL), "check (search) accepts");
	V_ASSERT(0 == radius_pkt_attr_msg_authenticator_chk(pkt, mo, key, KEYLEN, 0, &req, NULL), "check (explicit offset) accepts");
	{
		size_t cp = IN.cpos;
		V_ASSUME(IN.cx != 0 && cp >= 4 && cp < PCAP && cp != 20 && cp != 21 && cp != 20 + 2 + AL && cp != 20 + 2 + AL + 1);
		for (size_t p = 4; p < PCAP; p++) {	/* case split: constant index on each path; type/length octets stay as built */
			if (p == 20 || p == 21 || p == 20 + 2 + AL || p == 20 + 2 + AL + 1) continue;
			if (cp == p) pkt_store[p] ^= IN.cx;
		}
		r = radius_pkt_attr_msg_authenticator_chk(pkt, mo, key, KEYLEN, 0, &req, NULL);
		static uint8_t tmp2[PCAP];
		memcpy(tmp2, pkt_store, PCAP);
		for (size_t i = 0; i < 16; i++) tmp2[mo + 2 + i] = 0;
		authx = (cls == CL_RANDOM) ? pkt->authenticator : authx;
		ref_hmac(key, KEYLEN, tmp2, 4, authx, 16, tmp2 + 20, PCAP - 20, expv);
		V_ASSERT((r == 0) == (0 == memcmp(pkt_store + mo + 2, expv, 16)) && (r == 0 || r == EBADMSG),
		    "after a modification: accepted iff stored Message-Authenticator = RFC recomputation, else EBADMSG");
		if (r != 0) V_WITNESS("modified packet rejected");
	}
#endif
	V_ASSERT(!ah_overflow, "harness self-check: abstract hash table large enough");
	V_WITNESS("authenticator agrees with the RFC construction");

#elif RMODE == 5	/* ---------------------------------------------------------------- Access-Request: sign + verify */
	static uint8_t pwbuf[PWLEN + 1], hid[ENCLEN], expv[16];
	size_t uo = 777, po = 777;
	for (size_t i = 0; i < PWLEN; i++) pwbuf[i] = IN.pw[i];
	r = radius_pkt_init(pkt, PCAP, &sz, RADIUS_PKT_TYPE_ACCESS_REQUEST, IN.id, (uint8_t *)IN.auth);
	V_ASSERT(r == 0, "init");
	r = radius_pkt_attr_add(pkt, PCAP, &sz, RADIUS_ATTR_TYPE_USER_NAME, AL, (uint8_t *)IN.a_data[0], &uo);
	V_ASSERT(r == 0, "User-Name added");
#ifdef KF_RADIUS_ADD_PASSWORD
	/* known finding: radius_pkt_attr_add(User-Password) always returns EOVERFLOW (its size query passes a zero-sized
	 * buffer to radius_pkt_attr_password_encode and treats the expected EOVERFLOW as fatal).  So that sign / verify can
	 * still be checked, the slot is produced with the library's own lower-level call exactly as the function documents
	 * it: space for the padded password, clear-text password copied in, NUL padded ("encode late, on pkt sign"). */
	{
		rad_pkt_attr_p pa = NULL;
		r = radius_pkt_attr_alloc_raw(pkt, PCAP, &sz, RADIUS_ATTR_TYPE_USER_PASSWORD, ENCLEN, &pa, &po);
		V_ASSERT(r == 0, "slot allocated");
		for (size_t i = 0; i < ENCLEN; i++) RADIUS_PKT_ATTR_DATA(pa)[i] = (i < PWLEN) ? pwbuf[i] : 0;
	}
#else
	r = radius_pkt_attr_add(pkt, PCAP, &sz, RADIUS_ATTR_TYPE_USER_PASSWORD, PWLEN, pwbuf, &po);
#endif
	V_ASSERT(r == 0 && po == 20 + 2 + AL && sz == po + 2 + ENCLEN, "User-Password slot = next multiple of 16");
	V_ASSERT(EEXIST == radius_pkt_attr_add(pkt, PCAP + 64, &sz, RADIUS_ATTR_TYPE_USER_PASSWORD, PWLEN, pwbuf, NULL), "a second User-Password is refused");
	sz = 777;
	r = radius_pkt_sign(pkt, PCAP, &sz, key, KEYLEN, ADDMA);
	V_ASSERT(r == 0 && sz == PCAP, "signed; final size as computed from the RFC layout");
	/* reference packet */
	ref_hdr(RADIUS_PKT_TYPE_ACCESS_REQUEST, IN.id, IN.auth);
	ref_attr(RADIUS_ATTR_TYPE_USER_NAME, IN.a_data[0], AL);
	ref_pw_hide(IN.auth, pwbuf, PWLEN, ENCLEN, key, KEYLEN, hid);
	ref_attr(RADIUS_ATTR_TYPE_USER_PASSWORD, hid, ENCLEN);
#if ADDMA
	size_t mo = ref_len;
	ref_attr(RADIUS_ATTR_TYPE_MSG_AUTHENTIC, zero16, 16);
	ref_hmac(key, KEYLEN, ref, 4, IN.auth, 16, ref + 20, ref_len - 20, expv);
	for (size_t i = 0; i < 16; i++) ref[mo + 2 + i] = expv[i];
#endif
	V_ASSERT(ref_len == PCAP && 0 == memcmp(pkt_store, ref, PCAP),
	    "signed Access-Request = RFC layout: random Authenticator kept, User-Password hidden (2865 5.2), Message-Authenticator (2869 5.14)");
	V_ASSERT(0 == radius_pkt_chk(pkt, PCAP), "the library's own check accepts the signed packet");
	r = radius_pkt_verify(pkt, key, KEYLEN, NULL);
	V_ASSERT(r == 0, "verify with the same secret accepts");
	{
		int same = 1;
		uint8_t t = 0, *dp = NULL; size_t dl = 777;
		for (size_t i = 0; i < ENCLEN; i++) if (pkt_store[po + 2 + i] != ((i < PWLEN) ? pwbuf[i] : 0)) same = 0;
		V_ASSERT(same, "verify un-hides the password in place: original password, NUL padded");
		V_ASSERT(0 == radius_pkt_attr_get_data_ptr(pkt, po, &t, &dp, &dl) && t == RADIUS_ATTR_TYPE_USER_PASSWORD &&
		    dl == ref_strnlen(pwbuf, PWLEN), "password attribute reports the password length");
	}
	V_ASSERT(!ah_overflow, "harness self-check: abstract hash table large enough");
	V_WITNESS("request signed and verified");

#elif RMODE == 6	/* ---------------------------------------------------------------- computed authenticator: sign + verify */
	static rad_pkt_hdr_t req;
	static uint8_t expv[16];
	const int cls = code_class(CODE);
	rad_pkt_hdr_p reqp = (cls == CL_RESP) ? &req : NULL;
	req.code = RADIUS_PKT_TYPE_ACCESS_REQUEST; req.id = IN.req_id; req.len = htons(20);
	for (size_t i = 0; i < 16; i++) req.authenticator[i] = IN.req_auth[i];
	if (cls == CL_RESP) r = radius_pkt_reply_init(pkt, PCAP, &sz, CODE, &req);
	else r = radius_pkt_init(pkt, PCAP, &sz, CODE, IN.id, (uint8_t *)IN.auth);
	V_ASSERT(r == 0, "init");
	r = radius_pkt_attr_add(pkt, PCAP, &sz, RADIUS_ATTR_TYPE_REPLY_MESSAGE, AL, (uint8_t *)IN.a_data[0], NULL);
	V_ASSERT(r == 0, "attribute added");
	sz = 777;
	r = radius_pkt_sign(pkt, PCAP, &sz, key, KEYLEN, ADDMA);
	V_ASSERT(r == 0 && sz == PCAP, "signed; final size as computed from the RFC layout");
	const uint8_t *authx = (cls == CL_REQZERO) ? zero16 : IN.req_auth;
	ref_hdr(CODE, (cls == CL_RESP) ? IN.req_id : IN.id, authx);
	ref_attr(RADIUS_ATTR_TYPE_REPLY_MESSAGE, IN.a_data[0], AL);
#if ADDMA
	size_t mo = ref_len;
	ref_attr(RADIUS_ATTR_TYPE_MSG_AUTHENTIC, zero16, 16);
	ref_hmac(key, KEYLEN, ref, 4, authx, 16, ref + 20, ref_len - 20, expv);
	for (size_t i = 0; i < 16; i++) ref[mo + 2 + i] = expv[i];
#endif
	ref_md5(ref, 4, authx, 16, ref + 20, ref_len - 20, key, KEYLEN, expv);	/* Response / Request Authenticator */
	for (size_t i = 0; i < 16; i++) ref[4 + i] = expv[i];
	V_ASSERT(ref_len == PCAP && 0 == memcmp(pkt_store, ref, PCAP),
	    "signed packet = RFC layout: id of the request, Message-Authenticator (2869 5.14), Authenticator = MD5(Code+ID+Length+RequestAuth|0+Attributes+Secret)");
	V_ASSERT(0 == radius_pkt_chk(pkt, PCAP), "the library's own check accepts the signed packet");
	r = radius_pkt_verify(pkt, key, KEYLEN, reqp);
	V_ASSERT(r == 0, "verify with the same secret (and the request) accepts");
#ifdef CORRUPT	/* one byte at offset CORRUPT (concrete, outside the length/type octets) xor a symbolic non-zero value */
	V_ASSUME(IN.cx != 0);
	pkt_store[CORRUPT] ^= IN.cx;
	r = radius_pkt_verify(pkt, key, KEYLEN, reqp);
	{
		int ok = 1;
		static uint8_t tmp[PCAP];
		memcpy(tmp, pkt_store, PCAP);
#if ADDMA
		for (size_t i = 0; i < 16; i++) tmp[mo + 2 + i] = 0;
		ref_hmac(key, KEYLEN, tmp, 4, authx, 16, tmp + 20, PCAP - 20, expv);
		if (0 != memcmp(pkt_store + mo + 2, expv, 16)) ok = 0;
#endif
		ref_md5(pkt_store, 4, authx, 16, pkt_store + 20, PCAP - 20, key, KEYLEN, expv);
		if (0 != memcmp(pkt_store + 4, expv, 16)) ok = 0;
		V_ASSERT((r == 0) == ok && (r == 0 || r == EBADMSG), "modified packet: accepted iff both RFC recomputations equal the stored values, else EBADMSG");
		if (CORRUPT >= 4 && CORRUPT < 20) V_ASSERT(r == EBADMSG, "a modified Authenticator field is always rejected");
		if (r != 0) V_WITNESS("modified packet rejected");
	}
#endif
	V_ASSERT(!ah_overflow, "harness self-check: abstract hash table large enough");
	V_WITNESS("packet signed and verified");
#endif
}
