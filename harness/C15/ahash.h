/* C15: abstract hash standing in for MD5 and HMAC-MD5 (DESIGN 1.3, "uninterpreted functions for expensive pure kernels").
 *
 * md5_init/update/final and hmac_md5_init/update/final (and the two context types) are redirected by macro, between
 * the include of crypto/hash/md5.h and the include of proto/radius.h, to the functions below.  They collect the bytes
 * that are hashed and, on *_final, return the digest of a memoising uninterpreted function:
 *      MD5(x)      := the digest recorded for (kind MD5, x)  if x was hashed before, else a fresh symbolic 16-byte value
 *      HMAC(k, x)  := likewise for (kind HMAC, k, x)
 * (fresh values come from IN.dg[], so the native replay uses the very same interpretation).  Library and RFC reference
 * constructions in the harness go through the same table: if they agree for every interpretation of the two functions
 * they agree for the real MD5 / HMAC-MD5 (whose own correctness is C04 / C07).  What this cannot show: anything that
 * needs MD5 to be collision resistant ("a modified packet is rejected").
 */
#ifndef C15_AHASH_H
#define C15_AHASH_H

#ifndef AH_MAX
#define AH_MAX 96
#endif
#ifndef AH_KMAX
#define AH_KMAX 8
#endif
#ifndef AH_NENT
#define AH_NENT 10
#endif

typedef struct ah_md5_ctx_s { uint8_t d[AH_MAX]; size_t n; } ah_md5_ctx_t, *ah_md5_ctx_p;
typedef struct ah_hmac_ctx_s { uint8_t d[AH_MAX]; size_t n; uint8_t key[AH_KMAX]; size_t kn; } ah_hmac_ctx_t, *ah_hmac_ctx_p;

static uint8_t ah_d[AH_NENT][AH_MAX], ah_key[AH_NENT][AH_KMAX], ah_dg[AH_NENT][16];
static size_t ah_n[AH_NENT], ah_kn[AH_NENT], ah_cnt;
static int ah_kind[AH_NENT];
static const uint8_t *ah_fresh;	/* -> IN.dg[0][0] */
static int ah_overflow;		/* set if a harness hashed more / longer inputs than the table holds (asserted 0) */

/* Every *_final call takes the next slot (so the slot index and, for concrete lengths, all loop bounds are constants for
 * symbolic execution); its digest is the digest of the EARLIEST earlier slot with the same (kind, key, input) if there is
 * one, else the fresh symbolic value of its own slot -- i.e. a function of the input. */
static void ah_digest(int kind, const uint8_t *key, size_t kn, const uint8_t *d, size_t n, uint8_t *out) {
	if (ah_cnt >= AH_NENT) { ah_overflow = 1; for (size_t i = 0; i < 16; i++) out[i] = 0; return; }
	size_t k = ah_cnt++;
	ah_kind[k] = kind; ah_n[k] = n; ah_kn[k] = kn;
	for (size_t i = 0; i < n; i++) ah_d[k][i] = d[i];
	for (size_t i = 0; i < kn; i++) ah_key[k][i] = key[i];
	for (size_t i = 0; i < 16; i++) ah_dg[k][i] = ah_fresh[k * 16 + i];
	for (size_t e = k; e > 0; e--) {
		if (ah_kind[e - 1] != kind || ah_n[e - 1] != n || ah_kn[e - 1] != kn) continue;
		int same = 1;
		for (size_t i = 0; i < n; i++) if (ah_d[e - 1][i] != d[i]) same = 0;
		for (size_t i = 0; i < kn; i++) if (ah_key[e - 1][i] != key[i]) same = 0;
		if (same) { for (size_t i = 0; i < 16; i++) ah_dg[k][i] = ah_dg[e - 1][i]; }
	}
	for (size_t i = 0; i < 16; i++) out[i] = ah_dg[k][i];
}

static void ah_md5_init(ah_md5_ctx_p c) { c->n = 0; }
static void ah_md5_update(ah_md5_ctx_p c, const uint8_t *data, const size_t n) {
	for (size_t i = 0; i < n; i++) {
		if (c->n >= AH_MAX) { ah_overflow = 1; return; }
		c->d[c->n++] = data[i];
	}
}
static void ah_md5_final(ah_md5_ctx_p c, uint8_t *digest) {
	ah_digest(1, (const uint8_t *)0, 0, c->d, c->n, digest);
	c->n = 0;
}
static void ah_hmac_init(const uint8_t *key, const size_t kn, ah_hmac_ctx_p c) {
	c->n = 0; c->kn = kn;
	if (kn > AH_KMAX) { ah_overflow = 1; c->kn = 0; return; }
	for (size_t i = 0; i < kn; i++) c->key[i] = key[i];
}
static void ah_hmac_update(ah_hmac_ctx_p c, const uint8_t *data, const size_t n) {
	for (size_t i = 0; i < n; i++) {
		if (c->n >= AH_MAX) { ah_overflow = 1; return; }
		c->d[c->n++] = data[i];
	}
}
static void ah_hmac_final(ah_hmac_ctx_p c, uint8_t *digest) {
	ah_digest(2, c->key, c->kn, c->d, c->n, digest);
	c->n = 0; c->kn = 0;
}

/* the redirection itself: placed by the harness AFTER #include "crypto/hash/md5.h" and BEFORE #include "proto/radius.h" */
#define AH_REDIRECT_NOTE "md5_ctx_t, hmac_md5_ctx_t, md5_init/update/final, hmac_md5_init/update/final -> ah_*"
#endif
