import os
SOLVER = os.environ.get("C15_SOLVER", "cadical")
KF = {} if os.environ.get("C15_NO_KF") else {}

META = {"bounds": "", "outside": "", "assumptions": [], "harness_functions": []}


# ------------------------------------------------------------------ DNS
def dns_job(name, ops, short=False, timeout=None):
    """ops: list of (op, (l1, l2, l3), rdlen)"""
    size = 12
    defs = {}
    for k, (op, ls, rd) in enumerate(ops, 1):
        ls = tuple(ls) + (0,) * (3 - len(ls))
        defs["OP%d" % k] = "'%s'" % op
        defs["L%d1" % k], defs["L%d2" % k], defs["L%d3" % k] = ls
        defs["RD%d" % k] = rd
        nm = 1 if op == "O" else sum(l + 1 for l in ls if l) + 1
        size += nm + (4 if op == "Q" else 10 + rd)
    cap = size - (1 if short else 0)
    defs["CAP"] = cap
    if short:
        defs["SHORT"] = 1
    defs.update(KF)
    desc = " ".join("%s(name labels %s%s)" % (op, "+".join(str(l) for l in ls if l) or "root",
                                              ", rdata %d" % rd if op != "Q" else "") for op, ls, rd in ops)
    j = {"name": "dns-" + name, "src": "dns.c", "defs": defs, "unwind": 16, "solver": SOLVER,
         "shape": "header + %s into a %d-byte buffer (%s)" % (desc, cap, "one byte short" if short else "exact size"),
         "desc": "message byte-identical to RFC 1035 4.1 reference encoder; validate/info_get/question_get_data/rr_get_data "
                 "return the same names, types, classes, TTLs, data; header counters = successful adds"
                 if not short else "last add returns EOVERFLOW with the needed size, message and counters untouched, rest parses back"}
    if timeout:
        j["timeout"] = timeout
    return j


def dns_jobs(tier):
    q = tier == "quick"
    out = []
    out.append(dns_job("q1", [("Q", (1,), 0)]))
    out.append(dns_job("q-3.2", [("Q", (3, 2), 0)]))
    out.append(dns_job("q-2.1.1", [("Q", (2, 1, 1), 0)]))
    out.append(dns_job("q-short", [("Q", (3, 2), 0)], short=True))
    out.append(dns_job("r1", [("R", (2,), 4)]))
    out.append(dns_job("r-rd0", [("R", (1, 1), 0)]))
    out.append(dns_job("r-short", [("R", (2,), 4)], short=True))
    out.append(dns_job("q-r", [("Q", (2, 1), 0), ("R", (2, 1), 4)]))
    out.append(dns_job("q-r-short", [("Q", (2, 1), 0), ("R", (2, 1), 4)], short=True))
    out.append(dns_job("q-n", [("Q", (1,), 0), ("N", (1, 1), 2)]))
    out.append(dns_job("q-a", [("Q", (1,), 0), ("A", (3,), 1)]))
    out.append(dns_job("o", [("O", (), 0)]))
    out.append(dns_job("q-o", [("Q", (3, 2), 0), ("O", (), 0)]))
    out.append(dns_job("q-o-rd", [("Q", (1,), 0), ("O", (), 4)]))
    out.append(dns_job("q-o-short", [("Q", (1,), 0), ("O", (), 2)], short=True))
    out.append(dns_job("q-r-o", [("Q", (2,), 0), ("R", (2,), 4), ("O", (), 0)]))
    if not q:
        out.append(dns_job("q-10", [("Q", (4, 3, 1), 0)]))
        out.append(dns_job("q-q", [("Q", (2, 1), 0), ("Q", (1, 2), 0)]))
        out.append(dns_job("q-r-r", [("Q", (2, 1), 0), ("R", (2, 1), 4), ("R", (3,), 2)]))
        out.append(dns_job("q-r-n", [("Q", (1,), 0), ("R", (1,), 4), ("N", (1, 1), 1)]))
        out.append(dns_job("r-n-a", [("R", (1,), 1), ("N", (2,), 2), ("A", (3,), 3)]))
        out.append(dns_job("q-r-a-short", [("Q", (2,), 0), ("R", (2,), 4), ("A", (1,), 6)], short=True))
        out.append(dns_job("r-10", [("R", (10,), 6)]))
    return out


def jobs(tier):
    return dns_jobs(tier)
