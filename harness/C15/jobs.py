import os
SOLVER = os.environ.get("C15_SOLVER", "cadical")
KF = {}   # all three findings were repaired in /repo (known_findings.json: fixed)

META = {
    "bounds": "DNS: dns_hdr_create (symbolic id, every flag bit set through the library's bit-field union) followed by <= 3 operations "
              "out of dns_msg_question_add / dns_msg_rr_add (+ dns_hdr_an/ns/ar_inc) / dns_msg_optrr_add into a buffer of EXACTLY the "
              "RFC size (or one byte less: last add must return EOVERFLOW and leave everything untouched); owner names <= 10 bytes in "
              "<= 3 labels with every byte symbolic (any value but '.'), symbolic type/class/ttl, rdata <= 6 symbolic bytes, OPT udp "
              "size/version/extended rcode/DO/Z symbolic; message compared byte by byte with an RFC 1035 4.1 (+ RFC 2671 4.6 OPT) "
              "reference encoder in the harness; dns_msg_validate, dns_msg_info_get (offsets, counts, size), "
              "dns_msg_question_get_data, dns_msg_rr_get_data return the same values; header counters = successful adds. "
              "Names alone: DomainNameToSequenceOfLabels / SequenceOfLabelsGetSize / SequenceOfLabelsToDomainName with labels up to 65 "
              "bytes (63 accepted, 64 refused), exact and short output buffers. "
              "RADIUS (md5_* / hmac_md5_* = abstract hash): radius_pkt_init (14 codes + an invalid one) + <= 3 radius_pkt_attr_add "
              "with concrete (type, length) pairs and symbolic data into exact / one-byte-short buffers: accepted iff the RFC 2865 "
              "length rule of the type holds, packet = RFC 2865 3 layout, radius_pkt_chk accepts, get_data_ptr / attr_find list the "
              "same attributes; password_encode/decode for lengths {0,1,15,16,17,32,33} (thorough +48), secrets of 0/3 (8) bytes, "
              "exact/short buffers: = RFC 2865 5.2 chain, decode(encode(pw)) = pw; authenticator_calc/update/chk and "
              "msg_authenticator_calc/update/chk for one code of each class (thorough: all 13) = RFC 2865 3 / 2866 3 / 2869 5.14 "
              "constructions, and after one modified byte (symbolic position outside the type/length octets, symbolic value) chk "
              "accepts iff stored value = RFC recomputation; radius_pkt_sign + radius_pkt_chk + radius_pkt_verify on Access-Request "
              "(User-Name, User-Password 0/5/16 bytes, with/without Message-Authenticator) and on replies / computed-"
              "authenticator requests: signed packet byte-identical to the RFC reference, verify accepts, password restored.",
    "outside": "'any modified byte or wrong secret is rejected' beyond 'the decision equals the RFC comparison' (= MD5 / HMAC-MD5 "
               "collision resistance, not a solver question); the real MD5 / HMAC-MD5 code (C04 / C07); radius_pkt_verify on a "
               "modified packet as a whole (symbolic execution of the memo table did not finish in 200 s; its two components "
               "authenticator_chk and msg_authenticator_chk are decided under modification); modifications of type/length octets "
               "and of the header length (radius_pkt_chk's job); host names > 10 bytes inside messages (labels up to 65 bytes only "
               "through DomainNameToSequenceOfLabels alone), > 3 records, name compression (the library refuses compress != 0; "
               "pointers in parsed names are C13); the root name as owner of questions/RRs (the size pre-check of "
               "question_add / rr_add demands one spare byte for it: conservative refusal, outside the property's 1..253-byte "
               "names); RR type 41 through dns_msg_rr_add (OPT goes through dns_msg_optrr_add; rr_get_data returns its TTL octets "
               "raw); byte order of the DNS ID (opaque 16-bit cookie, read back unchanged) and of radius_pkt_attr_add_uint32 data "
               "(4 bytes as passed); passwords > 48 bytes; dns_resolv.c / radius_client.c themselves",
    "assumptions": [
        "md5_init/update/final, hmac_md5_init/update/final and their context types are redirected (macros between the includes of "
        "crypto/hash/md5.h and proto/radius.h) to harness/C15/ahash.h: a memoising uninterpreted function per kind (MD5; HMAC keyed "
        "by the secret) whose fresh values are solver variables (IN.dg); reference constructions use the same table",
        "memcpy(dst, src, n) with dst == src is harmless (as in every libc): radius_pkt_sign / radius_pkt_verify code the password in "
        "place that way; CBMC's and the C standard's overlap rule would flag it (v_memcpy_same_ok in common/libcenv/libc_env.h)",
        "libc: memchr / strnlen bodies of /verif/lib/libc_models.h, CBMC built-in memcmp/memcpy/memset; natively glibc",
        "RFC 2865 5.44 length facts used as the oracle for attr_add: string/text types 1,11,18,24,25,32,33 need 1..253 bytes, "
        "3 needs 17, address types 4,8,9,14 and integer types 5,6,7,10,12,13,15,16,27,28,61,62 need 4, 26 and 60 need >= 5",
        "CBMC's 'pointer relation: pointer outside object bounds' check is excluded in dns jobs (dns_msg_sequence_of_labels2name "
        "computes max_pos = cur_pos + msg_size beyond the object; memory safety of the DNS parsers is C13)",
        "name output buffers are name length + 2 (the library needs room for a transient trailing dot besides the NUL)",
        "KF_DNS_OPT_RCODE_VERSION_ORDER (while finding dns_opt_rcode_version_order is unfixed): OPT version == extended rcode",
        "KF_RADIUS_ACCT_RESP_MA (while finding radius_acct_response_msg_authenticator is unfixed): the shapes 'Accounting-Response "
        "with Message-Authenticator' are not generated",
        "KF_RADIUS_ADD_PASSWORD (while finding radius_add_user_password is unfixed): the User-Password slot is created with "
        "radius_pkt_attr_alloc_raw + copy + NUL padding instead of radius_pkt_attr_add",
    ],
    "harness_functions": ["harness", "do_op", "chk_op", "mk_name", "ref_name", "put16", "put32", "ah_digest", "ah_md5_init", "ah_md5_update",
                          "ah_md5_final", "ah_hmac_init", "ah_hmac_update", "ah_hmac_final", "ref_md5", "ref_hmac", "ref_pw_hide",
                          "ref_hdr", "ref_attr", "ref_strnlen", "ref_len_ok", "code_class", "v_memcpy_same_ok", "v_memmem", "memchr",
                          "memrchr", "memmem", "strnlen", "memcmp", "memcpy", "memset", "malloc", "explicit_bzero", "v_alloc", "v_buf"],
}


# ------------------------------------------------------------------ DNS
def dns_job(name, ops, short=False, timeout=None):
    """ops: list of (op, (l1, l2, l3), rdlen)"""
    size = 12
    defs = {}
    for k, (op, ls, rd) in enumerate(ops, 1):
        ls = tuple(ls) + (0,) * (3 - len(ls))
        defs["OP%d" % k] = "'%s'" % op
        defs["L%d1" % k], defs["L%d2" % k], defs["L%d3" % k] = ls
        defs["RD%d" % k] = rd
        nm = 1 if op == "O" else sum(l + 1 for l in ls if l) + 1
        size += nm + (4 if op == "Q" else 10 + rd)
    cap = size - (1 if short else 0)
    defs["CAP"] = cap
    if short:
        defs["SHORT"] = 1
    defs.update(KF)
    desc = " ".join("%s(name labels %s%s)" % (op, "+".join(str(l) for l in ls if l) or "root",
                                              ", rdata %d" % rd if op != "Q" else "") for op, ls, rd in ops)
    nsec = {s: sum(1 for op, _, _ in ops if op in s) for s in ("Q", "R", "N", "AO")}
    maxlab = max([len([l for l in ls if l]) for _, ls, _ in ops] + [0])
    maxname = max([sum(l + 1 for l in ls if l) + 1 for _, ls, _ in ops] + [1])
    j = {"name": "dns-" + name, "src": "dns.c", "defs": defs, "unwind": cap + 66, "solver": SOLVER,
         # dns_msg_sequence_of_labels2name computes max_pos = cur_pos + msg_size (beyond the object, DESIGN 7 #5): only the
         # relational use of that pointer is excluded here; memory safety of the DNS parsers is C13's obligation
         "prop_exclude": "pointer relation",
         # loops whose trip count comes from message bytes (header counters, label lengths): true bounds from the shape,
         # confirmed by the unwinding assertions
         "unwindset": ["dns_msg_info_get.0:%d" % (nsec["Q"] + 2), "dns_msg_info_get.1:%d" % (nsec["R"] + 2),
                       "dns_msg_info_get.2:%d" % (nsec["N"] + 2), "dns_msg_info_get.3:%d" % (nsec["AO"] + 2),
                       "SequenceOfLabelsGetSize.0:%d" % (maxlab + 2), "dns_msg_sequence_of_labels2name.0:%d" % (maxlab + 2),
                       "DomainNameToSequenceOfLabels.0:%d" % (maxlab + 2), "memchr.0:%d" % (maxname + 2)],
         "shape": "header + %s into a %d-byte buffer (%s)" % (desc, cap, "one byte short" if short else "exact size"),
         "desc": "message byte-identical to RFC 1035 4.1 reference encoder; validate/info_get/question_get_data/rr_get_data "
                 "return the same names, types, classes, TTLs, data; header counters = successful adds"
                 if not short else "last add returns EOVERFLOW with the needed size, message and counters untouched, rest parses back"}
    j["timeout"] = timeout or 400
    return j


def dns_jobs(tier):
    q = tier == "quick"
    out = []
    out.append(dns_job("q1", [("Q", (1,), 0)]))
    out.append(dns_job("q-3.2", [("Q", (3, 2), 0)]))
    out.append(dns_job("q-2.1.1", [("Q", (2, 1, 1), 0)]))
    out.append(dns_job("q-short", [("Q", (3, 2), 0)], short=True))
    out.append(dns_job("r1", [("R", (2,), 4)]))
    out.append(dns_job("r-rd0", [("R", (1, 1), 0)]))
    out.append(dns_job("r-short", [("R", (2,), 4)], short=True))
    out.append(dns_job("q-r", [("Q", (2, 1), 0), ("R", (2, 1), 4)]))
    out.append(dns_job("q-r-short", [("Q", (2, 1), 0), ("R", (2, 1), 4)], short=True))
    out.append(dns_job("q-n", [("Q", (1,), 0), ("N", (1, 1), 2)]))
    out.append(dns_job("q-a", [("Q", (1,), 0), ("A", (3,), 1)]))
    out.append(dns_job("o", [("O", (), 0)]))
    out.append(dns_job("q-o", [("Q", (3, 2), 0), ("O", (), 0)]))
    out.append(dns_job("q-o-rd", [("Q", (1,), 0), ("O", (), 4)]))
    out.append(dns_job("q-o-short", [("Q", (1,), 0), ("O", (), 2)], short=True))
    if not q:
        out.append(dns_job("q-r-o", [("Q", (2,), 0), ("R", (2,), 4), ("O", (), 0)]))
        out.append(dns_job("q-10", [("Q", (4, 3, 1), 0)]))
        out.append(dns_job("q-q", [("Q", (2, 1), 0), ("Q", (1, 2), 0)]))
        out.append(dns_job("q-r-r", [("Q", (2, 1), 0), ("R", (2, 1), 4), ("R", (3,), 2)]))
        out.append(dns_job("q-r-n", [("Q", (1,), 0), ("R", (1,), 4), ("N", (1, 1), 1)]))
        out.append(dns_job("r-n-a", [("R", (1,), 1), ("N", (2,), 2), ("A", (3,), 3)]))
        out.append(dns_job("r-10", [("R", (10,), 6)]))
    return out


def dnsname_jobs(tier):
    out = []
    shapes = [((1,), 0), ((3, 2), 0), ((63,), 0), ((64,), 0), ((62, 1), 0), ((1, 64), 0), ((2, 2, 2), 0), ((3, 2), -1), ((63, 1), -1)]
    if tier != "quick":
        shapes += [((63, 63), 0), ((1, 1, 65), 0), ((10, 20, 30), 0), ((5,), -3)]
    for ls, d in shapes:
        ls3 = tuple(ls) + (0,) * (3 - len(ls))
        nlen = sum(ls) + len(ls) - 1
        bufsz = nlen + 2 + d
        out.append({"name": "dnsname-%s%s" % (".".join(str(l) for l in ls), "" if d == 0 else "-cap%d" % d), "src": "dnsname.c",
                    "defs": {"LA": ls3[0], "LB": ls3[1], "LC": ls3[2], "BUFSZ": bufsz}, "unwind": nlen + 4, "solver": SOLVER,
                    "unwindset": ["DomainNameToSequenceOfLabels.0:%d" % (len(ls) + 2), "SequenceOfLabelsGetSize.0:%d" % (len(ls) + 2),
                                  "SequenceOfLabelsToDomainName.0:%d" % (len(ls) + 2)],
                    "timeout": 400,
                    "shape": "host name with labels of %s bytes, output capacity %d (needed %d)" % ("+".join(map(str, ls)), bufsz, nlen + 2),
                    "desc": "DomainNameToSequenceOfLabels = RFC 1035 label sequence (or EINVAL for a label > 63, EOVERFLOW for a short "
                            "buffer); SequenceOfLabelsGetSize / SequenceOfLabelsToDomainName invert it"})
    return out


# ------------------------------------------------------------------ RADIUS
def enclen(pw):
    return 16 if pw == 0 else ((pw + 15) // 16) * 16


def rad_job(name, mode, keylen=3, code=1, al=2, als=(), types=(), pwlen=0, addma=0, short=0, corrupt=None, timeout=None, mem_gb=None):
    defs = {"RMODE": mode, "KEYLEN": keylen}
    if mode == 1:
        defs["NA"] = len(als)
        defs["CODE"] = code
        for i, a in enumerate(als, 1):
            defs["AL%d" % i] = a
            defs["T%d" % i] = types[i - 1]
        pcap = 20 + sum(2 + a for a in als) - short
        shape = "init(code %d) + attribute types %s with data lengths %s (symbolic data) into a %d-byte buffer%s" % (
            code, list(types), list(als), pcap, " (one byte short)" if short else " (exact)")
        desc = "attr_add accepts iff the RFC length rule of the type holds (EOVERFLOW if it does not fit); packet bytes = RFC 2865 3 " \
               "layout; radius_pkt_chk accepts; get_data_ptr / attr_find list the same attributes"
    elif mode == 2:
        pcap = 20
        defs["PWLEN"] = pwlen
        if short:
            defs["SHORT"] = 1
        shape = "password of %d bytes, secret of %d bytes, output buffer %s" % (pwlen, keylen, "one byte short" if short else "exact (%d)" % enclen(pwlen))
        desc = "password_encode = RFC 2865 5.2 chain over the abstract hash; decode(encode(pw)) = pw NUL-padded; reported lengths"
    elif mode in (3, 4):
        pcap = 20 + 2 + al + (18 if mode == 4 else 0)
        defs.update({"CODE": code, "AL": al})
        shape = "packet code %d, one attribute of %d data bytes%s, secret %d bytes; then one symbolic byte (symbolic position) modified" % (
            code, al, " + Message-Authenticator" if mode == 4 else "", keylen)
        desc = ("authenticator_calc/update/chk = RFC 2865 3 / 2866 3 MD5 construction; after a modification chk accepts iff stored = recomputed"
                if mode == 3 else "msg_authenticator_calc/update/chk = RFC 2869 5.14 HMAC construction; after a modification accepts iff stored = recomputed")
    elif mode == 5:
        pcap = 20 + 2 + al + 2 + enclen(pwlen) + (18 if addma else 0)
        defs.update({"AL": al, "PWLEN": pwlen, "ADDMA": addma})
        shape = "Access-Request: User-Name %d bytes, User-Password %d bytes, %s Message-Authenticator, secret %d bytes, buffer exact (%d)" % (
            al, pwlen, "with" if addma else "without", keylen, pcap)
        desc = "radius_pkt_sign output byte-identical to the RFC reference; radius_pkt_chk and radius_pkt_verify accept; password restored"
    else:
        pcap = 20 + 2 + al + (18 if addma else 0)
        defs.update({"CODE": code, "AL": al, "ADDMA": addma})
        if corrupt is not None:
            defs["CORRUPT"] = corrupt
        shape = "packet code %d (%s), one attribute of %d bytes, %s Message-Authenticator, secret %d bytes, buffer exact (%d)%s" % (
            code, "reply to a request" if code in (2, 3, 5, 11, 41, 42, 44, 45) else "request with computed authenticator", al,
            "with" if addma else "without", keylen, pcap, "" if corrupt is None else ", then byte %d xor symbolic non-zero value" % corrupt)
        desc = "radius_pkt_sign output byte-identical to the RFC reference (Response/Request Authenticator, Message-Authenticator); " \
               "verify accepts; after a one-byte modification verify accepts iff the RFC recomputations equal the stored values"
    defs["PCAP"] = pcap
    defs["AH_MAX"] = max(40, pcap + keylen + 4)
    defs["AH_NENT"] = 16
    defs.update(KF)
    j = {"name": "rad-" + name, "src": "radius.c", "defs": defs, "unwind": max(pcap, 16, enclen(pwlen)) + keylen + 8, "solver": SOLVER,
         "shape": shape, "desc": desc}
    if timeout:
        j["timeout"] = timeout
    if mem_gb:
        j["mem_gb"] = mem_gb
    return j


def rad_jobs(tier):
    q = tier == "quick"
    out = []
    # attributes
    # (type, data length) pairs: RFC 2865 conforming and non-conforming lengths of string / address / integer / fixed types
    A = [("name-addr", (1, 4), (1, 4)), ("chap-17", (3,), (17,)), ("chap-16", (3,), (16,)), ("addr-3", (4,), (3,)),
         ("int-5", (6,), (5,)), ("name-0", (1,), (0,)), ("three", (1, 5, 1), (4, 4, 1)), ("vsa-4-5", (26, 26), (4, 5)),
         ("state-class", (24, 25), (1, 2)), ("chal-4-5", (60, 60), (4, 5)), ("dup-type", (18, 18, 32), (1, 2, 1))]
    if not q:
        A += [("ints", (5, 6, 7), (4, 4, 4)), ("addrs", (4, 8, 9), (4, 4, 4)), ("mixed-bad", (1, 4, 18), (2, 5, 3)),
              ("t27-61", (27, 61), (4, 4)), ("t11-33", (11, 33), (3, 3))]
    for i, (n, ts, ls) in enumerate(A):
        out.append(rad_job("attr-" + n, 1, types=ts, als=ls, code=[1, 2, 4, 5, 11, 12, 40, 43, 3][i % 9]))
    out.append(rad_job("attr-badcode", 1, types=(1,), als=(1,), code=6))
    out.append(rad_job("attr-short", 1, types=(1, 4), als=(3, 4), short=1))
    # password
    for pw in [0, 1, 15, 16, 17, 32, 33]:
        out.append(rad_job("pw-%d" % pw, 2, pwlen=pw))
    out.append(rad_job("pw-17-short", 2, pwlen=17, short=1))
    out.append(rad_job("pw-16-key0", 2, pwlen=16, keylen=0))
    # authenticators, one code per class in quick
    codes = [1, 4, 2] if q else [1, 12, 4, 40, 43, 2, 3, 5, 11, 41, 42, 44, 45]
    for c in codes:
        out.append(rad_job("auth-c%d" % c, 3, code=c, al=2))
        if c == 5 and "KF_RADIUS_ACCT_RESP_MA" in KF:
            continue        # blocked shape (finding radius_acct_response_msg_authenticator)
        out.append(rad_job("ma-c%d" % c, 4, code=c, al=2))
    # sign / verify
    out.append(rad_job("sign-req-pw0", 5, al=2, pwlen=0, addma=1))
    out.append(rad_job("sign-req-pw5-noma", 5, al=1, pwlen=5, addma=0))
    out.append(rad_job("sign-req-pw16-noma", 5, al=1, pwlen=16, addma=0))
    for c in ([2, 4] if q else [2, 3, 5, 11, 41, 42, 44, 45, 4, 40, 43]):
        if c == 5 and "KF_RADIUS_ACCT_RESP_MA" in KF:
            out.append(rad_job("sign-c5-noma", 6, code=5, al=2, addma=0))
            continue        # blocked shape (finding radius_acct_response_msg_authenticator)
        out.append(rad_job("sign-c%d" % c, 6, code=c, al=2, addma=1))
    out.append(rad_job("sign-c2-noma", 6, code=2, al=3, addma=0))
    if not q:
        out.append(rad_job("pw-48", 2, pwlen=48))
        out.append(rad_job("pw-16-key8", 2, pwlen=16, keylen=8))
    return out


def _jobs_orig(tier):
    out = dns_jobs(tier) + dnsname_jobs(tier) + rad_jobs(tier)
    for j in out:       # generous cap: shared box
        if tier == "quick" and not j.get("timeout"):
            j["timeout"] = 400
    return out


def jobs(tier):
    out = _jobs_orig(tier)
    out.append({"name": "dns-hdr-counters", "src": "dnscnt.c", "defs": {}, "unwind": 14, "solver": SOLVER if "SOLVER" in globals() else "cadical",
                "shape": "any 12-byte header, any 16-bit increment",
                "desc": "dns_hdr_{qd,an,ns,ar}_{get,set,inc,dec}: exact 16-bit arithmetic on the big-endian wire fields"})
    return out
