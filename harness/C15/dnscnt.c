/* C15: DNS header section counters. "Counters in the header equal the number of successful adds" needs, for messages
 * beyond the 3 records the build/parse jobs reach, that inc/dec/get/set are exact 16-bit arithmetic on the wire
 * (big-endian) field for EVERY current value and increment -- one inductive step instead of 65535 adds.
 * (Added after the seeded change C15-qd-inc-carry, wrong only from the 256th add on, was missed.) */
#include "verif.h"
#include <errno.h>
#include <sys/types.h>
#include <arpa/inet.h>
#include "proto/dns.h"

struct in_s { uint8_t hdr[sizeof(dns_hdr_t)]; uint16_t val; };
#include "verif_in.h"

#define WIRE16(p) ((uint16_t)(((uint16_t)(p)[0] << 8) | (p)[1]))

void harness(void) {
	V_BEGIN();
	dns_hdr_t *h = (dns_hdr_t *)v_buf(IN.hdr, sizeof(dns_hdr_t));
	const uint8_t *b = (const uint8_t *)h;
	uint16_t q0 = WIRE16(b + 4), a0 = WIRE16(b + 6), n0 = WIRE16(b + 8), r0 = WIRE16(b + 10), v = IN.val;
	V_ASSERT(dns_hdr_qd_get(h) == q0 && dns_hdr_an_get(h) == a0 && dns_hdr_ns_get(h) == n0 && dns_hdr_ar_get(h) == r0,
	    "getters read the RFC 1035 4.1.1 wire fields (big-endian, offsets 4/6/8/10)");
	dns_hdr_qd_inc(h, v); dns_hdr_an_inc(h, v); dns_hdr_ns_inc(h, v); dns_hdr_ar_inc(h, v);
	V_ASSERT(WIRE16(b + 4) == (uint16_t)(q0 + v), "QDCOUNT += val on the wire, with carry between the two bytes");
	V_ASSERT(WIRE16(b + 6) == (uint16_t)(a0 + v), "ANCOUNT += val on the wire");
	V_ASSERT(WIRE16(b + 8) == (uint16_t)(n0 + v), "NSCOUNT += val on the wire");
	V_ASSERT(WIRE16(b + 10) == (uint16_t)(r0 + v), "ARCOUNT += val on the wire");
	dns_hdr_qd_dec(h, v); dns_hdr_an_dec(h, v); dns_hdr_ns_dec(h, v); dns_hdr_ar_dec(h, v);
	V_ASSERT(WIRE16(b + 4) == q0 && WIRE16(b + 6) == a0 && WIRE16(b + 8) == n0 && WIRE16(b + 10) == r0, "dec inverts inc");
	dns_hdr_qd_set(h, v);
	V_ASSERT(WIRE16(b + 4) == v && dns_hdr_qd_get(h) == v, "set/get round trip on the wire field");
	for (size_t i = 0; i < 4; i++) V_ASSERT(b[i] == IN.hdr[i], "id and flags untouched");
	V_WITNESS_MUST("end");
}
