/* C15 / DNS names: DomainNameToSequenceOfLabels -> (RFC 1035 3.1 label sequence) -> SequenceOfLabelsGetSize /
 * SequenceOfLabelsToDomainName, with labels up to and beyond the 63-byte limit.
 * Shape: label lengths LA, LB, LC (0 = absent), BUFSZ = output capacity. Symbolic: every name byte (never '.'). */
#include "verif.h"
#include "common/libcenv/libc_env.h"
#include <errno.h>
#include "proto/dns.h"

#define NLEN (LA + LB + LC + ((LB != 0) ? 1 : 0) + ((LC != 0) ? 1 : 0))
struct in_s { uint8_t name[NLEN + 1]; };
#include "verif_in.h"

void harness(void) {
	V_BEGIN();
	static uint8_t name[NLEN + 1], out[BUFSZ + 1], back[NLEN + 3];
	size_t ls[3] = { LA, LB, LC }, n = 0;
	int too_long = 0;
	for (size_t k = 0; k < 3; k++) {
		if (ls[k] == 0) continue;
		if (ls[k] > 63) too_long = 1;
		if (n != 0) name[n++] = '.';
		for (size_t i = 0; i < ls[k]; i++) { V_ASSUME(IN.name[n] != '.'); name[n] = IN.name[n]; n++; }
	}
	size_t need = 777;
	int r = DomainNameToSequenceOfLabels(name, NLEN, out, BUFSZ, &need);
	V_ASSERT(need == NLEN + 2, "encoded size = name length + 2 (first length octet + root label)");
	if (BUFSZ < NLEN + 2) {
		V_ASSERT(r == EOVERFLOW, "too small output buffer: EOVERFLOW");
		V_WITNESS("overflow");
		return;
	}
	if (too_long) {
		V_ASSERT(r == EINVAL, "a label longer than 63 bytes is refused");
		V_WITNESS("label too long");
		return;
	}
	V_ASSERT(r == 0, "valid host name is encoded");
	if (r != 0) return;
	size_t p = 0, s = 0;	/* reference: <len> bytes ... 0 */
	for (size_t k = 0; k < 3; k++) {
		if (ls[k] == 0) continue;
		V_ASSERT(out[p] == ls[k], "length octet");
		p++;
		for (size_t i = 0; i < ls[k]; i++) { V_ASSERT(out[p] == name[s], "label bytes"); p++; s++; }
		s++;	/* the dot */
	}
	V_ASSERT(out[p] == 0 && p + 1 == NLEN + 2, "terminating root label");
	size_t sz = 777, blen = 777;
	V_ASSERT(0 == SequenceOfLabelsGetSize(out, NLEN + 2, &sz) && sz == NLEN + 2, "SequenceOfLabelsGetSize = encoded size");
	r = SequenceOfLabelsToDomainName(out, NLEN + 2, back, NLEN + 2, &blen);
	V_ASSERT(r == 0, "label sequence decodes");
	V_ASSERT(0 == memcmp(back, name, NLEN) && back[NLEN] == 0, "name round-trips through label encoding");
	V_WITNESS("round trip");
}
