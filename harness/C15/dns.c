/* C15 / DNS: messages built with dns_hdr_create / dns_msg_question_add / dns_msg_rr_add / dns_msg_optrr_add
 * (+ dns_hdr_{an,ns,ar}_inc, as dns_resolv.c does after a successful add) into an exactly sized buffer, compared
 * byte by byte with an RFC 1035 section 4.1 (+ RFC 2671/6891 OPT) reference encoder written here, then parsed back with
 * dns_msg_validate / dns_msg_info_get / dns_msg_question_get_data / dns_msg_rr_get_data.
 *
 * Shape (concrete, jobs.py): up to three operations OP1..OP3, each 'Q' question, 'R' answer RR, 'N' authority RR,
 * 'A' additional RR, 'O' OPT pseudo-RR, 0 none; per operation the label lengths of its owner name (Lk1, Lk2, Lk3; 0 =
 * no such label) and the RDATA length RDk; SHORT=1: the buffer is one byte shorter than the message needs, the LAST
 * operation must then fail with EOVERFLOW and leave the message untouched.  CAP = buffer size (computed by jobs.py).
 * Symbolic: id, every header flag, every name byte (any value except '.'), type, class, ttl, every rdata byte,
 * OPT udp size / version / extended rcode / DO+Z flags.
 */
#include "verif.h"
#include "common/libcenv/libc_env.h"
#include <errno.h>
#include "proto/dns.h"

#ifndef OP2
#define OP2 0
#endif
#ifndef OP3
#define OP3 0
#endif
#ifndef SHORT
#define SHORT 0
#endif
#define NOPS ((OP1 != 0) + (OP2 != 0) + (OP3 != 0))
#define MAXNAME 12
#define MAXRD 6

struct op_in { uint8_t name[MAXNAME]; uint16_t type, class; uint32_t ttl; uint8_t rdata[MAXRD + 1];
	uint16_t udp; uint8_t version, ex_rcode; uint8_t opt_do, opt_z_hi, opt_z_lo; };
struct in_s {
	uint16_t id;
	uint8_t qr, opcode, aa, tc, rd, ra, z, ad, cd, rcode;
	struct op_in op[3];
};
#include "verif_in.h"

static uint8_t ref[CAP + 64];	/* reference encoding (RFC), independent of the library */
static size_t ref_len;

static void put16(uint16_t v) { ref[ref_len++] = (uint8_t)(v >> 8); ref[ref_len++] = (uint8_t)(v & 0xff); }
static void put32(uint32_t v) { put16((uint16_t)(v >> 16)); put16((uint16_t)(v & 0xffff)); }

/* name text "lab1.lab2.lab3" from label lengths; returns its length; bytes symbolic, never '.' */
static size_t mk_name(uint8_t *dst, const uint8_t *src, size_t l1, size_t l2, size_t l3) {
	size_t n = 0, s = 0;
	size_t ls[3] = { l1, l2, l3 };
	for (size_t k = 0; k < 3; k++) {
		if (ls[k] == 0) continue;
		if (n != 0) dst[n++] = '.';
		for (size_t i = 0; i < ls[k]; i++) {
			V_ASSUME(src[s] != '.');
			dst[n++] = src[s++];
		}
	}
	return (n);
}
static void ref_name(size_t l1, size_t l2, size_t l3, const uint8_t *src) {
	size_t s = 0;
	size_t ls[3] = { l1, l2, l3 };
	for (size_t k = 0; k < 3; k++) {
		if (ls[k] == 0) continue;
		ref[ref_len++] = (uint8_t)ls[k];
		for (size_t i = 0; i < ls[k]; i++) ref[ref_len++] = src[s++];
	}
	ref[ref_len++] = 0;
}

static uint8_t msg_store[CAP];		/* exactly sized message buffer */
static size_t cnt[4];			/* successful adds per section: qd an ns ar */
static size_t off[3], len[3];		/* where each accepted record starts, and its size */
static int done[3];

static void do_op(int k, int op, size_t l1, size_t l2, size_t l3, size_t rdlen, size_t *msg_size, int expect_fail) {
	dns_hdr_p hdr = (dns_hdr_p)msg_store;
	const struct op_in *in = &IN.op[k];
	static uint8_t name_store[3][MAXNAME + 3];
	uint8_t *name = name_store[k];
	size_t name_len = mk_name(name, in->name, l1, l2, l3);
	size_t before = *msg_size, after = 777, ref_before = ref_len;
	uint8_t snapshot[CAP];
	memcpy(snapshot, msg_store, CAP);
	int r;

	if (op == 'Q') {
		ref_name(l1, l2, l3, in->name); put16(in->type); put16(in->class);
		r = dns_msg_question_add(hdr, before, CAP, 0, name, name_len, in->type, in->class, &after);
	} else if (op == 'O') {
		uint16_t fl;	/* built through the library's own bit-field union, as dns_resolv.c does */
		dns_ex_flags_t ef;
		ef.u16 = 0;
		V_ASSUME(in->opt_do <= 1 && in->opt_z_hi <= 0x7f);
#ifdef KF_DNS_OPT_RCODE_VERSION_ORDER
		/* known finding: dns_opt_rr_t stores VERSION before EXTENDED-RCODE (RFC: the other way round) */
		V_ASSUME(in->version == in->ex_rcode);
#endif
		ef.bits.d0 = in->opt_do; ef.bits._zero0 = in->opt_z_hi; ef.bits.z = in->opt_z_lo;
		fl = ef.u16;
		ref[ref_len++] = 0; put16(41); put16(in->udp);
		ref[ref_len++] = in->ex_rcode; ref[ref_len++] = in->version;	/* RFC 2671 4.6 / RFC 6891 6.1.3: EXTENDED-RCODE, VERSION */
		ref[ref_len++] = (uint8_t)((in->opt_do << 7) | in->opt_z_hi); ref[ref_len++] = in->opt_z_lo;	/* DO, Z */
		put16((uint16_t)rdlen);
		for (size_t i = 0; i < rdlen; i++) ref[ref_len++] = in->rdata[i];
		r = dns_msg_optrr_add(hdr, before, CAP, in->udp, in->version, in->ex_rcode, fl, (uint16_t)rdlen,
		    (void *)in->rdata, &after);
	} else {
		V_ASSUME(in->type != DNS_RR_TYPE_OPT);	/* OPT pseudo-RRs go through dns_msg_optrr_add */
		ref_name(l1, l2, l3, in->name); put16(in->type); put16(in->class); put32(in->ttl); put16((uint16_t)rdlen);
		for (size_t i = 0; i < rdlen; i++) ref[ref_len++] = in->rdata[i];
		r = dns_msg_rr_add(hdr, before, CAP, 0, name, name_len, in->type, in->class, in->ttl, (uint16_t)rdlen,
		    (void *)in->rdata, &after);
	}
	if (expect_fail) {
		V_ASSERT(r == EOVERFLOW, "buffer one byte too short: the add is refused with EOVERFLOW");
		V_ASSERT(after == ref_len, "EOVERFLOW reports the message size that would be needed");
		V_ASSERT(0 == memcmp(snapshot, msg_store, before), "refused add leaves the message built so far untouched");
		ref_len = ref_before;
		done[k] = 0;
		return;
	}
	V_ASSERT(r == 0, "add into a sufficiently large buffer succeeds");
	if (r != 0) { ref_len = ref_before; done[k] = 0; return; }
	V_ASSERT(after == ref_len, "reported message size = size of the RFC encoding");
	done[k] = 1; off[k] = before; len[k] = after - before;
	*msg_size = after;
	switch (op) {	/* dns_msg_question_add counts the question itself; for RRs the caller names the section (dns_resolv.c) */
	case 'Q': cnt[0]++; break;
	case 'R': dns_hdr_an_inc(hdr, 1); cnt[1]++; break;
	case 'N': dns_hdr_ns_inc(hdr, 1); cnt[2]++; break;
	default: dns_hdr_ar_inc(hdr, 1); cnt[3]++; break;
	}
}

static void chk_op(int k, int op, size_t l1, size_t l2, size_t l3, size_t rdlen, size_t msg_size) {
	dns_hdr_p hdr = (dns_hdr_p)msg_store;
	const struct op_in *in = &IN.op[k];
	uint8_t exp_name[MAXNAME + 3], got[MAXNAME + 3];
	size_t exp_len = mk_name(exp_name, in->name, l1, l2, l3);
	size_t got_len = exp_len + 2;	/* the library wants room for the name, a transient trailing dot and the NUL */
	uint16_t t = 0x5a5a, c = 0x5a5a, ds = 0x5a5a;
	uint32_t ttl = 0x5a5a5a5a;
	void *data = NULL;
	size_t sz = 777;
	int r;

	if (!done[k]) return;
	memset(got, 0xee, sizeof(got));
	if (op == 'Q') {
		r = dns_msg_question_get_data(hdr, msg_size, off[k], got, &got_len, &t, &c, &sz);
		V_ASSERT(r == 0, "question parses back");
		V_ASSERT(got_len == exp_len && 0 == memcmp(got, exp_name, exp_len) && got[exp_len] == 0, "question name round-trips");
		V_ASSERT(t == in->type && c == in->class, "question type and class round-trip");
		V_ASSERT(sz == len[k], "question size = encoded size");
		return;
	}
	if (op == 'O') got_len = 2;
	r = dns_msg_rr_get_data(hdr, msg_size, off[k], got, &got_len, &t, &c, &ttl, &ds, &data, &sz);
	V_ASSERT(r == 0, "resource record parses back");
	V_ASSERT(sz == len[k], "record size = encoded size");
	V_ASSERT(ds == rdlen && (rdlen == 0 || 0 == memcmp(data, in->rdata, rdlen)), "RDATA length and bytes round-trip");
	V_ASSERT((uint8_t *)data == msg_store + off[k] + len[k] - rdlen, "RDATA pointer = last rdlength bytes of the record");
	if (op == 'O') {
		V_ASSERT(got_len == 0 && got[0] == 0, "OPT owner name is the root");
		V_ASSERT(t == DNS_RR_TYPE_OPT && c == in->udp, "OPT: type 41, class = UDP payload size");
	} else {
		V_ASSERT(got_len == exp_len && 0 == memcmp(got, exp_name, exp_len) && got[exp_len] == 0, "owner name round-trips");
		V_ASSERT(t == in->type && c == in->class && ttl == in->ttl, "type, class and TTL round-trip");
	}
}

void harness(void) {
	V_BEGIN();
	dns_hdr_p hdr = (dns_hdr_p)msg_store;
	size_t msg_size = 777;
	dns_hdr_flags_t fl;

	V_ASSUME(IN.qr <= 1 && IN.opcode <= 15 && IN.aa <= 1 && IN.tc <= 1 && IN.rd <= 1 && IN.ra <= 1 && IN.z <= 1 &&
	    IN.ad <= 1 && IN.cd <= 1 && IN.rcode <= 15);
	fl.u16 = 0;
	fl.bits.qr = IN.qr; fl.bits.opcode = IN.opcode; fl.bits.aa = IN.aa; fl.bits.tc = IN.tc; fl.bits.rd = IN.rd;
	fl.bits.ra = IN.ra; fl.bits.z = IN.z; fl.bits.ad = IN.ad; fl.bits.cd = IN.cd; fl.bits.rcode = IN.rcode;

	int r = dns_hdr_create(IN.id, fl.u16, hdr, CAP, &msg_size);
#if CAP < 12
	V_ASSERT(r == EOVERFLOW && msg_size == 12, "buffer shorter than a header: EOVERFLOW, needed size 12");
	V_WITNESS("header does not fit");
	return;
#else
	V_ASSERT(r == 0 && msg_size == 12, "header created, 12 bytes");
	/* reference header; ID is an opaque 16-bit cookie (stored and read back unchanged), flags per RFC 1035 4.1.1 */
	ref_len = 0;
	ref[ref_len++] = msg_store[0]; ref[ref_len++] = msg_store[1];
	V_ASSERT(dns_hdr_id_get(hdr) == IN.id, "ID reads back");
	ref[ref_len++] = (uint8_t)((IN.qr << 7) | (IN.opcode << 3) | (IN.aa << 2) | (IN.tc << 1) | IN.rd);
	ref[ref_len++] = (uint8_t)((IN.ra << 7) | (IN.z << 6) | (IN.ad << 5) | (IN.cd << 4) | IN.rcode);
	for (int i = 0; i < 8; i++) ref[ref_len++] = 0;

	do_op(0, OP1, L11, L12, L13, RD1, &msg_size, SHORT && NOPS == 1);
#if OP2
	do_op(1, OP2, L21, L22, L23, RD2, &msg_size, SHORT && NOPS == 2);
#endif
#if OP3
	do_op(2, OP3, L31, L32, L33, RD3, &msg_size, SHORT && NOPS == 3);
#endif
	/* counters of the reference header = successful adds */
	ref[4] = 0; ref[5] = (uint8_t)cnt[0]; ref[6] = 0; ref[7] = (uint8_t)cnt[1];
	ref[8] = 0; ref[9] = (uint8_t)cnt[2]; ref[10] = 0; ref[11] = (uint8_t)cnt[3];

	V_ASSERT(msg_size == ref_len, "message size = size of the RFC 1035 encoding");
	V_ASSERT(0 == memcmp(msg_store, ref, ref_len), "message is byte-identical to the RFC 1035 (and RFC 2671 OPT) encoding");
	V_ASSERT(dns_hdr_qd_get(hdr) == cnt[0] && dns_hdr_an_get(hdr) == cnt[1] && dns_hdr_ns_get(hdr) == cnt[2] &&
	    dns_hdr_ar_get(hdr) == cnt[3], "header counters = number of successful adds per section");
	V_ASSERT(dns_hdr_flags_get(hdr) == fl.u16 && dns_hdr_rcode_get(hdr) == IN.rcode, "flags and rcode read back");

	V_ASSERT(0 == dns_msg_validate(hdr, msg_size), "the library's own validation accepts the message");
	size_t qd = 777, an = 777, ns = 777, ar = 777, rrc = 777, real = 777;
	r = dns_msg_info_get(hdr, msg_size, &qd, &an, &ns, &ar, &rrc, &real);
	V_ASSERT(r == 0 && real == msg_size, "dns_msg_info_get: real size = message size");
	V_ASSERT(rrc == cnt[1] + cnt[2] + cnt[3], "dns_msg_info_get: record count = answers + authority + additional");
	{	/* section offsets: sections appear in the order the shape adds them (jobs.py only generates Q* R* N* A|O*) */
		size_t e_an = 12, e_ns, e_ar;
		int ops[3] = { OP1, OP2, OP3 };
		for (int k = 0; k < 3; k++) if (done[k] && ops[k] == 'Q') e_an += len[k];
		e_ns = e_an;
		for (int k = 0; k < 3; k++) if (done[k] && ops[k] == 'R') e_ns += len[k];
		e_ar = e_ns;
		for (int k = 0; k < 3; k++) if (done[k] && ops[k] == 'N') e_ar += len[k];
		V_ASSERT(qd == 12 && an == e_an && ns == e_ns && ar == e_ar, "dns_msg_info_get: section offsets");
	}
	chk_op(0, OP1, L11, L12, L13, RD1, msg_size);
#if OP2
	chk_op(1, OP2, L21, L22, L23, RD2, msg_size);
#endif
#if OP3
	chk_op(2, OP3, L31, L32, L33, RD3, msg_size);
#endif
	if (SHORT) V_WITNESS("last add refused, rest intact");
	else V_WITNESS("all adds accepted, message identical and parsed back");
#endif
}
