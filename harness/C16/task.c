/* C16: read/write and send/receive tasks of src/threadpool/threadpool_task.c, one or two handler invocations starting
 * from an arbitrary valid io_buf / task state.
 *
 * Real code executed: tp_task_create, tp_task_start_ex, tp_task_restart, tp_task_stop, tp_task_enable,
 *   tp_task_rw_handler / tp_task_sr_handler -> tp_task_handler -> tp_task_handler_pre_int / _post_int, io_buf.h macros,
 *   SKT_ERR_FILTER, tp_task_cb_check.
 * Stubs (environment): pread / recv / pwrite / send return any ios in {-1} u [0, requested] with any errno and move
 *   bytes of a ghost stream; the tpt_ev_* layer (decided in C06) is replaced by a recorder that returns solver-chosen
 *   results and tracks registered / enabled for the task's two udata (I/O and timer).
 *
 * Shape: SIZE (buffer bytes, <= 8), TYPE (0 = rw: pread/pwrite, 1 = sr: recv/send), EVENT (TP_EV_READ/TP_EV_WRITE),
 *        MODE (0: event handler called as tpt_loop would, NSTEPS times; 1: tp_task_start_ex(shedule_first_io = 0);
 *              2: tp_task_restart / tp_task_enable / tp_task_stop control calls).
 */
#include "verif.h"
#include <sys/param.h>
#include <sys/socket.h>
#include <sys/types.h>
#include <sys/uio.h>
#include <inttypes.h>
#include <unistd.h>
#include <string.h>
#include <errno.h>
#include "utils/macro.h"
#include "al/os.h"
#include "net/socket.h"
#include "threadpool/threadpool_task.h"

#ifndef SIZE
#define SIZE 4
#endif
#ifndef TYPE
#define TYPE 1
#endif
#ifndef EVENT
#define EVENT TP_EV_READ
#endif
#ifndef MODE
#define MODE 0
#endif
#ifndef NSTEPS
#define NSTEPS 1
#endif
#define NSYS (NSTEPS * (SIZE + 1) + 1)	/* I/O system calls: every call but the last of a round moves >= 1 byte */
#define NEVC 12			/* tpt_ev_* calls */
#define NCB 3			/* callbacks */

struct evin_s { uint16_t flags; uint32_t fflags; uint8_t is_timer; };
struct in_s {
	/* io_buf state */
	uint8_t		data[SIZE];
	uint8_t		used, offset, transfer_size;	/* (narrow types: the values are <= SIZE anyway; constant high bits keep the adders small) */
	/* task state */
	uint16_t	event_flags;
	uint32_t	flags;
	uint64_t	timeout;
	uint32_t	file_offset;	/* bound: < 2^32 */
	uint32_t	tot;		/* bound: < 2^32 */
	/* events delivered */
	struct evin_s	ev[NSTEPS];
	/* environment */
	int8_t		ios[NSYS];	/* -1 or 0..requested (<= SIZE) */
	int32_t		io_errno[NSYS];
	uint8_t		sb[NSTEPS][SIZE];	/* ghost stream of each round, indexed by the buffer position it belongs to (see io_call) */
	int32_t		ev_ret[NEVC];
	int32_t		cb_ret[NCB];
	int32_t		errno0;
	uint8_t		ctl;	/* MODE 2: which control call */
	uint8_t		enable;
};
#include "verif_in.h"

/* assert, then let later obligations use the fact (sound: the assertion itself is an obligation of the -mv job) */
#define V_CHECK(c, msg) do { V_ASSERT(c, msg); V_ASSUME(c); } while (0)

#include "evrec.h"	/* recorder for the tpt_ev_* layer (+ macro redirection of tpt_ev_*) */

/* ---------------- I/O system calls over a ghost stream ---------------- */
static uint8_t *g_data;			/* the io_buf's data (exactly SIZE bytes) */
static int n_sys;
static int g_ev_eof;			/* the pool flagged EOF (EPOLLHUP/RDHUP) for the event being handled */
/* Ghost stream.  The k-th byte that arrives in a round must land at buffer position off0 + k (off0 = buffer offset when
 * the round began) - that each request really is issued at [off0 + bytes so far, ...) is asserted separately.  The stream
 * of a round is therefore stored indexed by buffer position: byte k of the round's stream is IN.sb[round][off0 + k].
 * This is only a re-indexing of an arbitrary stream (off0 and the contents are both solver variables), and it lets the
 * stub copy with concrete array indices; a literal stream[pos + i] with solver-dependent pos and length made SIZE = 8
 * time out [measured].  Writes: the bytes handed to the kernel are recorded per buffer position with an emission count. */
static size_t g_pos;			/* bytes consumed (reads) / emitted (writes) so far, all rounds */
static int g_round;
static uint8_t g_out[SIZE];		/* byte emitted from buffer position p (write/send) */
static int g_out_cnt[SIZE];		/* how often position p was emitted in the current round */
static int sys_kind[NSYS], sys_fd[NSYS], sys_flags[NSYS];
static size_t sys_off[NSYS], sys_len[NSYS];	/* buffer offset (ptr - data) and length requested */
static int64_t sys_foff[NSYS], sys_ret[NSYS];
enum { K_PREAD, K_RECV, K_PWRITE, K_SEND };

static ssize_t io_call(int kind, int fd, void *buf, size_t len, int flags, off_t foff) {
	int k = n_sys++;
	V_ASSERT(k < NSYS, "call budget: I/O system calls");
	if (k >= NSYS) exit(5);
	V_ASSERT((uint8_t *)buf >= g_data && (uint8_t *)buf <= g_data + SIZE && len <= (size_t)(g_data + SIZE - (uint8_t *)buf),
	    "I/O request lies inside the caller's buffer");
	V_ASSERT(len > 0, "no zero-length I/O request");
	sys_kind[k] = kind; sys_fd[k] = fd; sys_flags[k] = flags; sys_off[k] = (size_t)((uint8_t *)buf - g_data);
	sys_len[k] = len; sys_foff[k] = foff;
	int64_t r = IN.ios[k];
	V_ASSUME(r >= -1 && r <= (int64_t)len);
	sys_ret[k] = r;
	if (r < 0) {
		V_ASSUME(IN.io_errno[k] >= 0 && IN.io_errno[k] < 4096);
		/* after EPOLLHUP/EPOLLRDHUP a descriptor answers with data, 0 or a hard error - never "try again" */
		if (g_ev_eof) V_ASSUME(!(IN.io_errno[k] == EAGAIN || IN.io_errno[k] == EWOULDBLOCK || IN.io_errno[k] == EBUSY || IN.io_errno[k] == EINTR));
		errno = IN.io_errno[k];
		return (-1);
	}
	size_t b = sys_off[k];
	for (size_t p = 0; p < SIZE; p++) {
		if (p < b || p >= b + (size_t)r) continue;
		if (kind == K_PREAD || kind == K_RECV) g_data[p] = IN.sb[g_round][p];
		else { g_out[p] = g_data[p]; g_out_cnt[p]++; }
	}
	g_pos += (size_t)r;
	return ((ssize_t)r);
}
static ssize_t v_pread(int fd, void *buf, size_t n, off_t off) { return (io_call(K_PREAD, fd, buf, n, 0, off)); }
static ssize_t v_recv(int fd, void *buf, size_t n, int fl) { return (io_call(K_RECV, fd, buf, n, fl, 0)); }
static ssize_t v_pwrite(int fd, const void *buf, size_t n, off_t off) { return (io_call(K_PWRITE, fd, (void *)(uintptr_t)buf, n, 0, off)); }
static ssize_t v_send(int fd, const void *buf, size_t n, int fl) { return (io_call(K_SEND, fd, (void *)(uintptr_t)buf, n, fl, 0)); }
static int n_close;
static int v_close(int fd) { (void)fd; n_close++; return (0); }
static int v_skt_accept(uintptr_t s, sockaddr_storage_t *a, socklen_t *l, uint32_t f, uintptr_t *r) {
	(void)s; (void)a; (void)l; (void)f; (void)r; return (EAGAIN);	/* accept/connect variants: not exercised in this file */
}
static int v_skt_connect(const sockaddr_storage_t *a, int t, int p, uint32_t f, uintptr_t *r) {
	(void)a; (void)t; (void)p; (void)f; (void)r; return (ECONNREFUSED);
}
static ssize_t v_recvfrom(int fd, void *b, size_t n, int fl, struct sockaddr *a, socklen_t *l) {
	(void)fd; (void)b; (void)n; (void)fl; (void)a; (void)l; errno = EAGAIN; return (-1);
}

#define pread		v_pread
#define recv		v_recv
#define pwrite		v_pwrite
#define send		v_send
#define recvfrom	v_recvfrom
#define close		v_close
#define skt_accept	v_skt_accept
#define skt_connect	v_skt_connect

/* tp_task_create()'s calloc hands out one static, zeroed, typed tp_task_t (a calloc'ed block is an untyped byte array for
 * CBMC: 1.7x more variables [measured]); free() is recorded.  Allocation failure and heap lifetime are outside C16. */
static void *v_calloc_task(size_t n, size_t sz);
static void v_free_task(void *p);
#define calloc	v_calloc_task
#define free	v_free_task
#include "threadpool/threadpool_task.c"	/* the code under test */
#undef calloc
#undef free
static tp_task_t task_store;
static int n_task_alloc, n_task_free;
static void *v_calloc_task(size_t n, size_t sz) {
	V_ASSERT(n * sz == sizeof(tp_task_t) && n_task_alloc == 0, "one task object of the right size is allocated");
	n_task_alloc++;
	memset(&task_store, 0, sizeof(task_store));
	return ((void *)&task_store);
}
static void v_free_task(void *p) { V_ASSERT(p == (void *)&task_store && n_task_free == 0, "the task object is freed once"); n_task_free++; }

/* Referenced by tp_task_bind_accept_*create (not exercised here: they only compose skt_bind/skt_listen with
 * tp_task_accept_create); present for the native link of the replay only. */
int skt_bind(const sockaddr_storage_t *a, int t, int p, uint32_t f, uintptr_t *r) { (void)a; (void)t; (void)p; (void)f; (void)r; abort(); return (0); }
int skt_listen(uintptr_t s, int b) { (void)s; (void)b; abort(); return (0); }
int skt_opts_apply_ex(const uintptr_t s, const uint32_t m, const skt_opts_p o, const sa_family_t fam, uint32_t *e) {
	(void)s; (void)m; (void)o; (void)fam; (void)e; abort(); return (0); }
size_t tp_thread_count_max_get(tp_p tp) { (void)tp; abort(); return (0); }
tpt_p tp_thread_get(tp_p tp, const size_t n) { (void)tp; (void)n; abort(); return (NULL); }
tpt_p tp_thread_get_rr(tp_p tp) { (void)tp; abort(); return (NULL); }

/* ---------------- callback ---------------- */
static int cb_error[NCB], cb_ret_v[NCB], cb_nsys[NCB];
static uint32_t cb_eof[NCB];
static size_t cb_tr[NCB];
static io_buf_p cb_buf[NCB];
static tp_task_p cb_task[NCB];
static void *cb_udata[NCB];
static int task_cb(tp_task_p t, int error, io_buf_p buf, uint32_t eof, size_t transfered_size, void *udata) {
	int k = n_cb++;
	V_ASSERT(k < NCB, "call budget: callbacks");
	if (k >= NCB) exit(5);
	cb_task[k] = t; cb_error[k] = error; cb_buf[k] = buf; cb_eof[k] = eof; cb_tr[k] = transfered_size; cb_udata[k] = udata;
	cb_nsys[k] = n_sys;
	cb_ret_v[k] = IN.cb_ret[k];
	return (IN.cb_ret[k]);
}

static int udata_cookie;
static char tpt_placeholder[8];	/* tpt_p is an opaque pointer for the task layer: it never looks inside */
static int evc_all_ok(int from) { for (int k = from; k < NEVC; k++) { if (k >= n_evc) break; if (evc_ret[k] != 0) return (0); } return (1); }

static int is_filtered(int e) { return (e == EAGAIN || e == EWOULDBLOCK || e == EBUSY || e == EINTR); }

void harness(void) {
	V_BEGIN();
	V_ASSUME(IN.errno0 >= 0 && IN.errno0 < 4096);
	errno = IN.errno0;
	the_tpt = (tpt_p)(void *)tpt_placeholder;

	/* io_buf: arbitrary valid state */
	static io_buf_t iob;
	g_data = v_buf(IN.data, SIZE);
	io_buf_init(&iob, 0, g_data, SIZE);
	V_ASSUME(IN.used <= SIZE && IN.offset <= SIZE && IN.transfer_size <= SIZE - IN.offset);
	iob.used = (size_t)IN.used; iob.offset = (size_t)IN.offset; iob.transfer_size = (size_t)IN.transfer_size;
	uint8_t snap[SIZE];
	size_t off0, tr0, used0, tot0, pos0;
	int64_t foff0;
	int evc0, step_cb0, step_sys0;

	/* task */
	tp_task_p t = NULL;
	/* (called by name below: a call through a tp_cb variable would make CBMC encode all seven handlers) */
#if TYPE
#define hnd tp_task_sr_handler
#else
#define hnd tp_task_rw_handler
#endif
	V_ASSUME((IN.flags & ~(TP_TASK_F_CLOSE_ON_DESTROY | TP_TASK_F_CB_AFTER_EVERY_READ)) == 0);
	int r = tp_task_create(the_tpt, 7, hnd, IN.flags, &udata_cookie, &t);
	V_ASSUME(r == 0 && t != NULL);	/* allocation failure: outside */
	ud_io = &t->tp_data; ud_tm = &t->tp_timer;
	uint16_t efl = IN.event_flags;
	V_ASSUME((efl & ~(TP_F_ONESHOT | TP_F_DISPATCH)) == 0 && efl != (TP_F_ONESHOT | TP_F_DISPATCH));

#define CAPTURE() do { off0 = iob.offset; tr0 = iob.transfer_size; used0 = iob.used; foff0 = (int64_t)t->offset; \
	tot0 = t->tot_transfered_size; pos0 = g_pos; evc0 = n_evc; step_cb0 = n_cb; step_sys0 = n_sys; memcpy(snap, g_data, SIZE); \
	for (int q = 0; q < SIZE; q++) g_out_cnt[q] = 0; } while (0)
#if MODE == 1
	/* first I/O without scheduling */
	CAPTURE(); foff0 = (int64_t)IN.file_offset; tot0 = 0;
	r = tp_task_start_ex(0, t, EVENT, efl, IN.timeout, (off_t)IN.file_offset, &iob, task_cb);
#else
	/* a started task: tp_task_start_ex(1, ...) registers, then state as left by earlier rounds */
	r = tp_task_start_ex(1, t, EVENT, efl, IN.timeout, (off_t)IN.file_offset, &iob, task_cb);
	V_ASSUME(r == 0);
	V_ASSERT(n_cb == 0 && n_sys == 0, "scheduling does no I/O and no callback");
	t->tot_transfered_size = (size_t)IN.tot;	/* accumulated by earlier rounds that ended without a callback */
#endif

#if MODE == 0 || MODE == 1
    for (int st = 0; st < NSTEPS; st++) {
#if MODE == 0
	CAPTURE();
	g_round = st;
	struct evin_s *ei = &IN.ev[st];
	tp_event_t ev;
	int is_timer = (ei->is_timer != 0);
	if (is_timer) {
		V_ASSUME(IN.timeout != 0 && m_reg[1] && m_en[1]);	/* only an armed timer fires (C06) */
		ev.event = TP_EV_TIMER; ev.flags = 0; ev.fflags = 0; ev.data = 1;
		if (efl & TP_F_DISPATCH) ;	/* (timer itself is registered with TP_F_DISPATCH: tpt_loop marked it disabled) */
		m_en[1] = 0;
		hnd(&ev, ud_tm);
	} else {
		V_ASSUME(m_reg[0] && m_en[0]);
		V_ASSUME((ei->flags & ~(TP_F_EOF | TP_F_ERROR)) == 0);
		ev.event = EVENT; ev.flags = ei->flags; ev.data = UINT64_MAX;	/* what tpt_loop passes on Linux (C06) */
		ev.fflags = 0;
		if (ei->flags & TP_F_ERROR) { V_ASSUME(ei->fflags != 0 && ei->fflags < 4096); ev.fflags = ei->fflags; }
		/* what tpt_loop did to the registration before calling (C06 automaton) */
		if (efl & TP_F_ONESHOT) { m_reg[0] = 0; m_en[0] = 0; } else if (efl & TP_F_DISPATCH) m_en[0] = 0;
		g_ev_eof = (ei->flags & TP_F_EOF) != 0;
		hnd(&ev, ud_io);
		g_ev_eof = 0;
	}
	int ncb = n_cb - step_cb0;
	int nsys = n_sys - step_sys0;
#elif MODE == 1
	int ncb = n_cb, nsys = n_sys, is_timer = 0;
	struct evin_s ei0 = { 0, 0, 0 }, *ei = &ei0;
#endif

	/* ---- what moved ---- */
	size_t sum = 0; int hard_err = 0, soft_err = 0, zero = 0, last_errno = 0;
	for (int k = step_sys0; k < NSYS; k++) {
		if (k >= n_sys) break;
		V_ASSERT(sys_kind[k] == (EVENT == TP_EV_READ ? (TYPE ? K_RECV : K_PREAD) : (TYPE ? K_SEND : K_PWRITE)),
		    "[mv] the system call matches task type and event");
		V_ASSERT(sys_fd[k] == 7, "[mv] I/O on the task's descriptor");
		V_CHECK(sys_off[k] == off0 + sum && sys_len[k] == tr0 - sum, "[mv] each request = [current offset, +remaining transfer size)");
		if (!TYPE) V_ASSERT(sys_foff[k] == foff0 + (int64_t)sum, "[mv] file offset advances with the data");
		if (TYPE) V_ASSERT((sys_flags[k] & MSG_DONTWAIT) != 0, "[mv] socket I/O is non-blocking");
		V_CHECK(!hard_err && !soft_err && !zero, "[mv] no I/O after an error or end of stream in the same round");
		if (sys_ret[k] > 0) sum += (size_t)sys_ret[k];
		else if (sys_ret[k] == 0) zero = 1;
		else { last_errno = IN.io_errno[k] ? IN.io_errno[k] : EINVAL; if (is_filtered(last_errno)) soft_err = 1; else hard_err = 1; }
	}
	V_CHECK(iob.offset == off0 + sum, "[mv] buffer offset advanced by the bytes moved");
	V_CHECK(iob.transfer_size == tr0 - sum, "[mv] transfer size reduced by the bytes moved");
	V_ASSERT(iob.offset + iob.transfer_size <= SIZE && iob.used <= SIZE, "[mv] cursors stay inside the buffer");
	if (EVENT == TP_EV_READ) V_ASSERT(iob.used == (used0 + sum < SIZE ? used0 + sum : SIZE), "[mv] used grows by the bytes read (capped at size)");
	else V_ASSERT(iob.used == used0, "[mv] writing does not change used");
	V_ASSERT(t->offset == (off_t)(foff0 + (int64_t)sum), "[mv] task offset advanced by the bytes moved");
	for (size_t i = 0; i < SIZE; i++) {
		if (EVENT == TP_EV_READ && i >= off0 && i < off0 + sum)
			V_ASSERT(g_data[i] == IN.sb[st][i], "[mv] bytes read are the next bytes of the stream, in order, at the window");
		else
			V_ASSERT(g_data[i] == snap[i], "[mv] bytes outside the transferred window are untouched");
	}
	if (EVENT == TP_EV_WRITE)
		for (size_t i = 0; i < SIZE; i++) {
			if (i >= off0 && i < off0 + sum) V_ASSERT(g_out_cnt[i] == 1 && g_out[i] == snap[i], "[mv] bytes written are the buffer window, each once, in order");
			else V_ASSERT(g_out_cnt[i] == 0, "[mv] nothing outside the window is written");
		}

	/* ---- callbacks ---- */
	V_ASSERT(ncb <= 1, "[cb] at most one callback per event");
	int must_cb = is_timer || hard_err || zero || (MODE == 0 && nsys == 0) || (tr0 - sum == 0 && sum > 0) ||
	    (EVENT == TP_EV_READ && (IN.flags & TP_TASK_F_CB_AFTER_EVERY_READ) && sum > 0);
	/* socket error / EOF flagged by the pool must be reported even when the I/O call itself says "try again" */
	if (!is_timer && (ei->flags & (TP_F_EOF | TP_F_ERROR))) must_cb = 1;
#ifdef KF_TASK_ERR_DROPPED	/* known finding task-error-dropped: a socket error flagged by the pool is lost when the I/O call
				 * then answers EAGAIN-class (blocking clause) */
	V_ASSUME(!(!is_timer && (ei->flags & TP_F_ERROR) && !(ei->flags & TP_F_EOF) && soft_err));
#endif
	if (must_cb) V_ASSERT(ncb == 1, "[cb] EOF / error / timeout / completed transfer is reported by exactly one callback");
	if (ncb == 1) {
		int c = n_cb - 1;
		V_ASSERT(cb_task[c] == t && cb_buf[c] == &iob && cb_udata[c] == (void *)&udata_cookie, "[cb] callback gets task, buffer, udata");
		V_ASSERT(cb_tr[c] == tot0 + sum, "[cb] transferred size = bytes moved since the previous callback");
		V_ASSERT(t->tot_transfered_size == 0, "[cb] running total restarts after a callback");
		V_ASSERT(cb_nsys[c] == n_sys, "[cb] no I/O after the callback within the same event");
		if (is_timer) V_ASSERT(cb_error[c] == ETIMEDOUT && sum == 0, "[cb] timeout reported as ETIMEDOUT, no I/O attempted");
		else if (hard_err) V_ASSERT(cb_error[c] == last_errno, "[cb] I/O error code reported");
		else if (ei->flags & TP_F_ERROR) V_ASSERT(cb_error[c] == (int)ei->fflags, "[cb] socket error from the pool reported");
		else V_ASSERT(cb_error[c] == 0, "[cb] no error reported without an error");
		if (!is_timer && (ei->flags & TP_F_EOF)) V_ASSERT((cb_eof[c] & TP_TASK_IOF_F_SYS) != 0, "[cb] pool EOF flag forwarded");
		else V_ASSERT((cb_eof[c] & TP_TASK_IOF_F_SYS) == 0, "[cb] no system EOF without the pool flag");
		if (EVENT == TP_EV_READ && zero) V_ASSERT((cb_eof[c] & TP_TASK_IOF_F_BUF) != 0, "[cb] read returning 0 reported as end of stream");
		else V_ASSERT((cb_eof[c] & TP_TASK_IOF_F_BUF) == 0, "[cb] no end of stream reported otherwise");
		if (is_timer) V_WITNESS("timeout callback");
		if (hard_err) V_WITNESS("I/O error callback");
		if (zero) V_WITNESS("end of stream callback");
		if (sum == tr0 && sum > 0) V_WITNESS("transfer completed");
		if (sum > 0 && nsys > 1) V_WITNESS("fragmented transfer");
	} else {
		V_ASSERT(t->tot_transfered_size == tot0 + sum, "[cb] without a callback the bytes moved are carried to the next one");
		V_ASSERT(soft_err || (MODE == 1 && nsys == 0 && tr0 == 0), "[cb] a round ends without callback only on EAGAIN-class results (or nothing to transfer at start)");
		V_WITNESS("would-block: no callback");
	}

	/* ---- re-arm ---- */
	int cont = (ncb == 0) || (cb_ret_v[n_cb - 1] == TP_TASK_CB_CONTINUE);
#if MODE == 0
	/* registrations touched before the callback (mutual disabling of timer and I/O) */
	int pre_timer_off = 0, pre_io_off = 0, post_timer_on = 0, post_io_on = 0, post_other = 0;
	int cb_mark = (ncb == 1) ? n_cb - 1 : n_cb;	/* calls recorded with n_cb <= cb_mark precede the callback */
	for (int k = evc0; k < NEVC; k++) {
		if (k >= n_evc) break;
		int before = (ncb == 1) ? (evc_after_cb[k] <= cb_mark) : !(evc_fn[k] >= F_ENABLE_ARGS && evc_enable[k]);
		if (before) {
			if (evc_ud[k] == 1 && (evc_fn[k] == F_DEL_ARGS1 || (evc_fn[k] == F_ENABLE_ARGS1 && !evc_enable[k])) && evc_event[k] == TP_EV_TIMER) pre_timer_off++;
			else if (evc_ud[k] == 0 && (evc_fn[k] == F_DEL_ARGS1 || (evc_fn[k] == F_ENABLE_ARGS1 && !evc_enable[k])) && evc_event[k] == EVENT) pre_io_off++;
			else V_ASSERT(0, "[arm] only disable/delete calls precede the callback");
		} else {
			if (evc_ud[k] == 1 && evc_fn[k] == F_ENABLE_ARGS && evc_enable[k] && evc_event[k] == TP_EV_TIMER &&
			    evc_flags[k] == TP_F_DISPATCH && evc_fflags[k] == TP_FF_T_MSEC && evc_data[k] == IN.timeout) post_timer_on++;
			else if (evc_ud[k] == 0 && evc_fn[k] == F_ENABLE_ARGS1 && evc_enable[k] && evc_event[k] == EVENT) post_io_on++;
			else post_other++;
		}
	}
	if (is_timer) V_ASSERT(pre_io_off >= 1 && pre_timer_off <= ((efl & TP_F_ONESHOT) ? 1 : 0), "[arm] timeout: the I/O event is disabled (or the task stopped) before the callback");
	else V_ASSERT(pre_timer_off == (IN.timeout != 0 ? 1 : 0) && pre_io_off == 0, "[arm] I/O event: the timeout timer is disabled/removed before the callback iff a timeout is set");
	V_ASSERT(post_other == 0, "[arm] no unrelated registration calls");
	if (!cont) {
		V_ASSERT(post_timer_on == 0 && post_io_on == 0, "[arm] nothing is re-armed unless the callback returns CONTINUE");
		V_WITNESS("callback ended the task");
	} else if (!(efl & TP_F_ONESHOT)) {	/* (the header forbids CONTINUE with ONESHOT) */
		V_ASSERT(post_timer_on == (IN.timeout != 0 ? 1 : 0), "[arm] CONTINUE: timeout timer re-armed with the task's timeout iff one is set");
		V_ASSERT(post_io_on == (((efl & TP_F_DISPATCH) || is_timer) ? 1 : 0), "[arm] CONTINUE: I/O event re-enabled when it was disabled (dispatch / after timeout)");
		if (evc_all_ok(evc0)) {
			V_ASSERT(m_reg[0] && m_en[0], "[arm] CONTINUE: the I/O event is armed again");
			V_ASSERT((IN.timeout != 0) == (m_reg[1] && m_en[1]), "[arm] CONTINUE: the timer is armed again iff a timeout is set");
		}
		V_WITNESS("re-armed after CONTINUE");
	}
#endif
#if MODE == 1
	V_ASSERT(r == 0 || !evc_all_ok(0), "[arm] start without scheduling succeeds unless a registration call fails");
	if (ncb == 1 && !cont) {
		V_ASSERT(n_evc == 0 && r == 0, "[arm] first I/O finished the task: nothing is registered");
		V_WITNESS("first I/O completed the task without the pool");
	} else {
		/* tp_task_restart(): timer (iff timeout) then the I/O event */
		int k = 0;
		if (IN.timeout != 0) {
			V_ASSERT(n_evc >= 1 && evc_fn[0] == F_ADD_ARGS && evc_ud[0] == 1 && evc_event[0] == TP_EV_TIMER && evc_flags[0] == TP_F_DISPATCH &&
			    evc_fflags[0] == TP_FF_T_MSEC && evc_data[0] == IN.timeout, "[arm] restart arms the timeout timer (ms, dispatch)");
			k = 1;
		}
		if (IN.timeout == 0 || evc_ret[0] == 0)
			V_ASSERT(n_evc > k && evc_fn[k] == F_ADD_ARGS2 && evc_ud[k] == 0 && evc_event[k] == EVENT && evc_flags[k] == efl,
			    "[arm] restart registers the I/O event with the task's flags");
		if (r == 0) V_ASSERT(m_reg[0] && m_en[0] && (IN.timeout != 0) == (m_reg[1] && m_en[1]), "[arm] after a successful start the task is armed");
		else V_ASSERT(!m_reg[0] && !m_reg[1], "[arm] a failed start leaves nothing registered");
		V_WITNESS("first I/O then scheduled");
	}
#endif
	if (st == 0) V_WITNESS_MUST("round completed");
	if (st > 0) V_WITNESS("second round completed");
	/* a further event can only arrive while the task is armed */
	if (!cont || (efl & TP_F_ONESHOT)) break;
    }
#endif

#if MODE == 2
	evc0 = n_evc;
	/* control calls on a started task: enable / disable, stop, restart, destroy */
	V_ASSUME(IN.ctl <= 3);
	int cb0 = n_cb;
	if (IN.ctl == 0) {
		int rr = tp_task_enable(t, IN.enable);
		int k = evc0;
		if (IN.timeout != 0) {
			V_ASSERT(evc_fn[k] == F_ENABLE_ARGS && evc_ud[k] == 1 && evc_event[k] == TP_EV_TIMER && evc_enable[k] == (IN.enable != 0) &&
			    evc_flags[k] == TP_F_DISPATCH && evc_fflags[k] == TP_FF_T_MSEC && evc_data[k] == IN.timeout, "enable: timer first, with the task's timeout");
			k++;
		}
		if (IN.timeout == 0 || evc_ret[evc0] == 0)
			V_ASSERT(n_evc > k && evc_fn[k] == F_ENABLE_ARGS1 && evc_ud[k] == 0 && evc_event[k] == EVENT && evc_enable[k] == (IN.enable != 0), "enable: then the I/O event");
		V_ASSERT((rr == 0) == evc_all_ok(evc0), "enable reports the first failure");
		if (rr == 0 && IN.enable) V_ASSERT(m_en[0] && (IN.timeout != 0) == m_en[1], "enabled task: I/O armed, timer armed iff timeout");
		if (rr == 0 && !IN.enable) V_ASSERT(!m_en[0] && !m_en[1], "disabled task: nothing armed");
		if (rr != 0) V_ASSERT(!m_en[1], "failed enable does not leave the timeout timer running alone");
		if (rr != 0) V_WITNESS("enable failed"); else V_WITNESS("enable/disable succeeded");
	} else if (IN.ctl == 1) {
		tp_task_stop(t);
		V_ASSERT(!m_reg[0] && !m_reg[1], "after stop nothing of the task is registered (no further callback possible)");
		V_WITNESS("stopped");
	} else if (IN.ctl == 2) {
		tp_task_stop(t);
		int e1 = n_evc;
		int rr = tp_task_restart(t);
		V_ASSERT((rr == 0) == evc_all_ok(e1), "restart reports the first failure");
		if (rr == 0) V_ASSERT(m_reg[0] && m_en[0] && (IN.timeout != 0) == (m_reg[1] && m_en[1]), "restarted task is armed");
		else V_ASSERT(!m_reg[0] && !m_reg[1], "a failed restart leaves nothing registered");
		if (rr != 0) V_WITNESS("restart failed"); else V_WITNESS("restarted");
	} else {
		int c0 = n_close;
		tp_task_destroy(t);
		V_ASSERT(!m_reg[0] && !m_reg[1], "after destroy nothing of the task is registered");
		V_ASSERT((n_close - c0) == ((IN.flags & TP_TASK_F_CLOSE_ON_DESTROY) ? 1 : 0), "descriptor closed iff CLOSE_ON_DESTROY");
		V_ASSERT(n_task_free == 1, "destroy releases the task object");
		V_WITNESS("destroyed");
	}
	V_ASSERT(n_cb == cb0 && n_sys == 0, "control calls do no I/O and call nothing back");
	V_WITNESS_MUST("control call completed");
#endif
}
