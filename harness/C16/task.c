/* C16: read/write and send/receive tasks of src/threadpool/threadpool_task.c, one or two handler invocations starting
 * from an arbitrary valid io_buf / task state.
 *
 * Real code executed: tp_task_create, tp_task_start_ex, tp_task_restart, tp_task_stop, tp_task_enable,
 *   tp_task_rw_handler / tp_task_sr_handler -> tp_task_handler -> tp_task_handler_pre_int / _post_int, io_buf.h macros,
 *   SKT_ERR_FILTER, tp_task_cb_check.
 * Stubs (environment): pread / recv / pwrite / send return any ios in {-1} u [0, requested] with any errno and move
 *   bytes of a ghost stream; the tpt_ev_* layer (decided in C06) is replaced by a recorder that returns solver-chosen
 *   results and tracks registered / enabled for the task's two udata (I/O and timer).
 *
 * Shape: SIZE (buffer bytes, <= 8), TYPE (0 = rw: pread/pwrite, 1 = sr: recv/send), EVENT (TP_EV_READ/TP_EV_WRITE),
 *        MODE (0: event handler called as tpt_loop would, NSTEPS times; 1: tp_task_start_ex(shedule_first_io = 0);
 *              2: tp_task_restart / tp_task_enable / tp_task_stop control calls).
 */
#include "verif.h"
#include <sys/param.h>
#include <sys/socket.h>
#include <sys/types.h>
#include <sys/uio.h>
#include <inttypes.h>
#include <unistd.h>
#include <string.h>
#include <errno.h>
#include "utils/macro.h"
#include "al/os.h"
#include "net/socket.h"
#include "threadpool/threadpool_task.h"

#ifndef SIZE
#define SIZE 4
#endif
#ifndef TYPE
#define TYPE 1
#endif
#ifndef EVENT
#define EVENT TP_EV_READ
#endif
#ifndef MODE
#define MODE 0
#endif
#ifndef NSTEPS
#define NSTEPS 1
#endif
#define NSYS (2 * SIZE + 4)	/* I/O system calls */
#define NEVC 12			/* tpt_ev_* calls */
#define NCB 3			/* callbacks */

struct evin_s { uint16_t flags; uint32_t fflags; uint8_t is_timer; };
struct in_s {
	/* io_buf state */
	uint8_t		data[SIZE];
	uint64_t	used, offset, transfer_size;
	/* task state */
	uint16_t	event_flags;
	uint32_t	flags;
	uint64_t	timeout;
	int64_t		file_offset;
	uint64_t	tot;
	/* events delivered */
	struct evin_s	ev[NSTEPS];
	/* environment */
	int64_t		ios[NSYS];
	int32_t		io_errno[NSYS];
	uint8_t		stream[NSYS * SIZE];
	int32_t		ev_ret[NEVC];
	int32_t		cb_ret[NCB];
	int32_t		errno0;
	uint8_t		ctl;	/* MODE 2: which control call */
	uint8_t		enable;
};
#include "verif_in.h"

/* ---------------- recorder for the tpt_ev_* layer ---------------- */
enum { F_ADD_ARGS, F_ADD_ARGS2, F_DEL_ARGS1, F_ENABLE_ARGS, F_ENABLE_ARGS1 };
static int evc_fn[NEVC], evc_enable[NEVC], evc_ud[NEVC], evc_ret[NEVC], evc_after_cb[NEVC];
static uint16_t evc_event[NEVC], evc_flags[NEVC];
static uint32_t evc_fflags[NEVC];
static uint64_t evc_data[NEVC];
static int n_evc, n_cb;
static tp_udata_p ud_io, ud_tm;		/* the task's two udata */
static tpt_p the_tpt;
static int m_reg[2], m_en[2];		/* model of the layer below (C06 automaton): registered / enabled */

static int evc(int fn, int enable, tpt_p tpt, uint16_t event, uint16_t flags, uint32_t fflags, uint64_t data, tp_udata_p ud) {
	int k = n_evc++;
	V_ASSERT(k < NEVC, "call budget: tpt_ev_*");
	if (k >= NEVC) exit(5);
	int u = (ud == ud_io) ? 0 : (ud == ud_tm ? 1 : 2);
	evc_fn[k] = fn; evc_enable[k] = enable; evc_ud[k] = u; evc_event[k] = event; evc_flags[k] = flags;
	evc_fflags[k] = fflags; evc_data[k] = data; evc_after_cb[k] = n_cb;
	if (fn <= F_ADD_ARGS2) V_ASSERT(tpt == the_tpt, "registrations go to the task's thread");
	int r = IN.ev_ret[k];
	V_ASSUME(r >= 0 && r < 4096);
	/* contract of the layer below (decided in C06): a foreign udata is refused; a timer call on a udata that holds no
	 * timerfd (the I/O udata) is ENOENT and changes nothing; deleting/disabling a timer that does not exist is ENOENT;
	 * delete always leaves the udata unregistered; a refused add/enable leaves nothing installed. */
	if (u == 2 || (event == TP_EV_TIMER) != (u == 1)) {
		r = (u == 2) ? EINVAL : ENOENT;
		evc_ret[k] = r;
		return (r);
	}
	if (u == 1 && !m_reg[1] && (fn == F_DEL_ARGS1 || (fn >= F_ENABLE_ARGS && !enable))) r = ENOENT;
#ifdef KF_TASK_TIMER_UDATA	/* known finding task-timer-udata: the error path of tp_task_restart / tp_task_enable removes the
				 * timer through tp_data instead of tp_timer. Blocking clause: the I/O registration/enable
				 * does not fail while the task's timer is armed. */
	V_ASSUME(!(u == 0 && r != 0 && (fn == F_ADD_ARGS2 || (fn == F_ENABLE_ARGS1 && enable)) && m_reg[1] && m_en[1]));
#endif
	evc_ret[k] = r;
	if (fn == F_DEL_ARGS1) { m_reg[u] = 0; m_en[u] = 0; }
	else if (r != 0) { if (!(u == 1 && r == ENOENT && !m_reg[1])) { m_reg[u] = 0; m_en[u] = 0; } }
	else if (fn <= F_ADD_ARGS2 || enable) { m_reg[u] = 1; m_en[u] = 1; }
	else { m_reg[u] = 1; m_en[u] = 0; }
	return (r);
}
static int v_tpt_ev_add_args(tpt_p tpt, uint16_t event, uint16_t flags, uint32_t fflags, uint64_t data, tp_udata_p ud) {
	return (evc(F_ADD_ARGS, 1, tpt, event, flags, fflags, data, ud));
}
static int v_tpt_ev_add_args2(tpt_p tpt, uint16_t event, uint16_t flags, tp_udata_p ud) {
	return (evc(F_ADD_ARGS2, 1, tpt, event, flags, 0, 0, ud));
}
static int v_tpt_ev_del_args1(uint16_t event, tp_udata_p ud) {
	return (evc(F_DEL_ARGS1, 0, NULL, event, 0, 0, 0, ud));
}
static int v_tpt_ev_enable_args(int enable, uint16_t event, uint16_t flags, uint32_t fflags, uint64_t data, tp_udata_p ud) {
	return (evc(F_ENABLE_ARGS, enable != 0, NULL, event, flags, fflags, data, ud));
}
static int v_tpt_ev_enable_args1(int enable, uint16_t event, tp_udata_p ud) {
	return (evc(F_ENABLE_ARGS1, enable != 0, NULL, event, 0, 0, 0, ud));
}

/* ---------------- I/O system calls over a ghost stream ---------------- */
static uint8_t *g_data;			/* the io_buf's data (exactly SIZE bytes) */
static int n_sys;
static int g_ev_eof;			/* the pool flagged EOF (EPOLLHUP/RDHUP) for the event being handled */
static size_t g_pos;			/* bytes of the ghost stream consumed (reads) / emitted (writes) */
static uint8_t g_out[NSYS * SIZE];	/* bytes emitted by write/send, in order */
static int sys_kind[NSYS], sys_fd[NSYS], sys_flags[NSYS];
static size_t sys_off[NSYS], sys_len[NSYS];	/* buffer offset (ptr - data) and length requested */
static int64_t sys_foff[NSYS], sys_ret[NSYS];
enum { K_PREAD, K_RECV, K_PWRITE, K_SEND };

static ssize_t io_call(int kind, int fd, void *buf, size_t len, int flags, off_t foff) {
	int k = n_sys++;
	V_ASSERT(k < NSYS, "call budget: I/O system calls");
	if (k >= NSYS) exit(5);
	V_ASSERT((uint8_t *)buf >= g_data && (uint8_t *)buf <= g_data + SIZE && len <= (size_t)(g_data + SIZE - (uint8_t *)buf),
	    "I/O request lies inside the caller's buffer");
	V_ASSERT(len > 0, "no zero-length I/O request");
	sys_kind[k] = kind; sys_fd[k] = fd; sys_flags[k] = flags; sys_off[k] = (size_t)((uint8_t *)buf - g_data);
	sys_len[k] = len; sys_foff[k] = foff;
	int64_t r = IN.ios[k];
	V_ASSUME(r >= -1 && r <= (int64_t)len);
	sys_ret[k] = r;
	if (r < 0) {
		V_ASSUME(IN.io_errno[k] >= 0 && IN.io_errno[k] < 4096);
		/* after EPOLLHUP/EPOLLRDHUP a descriptor answers with data, 0 or a hard error - never "try again" */
		if (g_ev_eof) V_ASSUME(!(IN.io_errno[k] == EAGAIN || IN.io_errno[k] == EWOULDBLOCK || IN.io_errno[k] == EBUSY || IN.io_errno[k] == EINTR));
		errno = IN.io_errno[k];
		return (-1);
	}
	for (int64_t i = 0; i < r; i++) {
		if (kind == K_PREAD || kind == K_RECV) ((uint8_t *)buf)[i] = IN.stream[g_pos + (size_t)i];
		else g_out[g_pos + (size_t)i] = ((uint8_t *)buf)[i];
	}
	g_pos += (size_t)r;
	return ((ssize_t)r);
}
static ssize_t v_pread(int fd, void *buf, size_t n, off_t off) { return (io_call(K_PREAD, fd, buf, n, 0, off)); }
static ssize_t v_recv(int fd, void *buf, size_t n, int fl) { return (io_call(K_RECV, fd, buf, n, fl, 0)); }
static ssize_t v_pwrite(int fd, const void *buf, size_t n, off_t off) { return (io_call(K_PWRITE, fd, (void *)(uintptr_t)buf, n, 0, off)); }
static ssize_t v_send(int fd, const void *buf, size_t n, int fl) { return (io_call(K_SEND, fd, (void *)(uintptr_t)buf, n, fl, 0)); }
static int n_close;
static int v_close(int fd) { (void)fd; n_close++; return (0); }
static int v_skt_accept(uintptr_t s, sockaddr_storage_t *a, socklen_t *l, uint32_t f, uintptr_t *r) {
	(void)s; (void)a; (void)l; (void)f; (void)r; return (EAGAIN);	/* accept/connect variants: not exercised in this file */
}
static int v_skt_connect(const sockaddr_storage_t *a, int t, int p, uint32_t f, uintptr_t *r) {
	(void)a; (void)t; (void)p; (void)f; (void)r; return (ECONNREFUSED);
}
static ssize_t v_recvfrom(int fd, void *b, size_t n, int fl, struct sockaddr *a, socklen_t *l) {
	(void)fd; (void)b; (void)n; (void)fl; (void)a; (void)l; errno = EAGAIN; return (-1);
}

#define tpt_ev_add_args		v_tpt_ev_add_args
#define tpt_ev_add_args2	v_tpt_ev_add_args2
#define tpt_ev_del_args1	v_tpt_ev_del_args1
#define tpt_ev_enable_args	v_tpt_ev_enable_args
#define tpt_ev_enable_args1	v_tpt_ev_enable_args1
#define pread		v_pread
#define recv		v_recv
#define pwrite		v_pwrite
#define send		v_send
#define recvfrom	v_recvfrom
#define close		v_close
#define skt_accept	v_skt_accept
#define skt_connect	v_skt_connect

#include "threadpool/threadpool_task.c"	/* the code under test */

/* Referenced by tp_task_bind_accept_*create (not exercised here: they only compose skt_bind/skt_listen with
 * tp_task_accept_create); present for the native link of the replay only. */
int skt_bind(const sockaddr_storage_t *a, int t, int p, uint32_t f, uintptr_t *r) { (void)a; (void)t; (void)p; (void)f; (void)r; abort(); return (0); }
int skt_listen(uintptr_t s, int b) { (void)s; (void)b; abort(); return (0); }
int skt_opts_apply_ex(const uintptr_t s, const uint32_t m, const skt_opts_p o, const sa_family_t fam, uint32_t *e) {
	(void)s; (void)m; (void)o; (void)fam; (void)e; abort(); return (0); }
size_t tp_thread_count_max_get(tp_p tp) { (void)tp; abort(); return (0); }
tpt_p tp_thread_get(tp_p tp, const size_t n) { (void)tp; (void)n; abort(); return (NULL); }
tpt_p tp_thread_get_rr(tp_p tp) { (void)tp; abort(); return (NULL); }

/* ---------------- callback ---------------- */
static int cb_error[NCB], cb_ret_v[NCB], cb_nsys[NCB];
static uint32_t cb_eof[NCB];
static size_t cb_tr[NCB];
static io_buf_p cb_buf[NCB];
static tp_task_p cb_task[NCB];
static void *cb_udata[NCB];
static int task_cb(tp_task_p t, int error, io_buf_p buf, uint32_t eof, size_t transfered_size, void *udata) {
	int k = n_cb++;
	V_ASSERT(k < NCB, "call budget: callbacks");
	if (k >= NCB) exit(5);
	cb_task[k] = t; cb_error[k] = error; cb_buf[k] = buf; cb_eof[k] = eof; cb_tr[k] = transfered_size; cb_udata[k] = udata;
	cb_nsys[k] = n_sys;
	cb_ret_v[k] = IN.cb_ret[k];
	return (IN.cb_ret[k]);
}

static int udata_cookie;
static char tpt_placeholder[8];	/* tpt_p is an opaque pointer for the task layer: it never looks inside */
static int evc_all_ok(int from) { for (int k = from; k < NEVC; k++) { if (k >= n_evc) break; if (evc_ret[k] != 0) return (0); } return (1); }

static int is_filtered(int e) { return (e == EAGAIN || e == EWOULDBLOCK || e == EBUSY || e == EINTR); }

void harness(void) {
	V_BEGIN();
	V_ASSUME(IN.errno0 >= 0 && IN.errno0 < 4096);
	errno = IN.errno0;
	the_tpt = (tpt_p)(void *)tpt_placeholder;

	/* io_buf: arbitrary valid state */
	static io_buf_t iob;
	g_data = v_buf(IN.data, SIZE);
	io_buf_init(&iob, 0, g_data, SIZE);
	V_ASSUME(IN.used <= SIZE && IN.offset <= SIZE && IN.transfer_size <= SIZE - IN.offset);
	iob.used = (size_t)IN.used; iob.offset = (size_t)IN.offset; iob.transfer_size = (size_t)IN.transfer_size;
	uint8_t snap[SIZE];
	size_t off0, tr0, used0, tot0, pos0;
	int64_t foff0;
	int evc0, step_cb0, step_sys0;

	/* task */
	tp_task_p t = NULL;
	/* (called by name below: a call through a tp_cb variable would make CBMC encode all seven handlers) */
#if TYPE
#define hnd tp_task_sr_handler
#else
#define hnd tp_task_rw_handler
#endif
	V_ASSUME((IN.flags & ~(TP_TASK_F_CLOSE_ON_DESTROY | TP_TASK_F_CB_AFTER_EVERY_READ)) == 0);
	int r = tp_task_create(the_tpt, 7, hnd, IN.flags, &udata_cookie, &t);
	V_ASSUME(r == 0 && t != NULL);	/* allocation failure: outside */
	ud_io = &t->tp_data; ud_tm = &t->tp_timer;
	uint16_t efl = IN.event_flags;
	V_ASSUME((efl & ~(TP_F_ONESHOT | TP_F_DISPATCH)) == 0 && efl != (TP_F_ONESHOT | TP_F_DISPATCH));
	V_ASSUME(IN.file_offset >= 0 && IN.file_offset < ((int64_t)1 << 62));
	V_ASSUME(IN.tot < ((uint64_t)1 << 62));

#define CAPTURE() do { off0 = iob.offset; tr0 = iob.transfer_size; used0 = iob.used; foff0 = (int64_t)t->offset; \
	tot0 = t->tot_transfered_size; pos0 = g_pos; evc0 = n_evc; step_cb0 = n_cb; step_sys0 = n_sys; memcpy(snap, g_data, SIZE); } while (0)
#if MODE == 1
	/* first I/O without scheduling */
	CAPTURE(); foff0 = IN.file_offset; tot0 = 0;
	r = tp_task_start_ex(0, t, EVENT, efl, IN.timeout, (off_t)IN.file_offset, &iob, task_cb);
#else
	/* a started task: tp_task_start_ex(1, ...) registers, then state as left by earlier rounds */
	r = tp_task_start_ex(1, t, EVENT, efl, IN.timeout, (off_t)IN.file_offset, &iob, task_cb);
	V_ASSUME(r == 0);
	V_ASSERT(n_cb == 0 && n_sys == 0, "scheduling does no I/O and no callback");
	t->tot_transfered_size = (size_t)IN.tot;	/* accumulated by earlier rounds that ended without a callback */
#endif

#if MODE == 0 || MODE == 1
    for (int st = 0; st < NSTEPS; st++) {
#if MODE == 0
	CAPTURE();
	struct evin_s *ei = &IN.ev[st];
	tp_event_t ev;
	int is_timer = (ei->is_timer != 0);
	if (is_timer) {
		V_ASSUME(IN.timeout != 0 && m_reg[1] && m_en[1]);	/* only an armed timer fires (C06) */
		ev.event = TP_EV_TIMER; ev.flags = 0; ev.fflags = 0; ev.data = 1;
		if (efl & TP_F_DISPATCH) ;	/* (timer itself is registered with TP_F_DISPATCH: tpt_loop marked it disabled) */
		m_en[1] = 0;
		hnd(&ev, ud_tm);
	} else {
		V_ASSUME(m_reg[0] && m_en[0]);
		V_ASSUME((ei->flags & ~(TP_F_EOF | TP_F_ERROR)) == 0);
		ev.event = EVENT; ev.flags = ei->flags; ev.data = UINT64_MAX;	/* what tpt_loop passes on Linux (C06) */
		ev.fflags = 0;
		if (ei->flags & TP_F_ERROR) { V_ASSUME(ei->fflags != 0 && ei->fflags < 4096); ev.fflags = ei->fflags; }
		/* what tpt_loop did to the registration before calling (C06 automaton) */
		if (efl & TP_F_ONESHOT) { m_reg[0] = 0; m_en[0] = 0; } else if (efl & TP_F_DISPATCH) m_en[0] = 0;
		g_ev_eof = (ei->flags & TP_F_EOF) != 0;
		hnd(&ev, ud_io);
		g_ev_eof = 0;
	}
	int ncb = n_cb - step_cb0;
	int nsys = n_sys - step_sys0;
#elif MODE == 1
	int ncb = n_cb, nsys = n_sys, is_timer = 0;
	struct evin_s ei0 = { 0, 0, 0 }, *ei = &ei0;
#endif

	/* ---- what moved ---- */
	size_t sum = 0; int hard_err = 0, soft_err = 0, zero = 0, last_errno = 0;
	for (int k = step_sys0; k < NSYS; k++) {
		if (k >= n_sys) break;
		V_ASSERT(sys_kind[k] == (EVENT == TP_EV_READ ? (TYPE ? K_RECV : K_PREAD) : (TYPE ? K_SEND : K_PWRITE)),
		    "the system call matches task type and event");
		V_ASSERT(sys_fd[k] == 7, "I/O on the task's descriptor");
		V_ASSERT(sys_off[k] == off0 + sum && sys_len[k] == tr0 - sum, "each request = [current offset, +remaining transfer size)");
		if (!TYPE) V_ASSERT(sys_foff[k] == foff0 + (int64_t)sum, "file offset advances with the data");
		if (TYPE) V_ASSERT((sys_flags[k] & MSG_DONTWAIT) != 0, "socket I/O is non-blocking");
		V_ASSERT(!hard_err && !soft_err && !zero, "no I/O after an error or end of stream in the same round");
		if (sys_ret[k] > 0) sum += (size_t)sys_ret[k];
		else if (sys_ret[k] == 0) zero = 1;
		else { last_errno = IN.io_errno[k] ? IN.io_errno[k] : EINVAL; if (is_filtered(last_errno)) soft_err = 1; else hard_err = 1; }
	}
	V_ASSERT(iob.offset == off0 + sum, "buffer offset advanced by the bytes moved");
	V_ASSERT(iob.transfer_size == tr0 - sum, "transfer size reduced by the bytes moved");
	V_ASSERT(iob.offset + iob.transfer_size <= SIZE && iob.used <= SIZE, "cursors stay inside the buffer");
	if (EVENT == TP_EV_READ) V_ASSERT(iob.used == (used0 + sum < SIZE ? used0 + sum : SIZE), "used grows by the bytes read (capped at size)");
	else V_ASSERT(iob.used == used0, "writing does not change used");
	V_ASSERT(t->offset == (off_t)(foff0 + (int64_t)sum), "task offset advanced by the bytes moved");
	for (size_t i = 0; i < SIZE; i++) {
		if (EVENT == TP_EV_READ && i >= off0 && i < off0 + sum)
			V_ASSERT(g_data[i] == IN.stream[pos0 + i - off0], "bytes read are the next bytes of the stream, in order, at the window");
		else
			V_ASSERT(g_data[i] == snap[i], "bytes outside the transferred window are untouched");
	}
	if (EVENT == TP_EV_WRITE)
		for (size_t i = 0; i < SIZE; i++) if (i < sum) V_ASSERT(g_out[pos0 + i] == snap[off0 + i], "bytes written are the buffer window, in order");

	/* ---- callbacks ---- */
	V_ASSERT(ncb <= 1, "at most one callback per event");
	int must_cb = is_timer || hard_err || zero || (MODE == 0 && nsys == 0) || (tr0 - sum == 0 && sum > 0) ||
	    (EVENT == TP_EV_READ && (IN.flags & TP_TASK_F_CB_AFTER_EVERY_READ) && sum > 0);
	/* socket error / EOF flagged by the pool must be reported even when the I/O call itself says "try again" */
	if (!is_timer && (ei->flags & (TP_F_EOF | TP_F_ERROR))) must_cb = 1;
#ifdef KF_TASK_ERR_DROPPED	/* known finding task-error-dropped: a socket error flagged by the pool is lost when the I/O call
				 * then answers EAGAIN-class (blocking clause) */
	V_ASSUME(!(!is_timer && (ei->flags & TP_F_ERROR) && !(ei->flags & TP_F_EOF) && soft_err));
#endif
	if (must_cb) V_ASSERT(ncb == 1, "EOF / error / timeout / completed transfer is reported by exactly one callback");
	if (ncb == 1) {
		int c = n_cb - 1;
		V_ASSERT(cb_task[c] == t && cb_buf[c] == &iob && cb_udata[c] == (void *)&udata_cookie, "callback gets task, buffer, udata");
		V_ASSERT(cb_tr[c] == tot0 + sum, "transferred size = bytes moved since the previous callback");
		V_ASSERT(t->tot_transfered_size == 0, "running total restarts after a callback");
		V_ASSERT(cb_nsys[c] == n_sys, "no I/O after the callback within the same event");
		if (is_timer) V_ASSERT(cb_error[c] == ETIMEDOUT && sum == 0, "timeout reported as ETIMEDOUT, no I/O attempted");
		else if (hard_err) V_ASSERT(cb_error[c] == last_errno, "I/O error code reported");
		else if (ei->flags & TP_F_ERROR) V_ASSERT(cb_error[c] == (int)ei->fflags, "socket error from the pool reported");
		else V_ASSERT(cb_error[c] == 0, "no error reported without an error");
		if (!is_timer && (ei->flags & TP_F_EOF)) V_ASSERT((cb_eof[c] & TP_TASK_IOF_F_SYS) != 0, "pool EOF flag forwarded");
		else V_ASSERT((cb_eof[c] & TP_TASK_IOF_F_SYS) == 0, "no system EOF without the pool flag");
		if (EVENT == TP_EV_READ && zero) V_ASSERT((cb_eof[c] & TP_TASK_IOF_F_BUF) != 0, "read returning 0 reported as end of stream");
		else V_ASSERT((cb_eof[c] & TP_TASK_IOF_F_BUF) == 0, "no end of stream reported otherwise");
		if (is_timer) V_WITNESS("timeout callback");
		if (hard_err) V_WITNESS("I/O error callback");
		if (zero) V_WITNESS("end of stream callback");
		if (sum == tr0 && sum > 0) V_WITNESS("transfer completed");
		if (sum > 0 && nsys > 1) V_WITNESS("fragmented transfer");
	} else {
		V_ASSERT(t->tot_transfered_size == tot0 + sum, "without a callback the bytes moved are carried to the next one");
		V_ASSERT(soft_err || (MODE == 1 && nsys == 0 && tr0 == 0), "a round ends without callback only on EAGAIN-class results (or nothing to transfer at start)");
		V_WITNESS("would-block: no callback");
	}

	/* ---- re-arm ---- */
	int cont = (ncb == 0) || (cb_ret_v[n_cb - 1] == TP_TASK_CB_CONTINUE);
#if MODE == 0
	/* registrations touched before the callback (mutual disabling of timer and I/O) */
	int pre_timer_off = 0, pre_io_off = 0, post_timer_on = 0, post_io_on = 0, post_other = 0;
	int cb_mark = (ncb == 1) ? n_cb - 1 : n_cb;	/* calls recorded with n_cb <= cb_mark precede the callback */
	for (int k = evc0; k < NEVC; k++) {
		if (k >= n_evc) break;
		int before = (ncb == 1) ? (evc_after_cb[k] <= cb_mark) : !(evc_fn[k] >= F_ENABLE_ARGS && evc_enable[k]);
		if (before) {
			if (evc_ud[k] == 1 && (evc_fn[k] == F_DEL_ARGS1 || (evc_fn[k] == F_ENABLE_ARGS1 && !evc_enable[k])) && evc_event[k] == TP_EV_TIMER) pre_timer_off++;
			else if (evc_ud[k] == 0 && (evc_fn[k] == F_DEL_ARGS1 || (evc_fn[k] == F_ENABLE_ARGS1 && !evc_enable[k])) && evc_event[k] == EVENT) pre_io_off++;
			else V_ASSERT(0, "only disable/delete calls precede the callback");
		} else {
			if (evc_ud[k] == 1 && evc_fn[k] == F_ENABLE_ARGS && evc_enable[k] && evc_event[k] == TP_EV_TIMER &&
			    evc_flags[k] == TP_F_DISPATCH && evc_fflags[k] == TP_FF_T_MSEC && evc_data[k] == IN.timeout) post_timer_on++;
			else if (evc_ud[k] == 0 && evc_fn[k] == F_ENABLE_ARGS1 && evc_enable[k] && evc_event[k] == EVENT) post_io_on++;
			else post_other++;
		}
	}
	if (is_timer) V_ASSERT(pre_io_off >= 1 && pre_timer_off <= ((efl & TP_F_ONESHOT) ? 1 : 0), "timeout: the I/O event is disabled (or the task stopped) before the callback");
	else V_ASSERT(pre_timer_off == (IN.timeout != 0 ? 1 : 0) && pre_io_off == 0, "I/O event: the timeout timer is disabled/removed before the callback iff a timeout is set");
	V_ASSERT(post_other == 0, "no unrelated registration calls");
	if (!cont) {
		V_ASSERT(post_timer_on == 0 && post_io_on == 0, "nothing is re-armed unless the callback returns CONTINUE");
		V_WITNESS("callback ended the task");
	} else if (!(efl & TP_F_ONESHOT)) {	/* (the header forbids CONTINUE with ONESHOT) */
		V_ASSERT(post_timer_on == (IN.timeout != 0 ? 1 : 0), "CONTINUE: timeout timer re-armed with the task's timeout iff one is set");
		V_ASSERT(post_io_on == (((efl & TP_F_DISPATCH) || is_timer) ? 1 : 0), "CONTINUE: I/O event re-enabled when it was disabled (dispatch / after timeout)");
		if (evc_all_ok(evc0)) {
			V_ASSERT(m_reg[0] && m_en[0], "CONTINUE: the I/O event is armed again");
			V_ASSERT((IN.timeout != 0) == (m_reg[1] && m_en[1]), "CONTINUE: the timer is armed again iff a timeout is set");
		}
		V_WITNESS("re-armed after CONTINUE");
	}
#endif
#if MODE == 1
	V_ASSERT(r == 0 || !evc_all_ok(0), "start without scheduling succeeds unless a registration call fails");
	if (ncb == 1 && !cont) {
		V_ASSERT(n_evc == 0 && r == 0, "first I/O finished the task: nothing is registered");
		V_WITNESS("first I/O completed the task without the pool");
	} else {
		/* tp_task_restart(): timer (iff timeout) then the I/O event */
		int k = 0;
		if (IN.timeout != 0) {
			V_ASSERT(n_evc >= 1 && evc_fn[0] == F_ADD_ARGS && evc_ud[0] == 1 && evc_event[0] == TP_EV_TIMER && evc_flags[0] == TP_F_DISPATCH &&
			    evc_fflags[0] == TP_FF_T_MSEC && evc_data[0] == IN.timeout, "restart arms the timeout timer (ms, dispatch)");
			k = 1;
		}
		if (IN.timeout == 0 || evc_ret[0] == 0)
			V_ASSERT(n_evc > k && evc_fn[k] == F_ADD_ARGS2 && evc_ud[k] == 0 && evc_event[k] == EVENT && evc_flags[k] == efl,
			    "restart registers the I/O event with the task's flags");
		if (r == 0) V_ASSERT(m_reg[0] && m_en[0] && (IN.timeout != 0) == (m_reg[1] && m_en[1]), "after a successful start the task is armed");
		else V_ASSERT(!m_reg[0] && !m_reg[1], "a failed start leaves nothing registered");
		V_WITNESS("first I/O then scheduled");
	}
#endif
	if (st == 0) V_WITNESS_MUST("round completed");
	if (st > 0) V_WITNESS("second round completed");
	/* a further event can only arrive while the task is armed */
	if (!cont || (efl & TP_F_ONESHOT)) break;
    }
#endif

#if MODE == 2
	evc0 = n_evc;
	/* control calls on a started task: enable / disable, stop, restart, destroy */
	V_ASSUME(IN.ctl <= 3);
	int cb0 = n_cb;
	if (IN.ctl == 0) {
		int rr = tp_task_enable(t, IN.enable);
		int k = evc0;
		if (IN.timeout != 0) {
			V_ASSERT(evc_fn[k] == F_ENABLE_ARGS && evc_ud[k] == 1 && evc_event[k] == TP_EV_TIMER && evc_enable[k] == (IN.enable != 0) &&
			    evc_flags[k] == TP_F_DISPATCH && evc_fflags[k] == TP_FF_T_MSEC && evc_data[k] == IN.timeout, "enable: timer first, with the task's timeout");
			k++;
		}
		if (IN.timeout == 0 || evc_ret[evc0] == 0)
			V_ASSERT(n_evc > k && evc_fn[k] == F_ENABLE_ARGS1 && evc_ud[k] == 0 && evc_event[k] == EVENT && evc_enable[k] == (IN.enable != 0), "enable: then the I/O event");
		V_ASSERT((rr == 0) == evc_all_ok(evc0), "enable reports the first failure");
		if (rr == 0 && IN.enable) V_ASSERT(m_en[0] && (IN.timeout != 0) == m_en[1], "enabled task: I/O armed, timer armed iff timeout");
		if (rr == 0 && !IN.enable) V_ASSERT(!m_en[0] && !m_en[1], "disabled task: nothing armed");
		if (rr != 0) V_ASSERT(!m_en[1], "failed enable does not leave the timeout timer running alone");
		if (rr != 0) V_WITNESS("enable failed"); else V_WITNESS("enable/disable succeeded");
	} else if (IN.ctl == 1) {
		tp_task_stop(t);
		V_ASSERT(!m_reg[0] && !m_reg[1], "after stop nothing of the task is registered (no further callback possible)");
		V_WITNESS("stopped");
	} else if (IN.ctl == 2) {
		tp_task_stop(t);
		int e1 = n_evc;
		int rr = tp_task_restart(t);
		V_ASSERT((rr == 0) == evc_all_ok(e1), "restart reports the first failure");
		if (rr == 0) V_ASSERT(m_reg[0] && m_en[0] && (IN.timeout != 0) == (m_reg[1] && m_en[1]), "restarted task is armed");
		else V_ASSERT(!m_reg[0] && !m_reg[1], "a failed restart leaves nothing registered");
		if (rr != 0) V_WITNESS("restart failed"); else V_WITNESS("restarted");
	} else {
		int c0 = n_close;
		tp_task_destroy(t);
		V_ASSERT(!m_reg[0] && !m_reg[1], "after destroy nothing of the task is registered");
		V_ASSERT((n_close - c0) == ((IN.flags & TP_TASK_F_CLOSE_ON_DESTROY) ? 1 : 0), "descriptor closed iff CLOSE_ON_DESTROY");
		V_WITNESS("destroyed");
	}
	V_ASSERT(n_cb == cb0 && n_sys == 0, "control calls do no I/O and call nothing back");
	V_WITNESS_MUST("control call completed");
#endif
}
