/* C16, second file: the notify, datagram (pkt_rcvr), accept and connect handlers of threadpool_task.c, one event each.
 *
 * Real code: tp_task_create, tp_task_start_ex(1,...), tp_task_notify_handler, tp_task_pkt_rcvr_handler,
 *   tp_task_accept_handler, tp_task_connect_handler, tp_task_handler_pre_int/_post_int, tp_task_stop.
 * Stubs: recvfrom (any datagram length in {-1} u [0, requested], any errno; forced to "would block" after NREC
 *   datagrams so that one event is a bounded history), skt_accept (specification stub of src/net/socket.c:skt_accept =
 *   accept4 + errno: returns 0 with a fresh descriptor or an errno; would-block after NREC connections), the tpt_ev_*
 *   recorder (evrec.h).
 * Shape: HND (0 notify, 1 pkt_rcvr, 2 accept, 3 connect), SIZE (buffer bytes for pkt_rcvr), NREC.
 */
#include "verif.h"
#include <sys/param.h>
#include <sys/socket.h>
#include <sys/types.h>
#include <sys/uio.h>
#include <inttypes.h>
#include <unistd.h>
#include <string.h>
#include <errno.h>
#include "utils/macro.h"
#include "al/os.h"
#include "net/socket.h"
#include "threadpool/threadpool_task.h"

#ifndef HND
#define HND 0
#endif
#ifndef SIZE
#define SIZE 4
#endif
#ifndef NREC
#define NREC 2
#endif
#define NEVC 10
#define NCB (NREC + 2)
#define NSYS (NREC + 1)

struct in_s {
	uint8_t		data[SIZE];
	uint8_t		used, offset, transfer_size;
	uint16_t	event;		/* notify: READ or WRITE */
	uint16_t	event_flags;
	uint32_t	flags;
	uint64_t	timeout;
	uint8_t		is_timer;
	uint16_t	ev_flags;
	uint32_t	ev_fflags;
	int8_t		ios[NSYS];
	int32_t		io_errno[NSYS];
	uint8_t		dgram[NSYS][SIZE];
	int32_t		new_fd[NSYS];
	int32_t		ev_ret[NEVC];
	int32_t		cb_ret[NCB];
	/* what the callback does to the buffer between datagrams (the user's job): new cursor values */
	uint8_t		cb_offset[NCB], cb_tr[NCB];
	int32_t		errno0;
};
#include "verif_in.h"

#define V_CHECK(c, msg) do { V_ASSERT(c, msg); V_ASSUME(c); } while (0)
#include "evrec.h"

static uint8_t *g_data;
static io_buf_t iob;
static size_t iob_off_at[NSYS], iob_tr_at[NSYS];	/* the buffer window when call k was issued */
static int n_sys, n_close;
static size_t sys_off[NSYS], sys_len[NSYS];
static int sys_ret[NSYS], sys_fd[NSYS], sys_flags[NSYS], sys_cb_before[NSYS];
static int g_ev_eof;

static int is_filtered(int e) { return (e == EAGAIN || e == EWOULDBLOCK || e == EBUSY || e == EINTR); }

static ssize_t v_recvfrom(int fd, void *buf, size_t len, int fl, struct sockaddr *a, socklen_t *al) {
	int k = n_sys++;
	V_ASSERT(k < NSYS, "call budget: recvfrom");
	if (k >= NSYS) exit(5);
	V_ASSERT((uint8_t *)buf >= g_data && (uint8_t *)buf <= g_data + SIZE && len <= (size_t)(g_data + SIZE - (uint8_t *)buf),
	    "receive request lies inside the caller's buffer");
	V_ASSERT(a != NULL && al != NULL && *al >= sizeof(struct sockaddr_storage), "room for any peer address");
	sys_fd[k] = fd; sys_flags[k] = fl; sys_off[k] = (size_t)((uint8_t *)buf - g_data); sys_len[k] = len; sys_cb_before[k] = n_cb;
	iob_off_at[k] = iob.offset; iob_tr_at[k] = iob.transfer_size;
	int r = IN.ios[k];
	V_ASSUME(r >= -1 && r <= (int)len);
	if (k == NSYS - 1) V_ASSUME(r == -1 && IN.io_errno[k] == EAGAIN);	/* bound: at most NREC datagrams per event */
	sys_ret[k] = r;
	if (r < 0) {
		V_ASSUME(IN.io_errno[k] >= 0 && IN.io_errno[k] < 4096);
		if (g_ev_eof) V_ASSUME(!is_filtered(IN.io_errno[k]));
		errno = IN.io_errno[k];
		return (-1);
	}
	for (size_t p = 0; p < SIZE; p++)
		if (p >= sys_off[k] && p < sys_off[k] + (size_t)r) g_data[p] = IN.dgram[k][p];	/* datagram k, indexed by buffer position */
	memset(a, 0, sizeof(struct sockaddr_storage));
	a->sa_family = AF_INET;
	*al = sizeof(struct sockaddr_in);
	return (r);
}
static int v_skt_accept(uintptr_t s, sockaddr_storage_t *a, socklen_t *l, uint32_t f, uintptr_t *ret) {
	int k = n_sys++;
	V_ASSERT(k < NSYS, "call budget: accept");
	if (k >= NSYS) exit(5);
	V_ASSERT(a != NULL && l != NULL && *l >= sizeof(struct sockaddr_storage) && ret != NULL, "accept gets room for the peer address");
	sys_fd[k] = (int)s; sys_flags[k] = (int)f; sys_cb_before[k] = n_cb;
	int r = IN.ios[k];	/* -1: error, otherwise success */
	if (k == NSYS - 1) V_ASSUME(r == -1 && IN.io_errno[k] == EAGAIN);
	sys_ret[k] = r;
	if (r < 0) {
		V_ASSUME(IN.io_errno[k] > 0 && IN.io_errno[k] < 4096);
		return (IN.io_errno[k]);
	}
	V_ASSUME(IN.new_fd[k] >= 0);
	*ret = (uintptr_t)IN.new_fd[k];
	memset(a, 0, sizeof(*a));
	return (0);
}
static int v_skt_connect(const sockaddr_storage_t *a, int t, int p, uint32_t f, uintptr_t *r) {
	(void)a; (void)t; (void)p; (void)f; (void)r; return (ECONNREFUSED);	/* connect_ex: outside */
}
static int v_close(int fd) { (void)fd; n_close++; return (0); }
static ssize_t v_none(void) { V_ASSERT(0, "no stream I/O in these handlers"); errno = EINVAL; return (-1); }
#define pread(a,b,c,d)	v_none()
#define pwrite(a,b,c,d)	v_none()
#define recv(a,b,c,d)	v_none()
#define send(a,b,c,d)	v_none()
#define recvfrom	v_recvfrom
#define close		v_close
#define skt_accept	v_skt_accept
#define skt_connect	v_skt_connect

static void *v_calloc_task(size_t n, size_t sz);
static void v_free_task(void *p);
#define calloc	v_calloc_task
#define free	v_free_task
#include "threadpool/threadpool_task.c"	/* the code under test */
#undef calloc
#undef free
static tp_task_t task_store;
static void *v_calloc_task(size_t n, size_t sz) { (void)n; (void)sz; memset(&task_store, 0, sizeof(task_store)); return ((void *)&task_store); }
static void v_free_task(void *p) { (void)p; }

int skt_bind(const sockaddr_storage_t *a, int t, int p, uint32_t f, uintptr_t *r) { (void)a; (void)t; (void)p; (void)f; (void)r; abort(); return (0); }
int skt_listen(uintptr_t s, int b) { (void)s; (void)b; abort(); return (0); }
int skt_opts_apply_ex(const uintptr_t s, const uint32_t m, const skt_opts_p o, const sa_family_t fam, uint32_t *e) {
	(void)s; (void)m; (void)o; (void)fam; (void)e; abort(); return (0); }
size_t tp_thread_count_max_get(tp_p tp) { (void)tp; abort(); return (0); }
tpt_p tp_thread_get(tp_p tp, const size_t n) { (void)tp; (void)n; abort(); return (NULL); }
tpt_p tp_thread_get_rr(tp_p tp) { (void)tp; abort(); return (NULL); }

/* ---- callbacks (one per handler type) ---- */
static int cb_error[NCB], cb_ret_v[NCB], cb_nsys[NCB], cb_has_addr[NCB];
static uint32_t cb_eof[NCB];
static size_t cb_sz[NCB];
static uint8_t cb_seen[NCB][SIZE];	/* buffer contents as the callback saw them */
static uintptr_t cb_skt[NCB];
static tp_task_p the_task;
static int udata_cookie;

static int cb_common(tp_task_p t, void *udata) {
	int k = n_cb++;
	V_ASSERT(k < NCB, "call budget: callbacks");
	if (k >= NCB) exit(5);
	V_ASSERT(t == the_task && udata == (void *)&udata_cookie, "callback gets the task and its udata");
	cb_nsys[k] = n_sys; cb_ret_v[k] = IN.cb_ret[k];
	return (k);
}
static int notify_cb(tp_task_p t, int error, uint32_t eof, size_t d2t, void *udata) {
	int k = cb_common(t, udata); cb_error[k] = error; cb_eof[k] = eof; cb_sz[k] = d2t; return (IN.cb_ret[k]);
}
static int pkt_cb(tp_task_p t, int error, struct sockaddr_storage *addr, io_buf_p buf, size_t sz, void *udata) {
	int k = cb_common(t, udata); cb_error[k] = error; cb_sz[k] = sz; cb_has_addr[k] = (addr != NULL);
	V_ASSERT(buf == &iob, "callback gets the task's buffer");
	for (size_t p = 0; p < SIZE; p++) cb_seen[k][p] = g_data[p];
	/* the user consumes the datagram and re-opens a window for the next one */
	V_ASSUME(IN.cb_offset[k] <= SIZE && IN.cb_tr[k] <= SIZE - IN.cb_offset[k]);
	iob.offset = IN.cb_offset[k]; iob.transfer_size = IN.cb_tr[k]; iob.used = IN.cb_offset[k];
	return (IN.cb_ret[k]);
}
static int accept_cb(tp_task_p t, int error, uintptr_t skt_new, struct sockaddr_storage *addr, void *udata) {
	int k = cb_common(t, udata); cb_error[k] = error; cb_skt[k] = skt_new; cb_has_addr[k] = (addr != NULL); return (IN.cb_ret[k]);
}
static int connect_cb(tp_task_p t, int error, void *udata) {
	int k = cb_common(t, udata); cb_error[k] = error; return (IN.cb_ret[k]);
}

static char tpt_placeholder[8];
static int evc_all_ok(int from) { for (int k = from; k < NEVC; k++) { if (k >= n_evc) break; if (evc_ret[k] != 0) return (0); } return (1); }

void harness(void) {
	V_BEGIN();
	V_ASSUME(IN.errno0 >= 0 && IN.errno0 < 4096);
	errno = IN.errno0;
	the_tpt = (tpt_p)(void *)tpt_placeholder;
	g_data = v_buf(IN.data, SIZE);
	io_buf_init(&iob, 0, g_data, SIZE);
	V_ASSUME(IN.used <= SIZE && IN.offset <= SIZE && IN.transfer_size <= SIZE - IN.offset);
	iob.used = IN.used; iob.offset = IN.offset; iob.transfer_size = IN.transfer_size;

	uint16_t event, efl; uint32_t tflags = 0; io_buf_p buf = NULL; tp_task_cb cbf;
#if HND == 0
	V_ASSUME(IN.event == TP_EV_READ || IN.event == TP_EV_WRITE);
	event = IN.event; efl = IN.event_flags; cbf = (tp_task_cb)notify_cb;
#define HANDLER tp_task_notify_handler
#elif HND == 1
	event = TP_EV_READ; efl = IN.event_flags; tflags = TP_TASK_F_CB_AFTER_EVERY_READ; buf = &iob; cbf = (tp_task_cb)pkt_cb;
#define HANDLER tp_task_pkt_rcvr_handler
#elif HND == 2
	event = TP_EV_READ; efl = IN.event_flags; cbf = (tp_task_cb)accept_cb;
#define HANDLER tp_task_accept_handler
#else
	event = TP_EV_WRITE; efl = TP_F_ONESHOT; cbf = (tp_task_cb)connect_cb;	/* as tp_task_connect_create() registers it */
#define HANDLER tp_task_connect_handler
#endif
	V_ASSUME((efl & ~(TP_F_ONESHOT | TP_F_DISPATCH)) == 0 && efl != (TP_F_ONESHOT | TP_F_DISPATCH));
	tp_task_p t = NULL;
	int r = tp_task_create(the_tpt, 7, HANDLER, tflags, &udata_cookie, &t);
	V_ASSUME(r == 0 && t != NULL);
	the_task = t; ud_io = &t->tp_data; ud_tm = &t->tp_timer;
	r = tp_task_start_ex(1, t, event, efl, IN.timeout, 0, buf, cbf);
	V_ASSUME(r == 0);
	V_ASSERT(n_cb == 0 && n_sys == 0, "scheduling does no I/O and no callback");
	int evc0 = n_evc;

	/* ---- one event ---- */
	tp_event_t ev;
	int is_timer = (IN.is_timer != 0);
	uint16_t fl = IN.ev_flags;
	if (is_timer) {
		V_ASSUME(IN.timeout != 0 && m_reg[1] && m_en[1]);
		ev.event = TP_EV_TIMER; ev.flags = 0; ev.fflags = 0; ev.data = 1; fl = 0;
		m_en[1] = 0;
		HANDLER(&ev, ud_tm);
	} else {
		V_ASSUME(m_reg[0] && m_en[0] && (fl & ~(TP_F_EOF | TP_F_ERROR)) == 0);
		ev.event = event; ev.flags = fl; ev.data = UINT64_MAX; ev.fflags = 0;
		if (fl & TP_F_ERROR) { V_ASSUME(IN.ev_fflags != 0 && IN.ev_fflags < 4096); ev.fflags = IN.ev_fflags; }
		if (efl & TP_F_ONESHOT) { m_reg[0] = 0; m_en[0] = 0; } else if (efl & TP_F_DISPATCH) m_en[0] = 0;
		g_ev_eof = (fl & TP_F_EOF) != 0;
		HANDLER(&ev, ud_io);
		g_ev_eof = 0;
	}
	int pool_err = is_timer ? ETIMEDOUT : ((fl & TP_F_ERROR) ? (int)ev.fflags : 0);
	int last = n_cb - 1;
	int cont = (n_cb == 0) || (cb_ret_v[last] == TP_TASK_CB_CONTINUE);

#if HND == 0
	V_ASSERT(n_cb == 1 && n_sys == 0, "notify: exactly one callback per event, no I/O by the library");
	V_ASSERT(cb_error[0] == pool_err, "notify: error = ETIMEDOUT / socket error / 0");
	V_ASSERT(cb_eof[0] == ((!is_timer && (fl & TP_F_EOF)) ? TP_TASK_IOF_F_SYS : 0), "notify: EOF flag forwarded");
	V_ASSERT(cb_sz[0] == (is_timer ? 0 : (size_t)UINT64_MAX), "notify: size hint forwarded (0 on timeout)");
	if (is_timer) V_WITNESS("notify timeout");
#elif HND == 3
	V_ASSERT(n_cb == 1 && n_sys == 0, "connect: exactly one callback");
	V_ASSERT(cb_error[0] == pool_err, "connect: result = ETIMEDOUT / socket error / 0");
	V_ASSERT(!m_reg[0] && !m_reg[1], "connect: the task is stopped before the callback (nothing stays registered)");
	for (int k = evc0; k < NEVC; k++) { if (k >= n_evc) break; V_ASSERT(evc_after_cb[k] == 0, "connect: no registration call after the callback"); }
	if (is_timer) V_WITNESS("connect timeout"); else if (pool_err) V_WITNESS("connect failed"); else V_WITNESS("connected");
#else
	/* receive / accept loops: walk the recorded I/O calls and callbacks in order */
	int c = 0, ended = 0, n_ok = 0, n_hard = 0, soft = 0;
	if (is_timer) V_ASSERT(n_sys == 0, "timeout: no I/O attempted");
	if (pool_err != 0) {
		V_ASSERT(n_cb >= 1 && cb_error[0] == pool_err && cb_nsys[0] == 0, "timeout / socket error is reported first, once");
		if (n_cb >= 1 && HND == 1) V_ASSERT(cb_sz[0] == 0 && !cb_has_addr[0], "error callback carries no data");
		if (n_cb >= 1 && HND == 2) V_ASSERT(cb_skt[0] == (uintptr_t)-1, "error callback carries no socket");
		c = 1;
		if (is_timer || HND == 2 || (n_cb >= 1 && cb_ret_v[0] != TP_TASK_CB_CONTINUE)) ended = 1;
	}
	for (int k = 0; k < NSYS; k++) {
		if (k >= n_sys) break;
		V_ASSERT(!ended, "no I/O after end of data, would-block, or a callback that did not ask to continue");
		V_ASSERT(sys_fd[k] == 7, "I/O on the task's descriptor");
#if HND == 1
		V_ASSERT(sys_off[k] == iob_off_at[k] && sys_len[k] == iob_tr_at[k], "each datagram is received into the current window");
		V_ASSERT((sys_flags[k] & MSG_DONTWAIT) != 0, "non-blocking receive");
#else
		V_ASSERT((sys_flags[k] & SO_F_NONBLOCK) != 0, "accepted sockets are non-blocking");
#endif
		if (sys_ret[k] < 0) {
			int e = IN.io_errno[k] ? IN.io_errno[k] : EINVAL;
			if (is_filtered(e)) { soft = 1; ended = 1; continue; }
			V_ASSERT(c < n_cb && cb_nsys[c] == k + 1 && cb_error[c] == e, "an I/O error is reported by one callback, right away");
			n_hard++;
			if (HND == 2 || (c < n_cb && cb_ret_v[c] != TP_TASK_CB_CONTINUE)) ended = 1;
			c++;
		} else if (HND == 1 && sys_ret[k] == 0) {
			ended = 1;
		} else {
			V_ASSERT(c < n_cb && cb_nsys[c] == k + 1, "each datagram / connection is reported by its own callback before the next I/O");
			if (c < n_cb) {
				V_ASSERT(cb_error[c] == 0 && cb_has_addr[c], "data callback: no error, peer address present");
#if HND == 1
				V_ASSERT(cb_sz[c] == (size_t)sys_ret[k], "datagram callback: transferred size = datagram length");
				for (size_t p = 0; p < SIZE; p++)
					if (p >= sys_off[k] && p < sys_off[k] + (size_t)sys_ret[k]) V_ASSERT(cb_seen[c][p] == IN.dgram[k][p], "the callback sees the datagram's bytes in the window");
#else
				V_ASSERT(cb_skt[c] == (uintptr_t)IN.new_fd[k], "accept callback: the new descriptor");
#endif
				if (cb_ret_v[c] != TP_TASK_CB_CONTINUE) ended = 1;
			}
			n_ok++; c++;
		}
	}
	V_ASSERT(n_cb == c, "callbacks = [pool error] + one per datagram / connection / I/O error, nothing else");
	if (n_hard) V_WITNESS("I/O error reported");
	if (n_ok >= 2) V_WITNESS("two datagrams / connections in one event");
	if (pool_err && n_ok) V_WITNESS("error reported, then data still drained");
	if (soft && n_ok == 0 && !pool_err) V_WITNESS("spurious wake-up: nothing reported");
#endif

#if HND != 3
	/* ---- mutual disabling and re-arm (same contract as for stream tasks) ---- */
	int pre_timer_off = 0, pre_io_off = 0, post_timer_on = 0, post_io_on = 0, other = 0;
	for (int k = evc0; k < NEVC; k++) {
		if (k >= n_evc) break;
		int off_call = (evc_fn[k] == F_DEL_ARGS1 || (evc_fn[k] == F_ENABLE_ARGS1 && !evc_enable[k]));
		if (off_call && evc_ud[k] == 1 && evc_event[k] == TP_EV_TIMER) { pre_timer_off++; V_ASSERT(evc_after_cb[k] == 0, "timer is switched off before the first callback"); }
		else if (off_call && evc_ud[k] == 0 && evc_event[k] == event) { pre_io_off++; V_ASSERT(evc_after_cb[k] == 0, "I/O event is switched off before the first callback"); }
		else if (evc_ud[k] == 1 && evc_fn[k] == F_ENABLE_ARGS && evc_enable[k] && evc_event[k] == TP_EV_TIMER && evc_flags[k] == TP_F_DISPATCH &&
		    evc_fflags[k] == TP_FF_T_MSEC && evc_data[k] == IN.timeout) { post_timer_on++; V_ASSERT(evc_after_cb[k] == n_cb, "re-arm happens after the last callback"); }
		else if (evc_ud[k] == 0 && evc_fn[k] == F_ENABLE_ARGS1 && evc_enable[k] && evc_event[k] == event) { post_io_on++; V_ASSERT(evc_after_cb[k] == n_cb, "re-arm happens after the last callback"); }
		else other++;
	}
	V_ASSERT(other == 0, "no unrelated registration calls");
	if (is_timer) V_ASSERT(pre_io_off >= 1, "timeout: the I/O event is disabled (or the task stopped) before the callback");
	else V_ASSERT(pre_timer_off == (IN.timeout != 0 ? 1 : 0) && pre_io_off == 0, "I/O event: the timeout timer is disabled/removed first iff a timeout is set");
	if (!cont) {
		V_ASSERT(post_timer_on == 0 && post_io_on == 0, "nothing is re-armed unless the last callback returns CONTINUE");
		V_WITNESS("callback ended the task");
	} else if (!(efl & TP_F_ONESHOT)) {
		V_ASSERT(post_timer_on == (IN.timeout != 0 ? 1 : 0), "CONTINUE: timeout timer re-armed iff a timeout is set");
		V_ASSERT(post_io_on == (((efl & TP_F_DISPATCH) || is_timer) ? 1 : 0), "CONTINUE: I/O event re-enabled when it was disabled");
		if (evc_all_ok(evc0)) V_ASSERT(m_reg[0] && m_en[0] && (IN.timeout != 0) == (m_reg[1] && m_en[1]), "CONTINUE: the task is armed again");
		V_WITNESS("re-armed after CONTINUE");
	}
#endif
	V_WITNESS_MUST("event handled");
}
