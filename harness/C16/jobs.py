import os
SOLVER = os.environ.get("C16_SOLVER", "cadical")
SIZES = {"quick": (4, 8), "thorough": (2,)}
KF = {"KF_TASK_ERR_DROPPED": None, "KF_TASK_TIMER_UDATA": None}

META = {"bounds": "", "outside": "", "assumptions": [], "harness_functions": []}

def jobs(tier):
    out = []
    for size in SIZES.get(tier, (2,)):
        for typ in (0, 1):
            for ev, evn in ((0, "read"), (1, "write")):
                for mode, nst in ((0, 1), (0, 2), (1, 1)):
                    out.append({
                        "name": "task-%s-%s-m%d-n%d-s%d" % ("sr" if typ else "rw", evn, mode, nst, size), "src": "task.c",
                        "defs": dict(KF, SIZE=size, TYPE=typ, EVENT=ev, MODE=mode, NSTEPS=nst),
                        "unwind": 2 * size + 6,
                        "unwindset": ["tp_task_handler.3:%d" % (size + 2), "tp_task_handler.6:%d" % (size + 2), "io_call.0:%d" % (size + 1)],
                        "solver": SOLVER,
                        "shape": "buffer size %d, %s handler, %s event, mode %d" % (size, "send/recv" if typ else "pread/pwrite", evn, mode),
                        "desc": "bytes, cursors, totals, exactly-one callback, re-arm iff CONTINUE",
                    })
    out.append({"name": "task-control-s2", "src": "task.c", "defs": dict(KF, SIZE=2, TYPE=1, EVENT=0, MODE=2), "unwind": 14,
                "solver": SOLVER, "shape": "started sr read task; enable/disable, stop, restart, destroy with any registration results",
                "desc": "call sequences, error propagation, nothing left registered after stop/destroy/failed restart"})
    return out
