import os
SOLVER = os.environ.get("C16_SOLVER", "cadical")
KF = {}   # both findings were repaired in /repo (known_findings.json: fixed)

if os.environ.get("C16_NO_KF"):   # reproduce the findings: run without the blocking clauses
    KF = {}

META = {
    "bounds":
        "src/threadpool/threadpool_task.c with the tpt_ev_* layer replaced by a recorder (that layer is C06) and the I/O system "
        "calls replaced by stubs over a ghost stream. STREAM TASKS (task.c): tp_task_rw_handler / tp_task_sr_handler for READ and "
        "WRITE, started task in ANY valid io_buf state (size 1..8, offset + transfer_size <= size, used <= size, any contents), "
        "any event_flags in {0, ONESHOT, DISPATCH}, CB_AFTER_EVERY_READ / CLOSE_ON_DESTROY on/off, any timeout, any carried "
        "total and file offset < 2^32; one event (I/O event with any TP_F_EOF/TP_F_ERROR combination and error code, or the "
        "timeout timer) with every fragmentation (each pread/recv/pwrite/send returns -1 with any errno, 0, or 1..requested), "
        "any callback return code; two consecutive events for sizes <= 2 (quick) / <= 4 sr, <= 3 rw (thorough); "
        "tp_task_start_ex(shedule_first_io = 0) for the same states with any registration results. CONTROL (task.c MODE 2): "
        "tp_task_enable(0/1), tp_task_stop, stop + tp_task_restart, tp_task_destroy on a started task with any registration "
        "results. OTHER HANDLERS (task2.c): notify, pkt_rcvr (buffer 4, <= 2 datagrams per event, callback re-opens any window), "
        "accept (<= 2 connections per event), connect; one event each incl. timeout and EOF/ERROR flags. "
        "quick: sizes 4 and 8 (sr), 4 (rw), first-I/O 4/8; thorough: sizes 1..8.",
    "outside":
        "real elapsed-time semantics of the timeout (the timer event is just delivered or not); kernel fragmentation realism "
        "(over-approximated); stop/destroy from another thread; ev.data other than UINT64_MAX for I/O events (what the Linux "
        "tpt_loop passes; kqueue byte counts not covered); callbacks that modify the buffer or the task inside a stream round; "
        "tp_task_connect_ex_* (retry/time-limit logic), tp_task_bind_accept_*create, tp_task_create_start wrappers; heap "
        "lifetime of the task object and allocation failure; CONTINUE returned for a ONESHOT task (forbidden by the header); "
        "more than two consecutive events; datagram buffers other than 4 bytes; the real tpt_ev_* layer composed with the task "
        "layer in one run (composition is by contract: evrec.h states what C06 decides).",
    "assumptions": [
        "tpt_ev_add_args/add_args2/del_args1/enable_args/enable_args1 replaced by harness/C16/evrec.h: records every call, "
        "returns a solver-chosen errno or 0 restricted by the C06 contract (timer call on a udata without timerfd = ENOENT and "
        "no change; delete always unregisters; a refused add/enable leaves nothing installed), tracks registered/enabled",
        "pread/recv/pwrite/send/recvfrom stubs: ios in {-1} u [0, requested], any errno; bytes come from / go to a ghost stream "
        "stored per round indexed by buffer position (re-indexing of an arbitrary stream, see task.c)",
        "after the pool flagged EOF (EPOLLHUP/RDHUP) an I/O call answers data, 0 or a hard error, never an EAGAIN-class errno",
        "skt_accept is a specification stub (accept4 result or errno); skt_connect, skt_bind, skt_listen, skt_opts_apply_ex, "
        "tp_thread_* are link-only stubs",
        "events are delivered only to armed registrations (C06 automaton): before an I/O event ONESHOT unregisters / DISPATCH "
        "disables the I/O udata, the timer (registered DISPATCH) is disabled when it fires",
        "calloc in tp_task_create returns one static zeroed tp_task_t; free is recorded",
        "bound: at most NREC = 2 datagrams / connections per event (the stub answers EAGAIN afterwards)",
        "KF_TASK_ERR_DROPPED, KF_TASK_TIMER_UDATA blocking clauses while the findings are unfixed (see findings/)",
    ],
    "harness_functions": ["harness", "task_cb", "notify_cb", "pkt_cb", "accept_cb", "connect_cb", "cb_common", "evc", "evc_all_ok",
                          "is_filtered", "io_call", "v_pread", "v_recv", "v_pwrite", "v_send", "v_recvfrom", "v_close", "v_skt_accept",
                          "v_skt_connect", "v_none", "v_calloc_task", "v_free_task", "v_tpt_ev_add_args", "v_tpt_ev_add_args2",
                          "v_tpt_ev_del_args1", "v_tpt_ev_enable_args", "v_tpt_ev_enable_args1", "skt_bind", "skt_listen",
                          "skt_opts_apply_ex", "tp_thread_count_max_get", "tp_thread_get", "tp_thread_get_rr", "v_alloc", "v_buf"],
}

GROUPS = [("mv", None, r"\[cb\]|\[arm\]", "requests, bytes against the ghost stream, cursors, totals, memory safety"),
          ("cb", r"\[cb\]", None, "exactly-one callback for EOF/error/timeout/completion, callback arguments, carried totals"),
          ("arm", r"\[arm\]", None, "timer/I-O mutual disabling before the callback, re-arm iff CONTINUE, start/restart sequences")]

def stream_shapes(tier):
    """(type 0=rw/1=sr, mode, rounds, size)"""
    if tier == "quick":
        return ([(1, 0, 1, 4), (1, 0, 1, 8), (0, 0, 1, 4), (1, 1, 1, 4), (0, 1, 1, 8), (1, 0, 2, 2), (0, 0, 2, 2)])
    sh = []
    for size in range(1, 9):
        sh += [(1, 0, 1, size), (0, 0, 1, size), (1, 1, 1, size), (0, 1, 1, size)]
    sh += [(1, 0, 2, n) for n in (1, 2, 3, 4)] + [(0, 0, 2, n) for n in (1, 2, 3)]
    return sh

def jobs(tier):
    out = []
    for typ, mode, nst, size in stream_shapes(tier):
        for ev, evn in ((0, "read"), (1, "write")):
            for g, inc, exc, gd in GROUPS:
                out.append({
                    "name": "task-%s-%s-m%d-n%d-s%d-%s" % ("sr" if typ else "rw", evn, mode, nst, size, g), "src": "task.c",
                    "defs": dict(KF, SIZE=size, TYPE=typ, EVENT=ev, MODE=mode, NSTEPS=nst),
                    "unwind": max(2 * size + 6, 14), "prop_include": inc, "prop_exclude": exc,
                    "unwindset": ["tp_task_handler.3:%d" % (size + 2), "tp_task_handler.6:%d" % (size + 2), "io_call.0:%d" % (size + 1)],
                    "solver": SOLVER, "timeout": 300 if tier == "quick" else 1500,
                    "shape": "buffer size %d, %s handler, %s event, %s, %d round(s)" % (
                        size, "send/recv" if typ else "pread/pwrite", evn,
                        "handler called as by tpt_loop" if mode == 0 else "tp_task_start_ex(shedule_first_io=0)", nst),
                    "desc": gd,
                })
    for hnd, hn in ((0, "notify"), (1, "pkt_rcvr"), (2, "accept"), (3, "connect")):
        out.append({"name": "task2-%s" % hn, "src": "task2.c", "defs": dict(KF, HND=hnd, SIZE=4, NREC=2), "unwind": 12,
                    "unwindset": ["tp_task_pkt_rcvr_handler.4:4", "tp_task_accept_handler.1:4"], "solver": SOLVER, "timeout": 300,
                    "shape": "%s handler, one event (I/O with any EOF/ERROR flags, or timeout), <= 2 datagrams/connections, buffer 4" % hn,
                    "desc": "one callback per datagram/connection/error/timeout with the right arguments, window placement, "
                            "mutual disabling, re-arm iff CONTINUE"})
    out.append({"name": "task-control-s2", "src": "task.c", "defs": dict(KF, SIZE=2, TYPE=1, EVENT=0, MODE=2), "unwind": 14,
                "solver": SOLVER, "shape": "started sr read task; enable/disable, stop, restart, destroy with any registration results",
                "desc": "call sequences, error propagation, nothing left registered after stop/destroy/failed restart"})
    return out
