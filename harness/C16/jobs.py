import os
SOLVER = os.environ.get("C16_SOLVER", "cadical")
SIZES = {"quick": (4, 8), "thorough": (1, 2, 3, 4, 5, 6, 7, 8)}
N2MAX = {"quick": 4, "thorough": 5}   # two-round histories up to this buffer size
KF = {"KF_TASK_ERR_DROPPED": None, "KF_TASK_TIMER_UDATA": None}

META = {"bounds": "", "outside": "", "assumptions": [], "harness_functions": []}

GROUPS = [("mv", None, r"\[cb\]|\[arm\]", "requests, bytes against the ghost stream, cursors, totals, memory safety"),
          ("cb", r"\[cb\]", None, "exactly-one callback for EOF/error/timeout/completion, callback arguments, carried totals"),
          ("arm", r"\[arm\]", None, "timer/I-O mutual disabling before the callback, re-arm iff CONTINUE, start/restart sequences")]

def jobs(tier):
    out = []
    for size in SIZES.get(tier, (2,)):
        for typ in (0, 1):
            for ev, evn in ((0, "read"), (1, "write")):
                for mode, nst in ((0, 1), (0, 2), (1, 1)):
                    if nst == 2 and size > N2MAX[tier]:
                        continue
                    for g, inc, exc, gd in GROUPS:
                        out.append({
                            "name": "task-%s-%s-m%d-n%d-s%d-%s" % ("sr" if typ else "rw", evn, mode, nst, size, g), "src": "task.c",
                            "defs": dict(KF, SIZE=size, TYPE=typ, EVENT=ev, MODE=mode, NSTEPS=nst),
                            "unwind": 2 * size + 6, "prop_include": inc, "prop_exclude": exc,
                            "unwindset": ["tp_task_handler.3:%d" % (size + 2), "tp_task_handler.6:%d" % (size + 2), "io_call.0:%d" % (size + 1)],
                            "solver": SOLVER, "timeout": 300,
                            "shape": "buffer size %d, %s handler, %s event, %s, %d round(s)" % (
                                size, "send/recv" if typ else "pread/pwrite", evn,
                                "handler called as by tpt_loop" if mode == 0 else "tp_task_start_ex(shedule_first_io=0)", nst),
                            "desc": gd,
                        })
    for hnd, hn in ((0, "notify"), (1, "pkt_rcvr"), (2, "accept"), (3, "connect")):
        out.append({"name": "task2-%s" % hn, "src": "task2.c", "defs": dict(KF, HND=hnd, SIZE=4, NREC=2), "unwind": 12,
                    "unwindset": ["tp_task_pkt_rcvr_handler.4:4", "tp_task_accept_handler.1:4"], "solver": SOLVER, "timeout": 300,
                    "shape": "%s handler, one event (I/O with any EOF/ERROR flags, or timeout), <= 2 datagrams/connections, buffer 4" % hn,
                    "desc": "one callback per datagram/connection/error/timeout with the right arguments, window placement, "
                            "mutual disabling, re-arm iff CONTINUE"})
    out.append({"name": "task-control-s2", "src": "task.c", "defs": dict(KF, SIZE=2, TYPE=1, EVENT=0, MODE=2), "unwind": 14,
                "solver": SOLVER, "shape": "started sr read task; enable/disable, stop, restart, destroy with any registration results",
                "desc": "call sequences, error propagation, nothing left registered after stop/destroy/failed restart"})
    return out
