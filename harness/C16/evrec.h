/* Recorder standing in for the tpt_ev_* layer below threadpool_task.c (that layer is decided in C06).
 * Expects: NEVC (call budget), IN.ev_ret[NEVC] (solver-chosen results), `n_cb` (callbacks so far) declared by the
 * includer before this header.  Records every call in parallel scalar arrays, returns the solver-chosen result restricted
 * by the lower layer's contract, and tracks (registered, enabled) for the task's I/O udata [0] and timer udata [1]. */
#ifndef C16_EVREC_H
#define C16_EVREC_H
/* ---------------- recorder for the tpt_ev_* layer ---------------- */
enum { F_ADD_ARGS, F_ADD_ARGS2, F_DEL_ARGS1, F_ENABLE_ARGS, F_ENABLE_ARGS1 };
static int evc_fn[NEVC], evc_enable[NEVC], evc_ud[NEVC], evc_ret[NEVC], evc_after_cb[NEVC];
static uint16_t evc_event[NEVC], evc_flags[NEVC];
static uint32_t evc_fflags[NEVC];
static uint64_t evc_data[NEVC];
static int n_evc, n_cb;
static tp_udata_p ud_io, ud_tm;		/* the task's two udata */
static tpt_p the_tpt;
static int m_reg[2], m_en[2];		/* model of the layer below (C06 automaton): registered / enabled */

static int evc(int fn, int enable, tpt_p tpt, uint16_t event, uint16_t flags, uint32_t fflags, uint64_t data, tp_udata_p ud) {
	int k = n_evc++;
	V_ASSERT(k < NEVC, "call budget: tpt_ev_*");
	if (k >= NEVC) exit(5);
	int u = (ud == ud_io) ? 0 : (ud == ud_tm ? 1 : 2);
	evc_fn[k] = fn; evc_enable[k] = enable; evc_ud[k] = u; evc_event[k] = event; evc_flags[k] = flags;
	evc_fflags[k] = fflags; evc_data[k] = data; evc_after_cb[k] = n_cb;
	if (fn <= F_ADD_ARGS2) V_ASSERT(tpt == the_tpt, "registrations go to the task's thread");
	int r = IN.ev_ret[k];
	V_ASSUME(r >= 0 && r < 4096);
	/* contract of the layer below (decided in C06): a foreign udata is refused; a timer call on a udata that holds no
	 * timerfd (the I/O udata) is ENOENT and changes nothing; deleting/disabling a timer that does not exist is ENOENT;
	 * delete always leaves the udata unregistered; a refused add/enable leaves nothing installed. */
	if (u == 2 || (event == TP_EV_TIMER) != (u == 1)) {
		r = (u == 2) ? EINVAL : ENOENT;
		evc_ret[k] = r;
		return (r);
	}
	if (u == 1 && !m_reg[1] && (fn == F_DEL_ARGS1 || (fn >= F_ENABLE_ARGS && !enable))) r = ENOENT;
#ifdef KF_TASK_TIMER_UDATA	/* known finding task-timer-udata: the error path of tp_task_restart / tp_task_enable removes the
				 * timer through tp_data instead of tp_timer. Blocking clause: the I/O registration/enable
				 * does not fail while the task's timer is armed. */
	V_ASSUME(!(u == 0 && r != 0 && (fn == F_ADD_ARGS2 || (fn == F_ENABLE_ARGS1 && enable)) && m_reg[1] && m_en[1]));
#endif
	evc_ret[k] = r;
	if (fn == F_DEL_ARGS1) { m_reg[u] = 0; m_en[u] = 0; }
	else if (r != 0) { if (!(u == 1 && r == ENOENT && !m_reg[1])) { m_reg[u] = 0; m_en[u] = 0; } }
	else if (fn <= F_ADD_ARGS2 || enable) { m_reg[u] = 1; m_en[u] = 1; }
	else { m_reg[u] = 1; m_en[u] = 0; }
	return (r);
}
static int v_tpt_ev_add_args(tpt_p tpt, uint16_t event, uint16_t flags, uint32_t fflags, uint64_t data, tp_udata_p ud) {
	return (evc(F_ADD_ARGS, 1, tpt, event, flags, fflags, data, ud));
}
static int v_tpt_ev_add_args2(tpt_p tpt, uint16_t event, uint16_t flags, tp_udata_p ud) {
	return (evc(F_ADD_ARGS2, 1, tpt, event, flags, 0, 0, ud));
}
static int v_tpt_ev_del_args1(uint16_t event, tp_udata_p ud) {
	return (evc(F_DEL_ARGS1, 0, NULL, event, 0, 0, 0, ud));
}
static int v_tpt_ev_enable_args(int enable, uint16_t event, uint16_t flags, uint32_t fflags, uint64_t data, tp_udata_p ud) {
	return (evc(F_ENABLE_ARGS, enable != 0, NULL, event, flags, fflags, data, ud));
}
static int v_tpt_ev_enable_args1(int enable, uint16_t event, tp_udata_p ud) {
	return (evc(F_ENABLE_ARGS1, enable != 0, NULL, event, 0, 0, 0, ud));
}


#define tpt_ev_add_args		v_tpt_ev_add_args
#define tpt_ev_add_args2	v_tpt_ev_add_args2
#define tpt_ev_del_args1	v_tpt_ev_del_args1
#define tpt_ev_enable_args	v_tpt_ev_enable_args
#define tpt_ev_enable_args1	v_tpt_ev_enable_args1
#endif
