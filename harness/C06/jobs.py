import os
SOLVER = os.environ.get("C06_SOLVER", "cadical")
KF = {}   # known-finding blocking defines in force, e.g. {"KF_TIMER_USEC": None}

META = {
    "bounds": "",
    "outside": "",
    "assumptions": [],
    "harness_functions": [],
}

UNITS = ["s", "ms", "us", "ns"]

def timer_jobs(tier):
    out = []
    for u, un in enumerate(UNITS):
        for pre in (0, 1):
            out.append({
                "name": "timer-%s-%s" % (un, "rearm" if pre else "fresh"), "src": "timer.c",
                "defs": dict(KF, UNIT=u, PRE=pre), "unwind": 6, "solver": SOLVER,
                "shape": "unit=%s, %s; all 64-bit data, flags in {0,ONESHOT,DISPATCH}, ABSTIME on/off, all kernel results" % (
                    un, "timer already installed by an earlier add (re-arm)" if pre else "fresh udata"),
                "desc": "accepted iff representable (kernel permitting); it_value == data*unit (128-bit), interval, clock, "
                        "ABSTIME flag, epoll ADD; refused => nothing stays installed",
            })
    return out

def lemma_jobs(tier):
    out = []
    for u, un in enumerate(UNITS):
        if u in (1, 2):   # cvc5 (bv-as-int) decides the product identity in < 1 s but hangs on the comparison lemma
            out.append({"name": "lemma-%s-product" % un, "src": "lemma.c", "defs": {"UNIT": u}, "unwind": 2, "solver": "cvc5",
                        "prop_exclude": "fit time_t", "shape": "unit=%s, all 64-bit data" % un,
                        "desc": "(data/S)*10^9 + (data%S)*U == data*U (128-bit), (data%S)*U < 10^9"})
            out.append({"name": "lemma-%s-range" % un, "src": "lemma.c", "defs": {"UNIT": u}, "unwind": 2, "solver": SOLVER,
                        "prop_include": "fit time_t", "shape": "unit=%s, all 64-bit data" % un,
                        "desc": "data/S fits time_t <=> data*U < (INT64_MAX+1)*10^9"})
        else:
            out.append({"name": "lemma-%s" % un, "src": "lemma.c", "defs": {"UNIT": u}, "unwind": 2, "solver": SOLVER,
                        "shape": "unit=%s, all 64-bit data" % un,
                        "desc": "Euclid form == 128-bit product (ns: C11 6.5.5p6, not re-proved), nsec range, time_t fit"})
    return out

def jobs(tier):
    return timer_jobs(tier) + lemma_jobs(tier)
