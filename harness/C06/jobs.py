import os
SOLVER = os.environ.get("C06_SOLVER", "cadical")
KF = {}   # known-finding blocking defines in force, e.g. {"KF_TIMER_USEC": None}

META = {
    "bounds": "",
    "outside": "",
    "assumptions": [],
    "harness_functions": [],
}

UNITS = ["s", "ms", "us", "ns"]

def timer_jobs(tier):
    out = []
    for u, un in enumerate(UNITS):
        for pre in (0, 1):
            # the 128-bit product equality is a multiplier/divider equivalence: CaDiCaL and kissat > 120 s, cvc5
            # (bit-vectors as integers) 12 s [measured]; it is therefore decided in a job of its own.
            out.append({
                "name": "timer-%s-%s-arith" % (un, "rearm" if pre else "fresh"), "src": "timer.c",
                "defs": dict(KF, UNIT=u, PRE=pre), "unwind": 6, "solver": "cvc5", "prop_include": "128-bit",
                "shape": "unit=%s, %s; all 64-bit data" % (un, "re-arm" if pre else "fresh udata"),
                "desc": "tv_sec*10^9 + tv_nsec == data*unit in 128-bit arithmetic for every accepted value",
            })
            out.append({
                "name": "timer-%s-%s" % (un, "rearm" if pre else "fresh"), "src": "timer.c", "prop_exclude": "128-bit",
                "defs": dict(KF, UNIT=u, PRE=pre), "unwind": 6, "solver": SOLVER,
                "shape": "unit=%s, %s; all 64-bit data, flags in {0,ONESHOT,DISPATCH}, ABSTIME on/off, all kernel results" % (
                    un, "timer already installed by an earlier add (re-arm)" if pre else "fresh udata"),
                "desc": "accepted iff representable (kernel permitting); it_value == data*unit (128-bit), interval, clock, "
                        "ABSTIME flag, epoll ADD; refused => nothing stays installed",
            })
    return out

def jobs(tier):
    return timer_jobs(tier)
