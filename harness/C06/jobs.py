import os
SOLVER = os.environ.get("C06_SOLVER", "cadical")
KF = {}   # all three findings were repaired in /repo (known_findings.json: fixed)   # known-finding blocking defines in force (see findings/)

if os.environ.get("C06_NO_KF"):   # reproduce the findings: run without the blocking clauses
    KF = {}

META = {
    "bounds":
        "Linux/epoll branch of src/threadpool/threadpool.c, real tpt_ev_validate, tpt_ev_post, epoll_ctl_ex, tp_flags_to_ep, "
        "tpt_ev_add*/enable*/del* and the body of tpt_loop, kernel replaced by recording stubs. "
        "TIMER ARITHMETIC (timer.c + lemma.c): one registration from a fresh udata or re-arming (add/enable) a timer installed by "
        "an earlier add in seconds with the same flag set and clock kind; ALL 64-bit data values for s/ms/us/ns through "
        "tpt_ev_add(ev)/tpt_ev_enable(1,ev); through tpt_ev_add_args/tpt_ev_enable_args everything except the value equality for "
        "all data, the value equality for all data in seconds and on windows of 4096 values at 0, 10^6, 10^9, 2^32, 2^63, 2^64 "
        "(quick: re-arm only 10^6 and 10^9); flags in {0, ONESHOT, DISPATCH}, ABSTIME on/off, pool CLOEXEC on/off, every result of "
        "timerfd_create / epoll_ctl / timerfd_settime. The 128-bit statement tv_sec*10^9+tv_nsec == data*unit is decided as: code "
        "programs (data/S, (data%S)*U) [timer.c] + that pair satisfies the 128-bit product identity for all data [lemma.c, cvc5]; "
        "for ns the identity is C11 6.5.5p6 itself and is not re-proved. "
        "VALIDATION (validate.c): one call of any of the 8 public entry points, all event/flags/fflags/data/ident values, NULL "
        "event/udata/callback/thread, any previous tpdata. "
        "GATING (gating.c): histories of <= 3 control calls (add/enable/disable/delete, symbolic) and <= 2 epoll rounds (quick: "
        "25 shapes; thorough: all 10 interleavings for each of READ/WRITE/TIMER/PROC on the worker and on the pool virtual "
        "thread, 9 two-identifier interleavings for 16 kind pairs, plus 3-delivery patterns), flags per call symbolic for "
        "read/write, readiness bits / timeout / EINTR / error / SO_ERROR / timerfd read / waitpid symbolic.",
    "outside":
        "enable/disable/delete issued from another thread while the owner runs (races); real kernel timing (a delivery is any "
        "report epoll(7) permits); kqueue branch; callbacks that themselves call tpt_ev_*; a udata used with more than one "
        "event kind; two registrations on one descriptor (TP_LINUX_MULTIPLE_EVENTS is off); timers/proc events whose flag set "
        "or clock kind (ABSTIME) changes between add and enable (the code remembers creation flags and creation clock only - "
        "an ABSTIME enable on a timer created relative would be programmed on CLOCK_MONOTONIC; not decided here); "
        "descriptor 0 returned by timerfd_create/pidfd_open (the code uses fd 0 as 'no timer'); injected kernel failures inside "
        "multi-step histories (covered per call in timer.c); value equality through the *_args entry points outside the listed "
        "windows for ms/us/ns; uninitialised ev.data passed to a timer callback when read(timerfd) fails; pool creation (C11).",
    "assumptions": [
        "kernel stubs (harness/common/tpev/tpev_env.h) for epoll_ctl, epoll_wait, timerfd_create, timerfd_settime, close, read, "
        "getsockopt, setsockopt, waitpid, syscall(SYS_pidfd_open), fcntl, syslog - results are solver variables restricted only by "
        "the man-page contracts listed at the top of that file (EEXIST/ENOENT truthfully, EINVAL for non-normalised timespec, "
        "EPOLLERR|EPOLLHUP always reported, EPOLLONESHOT silences until MOD, close() drops epoll registrations)",
        "pool pre-state built by hand as static objects (one worker + pool virtual thread, pvt descriptor registered in the "
        "worker's epoll set, fd_count = 16) instead of tp_create(); tpt_msg_queue_create/destroy, tpt_msg_send are link-only stubs",
        "timerfd_create / pidfd_open return a fresh descriptor > 0 or -1",
        "which identifier a control call addresses and which registration an epoll round reports is part of the job shape "
        "(enumerated), not a solver variable",
        "identifiers of read/write events are distinct open descriptors in [5, 16)",
        "Euclid form + lemma.c = 128-bit product statement; uniqueness not needed (lemma proves the product for the Euclid pair)",
        "signed-overflow/pointer checks of CBMC stay on",
        "KF_TIMER_USEC, KF_FLAGS_MASK, KF_ONESHOT_PVT blocking clauses while the findings are unfixed (see findings/)",
    ],
    "harness_functions": ["harness", "cb", "control", "deliver", "check_state", "k_slot_of_ud", "kind_of", "on_pvt", "epfd_of", "is_rw",
                          "v_epoll_ctl", "v_epoll_wait", "v_timerfd_create", "v_timerfd_settime", "v_close", "v_read", "v_getsockopt",
                          "v_setsockopt", "v_waitpid", "v_syscall", "v_fcntl", "v_syslog", "tpev_env_init", "tpev_k_find", "tpev_t_find",
                          "tpev_fd_in_use", "tpev_new_fd", "tpev_ts_valid", "tpev_on_wait_exhausted", "tpt_msg_queue_create",
                          "tpt_msg_queue_destroy", "tpt_msg_send", "v_alloc", "v_buf"],
}

UNITS = ["s", "ms", "us", "ns"]

# windows for the args entry points (units with a division): unit boundaries named in the property's quantifier
WINDOWS = [0, 999999 - 2048, 1000000000 - 2048, (1 << 32) - 2048, (1 << 63) - 2048, (1 << 64) - 4096]
WIN_SIZE = 4096

def timer_jobs(tier):
    out = []
    for u, un in enumerate(UNITS):
        for pre in (0, 1):
            st = "timer already installed by an earlier add (re-arm via add or enable)" if pre else "fresh udata"
            # ev entry points: the oracle reads the same tp_event_t object as the code => shared divider, all data
            out.append({
                "name": "timer-%s-%s-ev" % (un, "rearm" if pre else "fresh"), "src": "timer.c",
                "defs": dict(KF, UNIT=u, PRE=pre, API_EV=1), "unwind": 6, "solver": SOLVER,
                "shape": "tpt_ev_add(ev)/tpt_ev_enable(1,ev), unit=%s, %s; all 64-bit data, flags in {0,ONESHOT,DISPATCH}, "
                         "ABSTIME on/off, all kernel results" % (un, st),
                "desc": "accepted iff seconds fit time_t (kernel permitting); it_value == data*unit (Euclid form), interval, "
                        "clock, ABSTIME flag, epoll ADD; refused => nothing stays installed",
            })
            # args entry points copy data into a callee-local event: no shared divider; everything except the value
            # equality for all data, the value equality for all data in seconds (no division) and on windows otherwise
            out.append({
                "name": "timer-%s-%s-args" % (un, "rearm" if pre else "fresh"), "src": "timer.c",
                "defs": dict(KF, UNIT=u, PRE=pre, API_EV=0), "unwind": 6, "solver": SOLVER,
                # (under KF_TIMER_USEC the exemption predicate needs the divider too: "accepted" is then window-only for us)
                "prop_exclude": None if u == 0 else ("Euclid|accepted when" if (u == 2 and KF) else "Euclid"),
                "shape": "tpt_ev_add_args/tpt_ev_enable_args(1,..), unit=%s, %s; all 64-bit data, flags, ABSTIME, all kernel "
                         "results" % (un, st),
                "desc": "as the -ev job" + ("" if u == 0 else " except the it_value equality (see -args-w* jobs)"),
            })
            if u != 0:
                wins = WINDOWS if tier == "thorough" or not pre else WINDOWS[1:3]
                for wi, wb in enumerate(wins):
                    out.append({
                        "name": "timer-%s-%s-args-w%d" % (un, "rearm" if pre else "fresh", WINDOWS.index(wb)), "src": "timer.c",
                        "defs": dict(KF, UNIT=u, PRE=pre, API_EV=0, WIN_BASE="%dull" % wb, WIN_SIZE="%dull" % WIN_SIZE),
                        "unwind": 6, "solver": SOLVER, "prop_include": "Euclid|accepted when|is refused",
                        "shape": "tpt_ev_add_args/enable_args, unit=%s, %s; data in [%d, %d+%d)" % (un, st, wb, wb, WIN_SIZE),
                        "desc": "it_value == data*unit (Euclid form) through the args entry points on a window",
                    })
    return out

def lemma_jobs(tier):
    out = []
    for u, un in enumerate(UNITS):
        if u in (1, 2):   # cvc5 (bv-as-int) decides the product identity in < 1 s but hangs on the comparison lemma
            out.append({"name": "lemma-%s-product" % un, "src": "lemma.c", "defs": {"UNIT": u}, "unwind": 2, "solver": "cvc5",
                        "prop_exclude": "fit time_t", "shape": "unit=%s, all 64-bit data" % un,
                        "desc": "(data/S)*10^9 + (data%S)*U == data*U (128-bit), (data%S)*U < 10^9"})
            out.append({"name": "lemma-%s-range" % un, "src": "lemma.c", "defs": {"UNIT": u}, "unwind": 2, "solver": SOLVER,
                        "prop_include": "fit time_t", "shape": "unit=%s, all 64-bit data" % un,
                        "desc": "data/S fits time_t <=> data*U < (INT64_MAX+1)*10^9"})
        else:
            out.append({"name": "lemma-%s" % un, "src": "lemma.c", "defs": {"UNIT": u}, "unwind": 2, "solver": SOLVER,
                        "shape": "unit=%s, all 64-bit data" % un,
                        "desc": "Euclid form == 128-bit product (ns: C11 6.5.5p6, not re-proved), nsec range, time_t fit"})
    return out

def validate_jobs(tier):
    return [{
        "name": "validate", "src": "validate.c", "defs": dict(KF), "unwind": 6, "solver": SOLVER,
        "shape": "one call of any of the 8 public entry points; all event/flags/fflags/data/ident values, NULL event/udata/"
                 "callback/thread, any previous tpdata",
        "desc": "malformed tuple (per threadpool.h) => error return, zero system calls, udata untouched, no callback",
    }]

ARR5 = ["aaaxx", "aaxax", "aaxxa", "axaax", "axaxa", "axxaa", "xaaax", "xaaxa", "xaxaa", "xxaaa"]   # 3 controls + 2 deliveries

def gating_shapes(tier):
    if tier == "quick":
        sh = [(k, p) for k in "RT" for p in ("axaxa", "aaxxa", "axxaa", "aaxax")]
        sh += [(k, p) for k in "WP" for p in ("axaxa", "axxaa")]
        sh += [("r", "axaxa"), ("t", "axxaa"), ("R", "anaxn")]
        sh += [("RT", "abxya"), ("RW", "abyxb"), ("TP", "axbya"), ("RR", "abxxb"), ("TT", "abyxa"), ("Rt", "abyxa")]
    else:
        sh = [(k, p) for k in "RWTPrwtp" for p in ARR5]
        sh += [(k, p) for k in "RT" for p in ("anaxn", "axnxa", "naxan")]
        two = ["abxya", "abyxb", "axbya", "abxxb", "aybxa", "abxyb", "ayaxb", "baxyx", "abyya"]
        for pair in ("RR", "RW", "WR", "RT", "TR", "RP", "TT", "TP", "PT", "WT", "PP", "Rt", "rT", "rt", "rw", "Tp"):
            sh += [(pair, p) for p in two]
    return sh

def gating_jobs(tier):
    out = []
    for ids, pat in gating_shapes(tier):
        out.append({
            "name": "gating-%s-%s" % (ids, pat), "src": "gating.c", "defs": dict(KF, PATTERN='"%s"' % pat, IDS='"%s"' % ids),
            "unwind": 10, "unwindset": ["tpt_loop.0:3"], "solver": SOLVER, "timeout": 300 if tier == "quick" else 900,
            "shape": "identifiers %s (R/W/T/P on the worker, lower case on the pool virtual thread), history %s (a,b = add/"
                     "enable/disable/delete on id 0/1; x,y = epoll round reporting id 0/1 or nothing; n = empty round)" % (ids, pat),
            "desc": "callback iff registered and enabled (reference automaton); ONESHOT gone, DISPATCH silent until "
                    "re-enabled, EOF/ERROR flags, kernel-side state matches after every step",
        })
    return out

def jobs(tier):
    return timer_jobs(tier) + lemma_jobs(tier) + validate_jobs(tier) + gating_jobs(tier)
