/* C06 / validation: every malformed registration tuple is refused with an error, issues no system call and leaves the
 * udata untouched - for every public entry point (tpt_ev_add, _add_args, _add_args2, _del, _del_args1, _enable,
 * _enable_args, _enable_args1), every event/flags/fflags/data value, NULL pointers, and ANY previous tpdata.
 *
 * "Malformed" is written down from include/threadpool/threadpool.h, not from tpt_ev_validate():
 *   event not one of READ/WRITE/TIMER/PROC; a flag bit other than TP_F_ONESHOT|TP_F_DISPATCH (the only "set" flags this
 *   build defines: TP_F_EDGE/TP_F_EXCLUSIVE are #if 0) or both of them; an fflags bit outside the event's set
 *   (RW: LOWAT; TIMER: unit enum + ABSTIME; PROC: EXIT); ident == -1; descriptor >= fd_count for READ/WRITE; no callback;
 *   no thread; NULL event / udata. */
#include "verif.h"
#include "common/tpev/tpev_in.h"

struct in_s {
	uint8_t		api;		/* 0..7, see switch */
	uint8_t		ev_null, ud_null, cb_null;
	uint8_t		tpt_sel;	/* 0: NULL, 1: worker, 2: pool virtual thread */
	uint8_t		enable;
	uint16_t	event, flags;
	uint32_t	fflags;
	uint64_t	data;
	uint64_t	ident;
	uint64_t	tpdata;		/* whatever an earlier history left in the udata */
	uint32_t	s_flags;
	struct tpev_in_s env;
};
#include "verif_in.h"
#define TPEV_IN IN.env
#include "common/tpev/tpev_env.h"

static int n_cb;
static void cb(tp_event_p ev, tp_udata_p ud) { (void)ev; (void)ud; n_cb++; }

void harness(void) {
	V_BEGIN();
	tpev_env_init(IN.s_flags);
	static tp_udata_t ud_obj;	/* static: constant propagation (see tpev_env.h) */
	tp_udata_t *ud = &ud_obj;
	ud->cb_func = IN.cb_null ? NULL : cb;
	ud->ident = (uintptr_t)IN.ident;
	ud->tpdata = IN.tpdata;
	V_ASSUME(IN.tpt_sel <= 2);
	tpt_p tpt = IN.tpt_sel == 0 ? NULL : (IN.tpt_sel == 1 ? tpev_tpt : tpev_pvt);
	V_ASSUME(IN.api <= 7);
	int is_add = (IN.api <= 2);
	if (!is_add) ud->tpt = tpt;	/* what an earlier add left there */
	tp_event_t evs = { .event = IN.event, .flags = IN.flags, .fflags = IN.fflags, .data = IN.data };
	tp_event_p ev = IN.ev_null ? NULL : &evs;
	tp_udata_p udp = IN.ud_null ? NULL : ud;

	/* effective tuple seen by the library for each entry point */
	uint16_t e_event = IN.event, e_flags = IN.flags; uint32_t e_fflags = IN.fflags;
	int uses_ev = (IN.api == 0 || IN.api == 3 || IN.api == 5);
	if (IN.api == 2) { e_fflags = 0; }
	if (IN.api == 4 || IN.api == 7) { e_flags = 0; e_fflags = 0; }

	int r;
	switch (IN.api) {
	case 0: r = tpt_ev_add(tpt, ev, udp); break;
	case 1: r = tpt_ev_add_args(tpt, IN.event, IN.flags, IN.fflags, IN.data, udp); break;
	case 2: r = tpt_ev_add_args2(tpt, IN.event, IN.flags, udp); break;
	case 3: r = tpt_ev_del(ev, udp); break;
	case 4: r = tpt_ev_del_args1(IN.event, udp); break;
	case 5: r = tpt_ev_enable(IN.enable, ev, udp); break;
	case 6: r = tpt_ev_enable_args(IN.enable, IN.event, IN.flags, IN.fflags, IN.data, udp); break;
	default: r = tpt_ev_enable_args1(IN.enable, IN.event, udp); break;
	}

	int bad_ptr = IN.ud_null || (uses_ev && IN.ev_null);
	int bad_flags = (e_flags & ~(TP_F_ONESHOT | TP_F_DISPATCH)) != 0 ||
	    (e_flags & (TP_F_ONESHOT | TP_F_DISPATCH)) == (TP_F_ONESHOT | TP_F_DISPATCH);
#ifdef KF_FLAGS_MASK	/* known finding flags-mask: undefined flag bits 2 and 3 pass validation (blocking clause) */
	if ((e_flags & ~(TP_F_ONESHOT | TP_F_DISPATCH)) != 0 && (e_flags & ~0x000f) == 0 &&
	    (e_flags & (TP_F_ONESHOT | TP_F_DISPATCH)) != (TP_F_ONESHOT | TP_F_DISPATCH)) bad_flags = 0;
#endif
	int bad_event = e_event > TP_EV_PROC;
	int bad_fflags = 0, bad_fd = 0;
	switch (e_event) {
	case TP_EV_READ: case TP_EV_WRITE:
		bad_fflags = (e_fflags & ~TP_FF_RW_LOWAT) != 0;
		bad_fd = (uint64_t)IN.ident >= TPEV_FD_COUNT;
		break;
	case TP_EV_TIMER: bad_fflags = (e_fflags & ~(TP_FF_T_TM_MASK | TP_FF_T_ABSTIME)) != 0; break;
	case TP_EV_PROC: bad_fflags = (e_fflags & ~TP_FF_P_EXIT) != 0; break;
	}
	int bad_ud = IN.cb_null || IN.ident == UINT64_MAX || tpt == NULL;
	int malformed = bad_ptr || bad_flags || bad_event || bad_fflags || bad_fd || bad_ud;

	if (malformed) {
		V_ASSERT(r != 0, "malformed registration is refused with an error");
		V_ASSERT(TPEV_SYSCALLS() == 0, "malformed registration issues no system call");
		V_ASSERT(ud->tpdata == IN.tpdata, "malformed registration leaves the udata state untouched");
		V_ASSERT(n_cb == 0, "no callback");
		if (bad_ptr) V_WITNESS("NULL event/udata refused");
		if (bad_flags && !bad_ptr && !bad_ud) V_WITNESS("bad flags refused");
		if (bad_event && !bad_ptr && !bad_flags && !bad_ud) V_WITNESS("bad event refused");
		if (bad_fflags && !bad_ptr && !bad_flags && !bad_ud && !bad_fd) V_WITNESS("bad fflags refused");
		if (bad_fd && !bad_ptr && !bad_flags && !bad_ud && !bad_fflags) V_WITNESS("descriptor >= fd_count refused");
		if (bad_ud && !bad_ptr && !bad_flags) V_WITNESS("bad udata refused");
		V_WITNESS_MUST("malformed tuple");
	} else {
		if (TPEV_SYSCALLS() > 0) V_WITNESS_MUST("well-formed tuple reaches the kernel");
		if (r == 0) V_WITNESS("well-formed tuple accepted");
	}
}
