/* C06 / arithmetic lemma (no library code): for every 64-bit data and unit U in {10^9, 10^6, 10^3, 1} ns, with
 * S = 10^9 / U:   (data / S) * 10^9 + (data % S) * U == data * U   in 128-bit arithmetic, and (data % S) * U < 10^9.
 * timer.c asserts that the real code programs tv_sec == data / S and tv_nsec == (data % S) * U ("Euclid form", cheap
 * for SAT because it shares the divider with the code); together with this lemma that is the 128-bit statement
 * tv_sec * 10^9 + tv_nsec == data * unit of DESIGN 5.6.  Split because CaDiCaL/kissat do not decide the
 * multiplier/divider equivalence in 120 s while cvc5 (bit-vectors as integers) needs seconds [measured]. */
#include "verif.h"
struct in_s { uint64_t data; };
#include "verif_in.h"
#ifndef UNIT
#define UNIT 1
#endif
typedef unsigned __int128 u128;
static const uint64_t unit_ns[4] = { 1000000000ull, 1000000ull, 1000ull, 1ull };
void harness(void) {
	V_BEGIN();
	uint64_t U = unit_ns[UNIT], S = 1000000000ull / U, data = IN.data;
	uint64_t q = data / S, r = data % S;
	V_ASSERT(r * U < 1000000000ull, "lemma: (data % S) * U is a valid tv_nsec");
#if UNIT != 3	/* for nanoseconds this is C11 6.5.5p6 itself, (a/b)*b + a%b == a; no back end decided it in 100 s [measured] */
	V_ASSERT((u128)q * 1000000000ull + (u128)(r * U) == (u128)data * U, "lemma: q*10^9 + r*U == data*U (128-bit)");
#endif
	V_ASSERT((q <= (uint64_t)INT64_MAX) == ((u128)data * U <= (u128)INT64_MAX * 1000000000ull + 999999999ull),
	    "lemma: seconds fit time_t <=> product below (INT64_MAX+1)*10^9");
	V_WITNESS_MUST("lemma evaluated");
}
