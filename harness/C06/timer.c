/* C06 / timer arithmetic: one timer registration through the public wrappers, from a fresh udata (PRE == 0) or on a
 * timer that an earlier tpt_ev_add_args() installed (PRE == 1, re-arm path).
 * Shape: UNIT (0 s, 1 ms, 2 us, 3 ns), PRE, API_EV (1: tpt_ev_add(ev)/tpt_ev_enable(1,ev); 0: the *_args entry points),
 * optional WIN_BASE/WIN_SIZE (data window, *_args jobs only).  Symbolic: data (64 bit), flags, ABSTIME bit, add-vs-enable entry point,
 * pool CLOEXEC setting, every kernel result (timerfd_create / epoll_ctl / timerfd_settime may fail with any errno).
 *
 * Oracle: with U = unit in ns and S = 10^9 / U, the programmed value is tv_sec == data / S, tv_nsec == (data % S) * U
 * (Euclid form), it must be a normalised timespec, and data / S must fit time_t.  lemma.c proves (cvc5) that the Euclid
 * form satisfies tv_sec * 10^9 + tv_nsec == data * U in 128-bit arithmetic; asserting the 128-bit product here directly
 * is a multiplier/divider equivalence that CaDiCaL and kissat did not decide in 120 s [measured]. */
#include "verif.h"
#include "common/tpev/tpev_in.h"

struct in_s {
	uint8_t		use_enable;	/* PRE == 1 only: 0 = add again, 1 = enable */
	uint16_t	flags;
	uint8_t		abstime;
	uint64_t	data;
	uint32_t	s_flags;
	uint64_t	ident;
	/* PRE == 1: the earlier registration */
	uint16_t	flags0;
	uint32_t	fflags0;
	uint64_t	data0;
	struct tpev_in_s env;
};
#include "verif_in.h"
#define TPEV_IN IN.env
#include "common/tpev/tpev_env.h"

#ifndef UNIT
#define UNIT 1
#endif
#ifndef PRE
#define PRE 0
#endif
#ifndef API_EV	/* 1: tpt_ev_add(ev) / tpt_ev_enable(1, ev);  0: tpt_ev_add_args / tpt_ev_enable_args(1, ...) */
#define API_EV 1
#endif

static int n_cb;
static void cb(tp_event_p ev, tp_udata_p ud) { (void)ev; (void)ud; n_cb++; }

void harness(void) {
	V_BEGIN();
	tpev_env_init(IN.s_flags);
	static tp_udata_t ud_obj;	/* static: constant propagation (see tpev_env.h) */
	tp_udata_t *ud = &ud_obj;
	ud->cb_func = cb;
	ud->ident = (uintptr_t)IN.ident;
	V_ASSUME(ud->ident != (uintptr_t)-1);

	int tfd0 = 0, base_cre = 0, base_ctl = 0, base_set = 0;
#if PRE
	V_ASSUME((IN.fflags0 & TP_FF_T_TM_MASK) == TP_FF_T_SEC);	/* bound: the earlier registration was made in seconds */
	int r0 = tpt_ev_add_args(tpev_tpt, TP_EV_TIMER, IN.flags0, IN.fflags0, IN.data0, ud);
	V_ASSUME(r0 == 0);
	tfd0 = tpev_lcre_ret[0];
	base_cre = tpev_n_cre; base_ctl = tpev_n_ctl; base_set = tpev_n_set;
	V_ASSUME(IN.flags == IN.flags0);	/* bound: one flag set per timer identifier */
	V_ASSUME((IN.abstime != 0) == ((IN.fflags0 & TP_FF_T_ABSTIME) != 0));	/* bound: clock kind fixed per identifier */
#endif
	uint16_t flags = IN.flags;
	V_ASSUME((flags & ~(TP_F_ONESHOT | TP_F_DISPATCH)) == 0 && flags != (TP_F_ONESHOT | TP_F_DISPATCH));
	uint32_t fflags = (uint32_t)UNIT | (IN.abstime ? TP_FF_T_ABSTIME : 0);
	uint64_t data = IN.data;
#ifdef WIN_BASE	/* args entry points, units with a division: symbolic offset in a concrete window (stated bound) */
	V_ASSUME(data >= (uint64_t)(WIN_BASE) && data - (uint64_t)(WIN_BASE) < (uint64_t)(WIN_SIZE));
#endif
	tp_event_t ev = { .event = TP_EV_TIMER, .flags = flags, .fflags = fflags, .data = data };
	int r;
	int api = (API_EV ? 2 : 0) + ((PRE && IN.use_enable) ? 1 : 0);
	switch (api) {
	case 0: r = tpt_ev_add_args(tpev_tpt, TP_EV_TIMER, flags, fflags, data, ud); break;
	case 1: r = tpt_ev_enable_args(1, TP_EV_TIMER, flags, fflags, data, ud); break;
	case 2: r = tpt_ev_add(tpev_tpt, &ev, ud); break;
	default: r = tpt_ev_enable(1, &ev, ud); break;
	}
	/* (enable on a udata that was never added has tp_udata->tpt == NULL and is refused: covered in validate.c) */

	/* literal constants (not table look-ups): CBMC then shares the divider circuit with the code's own division,
	 * which is what makes this equality cheap for SAT */
	/* NB: read from `ev`, the very object the code reads through its pointer when API is 2 or 3 */
#if UNIT == 0
	uint64_t want_sec = ev.data, want_nsec = 0;
#elif UNIT == 1
	uint64_t want_sec = ev.data / 1000ul, want_nsec = (ev.data % 1000ul) * 1000000ul;
#elif UNIT == 2
	uint64_t want_sec = ev.data / 1000000ul, want_nsec = (ev.data % 1000000ul) * 1000ul;
#else
	uint64_t want_sec = ev.data / 1000000000ul, want_nsec = (ev.data % 1000000000ul);
#endif
	int representable = (want_sec <= (uint64_t)INT64_MAX);	/* seconds fit time_t */
	int env_ok = 1;
	for (int i = base_cre; i < tpev_n_cre; i++) if (tpev_lcre_ret[i] < 0) env_ok = 0;
	for (int i = base_ctl; i < tpev_n_ctl; i++) if (IN.env.ctl_err[i] != 0) env_ok = 0;
	for (int i = base_set; i < tpev_n_set; i++) if (IN.env.set_err[i] != 0) env_ok = 0;

	/* Known finding timer-usec (findings/timer-usec.md): microsecond values with a non-zero sub-second part are refused.
	 * Blocking clause for exactly that input class; it only exempts the "is accepted" obligation - everything else
	 * (exact value when accepted, nothing left installed when refused) is still checked for those inputs.
	 * (Stated on want_nsec rather than as an input assumption: `data % 10^6 == 0` as an assumption made every us job
	 * time out.) */
#if defined(KF_TIMER_USEC) && UNIT == 2
#define KF_EXEMPT (want_nsec != 0)
#else
#define KF_EXEMPT 0
#endif
	if (representable && env_ok && !KF_EXEMPT)
		V_ASSERT(r == 0, "a representable timer value is accepted when the kernel calls succeed");
	if (!representable)
		V_ASSERT(r != 0, "a value whose seconds do not fit time_t is refused");

	if (r == 0) {
		int tfd = PRE ? tfd0 : tpev_lcre_ret[0];
#if !PRE
		V_ASSERT(tpev_n_cre == 1 && tpev_lcre_is_pidfd[0] == 0, "exactly one timerfd is created");
		V_ASSERT(tpev_lcre_clock[0] == (IN.abstime ? CLOCK_REALTIME : CLOCK_MONOTONIC),
		    "ABSTIME <=> CLOCK_REALTIME, relative <=> CLOCK_MONOTONIC");
		V_ASSERT(tpev_lcre_flags[0] == (TFD_NONBLOCK | ((IN.s_flags & TP_S_F_CLOEXEC) ? TFD_CLOEXEC : 0)),
		    "timerfd flags: non-blocking, close-on-exec as the pool says");
		V_ASSERT(tpev_n_ctl == 1 && tpev_lc_op[0] == EPOLL_CTL_ADD && tpev_lc_epfd[0] == TPEV_EPFD &&
		    tpev_lc_fd[0] == tfd && tpev_lc_ptr[0] == (void *)ud,
		    "the timerfd is added to the owning thread's epoll set with the udata");
		V_ASSERT((tpev_lc_events[0] & EPOLLIN) != 0 && (tpev_lc_events[0] & EPOLLONESHOT) == 0,
		    "timerfd watched for EPOLLIN, one-shot handled by the timer itself");
#else
		V_ASSERT(tpev_n_cre == base_cre && tpev_n_ctl == base_ctl, "re-arming does not create a second timerfd");
#endif
		V_ASSERT(tpev_n_set == base_set + 1, "exactly one timerfd_settime");
		const int ls = base_set;
		struct timespec lv = { .tv_sec = tpev_ls_val_sec[ls], .tv_nsec = tpev_ls_val_nsec[ls] };
		V_ASSERT(tpev_ls_fd[ls] == tfd && tpev_ls_ret[ls] == 0, "the timer's own descriptor is programmed");
		V_ASSERT(tpev_ls_flags[ls] == (IN.abstime ? TFD_TIMER_ABSTIME : 0), "ABSTIME <=> TFD_TIMER_ABSTIME");
		int ti = tpev_t_find(tfd);
		V_ASSERT(ti >= 0, "timerfd still open");
		V_ASSERT(tpev_t_clock[ti] == (IN.abstime ? CLOCK_REALTIME : CLOCK_MONOTONIC), "clock of the armed descriptor matches ABSTIME");
		V_ASSERT(tpev_ts_valid(&lv), "it_value is a normalised timespec");
		V_ASSERT((uint64_t)tpev_ls_val_sec[ls] == want_sec && (uint64_t)tpev_ls_val_nsec[ls] == want_nsec,
		    "it_value == data * unit (Euclid form; 128-bit product by lemma.c)");
		if (flags & (TP_F_ONESHOT | TP_F_DISPATCH))
			V_ASSERT(tpev_ls_int_sec[ls] == 0 && tpev_ls_int_nsec[ls] == 0, "one-shot/dispatch: zero interval");
		else
			V_ASSERT(tpev_ls_int_sec[ls] == tpev_ls_val_sec[ls] && tpev_ls_int_nsec[ls] == tpev_ls_val_nsec[ls],
			    "periodic: it_interval == it_value");
		V_ASSERT(TPDATA_TFD_GET(ud->tpdata) == tfd && (ud->tpdata & TPDATA_F_DISABLED) == 0 &&
		    TPDATA_EVENT_GET(ud->tpdata) == TP_EV_TIMER,
		    "udata remembers the timerfd, the event kind, and is enabled");
		V_ASSERT(tpev_k_find(TPEV_EPFD, tfd) >= 0, "timerfd registered in epoll");
		V_ASSERT(tpev_n_close == 0, "nothing closed on success");
#if API_EV || defined(WIN_BASE)	/* (refuting it with an unshared divider is as hard as the value equality) */
		if (UNIT == 2 && want_nsec != 0) V_WITNESS("microseconds with sub-second part accepted");
#endif
		if (data == 0) V_WITNESS("zero value");
		if (IN.abstime) V_WITNESS("absolute timer accepted");
		if (flags == 0) V_WITNESS("periodic timer accepted");
		if (want_sec > 0xffffffffull) V_WITNESS("seconds above 2^32 accepted");
#if defined(KF_TIMER_USEC) && UNIT == 2 && defined(WIN_BASE)
		V_WITNESS("timer accepted");	/* a window need not contain a multiple of 10^6 */
#else
		V_WITNESS_MUST("timer accepted");
#endif
	} else {
		/* refused: nothing may stay installed */
		V_ASSERT(ud->tpdata == 0, "refused timer leaves no state in the udata");
		for (int i = 0; i < TPEV_TSLOTS; i++)
			V_ASSERT(!tpev_t_open[i], "refused timer leaves no open timerfd");
		for (int i = 1; i < TPEV_KSLOTS; i++)
			V_ASSERT(!tpev_k_used[i], "refused timer leaves no epoll registration");
		if (!representable) V_WITNESS("unrepresentable value refused");
		if (!env_ok) V_WITNESS("kernel failure reported");
		V_WITNESS("timer refused");
	}
	V_ASSERT(n_cb == 0, "no callback from a control call");
}
