/* C06 / gating: short histories of control calls and deliveries on up to two identifiers, real tpt_ev_* wrappers,
 * real tpt_ev_post / epoll_ctl_ex / tp_flags_to_ep and the real tpt_loop body, against a small reference automaton.
 *
 * Shape: IDS     one letter per identifier: R/W/T/P = read/write/timer/proc registered on the worker thread,
 *                r/w/t/p = the same registered on the pool virtual thread;
 *        PATTERN string over  a,b = control call on identifier 0/1 (which call is symbolic),
 *                             x,y = one tpt_loop round in which epoll reports identifier 0/1 (or nothing: timeout, EINTR,
 *                                   error - the solver chooses), n = a round in which epoll reports nothing.
 * (Who is addressed is part of the shape because a solver-chosen udata pointer made one delivery cost 1.4 M variables.)
 * Symbolic: per identifier: descriptor / ident value, [timer/proc: the flag set]; per control step: which call (add /
 * enable / disable / delete), flags (read/write: any valid set per call), fflags, data; per delivery: the readiness
 * bits, timeout / EINTR / error, getsockopt(SO_ERROR), read(timerfd), waitpid.
 *
 * Reference automaton per identifier: (registered, enabled, flags).  add/enable => registered+enabled with the call's
 * flags; disable => disabled; delete => unregistered; a delivery calls the callback iff registered and enabled, exactly
 * once, with the identifier's udata; afterwards ONESHOT => unregistered, DISPATCH => disabled, PROC => unregistered.
 * After every step the kernel-side state is compared with the automaton:
 *   unregistered => no epoll registration carries the udata, no timerfd/pidfd of it is open, tpdata == 0  ("is then gone");
 *   registered+enabled => the epoll registration exists, carries the udata, has the interest bits of the kind, is not
 *   silenced, EPOLLONESHOT iff ONESHOT|DISPATCH; timers: descriptor open, interval as the flags say ("keeps firing").
 * Control calls are well-formed (validate.c covers the rest) and kernel calls are not failed artificially here
 * (timer.c covers failure paths); semantic refusals (ENOENT / EEXIST) must leave the state unchanged or unregistered. */
#include "verif.h"
#define TPEV_NCTL 8
#define TPEV_NSET 4
#define TPEV_NCRE 4
#define TPEV_NWAIT 6
#define TPEV_NMISC 3
#define TPEV_NCLOSE 4
#define TPEV_TSLOTS 3
#include "common/tpev/tpev_in.h"

#ifndef PATTERN
#define PATTERN "axax"
#endif
#ifndef IDS
#define IDS "R"
#endif
#define NID ((int)sizeof(IDS) - 1)
#define NSTEP ((int)sizeof(PATTERN) - 1)

struct id_in_s { uint64_t ident; uint16_t tflags; uint8_t abstime; };
struct step_in_s { uint8_t act; uint16_t flags; uint8_t lowat; uint64_t data; };
struct in_s {
	struct id_in_s	id[NID];
	struct step_in_s step[NSTEP];
	uint32_t	s_flags;
	struct tpev_in_s env;
};
#include "verif_in.h"
#define TPEV_IN IN.env
#include "common/tpev/tpev_env.h"

enum { A_ADD = 0, A_ENABLE = 1, A_DISABLE = 2, A_DEL = 3 };

static tp_udata_t uds[NID];		/* the identifiers' udata (static: see tpev_env.h on constant propagation) */
static struct { int reg, en; uint16_t flags; } ref[NID];
static int n_cb[NID], n_cb_other;
static tp_event_t last_ev[NID];

static void cb(tp_event_p ev, tp_udata_p ud) {
	int hit = 0;
	for (int j = 0; j < NID; j++) if (ud == &uds[j]) { n_cb[j]++; last_ev[j] = *ev; hit = 1; }
	if (!hit) n_cb_other++;
}

static const char ids[] = IDS;
static int kind_of(int j) {
	switch (ids[j]) { case 'R': case 'r': return (TP_EV_READ); case 'W': case 'w': return (TP_EV_WRITE);
	case 'T': case 't': return (TP_EV_TIMER); default: return (TP_EV_PROC); }
}
static int on_pvt(int j) { return (ids[j] >= 'a'); }
static int epfd_of(int j) { return (on_pvt(j) ? TPEV_EPFD_PVT : TPEV_EPFD); }
static int is_rw(int j) { return (kind_of(j) == TP_EV_READ || kind_of(j) == TP_EV_WRITE); }

static int k_slot_of_ud(int j) {	/* epoll registration carrying this udata */
	for (int i = 0; i < TPEV_KSLOTS; i++) if (tpev_k_used[i] && tpev_k_ptr[i] == (void *)&uds[j]) return (i);
	return (-1);
}

static void check_state(void) {
	for (int j = 0; j < NID; j++) {
		tp_udata_t *ud = &uds[j];
		int ks = k_slot_of_ud(j);
		if (!ref[j].reg) {
			V_ASSERT(ks < 0, "unregistered: no epoll registration carries the udata");
			V_ASSERT(ud->tpdata == 0, "unregistered: udata state cleared");
		} else if (ref[j].en) {
			V_ASSERT(ks >= 0, "enabled: epoll registration present");
			V_ASSERT((ud->tpdata & TPDATA_F_DISABLED) == 0, "enabled: not marked disabled");
			if (ks >= 0) {
				uint32_t e = tpev_k_events[ks];
				V_ASSERT(tpev_k_epfd[ks] == epfd_of(j), "enabled: registered with the owning thread's epoll");
				if (is_rw(j)) {
					V_ASSERT(tpev_k_fd[ks] == (int)ud->ident, "enabled: the identifier's descriptor is watched");
					if (kind_of(j) == TP_EV_READ)
						V_ASSERT((e & (EPOLLIN | EPOLLRDHUP)) == (EPOLLIN | EPOLLRDHUP), "enabled read: EPOLLIN|EPOLLRDHUP interest");
					else
						V_ASSERT((e & EPOLLOUT) != 0, "enabled write: EPOLLOUT interest");
					V_ASSERT(((e & EPOLLONESHOT) != 0) == ((ref[j].flags & (TP_F_ONESHOT | TP_F_DISPATCH)) != 0),
					    "enabled: EPOLLONESHOT iff ONESHOT|DISPATCH");
				} else {
					int tfd = TPDATA_TFD_GET(ud->tpdata), ti = tpev_t_find(tfd);
					V_ASSERT(tfd != 0 && ti >= 0 && tpev_k_fd[ks] == tfd, "enabled timer/proc: its descriptor is open and watched");
					V_ASSERT((e & EPOLLIN) != 0, "enabled timer/proc: EPOLLIN interest");
					if (ti >= 0 && kind_of(j) == TP_EV_TIMER) {
						int periodic = (ref[j].flags & (TP_F_ONESHOT | TP_F_DISPATCH)) == 0;
						V_ASSERT(tpev_t_set_cnt[ti] > 0, "enabled timer: programmed");
						V_ASSERT(periodic ? (tpev_t_int_sec[ti] == tpev_t_val_sec[ti] && tpev_t_int_nsec[ti] == tpev_t_val_nsec[ti])
						    : (tpev_t_int_sec[ti] == 0 && tpev_t_int_nsec[ti] == 0),
						    "enabled timer: periodic iff neither ONESHOT nor DISPATCH");
					}
				}
			}
		}
	}
	/* no leaked timerfd/pidfd: every open one belongs to a registered identifier */
	for (int i = 0; i < TPEV_TSLOTS; i++) {
		if (!tpev_t_open[i]) continue;
		int owned = 0;
		for (int j = 0; j < NID; j++)
			if (ref[j].reg && !is_rw(j) && TPDATA_TFD_GET(uds[j].tpdata) == tpev_t_fd[i]) owned = 1;
		V_ASSERT(owned, "every open timerfd/pidfd belongs to a registered identifier");
	}
}

static void control(int i, int j) {
	struct step_in_s *st = &IN.step[i];
	V_ASSUME(st->act <= A_DEL);
	tp_udata_t *ud = &uds[j];
	uint16_t kind = kind_of(j), flags = st->flags;
	uint32_t fflags = 0;
	V_ASSUME((flags & ~(TP_F_ONESHOT | TP_F_DISPATCH)) == 0 && flags != (TP_F_ONESHOT | TP_F_DISPATCH));
	if (!is_rw(j)) V_ASSUME(flags == IN.id[j].tflags);	/* bound: one flag set per timer/proc identifier */
	uint64_t data = st->data;
	if (kind == TP_EV_TIMER) {
		fflags = TP_FF_T_SEC | (IN.id[j].abstime ? TP_FF_T_ABSTIME : 0);	/* units: timer.c */
		V_ASSUME(data <= (uint64_t)INT64_MAX);
	} else if (is_rw(j)) {
		fflags = st->lowat ? TP_FF_RW_LOWAT : 0;
	}
	tp_event_t ev = { .event = kind, .flags = flags, .fflags = fflags, .data = data };
	uint64_t tpdata0 = ud->tpdata;
	int ks0 = k_slot_of_ud(j);
	uint32_t k0_events = tpev_k_events[ks0 >= 0 ? ks0 : 0]; int k0_fd = tpev_k_fd[ks0 >= 0 ? ks0 : 0];
	int cb_before = n_cb[0] + n_cb[NID - 1] + n_cb_other;
	int r;
	switch (st->act) {
	case A_ADD: r = tpt_ev_add(on_pvt(j) ? tpev_pvt : tpev_tpt, &ev, ud); break;
	case A_ENABLE: V_ASSUME(ud->tpt != NULL); r = tpt_ev_enable(1, &ev, ud); break;
	case A_DISABLE: V_ASSUME(ud->tpt != NULL); r = tpt_ev_enable(0, &ev, ud); break;
	default: V_ASSUME(ud->tpt != NULL); r = tpt_ev_del(&ev, ud); break;
	}
	V_ASSERT(n_cb[0] + n_cb[NID - 1] + n_cb_other == cb_before, "control calls never invoke a callback");
	if (r == 0) {
		switch (st->act) {
		case A_ADD: case A_ENABLE:
			ref[j].reg = 1; ref[j].en = 1; ref[j].flags = flags;
			break;
		case A_DISABLE:
			if (kind == TP_EV_PROC) { ref[j].reg = 0; ref[j].en = 0; }	/* pidfd: disable == delete (one-shot by design) */
			else { ref[j].reg = 1; ref[j].en = 0; ref[j].flags = flags; }
			break;
		default:
			ref[j].reg = 0; ref[j].en = 0;
		}
		if (st->act == A_ENABLE && (tpdata0 & TPDATA_F_DISABLED)) V_WITNESS("re-enable after disable/dispatch");
		if (st->act == A_DEL) V_WITNESS("delete succeeded");
	} else {
		/* semantic refusal: either nothing changed, or the identifier ended up unregistered */
		int ks = k_slot_of_ud(j);
		int gone = (ks < 0 && ud->tpdata == 0);
		int same = (ud->tpdata == tpdata0 && ks == ks0 && (ks < 0 || (tpev_k_events[ks] == k0_events && tpev_k_fd[ks] == k0_fd)));
		V_ASSERT(gone || same, "a refused control call leaves the registration unchanged or removed");
		V_ASSERT(st->act != A_ADD || kind == TP_EV_PROC, "add of a well-formed event is not refused (kernel permitting)");
		if (gone) { ref[j].reg = 0; ref[j].en = 0; }
		V_WITNESS("control call refused (ENOENT/EEXIST)");
	}
}

static void deliver(int i, int t) {	/* t: identifier epoll may report, -1: none */
	int before[NID], other0 = n_cb_other, w0 = tpev_n_wait;
	struct { int reg, en; } r0[NID];
	for (int j = 0; j < NID; j++) { before[j] = n_cb[j]; r0[j].reg = ref[j].reg; r0[j].en = ref[j].en; }
	tpev_tpt->state = TP_THREAD_STATE_RUNNING;
	tpev_wait_left = 1;
	tpev_deliver_ptr = (t >= 0) ? (void *)&uds[t] : NULL;
	tpev_deliver_epfd = (t >= 0) ? epfd_of(t) : TPEV_EPFD;
	tpt_loop(tpev_tpt);
	/* which registration did the kernel report last (after looking through the pool virtual thread)? */
	int tgt = -1; uint32_t rep = 0;
	for (int k = w0; k < tpev_n_wait; k++) {
		if (IN.env.wait[k].cnt != 1) { tgt = -1; continue; }
		tgt = -1;
		for (int j = 0; j < NID; j++) if (tpev_last_ptr[k] == (void *)&uds[j]) { tgt = j; rep = tpev_last_rep[k]; }
	}
	V_ASSERT(n_cb_other == other0, "no callback through a foreign udata");
	for (int j = 0; j < NID; j++) {
		int fired = n_cb[j] - before[j];
		int want = (j == tgt && r0[j].reg && r0[j].en) ? 1 : 0;
		V_ASSERT(fired == want, "callback runs exactly once iff the reported identifier is registered and enabled");
		if (!fired) { if (j == tgt && r0[j].reg && !r0[j].en) V_WITNESS("delivery for a disabled identifier suppressed"); continue; }
#ifdef KF_ONESHOT_PVT	/* known finding oneshot-pvt-epfd: tpt_loop deletes a fired ONESHOT read/write event from the
			 * running thread's epoll set instead of the owning (pool virtual) thread's (blocking clause) */
		V_ASSUME(!(on_pvt(j) && is_rw(j) && (ref[j].flags & TP_F_ONESHOT)));
#endif
		tp_event_t *e = &last_ev[j];
		V_ASSERT(e->event == kind_of(j), "callback sees the registered event kind");
		if (is_rw(j)) {
			V_ASSERT(((e->flags & TP_F_EOF) != 0) == ((rep & (EPOLLHUP | EPOLLRDHUP)) != 0), "TP_F_EOF iff EPOLLHUP|EPOLLRDHUP");
			V_ASSERT(((e->flags & TP_F_ERROR) != 0) == ((rep & EPOLLERR) != 0), "TP_F_ERROR iff EPOLLERR");
			V_ASSERT((e->flags & ~(TP_F_EOF | TP_F_ERROR)) == 0, "only EOF/ERROR are reported as flags");
			if (e->flags & TP_F_ERROR) V_ASSERT(e->fflags != 0, "TP_F_ERROR carries a non-zero error code");
			if ((e->flags & TP_F_ERROR) && tpev_n_gso > 0 && IN.env.gso_ret[tpev_n_gso - 1] == 0 && IN.env.gso_val[tpev_n_gso - 1] != 0)
				V_ASSERT(e->fflags == (uint32_t)IN.env.gso_val[tpev_n_gso - 1], "error code is SO_ERROR when available");
			if (e->flags & TP_F_EOF) V_WITNESS("EOF reported");
			if (e->flags & TP_F_ERROR) V_WITNESS("error reported");
		}
		if (kind_of(j) == TP_EV_PROC) V_ASSERT(e->fflags == TP_FF_P_EXIT, "process exit reported");
		/* automaton step */
		if (kind_of(j) == TP_EV_PROC || (ref[j].flags & TP_F_ONESHOT)) { ref[j].reg = 0; ref[j].en = 0; V_WITNESS("one-shot fired"); }
		else if (ref[j].flags & TP_F_DISPATCH) { ref[j].en = 0; V_WITNESS("dispatch fired"); }
		else if (before[j] > 0) V_WITNESS("persistent event fired twice");
		if (on_pvt(j)) V_WITNESS("fired through the pool virtual thread");
	}
}

void harness(void) {
	V_BEGIN();
	tpev_env_init(IN.s_flags);
	for (int k = 0; k < TPEV_NCTL; k++) V_ASSUME(IN.env.ctl_err[k] == 0);
	for (int k = 0; k < TPEV_NSET; k++) V_ASSUME(IN.env.set_err[k] == 0);
	for (int k = 0; k < TPEV_NCRE; k++) V_ASSUME(IN.env.cre_fd[k] != -1);
	for (int k = 0; k < TPEV_NMISC; k++) V_ASSUME(IN.env.fcntl_err[k] == 0);
	for (int j = 0; j < NID; j++) {
		V_ASSUME((IN.id[j].tflags & ~(TP_F_ONESHOT | TP_F_DISPATCH)) == 0 && IN.id[j].tflags != (TP_F_ONESHOT | TP_F_DISPATCH));
		uds[j].cb_func = cb;
		uds[j].ident = (uintptr_t)IN.id[j].ident;
		V_ASSUME(uds[j].ident != (uintptr_t)-1);
		if (is_rw(j)) {	/* an open descriptor of the application: below fd_count, not one of the pool's own */
			V_ASSUME(IN.id[j].ident >= 5 && IN.id[j].ident < TPEV_FD_COUNT);
			tpev_user_fd[j] = (int)IN.id[j].ident;
		}
	}
	if (NID == 2 && is_rw(0) && is_rw(NID - 1)) V_ASSUME(IN.id[0].ident != IN.id[NID - 1].ident);	/* bound: one registration per descriptor */
	static const char pat[] = PATTERN;
	for (int i = 0; i < NSTEP; i++) {
		switch (pat[i]) {
		case 'a': control(i, 0); break;
		case 'b': control(i, NID - 1); break;
		case 'x': deliver(i, 0); break;
		case 'y': deliver(i, NID - 1); break;
		default: deliver(i, -1); break;
		}
		check_state();
	}
	V_WITNESS_MUST("history completed");
}
