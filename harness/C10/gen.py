#!/usr/bin/env python3
"""gen.py <outdir> <repo>: verbatim slices of threadpool_msg_sys.c for the broadcast harness (see common/tp/slice.py).
   c10_msg_sys_bcast.c : async-op helpers and the one-by-one functions dropped (bsend_ex / cbsend without ONE_BY_ONE)
   c10_msg_sys_obo.c   : async-op helpers dropped (cbsend with ONE_BY_ONE)"""
import sys, os
sys.path.insert(0, os.path.join(os.path.dirname(os.path.abspath(__file__)), "..", "common", "tp"))
import slice as S
out, repo = sys.argv[1], sys.argv[2]
src = os.path.join(repo, "src", "threadpool", "threadpool_msg_sys.c")
S.slice_unit(src, S.MSG_AOP + S.MSG_OBO, os.path.join(out, "c10_msg_sys_bcast.c"), src)
S.slice_unit(src, S.MSG_AOP, os.path.join(out, "c10_msg_sys_obo.c"), src)
