/* C10: broadcasts - each targeted running thread once; counts add up; completion once, last, on the origin thread;
 * the synchronous form returns only after every callback and does not touch the caller's record afterwards.
 *
 * Real code executed: tp_create / tp_threads_create (pre-state), tpt_msg_bsend_ex, tpt_msg_cbsend,
 * tpt_msg_broadcast_send__int, tpt_msg_active_thr_count_dec, tpt_msg_sync_proxy_cb, tpt_msg_cb_done_proxy_cb,
 * tpt_msg_one_by_one_send_next__int, tpt_msg_one_by_one_proxy_cb, tpt_msg_send, tpt_loop (one dispatch per worker
 * step), tpt_msg_recv_and_process.
 *
 * MODE 0  tpt_msg_bsend_ex without TP_BMSG_F_SYNC            MODE 1  tpt_msg_bsend_ex with TP_BMSG_F_SYNC
 * MODE 2  tpt_msg_cbsend                                     MODE 3  tpt_msg_cbsend with TP_CBMSG_F_ONE_BY_ONE
 * CALLER  -1 = a thread outside the pool, k = pool thread k.    DOWN = mask of threads that were never created.
 *
 * Sequentialisation: the broadcast call runs in the caller; at its scheduling points (write(), mutex lock/unlock,
 * sched_yield/nanosleep) the environment may run a worker step (IN.sched[]); in the wait loop of the synchronous form
 * every pending worker step is run (progress).  After an asynchronous call returned, NSTEP solver-chosen worker steps
 * and a drain follow.  A worker step = one dispatch of the real tpt_loop of that thread.
 *
 * The caller's stack record of the synchronous form (`tpt_msg_data_t msg_data_s` in tpt_msg_bsend_ex) is turned into a
 * heap block without touching the source: `#define msg_data_s (*v_rec_get())` makes the declaration a block-scope
 * prototype of v_rec_get() and every use an access to the harness-owned block.  When a worker has released the
 * record's mutex with active_thr_count == 0 the caller may observe zero and return: the environment then frees the
 * block (IN.early) and stops the path once that worker step is over.  Any later access by the worker is a use of the
 * caller's dead frame and is reported by CBMC's deallocated-object check / ASan.
 */
#include "verif.h"
#include "common/tp/pre.h"

#ifndef NSCHED
#define NSCHED 3
#endif
#ifndef NSTEP
#define NSTEP 2
#endif
#ifndef DOWN
#define DOWN 0
#endif
#define UMAGIC	0x5151u

struct in_s {
	struct tp_in_s	tp;
	uint8_t		flags;		/* bit0 SELF_SKIP, bit1 SELF_DIRECT, bit2 SYNC_USLEEP, bit3 FORCE, bit4 FAIL_DIRECT */
	uint8_t		src_null;	/* pass src == NULL and rely on TLS */
	uint8_t		sched[NSCHED];	/* worker step taken at the i-th scheduling point of the call: 0 none, t+1 thread t */
	uint8_t		early;		/* synchronous form: caller returns as soon as a worker released the lock at zero */
	uint8_t		step[NSTEP];	/* worker steps after an asynchronous call returned */
};
#include "verif_in.h"

#define V_PC_RESULT(i)	((((DOWN) >> (i)) & 1) ? 2 : 0)
#ifdef WFAIL	/* concrete shape: bit i set = the i-th write() of the run fails with EAGAIN (queue full) */
#define V_WRES(i)	((((WFAIL) >> (i)) & 1) ? 1 : 0)
#endif

/* the caller's stack record becomes a heap block owned by the harness (see above) */
#define msg_data_s	(*v_rec_get())

#include "threadpool/threadpool.c"
#if 3 == MODE
#include "c10_msg_sys_obo.c"	/* verbatim slice (gen.py): async-op helpers dropped */
#else
#include "c10_msg_sys_bcast.c"	/* verbatim slice (gen.py): async-op helpers and one-by-one functions dropped */
#endif
#undef msg_data_s
#if 3 != MODE
int
tpt_msg_one_by_one_send_next__int(tp_p tp_, tpt_p src, tpt_msg_data_p msg_data) { /* dropped from this job's slice */
	(void)tp_; (void)src; (void)msg_data;
	V_ASSERT(0, "one-by-one code is outside this job's slice and is never reached");
	return (EINVAL);
}
#endif

static void env_move(int point, const void *obj);
#include "common/tp/post.h"

/* ---- ghost state ---- */
static tp_p		tp;
static int		caller = CALLER;
static int		up[NTHR];
static tpt_msg_data_t	*v_rec;		/* stands for the caller's stack frame slot */
static int		rec_freed, early_ret;
static int		in_call, in_worker, n_sched;
static int		cbcnt[NTHR], cb_ran_on[NTHR], cb_bad_arg, cb_overlap;
static unsigned		cb_stamp[NTHR], clk;
static int		done_cnt, done_ran_on, done_bad_arg, done_after_refused_write;
static size_t		done_sent, done_err;
static unsigned		done_stamp;

tpt_msg_data_t *
v_rec_get(void) {
	return (v_rec);
}

static tpt_p
thr_tpt(int t) { /* constant index in every branch: keeps pointers concrete for CBMC */
	tpt_p r = NULL;
	for (int k = 0; k < NTHR; k ++) {
		if (t == k)
			r = tp_thread_get(tp, (size_t)k);
	}
	return (r);
}

static int
pending_total(void) {
	int n = 0;
	for (int p = 0; p < V_NPIPE; p ++)
		n += (int)v_pipes[p].cnt;
	return (n);
}

static void
cb_user(tpt_p tpt, void *udata) {
	size_t idx = tpt_get_num(tpt);
	if ((size_t)udata != UMAGIC || idx >= NTHR) {
		cb_bad_arg ++;
		return;
	}
	for (int k = 0; k < NTHR; k ++) {
		if (idx == (size_t)k) {
			cbcnt[k] ++;
			cb_ran_on[k] = v_cur;
			cb_stamp[k] = ++ clk;
		}
	}
#if 3 == MODE
	if (0 != pending_total())
		cb_overlap ++;	/* one-by-one: while a callback runs no other thread holds a message of this broadcast */
#endif
}

static void
cb_done(tpt_p tpt, size_t send_msg_cnt, size_t error_cnt, void *udata) {
	done_cnt ++;
	done_ran_on = v_cur;
	done_after_refused_write = v_last_write_failed;	/* direct-call fallback of the completion message */
	done_sent = send_msg_cnt;
	done_err = error_cnt;
	done_stamp = ++ clk;
	if ((size_t)udata != UMAGIC || caller < 0 || tpt != thr_tpt(caller))
		done_bad_arg ++;
}

static int busy[NTHR];

static void
worker_step(int t) { /* thread t runs one dispatch of its real loop (own message queue) */
	if (t < 0 || t >= NTHR || !up[t] || busy[t])
		return;
	if (in_call && t == caller)
		return;	/* the caller is inside the broadcast call */
	int save = v_cur;
	for (int k = 0; k < NTHR; k ++) {
		if (t != k)
			continue;
		busy[k] = 1;
		v_cur = k;
		v_ew_budget = 1;
		v_ew_only = 0;
		v_ew_pick = 0;
		in_worker ++;
		tpt_loop(tp_thread_get(tp, (size_t)k));
		in_worker --;
		busy[k] = 0;
	}
	v_cur = save;
	if (early_ret)
		H_STOP("the caller of the synchronous broadcast has returned; its remaining steps are covered by the other paths");
}

static void
env_move(int point, const void *obj) {
	(void)obj;
	if (!in_call)
		return;
	if (in_worker > 0) {
#if 1 == MODE && !defined(KF_SYNC_DEAD_FRAME)
		/* A worker just released the record's lock.  If the count is zero the spinning caller may take the lock,
		 * read zero, destroy the mutex and return: its frame (the record) is gone. */
		if (EP_MTX_UNLOCK == point && !rec_freed && IN.early && 0 == v_rec->active_thr_count) {
			rec_freed = 1;
			early_ret = 1;
			free(v_rec);
		}
#endif
		return;
	}
	if (EP_YIELD == point || EP_SLEEP == point) { /* the caller waits: every pending worker step is taken */
		int before = v_ew_delivered;
		for (int t = 0; t < NTHR; t ++)
			worker_step(t);
		if (before == v_ew_delivered)
			H_STOP("synchronous broadcast waits for a message only the waiting thread could process (documented deadlock)");
		return;
	}
	if (EP_WRITE == point || EP_MTX_LOCK == point || EP_MTX_UNLOCK == point) {
		if (n_sched < NSCHED) {
			int c = IN.sched[n_sched ++];
			if (c > 0)
				worker_step((c - 1) % NTHR);
		}
	}
}

void
harness(void) {
	V_BEGIN();
	tp_settings_t s;
	int t, ntarget = 0, sum = 0, ret;
	size_t sent = 777, failed = 777;
	uint32_t flags = 0;
	tpt_p src = NULL;

	memset(&s, 0, sizeof(s));
	s.threads_max = NTHR;
	V_ASSERT(0 == tp_create(&s, &tp), "tp_create succeeds when every resource is available");
	V_ASSERT(0 == tp_threads_create(tp, 0), "tp_threads_create");
	for (t = 0; t < NTHR; t ++) {
		up[t] = tpt_is_running(tp_thread_get(tp, (size_t)t));
		if (up[t]) { /* head of tp_thread_proc: RUNNING + TLS */
			tp_thread_get(tp, (size_t)t)->state = TP_THREAD_STATE_RUNNING;
			v_tls[t + 1] = tp_thread_get(tp, (size_t)t);
		}
	}
#if CALLER >= 0
	V_ASSUME(up[CALLER]);
#ifdef SRCNULL	/* concrete shape */
	if (!(SRCNULL))
#else
	if (!IN.src_null)
#endif
		src = tp_thread_get(tp, (size_t)CALLER);
#endif
#ifdef FLAGS	/* concrete shape (keeps the proxy/user callback choice concrete for CBMC) */
#define HF	(FLAGS)
#else
#define HF	(IN.flags)
#endif
	if (HF & 1) flags |= TP_BMSG_F_SELF_SKIP;
	if (HF & 2) flags |= TP_MSG_F_SELF_DIRECT;
	if (HF & 8) flags |= TP_MSG_F_FORCE;
	if (HF & 16) flags |= TP_MSG_F_FAIL_DIRECT;
	int skip = (CALLER >= 0 && 0 != (flags & TP_BMSG_F_SELF_SKIP));
	for (t = 0; t < NTHR; t ++)
		ntarget += !(skip && t == CALLER);

	v_cur = CALLER;
	in_call = 1;
#if 0 == MODE || 1 == MODE
#if 1 == MODE
	flags |= TP_BMSG_F_SYNC;
	if (HF & 4) flags |= TP_BMSG_F_SYNC_USLEEP;
#endif
	v_rec = (tpt_msg_data_t *)v_alloc(sizeof(tpt_msg_data_t));	/* uninitialised, like a stack slot */
	ret = tpt_msg_bsend_ex(tp, src, flags, cb_user, (void *)(uintptr_t)UMAGIC, &sent, &failed);
	if (!rec_freed)
		free(v_rec);	/* the frame dies when the call returns */
	rec_freed = 1;
	in_call = 0;
	V_ASSERT(0 == ret || ESPIPE == ret, "bsend_ex: 0 or ESPIPE");
	V_ASSERT((0 == ret) == (sent > 0) || (NTHR == 1 && CALLER >= 0), "bsend_ex: ESPIPE exactly when nothing was sent");
	if (!(NTHR == 1 && CALLER >= 0))
		V_ASSERT(sent + failed == (size_t)ntarget, "sent + failed == number of threads targeted");
#if 1 == MODE
	for (t = 0, sum = 0; t < NTHR; t ++)
		sum += cbcnt[t];
	if (!(NTHR == 1 && CALLER >= 0)) {
		V_ASSERT((size_t)sum == sent, "synchronous form: on return every sent callback has run");
		V_ASSERT(0 == pending_total(), "synchronous form: nothing of the broadcast is still queued on return");
	}
	V_WITNESS("synchronous broadcast returned");
	if (failed > 0) V_WITNESS("synchronous broadcast with failed sends returned");
#endif
#else /* cbsend */
#if 3 == MODE
	flags |= TP_CBMSG_F_ONE_BY_ONE;
#endif
	ret = tpt_msg_cbsend(tp, src, flags, cb_user, (void *)(uintptr_t)UMAGIC, cb_done);
	in_call = 0;
#if CALLER < 0
	V_ASSERT(EINVAL == ret, "cbsend from outside the pool is refused (no thread for the completion callback)");
	V_ASSERT(0 == done_cnt && 0 == pending_total(), "refused cbsend did nothing");
	V_WITNESS("cbsend refused");
	return;
#endif
	V_ASSERT(0 == ret || ESPIPE == ret || ENOMEM == ret, "cbsend: 0, ESPIPE or ENOMEM");
#endif

	/* asynchronous part: solver-chosen worker steps, then drain (token passing needs up to NTHR + 2 rounds) */
	v_cur = -1;
	for (int i = 0; i < NSTEP; i ++)
		worker_step(IN.step[i] % NTHR);
	for (int r = 0; r < NTHR + 2; r ++) {
		for (t = 0; t < NTHR; t ++)
			worker_step(t);
	}
	V_ASSERT(0 == pending_total(), "drain empties every queue");

	for (t = 0, sum = 0; t < NTHR; t ++) {
		sum += cbcnt[t];
		V_ASSERT(cbcnt[t] <= 1, "callback at most once per thread");
		if (skip && t == CALLER)
			V_ASSERT(0 == cbcnt[t], "self-skip: not on the caller");
		if (!up[t] && 0 == (flags & TP_MSG_F_FORCE))
			V_ASSERT(0 == cbcnt[t], "not on a thread that is not running (without FORCE)");
		if (0 == ret && 0 == v_n_write_fail && up[t] && !(skip && t == CALLER))
			V_ASSERT(1 == cbcnt[t], "exactly once on every targeted running thread (no send failed)");
		if (1 == cbcnt[t])
			V_ASSERT(cb_ran_on[t] == t || cb_ran_on[t] == CALLER, "callback ran on its thread (or directly in the caller)");
	}
	V_ASSERT(0 == cb_bad_arg, "callbacks got a pool thread and the caller's argument");
#if 0 == MODE || 1 == MODE
	if (!(NTHR == 1 && CALLER >= 0))
		V_ASSERT((size_t)sum == sent, "callbacks run == reported sent count");
	else
		V_ASSERT(sum <= 1, "single-thread pool, broadcast to self");
	V_WITNESS("bsend_ex path complete");
	if (failed > 0 && sent > 0) V_WITNESS("bsend_ex with sent and failed");
#else
	V_ASSERT(done_cnt <= 1, "completion callback at most once");
	if (0 != ret) V_WITNESS("cbsend reported an error");
	if (0 == ret) {
		V_ASSERT(1 == done_cnt, "completion callback exactly once after a successful cbsend");
		V_WITNESS("cbsend completed");
	}
	if (1 == done_cnt) {
		V_ASSERT(0 == done_bad_arg, "completion callback gets the origin thread and the caller's argument");
#ifdef KF_DONE_CB_FOREIGN_THREAD	/* known finding: only the fallback after a refused queue write is exempted */
		if (!done_after_refused_write)
#endif
		V_ASSERT(done_ran_on == CALLER, "completion callback runs on the originating thread");
		if (done_ran_on != CALLER) V_WITNESS("known-finding path: completion ran on a foreign thread after a refused write");
		V_ASSERT(done_sent == (size_t)sum, "completion callback reports the number of callbacks run");
		V_ASSERT(done_sent + done_err == (size_t)ntarget, "completion callback: sent + failed == number targeted");
		for (t = 0; t < NTHR; t ++) {
			if (1 == cbcnt[t])
				V_ASSERT(cb_stamp[t] < done_stamp, "completion callback after the last callback");
		}
		if (done_err > 0) V_WITNESS("completion with failed sends");
	}
#if 3 == MODE
	V_ASSERT(0 == cb_overlap, "one-by-one: no other message of the broadcast in flight while a callback runs");
	for (t = 0; t < NTHR; t ++) {
		for (int u = t + 1; u < NTHR; u ++) {
			if (1 == cbcnt[t] && 1 == cbcnt[u] && t != CALLER && u != CALLER)
				V_ASSERT(cb_stamp[t] < cb_stamp[u], "one-by-one: callbacks in thread order");
		}
	}
#endif
#endif
}
