import os, re

REPO = os.environ.get("VERIF_REPO", "/repo")
NO_KF = os.environ.get("C10_NO_KF") == "1"      # C10_NO_KF=1: run the synchronous jobs without the blocking define


def _hook():
    try:
        with open(os.path.join(REPO, "src", "threadpool", "threadpool_msg_sys.c")) as f:
            t = f.read()
            return ("!defined(TPT_MSG_COUNT_TO_READ)" in t) or (re.search(r"#\s*ifndef\s+TPT_MSG_COUNT_TO_READ", t) is not None)
    except OSError:
        return False


HOOK = _hook()

# MODE 0 bsend_ex async, 1 bsend_ex SYNC, 2 cbsend, 3 cbsend ONE_BY_ONE.   FLAGS bits: 1 SELF_SKIP, 2 SELF_DIRECT,
# 4 SYNC_USLEEP, 8 FORCE, 16 FAIL_DIRECT.   WFAIL bit i: the i-th write() fails (EAGAIN).   DOWN bit t: thread t never created.
META = {
    "bounds": "pools of 1, 2 and 3 threads; caller outside the pool or pool thread 0/1; every flag combination that is relevant "
              "for the shape (self-skip, self-direct, sync, sync-sleep, force, fail-direct, one-by-one); every subset of failing "
              "queue writes (by position) and every subset of not-running threads for 2 threads, selected ones for 3; "
              "src passed as NULL or as the own thread (enumerated); "
              "solver-chosen: which worker runs at each of the first 3 (3-thread pools: 2) scheduling points of the call (write / lock / unlock), "
              "whether the synchronous caller returns as soon as the count is zero, "
              "order of 2 (3-thread pools: 1) worker steps after an asynchronous call (then a fixed drain); "
              + ("<= 3 packets per read() (TPT_MSG_COUNT_TO_READ=3 under the LIBLCB_VERIF hook)" if HOOK else
                 "real TPT_MSG_COUNT_TO_READ=1024 buffer, <= 2 packets queued per pipe"),
    "outside": "pools of 4..16 threads; interleavings finer than mutex-operation / system-call granularity (argued: the only "
               "unprotected shared accesses are the ones this harness targets - the read of the record after unlock); nested "
               "preemption of one worker's callback by another worker (workers run whole dispatches; the caller is preempted at "
               "every scheduling point); one-by-one mode: flags / failure positions / callers are enumerated shapes and the "
               "schedule is the fixed drain order - justified by the asserted fact that at most one message of a one-by-one "
               "broadcast is in flight at any time, so other schedules only add idle steps; termination of the synchronous "
               "wait (a pool thread that sync-broadcasts to itself without self-skip/self-direct spins forever: documented "
               "deadlock, those paths are cut); leak of the completion record when tpt_msg_cbsend fails in one-by-one mode "
               "(not part of the property's text)",
    "assumptions": [
        "sequentialisation (DESIGN 1.5): real code is atomic between scheduling points (mutex ops, write/read, sched_yield/nanosleep, epoll_wait)",
        "critical sections contain no scheduling point (everything they touch is protected by the same lock)",
        "the caller's stack record of tpt_msg_bsend_ex is a harness-owned heap block (`#define msg_data_s (*v_rec_get())` "
        "before the include; no source change): freed when the call returns, or - IN.early - as soon as a worker has released "
        "the lock with active_thr_count == 0, which is when the spinning caller may return",
        "in the synchronous wait loop every pending worker dispatch is taken at each sched_yield/nanosleep (progress / fairness)",
        "pipe / epoll / pthread model of common/tp/post.h; read() leaves stale slot contents beyond the returned count",
        "worker step = one dispatch of the real tpt_loop, left through the epoll_wait error branch (harness pre-emption)",
        "thread start = what the head of tp_thread_proc does (state RUNNING, TLS), done by the harness",
        "--no-malloc-may-fail (allocation failure is injected by the model only)",
        "verbatim slices of threadpool_msg_sys.c (gen.py): async-op helpers dropped; one-by-one functions dropped in modes 0-2 "
        "(a stub asserts they are never reached)",
        "KF_SYNC_DEAD_FRAME (known finding, see findings/sync_dead_frame.md): the early return of the synchronous caller is "
        "not explored while the define is in force",
        "KF_DONE_CB_FOREIGN_THREAD (known finding, findings/done_cb_foreign_thread.md): 'completion runs on the origin thread' is "
        "not asserted for the direct-call fallback taken when the write of the completion message was refused",
    ],
    "harness_functions": ["harness", "cb_user", "cb_done", "worker_step", "env_move", "thr_tpt", "pending_total", "v_rec_get",
                          "tpt_msg_one_by_one_send_next__int (stub in modes 0-2)"],
}


def unwindset(mode, nthr):
    n = nthr + 2
    us = ["memmem.0:1", "memmem.1:1", "tpt_msg_recv_and_process.2:1", "tpt_msg_recv_and_process.0:2",
          "tpt_msg_recv_and_process.1:4", "tpt_msg_recv_and_process:0", "tpt_loop.0:3",
          "tp_create.3:%d" % (n + 1), "tp_threads_create.0:%d" % (n + 1), "strlen.0:4", "thr_tpt.0:%d" % (n + 1),
          "worker_step.0:%d" % (n + 1), "env_move.0:%d" % (n + 1), "tpt_msg_send:2", "tpt_msg_sync_proxy_cb:1",
          "tpt_msg_cb_done_proxy_cb:0", "cb_user:0", "worker_step:1", "tpt_msg_broadcast_send__int.0:%d" % (n + 1),
          "tpt_msg_bsend_ex.0:2", "pending_total.0:%d" % (n + 2), "cb_user.0:%d" % (n + 1), "pthread_create_eagain.0:2",
          "v_close.0:4", "v_close.1:%d" % (n + 2), "v_read.0:5"]
    us += ["harness.%d:%d" % (i, n + 3) for i in range(11)]   # ids that do not exist in a mode only produce a warning
    if mode == 3:
        us += ["tpt_msg_one_by_one_proxy_cb:0", "tpt_msg_one_by_one_send_next__int.0:%d" % (n + 1)]
    return us


def job(mode, nthr, caller, flags, wfail=0, down=0, srcnull=None, nstep=2, nsched=3, tier="quick"):
    defs = {"MODE": mode, "NTHR": nthr, "CALLER": caller, "FLAGS": flags, "WFAIL": wfail, "DOWN": down,
            "NSTEP": nstep, "NSCHED": nsched, "V_NO_FAULTS": None, "V_QCAP": 3 if HOOK else 2}
    if srcnull is None:     # a symbolic src form costs 10x (346 k vs 34 k SSA steps): enumerated as a shape instead
        srcnull = 1 if caller < 0 else (flags ^ wfail ^ caller ^ nthr) & 1
    defs["SRCNULL"] = srcnull
    if nthr >= 3:           # 3 threads: 2 scheduling points + 1 free worker step (memory: 10 GB cap)
        defs.update(NSTEP=min(nstep, 1), NSCHED=min(nsched, 2))
    if mode == 3:
        defs.update(NSTEP=0, NSCHED=0)
    if mode == 1:
        defs["NSTEP"] = 0
        pass   # KF_SYNC_DEAD_FRAME: repaired in /repo (known_findings.json: fixed)
    # KF_DONE_CB_FOREIGN_THREAD: recorded, unrepaired known finding; bin/check injects the define from known_findings.json
    flags_cbmc = ["--no-malloc-may-fail"]
    if HOOK:
        defs["TPT_MSG_COUNT_TO_READ"] = 3
    else:
        flags_cbmc += ["--max-field-sensitivity-array-size", "1100"]
    mname = ["bsend", "sync", "cbsend", "obo"][mode]
    return {
        "name": "%s-t%d-c%s-f%d-w%d-d%d%s" % (mname, nthr, "x" if caller < 0 else caller, flags, wfail, down,
                                             "-s%d" % srcnull),
        "src": "bcast.c", "defs": defs, "unwind": 3, "unwindset": unwindset(mode, nthr), "solver": "cadical",
        "flags": flags_cbmc, "timeout": 400 if tier == "quick" else 1500, "mem_gb": 10,
        "shape": "mode=%s threads=%d caller=%s flags=0x%x failing-writes-mask=%d not-running-mask=%d" % (
            mname, nthr, "outside" if caller < 0 else "pool thread %d" % caller, flags, wfail, down),
        "desc": "each targeted running thread once, counts add up, return code, completion once/last/on origin with true counts, "
                "sync returns after all callbacks and the record is not touched after the caller may return",
    }


def jobs(tier):
    out, seen = [], set()

    def add(*a, **k):
        j = job(*a, tier=tier, **k)
        if j["name"] not in seen:
            seen.add(j["name"])
            out.append(j)

    # --- quick: every mode / caller kind / failure kind once, 2 threads (+ one 3-thread and the 1-thread special case)
    add(1, 2, -1, 0)                     # sync from outside
    add(1, 2, -1, 4, wfail=1)            # sync-sleep, first send fails
    add(1, 2, -1, 16, wfail=2)           # second send fails, fail-direct
    add(1, 2, -1, 8, down=2)             # thread 1 not running, force
    add(1, 2, -1, 0, down=1)
    add(1, 2, -1, 1)                     # outside caller passes SELF_SKIP: nobody is skipped (seeded change C10-selfskip-outside was missed without it)
    add(0, 2, -1, 3)                     # outside caller, SELF_SKIP|SELF_DIRECT, async
    add(1, 2, 0, 1)                      # pool thread, self-skip
    add(1, 2, 0, 2)                      # pool thread, self-direct
    add(1, 3, 1, 1, wfail=2)
    add(1, 1, 0, 0)
    add(0, 2, -1, 0)
    add(0, 2, -1, 0, wfail=1)
    add(0, 2, 0, 1)
    add(0, 2, 0, 2, wfail=2)
    add(0, 2, -1, 8, down=2)
    add(0, 1, 0, 0)
    add(2, 2, 0, 0)
    add(2, 2, 0, 0, wfail=1)
    add(2, 2, 0, 0, wfail=3)             # every send fails: ESPIPE
    add(2, 2, 0, 1)
    add(2, 2, 1, 2, wfail=1)
    add(2, 2, 1, 2)                      # highest-numbered pool thread calls with SELF_DIRECT, every send succeeds
    add(2, 2, 0, 0, down=2)
    add(2, 2, -1, 0)                     # refused
    add(2, 3, 1, 0, wfail=4)
    add(2, 1, 0, 0)
    add(3, 2, 0, 0)
    add(3, 2, 0, 1)
    add(3, 2, 0, 2)
    add(3, 2, 1, 0, wfail=1)
    add(3, 2, 0, 0, down=2)
    add(3, 3, 1, 0)
    add(3, 3, 0, 2, wfail=2)
    add(3, 3, 0, 2, wfail=3)             # one-by-one + SELF_DIRECT, both other threads unreachable: direct completion with counts (1 sent, 2 failed)
    add(3, 3, 1, 0)                      # one-by-one started by a pool thread other than thread 0 (walk must skip the caller)
    add(3, 3, 2, 1)                      # ... with SELF_SKIP
    add(2, 2, 0, 0, wfail=4)             # the completion message itself is refused (known finding: done_cb on a foreign thread)
    add(3, 3, 0, 1, wfail=4)
    if tier == "quick":
        return out
    # --- thorough: all masks / flag sets for 2 threads, more 3-thread shapes
    for caller in (-1, 0, 1):
        skips = (0, 1, 2, 3)
        for fl in skips:
            for extra in (0, 8, 16, 24):
                for wfail in range(8):
                    for down in ((0, 1, 2, 3) if caller < 0 else ((0, 2) if caller == 0 else (0, 1))):
                        if extra & 8 and not down:
                            continue
                        if extra & 16 and not wfail:
                            continue
                        for mode in (0, 1, 2, 3):
                            if mode >= 2 and caller < 0 and (fl or extra or wfail or down):
                                continue
                            if mode >= 2 and extra:
                                continue    # FORCE / FAIL_DIRECT are unicast flags (C05); C10 quantifies over self-skip, self-direct, sync, sync-sleep, one-by-one only.
                                            # [thorough run: with FAIL_DIRECT the one-by-one chain calls the next thread's callback directly on the previous thread, as the flag says]
                            if mode == 1 and caller >= 0 and not (fl & 3):
                                continue    # a pool thread that broadcasts synchronously to itself without SELF_SKIP / SELF_DIRECT waits for its own callback: API misuse, the harness path is (correctly) blocked -> vacuous
                            if wfail >= 4 and (mode < 2 or extra or down):
                                continue    # 3rd write = the completion message: only exists in the cbsend modes
                            for sn in ((0, 1) if caller >= 0 and not (extra or down) else (None,)):
                                add(mode, 2, caller, fl | extra, wfail=wfail, down=down, srcnull=sn)
                        if caller < 0 and wfail < 4:
                            add(1, 2, caller, fl | extra | 4, wfail=wfail, down=down)
    for mode in (0, 1, 2, 3):
        for caller in ((-1, 0, 2) if mode < 2 else (0, 2)):
            for fl in ((0,) if caller < 0 else (1, 2)):
                for wfail in (0, 1, 2, 4, 5, 7):
                    add(mode, 3, caller, fl, wfail=wfail)
                if mode < 2:
                    add(mode, 3, caller, fl | 8, down=2)     # FORCE only with the plain broadcast forms (see above)
                add(mode, 3, caller, fl, down=5 if caller != 0 and caller != 2 else 2)
    return out
