/* C01 layer 4b: algorithms with data-dependent loops (gcd, sqrt, modular layer, recoding), 8-bit digits, small values.
 * bn_div / bn_mult are replaced by their contracts (spec_stubs.h) where the job says -DSTUB_bn_div / -DSTUB_bn_mult;
 * everything else (add, sub, shifts, compare, bit operations, lazy zeroing, digit counts) is the real code.
 * Shape (concrete): CA = capacity of every operand in digits, DA/DB/DM = significant digits of bn / second operand / modulus. */
#ifndef VDIG
#define VDIG 4
#endif
#define VAL_NARROW 1
#include "bn_common.h"
#include "spec_stubs.h"

#ifndef DB
#define DB 0
#endif
#ifndef DM
#define DM 0
#endif
#ifndef NAFSZ
#define NAFSZ 1
#endif
struct in_s { struct sbn a, b, m, g; bn_digit_t d; uint16_t bits; uint8_t naf[NAFSZ]; };
#include "verif_in.h"

static val_t o_gcd(val_t x, val_t y) {
	for (unsigned i = 0; i < GCD_ITER && y != 0; i++) { val_t t = x % y; x = y; y = t; }
	return (y == 0 ? x : 0);
}

void harness(void) {
	V_BEGIN();
	bn_t a, b, m, g;
	bn_make(&a, &IN.a, CA, DA);
	bn_make(&b, &IN.b, CA, DB);
	bn_make(&m, &IN.m, CA, DM);
	bn_make(&g, &IN.g, CA, 0);
	const val_t va = bn_value(&a), vb = bn_value(&b), vm = bn_value(&m);
	int r;
	(void)vb; (void)vm; (void)r; (void)g;

#if defined(A_SQRT)	/* SQRTFN in {bn_sqrt1 (= bn_sqrt), bn_sqrt2, bn_sqrt3, bn_sqrt5} */
#ifdef KF_SQRT_ODD_BITLEN	/* known finding: bn_sqrt1/2 start from 2^(L-2) which is not a power of four when the bit length L is odd */
	V_ASSUME((bn_calc_bits(&a) & 1) == 0);
#endif
	r = SQRTFN(&a);
	if (r != 0) {
		V_ASSERT(r == EOVERFLOW, "bn_sqrt: the only error is EOVERFLOW");
#ifdef SQRT_ERR_TOPBIT	/* bn_sqrt1/2/3: 2^bitlength must fit: error exactly when the top bit of the capacity is set */
		V_ASSERT((va >> ((size_t)(CA) * W - 1)) != 0, "bn_sqrt: EOVERFLOW only when the top capacity bit is set (2^bitlen does not fit)");
#endif
		V_WITNESS("sqrt: overflow error");
		return;
	}
	val_t s = bn_value(&a);
	V_ASSERT(bn_repr_ok(&a) && a.count == CA, "bn_sqrt: representation invariant");
	V_ASSERT(s <= 0xffff && s * s <= va && va < (s + 1) * (s + 1), "bn_sqrt: s*s <= x < (s+1)*(s+1)");
	if (va > 3) V_WITNESS("sqrt: non-trivial");
	V_WITNESS("sqrt: success");

#elif defined(A_GCD)	/* GCDFN in {bn_gcd, bn_gcd_bin} */
	r = GCDFN(&g, &a, &b);
	val_t ref = o_gcd(va, vb);
	V_ASSERT(va == 0 || vb == 0 || ref != 0, "reference gcd loop bound suffices");
	if (va == 0) ref = vb; else if (vb == 0) ref = va;
	V_ASSERT(r == 0, "bn_gcd succeeds (equal capacities)");
	V_ASSERT(bn_repr_ok(&g), "bn_gcd: representation invariant");
	V_ASSERT(bn_value(&g) == ref, "bn_gcd == Euclid on native integers");
	V_ASSERT(bn_value(&a) == va && bn_value(&b) == vb, "bn_gcd: operands unchanged");
	if (va != 0 && vb != 0 && va != vb) V_WITNESS("gcd: general case");
	V_WITNESS("gcd");
#else
#error "no A_* selected"
#endif
}
