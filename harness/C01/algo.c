/* C01 layer 4b: algorithms with data-dependent loops (gcd, sqrt, modular layer, recoding), 8-bit digits, small values.
 * bn_div / bn_mult are replaced by their contracts (spec_stubs.h) where the job says -DSTUB_bn_div / -DSTUB_bn_mult;
 * everything else (add, sub, shifts, compare, bit operations, lazy zeroing, digit counts) is the real code.
 * Shape (concrete): CA = capacity of every operand in digits, DA/DB/DM = significant digits of bn / second operand / modulus. */
#ifndef VDIG
#define VDIG 4
#endif
#define VAL_NARROW 1
#define V_MEM_MAX_SET 64	/* bn_calc_naf clears the tail of the caller array with memset */
#include "bn_common.h"
#include "spec_stubs.h"

#ifndef DB
#define DB 0
#endif
#ifndef DM
#define DM 0
#endif
#ifndef NAFSZ
#define NAFSZ 1
#endif
struct in_s { struct sbn a, b, m, g; bn_digit_t d; uint16_t bits; uint8_t naf[NAFSZ]; };
#include "verif_in.h"

#ifdef REPLAY
static __attribute__((noinline)) void jsf_dirty_stack(void) {
	volatile uint8_t junk[8192];
	for (size_t i = 0; i < sizeof(junk); i++) junk[i] = 0xff;
}
#endif

static val_t o_gcd(val_t x, val_t y) {
	for (unsigned i = 0; i < GCD_ITER && y != 0; i++) { val_t t = o_mod(x, y); x = y; y = t; }
	return (y == 0 ? x : 0);
}

void harness(void) {
	V_BEGIN();
	bn_t a, b, m, g;
	bn_make(&a, &IN.a, CA, DA);
	bn_make(&b, &IN.b, CA, DB);
	bn_make(&m, &IN.m, CA, DM);
	bn_make(&g, &IN.g, CA, 0);
#ifdef MFIX	/* concrete one-digit modulus of the job (shape); storage above it stays symbolic */
	m.num[0] = (MFIX); m.digits = 1;
#endif
	const val_t va = bn_value(&a), vb = bn_value(&b), vm = bn_value(&m);
	int r;
	(void)vb; (void)vm; (void)r; (void)g;
#ifdef VMAX	/* value bound of the job (keeps the data-dependent loops short); stated in the job's shape */
	V_ASSUME(va <= (VMAX) && vb <= (VMAX));
#endif
#ifdef MMAX
	V_ASSUME(vm <= (MMAX));
#endif

#if defined(A_SQRT)	/* SQRTFN in {bn_sqrt1 (= bn_sqrt), bn_sqrt2, bn_sqrt3, bn_sqrt5} */
#ifdef KF_SQRT_ODD_BITLEN	/* known finding: bn_sqrt1/2 start from 2^(L-2) which is not a power of four when the bit length L is odd */
	V_ASSUME((bn_calc_bits(&a) & 1) == 0);
#endif
	r = SQRTFN(&a);
	if (r != 0) {
		V_ASSERT(r == EOVERFLOW, "bn_sqrt: the only error is EOVERFLOW");
#ifdef SQRT_ERR_TOPBIT	/* bn_sqrt1/2/3: 2^bitlength must fit: error exactly when the top bit of the capacity is set */
		V_ASSERT((va >> ((size_t)(CA) * W - 1)) != 0, "bn_sqrt: EOVERFLOW only when the top capacity bit is set (2^bitlen does not fit)");
#endif
		V_WITNESS("sqrt: overflow error");
		return;
	}
	val_t s = bn_value(&a);
	V_ASSERT(bn_repr_ok(&a) && a.count == CA, "bn_sqrt: representation invariant");
	V_ASSERT(s <= 0xffff && s * s <= va && va < (s + 1) * (s + 1), "bn_sqrt: s*s <= x < (s+1)*(s+1)");
	if (va > 3) V_WITNESS("sqrt: non-trivial");
	V_WITNESS("sqrt: success");

#elif defined(A_GCD)	/* GCDFN in {bn_gcd, bn_gcd_bin} */
	r = GCDFN(&g, &a, &b);
	val_t ref = o_gcd(va, vb);
	V_ASSERT(va == 0 || vb == 0 || ref != 0, "reference gcd loop bound suffices");
	if (va == 0) ref = vb; else if (vb == 0) ref = va;
	V_ASSERT(r == 0, "bn_gcd succeeds (equal capacities)");
	V_ASSERT(bn_repr_ok(&g), "bn_gcd: representation invariant");
	V_ASSERT(bn_value(&g) == ref, "bn_gcd == Euclid on native integers");
	V_ASSERT(bn_value(&a) == va && bn_value(&b) == vb, "bn_gcd: operands unchanged");
	if (va != 0 && vb != 0 && va != vb) V_WITNESS("gcd: general case");
	V_WITNESS("gcd");
#elif defined(A_MODOP)	/* modular layer; MOP selects the function */
	bn_digit_t d = IN.d;
	(void)d;
#if MOP == 1		/* bn_mod_add: operands reduced (bn, n < m) */
	V_ASSUME(vm != 0 && va < vm && vb < vm);
#ifdef KF_MOD_ADD_CARRY	/* known finding: bn + n >= 2^capacity loses the carry (modulus using the top capacity bit) */
	V_ASSUME(((val_t)(va + vb) >> ((size_t)(CA) * W)) == 0);
#endif
	r = bn_mod_add(&a, &b, &m, NULL);
	val_t exp = o_mod(va + vb, vm);
#elif MOP == 2		/* bn_mod_sub: operands reduced */
	V_ASSUME(vm != 0 && va < vm && vb < vm);
	r = bn_mod_sub(&a, &b, &m, NULL);
	val_t exp = o_mod(va + vm - vb, vm);
#elif MOP == 3		/* bn_mod_mult */
	V_ASSUME(vm != 0);
	r = bn_mod_mult(&a, &b, &m, NULL);
	val_t exp = o_mod(va * vb, vm);
#elif MOP == 4		/* bn_mod_square */
	V_ASSUME(vm != 0);
	r = bn_mod_square(&a, &m, NULL);
	val_t exp = o_mod(va * va, vm);
#elif MOP == 5		/* bn_mod_mult_digit */
	V_ASSUME(vm != 0);
#ifdef KF_MULT_DIGIT_23_CARRY
	if (d == 2 || d == 3) V_ASSUME((((val_t)va * d) >> ((size_t)(CA) * W)) == 0);
#endif
	r = bn_mod_mult_digit(&a, d, &m, NULL);
	val_t exp = o_mod(va * (val_t)d, vm);
#elif MOP == 6		/* bn_mod_reduce: x -> x if x < m, else (x mod (m-1)) + 1 */
	V_ASSUME(vm >= 2);
	r = bn_mod_reduce(&a, &m, NULL);
	val_t exp = (va < vm) ? va : o_mod(va, vm - 1) + 1;
#elif MOP == 7		/* bn_mod_exp_digit(bn, e) with e = IN.bits */
	V_ASSUME(vm >= 2 && IN.bits <= EMAX);	/* outside: modulus 1 (x^0 is returned as 1) */
	r = bn_mod_exp_digit(&a, IN.bits, &m, NULL);
	val_t exp = 1;
	for (unsigned i = 0; i < EMAX; i++) if (i < IN.bits) exp = o_mod(exp * o_mod(va, vm), vm);
	if (IN.bits == 1) exp = va;	/* documented shortcut: bn^1 = bn, not reduced */
#elif MOP == 8		/* bn_mod_exp(bn, e, m), e = b */
	V_ASSUME(vm >= 2 && vb <= EMAX);
	r = bn_mod_exp(&a, &b, &m, NULL);
	val_t exp = 1;
	for (unsigned i = 0; i < EMAX; i++) if (i < vb) exp = o_mod(exp * o_mod(va, vm), vm);
	if (vb == 1) exp = va;
#endif
	if (r != 0) {
		V_ASSERT(r == EOVERFLOW, "modular op: the only error is EOVERFLOW (an intermediate does not fit the capacity)");
		V_WITNESS("modop: overflow error");
		return;
	}
	V_ASSERT(bn_repr_ok(&a) && a.count == CA, "modular op: representation invariant");
	V_ASSERT(bn_value(&a) == exp, "modular op: value == the operation on native integers");
	V_ASSERT(bn_value(&m) == vm && bn_value(&b) == vb, "modular op: other operands unchanged");
	V_WITNESS("modop: success");

#elif defined(A_INV)	/* INVFN in {bn_mod_inv_bin (= bn_mod_inv), bn_mod_inv1, bn_mod_inv2}; modulus an odd prime <= MMAX */
	{
		static const uint8_t primes[] = { 3, 5, 7, 11, 13, 17, 19, 23, 29, 31, 37, 41, 43, 47, 53, 59, 61, 67, 71, 73, 79, 83, 89, 97,
		    101, 103, 107, 109, 113, 127, 131, 137, 139, 149, 151, 157, 163, 167, 173, 179, 181, 191, 193, 197, 199, 211, 223,
		    227, 229, 233, 239, 241, 251 };
		int isp = 0;
		for (size_t i = 0; i < sizeof(primes); i++) if (vm == primes[i]) isp = 1;
		V_ASSUME(isp);
	}
	r = INVFN(&a, &m, NULL);
	if (va == 0 || va >= vm) {
		V_ASSERT(r == EINVAL, "bn_mod_inv: zero or unreduced argument is refused with EINVAL");
		V_WITNESS("inv: refused");
		return;
	}
	V_ASSERT(r == 0, "bn_mod_inv succeeds for 0 < bn < m, m an odd prime");
	V_ASSERT(bn_repr_ok(&a) && a.count == CA, "bn_mod_inv: representation invariant");
	V_ASSERT(bn_value(&a) < vm && o_mod(bn_value(&a) * va, vm) == 1, "bn_mod_inv: result < m and result * bn == 1 (mod m)");
	V_WITNESS("inv: success");
#elif defined(A_LEGENDRE) || defined(A_MODSQRT)	/* modulus an odd prime <= MMAX */
	{
		static const uint8_t primes[] = { 3, 5, 7, 11, 13, 17, 19, 23, 29, 31, 37, 41, 43, 47, 53, 59, 61, 67, 71, 73, 79, 83, 89, 97,
		    101, 103, 107, 109, 113, 127, 131, 137, 139, 149, 151, 157, 163, 167, 173, 179, 181, 191, 193, 197, 199, 211, 223,
		    227, 229, 233, 239, 241, 251 };
		int isp = 0;
		for (size_t i = 0; i < sizeof(primes); i++) if (vm == primes[i]) isp = 1;
		V_ASSUME(isp);
	}
	val_t ar = o_mod(va, vm);
	int qr = 0;	/* is a a non-zero square mod m? (exhaustive over the residues, m <= MMAX) */
	for (val_t x = 1; x <= (MMAX) / 2; x++) if (x < vm && o_mod(x * x, vm) == ar) qr = 1;
#ifdef A_LEGENDRE
	r = bn_mod_legendre(&a, &m, NULL);
	V_ASSERT(r == (ar == 0 ? 0 : (qr ? 1 : -1)) || r == EOVERFLOW, "bn_mod_legendre == Legendre symbol (or EOVERFLOW when an intermediate does not fit)");
	V_ASSERT(bn_value(&a) == va && bn_value(&m) == vm, "bn_mod_legendre: operands unchanged");
	if (r == -1) V_WITNESS("legendre: non-residue");
	if (r == 1 && ar > 1) V_WITNESS("legendre: residue");
	if (r == EOVERFLOW) V_WITNESS("legendre: overflow error");
#else
	r = bn_mod_sqrt(&a, &m, NULL);
	if (r == 0) {
		val_t s = bn_value(&a);
		V_ASSERT(bn_repr_ok(&a) && a.count == CA, "bn_mod_sqrt: representation invariant");
		V_ASSERT(s < vm && o_mod(s * s, vm) == ar, "bn_mod_sqrt: root < m and root^2 == bn (mod m)");
		if ((vm & 3) == 3 && ar > 1) V_WITNESS("mod_sqrt: p = 3 mod 4");
		if ((vm & 7) == 5 && ar > 1) V_WITNESS("mod_sqrt: p = 5 mod 8");
		if ((vm & 7) == 1 && ar > 1) V_WITNESS("mod_sqrt: p = 1 mod 8 (Tonelli-Shanks)");
	} else if (r == -1) {
		V_ASSERT(ar != 0 && !qr, "bn_mod_sqrt: -1 only for non-residues");
		V_WITNESS("mod_sqrt: non-residue");
	} else {
		V_ASSERT(r == EOVERFLOW, "bn_mod_sqrt: the only error is EOVERFLOW");
		V_WITNESS("mod_sqrt: overflow error");
	}
#endif

#elif defined(A_NAF)	/* bn_calc_naf(bn, WND, NAFSZ, arr, &cnt) on an exactly sized array */
	int8_t *arr = (int8_t *)v_buf(IN.naf, NAFSZ);
	size_t cnt = 777;
	size_t nbits = bn_calc_bits(&a);
#ifdef KF_NAF_TOP_CARRY	/* known finding: the recoding carry out of the capacity is lost (value with all top bits set) */
	V_ASSUME(((va + ((val_t)1 << (WND - 1))) >> ((size_t)(CA) * W)) == 0);
#endif
	r = bn_calc_naf(&a, WND, NAFSZ, arr, &cnt);
	if (NAFSZ < nbits + 1) {
		V_ASSERT(r == EOVERFLOW, "bn_calc_naf: array shorter than bits+1 is refused with EOVERFLOW");
		V_WITNESS("naf: overflow error");
		return;
	}
	V_ASSERT(r == 0 && cnt <= NAFSZ, "bn_calc_naf succeeds, count within the array");
	V_ASSERT(bn_value(&a) == va, "bn_calc_naf: operand unchanged");
	{
		int64_t sum = 0; int ok = 1; size_t last = (size_t)-1;
		for (size_t i = 0; i < NAFSZ; i++) {
			int dgt = arr[i];
			if (i >= cnt && dgt != 0) ok = 0;			/* tail cleared */
			if (dgt != 0) {
				if ((dgt & 1) == 0 || dgt >= (1 << (WND - 1)) || dgt <= -(1 << (WND - 1))) ok = 0;	/* odd, |d| < 2^(w-1) */
				if (last != (size_t)-1 && i - last < WND) ok = 0;	/* at most one non-zero among any w consecutive */
				last = i;
			}
			sum += (int64_t)dgt * ((int64_t)1 << i);
		}
		V_ASSERT(ok, "bn_calc_naf: digits odd, |d| < 2^(w-1), non-adjacent within the window, tail zero");
		V_ASSERT(sum == (int64_t)va, "bn_calc_naf: sum d_i 2^i == value");
	}
	V_WITNESS("naf: success");

#elif defined(A_JSF)	/* bn_calc_jsf(a, b, NAFSZ, arr, &cnt, &off) */
	int8_t *arr = (int8_t *)v_buf(IN.naf, NAFSZ);
	size_t cnt = 777, off = 777;
	size_t na = bn_calc_bits(&a), nb = bn_calc_bits(&b), need = 2 * ((na > nb ? na : nb) + 1);
#ifdef KF_JSF_ZERO_STALE	/* known finding: a zero operand is copied without digits and its stale num[0] is read */
#if DA == 0 || DB == 0
#error "shape excluded by KF_JSF_ZERO_STALE"
#endif
#endif
#ifdef REPLAY
	/* bn_calc_jsf keeps its working copies in automatic storage; for a zero operand they stay uninitialised. Under CBMC
	 * such storage is nondeterministic; the native replay makes it deterministic by dirtying the stack first. */
	jsf_dirty_stack();
#endif
	r = bn_calc_jsf(&a, &b, NAFSZ, arr, &cnt, &off);
	if (NAFSZ < need) {
		V_ASSERT(r == EOVERFLOW, "bn_calc_jsf: array shorter than 2*(bits+1) is refused with EOVERFLOW");
		V_WITNESS("jsf: overflow error");
		return;
	}
	V_ASSERT(r == 0 && off == need / 2 && cnt <= off, "bn_calc_jsf succeeds: offset == bits+1, count <= offset");
	V_ASSERT(bn_value(&a) == va && bn_value(&b) == vb, "bn_calc_jsf: operands unchanged");
	{
		int64_t s0 = 0, s1 = 0; int ok = 1;
		for (size_t i = 0; i < NAFSZ / 2; i++) {
			if (i >= cnt || i >= off) break;
			int d0 = arr[i], d1 = arr[i + off];
			if (d0 < -1 || d0 > 1 || d1 < -1 || d1 > 1) ok = 0;
			s0 += (int64_t)d0 * ((int64_t)1 << i);
			s1 += (int64_t)d1 * ((int64_t)1 << i);
		}
		V_ASSERT(ok, "bn_calc_jsf: digits in {-1,0,1}");
		V_ASSERT(s0 == (int64_t)va && s1 == (int64_t)vb, "bn_calc_jsf: both rows denote their operand");
	}
	V_WITNESS("jsf: success");

#elif defined(A_COMBO)	/* bn_combo_column_get(bn, bit_off, wnd_bits, wnd_count): bits off, off-wc, ... (wnd_bits of them), MSB first */
	size_t wb = IN.d & 7, wc = (IN.bits >> 8) & 7, off = IN.bits & 0xff;
	V_ASSUME(wb >= 1 && wb <= 4 && wc >= 1 && wc <= 4 && off >= (wb - 1) * wc && off < 40);
	bn_digit_t got = bn_combo_column_get(&a, off, wb, wc), want = 0;
	for (size_t i = 0; i < 4; i++) {
		if (i >= wb) break;
		size_t o = off - i * wc;
		want = (bn_digit_t)(want << 1);
		if (o < (size_t)(CA) * W && ((va >> o) & 1)) want |= 1;
	}
	V_ASSERT(got == want, "bn_combo_column_get == the selected column of bits (stale digits not read)");
	V_WITNESS("combo column");
#else
#error "no A_* selected"
#endif
}
