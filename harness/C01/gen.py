#!/usr/bin/env python3
"""gen.py <outdir> <repo>: writes <outdir>/big_num_hooked.h = /repo/include/math/big_num.h, text unchanged except that every
`static inline RET name(ARGS) {` definition becomes

    #ifdef STUB_name
    static inline RET name(ARGS);          /* body supplied by the harness (spec stub / uninterpreted function) */
    #define name__DEF name__real           /* the real body stays available as name__real */
    #else
    #define name__DEF name
    #endif
    static inline RET
    name__DEF(ARGS) {

Without any -DSTUB_<name> the header is token-for-token the original. This is the check-time equivalent of
`goto-instrument --replace-calls` for callers and callees that live in the same header (macro redirection between two
includes is impossible there); /repo is not modified."""
import re, sys, os

def main():
    outdir, repo = sys.argv[1], sys.argv[2]
    src = open(os.path.join(repo, "include", "math", "big_num.h")).read()
    pat = re.compile(r'^static inline ([\w \*]+?)[ \t]*\n(\w+)\(([^)]*)\)[ \t]*\{', re.M)
    names = []
    def rep(m):
        ret, name, args = m.group(1), m.group(2), m.group(3)
        names.append(name)
        return ("#ifdef STUB_%s\nstatic inline %s %s(%s);\n#define %s__DEF %s__real\n#else\n#define %s__DEF %s\n#endif\n"
                "static inline %s\n%s__DEF(%s) {" % (name, ret, name, args, name, name, name, name, ret, name, args))
    out = pat.sub(rep, src)
    assert len(names) > 100 and "bn_div" in names and "bn_digit_mult__int" in names, len(names)
    out = out.replace("__MATH_BIG_NUM_H__", "__MATH_BIG_NUM_H__")  # same include guard on purpose: never both copies
    with open(os.path.join(outdir, "big_num_hooked.h"), "w") as f:
        f.write("/* GENERATED from include/math/big_num.h by /verif/harness/C01/gen.py - do not edit */\n" + out)

if __name__ == "__main__":
    main()
