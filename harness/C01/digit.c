/* C01 layer 1: digit primitives of big_num.h, all arguments symbolic over the full digit width.
 * Build parameters: BN_DIGIT_BIT_CNT, [BN_CC_MULL_DIV], exactly one OP_* macro.
 * Oracle: native double-width arithmetic (dd_t), bit loops. */
#define VDIG 1
#include "bn_common.h"

struct in_s { bn_digit_t a, b, c; };
#include "verif_in.h"

#define DD(hi, lo)	((((dd_t)(hi)) << W) | (dd_t)(lo))

#if defined(OP_DIV) || defined(OP_DIVSHORT)
/* q = qh:ql, r: is (n_hi:n_lo) == q * d + r with r < d?  All arithmetic fits 2W bits (see below). */
static int divides_exactly(bn_digit_t n_lo, bn_digit_t n_hi, bn_digit_t d, bn_digit_t ql, bn_digit_t qh, bn_digit_t r) {
	dd_t p = (dd_t)qh * (dd_t)d;			/* must be <= n_hi, i.e. fit one digit */
	if ((p >> W) != 0 || (bn_digit_t)p > n_hi) return (0);
	dd_t rest = DD((bn_digit_t)(n_hi - (bn_digit_t)p), n_lo);	/* n - qh*d*B */
	/* ql*d + r <= (B-1)^2 + B-1 < B^2: no overflow */
	return (r < d && rest == (dd_t)ql * (dd_t)d + (dd_t)r);
}
#endif

void harness(void) {
	V_BEGIN();
	bn_digit_t a = IN.a, b = IN.b, c = IN.c;
	(void)a; (void)b; (void)c;

#if defined(OP_BITS)
	size_t pop = 0, ctz = W, clz = W;
	for (size_t i = 0; i < W; i++) {
		if ((a >> i) & 1) {
			pop++;
			if (ctz == W) ctz = i;
			clz = W - 1 - i;
		}
	}
	V_ASSERT(bn_digit_bits(a) == pop, "bn_digit_bits == population count");
	V_ASSERT(bn_digit_ctz(a) == ctz, "bn_digit_ctz == trailing zeros (W for 0)");
	V_ASSERT(bn_digit_clz(a) == clz, "bn_digit_clz == leading zeros (W for 0)");
	V_ASSERT(bn_digit_ffs(a) == (a == 0 ? 0 : ctz + 1), "bn_digit_ffs == ctz+1 (0 for 0)");
	V_ASSERT((bn_digit_is_pow2(a) != 0) == (pop == 1), "bn_digit_is_pow2 <=> exactly one bit");
	V_ASSERT((bn_digit_is_even(a) != 0) == ((a & 1) == 0) && (bn_digit_is_odd(a) != 0) == ((a & 1) == 1), "parity");
	if (a == 0) V_WITNESS("zero digit");
	if (a == BN_MAX_DIGIT) V_WITNESS("all-ones digit");
	V_WITNESS("bit primitives");

#elif defined(OP_MULT)
	bn_digit_t lo = 0x5a, hi = 0x5a;
#define IS_P2(x) (((x) & ((x) - 1)) == 0)	/* 0, 1 and powers of two: the fast paths of the portable multiply */
#ifdef MODE_FAST
	V_ASSUME(IS_P2(a) || IS_P2(b));
#endif
#ifdef MODE_GEN
	V_ASSUME(!IS_P2(a) && !IS_P2(b));
#endif
#ifdef ORDER_GT	/* the portable multiply orders its operands; split so that the operand selection is fixed per job */
	V_ASSUME(a > b);
#endif
#ifdef ORDER_LE
	V_ASSUME(a <= b);
#endif
#ifdef PUBLIC_WRAPPER
	bn_digit_mult(a, b, &lo, &hi);
#else
	bn_digit_mult__int(a, b, &lo, &hi);
#endif
#ifdef ORACLE_HALF	/* schoolbook identity on half digits, evaluated in double width (each half product is exact in dd_t) */
	const bn_digit_t HM = (bn_digit_t)(BN_MAX_DIGIT >> (W / 2));
#ifdef ORDER_LE	/* a*b == b*a: evaluate the schoolbook identity with the operand order the code under test uses */
	bn_digit_t a1 = b >> (W / 2), a0 = b & HM, b1 = a >> (W / 2), b0 = a & HM;
#else
	bn_digit_t a1 = a >> (W / 2), a0 = a & HM, b1 = b >> (W / 2), b0 = b & HM;
#endif
	/* each half product < 2^W: exact in the digit type (the code under test relies on the same fact) */
	bn_digit_t p11 = a1 * b1, p10 = a1 * b0, p01 = a0 * b1, p00 = a0 * b0;
	dd_t p = (((dd_t)p11) << W) + (((dd_t)p10) << (W / 2)) + (((dd_t)p01) << (W / 2)) + (dd_t)p00;
#else
	dd_t p = (dd_t)a * (dd_t)b;
#endif
	V_ASSERT(lo == (bn_digit_t)p, "digit multiply: low half exact");
	V_ASSERT(hi == (bn_digit_t)(p >> W), "digit multiply: high half exact");
	if (a == BN_MAX_DIGIT && b == BN_MAX_DIGIT) V_WITNESS("max*max");
	if (hi != 0) V_WITNESS("non-zero high half");
	V_WITNESS("digit multiply");

#elif defined(OP_DIV)
	bn_digit_t ql = 0x5a, qh = 0x5a, rl = 0x5a, rh = 0x5a;
	/* a = dividend_lo, b = dividend_hi, c = divisor */
#ifdef MODE_HI0		/* one-digit dividend: the portable code uses the compiler's single-digit / and % */
	V_ASSUME(b == 0);
#endif
#ifdef MODE_ZERO		/* zero divisor only */
	V_ASSUME(c == 0);
#endif
#ifdef MODE_P2		/* two-digit dividend, power-of-two divisor: shift path of the portable code */
	V_ASSUME(b != 0 && c != 0 && (c & (c - 1)) == 0);
#endif
#ifdef MODE_LOOP	/* two-digit dividend, other divisors: shift-subtract loop of the portable code */
	V_ASSUME(b != 0 && (c & (c - 1)) != 0);
#endif
#ifdef CLZ		/* divisor with exactly CLZ leading zero bits (fixes the trip count of the loop) */
	V_ASSUME((c >> (W - 1 - CLZ)) == 1);
#endif
#ifdef KF_DIGIT_DIV_POW2_REMHI	/* known finding: portable build, power-of-two divisor >= 2 and dividend_hi != 0: remainder_hi wrong */
#ifndef BN_CC_MULL_DIV
	V_ASSUME(!(b != 0 && c > 1 && (c & (c - 1)) == 0));
#endif
#endif
#ifdef PUBLIC_WRAPPER
	int r = bn_digit_div(a, b, c, &ql, &qh, &rl, &rh);
#else
	int r = bn_digit_div__int(a, b, c, &ql, &qh, &rl, &rh);
#endif
	if (c == 0) {
		V_ASSERT(r == EINVAL, "division by zero digit is refused with EINVAL");
		V_WITNESS("division by zero");
		return;
	}
	V_ASSERT(r == 0, "digit divide succeeds for non-zero divisor");
	V_ASSERT(rh == 0, "digit divide: remainder high digit is zero");
#if defined(ORACLE_NATIVE)	/* the C operators / and % on the double-width type */
#ifdef MODE_HI0	/* one-digit dividend: single-width operators */
	V_ASSERT(qh == 0 && ql == (bn_digit_t)(a / c) && rl == (bn_digit_t)(a % c), "digit divide: q == lo / d and r == lo % d (native operators)");
#else
	dd_t n = DD(b, a);
	V_ASSERT(DD(qh, ql) == n / (dd_t)c && rl == (bn_digit_t)(n % (dd_t)c), "digit divide: q == hi:lo / d and r == hi:lo % d (native operators)");
#endif
#elif defined(ORACLE_LONGDIV)	/* textbook bit-serial restoring division on the double-width type (itself checked against q*d+r at W=8,16) */
	dd_t n = DD(b, a), oq = 0, orem = 0;
	for (int i = 2 * W - 1; i >= 0; i--) {
		orem = (orem << 1) | ((n >> i) & 1);
		if (orem >= (dd_t)c) { orem -= (dd_t)c; oq |= ((dd_t)1) << i; }
	}
	V_ASSERT(DD(qh, ql) == oq && rl == (bn_digit_t)orem, "digit divide: q,r == bit-serial long division");
#ifdef CHECK_ORACLE
	V_ASSERT(divides_exactly(a, b, c, (bn_digit_t)oq, (bn_digit_t)(oq >> W), (bn_digit_t)orem), "reference long division satisfies hi:lo == q*d + r and r < d");
#endif
#else
	V_ASSERT(divides_exactly(a, b, c, ql, qh, rl), "digit divide: hi:lo == q*d + r and r < d");
#endif
	if (qh != 0) V_WITNESS("two-digit quotient");
	if (b != 0 && c > 1 && (c & (c - 1)) == 0) V_WITNESS("power-of-two divisor, two-digit dividend");
	V_WITNESS("digit divide");

#elif defined(OP_DIVSHORT)
	/* bn_digit_div__int_short returns only the low quotient digit. Two obligations:
	 *  (1) if hi < d (quotient fits one digit; the way bn_div uses it) then lo:hi == q*d + r, r < d for r := n - q*d;
	 *  (2) for every input it equals the low quotient digit of bn_digit_div__int (itself decided by OP_DIV). */
	bn_digit_t q = 0x5a;
#ifdef MODE_HI_NZ	/* two-digit dividends only (wide digits: the one-digit path is the compiler's own / operator) */
	V_ASSUME(b != 0);
#endif
	int r = bn_digit_div__int_short(a, b, c, &q);
	if (c == 0) {
		V_ASSERT(r == EINVAL, "short divide by zero digit is refused with EINVAL");
		V_WITNESS("short division by zero");
		return;
	}
	V_ASSERT(r == 0, "short digit divide succeeds for non-zero divisor");
	if (b < c) {
		dd_t n = DD(b, a), p = (dd_t)q * (dd_t)c;
		V_ASSERT(p <= n && (n - p) < (dd_t)c, "short digit divide (hi < d): q == floor(hi:lo / d)");
		V_WITNESS("short divide, one-digit quotient");
	}
	bn_digit_t ql, qh, rl, rh;
	(void)bn_digit_div__int(a, b, c, &ql, &qh, &rl, &rh);
	V_ASSERT(q == ql, "short digit divide == low quotient digit of the full digit divide");
	if (b >= c) V_WITNESS("short divide, truncated quotient");

#elif defined(OP_GCD)
	/* three algorithms must agree: Euclid (bn_digit_gcd), Stein (bn_digit_gcd_bin), subtraction-only reference */
	bn_digit_t x = a, y = b, ref;
	if (x == 0) ref = y;
	else if (y == 0) ref = x;
	else {
#ifdef GCD_STEPS	/* subtraction-only Euclid: at most max(a,b) steps */
		for (unsigned i = 0; i < GCD_STEPS && x != y; i++) { if (x > y) x -= y; else y -= x; }
		V_ASSERT(x == y, "reference gcd loop bound suffices");
		ref = x;
#else			/* wide digits: native remainder Euclid as reference (same idea as bn_digit_gcd, independent text) */
		while (y != 0) { bn_digit_t t = (bn_digit_t)(x % y); x = y; y = t; }
		ref = x;
#endif
	}
	bn_digit_t g1 = bn_digit_gcd(a, b), g2 = bn_digit_gcd_bin(a, b);
	V_ASSERT(g1 == ref, "bn_digit_gcd == reference gcd");
	V_ASSERT(g2 == ref, "bn_digit_gcd_bin == reference gcd");
	if (ref != 0) V_ASSERT(a % ref == 0 && b % ref == 0, "gcd divides both operands");
	if (a == 0 || b == 0) V_WITNESS("gcd with zero operand");
	if (a != 0 && b != 0 && a != b) V_WITNESS("gcd general case");
#else
#error "no OP_* selected"
#endif
}
