/* Specification stubs for layer 4 (DESIGN 1.3): with -DSTUB_bn_div / -DSTUB_bn_mult the calls inside big_num.h go to
 * these direct statements of the contract decided by wrap.c (bn_mult) and div.c (bn_div) over native integers.
 * The real bn_t layout, digit counts, capacity errors and lazy zeroing stay visible to the callers:
 * results are written digit by digit, storage above the new `digits` is left as it was (stale). */
#ifndef C01_SPEC_STUBS_H
#define C01_SPEC_STUBS_H

/* Division shared by the bn_div stub and the oracles. Two separate native `/` on equal arguments are two unrelated
 * (q,r) pairs for the SAT solver, each pinned only by n == q*d + r; proving them equal needs the uniqueness of integer
 * division, which is hopeless at the bit level. So division is ONE uninterpreted function pair (equal arguments give
 * equal results by functional consistency) constrained by the defining axiom, which has exactly one solution for every
 * n and d != 0 - the true quotient and remainder - so nothing is assumed away. Native replay uses / and %. */
#ifdef REPLAY
static inline val_t o_div(val_t n, val_t d, val_t *rem) { *rem = n % d; return (n / d); }
#else
val_t __CPROVER_uninterpreted_odiv(val_t n, val_t d);
val_t __CPROVER_uninterpreted_omod(val_t n, val_t d);
static inline val_t o_div(val_t n, val_t d, val_t *rem) {
	val_t q = __CPROVER_uninterpreted_odiv(n, d), r = __CPROVER_uninterpreted_omod(n, d);
	__CPROVER_assume(r < d && q <= n && (unsigned __int128)q * d + r == (unsigned __int128)n);
	*rem = r;
	return (q);
}
#endif
static inline val_t o_mod(val_t n, val_t d) { val_t r; (void)o_div(n, d, &r); return (r); }

static inline size_t spec_digits(val_t v) {
	size_t n = 0;
	for (size_t i = 0; i < VDIG; i++) if ((bn_digit_t)(v >> (i * W)) != 0) n = i + 1;
	return (n);
}
static inline void spec_set(bn_p bn, val_t v) {	/* caller guarantees spec_digits(v) <= bn->count */
	size_t n = spec_digits(v);
	for (size_t i = 0; i < n; i++) bn->num[i] = (bn_digit_t)(v >> (i * W));
	bn->digits = n;
}

#ifdef STUB_bn_digits_l_shift
/* contract decided by kern.c (K_LSH/K_RSH) for every shift below the array width, every digit width:
 * a = (a << bits) mod 2^(count*W) resp. a = a >> bits. A call outside that domain is reported. */
static inline void bn_digits_l_shift(bn_digit_t *a, size_t count, size_t bits) {
	if (NULL == a || 0 == count || 0 == bits) return;
	V_ASSERT(bits < count * W && count <= VDIG, "shift kernel called inside its decided domain (bits < width of the array)");
	if (!(bits < count * W && count <= VDIG)) return;
	val_t v = (v_value(a, count) << bits) & v_mask(count * W);
	for (size_t i = 0; i < count; i++) a[i] = (bn_digit_t)(v >> (i * W));
}
#endif
#ifdef STUB_bn_digits_r_shift
static inline void bn_digits_r_shift(bn_digit_t *a, size_t count, size_t bits) {
	if (NULL == a || 0 == count || 0 == bits) return;
	V_ASSERT(bits < count * W && count <= VDIG, "shift kernel called inside its decided domain (bits < width of the array)");
	if (!(bits < count * W && count <= VDIG)) return;
	val_t v = v_value(a, count) >> bits;
	for (size_t i = 0; i < count; i++) a[i] = (bn_digit_t)(v >> (i * W));
}
#endif

#ifdef STUB_bn_mult
/* contract: zero operand -> zero; digits(bn)+digits(n) > count -> EOVERFLOW, bn unchanged; else bn = bn*n */
static inline int bn_mult(bn_p bn, bn_p n) {
	if (0 != bn_is_zero(bn) || 0 != bn_is_zero(n)) { bn_assign_zero(bn); return (0); }
	if (bn->digits + n->digits > bn->count) return (EOVERFLOW);
	spec_set(bn, bn_value(bn) * bn_value(n));	/* < 2^(W*count): fits val_t by the shape check in the harness */
	return (0);
}
#endif

#ifdef STUB_bn_div
/* contract (div.c): EINVAL for NULL / zero divisor; n == d -> q=1,r=0; n < d -> q=0,r=n; otherwise EOVERFLOW when the
 * dividend is at full capacity and the divisor's top digit has more leading zeros than the dividend's; else q=n/d, r=n%d;
 * remainder == bn: bn receives r; remainder == NULL: only q; r not fitting remainder->count: EOVERFLOW (bn already = q) */
static inline int bn_div(bn_p bn, bn_p d, bn_p remainder) {
	if (NULL == bn || NULL == d) return (EINVAL);
	if (0 != bn_is_zero(d)) return (EINVAL);
	val_t n = bn_value(bn), dv = bn_value(d), q, r;
	if (bn == d || n == dv) { q = 1; r = 0; }
	else if (n < dv) { q = 0; r = n; }
	else {
		if (bn->count == bn->digits && bn_digit_clz(d->num[d->digits - 1]) > bn_digit_clz(bn->num[bn->digits - 1]))
			return (EOVERFLOW);
		q = o_div(n, dv, &r);
	}
	if (bn == remainder) { spec_set(bn, r); return (0); }
	spec_set(bn, q);
	if (NULL != remainder) {
		if (spec_digits(r) > remainder->count) return (EOVERFLOW);
		spec_set(remainder, r);
	}
	return (0);
}
#endif
#endif
