/* C01 layer 2b: binary / hex import and export (digit-array level and bn_* wrappers).
 * Shape (concrete): AC = capacity of the digit array in digits, DG = significant digits handed to export (bn->digits),
 * BS = caller buffer size in bytes/characters, FLAGS. Symbolic: every digit, every buffer byte, stale digits.
 * Oracle: the value denoted by the bytes / hex characters, computed in native wide integers. One X_* macro selects. */
#ifndef VDIG
#define VDIG (AC + 1)
#endif
#ifndef BS
#define BS 1
#endif
#define V_MEM_MAX_SET ((BS) > 32 ? (BS) : 32)
#include "bn_common.h"

struct in_s { struct sbn a; uint8_t buf[(BS) > 0 ? (BS) : 1]; };
#include "verif_in.h"

#define ABYTES	((size_t)(AC) * sizeof(bn_digit_t))

static int hexval(uint8_t c) {
	if (c >= '0' && c <= '9') return (c - '0');
	if (c >= 'a' && c <= 'f') return (c - 'a' + 10);
	if (c >= 'A' && c <= 'F') return (c - 'A' + 10);
	return (-1);
}

void harness(void) {
	V_BEGIN();
#if defined(X_IMP_BE_BIN) || defined(X_IMP_BE_HEX)
	/* The two big-endian importers walk `for (r_pos = buf + size - 1; r_pos >= buf; r_pos--)`, i.e. they form and compare
	 * the one-before-begin pointer. CBMC's object model cannot order such a pointer (the loop then never ends in the
	 * model; natively it ends). One guard byte in front of the caller buffer keeps buf-1 inside the object. */
	uint8_t *buf0 = (uint8_t *)v_alloc((BS) + 1);
	buf0[0] = 0xa5;
	uint8_t *buf = buf0 + 1;
	for (size_t i = 0; i < BS; i++) buf[i] = IN.buf[i];
#else
	uint8_t *buf = v_buf(IN.buf, BS);	/* exactly BS bytes */
#endif
	bn_t bn;
	size_t ret = 777;
	int r;
	val_t v;
	(void)ret; (void)v;

#if defined(X_IMP_BE_BIN) || defined(X_IMP_LE_BIN)
	bn_make(&bn, &IN.a, AC, DG);		/* previous content (DG digits + garbage) must not matter */
#ifdef X_IMP_BE_BIN
	r = bn_import_be_bin(&bn, buf, BS);
#else
	r = bn_import_le_bin(&bn, buf, BS);
#endif
#if BS == 0
	V_ASSERT(r == EINVAL, "import: empty buffer is refused with EINVAL");
	V_WITNESS("import: empty");
#else
	if (ABYTES < BS) {
		V_ASSERT(r == EOVERFLOW, "import: buffer longer than the capacity is refused with EOVERFLOW");
		V_WITNESS("import: overflow");
		return;
	}
	v = 0;
	for (size_t i = 0; i < BS; i++) {
#ifdef X_IMP_BE_BIN
		v = (v << 8) | IN.buf[i];
#else
		v |= ((val_t)IN.buf[i]) << (8 * i);
#endif
	}
	V_ASSERT(r == 0, "import: fitting buffer succeeds");
	V_ASSERT(bn_repr_ok(&bn), "import: representation invariant (digits <= count, top digit non-zero)");
	V_ASSERT(bn_value(&bn) == v, "import: value == number denoted by the bytes");
	if (v == 0) V_WITNESS("import: zero value");
	V_WITNESS("import: success");
#endif

#elif defined(X_EXP_BE_BIN) || defined(X_EXP_LE_BIN)
	bn_make(&bn, &IN.a, AC, DG);
	v = bn_value(&bn);
#ifdef RETNULL	/* callers such as ecdsa_*_le pass NULL for the size out-parameter (fixed-size export only) */
#define RETP NULL
#else
#define RETP (&ret)
#endif
#ifdef X_EXP_BE_BIN
	r = bn_export_be_bin(&bn, FLAGS, buf, BS, RETP);
#else
#ifdef KF_EXPORT_LE_BIN_TRUNC	/* known finding: buffer shorter than digits*size -> wrong fit test (truncated value / UB shift / spurious error) */
#if BS > 0
	V_ASSUME(!((size_t)(DG) * sizeof(bn_digit_t) > (size_t)(BS)));
#endif
#endif
	r = bn_export_le_bin(&bn, FLAGS, buf, BS, RETP);
#endif
#ifdef RETNULL
	ret = BS;
#endif
#if BS == 0
	V_ASSERT(r == EINVAL, "export: empty buffer is refused with EINVAL");
	V_WITNESS("export: empty");
#else
	size_t need = 0;			/* significant bytes of the value */
	for (size_t i = 0; i < ABYTES; i++) if (((v >> (8 * i)) & 0xff) != 0) need = i + 1;
	if (r != 0) {
		V_ASSERT(r == EOVERFLOW, "export: the only error is EOVERFLOW");
		V_ASSERT(need > BS, "export: EOVERFLOW only when the value does not fit the buffer");
		V_WITNESS("export: overflow");
		return;
	}
	V_ASSERT(need <= BS, "export: success only when the value fits");
	V_ASSERT(ret <= BS, "export: reported size within the buffer");
	if (((FLAGS) & BN_EXPORT_F_AUTO_SIZE) == 0) V_ASSERT(ret == BS, "export (fixed size): whole buffer is the number");
	val_t w = 0;
	for (size_t i = 0; i < BS; i++) {
		if (i >= ret) break;
#ifdef X_EXP_BE_BIN
		w = (w << 8) | buf[i];
#else
		w |= ((val_t)buf[i]) << (8 * i);
#endif
	}
	V_ASSERT(w == v, "export: bytes [0, reported size) denote the value");
	if (need == BS) V_WITNESS("export: exact fit");
	V_WITNESS("export: success");
#endif

#elif defined(X_IMP_BE_HEX) || defined(X_IMP_LE_HEX)
	bn_make(&bn, &IN.a, AC, DG);
	size_t nhex = 0;
	for (size_t i = 0; i < BS; i++) if (hexval(IN.buf[i]) >= 0) nhex++;
#ifdef X_IMP_BE_HEX
#ifdef KF_IMPORT_BE_HEX_ODD	/* known finding: odd number of hex digits -> the leading nibble is dropped silently */
	V_ASSUME((nhex & 1) == 0);
#endif
	r = bn_import_be_hex(&bn, buf, BS);
#else
	V_ASSUME((nhex & 1) == 0);	/* outside: a trailing single nibble has no agreed value in a little-endian byte string */
	r = bn_import_le_hex(&bn, buf, BS);
#endif
#if BS == 0
	V_ASSERT(r == EINVAL, "hex import: empty buffer is refused with EINVAL");
	V_WITNESS("hex import: empty");
#else
	if (r != 0) {
		V_ASSERT(r == EOVERFLOW, "hex import: the only error is EOVERFLOW");
		V_ASSERT(nhex > 2 * ABYTES || (BS / 2) > ABYTES, "hex import: EOVERFLOW only when there are more hex digits than the capacity holds (or the text is longer than 2*capacity)");
		V_WITNESS("hex import: overflow");
		return;
	}
	V_ASSERT(nhex <= 2 * ABYTES, "hex import: success only when the digits fit the capacity");
	if (nhex > 2 * ABYTES) return;
	v = 0;
	size_t k = 0;
	for (size_t i = 0; i < BS; i++) {
		int h = hexval(IN.buf[i]);
		if (h < 0) continue;
#ifdef X_IMP_BE_HEX
		v = (v << 4) | (val_t)h;
#else		/* byte k/2 = pair (hi nibble first) */
		v |= ((val_t)h) << (8 * (k / 2) + ((k & 1) ? 0 : 4));
#endif
		k++;
	}
	V_ASSERT(bn_repr_ok(&bn), "hex import: representation invariant");
	V_ASSERT(bn_value(&bn) == v, "hex import: value == number denoted by the hex digits (other characters skipped)");
	if (nhex < BS) V_WITNESS("hex import: separators skipped");
	if (nhex & 1) V_WITNESS("hex import: odd digit count");
	V_WITNESS("hex import: success");
#endif

#elif defined(X_EXP_BE_HEX) || defined(X_EXP_LE_HEX)
	bn_make(&bn, &IN.a, AC, DG);
	v = bn_value(&bn);
#ifdef X_EXP_BE_HEX
	r = bn_export_be_hex(&bn, FLAGS, buf, BS, &ret);
#else
	r = bn_export_le_hex(&bn, FLAGS, buf, BS, &ret);
#endif
#if BS < 2
	V_ASSERT(r == EINVAL, "hex export: buffer below two characters is refused with EINVAL");
	V_WITNESS("hex export: too small");
#else
	size_t need = 0;
	for (size_t i = 0; i < ABYTES; i++) if (((v >> (8 * i)) & 0xff) != 0) need = i + 1;
	if (r != 0) {
		V_ASSERT(r == EOVERFLOW, "hex export: the only error is EOVERFLOW");
#ifdef X_EXP_BE_HEX
		V_ASSERT(2 * need > BS, "hex export: EOVERFLOW only when the text does not fit");
#else		/* little-endian text always carries all digits*size bytes */
		V_ASSERT(2 * (size_t)(DG) * sizeof(bn_digit_t) > BS, "hex export: EOVERFLOW only when the text does not fit");
#endif
		V_WITNESS("hex export: overflow");
		return;
	}
	V_ASSERT(ret <= BS && (ret & 1) == 0, "hex export: reported length within the buffer and even");
	if (ret < BS) V_ASSERT(buf[ret] == 0, "hex export: NUL after the text when there is room");
	val_t w = 0;
	for (size_t i = 0; i < BS; i++) {
		if (i >= ret) break;
		int h = hexval(buf[i]);
		V_ASSERT(h >= 0 && !(buf[i] >= 'A' && buf[i] <= 'F'), "hex export: only lower-case hex digits");
#ifdef X_EXP_BE_HEX
		w = (w << 4) | (val_t)h;
#else
		w |= ((val_t)h) << (8 * (i / 2) + ((i & 1) ? 0 : 4));
#endif
	}
	V_ASSERT(w == v, "hex export: text denotes the value");
	V_WITNESS("hex export: success");
#endif
#else
#error "no X_* selected"
#endif
}
