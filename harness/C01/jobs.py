import os

SOLVER = os.environ.get("C01_SOLVER", "cadical")
TMO = os.environ.get("C01_TIMEOUT")
WIDTHS = (8, 16, 32, 64)

# known findings of this property that are not yet repaired in /repo: blocking defines (each narrows exactly one defect)
KF = {
    "digit_div": {"KF_DIGIT_DIV_POW2_REMHI": None},
    "export_le_bin": {"KF_EXPORT_LE_BIN_TRUNC": None},
    "import_be_hex": {"KF_IMPORT_BE_HEX_ODD": None},
    "addsub_digit": {"KF_ADDSUB_DIGIT_ZERO_CARRY": None},
    "mult_digit": {"KF_MULT_DIGIT_23_CARRY": None},
    "shift": {"KF_SHIFT_BEYOND": None},
    "and": {"KF_AND_STALE_HIGH": None},
    "is_bit_set": {"KF_IS_BIT_SET_ZERO": None},
    "assign_digit": {"KF_ASSIGN_DIGIT_ZERO": None},
    "clz": {"KF_CLZ_ZERO": None},
    "sqrt": {"KF_SQRT_ODD_BITLEN": None},
    "mod_add": {"KF_MOD_ADD_CARRY": None},
    "naf": {"KF_NAF_TOP_CARRY": None},
    "jsf": {"KF_JSF_ZERO_STALE": None},
}
# all thirteen findings were repaired in /repo (known_findings.json: fixed): no guard is in force any more
KF = {k: {} for k in KF}
# jsf_zero_stale (found afterwards) was repaired in /repo as well (known_findings.json: fixed)

META = {
    "bounds": (
        "big_num.h compiled per job with BN_DIGIT_BIT_CNT in {8,16,32,64}, BN_BIT_LEN = 4 digits (8 digits for the inverse/Legendre/mod_sqrt jobs, "
        "which need 4 spare digits), BN_CC_MULL_DIV on and off where the code differs. All digits, the stale digits above `digits`, digit operands, "
        "shift/bit numbers and buffer bytes are symbolic; capacities/digit counts/buffer sizes are concrete shapes. "
        "L1 digit primitives: bits/ctz/clz/ffs/is_pow2/parity all four widths, all values; bn_digit_mult__int: compiler build all widths; portable build: "
        "8 bit against the native product, 16/32 bit (64 bit thorough only, measured > 600 s, may be inconclusive) fast paths against the native product and the Knuth-M path "
        "against the schoolbook sum of half-digit products; bn_digit_div__int / _short / public wrappers: 8 bit both builds, all (lo,hi,d) against hi:lo == q*d+r, r<d; "
        "widths 16..64: only d == 0 and the portable power-of-two-divisor path. "
        "L2 digit-array kernels (add, add_digit, sub, sub__int via sub, sub_digit, calc_digits, cmp, l_shift, r_shift for every shift < array width, incl. a==b aliasing): "
        "arrays of 1..4 digits (value <= 128 bits: 64-bit digits 1..2) quick widths 8 and 64, thorough all four; mult_digit / add_digit_mult / sub_digit_mult: "
        "carry logic for EVERY digit-multiply function bounded by (B-1)^2 (uninterpreted), plus the real compiler multiply; import/export be/le bin/hex: "
        "capacity 1..2 digits, buffer sizes 0..capacity+1 (hex 0..2*capacity+2), flags 0/AUTO_SIZE, quick widths 8 and 32. "
        "L3 bn_* wrappers (init, add, sub, add_digit, sub_digit, mult, square, mult_digit, l_shift/r_shift for every count <= capacity+W+9, and/or/xor, "
        "bit_set/is_bit_set/assign_2exp, assign/assign_init/assign_zero/assign_digit, cmp/is_*/calc_bits/ctz/clz/calc_digits): capacities 1..4 digits, "
        "digits 0..capacity, aliasing bn==n for add/sub/mult/cmp, NULL carry; representation invariant + exact value or documented error; quick widths 8 and 32, thorough all. "
        "bn_mult/bn_mult_digit: uninterpreted digit multiply at every shape, real compiler multiply at 2x1, 3x2x1 digits. "
        "L4 (8-bit digits): bn_div long division 1/1 digit (quick), + portable build (203 s), remainder==bn, NULL remainder, bn_mod at 1/1, plain 2/1 and 2/2 digits (thorough; measured 371 s / 370 s), "
        "trivial paths (zero divisor, n<d, n==d object, remainder too small); with bn_div/bn_mult replaced by their contracts: bn_sqrt1 (quick) / 2 / 3 / 5 for values 1..255; "
        "bn_gcd values 1..255, bn_gcd_bin values 1..31 (thorough); bn_mod_add/sub/mult/square/mult_digit/reduce one-digit operands all values (+ add/sub at full capacity); "
        "bn_mod_exp_digit/bn_mod_exp exponent <= 15 (thorough); bn_mod_inv1/inv2 prime modulus <= 13, bn_mod_inv_bin modulus 13, bn_mod_legendre prime modulus <= 31, "
        "bn_mod_sqrt modulus 7 (quick) and 13 (thorough); bn_calc_naf window 4 values 1..255 (quick), windows 2,3 at full capacity and bn_calc_jsf values 1..255 (thorough); "
        "bn_combo_column_get window 1..4 x 1..4. "
        "Added clauses: bn_div on a completely filled dividend whose normalisation would lose bits must return EOVERFLOW (1/1, 2/1, 2/2 digits, quick); "
        "bn_mod_exp with exponent numerically 0 and symbolic stale exponent digits == 1 (quick); bn_add_digit/bn_sub_digit with symbolic canaries in num[count..] "
        "(nothing written at or above num[count]; all-ones full bn: carry 1) capacities 1..4, widths 8 and 32 quick; bn_calc_jsf with a zero operand "
        "(stale working copy nondeterministic, exactly sized array) - generated once KF_JSF_ZERO_STALE is removed."),
    "outside": (
        "128-bit digits; operands wider than 4 digits; Barrett reduction, bn_egcd, bn_digit_egcd, bn_mod_inv3, bn_sqrt4, bn_mod_div_mont/bn_mod_inv_mont/bn_mod_div/bn_mod_small; "
        "bn_digit_div__int general path and bn_digit_gcd/_gcd_bin at digit widths >= 16 (no verdict within 600 s on any back end; 8-bit digit gcd is a thorough job); "
        "portable 64-bit digit multiply general path unless the thorough job finishes; bn_div with dividends above 2 digits (3/1: no verdict in 1500 s) and the aliased forms above 1/1 (2/1 with remainder == bn: no verdict in 1500 s); "
        "Tonelli-Shanks branch of bn_mod_sqrt (modulus = 1 mod 8; no verdict in 600 s at m = 17); bn_mod_inv_bin on non-invertible input (does not terminate: documented 'assuming inverse exists'); "
        "modulus 1; bn_exp_digit; a trailing single nibble in little-endian hex import; gcc/clang x -O levels (only: no undefined behaviour found by CBMC's checks inside the bounds, "
        "except the findings); the one-before-begin pointer formed by the two big-endian import loops and the num[-1] index evaluated by bn_sub(0,0) are not flagged by CBMC's object model."),
    "assumptions": [
        "gen.py: big_num_hooked.h = /repo/include/math/big_num.h with every static inline definition made substitutable via -DSTUB_<name> (text identical otherwise)",
        "libc stubs under CBMC: memmove/memcpy/memset as byte loops with a length assertion (CBMC's built-in memmove gave non-reproducing results on 16..64-bit digit arrays); native replays use libc",
        "uninterpreted digit multiply (-DSTUB_bn_digit_mult__int): any function with result <= (B-1)^2; the real multiply is decided in layer 1",
        "layer 4: bn_div and bn_mult replaced by contracts (spec_stubs.h) stated over native integers, incl. their EOVERFLOW/EINVAL conditions and lazy zeroing; "
        "division inside contract and oracle is one uninterpreted function pair constrained by n == q*d + r, r < d (unique solution)",
        "bn_l_shift / NULL-carry bn_add, bn_sub are specified as arithmetic mod 2^capacity (as the modular layer uses them); bn_mult's EOVERFLOW is the conservative "
        "digits(bn)+digits(n) > capacity; bn_div's EOVERFLOW 'normalised dividend does not fit' is accepted as a loud failure",
        "bn_is_even(0) == 0 is taken as specified by the code (guards digits == 0)",
        "big-endian importers: one guard byte in front of the caller buffer (see impexp.c)",
        "layer 4 value bounds (VMAX/MMAX/MFIX/EMAX) are assumptions of the respective jobs and part of their shape text",
        "known findings are excluded by KF_* assumptions listed in KF of this file; each has findings/<name>.md and a replay; in force now: none",
        "native replay of the JSF jobs dirties the stack with 0xff before the call (jsf_dirty_stack, REPLAY only) so that the uninitialised working copy of a zero operand is deterministic",
    ],
    "harness_functions": ["harness", "bn_make", "bn_value", "v_value", "v_mask", "bn_repr_ok", "o_add", "o_sub", "o_dmul", "uf_mul", "o_div", "o_mod", "o_gcd",
                          "spec_digits", "spec_set", "v_memmove", "v_memcpy", "v_memset", "v_alloc", "v_buf", "hexval", "divides_exactly"],
}


def cfg(w, cc):
    d = {"BN_DIGIT_BIT_CNT": w, "BN_BIT_LEN": 4 * w}
    if cc:
        d["BN_CC_MULL_DIV"] = None
    return d


def tag(w, cc):
    return "w%d%s" % (w, "cc" if cc else "pt")


def memset_uw(w, nset=None):
    n = w // 2 + 1
    return ["v_memmove.0:%d" % n, "v_memmove.1:%d" % n, "v_memcpy.0:%d" % n, "v_memset.0:%d" % ((nset or (w // 2)) + 1)]


def J(name, src, defs, unwind, shape, desc, solver=None, **kw):
    j = {"name": name, "src": src, "defs": defs, "unwind": unwind, "solver": solver or SOLVER, "shape": shape, "desc": desc}
    j.update(kw)
    if TMO:
        j["timeout"] = int(TMO)
    return j


# ------------------------------------------------------------------ layer 1: digit primitives
def digit_jobs(tier):
    out = []
    for w in WIDTHS:
        for cc in (1, 0):
            base, t = cfg(w, cc), tag(w, cc)
            how = "compiler double-width" if cc else "portable"
            if cc:  # independent of BN_CC_MULL_DIV
                out.append(J("dig-bits-%s" % t, "digit.c", dict(base, OP_BITS=None), w + 2,
                             "digit width %d, all digit values" % w,
                             "bn_digit_bits/ctz/clz/ffs/is_pow2/is_even/is_odd == bit-loop reference"))
            # ---- multiply
            if cc or w == 8:
                out.append(J("dig-mult-%s" % t, "digit.c", dict(base, OP_MULT=None), w + 2,
                             "digit width %d, %s multiply, all a,b" % (w, how),
                             "bn_digit_mult__int(a,b) == (hi,lo) of the native double-width product"))
            else:
                # portable Knuth-M multiply at >= 16 bit: fast paths against the native product; general path against the
                # schoolbook identity on half digits (same-width half products), split by operand order
                modes = [("fast", {"MODE_FAST": None}, "a or b in {0,1,2^k}", "cadical", 1),
                         ("gt", {"MODE_GEN": None, "ORACLE_HALF": None, "ORDER_GT": None}, "a > b, neither a power of two", "kissat", 3),
                         ("le", {"MODE_GEN": None, "ORACLE_HALF": None, "ORDER_LE": None}, "a <= b, neither a power of two", "kissat", 3)]
                for mn, md, ms, slv, cost in modes:
                    if w == 64 and mn != "fast":
                        if tier != "thorough":
                            continue
                    out.append(J("dig-mult-%s-%s" % (t, mn), "digit.c", dict(base, OP_MULT=None, **md), w + 2,
                                 "digit width %d, portable multiply, %s" % (w, ms),
                                 "bn_digit_mult__int(a,b) == (hi,lo) of " + ("the native product" if mn == "fast" else
                                 "the schoolbook sum of half-digit products evaluated in double width"),
                                 solver=slv, cost=cost * w, timeout=(1500 if w == 64 else 300)))
            # ---- divide
            if w == 8:
                out.append(J("dig-div-%s" % t, "digit.c", dict(base, OP_DIV=None, **(KF["digit_div"] if not cc else {})), 2 * w + 3,
                             "digit width 8, %s divide, all lo,hi,d" % how,
                             "bn_digit_div__int: EINVAL for d=0, else hi:lo == q*d+r, r<d, remainder_hi == 0", cost=300, timeout=600))
                out.append(J("dig-divshort-%s" % t, "digit.c", dict(base, OP_DIVSHORT=None), 2 * w + 3,
                             "digit width 8, %s divide, all lo,hi,d" % how,
                             "bn_digit_div__int_short == low quotient digit (direct for hi<d, via bn_digit_div__int otherwise)", cost=300, timeout=600))
            else:
                out.append(J("dig-div-%s-zero" % t, "digit.c", dict(base, OP_DIV=None, MODE_ZERO=None), 2 * w + 3,
                             "digit width %d, %s divide, d = 0, all lo,hi" % (w, how), "bn_digit_div__int: EINVAL for d=0"))
                if not cc:
                    out.append(J("dig-div-%s-pow2" % t, "digit.c", dict(base, OP_DIV=None, MODE_P2=None, **KF["digit_div"]), 2 * w + 3,
                                 "digit width %d, portable divide, hi != 0, d = 2^k, all lo,hi,k" % w,
                                 "bn_digit_div__int shift path: hi:lo == q*d+r, r<d", solver="kissat", cost=w))
    if tier == "thorough":   # 8-bit digit gcd: Euclid and Stein against a subtraction-only reference (measured 460 s / 290 s with kissat)
        for nm, inc in (("euclid", "bn_digit_gcd ==|loop bound"), ("stein", "bn_digit_gcd_bin ==")):
            out.append(J("dig-gcd-w8cc-%s" % nm, "digit.c", dict(cfg(8, 1), OP_GCD=None, GCD_STEPS=256), 258,
                         "digit width 8, all a,b", "bn_digit_gcd / bn_digit_gcd_bin == subtractive reference gcd, divides both operands",
                         solver="kissat", prop_include=inc, cost=450, timeout=1500))
    # public wrappers (NULL-tolerant out-parameters) at 8 bit, portable build
    base = cfg(8, 0)
    out.append(J("dig-mult-public-w8pt", "digit.c", dict(base, OP_MULT=None, PUBLIC_WRAPPER=None), 10,
                 "digit width 8, bn_digit_mult, all a,b", "bn_digit_mult == native product"))
    out.append(J("dig-div-public-w8pt", "digit.c", dict(base, OP_DIV=None, PUBLIC_WRAPPER=None, **KF["digit_div"]), 19,
                 "digit width 8, bn_digit_div, all lo,hi,d", "bn_digit_div: EINVAL for d=0, else hi:lo == q*d+r, r<d, remainder_hi == 0", cost=300, timeout=600))
    return out


# ------------------------------------------------------------------ layer 2: digit-array kernels
def max_ac(w, extra):
    return min(4, 128 // w - (1 if extra else 0))


def kern_jobs(tier):
    out = []
    for w in (WIDTHS if tier == "thorough" else (8, 64)):
        base, t = cfg(w, 1), tag(w, 1)
        full = (tier == "thorough") or w == 8
        acs = list(range(1, max_ac(w, False) + 1))
        # --- linear kernels (independent of BN_CC_MULL_DIV)
        def lin(k, ac, bc, extra=None, alias=False):
            d = dict(base, AC=ac, BC=bc, VDIG=ac)
            d[k] = None
            if alias:
                d["ALIAS"] = None
            return J("kern-%s-%s-a%db%d%s" % (k[2:].lower(), t, ac, bc, "-alias" if alias else ""), "kern.c", d, max(ac, bc) + 2,
                     "digit width %d, a: %d digits, b: %d digits%s, all digit values" % (w, ac, bc, ", b aliases a" if alias else ""),
                     extra or k, unwindset=memset_uw(w))
        pairs = [(a, b) for a in acs for b in range(1, 5)] if full else [(1, 1), (2, 1), (2, 2), (1, 2)]
        for ac, bc in pairs:
            if bc > ac + 1 or bc > 4:
                continue
            out.append(lin("K_ADD", ac, bc, "bn_digits_add: (a+b) mod 2^cap, carry; EOVERFLOW if b longer"))
            out.append(lin("K_SUB", ac, bc, "bn_digits_sub: (a-b) mod 2^cap, borrow; EOVERFLOW if b longer"))
        for ac in (acs if full else acs[:2]):
            out.append(lin("K_ADD", ac, ac, "bn_digits_add with b == a (doubling), carry", alias=True))
            out.append(lin("K_SUB", ac, ac, "bn_digits_sub with b == a gives zero, no borrow", alias=True))
            out.append(lin("K_CALC", ac, ac, "bn_digits_calc_digits, bn_digits_cmp"))
            out.append(lin("K_ADDD", ac, 1, "bn_digits_add_digit: (a+d) mod 2^cap, carry"))
            out.append(lin("K_SUBD", ac, 1, "bn_digits_sub_digit: (a-d) mod 2^cap, borrow"))
            out.append(lin("K_LSH", ac, 1, "bn_digits_l_shift for every shift < width of the array"))
            out.append(lin("K_RSH", ac, 1, "bn_digits_r_shift for every shift < width of the array"))
        # --- multiply-accumulate kernels: (a) digit multiply uninterpreted (carry logic for every multiply function),
        #     (b) real compiler multiply (BN_CC_MULL_DIV) against the partial-product sum
        for variant, vd, vs in (("uf", {"STUB_bn_digit_mult__int": None}, "digit multiply = uninterpreted function <= (B-1)^2"),
                                ("cc", {}, "compiler double-width multiply")):
            for k, extra in (("K_MULD", False), ("K_ADDMUL", False), ("K_SUBMUL", True)):
                m = max_ac(w, extra)
                shapes = [(a, b) for a in range(1, m + 1) for b in range(1, a + 1)]
                if k == "K_MULD":
                    shapes = [(a, 1) for a in range(1, m + 1)]
                if not full:
                    shapes = [s for s in shapes if s in ((1, 1), (2, 1), (2, 2), (3, 2))][:3]
                for ac, bc in shapes:
                    if variant == "cc" and w == 64 and (ac, bc) != (1, 1):
                        continue        # real 64x64->128 products: only the smallest shape finishes quickly
                    if variant == "cc" and w == 64 and k == "K_MULD" and not full:
                        continue        # 64x64 real product of mult_digit: > 400 s on cadical [measured]; thorough tier only (the uf variant covers the carry logic)
                    d = dict(base, AC=ac, BC=bc, VDIG=ac + (1 if extra else 0), **vd)
                    d[k] = None
                    out.append(J("kern-%s-%s-%s-a%db%d" % (k[2:].lower(), variant, t, ac, bc), "kern.c", d, (w + 2) if k == "K_MULD" else max(ac, bc) + 2,
                                 "digit width %d, a: %d digits, b: %d digits, all digits and multiplier digit; %s" % (w, ac, bc, vs),
                                 {"K_MULD": "bn_digits_mult_digit__int: a == a*d mod 2^cap", "K_ADDMUL": "bn_digits_add_digit_mult__int: a == a+b*d mod 2^cap",
                                  "K_SUBMUL": "bn_digits_sub_digit_mult__int: a' + b*d == a + borrow*2^cap"}[k] + " (sum of digit products)",
                                 unwindset=memset_uw(w), cost=ac * bc))
    return out


# ------------------------------------------------------------------ layer 2b: import / export
def impexp_jobs(tier):
    out = []
    for w in (WIDTHS if tier == "thorough" else (8, 32)):
        base, t, sz = cfg(w, 1), tag(w, 1), w // 8
        full = (tier == "thorough")
        def X(op, ac, dg, bs, fl, desc, kf=None, retnull=False):
            d = dict(base, AC=ac, DG=dg, BS=bs, FLAGS=fl)
            d[op] = None
            if retnull:
                d["RETNULL"] = None
            if kf:
                d.update(KF[kf])
            return J("io-%s-%s-c%dd%d-b%d-f%d%s" % (op[2:].lower().replace("_", ""), t, ac, dg, bs, fl, "-rn" if retnull else ""), "impexp.c", d, max(bs, ac * sz, 4) + 3,
                     "digit width %d, capacity %d digits, %d significant digits, buffer %d bytes, flags %d; all digits, stale digits and bytes"
                     % (w, ac, dg, bs, fl), desc, unwindset=memset_uw(w, max(bs, 32)))
        acs = [a for a in (1, 2) if (a + 1) * w <= 128]
        dense = full or w == 8
        if not full:
            acs = [2] if w == 8 else [1]
        for ac in acs:
            cap = ac * sz
            sizes = range(0, cap + 2) if dense else sorted(set([0, 1, cap, cap + 1]))
            for bs in sizes:
                out.append(X("X_IMP_BE_BIN", ac, min(1, ac), bs, 0, "bn_import_be_bin: value == big-endian bytes, or EINVAL (empty) / EOVERFLOW (too long)"))
                out.append(X("X_IMP_LE_BIN", ac, min(1, ac), bs, 0, "bn_import_le_bin: value == little-endian bytes, or EINVAL / EOVERFLOW"))
            hsizes = range(0, 2 * cap + 3) if dense else sorted(set([0, 1, 2, 3, 2 * cap, 2 * cap + 1]))
            if not full and w >= 32:
                hsizes = [0, 2, 3, 5]
            for bs in hsizes:
                if bs > 20:
                    continue
                out.append(X("X_IMP_BE_HEX", ac, min(1, ac), bs, 0, "bn_import_be_hex: value == hex number (non-hex characters skipped), or EINVAL / EOVERFLOW", kf="import_be_hex"))
                out.append(X("X_IMP_LE_HEX", ac, min(1, ac), bs, 0, "bn_import_le_hex: value == little-endian hex byte string (even digit count), or EINVAL / EOVERFLOW"))
            for dg in range(0, ac + 1):
                need = dg * sz
                sizes = sorted(set(s for s in (list(range(0, need + 2)) if dense else [0, 1, need - 1, need, need + 1]) if s >= 0))
                for bs in sizes:
                    for fl in (0, 1):
                        if not full and w >= 32 and fl == 1 and bs not in (need, need + 1):
                            continue
                        out.append(X("X_EXP_BE_BIN", ac, dg, bs, fl, "bn_export_be_bin: bytes denote the value, size reported; EOVERFLOW iff it does not fit; EINVAL empty buffer"))
                        if KF["export_le_bin"] and 0 < bs < need:
                            continue    # whole shape excluded by the known finding
                        out.append(X("X_EXP_LE_BIN", ac, dg, bs, fl, "bn_export_le_bin: bytes denote the value, size reported; EOVERFLOW iff it does not fit; EINVAL empty buffer", kf="export_le_bin"))
                        if fl == 0 and bs > 0:   # NULL size out-parameter, as the ecdsa_*_le callers pass it (seeded change C09-export-le-null-ret was missed without it)
                            out.append(X("X_EXP_LE_BIN", ac, dg, bs, fl, "bn_export_le_bin with NULL size pointer: same, fixed size", kf="export_le_bin", retnull=True))
                            out.append(X("X_EXP_BE_BIN", ac, dg, bs, fl, "bn_export_be_bin with NULL size pointer: same, fixed size", retnull=True))
                hs = sorted(set(s for s in (list(range(0, 2 * need + 4)) if full else [1, 2, 3, 2 * need - 1, 2 * need, 2 * need + 1, 2 * need + 2]) if s >= 0))
                if not full and w >= 32:
                    hs = [h for h in hs if h in (1, 2, 2 * need - 1, 2 * need, 2 * need + 1)]
                for bs in hs:
                    if bs > 36:
                        continue
                    for fl in (0, 1):
                        out.append(X("X_EXP_BE_HEX", ac, dg, bs, fl, "bn_export_be_hex: lower-case hex text denotes the value, NUL if room, EOVERFLOW iff too small, EINVAL below 2"))
                        out.append(X("X_EXP_LE_HEX", ac, dg, bs, fl, "bn_export_le_hex: little-endian hex byte text denotes the value, NUL if room, EOVERFLOW iff too small"))
    return out


# ------------------------------------------------------------------ layer 3: bn_* wrappers
def wrap_jobs(tier):
    out = []
    full = (tier == "thorough")
    for w in (WIDTHS if full else (8, 32)):
        base, t = cfg(w, 1), tag(w, 1)
        maxc = min(4, 128 // w)
        def Wj(op, ca, da, cb=None, db=0, extra=None, desc="", kf=None, uw=None, suffix="", **kw):
            d = dict(base, CA=ca, DA=da)
            nm = "wrap-%s%s-%s-c%dd%d" % (op[2:].lower(), suffix, t, ca, da)
            shape = "digit width %d, bn: capacity %d / %d significant digits" % (w, ca, da)
            if cb is not None:
                d.update(CB=cb, DB=db)
                nm += "-c%dd%d" % (cb, db)
                shape += ", n: capacity %d / %d digits" % (cb, db)
            d[op] = None
            for k, v in (extra or {}).items():
                d[k] = v
            for k in (kf or []):
                d.update(KF[k])
            return J(nm, "wrap.c", d, uw or 8, shape + "; all digit values incl. stale digits above `digits`", desc,
                     unwindset=memset_uw(w), **kw)
        # shapes
        if w == 8 and full:
            pairs = [(ca, da, cb, db) for ca in range(1, 5) for da in range(0, ca + 1) for cb in sorted(set([ca, 4, 1])) for db in range(0, cb + 1)]
        elif w == 8:
            pairs = [(3, 2, 3, 2), (3, 2, 3, 3), (2, 2, 3, 3), (3, 0, 3, 2), (3, 2, 3, 0), (3, 0, 3, 0), (4, 4, 4, 4)]
        else:
            pairs = [(2, 1, 2, 2), (2, 2, 2, 1), (2, 0, 2, 1)] if not full else [(2, 1, 2, 2), (2, 2, 2, 1), (2, 2, 2, 2), (1, 1, 2, 2), (2, 0, 2, 1)]
            if full and maxc >= 4:
                pairs += [(4, 3, 4, 4), (4, 4, 4, 2), (3, 3, 4, 1)]
        for ca, da, cb, db in pairs:
            for nc in (0, 1):
                x = {"NOCARRY": None} if nc else {}
                sfx = "-nocarry" if nc else ""
                if nc and not (full or (ca, da, cb, db) in pairs[:3]):
                    continue
                out.append(Wj("O_ADD", ca, da, cb, db, x, "bn_add: (bn+n) mod 2^cap, carry, invariant; EOVERFLOW if n has more digits than the capacity", suffix=sfx))
                out.append(Wj("O_SUB", ca, da, cb, db, x, "bn_sub: (bn-n) mod 2^cap, borrow, invariant; EOVERFLOW if n has more digits than the capacity", suffix=sfx))
            for lop, ln in ((0, "and"), (1, "or"), (2, "xor")):
                if lop == 0 and KF["and"] and da > db + 1:
                    continue
                out.append(Wj("O_LOGIC", ca, da, cb, db, {"LOP": lop}, "bn_%s: exact value, invariant%s" % (ln, "" if lop == 0 else "; EOVERFLOW if n has more digits than the capacity"),
                              suffix="-" + ln, kf=["and"] if lop == 0 else None))
            out.append(Wj("O_CMP", ca, da, cb, db, None, "bn_cmp/is_equal/is_zero/is_one/is_even/is_odd/calc_bits/ctz/clz/is_pow2/calc_digits", kf=["clz"], uw=ca * w + 2))
            out.append(Wj("O_ASSIGN", ca, da, cb, db, None, "bn_assign (EOVERFLOW if too many digits), bn_assign_init, bn_assign_zero, bn_assign_digit", kf=["assign_digit"]))
        singles = sorted(set((ca, da) for ca, da, _, _ in pairs))
        for ca, da in singles:
            out.append(Wj("O_ADD", ca, da, None, 0, {"ALIAS": None}, "bn_add(bn, bn): doubling with carry", suffix="-alias"))
            out.append(Wj("O_SUB", ca, da, None, 0, {"ALIAS": None}, "bn_sub(bn, bn): zero, no borrow", suffix="-alias"))
            out.append(Wj("O_CMP", ca, da, None, 0, {"ALIAS": None}, "predicates with n == bn", suffix="-alias", kf=["clz"], uw=ca * w + 2))
            out.append(Wj("O_ADDD", ca, da, None, 0, None, "bn_add_digit: (bn+d) mod 2^cap, carry written, invariant", kf=["addsub_digit"]))
            out.append(Wj("O_SUBD", ca, da, None, 0, None, "bn_sub_digit: (bn-d) mod 2^cap, borrow written, invariant", kf=["addsub_digit"]))
            mb = ca * w + w + 9
            out.append(Wj("O_LSH", ca, da, None, 0, {"MAXBITS": mb}, "bn_l_shift for every shift count <= capacity + one digit + 9 bits: (bn<<bits) mod 2^cap", kf=["shift"], cost=5))
            out.append(Wj("O_RSH", ca, da, None, 0, {"MAXBITS": mb}, "bn_r_shift for every shift count <= capacity + one digit + 9 bits: bn>>bits", kf=["shift"], cost=5))
            out.append(Wj("O_BIT", ca, da, min(ca, 2), 1, {"MAXBITS": mb}, "bn_is_bit_set, bn_bit_set (EOVERFLOW outside capacity), bn_assign_2exp, is_pow2/ctz/calc_bits of 2^k", kf=["is_bit_set"], cost=5))
            # multiply by a digit: uninterpreted digit multiply for the general path, exact paths for 0,1,2,3,2^k
            out.append(Wj("O_MULD", ca, da, None, 0, {"STUB_bn_digit_mult__int": None}, "bn_mult_digit: bn*d exact or EOVERFLOW; digit multiply uninterpreted", kf=["mult_digit"], suffix="-uf", cost=8))
        for ca, da in ([(1, 1), (2, 2), (3, 3), (4, 4), (3, 1), (2, 0)] if maxc >= 4 else [(1, 1), (2, 2), (2, 0)]):
            for sub in (0, 1):
                out.append(Wj("O_DIGIT_EXACT", ca, da, None, 0, {"SUBOP": sub}, "bn_%s_digit with symbolic canaries in num[count..]: value, carry/borrow, nothing written at or above num[count]" % ("sub" if sub else "add"),
                              suffix="-sub" if sub else "-add"))
            if da == ca:
                out.append(Wj("O_DIGIT_EXACT", ca, da, None, 0, {"SUBOP": 0, "ALL_ONES": None}, "bn_add_digit on a completely full bn (all digits all-ones): carry 1, value d-1, nothing written at num[count]",
                              suffix="-add-allones"))
        out.append(Wj("O_INIT", 1, 0, None, 0, None, "bn_init: EINVAL for 0 / > BN_BIT_LEN bits, else count = ceil(bits/W)"))
        # bn_mult / bn_square: uninterpreted digit multiply at every shape; real compiler multiply at small shapes
        mshapes = [(ca, da, db) for ca in range(1, maxc + 1) for da in range(0, ca + 1) for db in range(0, ca + 1)]
        if not full:
            mshapes = [m for m in mshapes if m in ((2, 1, 1), (3, 2, 1), (4, 2, 2), (2, 2, 1), (2, 0, 1), (3, 1, 2), (4, 3, 1), (4, 1, 3))]
            if w >= 32:     # 128-bit oracle arithmetic: the 3..4 digit products take ~1 min each -> thorough
                mshapes = [m for m in mshapes if m in ((2, 1, 1), (2, 2, 1), (2, 0, 1), (4, 2, 2))]
        for ca, da, db in mshapes:
            out.append(Wj("O_MULT", ca, da, ca, db, {"STUB_bn_digit_mult__int": None}, "bn_mult: bn*n == sum of digit products, or EOVERFLOW iff digits(bn)+digits(n) > cap; digit multiply uninterpreted", suffix="-uf", cost=da * db + 1))
            if da + da <= ca + 1 and db == da:
                out.append(Wj("O_MULT", ca, da, None, 0, {"STUB_bn_digit_mult__int": None, "ALIAS": None}, "bn_mult(bn, bn): square, digit multiply uninterpreted", suffix="-uf-sq", cost=da * da + 1))
        if w <= 16 or full:
            for ca, da, db in ((2, 1, 1), (3, 2, 1)):
                if ca > maxc:
                    continue
                out.append(Wj("O_MULT", ca, da, ca, db, None, "bn_mult with the compiler's double-width multiply: bn*n == sum of digit products", suffix="-cc", cost=6))
            out.append(Wj("O_MULT", 2, 1, None, 0, {"ALIAS": None, "SQUARE_FN": None}, "bn_square with the compiler's double-width multiply", suffix="-cc-sq"))
    return out


# ------------------------------------------------------------------ layer 4: bn_div, iterative algorithms (8-bit digits)
def loops(n, *fns):
    return ["%s.%d:%d" % (f, i, n) for f in fns for i in range(0, 32)]


def helper_uw(maxd):
    n = maxd + 1
    return ["bn_make.0:%d" % n, "v_value.0:%d" % n, "spec_digits.0:5", "spec_set.0:5",
            "v_memmove.0:%d" % n, "v_memmove.1:%d" % n, "v_memcpy.0:%d" % n,
            "bn_init_digits__int.0:%d" % n, "bn_digits_calc_digits.0:%d" % n]      # zero fill up to the capacity (bn_sub of two zeros now widens to count)


def div_jobs(tier):
    out = []
    full = (tier == "thorough")
    base = cfg(8, 1)
    def Dj(ca, da, cb, db, cr, mode=None, cost=1, tmo=None, cc=1, nm=""):
        d = dict(cfg(8, cc), CA=ca, DA=da, CB=cb, DB=db, CR=cr)
        if mode:
            d[mode] = None
        n = max(da - db + 3, 4)
        us = loops(n, "bn_div") + helper_uw(4) + ["v_memset.0:5", "harness.0:5", "harness.1:5"]
        if not cc:
            us += loops(19, "bn_digit_div__int_short")
        j = J("div-%s%d%d-%d%d-r%d%s" % (tag(8, cc), ca, da, cb, db, cr, ("-" + mode.lower()) if mode else ""), "div.c", d, max(ca, cb) + 1,
              "8-bit digits, dividend capacity %d / %d digits, divisor capacity %d / %d digits, remainder capacity %d%s; all digit values incl. stale digits"
              % (ca, da, cb, db, cr, {"REM_IS_BN": ", remainder aliases the dividend", "REM_NULL": ", no remainder", "D_IS_BN": ", divisor is the dividend object",
                                      "USE_BN_MOD": ", through bn_mod", "NORM_OVF": ", only inputs whose normalisation overflows the dividend capacity", None: ""}[mode]),
              ("bn_div: EINVAL for zero divisor; n == q*d + r, r < d; EOVERFLOW only when normalisation / remainder does not fit" if not mode else
               "bn_div on a completely filled dividend whose normalisation would lose bits: EOVERFLOW, never success" if mode == "NORM_OVF" else
               "bn_div aliased/partial form == plain call (which is decided against n == q*d + r)"), unwindset=us, cost=cost)
        if tmo:
            j["timeout"] = tmo
        return j
    # trivial paths (no long division): zero divisor, n < d, n == d object
    out.append(Dj(2, 1, 2, 0, 2))
    out.append(Dj(2, 1, 2, 2, 2))
    out.append(Dj(3, 2, 3, 3, 1, cost=2))          # n < d, remainder (= n) does not fit its destination -> EOVERFLOW
    out.append(Dj(1, 1, 1, 1, 1, "D_IS_BN", cost=30))
    # dividend fills its capacity and normalisation would shift bits out: must be refused (cheap: the early return is forced)
    out.append(Dj(1, 1, 1, 1, 1, "NORM_OVF", cost=20))
    out.append(Dj(2, 2, 2, 1, 2, "NORM_OVF", cost=40))
    out.append(Dj(2, 2, 2, 2, 2, "NORM_OVF", cost=40))
    # long division
    out.append(Dj(1, 1, 1, 1, 1, cost=100, tmo=600))
    if full:
        out.append(Dj(1, 1, 1, 1, 1, cc=0, cost=100, tmo=1500))
        out.append(Dj(1, 1, 1, 1, 1, "REM_IS_BN", cost=100, tmo=1500))
        out.append(Dj(1, 1, 1, 1, 1, "REM_NULL", cost=100, tmo=1500))
        out.append(Dj(1, 1, 1, 1, 1, "USE_BN_MOD", cost=100, tmo=1500))
        out.append(Dj(2, 2, 2, 1, 2, cost=400, tmo=1500))      # measured 371 s
        out.append(Dj(2, 2, 2, 2, 2, cost=400, tmo=1500))      # measured 370 s
    return out


def algo_jobs(tier):
    out = []
    full = (tier == "thorough")
    ST = {"STUB_bn_div": None, "STUB_bn_mult": None}
    def Aj(name, op, defs, fnloops, shape, desc, bitlen=32, cost=20, tmo=None, kf=None, stubs=True, nset=64, extra_uw=None):
        d = {"BN_DIGIT_BIT_CNT": 8, "BN_BIT_LEN": bitlen, "BN_CC_MULL_DIV": None, "GCD_ITER": 1}
        d[op] = None
        d.update(defs)
        if stubs:
            d.update(ST)
        for k in (kf or []):
            d.update(KF[k])
        us = []
        for n, fns in fnloops:
            us += loops(n, *fns)
        us += helper_uw(bitlen // 8) + ["v_memset.0:%d" % (nset + 1)] + (extra_uw or [])
        j = J("algo-" + name, "algo.c", d, defs.get("CA", 2) + 1, "8-bit digits, " + shape, desc +
              ("; bn_div/bn_mult replaced by their contracts" if stubs else ""), unwindset=us, cost=cost)
        j["timeout"] = tmo or (300 if not full else 1500)
        return j
    # integer square root (real code throughout; bn_sqrt5 squares through the bn_mult contract)
    for fn, extra, st, cst in (("bn_sqrt1", {"SQRT_ERR_TOPBIT": None}, False, 70), ("bn_sqrt2", {"SQRT_ERR_TOPBIT": None}, False, 280),
                               ("bn_sqrt3", {"SQRT_ERR_TOPBIT": None}, False, 30), ("bn_sqrt5", {}, True, 45)):
        if not full and fn != "bn_sqrt1":
            continue
        out.append(Aj("sqrt-%s-c2d1" % fn, "A_SQRT", dict({"SQRTFN": fn, "CA": 2, "DA": 1}, **extra), [(7, (fn,))],
                      "capacity 2 digits, values 1..255 (one significant digit)", "%s: s*s <= x < (s+1)^2, or EOVERFLOW" % fn,
                      kf=(["sqrt"] if fn in ("bn_sqrt1", "bn_sqrt2") else None), stubs=st, cost=cst))
    # gcd
    if full:
        out.append(Aj("gcd-c2d1", "A_GCD", {"GCDFN": "bn_gcd", "CA": 2, "DA": 1, "DB": 1, "GCD_ITER": 13}, [(14, ("bn_gcd", "o_gcd"))],
                      "capacity 2 digits, both operands 1..255", "bn_gcd == Euclid on native integers", cost=80))
        out.append(Aj("gcdbin-c2d1-v31", "A_GCD", {"GCDFN": "bn_gcd_bin", "CA": 2, "DA": 1, "DB": 1, "GCD_ITER": 8, "VMAX": 31},
                      [(9, ("o_gcd",)), (11, ("bn_gcd_bin",))], "capacity 2 digits, both operands 1..31", "bn_gcd_bin == Euclid on native integers",
                      stubs=False, cost=230))
    out.append(Aj("gcd-c2-zero", "A_GCD", {"GCDFN": "bn_gcd", "CA": 2, "DA": 0, "DB": 1}, [(3, ("bn_gcd", "o_gcd"))],
                  "capacity 2 digits, first operand zero", "bn_gcd(0, b) == b", cost=1))
    # modular layer, one-digit operands in a 3-digit capacity (product fits), and full-capacity add/sub
    names = {1: "add", 2: "sub", 3: "mult", 4: "square", 5: "multdigit", 6: "reduce", 7: "expdigit", 8: "exp"}
    for mop in (1, 2, 3, 4, 5, 6):
        out.append(Aj("mod%s-c3d1" % names[mop], "A_MODOP", {"MOP": mop, "CA": 3, "DA": 1, "DB": 1, "DM": 1}, [],
                      "capacity 3 digits, bn, n, m one significant digit each (all values)", "bn_mod_%s == the operation on native integers, or EOVERFLOW" % names[mop],
                      kf={1: ["mod_add"], 5: ["mult_digit"]}.get(mop), cost={5: 35}.get(mop, 8)))
    # exponent numerically zero (digits == 0) with symbolic stale storage: result 1
    out.append(Aj("modexp-c3d1-e0-stale", "A_MODOP", {"MOP": 8, "EMAX": 0, "CA": 3, "DA": 1, "DB": 0, "DM": 1}, [(4, ("bn_mod_exp",)), (2, ("harness",))],
                  "capacity 3 digits, base and modulus one digit (all values, m >= 2), exponent = 0 with symbolic stale digits",
                  "bn_mod_exp(bn, 0, m) == 1 independent of the exponent's stale num[]", cost=5))
    out.append(Aj("modexp-c3d0-e0-stale", "A_MODOP", {"MOP": 8, "EMAX": 0, "CA": 3, "DA": 0, "DB": 0, "DM": 1}, [(4, ("bn_mod_exp",)), (2, ("harness",))],
                  "capacity 3 digits, base zero, exponent = 0, both with symbolic stale digits", "bn_mod_exp(0, 0, m) == 1 (x^0 = 1 as the code documents)", cost=2))
    for mop in (1, 2):
        out.append(Aj("mod%s-c1d1-fullcap" % names[mop], "A_MODOP", {"MOP": mop, "CA": 1, "DA": 1, "DB": 1, "DM": 1}, [],
                      "capacity 1 digit fully used", "bn_mod_%s at full capacity" % names[mop], kf={1: ["mod_add"]}.get(mop), cost=3))
    if full:
        for mop, fn in ((7, "bn_mod_exp_digit"), (8, "bn_mod_exp")):
            out.append(Aj("mod%s-c3d1-e15" % names[mop], "A_MODOP", {"MOP": mop, "EMAX": 15, "CA": 3, "DA": 1, "DB": 1, "DM": 1},
                          [(6, (fn,)), (16, ("harness",))], "capacity 3 digits, base and modulus one digit (all values, m >= 2), exponent 0..15",
                          "%s == repeated native multiplication mod m" % fn, cost=40))
        # inverses: odd prime modulus
        out.append(Aj("inv1-m13", "A_INV", {"INVFN": "bn_mod_inv1", "MMAX": 13, "CA": 2, "DA": 1, "DM": 1}, [(7, ("bn_mod_inv1",)), (54, ("harness",))],
                      "capacity 2 digits, modulus an odd prime <= 13, argument one digit", "bn_mod_inv1: EINVAL for 0 / unreduced, else x * bn == 1 (mod m)", bitlen=64, cost=230))
        out.append(Aj("inv2-m13", "A_INV", {"INVFN": "bn_mod_inv2", "MMAX": 13, "CA": 2, "DA": 1, "DM": 1}, [(7, ("bn_mod_inv2",)), (54, ("harness",))],
                      "capacity 2 digits, modulus an odd prime <= 13, argument one digit", "bn_mod_inv2: EINVAL for 0 / unreduced, else x * bn == 1 (mod m)", bitlen=64, cost=330))
        out.append(Aj("invbin-m13", "A_INV", {"INVFN": "bn_mod_inv_bin", "MMAX": 13, "MFIX": 13, "CA": 2, "DA": 1, "DM": 1}, [(54, ("harness",))],
                      "capacity 2 digits, modulus 13, argument one digit (all values)", "bn_mod_inv_bin (= bn_mod_inv): EINVAL for 0 / unreduced, else x * bn == 1 (mod 13)",
                      bitlen=64, cost=380, extra_uw=["bn_mod_inv_bin.8:5", "bn_mod_inv_bin.10:5", "bn_mod_inv_bin.15:7"]))
        out.append(Aj("legendre-m31", "A_LEGENDRE", {"MMAX": 31, "CA": 3, "DA": 1, "DM": 1}, [(6, ("bn_mod_exp",)), (54, ("harness",))],
                      "capacity 3 digits, modulus an odd prime <= 31, argument one digit", "bn_mod_legendre == Legendre symbol by exhaustive squares", bitlen=64, cost=250))
        for mfix in (7, 13):
            out.append(Aj("modsqrt-m%d" % mfix, "A_MODSQRT", {"MMAX": mfix, "MFIX": mfix, "CA": 3, "DA": 1, "DM": 1},
                          [(5, ("bn_mod_exp", "bn_mod_sqrt")), (54, ("harness",))], "capacity 3 digits, modulus %d, argument one digit (all values)" % mfix,
                          "bn_mod_sqrt: root^2 == bn (mod m), or -1 exactly for non-residues", bitlen=64, cost=40 if mfix == 7 else 175))
    else:
        out.append(Aj("modsqrt-m7", "A_MODSQRT", {"MMAX": 7, "MFIX": 7, "CA": 3, "DA": 1, "DM": 1},
                      [(5, ("bn_mod_exp", "bn_mod_sqrt")), (54, ("harness",))], "capacity 3 digits, modulus 7, argument one digit (all values)",
                      "bn_mod_sqrt: root^2 == bn (mod m), or -1 exactly for non-residues", bitlen=64, cost=40))
    # recoding
    out.append(Aj("naf-w4-c2d1", "A_NAF", {"WND": 4, "NAFSZ": 9, "CA": 2, "DA": 1}, [(10, ("bn_calc_naf", "harness"))],
                  "capacity 2 digits, values 1..255, window 4, array of 9", "bn_calc_naf: digits odd, |d| < 2^(w-1), non-adjacent, sum == value, bounds", stubs=False, kf=["naf"], cost=80))
    out.append(Aj("naf-w4-c2d1-short", "A_NAF", {"WND": 4, "NAFSZ": 5, "CA": 2, "DA": 1}, [(10, ("bn_calc_naf", "harness"))],
                  "capacity 2 digits, values 1..255, window 4, array of 5", "bn_calc_naf: EOVERFLOW when the array is shorter than bits+1, else exact", stubs=False, kf=["naf"], cost=40))
    if full:
        out.append(Aj("naf-w2-c2d2", "A_NAF", {"WND": 2, "NAFSZ": 17, "CA": 2, "DA": 2}, [(18, ("bn_calc_naf", "harness"))],
                      "capacity 2 digits fully used, window 2, array of 17", "bn_calc_naf (w=2)", stubs=False, kf=["naf"], cost=270))
        out.append(Aj("naf-w3-c1d1", "A_NAF", {"WND": 3, "NAFSZ": 9, "CA": 1, "DA": 1}, [(10, ("bn_calc_naf", "harness"))],
                      "capacity 1 digit fully used, window 3, array of 9", "bn_calc_naf (w=3)", stubs=False, kf=["naf"], cost=80))
        out.append(Aj("jsf-c2d1", "A_JSF", {"NAFSZ": 18, "CA": 2, "DA": 1, "DB": 1}, [(11, ("bn_calc_jsf", "harness"))],
                      "capacity 2 digits, both operands 1..255, array of 18", "bn_calc_jsf: digits in {-1,0,1}, both rows denote their operand, bounds", stubs=False, cost=120))
    if not KF["jsf"]:   # zero operands (stale num[0] of the working copy symbolic / uninitialised), exactly sized array
        for da, db in ((0, 1), (1, 0), (0, 0)):
            out.append(Aj("jsf-c2d%d-d%d-zero" % (da, db), "A_JSF", {"NAFSZ": 18 if (da or db) else 2, "CA": 2, "DA": da, "DB": db}, [(11, ("bn_calc_jsf", "harness"))],
                          "capacity 2 digits, operand digits %d and %d (zero operand with symbolic stale storage), exactly sized array" % (da, db),
                          "bn_calc_jsf with a zero operand: digits in {-1,0,1}, both rows denote their operand, no write outside the array", stubs=False, kf=["jsf"], cost=60))
    out.append(Aj("combo-c3d2", "A_COMBO", {"CA": 3, "DA": 2}, [(6, ("bn_combo_column_get", "harness"))],
                  "capacity 3 digits, 2 significant, window 1..4 x count 1..4, offset < 40", "bn_combo_column_get == selected bit column, stale digits not read", stubs=False, cost=4))
    return out


def _jobs_all(tier):
    out = digit_jobs(tier) + kern_jobs(tier) + impexp_jobs(tier) + wrap_jobs(tier) + div_jobs(tier) + algo_jobs(tier)
    for j in out:
        if tier == "quick":     # slowest quick job measured unloaded: 73 s; the box is shared, leave head room
            j["timeout"] = max(j.get("timeout", 0), 400)
    return out


# No verdict in 1500 s in the full thorough run of this session (12 jobs in parallel) [measured]: withdrawn, the shapes are
# stated as outside (64-bit real products / 15-bit exponents with the real multiply).
WITHDRAWN = {"dig-mult-w64pt-gt", "dig-mult-w64pt-le", "algo-modexpdigit-c3d1-e15", "algo-modexp-c3d1-e15",
             "wrap-mult-cc-w64cc-c2d1-c2d1", "kern-muld-cc-w32cc-a4b1", "kern-muld-cc-w64cc-a1b1"}


def jobs(tier):
    return [j for j in _jobs_all(tier) if j["name"] not in WITHDRAWN]
