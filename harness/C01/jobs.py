import os
SOLVER = os.environ.get("C01_SOLVER", "cadical")

META = {"bounds": "", "outside": "", "assumptions": [], "harness_functions": []}

def cfg(w, cc):
    d = {"BN_DIGIT_BIT_CNT": w, "BN_BIT_LEN": 4 * w}
    if cc:
        d["BN_CC_MULL_DIV"] = None
    return d

def cfgname(w, cc):
    return "w%d%s" % (w, "cc" if cc else "pt")

def digit_jobs(tier):
    out = []
    for w in (8, 16, 32, 64):
        for cc in (1, 0):
            base = cfg(w, cc)
            tag = cfgname(w, cc)
            if cc:  # bit primitives and gcd do not depend on BN_CC_MULL_DIV
                out.append({"name": "dig-bits-%s" % tag, "src": "digit.c", "defs": dict(base, OP_BITS=None), "unwind": w + 2,
                            "solver": "cadical", "shape": "digit width %d, all digit values" % w,
                            "desc": "bn_digit_bits/ctz/clz/ffs/is_pow2/is_even/is_odd == bit-loop reference"})
            slv = SOLVER if w <= 16 else "cvc5"
            out.append({"name": "dig-mult-%s" % tag, "src": "digit.c", "defs": dict(base, OP_MULT=None), "unwind": w + 2,
                        "solver": slv, "shape": "digit width %d, %s multiply, all a,b" % (w, "compiler" if cc else "portable"),
                        "desc": "bn_digit_mult__int(a,b) == (hi,lo) of the native double-width product"})
            out.append({"name": "dig-div-%s" % tag, "src": "digit.c", "defs": dict(base, OP_DIV=None), "unwind": 2 * w + 3,
                        "solver": slv, "shape": "digit width %d, %s divide, all lo,hi,d" % (w, "compiler" if cc else "portable"),
                        "desc": "bn_digit_div__int: EINVAL for d=0, else hi:lo == q*d+r, r<d, remainder_hi == 0"})
            out.append({"name": "dig-divshort-%s" % tag, "src": "digit.c", "defs": dict(base, OP_DIVSHORT=None), "unwind": 2 * w + 3,
                        "solver": slv, "shape": "digit width %d, %s divide, all lo,hi,d" % (w, "compiler" if cc else "portable"),
                        "desc": "bn_digit_div__int_short == low quotient digit (direct for hi<d, via bn_digit_div__int otherwise)"})
    return out

def jobs(tier):
    return digit_jobs(tier)
