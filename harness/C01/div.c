/* C01 layer 4a: bn_div (Knuth-D style) and bn_mod on small shapes, real digit multiply/divide.
 * Shape (concrete): CA/DA = capacity/digits of the dividend bn, CB/DB = divisor d, CR = capacity of the remainder.
 * Aliasing (concrete): REM_IS_BN (remainder == bn, as bn_mod/bn_gcd call it), REM_NULL, D_IS_BN (bn == d).
 * Oracle: n == q*d + r and r < d in native arithmetic (q*d <= n cannot overflow once q <= n is known). */
#ifndef VDIG
#define VDIG ((CA) > (CB) ? (CA) : (CB))
#endif
#include "bn_common.h"
#if 2 * VDIG * W > VAL_BITS
#error "q*d must fit the oracle type"
#endif
#if defined(REM_IS_BN) || defined(REM_NULL) || defined(USE_BN_MOD) || defined(D_IS_BN) || (CR < DB)
/* aliased / partial forms are compared with a plain reference call bn_div(copy of n, copy of d, separate 4-digit remainder),
 * which is itself decided against n == q*d + r by the plain jobs of the same shape */
#define REFRUN 1
#endif

struct in_s { struct sbn a, b, r; };
#include "verif_in.h"

void harness(void) {
	V_BEGIN();
	bn_t a, b, rem;
	bn_make(&a, &IN.a, CA, DA);
	bn_make(&b, &IN.b, CB, DB);
	bn_make(&rem, &IN.r, CR, 0);
	for (size_t i = 0; i < MAXD; i++) rem.num[i] = IN.r.num[i];
	const val_t vn = bn_value(&a);
#ifdef D_IS_BN
	bn_p dp = &a;
	const val_t vd = vn;
#else
	bn_p dp = &b;
	const val_t vd = bn_value(&b);
#endif
#if defined(REM_IS_BN)
	bn_p rp = &a;
#elif defined(REM_NULL)
	bn_p rp = NULL;
#else
	bn_p rp = &rem;
#endif
#ifdef REFRUN
	bn_t a2, b2, rem2;
	bn_make(&a2, &IN.a, CA, DA);
	bn_make(&b2, &IN.b, CB, DB);
#ifdef D_IS_BN
	bn_make(&b2, &IN.a, CA, DA);
#endif
	rem2.count = MAXD; rem2.digits = 0;
	int r2 = bn_div(&a2, &b2, &rem2);
	const val_t q2 = bn_value(&a2), rm2 = bn_value(&rem2);
#endif
#ifdef NORM_OVF	/* only inputs whose normalisation would shift bits out of the dividend's capacity (dividend fills all its digits,
		 * divisor's top digit has more leading zeros): the call must fail loudly, never "succeed" */
#if !(DA == CA && DB > 0)
#error "NORM_OVF needs a dividend at full capacity"
#endif
	V_ASSUME(vn > vd && bn_digit_clz(IN.b.num[DB - 1]) > bn_digit_clz(IN.a.num[DA - 1]));
#endif
#ifdef USE_BN_MOD
	int r = bn_mod(&a, dp, NULL);
#else
	int r = bn_div(&a, dp, rp);
#endif
	if (vd == 0) {
		V_ASSERT(r == EINVAL, "bn_div: division by zero is refused with EINVAL");
		V_WITNESS("div: by zero");
		return;
	}
	if (r != 0) {
		/* the only loud failures allowed: normalisation does not fit (dividend at full capacity and the divisor's top
		 * digit has more leading zeros than the dividend's), or the remainder does not fit its destination */
		V_ASSERT(r == EOVERFLOW, "bn_div: the only error for a non-zero divisor is EOVERFLOW");
#if DA > 0 && DB > 0
		int norm = (DA == CA) && vn > vd && bn_digit_clz(IN.b.num[DB - 1]) > bn_digit_clz(IN.a.num[DA - 1]);
#else
		int norm = 0;
#endif
#if defined(REM_IS_BN) || defined(REM_NULL) || defined(USE_BN_MOD)
		V_ASSERT(norm, "bn_div: EOVERFLOW only when the normalised dividend does not fit its capacity");
#else
#if CR < DB
		V_ASSERT(norm || (r2 == 0 && rem2.digits > CR), "bn_div: EOVERFLOW only when normalisation or the remainder does not fit");
#else
		V_ASSERT(norm, "bn_div: EOVERFLOW only when the normalised dividend does not fit its capacity");
#endif
#endif
#ifdef NORM_OVF
		V_WITNESS_MUST("div: normalisation overflow reported as EOVERFLOW");
#endif
		V_WITNESS("div: overflow error");
		return;
	}
#ifdef NORM_OVF
	V_ASSERT(0, "bn_div: dividend at full capacity whose normalisation loses bits must not report success");
#endif
#if defined(REM_IS_BN) || defined(USE_BN_MOD)
	/* bn receives the remainder */
	val_t vr = bn_value(&a);
	V_ASSERT(bn_repr_ok(&a) && a.count == CA, "bn_mod: representation invariant");
	V_ASSERT(vr < vd, "bn_mod: result < modulus");
	V_ASSERT(r2 == 0 && vr == rm2, "bn_mod / bn_div(bn, d, bn): result == remainder of the plain call");
	if (vn >= vd) V_WITNESS("mod: reduction performed");
	V_WITNESS("mod: success");
#else
	val_t vq = bn_value(&a);
	V_ASSERT(bn_repr_ok(&a) && a.count == CA, "bn_div: quotient representation invariant");
	V_ASSERT(vq <= vn, "bn_div: quotient <= dividend");
#ifdef REM_NULL
	V_ASSERT(r2 == 0 && vq == q2, "bn_div (no remainder requested): quotient == quotient of the plain call");
#else
	val_t vr = bn_value(&rem);
	V_ASSERT(bn_repr_ok(&rem) && rem.count == CR, "bn_div: remainder representation invariant");
	V_ASSERT(vr < vd, "bn_div: remainder < divisor");
#ifdef REFRUN
	V_ASSERT(r2 == 0 && vq == q2 && vr == rm2, "bn_div: quotient and remainder == those of the plain call");
#else
	if (vq <= vn) V_ASSERT(vq * vd + vr == vn, "bn_div: n == q*d + r");
#endif
#endif
#ifndef D_IS_BN
	V_ASSERT(bn_value(&b) == vd && b.digits == DB, "bn_div: divisor unchanged");
#endif
	if (vn > vd) V_WITNESS("div: long division performed");
	V_WITNESS("div: success");
#endif
}
