/* C01 layer 3: bn_* wrappers. Shape (concrete): CA/DA = count/digits of bn, CB/DB = count/digits of n,
 * ALIAS = n is the same object as bn. Symbolic: all digits, the stale storage above `digits`, digit/bit arguments.
 * After every call: representation invariant + exact value (or the documented error). One O_* macro selects. */
#ifndef CB
#define CB CA
#endif
#ifndef DB
#define DB 0
#endif
#ifndef VDIG
#define VDIG ((CA) > (CB) ? (CA) : (CB))
#endif
#include <stddef.h>
#include "bn_common.h"
#include "uf_mult.h"

struct in_s { struct sbn a, b; bn_digit_t d; uint16_t bits; uint8_t flag; };
#include "verif_in.h"

#define CAPA	((size_t)(CA) * W)

/* stale storage must not matter: digits above `digits` that the operation did not need to touch are unconstrained,
 * so any influence on the result falsifies the value assertion for some assignment. */

void harness(void) {
	V_BEGIN();
	bn_t a, b;
	bn_make(&a, &IN.a, CA, DA);
	bn_make(&b, &IN.b, CB, DB);
#ifdef ALIAS
	bn_p n = &a;
	const val_t vb = bn_value(&a);
#else
	bn_p n = &b;
	const val_t vb = bn_value(&b);
#endif
	const val_t va = bn_value(&a);
	bn_digit_t d = IN.d, c = 0x5a, oc = 0;
	size_t bits = IN.bits;
	val_t exp = 0;
	int r = 0;
	(void)n; (void)vb; (void)d; (void)c; (void)oc; (void)bits; (void)exp; (void)r;

#if defined(O_INIT)
	bn_t x;
	x.count = 77; x.digits = 77;
	r = bn_init(&x, bits);
	if (bits == 0 || bits > BN_BIT_LEN) {
		V_ASSERT(r == EINVAL, "bn_init: zero or too many bits is refused with EINVAL");
		V_WITNESS("init: refused");
	} else {
		V_ASSERT(r == 0 && x.digits == 0 && x.count == (bits + W - 1) / W, "bn_init: count == ceil(bits / W), value zero");
		V_WITNESS("init: ok");
	}
	V_ASSERT(bn_init(NULL, bits) == EINVAL, "bn_init(NULL) is refused");

#elif defined(O_ADD)	/* bn_add(bn, n, carry | NULL) */
#ifdef NOCARRY
	r = bn_add(&a, n, NULL);
#else
	r = bn_add(&a, n, &c);
#endif
#if DB > CA
	V_ASSERT(r == EOVERFLOW, "bn_add: addend with more digits than the capacity is refused with EOVERFLOW");
	V_WITNESS("add: overflow error");
#else
	exp = o_add(va, vb, CAPA, &oc);
	V_ASSERT(r == 0, "bn_add succeeds");
	V_ASSERT(bn_repr_ok(&a) && a.count == CA, "bn_add: representation invariant");
	V_ASSERT(bn_value(&a) == exp, "bn_add: value == (bn + n) mod 2^capacity");
#ifndef NOCARRY
	V_ASSERT(c == oc, "bn_add: carry == (bn + n) div 2^capacity");
#endif
	if (oc) V_WITNESS("add: carry out of the capacity");
	V_WITNESS("add: success");
#endif

#elif defined(O_SUB)	/* bn_sub(bn, n, borrow | NULL) */
#ifdef NOCARRY
	r = bn_sub(&a, n, NULL);
#else
	r = bn_sub(&a, n, &c);
#endif
#if DB > CA
	V_ASSERT(r == EOVERFLOW, "bn_sub: subtrahend with more digits than the capacity is refused with EOVERFLOW");
	V_WITNESS("sub: overflow error");
#else
	exp = o_sub(va, vb, CAPA, &oc);
	V_ASSERT(r == 0, "bn_sub succeeds");
	V_ASSERT(bn_repr_ok(&a) && a.count == CA, "bn_sub: representation invariant");
	V_ASSERT(bn_value(&a) == exp, "bn_sub: value == (bn - n) mod 2^capacity");
#ifndef NOCARRY
	V_ASSERT(c == oc, "bn_sub: borrow == (bn < n)");
#endif
	if (oc) V_WITNESS("sub: borrow (wrap around)");
	V_WITNESS("sub: success");
#endif

#elif defined(O_ADDD)	/* bn_add_digit(bn, d, carry) */
#ifdef KF_ADDSUB_DIGIT_ZERO_CARRY	/* known finding: d == 0 returns before the carry/borrow out-parameter is written */
	V_ASSUME(d != 0);
#endif
	bn_add_digit(&a, d, &c);
	exp = o_add(va, (val_t)d, CAPA, &oc);
	V_ASSERT(bn_repr_ok(&a) && a.count == CA, "bn_add_digit: representation invariant");
	V_ASSERT(bn_value(&a) == exp, "bn_add_digit: value == (bn + d) mod 2^capacity");
	V_ASSERT(c == oc, "bn_add_digit: carry written and exact");
	if (oc) V_WITNESS("add_digit: carry out");
	V_WITNESS("add_digit");

#elif defined(O_DIGIT_EXACT)	/* bn_add_digit (SUBOP 0) / bn_sub_digit (SUBOP 1): besides value and carry, nothing may be written at or above
				 * num[count]: those digits hold symbolic canaries (a truncated object cannot be used: CBMC checks the whole
				 * `num` member against the object size); for count == BN_MAX_DIGITS the struct itself ends there */
#ifdef ALL_ONES	/* completely full: every digit of the capacity is all ones */
	for (size_t i = 0; i < CA; i++) V_ASSUME(a.num[i] == BN_MAX_DIGIT);
#endif
#if SUBOP == 0
	bn_add_digit(&a, d, &c);
	exp = o_add(va, (val_t)d, CAPA, &oc);
#else
	bn_sub_digit(&a, d, &c);
	exp = o_sub(va, (val_t)d, CAPA, &oc);
#endif
	V_ASSERT(bn_repr_ok(&a) && a.count == CA, "bn_add/sub_digit: representation invariant");
	V_ASSERT(bn_value(&a) == exp, "bn_add/sub_digit: value == (bn +- d) mod 2^capacity");
	V_ASSERT(c == oc, "bn_add/sub_digit: carry/borrow written and exact");
	for (size_t i = CA; i < MAXD; i++) V_ASSERT(a.num[i] == IN.a.num[i], "bn_add/sub_digit: nothing written at or above num[count]");
#if DA == CA && SUBOP == 0
	if (oc) V_WITNESS_MUST("add_digit at full capacity: carry out reported");
#endif
#if defined(ALL_ONES) && SUBOP == 0
	V_ASSERT(d == 0 || (oc == 1 && exp == (val_t)d - 1), "all-ones + d: carry 1, value d-1");
#endif
	V_WITNESS("add/sub_digit with canaries above the capacity");

#elif defined(O_SUBD)
#ifdef KF_ADDSUB_DIGIT_ZERO_CARRY
	V_ASSUME(d != 0);
#endif
	bn_sub_digit(&a, d, &c);
	exp = o_sub(va, (val_t)d, CAPA, &oc);
	V_ASSERT(bn_repr_ok(&a) && a.count == CA, "bn_sub_digit: representation invariant");
	V_ASSERT(bn_value(&a) == exp, "bn_sub_digit: value == (bn - d) mod 2^capacity");
	V_ASSERT(c == oc, "bn_sub_digit: borrow written and exact");
	if (oc) V_WITNESS("sub_digit: borrow");
	V_WITNESS("sub_digit");

#elif defined(O_MULT)	/* bn_mult(bn, n); ALIAS = square */
#ifdef SQUARE_FN
	r = bn_square(&a);
#else
	r = bn_mult(&a, n);
#endif
#if DA == 0 || (DB == 0 && !defined(ALIAS))
	V_ASSERT(r == 0 && a.digits == 0 && a.count == CA, "bn_mult: zero operand gives zero");
	V_WITNESS("mult: zero operand");
#else
#ifdef ALIAS
#define DBX DA
#else
#define DBX DB
#endif
#if (DA + DBX) > CA
	V_ASSERT(r == EOVERFLOW, "bn_mult: digits(bn)+digits(n) > capacity is refused with EOVERFLOW");
	V_WITNESS("mult: overflow error");
#else
	/* partial-product oracle in the operand order of the code: multiplicand = larger operand (bn when equal objects);
	 * digit product = native double width, or the uninterpreted function (uf_mult.h); multiplier digit 1 -> plain add */
	const struct sbn *mc, *mp; size_t nmc, nmp;
#ifdef ALIAS
	mc = &IN.a; nmc = DA; mp = &IN.a; nmp = DA;
#else
	if (va > vb) { mc = &IN.a; nmc = DA; mp = &IN.b; nmp = DB; } else { mc = &IN.b; nmc = DB; mp = &IN.a; nmp = DA; }
#endif
	exp = 0;
	for (size_t j = 0; j < nmp; j++) {
		bn_digit_t m = mp->num[j];
		if (m == 0) continue;
		for (size_t i = 0; i < nmc; i++) {
			dd_t t = (m == 1) ? (dd_t)mc->num[i] : o_dmul(m, mc->num[i]);
			exp += ((val_t)t) << ((i + j) * W);	/* (i+j+2) digits <= DA+DB <= CA: fits val_t */
		}
	}
	V_ASSERT(r == 0, "bn_mult succeeds when digits(bn)+digits(n) <= capacity");
	V_ASSERT(bn_repr_ok(&a) && a.count == CA, "bn_mult: representation invariant");
	V_ASSERT(bn_value(&a) == exp, "bn_mult: value == bn * n (sum of digit products)");
#ifndef ALIAS
	V_ASSERT(bn_value(&b) == vb && b.digits == DB, "bn_mult: n unchanged");
#endif
	V_WITNESS("mult: success");
#endif
#endif

#elif defined(O_MULD)	/* bn_mult_digit(bn, d) */
#ifdef DVAL
	V_ASSUME(d == (DVAL));
#endif
#ifdef KF_MULT_DIGIT_23_CARRY	/* known finding: multiplier 2 or 3 drops the carry out of the capacity */
	if (d == 2) V_ASSUME(((va << 1) & v_mask(CAPA)) == (va << 1) && (CAPA < VAL_BITS || (va >> (VAL_BITS - 1)) == 0));
	if (d == 3) V_ASSUME(((va * 3) & v_mask(CAPA)) == va * 3 && (CAPA < VAL_BITS || va <= (~(val_t)0) / 3));
#endif
	r = bn_mult_digit(&a, d);
	if (r != 0) {
		V_ASSERT(r == EOVERFLOW, "bn_mult_digit: the only error is EOVERFLOW");
		V_ASSERT(DA >= CA && d >= 2, "bn_mult_digit: EOVERFLOW only at full capacity with a multiplier >= 2");
		V_WITNESS("mult_digit: overflow error");
		return;
	}
	V_ASSERT(bn_repr_ok(&a) && a.count == CA, "bn_mult_digit: representation invariant");
	{	/* exact product digit by digit (carry chain in double width); the digit product is native on the paths where the
		 * code does not call the digit multiply (0,1,2,3: adds; 2^k: shift), else native or uninterpreted (uf_mult.h) */
		int native = (d <= 3 || (d & (d - 1)) == 0);
		val_t acc = 0; dd_t carry = 0;
		for (size_t i = 0; i < CA; i++) {
			bn_digit_t x = (bn_digit_t)(va >> (i * W));
			dd_t t = (native ? (dd_t)x * (dd_t)d : o_dmul(d, x)) + carry;	/* <= (B-1)^2 + B-1: no overflow */
			acc |= ((val_t)(bn_digit_t)t) << (i * W);
			carry = t >> W;
		}
		V_ASSERT(carry == 0, "bn_mult_digit: success only when bn*d fits the capacity (no silent carry loss)");
		V_ASSERT(bn_value(&a) == acc, "bn_mult_digit: value == bn * d");
	}
	if (d == 2 || d == 3) V_WITNESS("mult_digit: add-based path (2, 3)");
	if (d > 3 && (d & (d - 1)) == 0) V_WITNESS("mult_digit: shift path");
	V_WITNESS("mult_digit: success");

#elif defined(O_LSH)	/* bn_l_shift(bn, bits): (bn << bits) mod 2^capacity */
	V_ASSUME(bits <= MAXBITS);
#ifdef KF_SHIFT_BEYOND	/* known finding: shift count >= capacity + 8 bits: memmove length underflows */
	V_ASSUME(bits < CAPA + 8);
#endif
	bn_l_shift(&a, bits);
	exp = (bits >= CAPA) ? 0 : ((va << bits) & v_mask(CAPA));
	V_ASSERT(bn_repr_ok(&a) && a.count == CA, "bn_l_shift: representation invariant");
	V_ASSERT(bn_value(&a) == exp, "bn_l_shift: value == (bn << bits) mod 2^capacity");
	if (bits >= CAPA) V_WITNESS("l_shift: everything shifted out");
	if (exp != 0 && (va << bits) != exp) V_WITNESS("l_shift: high bits dropped");
	V_WITNESS("l_shift");

#elif defined(O_RSH)
	V_ASSUME(bits <= MAXBITS);
#ifdef KF_SHIFT_BEYOND	/* known finding: shift count above the width of the significant digits: memmove length / loop bound underflow */
	V_ASSUME(bits <= (size_t)(DA) * W || DA == 0);
#endif
	bn_r_shift(&a, bits);
	exp = (bits >= CAPA) ? 0 : (va >> bits);
	V_ASSERT(bn_repr_ok(&a) && a.count == CA, "bn_r_shift: representation invariant");
	V_ASSERT(bn_value(&a) == exp, "bn_r_shift: value == bn >> bits");
	if (bits >= (size_t)(DA) * W) V_WITNESS("r_shift: everything shifted out");
	V_WITNESS("r_shift");

#elif defined(O_LOGIC)	/* bn_and / bn_or / bn_xor selected by LOP = 0,1,2 */
#if LOP == 0
#ifdef KF_AND_STALE_HIGH	/* known finding: bn has >= 2 more digits than n: old high digits survive */
#if DA > DB + 1
#error "shape excluded by KF_AND_STALE_HIGH"
#endif
#endif
	r = bn_and(&a, n);
	exp = va & vb;
#elif LOP == 1
	r = bn_or(&a, n);
	exp = va | vb;
#else
	r = bn_xor(&a, n);
	exp = va ^ vb;
#endif
#if LOP != 0 && DB > CA
	V_ASSERT(r == EOVERFLOW, "bn_or/xor: operand with more digits than the capacity is refused with EOVERFLOW");
	V_WITNESS("logic: overflow error");
#else
	V_ASSERT(r == 0, "bn_and/or/xor succeeds");
	V_ASSERT(bn_repr_ok(&a) && a.count == CA, "bn_and/or/xor: representation invariant");
	V_ASSERT(bn_value(&a) == exp, "bn_and/or/xor: value exact");
	V_WITNESS("logic: success");
#endif

#elif defined(O_BIT)	/* bn_bit_set / bn_is_bit_set / bn_assign_2exp */
	V_ASSUME(bits <= MAXBITS);
#ifdef KF_IS_BIT_SET_ZERO	/* known finding: bn_is_bit_set on a zero bn reads the stale num[0] for bit < W */
	if (DA != 0)
#endif
	V_ASSERT((bn_is_bit_set(&a, bits) != 0) == (bits < CAPA && ((va >> bits) & 1) != 0), "bn_is_bit_set == bit of the value");
	r = bn_bit_set(&a, bits, IN.flag & 1);
	if (bits >= CAPA) {
		V_ASSERT(r == EOVERFLOW, "bn_bit_set: bit outside the capacity is refused with EOVERFLOW");
		V_WITNESS("bit_set: overflow error");
	} else {
		exp = (IN.flag & 1) ? (va | (((val_t)1) << bits)) : (va & ~(((val_t)1) << bits));
		V_ASSERT(r == 0, "bn_bit_set succeeds inside the capacity");
		V_ASSERT(bn_repr_ok(&a) && a.count == CA, "bn_bit_set: representation invariant");
		V_ASSERT(bn_value(&a) == exp, "bn_bit_set: value exact");
		V_ASSERT((bn_is_bit_set(&a, bits) != 0) == ((IN.flag & 1) != 0), "bn_is_bit_set reads back the bit just written");
		V_WITNESS("bit_set: success");
	}
	bn_make(&b, &IN.b, CB, DB);
	r = bn_assign_2exp(&b, bits);
	if (bits >= (size_t)(CB) * W) {
		V_ASSERT(r == EOVERFLOW, "bn_assign_2exp: exponent outside the capacity is refused with EOVERFLOW");
	} else {
		V_ASSERT(r == 0 && bn_repr_ok(&b) && bn_value(&b) == (((val_t)1) << bits), "bn_assign_2exp: value == 2^exp");
		V_ASSERT(bn_is_pow2(&b) == 1 && bn_ctz(&b) == bits && bn_calc_bits(&b) == bits + 1, "2^exp: is_pow2, ctz, calc_bits");
	}

#elif defined(O_ASSIGN)	/* bn_assign / bn_assign_init / bn_assign_zero / bn_assign_digit */
	r = bn_assign(&a, &b);		/* a = b */
#if DB > CA
	V_ASSERT(r == EOVERFLOW, "bn_assign: source with more digits than the capacity is refused with EOVERFLOW");
	V_WITNESS("assign: overflow error");
#else
	V_ASSERT(r == 0 && bn_repr_ok(&a) && a.count == CA && bn_value(&a) == vb, "bn_assign: value copied, capacity kept");
	V_WITNESS("assign: success");
#endif
	V_ASSERT(bn_assign(&b, &b) == 0 && bn_value(&b) == vb, "bn_assign to itself is a no-op");
	bn_t x;
	x.count = 0; x.digits = 0;
	r = bn_assign_init(&x, &b);
	V_ASSERT(r == 0 && x.count == CB && bn_repr_ok(&x) && bn_value(&x) == vb, "bn_assign_init: value and capacity copied");
	bn_assign_zero(&x);
	V_ASSERT(bn_repr_ok(&x) && bn_value(&x) == 0 && bn_is_zero(&x), "bn_assign_zero: value zero");
#ifdef KF_ASSIGN_DIGIT_ZERO	/* known finding: bn_assign_digit(bn, 0) leaves digits == 1 with a zero top digit */
	V_ASSUME(d != 0);
#endif
	r = bn_assign_digit(&x, d);
	V_ASSERT(r == 0 && bn_repr_ok(&x) && bn_value(&x) == (val_t)d, "bn_assign_digit: value == d, canonical representation");
	V_ASSERT((bn_is_zero(&x) != 0) == (d == 0), "bn_assign_digit then bn_is_zero");

#elif defined(O_CMP)	/* predicates */
	int s = (va > vb) ? 1 : ((va < vb) ? -1 : 0);
	V_ASSERT(bn_cmp(&a, n) == s, "bn_cmp == sign(bn - n)");
	V_ASSERT((bn_is_equal(&a, n) != 0) == (s == 0), "bn_is_equal");
	V_ASSERT((bn_is_zero(&a) != 0) == (va == 0), "bn_is_zero");
	V_ASSERT((bn_is_one(&a) != 0) == (va == 1), "bn_is_one");
	V_ASSERT((bn_is_even(&a) != 0) == (va != 0 && (va & 1) == 0), "bn_is_even (zero is reported as not even by design: digits == 0)");
	V_ASSERT((bn_is_odd(&a) != 0) == ((va & 1) == 1), "bn_is_odd");
	size_t nbits = 0, tz = 0, pop = 0;
	for (size_t i = 0; i < CAPA; i++) if ((va >> i) & 1) { nbits = i + 1; if (pop == 0) tz = i; pop++; }
	V_ASSERT(bn_calc_bits(&a) == nbits, "bn_calc_bits == bit length");
	V_ASSERT(bn_ctz(&a) == tz, "bn_ctz == trailing zeros (0 for zero)");
	V_ASSERT((bn_is_pow2(&a) != 0) == (pop == 1), "bn_is_pow2");
#ifdef KF_CLZ_ZERO	/* known finding: bn_clz of a zero bn reads num[-1] */
	if (DA != 0)
#endif
	V_ASSERT(bn_clz(&a) == CAPA - nbits, "bn_clz == capacity bits - bit length");
	{	/* bn_calc_digits / bn_update recompute digits from the whole capacity: needs initialised storage */
		bn_t x = a;
		bn_init_digits__int(&x, x.count);
		x.digits = CA;		/* pretend unknown */
		V_ASSERT(bn_calc_digits(&x) == DA && x.digits == DA, "bn_calc_digits recomputes the significant digit count");
	}
	if (s == 0) V_WITNESS("cmp: equal");
	V_WITNESS("predicates");
#else
#error "no O_* selected"
#endif
}
