/* C01 layer 2: digit-array kernels of big_num.h on exactly sized heap arrays.
 * Shape (concrete): AC = digits of a, BC = digits of b. Symbolic: every digit, the digit operand, the shift amount.
 * Oracle: native wide integer arithmetic on the values. One K_* macro selects the kernel. */
#ifndef VDIG
#define VDIG (AC + 1)
#endif
#include "bn_common.h"
#include "uf_mult.h"

struct in_s { bn_digit_t a[MAXD]; bn_digit_t b[MAXD]; bn_digit_t d; uint16_t bits; };
#include "verif_in.h"

#define ABITS	((size_t)(AC) * W)

void harness(void) {
	V_BEGIN();
	bn_digit_t *a = (bn_digit_t *)v_buf(IN.a, (AC) * sizeof(bn_digit_t));
#ifdef ALIAS	/* b is the same array as a (the kernels carry "If a == b" code) */
	bn_digit_t *b = a;
#else
	bn_digit_t *b = (bn_digit_t *)v_buf(IN.b, (BC) * sizeof(bn_digit_t));
#endif
	bn_digit_t d = IN.d;
	val_t va = v_value(a, AC), vb = v_value(b, BC);
	bn_digit_t oc = 0, c = 0x5a;
	val_t exp;
	(void)d; (void)vb; (void)oc; (void)c; (void)exp;

#if defined(K_CALC)
	size_t n = 0;
	for (size_t i = 0; i < AC; i++) if (a[i] != 0) n = i + 1;
	V_ASSERT(bn_digits_calc_digits(a, AC) == n, "bn_digits_calc_digits == index of the top non-zero digit + 1");
	V_ASSERT(bn_digits_calc_digits(NULL, AC) == 0 && bn_digits_calc_digits(a, 0) == 0, "bn_digits_calc_digits: NULL / zero count give 0");
	int r = bn_digits_cmp(a, b, AC);	/* BC == AC in this job */
	V_ASSERT(r == (va > vb ? 1 : (va < vb ? -1 : 0)), "bn_digits_cmp == sign(a - b)");
	V_ASSERT(bn_digits_cmp(a, a, AC) == 0 && bn_digits_cmp(a, b, 0) == 0, "bn_digits_cmp: same array / zero count compare equal");
	if (va == vb) V_WITNESS("equal arrays");
	V_WITNESS("calc_digits / cmp");

#elif defined(K_ADD)
	int r = bn_digits_add(a, AC, b, BC, &c);
#if BC > AC
	V_ASSERT(r == EOVERFLOW, "bn_digits_add: b longer than a is refused with EOVERFLOW");
	V_ASSERT(v_value(a, AC) == va, "bn_digits_add: a unchanged on error");
	V_WITNESS("add: overflow error");
#else
	exp = o_add(va, vb, ABITS, &oc);
	V_ASSERT(r == 0, "bn_digits_add succeeds");
	V_ASSERT(v_value(a, AC) == exp, "bn_digits_add: a == (a + b) mod 2^capacity");
	V_ASSERT(c == oc, "bn_digits_add: carry == (a + b) div 2^capacity");
	if (oc) V_WITNESS("add: carry out");
	V_WITNESS("add: success");
#endif

#elif defined(K_ADDD)
	bn_digits_add_digit(a, AC, d, &c);
	exp = o_add(va, (val_t)d, ABITS, &oc);
	V_ASSERT(v_value(a, AC) == exp, "bn_digits_add_digit: a == (a + d) mod 2^capacity");
	V_ASSERT(c == oc, "bn_digits_add_digit: carry exact");
	if (oc) V_WITNESS("add_digit: carry out");
	V_WITNESS("add_digit");

#elif defined(K_SUB)
	int r = bn_digits_sub(a, AC, b, BC, &c);
#if BC > AC
	V_ASSERT(r == EOVERFLOW, "bn_digits_sub: b longer than a is refused with EOVERFLOW");
	V_ASSERT(v_value(a, AC) == va, "bn_digits_sub: a unchanged on error");
	V_WITNESS("sub: overflow error");
#else
	exp = o_sub(va, vb, ABITS, &oc);
	V_ASSERT(r == 0, "bn_digits_sub succeeds");
	V_ASSERT(v_value(a, AC) == exp, "bn_digits_sub: a == (a - b) mod 2^capacity");
	V_ASSERT(c == oc, "bn_digits_sub: borrow == (a < b)");
	if (oc) V_WITNESS("sub: borrow out");
	V_WITNESS("sub: success");
#endif

#elif defined(K_SUBD)
	bn_digits_sub_digit(a, AC, d, &c);
	exp = o_sub(va, (val_t)d, ABITS, &oc);
	V_ASSERT(v_value(a, AC) == exp, "bn_digits_sub_digit: a == (a - d) mod 2^capacity");
	V_ASSERT(c == oc, "bn_digits_sub_digit: borrow exact");
	if (oc) V_WITNESS("sub_digit: borrow out");
	V_WITNESS("sub_digit");

#elif defined(K_MULD)	/* a = a*d mod 2^capacity (callers provide a zero top digit; no carry is reported) */
	bn_digits_mult_digit__int(a, AC, d);
	/* partial-product oracle: sum of digit products d*a[i] * B^i in wide arithmetic; the digit product is the native
	 * double-width product, or the uninterpreted function when the digit multiply is abstracted (uf_mult.h) */
	if (d != 0 && (d & (d - 1)) == 0) {		/* fast path of the kernel: shift, no multiply call */
		size_t sh = 0; while (((bn_digit_t)1 << sh) != d) sh++;
		exp = (va << sh) & v_mask(ABITS);
	} else {
		exp = 0;
		for (size_t i = 0; i < AC; i++) exp += ((val_t)o_dmul(d, IN.a[i])) << (i * W);
		exp &= v_mask(ABITS);
	}
	V_ASSERT(v_value(a, AC) == exp, "bn_digits_mult_digit__int: a == (a * d) mod 2^capacity");
	V_WITNESS("mult_digit");

#elif defined(K_ADDMUL)	/* a += b*d mod 2^capacity, BC <= AC */
	bn_digits_add_digit_mult__int(a, AC, b, BC, d);
	if (d == 1) {
		exp = vb;				/* fast path: plain add, no multiply call */
	} else {
		exp = 0;
		for (size_t i = 0; i < BC; i++) exp += ((val_t)o_dmul(d, IN.b[i])) << (i * W);
	}
	exp = (va + exp) & v_mask(ABITS);
	V_ASSERT(v_value(a, AC) == exp, "bn_digits_add_digit_mult__int: a == (a + b*d) mod 2^capacity");
	V_WITNESS("add_digit_mult");

#elif defined(K_SUBMUL)	/* a -= b*d; a' - borrow*2^capacity == a - b*d, BC <= AC */
	bn_digits_sub_digit_mult__int(a, AC, b, BC, d, &c);
	val_t prod;
	if (d == 1) {
		prod = vb;
	} else {
		prod = 0;
		for (size_t i = 0; i < BC; i++) prod += ((val_t)o_dmul(d, IN.b[i])) << (i * W);
	}
	/* exact identity in val_t (capacity + one digit fits): a' + prod == a + borrow * 2^capacity */
	V_ASSERT(v_value(a, AC) + prod == va + (((val_t)c) << ABITS), "bn_digits_sub_digit_mult__int: a' + b*d == a + borrow*2^capacity");
	if (c > 1) V_WITNESS("sub_digit_mult: multi-valued borrow");
	if (c) V_WITNESS("sub_digit_mult: borrow out");
	V_WITNESS("sub_digit_mult");

#elif defined(K_LSH)
	size_t bits = IN.bits;
	V_ASSUME(bits < ABITS);		/* kernel domain: shift below the array width (wrappers are checked for larger shifts) */
	bn_digits_l_shift(a, AC, bits);
	V_ASSERT(v_value(a, AC) == ((va << bits) & v_mask(ABITS)), "bn_digits_l_shift: a == (a << bits) mod 2^capacity");
	if (bits > W && (bits & 7) != 0) V_WITNESS("l_shift: byte move + bit shift");
	if (bits != 0 && (bits & 7) == 0) V_WITNESS("l_shift: whole bytes");
	V_WITNESS("l_shift");

#elif defined(K_RSH)
	size_t bits = IN.bits;
	V_ASSUME(bits < ABITS);
	bn_digits_r_shift(a, AC, bits);
	V_ASSERT(v_value(a, AC) == (va >> bits), "bn_digits_r_shift: a == a >> bits");
	if (bits > W && (bits & 7) != 0) V_WITNESS("r_shift: byte move + bit shift");
	if (bits != 0 && (bits & 7) == 0) V_WITNESS("r_shift: whole bytes");
	V_WITNESS("r_shift");
#else
#error "no K_* selected"
#endif
}
