/* C01 common definitions: real big_num.h + native wide-integer oracle helpers.
 * Build parameters (jobs.py): BN_DIGIT_BIT_CNT in {8,16,32,64}, BN_CC_MULL_DIV defined or not,
 * BN_BIT_LEN = 4 * BN_DIGIT_BIT_CNT (so BN_MAX_DIGITS == 4). */
#ifndef C01_BN_COMMON_H
#define C01_BN_COMMON_H
#include "verif.h"
#include <errno.h>
#include <sys/types.h>
#include <sys/param.h>	/* MIN/MAX: big_num.h uses them without defining them (liblcb gets them from al/os.h) */
#include "math/big_num.h"

#define W	BN_DIGIT_BIT_CNT
#define MAXD	BN_MAX_DIGITS	/* 4 */

/* double-digit type for the oracle, independent of BN_CC_MULL_DIV */
#if W == 8
typedef uint16_t dd_t;
#elif W == 16
typedef uint32_t dd_t;
#elif W == 32
typedef uint64_t dd_t;
#elif W == 64
typedef unsigned __int128 dd_t;
#endif

/* value type: wide enough for VBITS bits (VBITS = largest capacity in bits used by the harness, default 4 digits) */
#ifndef VDIG
#define VDIG MAXD
#endif
#if (W * VDIG) <= 64
typedef uint64_t val_t;
#define VAL_BITS 64
#else
typedef unsigned __int128 val_t;
#define VAL_BITS 128
#endif
#if (W * VDIG) > 128
#error "oracle value type too narrow for this shape"
#endif

/* 2^bits as val_t; bits may equal VAL_BITS (then 0 = wraps, callers use MASKV instead) */
static inline val_t v_mask(size_t bits) {	/* 2^bits - 1 */
	if (bits >= VAL_BITS) return (~(val_t)0);
	return ((((val_t)1) << bits) - 1);
}
/* value of the low n digits */
static inline val_t v_value(const bn_digit_t *num, size_t n) {
	val_t v = 0;
	for (size_t i = n; i > 0; i--) {
#if W == VAL_BITS
		v = num[i - 1];	/* n <= 1 here */
#else
		v = (v << W) | (val_t)num[i - 1];
#endif
	}
	return (v);
}
static inline val_t bn_value(const bn_t *b) { return (v_value(b->num, b->digits)); }

/* representation invariant: digits <= count <= MAXD, top digit non-zero */
static inline int bn_repr_ok(const bn_t *b) {
	if (b->count > MAXD || b->digits > b->count) return (0);
	if (b->digits > 0 && b->num[b->digits - 1] == 0) return (0);
	return (1);
}

/* symbolic bn: concrete count/digits (shape), symbolic digits incl. the stale storage above `digits` */
struct sbn { bn_digit_t num[MAXD]; };
static inline void bn_make(bn_t *b, const struct sbn *s, size_t count, size_t digits) {
	b->count = count;
	b->digits = digits;
	for (size_t i = 0; i < MAXD; i++) b->num[i] = s->num[i];	/* everything, garbage included */
	if (digits > 0) V_ASSUME(b->num[digits - 1] != 0);		/* canonical: top digit non-zero */
}
#endif
