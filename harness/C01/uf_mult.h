/* Uninterpreted digit multiply (DESIGN 1.3): with -DSTUB_bn_digit_mult__int every call of bn_digit_mult__int inside
 * big_num.h goes to an uninterpreted function dmul(a,b) constrained only by the range fact dmul <= (B-1)^2.
 * If code and oracle agree for EVERY such function they agree for the real multiply (decided separately in digit.c).
 * Native replay uses the real product. */
#ifndef C01_UF_MULT_H
#define C01_UF_MULT_H
#ifdef STUB_bn_digit_mult__int
#ifdef REPLAY
static inline dd_t uf_mul(bn_digit_t a, bn_digit_t b) { return ((dd_t)a * (dd_t)b); }
#else
dd_t __CPROVER_uninterpreted_dmul(bn_digit_t a, bn_digit_t b);
static inline dd_t uf_mul(bn_digit_t a, bn_digit_t b) {
	dd_t p = __CPROVER_uninterpreted_dmul(a, b);
	__CPROVER_assume(p <= (dd_t)BN_MAX_DIGIT * (dd_t)BN_MAX_DIGIT);
	return (p);
}
#endif
static inline void bn_digit_mult__int(bn_digit_t a, bn_digit_t b, bn_digit_t *result_lo, bn_digit_t *result_hi) {
	dd_t p = uf_mul(a, b);
	(*result_lo) = (bn_digit_t)p;
	(*result_hi) = (bn_digit_t)(p >> W);
}
#else
static inline dd_t uf_mul(bn_digit_t a, bn_digit_t b) { return ((dd_t)a * (dd_t)b); }
#endif
/* oracle term d*x exactly as the kernels obtain it: no multiply call for x == 0 */
static inline dd_t o_dmul(bn_digit_t d, bn_digit_t x) { return (x == 0 ? (dd_t)0 : uf_mul(d, x)); }
#endif
