#!/usr/bin/env python3
"""gen.py <outdir> <repo>: synthetic-curve tables (ec_tables.h) and the split copy of elliptic_curve.h (ec_split.h)."""
import os, sys
sys.path.insert(0, os.path.join(os.path.dirname(os.path.abspath(__file__)), "..", "common", "ec"))
import gen_curve
gen_curve.write(sys.argv[1])
gen_curve.write_split_header(sys.argv[2], sys.argv[1])
