/* C03 - ECDSA / GOST R 34.10 sign and verify of crypto/dsa/ecdsa.h against a textbook signer / verifier that works
 * on discrete logarithms of the enumerated synthetic curve.
 *
 * Build parameters: CURVE, CV_ALGO_GOST (else ECDSA), MODE, ENDIAN (0 = *_be, 1 = *_le entry points), HLEN (hash
 * bytes: 1 = field size, 2 and 3 = longer than the field).
 * Real code: ecdsa_sign(_be/_le), ecdsa_verify(_be/_le), ecdsa_verify_priv_key(_be/_le), ecdsa_pub_key_import,
 * bn import/export.  Stubs: field/order arithmetic (spec_bn.h, incl. bn_mod_reduce), the three scalar
 * multiplication entry points (ec_mult_spec.h = the contract C02 establishes).
 *
 * Standard side (FIPS 186-4 6.4 / SEC1 4.1.3-4.1.4; GOST R 34.10-2012 6.1-6.2), Q = dq * G0, G = H * G0:
 *   e  = H mod n (GOST: e = 0 -> 1), where H is the integer the entry point reads from the hash buffer under the
 *        library's byte-granular truncation rule, B = field bytes = (curve->m + 7) / 8:
 *          *_be : H = big-endian integer of hash[0 .. min(HLEN, B))      = the LEFTMOST (most significant) bytes,
 *                 which for bitlen(n) = 8 B is FIPS 186-4 bits2int;
 *          *_le : H = little-endian integer of hash[0 .. min(HLEN, B))   = sum hash[i] * 256^i, i < min(HLEN, B):
 *                 the FIRST bytes of the buffer, i.e. the LEAST significant bytes of the little-endian number;
 *                 hash[B .. HLEN) is ignored.  No standard defines a hash longer than the field for a
 *                 little-endian interface (GOST R 34.10 has hash length = field length); this is the rule
 *                 ecdsa_sign_le / ecdsa_verify_le / ecdsa_verify_priv_key_le implement
 *                 (`bn_import_le_bin(.., hash, MIN(hash_size, bytes))`), and all three must agree on it.
 *   ECDSA  verify: 1 <= r,s <= n-1;  w = s^-1;  R = (e w) G + (r w) Q;  R != O;  x(R) mod n == r
 *   GOST   verify: 1 <= r,s <= n-1;  v = e^-1;  R = (s v) G + (-r v) Q; R != O;  x(R) mod n == r
 *   ECDSA  sign  : R = k G; r = x(R) mod n != 0; s = k^-1 (e + d r) mod n != 0
 *   GOST   sign  : R = k G; r = x(R) mod n != 0; s = (r d + k e) mod n != 0
 * (The hash is cut at byte granularity here, as the library does; cutting at the BIT length of n - which differs
 * when that length is not a multiple of 8 - is listed as outside.)
 */
#define EC_ENV_POST_EC "common/ec/ec_mult_spec.h"
#define SPEC_MOD_REDUCE 1
#ifndef EC_PF_FXP_MULT_ALGO
#define EC_PF_FXP_MULT_ALGO 0
#endif
#ifndef EC_DISABLE_PUB_KEY_CHK
#define EC_DISABLE_PUB_KEY_CHK 1	/* as tests/ecdsa: the on-curve / order check of imported keys is C09's subject */
#endif
#include "common/ec/ec_env.h"

#define M_VERIFY	1	/* decision of ecdsa_verify_be/le == standard decision, for every (hash, r, s, Q) */
#define M_VERIFY_PRIV	2	/* decision of ecdsa_verify_priv_key_be/le == standard decision */
#define M_SIGN		3	/* a produced signature is the standard one and is accepted by both library verifiers */
#define M_FAULT		4	/* failing scalar multiplication must not end in success */

#ifndef HLEN
#define HLEN 1
#endif
#ifndef ENDIAN
#define ENDIAN 0
#endif
#if ENDIAN == 0
#define LCB_SIGN	ecdsa_sign_be
#define LCB_VERIFY	ecdsa_verify_be
#define LCB_VERIFY_PRIV	ecdsa_verify_priv_key_be
#else
#define LCB_SIGN	ecdsa_sign_le
#define LCB_VERIFY	ecdsa_verify_le
#define LCB_VERIFY_PRIV	ecdsa_verify_priv_key_le
#endif

struct in_s {
	uint8_t hash[HLEN];
	uint8_t r, s;		/* signature presented to the verifiers */
	uint8_t d;		/* private key */
	uint8_t k;		/* nonce bytes handed to the signer */
	uint8_t qi;		/* public key = table point qi (M_VERIFY: any finite point of the subgroup) */
	uint8_t garbage, hx, hy;
	int32_t fault[4];	/* M_FAULT: status of each scalar multiplication */
};
#include "verif_in.h"

/* H: the number read from the hash buffer (truncation rule in the header comment), for any field size */
static uint32_t
hash_int(void) {
	uint32_t h = 0;
	size_t take = ((HLEN < CV_BYTES) ? HLEN : CV_BYTES);

	for (size_t i = 0; i < 3; i ++) {
		if (i >= take)
			break;
#if ENDIAN == 0
		h = ((h << 8) | IN.hash[i]);			/* leftmost bytes, most significant first */
#else
		h |= (((uint32_t)IN.hash[i]) << (8 * i));	/* first bytes, least significant first */
#endif
	}
	return (h);
}

static uint32_t
std_e(void) {
	uint32_t e = (hash_int() % CV_N);
#ifdef CV_ALGO_GOST
	if (0 == e)
		e = 1;
#endif
	return (e);
}

/* standard verification on discrete logs; qidx = index of Q in the table (Q = qidx * G0) */
static int
std_verify(uint32_t e, uint32_t r, uint32_t s, unsigned qidx) {
	uint32_t u1, u2, w, idx;

	if (r < 1 || r >= CV_N || s < 1 || s >= CV_N)
		return (0);
#ifdef CV_ALGO_GOST
	w = INVN[e % CV_N];			/* e != 0 by the e = 0 -> 1 rule */
	u1 = ((s * w) % CV_N);
	u2 = (((CV_N - r) * w) % CV_N);
#else
	w = INVN[s];
	u1 = ((e * w) % CV_N);
	u2 = ((r * w) % CV_N);
#endif
	idx = (((u1 * CV_H) + (u2 * qidx)) % CV_NTOT);
	if (0 == idx)
		return (0);
	return ((TX[idx] % CV_N) == r);
}

static void
body(void) {
	int r, lib_ok;
	uint32_t e, hv;
	size_t ssz = 777;
	uint8_t *hash, *br, *bs, *bd, *bk, *pk;

	sb_garbage = IN.garbage;
	mspec_hx = IN.hx;
	mspec_hy = IN.hy;
#ifdef MULT_FAULT
	for (int i = 0; i < 4; i ++)
		mspec_fault_status[i] = IN.fault[i];
#endif
	r = env_curve_init();
	V_ASSERT(0 == r, "curve constructor succeeds");
	if (0 != r)
		return;
	hv = hash_int();
	e = std_e();
#ifdef KF_HASH_REDUCE
	V_ASSUME(hv < CV_N);	/* known finding: hash >= n is reduced with (h mod (n-1)) + 1 instead of h mod n */
#endif
	hash = v_buf(IN.hash, HLEN);
	br = v_buf(&IN.r, CV_BYTES);
	bs = v_buf(&IN.s, CV_BYTES);
	bd = v_buf(&IN.d, CV_BYTES);
	bk = v_buf(&IN.k, CV_BYTES);

#if MODE == M_VERIFY
	/* Q = any finite point of the subgroup generated by G, given in packed form 04 || x || y */
	unsigned qidx = IN.qi;
	V_ASSUME(qidx >= 1 && qidx < CV_NTOT && 0 == (qidx % CV_H));
#ifdef KF_VERIFY_RS0
	V_ASSUME(0 != IN.r && 0 != IN.s);	/* known finding: r = 0 (and, for GOST, s = 0) is not refused */
#endif
	uint8_t pkb[3] = { 4, TX[qidx], TY[qidx] };
	pk = v_buf(pkb, 3);
	r = LCB_VERIFY(&CV, hash, HLEN, br, bs, CV_BYTES, pk, NULL, 3);
	lib_ok = (0 == r);
	V_ASSERT(lib_ok == std_verify(e, IN.r, IN.s, qidx), "ecdsa_verify accepts exactly what the standard accepts");
	if (lib_ok) V_WITNESS("signature accepted");
	if (!lib_ok && IN.r >= 1 && IN.r < CV_N && IN.s >= 1 && IN.s < CV_N) V_WITNESS("in-range signature rejected");
	if (IN.r >= CV_N || IN.s >= CV_N) V_WITNESS("out-of-range value");
	if (hv >= CV_N) V_WITNESS("hash >= n");
	if (0 == IN.r) V_WITNESS("r = 0");
#if HLEN > 1
	if (lib_ok && 0 != IN.hash[(HLEN - 1)]) V_WITNESS("accepted with non-zero bytes beyond the field size");
#endif

#elif MODE == M_VERIFY_PRIV
	V_ASSUME(IN.d >= 1 && IN.d < CV_N);
#ifdef KF_VERIFY_RS0
	V_ASSUME(0 != IN.r && 0 != IN.s);
#endif
	r = LCB_VERIFY_PRIV(&CV, hash, HLEN, br, bs, CV_BYTES, bd, CV_BYTES);
	lib_ok = (0 == r);
	V_ASSERT(lib_ok == std_verify(e, IN.r, IN.s, (IN.d * CV_H)), "ecdsa_verify_priv_key accepts exactly what the standard accepts");
	if (lib_ok) V_WITNESS("signature accepted");
	if (!lib_ok) V_WITNESS("signature rejected");
	if (hv >= CV_N) V_WITNESS("hash >= n");

#elif MODE == M_SIGN
	V_ASSUME(IN.d >= 1 && IN.d < CV_N);
#ifdef KF_SIGN_K0
	V_ASSUME(0 != IN.k);	/* known finding: nonce 0 is not refused (R = O is not checked) */
#endif
	uint8_t *or_ = (uint8_t *)v_alloc(CV_BYTES), *os = (uint8_t *)v_alloc(CV_BYTES);
	r = LCB_SIGN(&CV, hash, HLEN, bd, CV_BYTES, bk, CV_BYTES, or_, os, &ssz);
	/* nonce the library derives from the random bytes: k' = k if k < n else (k mod (n-1)) + 1; k = 0 stays 0 */
	uint32_t kk = ((IN.k < CV_N) ? IN.k : ((IN.k % (CV_N - 1)) + 1));
	uint32_t ridx = ((kk * CV_H) % CV_NTOT);
	uint32_t sr = ((0 == ridx) ? 0 : (TX[ridx] % CV_N));
	uint32_t ss;
#ifdef CV_ALGO_GOST
	ss = (((sr * IN.d) + (kk * e)) % CV_N);
#else
	ss = ((0 == kk) ? 0 : ((INVN[kk % CV_N] * ((e + (IN.d * sr)) % CV_N)) % CV_N));
#endif
	if (0 == r) {
		V_ASSERT(CV_BYTES == ssz, "reported signature size is the field size");
		V_ASSERT(0 != kk && 0 != ridx && 0 != sr && 0 != ss, "signing succeeds only where the standard signer succeeds");
		V_ASSERT(or_[0] == sr && os[0] == ss, "signature equals the standard signer's (same e, d, nonce)");
		V_ASSERT(std_verify(e, or_[0], os[0], (IN.d * CV_H)), "produced signature passes the standard verifier");
		uint8_t pkb[3] = { 4, TX[(IN.d * CV_H) % CV_NTOT], TY[(IN.d * CV_H) % CV_NTOT] };
		pk = v_buf(pkb, 3);
		V_ASSERT(0 == LCB_VERIFY(&CV, hash, HLEN, or_, os, CV_BYTES, pk, NULL, 3), "produced signature passes ecdsa_verify");
		V_ASSERT(0 == LCB_VERIFY_PRIV(&CV, hash, HLEN, or_, os, CV_BYTES, bd, CV_BYTES), "produced signature passes ecdsa_verify_priv_key");
		V_WITNESS("signed");
		if (hv >= CV_N) V_WITNESS("hash >= n signed");
#if HLEN > 1
		if (0 != IN.hash[(HLEN - 1)]) V_WITNESS("signed and verified with non-zero bytes beyond the field size");
#endif
	} else {
		V_ASSERT(0 == kk || 0 == ridx || 0 == sr || 0 == ss, "signing fails only where the standard signer has to retry");
		V_WITNESS("signing refused");
	}

#elif MODE == M_FAULT
	V_ASSUME(IN.d >= 1 && IN.d < CV_N);
	unsigned qidx = ((IN.d * CV_H) % CV_NTOT);
	uint8_t pkb[3] = { 4, TX[qidx], TY[qidx] };
	uint8_t *or_ = (uint8_t *)v_alloc(CV_BYTES), *os = (uint8_t *)v_alloc(CV_BYTES);
	pk = v_buf(pkb, 3);
#ifdef KF_MULT_STATUS
	/* known finding: the status of ec_point_mult_bp / ec_point_twin_mult_bp is dropped */
	V_ASSUME(0 == IN.fault[0] && 0 == IN.fault[1] && 0 == IN.fault[2] && 0 == IN.fault[3]);
#endif
#if FAULT_IN == 1
	r = LCB_SIGN(&CV, hash, HLEN, bd, CV_BYTES, bk, CV_BYTES, or_, os, &ssz);
#elif FAULT_IN == 2
	r = LCB_VERIFY(&CV, hash, HLEN, br, bs, CV_BYTES, pk, NULL, 3);
#else
	r = LCB_VERIFY_PRIV(&CV, hash, HLEN, br, bs, CV_BYTES, bd, CV_BYTES);
#endif
	V_ASSERT(!(0 == r && 0 != mspec_failed), "no success is reported when a scalar multiplication failed");
	if (0 != mspec_failed) V_WITNESS("multiplication failed");
	if (0 == r) V_WITNESS("success");
#else
#error "unknown MODE"
#endif
}

void harness(void) {
	V_BEGIN();
	body();
	ENV_FINAL();
}
