"""C03 - ECDSA / GOST R 34.10 sign / verify: complete, sound, standard-conforming (synthetic curves, 1-byte field)."""
import os
SOLVER = os.environ.get("C03_SOLVER", "cadical")
CNAME = {1: "p23n31", 2: "p31n23", 3: "p61n59", 6: "p251n223", 7: "p251n239", 8: "p7n11", 4: "p23n13h2"}
MODES = {1: "verify", 2: "verifypriv", 3: "sign", 4: "fault"}

# KF_ guards for confirmed findings (see findings/*.md); the coordinator removes them once /repo is fixed
KF = {}   # all four findings were repaired in /repo (known_findings.json: fixed)
if False and os.environ.get("C03_NOKF"):      # reproduce the findings: run without the guards
    KF = {k: None for k in KF if k not in os.environ["C03_NOKF"].split(",")}

META = {
    "bounds": "synthetic curves over one-byte fields with the whole group enumerated (p=23 n=31, p=31 n=23, p=7 n=11, "
              "cofactor-2 p=23 n=13; thorough also p=61 n=59; the p=251 curves, where the bit length of n is 8, gave no verdict inside the cap and are outside), "
              "algorithms ECDSA and GOST R 34.10; ALL hash bytes of length 1 (= field size), 2 and 3 (longer than the "
              "field) for BOTH byte orders, under the library's byte-granular truncation rule: *_be reads the big-endian "
              "integer of hash[0..min(len,B)) (leftmost = most significant bytes), *_le reads the little-endian integer "
              "of hash[0..min(len,B)) (the first = LEAST significant bytes; hash[B..len) ignored), B = field bytes; the same "
              "H mod n must be used by sign, verify and verify_priv_key of each byte order (sign_le output is fed to "
              "verify_le and verify_priv_key_le with the long hash); ALL r, s, d, nonce bytes in 0..255, ALL public keys of the subgroup; *_be and *_le "
              "byte entry points with exactly sized buffers; decision equality of ecdsa_verify / ecdsa_verify_priv_key "
              "with the textbook verifier, signer equality + acceptance by both library verifiers, fault injection "
              "into the scalar multiplications",
    "outside": "the 32 built-in curves at full size; hash cut at the BIT length of n when that is not a multiple of 8 "
               "(FIPS 186-4 bits2int) - the oracle cuts at byte granularity like the library, so a disagreement there "
               "(e.g. secp160r1 / secp224k1 with SHA-256, n one bit longer than the field) is NOT examined; for *_le with a "
               "hash longer than the field no standard exists, the oracle is the library's documented first-bytes rule "
               "(a caller expecting the MOST significant bytes of a little-endian digest to be kept is not served); public key at infinity or off the "
               "curve (C09); private key 0; the scalar multiplications themselves (C02) and the order-n arithmetic (C01) "
               "are specification stubs; bn-level API with operands wider than the byte API can produce",
    "assumptions": [
        "ec_point_mult_bp / ec_point_twin_mult_bp / ec_point_unknown_pt_mult = index arithmetic on the enumerated group "
        "(common/ec/ec_mult_spec.h, the contract C02 establishes); coordinates of a result at infinity are solver-chosen",
        "bn_mod, bn_mod_add, bn_mod_sub, bn_mod_mult, bn_mod_mult_digit, bn_mod_inv, bn_mod_reduce = value-level stubs "
        "(common/ec/spec_bn.h) with the real error conditions; preconditions checked as a property",
        "bn_import_be_hex in the curve constructor is a stub; memcpy = bounded byte loop",
        "EC_DISABLE_PUB_KEY_CHK as in tests/ecdsa (validation of imported keys is C09); EC_PF_FXP_MULT_ALGO = BIN "
        "(no base-point table needed because the multiplications are stubs)",
        "no KF_ guard is in force: the four findings (hash-reduce, verify-rs-zero, mult-status, sign-k0) are repaired in /repo, "
        "the oracle is the plain standard one",
    ],
    "harness_functions": ["harness", "body", "hash_int", "std_e", "std_verify", "env_curve_init", "env_bn_set", "env_point",
                          "env_point_c", "env_point_is", "env_index_of", "v_memcpy", "v_alloc", "v_buf", "sb_val", "sb_set",
                          "sb_is_norm", "sb_mask", "sb_digits_of", "sb_clz8", "sb_top", "sb_rem", "spec_bn_mod",
                          "spec_bn_mod_add", "spec_bn_mod_sub", "spec_bn_mod_mult", "spec_bn_mod_mult_digit",
                          "spec_bn_mod_square", "spec_bn_mod_exp_digit", "spec_bn_mod_inv", "spec_bn_mod_reduce",
                          "spec_bn_import_be_hex", "mspec_index_affine", "mspec_set", "mspec_fault", "mspec_scalar",
                          "spec_ec_point_mult_bp", "spec_ec_point_twin_mult_bp", "spec_ec_point_unknown_pt_mult"],
}


def job(curve, mode, gost, endian, hlen, kf=True, fault_in=None, timeout=None, cost=1):
    defs = {"CURVE": curve, "MODE": mode, "ENDIAN": endian, "HLEN": hlen}
    if gost:
        defs["CV_ALGO_GOST"] = 1
    name = "%s-%s-%s-%s-h%d" % (CNAME[curve], MODES[mode], "gost" if gost else "ecdsa", "le" if endian else "be", hlen)
    if mode == 4:
        defs["MULT_FAULT"] = 1
        defs["FAULT_IN"] = fault_in
        name += "-in%d" % fault_in
    if kf:
        defs.update(KF)
    j = {"name": name, "src": "sig.c", "defs": defs, "unwind": 8, "solver": SOLVER, "cost": cost,
         "shape": "curve %s, %s, %s entry points, hash %d byte(s); all hash/r/s/d/nonce bytes and all subgroup keys" % (
             CNAME[curve], "GOST R 34.10" if gost else "ECDSA", "little-endian" if endian else "big-endian", hlen),
         "desc": {1: "ecdsa_verify == standard verifier for every (hash, r, s, Q)",
                  2: "ecdsa_verify_priv_key == standard verifier for every (hash, r, s, d)",
                  3: "ecdsa_sign output == standard signer's, accepted by standard verifier and both library verifiers",
                  4: "no success when a scalar multiplication reported failure"}[mode]}
    if timeout:
        j["timeout"] = timeout
    return j


def jobs(tier):
    out = []
    # curves 6, 7 (p = 251, 8-bit order): 1000-1500+ s per job on a loaded machine, 6 of 8 timed out in the thorough pass -> withdrawn
    curves = [1, 2, 8] if tier == "quick" else [1, 2, 8, 4, 3]
    for c in curves:
        big = c in (6, 7, 3)
        for gost in (0, 1):
            for mode in (1, 2, 3):
                # hash length 1 = field size; 2 and 3 = longer than the field (truncated by both byte orders)
                for endian, hlen in ((0, 1), (1, 1), (0, 2), (1, 2), (1, 3), (0, 3)):
                    if tier == "quick" and (endian, hlen) != (0, 1) and c != 1:
                        continue
                    if tier == "quick" and (endian, hlen) == (0, 3):
                        continue
                    if big and (endian, hlen) not in ((0, 1), (1, 1), (1, 2)):
                        continue
                    if c in (6, 7) and (mode != 1 or hlen != 1):
                        continue    # p=251 curves: public-key verifier, field-size hash only (about 1000 s per job)    # the three large curves (jobs of 1000+ s each) get the field-size hash in both byte orders and one long _le hash; [measured: the full product would run > 3 h on 12 cores]
                    out.append(job(c, mode, gost, endian, hlen, timeout=1500 if big else None, cost=10 if big else 1))
    for gost in (0, 1):
        for fi in (1, 2, 3):
            out.append(job(1, 4, gost, 0, 1, fault_in=fi))
    return out
