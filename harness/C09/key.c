/* C09 - public-key encoding / validation, key generation, public-key recovery, Diffie-Hellman (ecdsa.h byte API).
 *
 * Build parameters: CURVE, MODE, ENDIAN (0 = *_be, 1 = *_le), FORM (export form), ISIZE (import size), optional
 * EC_DISABLE_PUB_KEY_CHK.  Field = 1 byte (curve->m = 8), so the accepted import sizes are 1 (00 = infinity),
 * 2 (02/03 || x) and 3 (04/06/07 || x || y); with a one-byte field the "separate x, y" form (size = bytes) and the
 * "x || y" form (size = 2 * bytes) collide with sizes 1 and 2 and cannot be reached - stated as outside.
 *
 * Real: ecdsa_pub_key_export/import_*, ecdsa_key_gen_*, ecdsa_recover_pub_key_from_priv_key_*, ecdsa_dh_*,
 * ec_point_check_as_pub_key, ec_point_check_affine, ec_point_check_scalar_mult + the ladder it runs,
 * ec_point_restore_y_by_x.  Stubs: field layer incl. bn_mod_sqrt / bn_mod_reduce (spec_bn.h), point operations under
 * the ladder (ec_ptops_spec.h), the multiplication entry points called from ecdsa.h (ec_mult_spec.h).
 * Every byte buffer is allocated at exactly the size passed (v_alloc / v_buf), pointer checks on.
 */
#define EC_ENV_POST_EC "common/ec/ec_mult_spec.h"
#define SPEC_MOD_REDUCE 1
#define SPEC_MOD_SQRT 1
#define EC_LADDER_STUBS 1
#ifndef EC_PF_FXP_MULT_ALGO
#define EC_PF_FXP_MULT_ALGO 0
#endif
#ifndef EC_PF_UNKPT_MULT_ALGO
#define EC_PF_UNKPT_MULT_ALGO 0
#endif
#include "common/ec/ec_env.h"

#define K_ROUNDTRIP	1	/* export(form) then import gives the same point, sizes as documented */
#define K_IMPORT	2	/* import of EVERY byte string of size ISIZE: accepted iff infinity / valid subgroup point */
#define K_KEYGEN	3	/* ecdsa_key_gen: d = seed < n ? seed : (seed mod (n-1)) + 1, Q = d*G */
#define K_RECOVER	4	/* ecdsa_recover_pub_key_from_priv_key: Q = d*G, d >= n refused */
#define K_DH		5	/* ecdsa_dh: x(h? * d * Q), symmetric */

#define F_COMPRESSED	1
#define F_PACKED	2

#ifndef ENDIAN
#define ENDIAN 0
#endif
#if ENDIAN == 0
#define LCB_EXPORT	ecdsa_pub_key_export_be
#define LCB_IMPORT	ecdsa_pub_key_import_be
#define LCB_KEYGEN	ecdsa_key_gen_be
#define LCB_RECOVER	ecdsa_recover_pub_key_from_priv_key_be
#define LCB_DH		ecdsa_dh_be
#else
#define LCB_EXPORT	ecdsa_pub_key_export_le
#define LCB_IMPORT	ecdsa_pub_key_import_le
#define LCB_KEYGEN	ecdsa_key_gen_le
#define LCB_RECOVER	ecdsa_recover_pub_key_from_priv_key_le
#define LCB_DH		ecdsa_dh_le
#endif
#ifndef ISIZE
#define ISIZE 3
#endif
#ifndef FORM
#define FORM F_PACKED
#endif

struct in_s {
	uint8_t i;		/* point index */
	uint8_t b[3];		/* K_IMPORT: the byte string */
	uint8_t d, d2;		/* private keys / seed */
	uint8_t cof;		/* use_cofactor */
	uint8_t garbage, hx, hy, pick;
	ENV_PTOPS_IN
};
#include "verif_in.h"

/* does index idx denote a valid public key in the library's sense (subgroup of order n, or infinity)? */
static int
in_subgroup(unsigned idx) {
	return (0 == ((idx * CV_N) % CV_NTOT));
}

static void
body(void) {
	int r;
	size_t sz = 777;
	ec_point_t pt, back;

	sb_garbage = IN.garbage;
	sb_sqrt_pick = IN.pick;
	mspec_hx = IN.hx;
	mspec_hy = IN.hy;
	ENV_PTOPS_INIT();
	r = env_curve_init();
	V_ASSERT(0 == r, "curve constructor succeeds");
	if (0 != r)
		return;

#if MODE == K_ROUNDTRIP
	unsigned i = IN.i;
	V_ASSUME(i < CV_NTOT);
#ifndef EC_DISABLE_PUB_KEY_CHK
	V_ASSUME(in_subgroup(i));		/* with validation on, only valid keys can come back */
#endif
	if (0 == i) env_point_c(&pt, 1, 0, CV_M, IN.hx % CV_P, IN.hy % CV_P); else env_point_c(&pt, 0, i, CV_M, 0, 0);
	size_t need = ((0 == i) ? 1 : ((FORM == F_COMPRESSED) ? 2 : 3));
	uint8_t *buf = (uint8_t *)v_alloc(need);	/* exactly the documented size */
	r = LCB_EXPORT(&CV, (FORM == F_COMPRESSED), &pt, buf, NULL, &sz);
	V_ASSERT(0 == r, "export succeeds");
	V_ASSERT(sz == need, "export reports the documented size");
	if (0 != i) {
		V_ASSERT(buf[1] == TX[i], "x coordinate exported");
		if (FORM == F_COMPRESSED) V_ASSERT(buf[0] == (2 + (TY[i] & 1)), "compressed prefix carries the parity of y");
		else V_ASSERT(buf[0] == 4 && buf[2] == TY[i], "packed form 04 || x || y");
	}
	r = ec_point_init(&back, CV_M);
	V_ASSUME(0 == r);
	r = LCB_IMPORT(&CV, buf, NULL, sz, &back);
	V_ASSERT(0 == r, "import of an exported key succeeds");
	V_ASSERT(env_point_is(&back, i), "import(export(P)) == P");
	if (0 == i) V_WITNESS("infinity round trip");
	if (0 != i && 0 == TY[i]) V_WITNESS("y = 0 point");
	V_WITNESS("finite round trip");

#elif MODE == K_IMPORT
	uint8_t *buf = v_buf(IN.b, ISIZE);
	unsigned idx, want_ok;
	r = ec_point_init(&back, CV_M);
	V_ASSUME(0 == r);
	back.infinity = 0;
	r = LCB_IMPORT(&CV, buf, NULL, ISIZE, &back);
#if ISIZE == 1
	want_ok = (0 == IN.b[0]);
	idx = 0;
#elif ISIZE == 2
	{	/* 02/03 || x : the root with the requested parity */
		unsigned x = IN.b[1], par = (IN.b[0] & 1), i0 = ((x < CV_P) ? XIDX[x] : 0);
		idx = 0;
		if (0 != i0)
			idx = (((TY[i0] & 1) == par) ? i0 : (CV_NTOT - i0));
		want_ok = ((2 == IN.b[0] || 3 == IN.b[0]) && 0 != idx && (TY[idx] & 1) == par);
	}
#else
	idx = env_index_of(IN.b[1], IN.b[2]);
	want_ok = ((4 == IN.b[0] || 6 == IN.b[0] || 7 == IN.b[0]) && 0 != idx);
#endif
#ifndef EC_DISABLE_PUB_KEY_CHK
	want_ok = (want_ok && in_subgroup(idx));
	if (want_ok) {
		V_ASSERT(0 == r, "every standard encoding of a valid key is accepted");
		V_ASSERT(env_point_is(&back, idx), "imported point is the encoded one (root with the requested parity)");
		V_WITNESS("accepted");
	} else {
		V_ASSERT(0 != r, "anything else is refused (off curve, coordinate >= p, wrong prefix, outside the subgroup)");
		V_WITNESS("refused");
		if (0 != idx && !in_subgroup(idx)) V_WITNESS("on the curve but outside the subgroup");
	}
#else
	(void)want_ok;
	V_ASSERT(0 == r || (-1) == r || EINVAL == r, "status is one of the documented codes");
	V_WITNESS("import without validation");
#endif

#elif MODE == K_KEYGEN
#ifndef SEEDX
#define SEEDX 0		/* extra seed bytes behind the first EC_CURVE_CALC_BYTES ones: must be ignored */
#endif
	uint8_t seedsrc[CV_BYTES + 1] = { IN.d, IN.d2 };
	uint8_t *seed = v_buf(seedsrc, CV_BYTES + SEEDX), *priv = (uint8_t *)v_alloc(CV_BYTES);
	uint8_t *pub = (uint8_t *)v_alloc(3), *puby = (uint8_t *)v_alloc(CV_BYTES);
	size_t psz = 777;
	uint32_t d = ((IN.d < CV_N) ? IN.d : ((IN.d % (CV_N - 1)) + 1));
	unsigned qi = ((d * CV_H) % CV_NTOT);
	r = LCB_KEYGEN(&CV, seed, CV_BYTES + SEEDX, 0, priv, &psz, pub, puby, &sz);
	if (0 == d) {
		V_ASSERT(0 != r || 1 == sz, "seed 0 does not yield a finite key");
		V_WITNESS("seed zero");
	} else {
		V_ASSERT(0 == r, "key generation succeeds for every non-zero seed");
		V_ASSERT(CV_BYTES == psz && priv[0] == d, "private key = (seed mod (n-1)) + 1 (or the seed itself below n)");
		V_ASSERT(CV_BYTES == sz && pub[0] == TX[qi] && puby[0] == TY[qi], "public key = d*G (separate x, y form)");
		V_WITNESS("key generated");
	}

#elif MODE == K_RECOVER
	uint8_t *priv = v_buf(&IN.d, CV_BYTES), *pub = (uint8_t *)v_alloc(3);
	unsigned qi = ((IN.d * CV_H) % CV_NTOT);
	r = LCB_RECOVER(&CV, priv, CV_BYTES, (FORM == F_COMPRESSED), pub, NULL, &sz);
	if (IN.d >= CV_N) {
		V_ASSERT(0 != r, "private key >= n refused");
		V_WITNESS("key out of range");
	} else if (0 == IN.d) {
		V_ASSERT(0 != r || (1 == sz && 0 == pub[0]), "private key 0 gives no finite public key");
		V_WITNESS("key zero");
	} else {
		V_ASSERT(0 == r, "recovery succeeds");
		V_ASSERT(pub[1] == TX[qi], "x of d*G");
		if (FORM == F_COMPRESSED) V_ASSERT(2 == sz && pub[0] == (2 + (TY[qi] & 1)), "compressed form");
		else V_ASSERT(3 == sz && 4 == pub[0] && pub[2] == TY[qi], "packed form");
		V_WITNESS("recovered");
	}

#elif MODE == K_DH
	/* Alice d, Bob d2; public keys in packed form */
#ifdef DH_ZERO_KEY
	/* private key 0 (passes the d < n test): the shared point is the neutral element, the call must fail */
	{
		V_ASSUME(IN.d2 >= 1 && IN.d2 < CV_N);
		unsigned qz = ((IN.d2 * CV_H) % CV_NTOT);
		uint8_t pz[3] = { 4, TX[qz], TY[qz] }, zero = 0;
		uint8_t *bpz = v_buf(pz, 3), *dz = v_buf(&zero, CV_BYTES), *sz0 = (uint8_t *)v_alloc(CV_BYTES);
		size_t zz = 777;
		int rz = LCB_DH(&CV, (0 != IN.cof), bpz, NULL, 3, dz, CV_BYTES, sz0, &zz);
		V_ASSERT(0 != rz, "Diffie-Hellman whose shared point is the neutral element (private key 0) fails");
		V_WITNESS("dh zero key");
		return;
	}
#endif
	V_ASSUME(IN.d >= 1 && IN.d < CV_N && IN.d2 >= 1 && IN.d2 < CV_N);
	unsigned qa = ((IN.d * CV_H) % CV_NTOT), qb = ((IN.d2 * CV_H) % CV_NTOT);
	uint8_t pa[3] = { 4, TX[qa], TY[qa] }, pb[3] = { 4, TX[qb], TY[qb] };
	uint8_t *bpa = v_buf(pa, 3), *bpb = v_buf(pb, 3), *da = v_buf(&IN.d, CV_BYTES), *db = v_buf(&IN.d2, CV_BYTES);
	uint8_t *s1 = (uint8_t *)v_alloc(CV_BYTES), *s2 = (uint8_t *)v_alloc(CV_BYTES);
	size_t z1 = 777, z2 = 777;
	int cof = (0 != IN.cof);
	int r1 = LCB_DH(&CV, cof, bpb, NULL, 3, da, CV_BYTES, s1, &z1);
	int r2 = LCB_DH(&CV, cof, bpa, NULL, 3, db, CV_BYTES, s2, &z2);
	unsigned si = ((((cof ? CV_H : 1) * IN.d) % CV_N) * qb) % CV_NTOT;
	V_ASSERT(r1 == r2, "both parties get the same status");
	if (0 == r1) {
		V_ASSERT(CV_BYTES == z1 && CV_BYTES == z2 && s1[0] == s2[0], "Diffie-Hellman is symmetric");
		V_ASSERT(0 != si && s1[0] == TX[si], "shared secret = x((h) * d * Q)");
		V_WITNESS("shared secret");
	} else {
		V_ASSERT(0 == si, "failure only when the shared point is at infinity");
		V_WITNESS("dh refused");
	}
#else
#error "unknown MODE"
#endif
}

void harness(void) {
	V_BEGIN();
	body();
	ENV_FINAL();
}
