"""C09 - key encoding, validation, derivation and Diffie-Hellman (synthetic curves, 1-byte field)."""
import os
SOLVER = os.environ.get("C09_SOLVER", "cadical")
CNAME = {8: "p7n11", 9: "p11n7", 10: "p7n5h2", 11: "p11n7h2", 1: "p23n31", 2: "p31n23", 4: "p23n13h2", 5: "p23n13h2g"}
MODES = {1: "roundtrip", 2: "import", 3: "keygen", 4: "recover", 5: "dh"}
KF = {}     # filled when a finding needs a guard

META = {
    "bounds": "synthetic curves over a one-byte field (curve->m = 8) with the whole group enumerated: prime order (p=7 n=11, "
              "p=11 n=7, thorough p=23 n=31, p=31 n=23) and cofactor 2 (p=7 #E=10, p=11 #E=14, thorough p=23 #E=26) so that the "
              "order check n*Q = O decides; big- and little-endian entry points; export forms compressed and packed for "
              "ALL points incl. infinity then import; import of EVERY byte string of the accepted sizes 1, 2 (02/03||x) "
              "and 3 (04/06/07||x||y) with validation on; key generation for ALL seed bytes, public-key recovery for ALL "
              "private-key bytes, Diffie-Hellman for ALL key pairs with and without cofactor; all byte buffers exactly "
              "sized, pointer checks on",
    "outside": "the 32 built-in curves at full size; the 'separate x, y' (size = field bytes) and 'x || y' (2 * field bytes) forms: "
               "with a one-byte field their sizes coincide with the 00 marker and the compressed form and the library's size "
               "switch never reaches them (a two-byte field, curve->m = 16, is needed; not run); hybrid prefixes 06/07 are "
               "accepted by the library without comparing the parity bit (SEC1 2.3.4 asks for it) - oracle follows the "
               "library; ecdsa_sign_be/le reading `bytes` of rnd when only rnd_size >= priv_key_size was checked (needs a "
               "two-byte field to be visible); bn_mod_sqrt / bn_mod_legendre themselves (C01; stubbed: either root may come "
               "back), the ladders' point operations (C02 layer A) and ec_point_mult_bp (C02) are stubs",
    "assumptions": [
        "field layer stubs (common/ec/spec_bn.h) incl. bn_mod_sqrt (returns either root, solver-chosen; -1 for a non-residue), "
        "bn_mod_reduce, bn_import_be_bin, bn_export_be_bin, bn_import_be_hex; memcpy = bounded byte loop",
        "point operations below the ladder of ec_point_check_scalar_mult = index arithmetic (common/ec/ec_ptops_spec.h); "
        "EC_PF_UNKPT_MULT_ALGO = BIN, EC_PF_FXP_MULT_ALGO = BIN",
        "ec_point_mult_bp / ec_point_unknown_pt_mult called from ecdsa.h = index arithmetic (common/ec/ec_mult_spec.h)",
        "v_alloc: malloc does not fail",
    ],
    "harness_functions": ["harness", "body", "in_subgroup"],
}


def job(curve, mode, endian, extra=None, tag="", unwind=10, timeout=None, cost=1):
    defs = {"CURVE": curve, "MODE": mode, "ENDIAN": endian}
    defs.update(extra or {})
    defs.update(KF)
    name = "%s-%s-%s%s" % (CNAME[curve], MODES[mode], "le" if endian else "be", tag)
    j = {"name": name, "src": "key.c", "defs": defs, "unwind": unwind, "solver": SOLVER, "cost": cost,
         "shape": "curve %s, %s entry points%s; all points / all byte values" % (CNAME[curve], "little-endian" if endian else "big-endian", tag),
         "desc": {1: "import(export(P)) == P, documented sizes and prefix bytes, exactly sized buffer",
                  2: "import accepts exactly: 00, or a standard encoding of a curve point with n*Q = O; returns that point",
                  3: "ecdsa_key_gen: d = reduced seed, Q = d*G, sizes", 4: "public key recovered from private key == d*G; d >= n refused",
                  5: "ecdsa_dh == x((h)*d*Q), same for both parties"}[mode]}
    if timeout:
        j["timeout"] = timeout
    return j


def jobs(tier):
    out = []
    curves = [8, 10] if tier == "quick" else [8, 9, 10, 11, 1, 4]
    for c in curves:
        big = c in (1, 2, 4, 5)
        to = 1500 if big else (300 if tier == "quick" else None)
        for endian in (0, 1):
            for form, ftag in ((1, "-compressed"), (2, "-packed")):
                out.append(job(c, 1, endian, {"FORM": form}, ftag, timeout=to, cost=3))
                out.append(job(c, 1, endian, {"FORM": form, "EC_DISABLE_PUB_KEY_CHK": 1}, ftag + "-nochk"))
                out.append(job(c, 4, endian, {"FORM": form}, ftag, timeout=to, cost=3))
            for isize in (1, 2, 3):
                out.append(job(c, 2, endian, {"ISIZE": isize}, "-size%d" % isize, timeout=to, cost=4))
            out.append(job(c, 2, endian, {"ISIZE": 3, "EC_DISABLE_PUB_KEY_CHK": 1}, "-size3-nochk"))
            out.append(job(c, 3, endian, None, "", timeout=to, cost=3))
            out.append(job(c, 3, endian, {"SEEDX": 1}, "-longseed", timeout=to, cost=3))
            out.append(job(c, 5, endian, None, "", timeout=to, cost=3))
            out.append(job(c, 5, endian, {"DH_ZERO_KEY": 1}, "-zerokey", timeout=to, cost=2))
    return out
