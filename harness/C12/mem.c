/* C12: include/utils/mem_utils.h helpers.  FN: 1 chr family, 2 find family, 3 mem_find_stream, 4 mem_replace_arr
 * (also reached through xml_encode/xml_decode, see xmlcodec in xml.c), 5 cmp / case / dup / realloc_items.
 * LEN = buffer length, LEN2 = needle / second buffer length; contents, offsets, bytes to find: symbolic. */
#include "verif.h"
#include <errno.h>
#include "libc_stubs.h"
#include "utils/mem_utils.h"

#ifndef LEN2
#define LEN2 1
#endif
struct in_s { uint8_t a[LEN + 1]; uint8_t b[LEN2 + 1]; uint8_t c; size_t off, st; uint8_t flag; };
#include "verif_in.h"

#define IN_OR_NULL(p, base, total) ((p) == NULL || ((const uint8_t *)(p) >= (const uint8_t *)(base) && \
	(const uint8_t *)(p) < (const uint8_t *)(base) + (total)))

#include "replace_check.h"

void harness(void) {
	V_BEGIN();
	uint8_t *a = v_buf(IN.a, LEN);
	uint8_t *b = v_buf(IN.b, LEN2);
	void *p;
#if FN == 1
	V_ASSUME(IN.off <= LEN);
	p = mem_chr(a, LEN, IN.c);		V_ASSERT(IN_OR_NULL(p, a, LEN), "mem_chr result inside buffer");
	p = mem_chr_off(IN.off, a, LEN, IN.c);	V_ASSERT(IN_OR_NULL(p, a + IN.off, LEN - IN.off), "mem_chr_off result inside [off, size)");
	p = mem_chr_ptr(a + IN.off, a, LEN, IN.c); V_ASSERT(IN_OR_NULL(p, a + IN.off, LEN - IN.off), "mem_chr_ptr result inside [ptr, end)");
	p = mem_rchr(a, LEN, IN.c);		V_ASSERT(IN_OR_NULL(p, a, LEN), "mem_rchr result inside buffer");
	p = mem_rchr_off(IN.off, a, LEN, IN.c);	V_ASSERT(IN_OR_NULL(p, a, LEN), "mem_rchr_off result inside buffer");
	p = mem_rchr_ptr(a + IN.off, a, LEN, IN.c); V_ASSERT(IN_OR_NULL(p, a, IN.off), "mem_rchr_ptr result inside [buf, ptr)");
	V_WITNESS("chr family done");
#elif FN == 2
	V_ASSUME(IN.off <= LEN);
	p = mem_find(a, LEN, b, LEN2);
	V_ASSERT(p == NULL || (IN_OR_NULL(p, a, LEN) && (size_t)((uint8_t *)p - a) + LEN2 <= LEN), "mem_find match inside buffer");
	p = mem_find_off(IN.off, a, LEN, b, LEN2);
	V_ASSERT(p == NULL || ((uint8_t *)p >= a + IN.off && (size_t)((uint8_t *)p - a) + LEN2 <= LEN), "mem_find_off match inside [off, size)");
	p = mem_find_ptr(a + IN.off, a, LEN, b, LEN2);
	V_ASSERT(p == NULL || ((uint8_t *)p >= a + IN.off && (size_t)((uint8_t *)p - a) + LEN2 <= LEN), "mem_find_ptr match inside [ptr, end)");
	if (p != NULL) V_WITNESS("find family found");
	V_WITNESS("find family done");
#elif FN == 3
	{
		size_t st = IN.st, oe = 777;
		int r = mem_find_stream(a, LEN, b, LEN2, &st, (IN.flag & 1) ? NULL : &oe);
		if (LEN == 0 || LEN2 == 0 || IN.st >= LEN2) {
			V_ASSERT(r == EINVAL, "find_stream: bad arguments refused");
			V_WITNESS("find_stream einval");
		} else if (r == 0) {
			V_ASSERT(st == 0, "find_stream: state reset on match");
			if (!(IN.flag & 1)) V_ASSERT(oe >= 1 && oe <= LEN, "find_stream: end offset inside buffer");
			V_WITNESS("find_stream found");
		} else {
			V_ASSERT(r == ENOENT && st < LEN2, "find_stream: state stays below needle size");
			V_WITNESS("find_stream not found");
		}
	}
#elif FN == 4
	{	/* two replacement rules with growing and shrinking replacement: "ab" -> b[0], a byte c -> "c c c" */
		uint8_t k1[2] = { 'a', 'b' }, k2[1], d1[1], d2[3];
		k2[0] = IN.c; d1[0] = IN.b[0]; d2[0] = d2[1] = d2[2] = IN.c;
		const void *sr[2] = { k1, k2 }, *dr[2] = { d1, d2 };
		size_t sc[2] = { 2, 1 }, dc[2] = { 1, 3 };
		(void)b;
#define REPL_CALL(dst, cap, psz) mem_replace_arr(a, LEN, 2, NULL, sr, sc, dr, dc, (dst), (cap), (psz), NULL)
		REPLACE_CHECK(3 * LEN, "mem_replace_arr");
	}
#elif FN == 5
	{
		int r;
		r = mem_cmp(a, b, (LEN < LEN2 ? LEN : LEN2));	(void)r;
		r = mem_cmpn(a, LEN, b, LEN2);	V_ASSERT(LEN == LEN2 || r == (LEN > LEN2 ? 127 : -127), "mem_cmpn: different sizes never read");
		r = mem_cmpi(a, b, (LEN < LEN2 ? LEN : LEN2));	(void)r;
		r = mem_cmpin(a, LEN, b, LEN2);	(void)r;
		uint8_t *d = (uint8_t *)v_alloc(LEN);
		size_t n = mem_to_lower(d, a, LEN);	V_ASSERT(n == LEN, "mem_to_lower size");
		n = mem_to_upper(a, a, LEN);		V_ASSERT(n == LEN, "mem_to_upper in place size");
		uint8_t *dup = (uint8_t *)mem_dup2(a, LEN, (IN.flag & 7));
		V_ASSERT(dup == NULL || LEN == 0 || dup[LEN - 1] == a[LEN - 1], "mem_dup2 copy (NULL only when malloc fails)");
		void *items = NULL;
		size_t allocated = 0;
		r = realloc_items(&items, sizeof(void *), &allocated, 4, (IN.flag >> 3) & 7);
		V_ASSERT(r == 0 && allocated > ((IN.flag >> 3) & 7), "realloc_items: room for count + 1 items");
		V_ASSERT(((void **)items)[(IN.flag >> 3) & 7] == NULL, "realloc_items: new memory zeroed");
		((void **)items)[(IN.flag >> 3) & 7] = (void *)a;	/* the slot the callers write next */
		r = realloc_items(&items, sizeof(void *), &allocated, 4, ((IN.flag >> 3) & 7) + 1);
		V_ASSERT(r == 0 && allocated > ((IN.flag >> 3) & 7) + 1, "realloc_items: grows with count");
		V_ASSERT(((void **)items)[(IN.flag >> 3) & 7] == (void *)a, "realloc_items: earlier items preserved");
		V_ASSERT(((void **)items)[((IN.flag >> 3) & 7) + 1] == NULL, "realloc_items: next slot zeroed");
		((void **)items)[((IN.flag >> 3) & 7) + 1] = NULL;
		V_WITNESS("cmp/case/dup done");
	}
#endif
}
