/* C12: src/utils/buf_str.c - cvt_bin2hex, cvt_hex2bin, calc_*sptab*, buf2args, buf_get_next_line, data_xor8,
 * memxorbuf, yn_set_flag32.  FN selects the function, LEN = input length, other shape macros per function.
 * Input bytes symbolic; every buffer is an exactly sized heap object. */
#include "verif.h"
#include <errno.h>
#include "libc_stubs.h"
#include "utils/buf_str.c"

#ifndef LEN2
#define LEN2 1
#endif
#ifndef MAXARGS
#define MAXARGS 1
#endif
struct in_s { uint8_t src[LEN + 1]; uint8_t src2[LEN2 + 1]; uint8_t flag; size_t off, sz; };
#include "verif_in.h"

#define INSIDE(p, n, base, total) ((const uint8_t *)(p) >= (const uint8_t *)(base) && \
	(size_t)((const uint8_t *)(p) - (const uint8_t *)(base)) <= (size_t)(total) && \
	(size_t)(n) <= (size_t)(total) - (size_t)((const uint8_t *)(p) - (const uint8_t *)(base)))

void harness(void) {
	V_BEGIN();
	uint8_t *src = v_buf(IN.src, LEN);
	size_t sz = 777;
	int r;
#if FN == 5 && defined(KF_BUF2ARGS_NUL)
	/* known finding: buf2args writes its terminator at buf[buf_size] when an argument ends the buffer.  Blocking clause:
	 * exactly that one byte is made part of the object ("C string" calling convention); any other overrun still fails. */
	src = (uint8_t *)v_alloc(LEN + 1);
	memcpy(src, IN.src, LEN + 1);
#endif
#if FN == 1	/* cvt_bin2hex */
	for (size_t cap = 0; cap <= 2 * LEN + 3; cap++) {
		uint8_t *dst = (uint8_t *)v_alloc(cap);
		sz = 777;
		r = cvt_bin2hex(src, LEN, IN.flag & 1, dst, cap, (IN.flag & 2) ? NULL : &sz);
		if (cap < 2) {
			V_ASSERT(r == EINVAL, "bin2hex: capacity below two is refused");
			V_WITNESS("bin2hex einval");
		} else if (2 * LEN > cap) {
			V_ASSERT(r == EOVERFLOW, "bin2hex: too small destination is refused");
			if (!(IN.flag & 2)) V_ASSERT(sz == 2 * LEN, "bin2hex: EOVERFLOW reports the required size");
			V_WITNESS("bin2hex eoverflow");
		} else {
			V_ASSERT(r == 0, "bin2hex: destination of the required size (or larger) succeeds");
			if (!(IN.flag & 2)) {
				V_ASSERT(sz <= cap, "bin2hex: produced size within capacity");
				if ((IN.flag & 1) && LEN > 0) V_ASSERT(sz == 2 * LEN, "bin2hex: produced size is two per byte");
				if (sz < cap) V_ASSERT(dst[sz] == 0, "bin2hex: terminator only where there is room");
			}
			if (cap == 2 * LEN) V_WITNESS("bin2hex exact-size buffer");
			V_WITNESS("bin2hex ok");
		}
	}
#elif FN == 2	/* cvt_hex2bin: reports no size; claim: never overflows, LEN/2 always suffices */
	for (size_t cap = 0; cap <= LEN / 2 + 1; cap++) {
		uint8_t *dst = (uint8_t *)v_alloc(cap);
		sz = 777;
		r = cvt_hex2bin(src, LEN, IN.flag & 1, dst, cap, (IN.flag & 2) ? NULL : &sz);
		if (LEN == 0 || cap == 0) {
			V_ASSERT(r == EINVAL, "hex2bin: empty source / destination is refused");
			V_WITNESS("hex2bin einval");
		} else if (r != 0) {
			V_ASSERT(r == EOVERFLOW && cap < LEN / 2, "hex2bin: only EOVERFLOW, only below LEN/2");
			V_WITNESS("hex2bin eoverflow");
		} else {
			if (!(IN.flag & 2)) V_ASSERT(sz <= cap, "hex2bin: produced size within capacity");
			if (cap == LEN / 2) V_WITNESS("hex2bin exact-size buffer");
			V_WITNESS("hex2bin ok");
		}
	}
#elif FN == 3	/* calc_*sptab* */
	{
		size_t n;
		n = calc_sptab_count((const char *)src, LEN);
		V_ASSERT(n <= LEN, "calc_sptab_count within length");
		n = calc_non_sptab_count((const char *)src, LEN);
		V_ASSERT(n <= LEN, "calc_non_sptab_count within length");
		n = calc_sptab_count_r((const char *)src, LEN);
		V_ASSERT(n <= LEN, "calc_sptab_count_r within length");
		n = calc_non_sptab_count_r((const char *)src, LEN);
		V_ASSERT(n <= LEN, "calc_non_sptab_count_r within length");
		V_WITNESS("calc ok");
	}
#elif FN == 5	/* buf2args */
	{
		char **args = (char **)v_alloc(sizeof(char *) * MAXARGS);
		size_t *sizes = (size_t *)v_alloc(sizeof(size_t) * MAXARGS);
		size_t n = buf2args((char *)src, LEN, MAXARGS, args, sizes);
		V_ASSERT(n <= MAXARGS, "buf2args: at most max_args arguments");
		for (size_t i = 0; i < n; i++) {
			V_ASSERT(INSIDE(args[i], sizes[i], src, LEN), "buf2args: every argument lies inside the buffer");
		}
		if (n == MAXARGS) V_WITNESS("buf2args full");
		if (n == 0) V_WITNESS("buf2args none");
		V_WITNESS("buf2args ok");
	}
#elif FN == 6	/* buf_get_next_line: arbitrary previous line inside the buffer */
	{
		const uint8_t *nl = NULL;
		size_t nls = 777;
		const uint8_t *line = NULL;
		size_t lsz = 0;
		if (IN.flag & 1) {
			V_ASSUME(IN.off <= LEN && IN.sz <= LEN - IN.off);
			line = src + IN.off;
			lsz = IN.sz;
		}
		r = buf_get_next_line(src, LEN, line, lsz, &nl, &nls);
		if (LEN == 0) {
			V_ASSERT(r == EINVAL, "next_line: empty buffer is refused");
			V_WITNESS("next_line einval");
		} else if (r == 0) {
			V_ASSERT(INSIDE(nl, nls, src, LEN), "next_line: returned line lies inside the buffer");
			if (line != NULL) V_ASSERT(nl >= line + lsz, "next_line: never goes backwards");
			V_WITNESS("next_line ok");
		} else {
			V_ASSERT(r == -1, "next_line: only EOF otherwise");
			V_WITNESS("next_line eof");
		}
	}
#elif FN == 7	/* buf_get_next_line: iteration as done by ini_buf_parse terminates within LEN lines */
	{
		const uint8_t *pl = NULL;
		size_t pls = 0, cnt = 0;
		for (; cnt < LEN + 2; cnt++) {
			const uint8_t *prev = pl;
			size_t prevs = pls;
			if (0 != buf_get_next_line(src, LEN, pl, pls, &pl, &pls)) break;
			V_ASSERT(INSIDE(pl, pls, src, LEN), "line iteration: line inside the buffer");
			if (prev != NULL) V_ASSERT(pl > prev || pl + pls > prev + prevs, "line iteration: strict progress");
		}
		V_ASSERT(cnt <= (LEN ? LEN : 0), "line iteration: ends after at most LEN lines");
		if (cnt == LEN && LEN > 0) V_WITNESS("line iteration max lines");
		V_WITNESS("line iteration done");
	}
#elif FN == 8	/* data_xor8, memxorbuf, yn_set_flag32 */
	{
		uint8_t *s2 = v_buf(IN.src2, LEN2);
		uint8_t x = data_xor8(src, LEN);
		(void)x;
		memxorbuf(src, LEN, s2, LEN2);
		uint32_t fl = 0;
		r = yn_set_flag32(src, LEN, 4, &fl);
		V_ASSERT(r == 0 || r == EINVAL, "yn_set_flag32 result");
		V_WITNESS("xor ok");
	}
#endif
}
