/* C12 (memory safety only; the store semantics are C17): ini_buf_parse / ini_buf_calc_size / ini_buf_gen / ini_destroy.
 * Shape: LEN arbitrary input bytes (any mix of CR, LF, '[', ']', '=', ';', '#'); CAP = output capacity for
 * ini_buf_gen on the parsed store (exactly sized object; symbolic-size memcpy makes each gen call expensive, so one per job).
 * KF_INI_GEN_BOUNDS: known finding - ini_buf_gen tests each line against the whole buffer size instead of the space
 * left, so it overruns whenever capacity < total size but the lines fit one by one.  Blocking clause: capacities
 * 1..total-1 are excluded by assumption. */
#include "verif.h"
#include <errno.h>
/* ini_line_alloc__int: calloc(1, sizeof(ini_line_t) + line size + 16), line size 0..LEN */
#define C12_SZ_LO (64 + 16)
#define C12_SZ_HI (64 + 16 + LEN)
#define C12_SPEC_REALLOC_ITEMS
#include "libc_stubs.h"
#include "utils/buf_str.c"
#include "utils/ini.c"

struct in_s { uint8_t src[LEN + 1]; };
#include "verif_in.h"

void harness(void) {
	V_BEGIN();
	uint8_t *src = v_buf(IN.src, LEN);
	ini_p ini = NULL;
	int r = ini_create(&ini);
	V_ASSERT(r == 0 && ini != NULL, "ini_create");
	V_ASSERT(sizeof(ini_line_t) == 64, "harness: allocation size range matches ini_line_t");
	r = ini_buf_parse(ini, src, LEN);
	V_ASSERT(r == 0, "ini_buf_parse accepts any bytes");
	V_ASSERT(ini->lines_count <= LEN, "parse: at most one line per input byte");
	size_t sum = 0;
	for (size_t i = 0; i < ini->lines_count; i++) {
		ini_line_p l = ini->lines[i];
		V_ASSERT(l != NULL && l->data_size <= LEN && l->data_allocated_size >= l->data_size, "parse: line stored inside its allocation");
		if (l->type == INI_LINE_TYPE_SECTION || l->type == INI_LINE_TYPE_VALUE)
			V_ASSERT(l->name >= l->data && l->name_size <= l->data_size - (size_t)(l->name - l->data), "parse: name inside the line");
		if (l->type == INI_LINE_TYPE_VALUE)
			V_ASSERT(l->val >= l->data && l->val_size <= l->data_size - (size_t)(l->val - l->data), "parse: value inside the line");
		sum += l->data_size + 2;
	}
	size_t need = 777;
	r = ini_buf_calc_size(ini, &need);
	V_ASSERT(r == 0 && need == sum && need <= 3 * LEN, "calc_size = sum of (line + CRLF)");
#ifdef CAP
	{
		const size_t cap = CAP;
#ifdef KF_INI_GEN_BOUNDS
		V_ASSUME(cap == 0 || cap >= need);
#endif
		uint8_t *dst = (uint8_t *)v_alloc(cap);
		size_t out = 777;
		r = ini_buf_gen(ini, dst, cap, &out);
		if (cap == 0) {
			V_ASSERT(r == EINVAL, "gen: zero capacity refused");
		} else if (cap < need) {
			V_ASSERT(r != 0, "gen: too small buffer is refused");
			V_ASSERT(out <= cap, "gen: reported size within capacity");
			V_WITNESS("gen too small");
		} else {
			V_ASSERT(r == 0 && out == need, "gen: the size calc_size reported (or more) suffices and is produced");
			if (cap == need) V_WITNESS("gen exact-size buffer");
			V_WITNESS("gen ok");
		}
	}
#endif
	ini_destroy(ini);
	V_WITNESS("ini done");
}
