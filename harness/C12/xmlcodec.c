/* C12: xml_encode / xml_decode (src/utils/xml.c), i.e. mem_replace_arr with the five XML entity rules.
 * Shape: FN (1 encode, 2 decode), LEN source bytes (symbolic), CAP destination capacity (exactly sized object).
 * The required size is computed by a scan in the harness (encode: 1 byte -> 1/4/5/6 bytes; decode: left-to-right,
 * every complete entity -> 1 byte; the five entities all start with '&' and none is a prefix of another, so the
 * leftmost-first rule of mem_replace_arr is exactly this scan).
 * KF_MEM_REPLACE_BOUNDS: known finding - mem_replace_arr tests the capacity against the length of the searched pattern
 * (not of the replacement), forms dst_cur + i + pattern length past the end of dst, never tests the tail copy and reports
 * no size.  Blocking clause: only capacities >= required + 6 (longest pattern) are claimed. */
#include "verif.h"
#include <errno.h>
#include "libc_stubs.h"
#include "utils/xml.c"

struct in_s { uint8_t src[LEN + 1]; };
#include "verif_in.h"

static size_t ent_at(const uint8_t *s, size_t n) {	/* length of the entity starting at s (n bytes left), 0 if none */
	if (n >= 6 && 0 == memcmp(s, "&apos;", 6)) return (6);
	if (n >= 6 && 0 == memcmp(s, "&quot;", 6)) return (6);
	if (n >= 5 && 0 == memcmp(s, "&amp;", 5)) return (5);
	if (n >= 4 && 0 == memcmp(s, "&lt;", 4)) return (4);
	if (n >= 4 && 0 == memcmp(s, "&gt;", 4)) return (4);
	return (0);
}

void harness(void) {
	V_BEGIN();
	uint8_t *src = v_buf(IN.src, LEN);
	size_t need = 0, sz = 777;
	int r;
#if FN == 1
	for (size_t i = 0; i < LEN; i++) {
		uint8_t c = src[i];
		need += (c == '\'' || c == '"') ? 6 : (c == '&') ? 5 : (c == '<' || c == '>') ? 4 : 1;
	}
#else
	for (size_t i = 0; i < LEN; ) {
		size_t e = ent_at(src + i, LEN - i);
		i += e ? e : 1;
		need++;
	}
#endif
#ifdef KF_MEM_REPLACE_BOUNDS
	V_ASSUME(CAP >= need + 6);
#endif
	uint8_t *dst = (uint8_t *)v_alloc(CAP);
#if FN == 1
	r = xml_encode(src, LEN, dst, CAP, &sz);
#else
	r = xml_decode(src, LEN, dst, CAP, &sz);
#endif
	if (CAP < need) {
		V_ASSERT(r == ENOBUFS, "xml codec: too small destination is refused");
		V_ASSERT(sz == need, "xml codec: ENOBUFS reports the required size");
		V_WITNESS("xml codec enobufs");
	} else {
		V_ASSERT(r == 0, "xml codec: destination of the required size (or larger) succeeds");
		V_ASSERT(sz == need, "xml codec: produced size is the required size");
		if (CAP == need) V_WITNESS("xml codec exact-size buffer");
		V_WITNESS("xml codec ok");
	}
}
