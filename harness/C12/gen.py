#!/usr/bin/env python3
"""C12 generator: `gen.py <outdir> <repo>`.
Writes <outdir>/bt_encode_top.c = /repo/src/utils/bt_encode.c with ONLY the definition line of bt_en_decode renamed to
bt_en_decode_top (mechanical, checked to match exactly once).  The recursive calls inside keep the name bt_en_decode and
are bound by the harness bt.c to a contract stub (induction on the nesting depth, see bt.c).  Nothing else is changed."""
import re, sys, os
out, repo = sys.argv[1], sys.argv[2]
src = open(os.path.join(repo, "src/utils/bt_encode.c")).read()
pat = re.compile(r"^bt_en_decode\(uint8_t \*buf, size_t buf_size, bt_en_node_p \*ret_data, size_t \*ret_buf_off\) \{", re.M)
assert len(pat.findall(src)) == 1, "definition of bt_en_decode not found exactly once"
dst = pat.sub("bt_en_decode_top(uint8_t *buf, size_t buf_size, bt_en_node_p *ret_data, size_t *ret_buf_off) {", src)
assert dst.count("bt_en_decode(") == src.count("bt_en_decode(") - 1
open(os.path.join(out, "bt_encode_top.c"), "w").write(dst)
