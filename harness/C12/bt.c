/* C12: src/utils/bt_encode.c - bt_en_decode (recursive, heap), bt_dict_find, bt_en_free on LEN arbitrary bytes.
 *
 * Direct symbolic execution of the recursion was infeasible (LEN 3, depth 2: no verdict in 400 s; every level carries two
 * item loops, each with recursive calls and recursive frees on its error paths).  The recursion is therefore decided by
 * INDUCTION ON THE NESTING DEPTH: gen.py copies bt_encode.c renaming only the definition line to bt_en_decode_top; the
 * recursive calls inside still say bt_en_decode and are bound here to a CONTRACT STUB.  The job proves
 *     "if every nested call obeys contract K, the real body - run on ALL LEN-byte inputs - is memory safe, calls itself
 *      only on spans inside the buffer (K's precondition), terminates, and its own result obeys K".
 * K (success): *ret_data is a fresh node, type 0..3, raw span inside the given span, for strings val.s == raw;
 *     2 <= *ret_buf_off <= buf_size, strings: < buf_size.   K (failure): non-zero result, *ret_data == NULL.
 * Depth 0 (strings, integers) makes no nested call, so K holds for every depth.  Counterexamples are replayed against the
 * real recursive function (REPLAY includes the unmodified bt_encode.c); one that needs stub values the real function
 * cannot produce does not reproduce and is reported as UNCONFIRMED, never as a violation.
 *
 * KF_BT_END_READ: known finding - after the last item of a list / dict the decoder tests *cur_pos for 'e' although
 *   cur_pos may equal buf + buf_size ("li1e").  Blocking clause: one more readable byte that is not 'e'.
 * KF_BT_LEN_WRAP: known finding - the string length test "buf_max <= raw_size + ptm" is done by pointer addition, which
 *   wraps for lengths near SIZE_MAX ("18446744073709551615:") and then accepts the string.
 * KF_BT_DICT_KEY: known finding - a dictionary whose key is not a string ("di1e..") leaves the loop with error == 0 and
 *   returns success with raw_size = (size_t)-1.  Blocking clause: raw span of dictionaries not checked. */
#include "verif.h"
#include <errno.h>
#define C12_NM_HI (LEN + 1)
#define C12_SPEC_REALLOC_ITEMS
#include "libc_stubs.h"
#include "utils/bt_encode.h"

#define NSUB (LEN + 1)
struct in_s { uint8_t src[LEN + 2]; uint8_t key[2]; uint8_t ktype; size_t off;
	struct { uint8_t ok, type; size_t off, raw_off, raw_size; } sub[NSUB]; };
#include "verif_in.h"

#ifdef REPLAY
#include "utils/bt_encode.c"
#define bt_en_decode_top bt_en_decode
#else
int bt_en_decode_top(uint8_t *buf, size_t buf_size, bt_en_node_p *ret_data, size_t *ret_buf_off);
#include "bt_encode_top.c"
static const uint8_t *g_src;
static size_t g_calls;
int bt_en_decode(uint8_t *buf, size_t buf_size, bt_en_node_p *ret_data, size_t *ret_buf_off) {
#ifdef DIRECT	/* no contract: nested calls run the real body again (direct recursion, depth bounded through MAXCONT) */
	return (bt_en_decode_top(buf, buf_size, ret_data, ret_buf_off));
#endif
	V_ASSERT(buf >= g_src && buf <= g_src + LEN && buf_size <= (size_t)((g_src + LEN) - buf),
	    "nested call: span inside the caller's buffer (precondition of K)");
	V_ASSERT(ret_data != NULL, "nested call: result pointer given");
	if (0 == buf_size) return (EINVAL);
	size_t k = g_calls++;
	V_ASSERT(k < NSUB, "at most LEN + 1 nested calls (termination)");
	V_ASSUME(k < NSUB);
	(*ret_data) = NULL;
	if (!IN.sub[k].ok) return (EBADMSG);
	uint8_t type = (IN.sub[k].type & 3);
	size_t off = IN.sub[k].off, ro = IN.sub[k].raw_off, rs = IN.sub[k].raw_size;
	V_ASSUME(off >= 2 && off <= buf_size && (type != BT_EN_TYPE_STR || off < buf_size));
	V_ASSUME(ro >= 1 && ro <= off && rs <= off - ro);
	/* Conditions on the bytes that are NECESSARY for the real function to succeed with this result (they only remove
	 * stub behaviours the real code cannot show, so K stays an over-approximation; they make counterexamples replayable):
	 * 'i': integer, ends at the first 'e';  digit: string, "<digits>:" then exactly <value of digits> bytes;
	 * 'l' / 'd': list / dict whose last consumed byte is 'e';  anything else fails. */
	uint8_t c0 = buf[0];
	if (c0 == 'i') {
		V_ASSUME(type == BT_EN_TYPE_NUM && buf[off - 1] == 'e' && ro == 1 && rs == off - 2);
		for (size_t j = 1; j + 1 < off; j++) V_ASSUME(buf[j] != 'e');
	} else if (c0 >= '0' && c0 <= '9') {
		V_ASSUME(type == BT_EN_TYPE_STR && ro >= 2 && buf[ro - 1] == ':' && off == ro + rs);
		for (size_t j = 1; j + 1 < ro; j++) V_ASSUME(buf[j] != ':');
		V_ASSUME(rs == ustr2usize(buf, ro - 1));
	} else if (c0 == 'l') {
		V_ASSUME(type == BT_EN_TYPE_LIST && buf[off - 1] == 'e' && ro == 1);
	} else if (c0 == 'd') {
		V_ASSUME(type == BT_EN_TYPE_DICT && buf[off - 1] == 'e' && ro == 1);
	} else {
		return (EBADMSG);
	}
	bt_en_node_p n = bt_en_alloc(type, buf + ro, rs);
	if (type == BT_EN_TYPE_STR) n->val.s = buf + ro;
	n->val_count = (type <= BT_EN_TYPE_NUM) ? 1 : 0;	/* nested containers: empty (their content is their own level's business) */
	(*ret_data) = n;
	if (NULL != ret_buf_off) (*ret_buf_off) = off;
	return (0);
}
#endif

static void chk_node(const bt_en_node_p n, const uint8_t *src) {
	V_ASSERT(n != NULL && n->type <= BT_EN_TYPE_DICT, "node present, type 0..3");
	V_ASSERT(n->raw >= src && n->raw <= src + LEN, "node raw pointer inside the buffer");
#ifdef KF_BT_DICT_KEY
	if (n->type != BT_EN_TYPE_DICT)
#endif
	V_ASSERT(n->raw_size <= (size_t)((src + LEN) - n->raw), "node raw span inside the buffer");
	if (n->type == BT_EN_TYPE_STR) V_ASSERT(n->val.s == n->raw, "string value is the raw span");
}

void harness(void) {
	V_BEGIN();
#ifdef KF_BT_END_READ
	uint8_t *src = v_buf(IN.src, LEN + 1);
	V_ASSUME(src[LEN] != 'e');
#else
	uint8_t *src = v_buf(IN.src, LEN);
#endif
#ifndef REPLAY
	g_src = src;
#endif
#ifdef MAXCONT	/* shape: at most MAXCONT bytes are 'l' or 'd' => nesting depth <= MAXCONT + 1 (recursion bound for DIRECT) */
	{
		size_t nc = 0;
		for (size_t i = 0; i < LEN; i++) nc += (src[i] == 'l' || src[i] == 'd');
		V_ASSUME(nc <= MAXCONT);
	}
#endif
#ifdef DIGIT0	/* shape: the input starts with a digit (byte string "<len>:<data>"); lets LEN reach the 20 digits of SIZE_MAX */
	V_ASSUME(LEN > 0 && src[0] >= '0' && src[0] <= '9');
#endif
#ifdef NEARMAX	/* shape: "<digits>:" fills all but the last byte and the length is within 2^32 of SIZE_MAX, where the pointer
		 * addition in the length test wraps on every real address space (CBMC's own pointers wrap at 2^52 already) */
	V_ASSUME(LEN >= 3 && src[LEN - 2] == ':');
	for (size_t i = 1; i + 2 < LEN; i++) V_ASSUME(src[i] != ':');
	{	/* leading digits fixed to those of 2^64 (SAT does not invert a 20-step multiply-by-ten chain in minutes), last six free */
		static const char pfx[] = "18446744073709";
		for (size_t i = 0; i < sizeof(pfx) - 1 && i + 2 < LEN; i++) V_ASSUME(src[i] == (uint8_t)pfx[i]);
	}
	V_ASSUME(ustr2usize(src, LEN - 2) >= 0xffffffff00000000ull);
#endif
#ifdef KF_BT_LEN_WRAP	/* known finding: "buf_max <= raw_size + ptm" wraps for a 20-digit length. Blocking: < 20 digits before ':' */
	{
		size_t nd = 0, i = 0;
		for (; i < LEN && src[i] != ':'; i++) nd += (src[i] >= '0' && src[i] <= '9');
		V_ASSUME(nd < 20);
	}
#endif
	bt_en_node_p node = NULL, found = NULL;
	size_t off = 777;
	int r = bt_en_decode_top(src, LEN, &node, (IN.ktype & 0x80) ? NULL : &off);
	if (LEN == 0) {
		V_ASSERT(r == EINVAL, "decode: empty buffer refused");
		V_WITNESS("bt einval");
		return;
	}
	if (r != 0) {
		V_ASSERT(node == NULL, "K: no node on error");
		V_WITNESS("bt error");
		return;
	}
	chk_node(node, src);
	if (!(IN.ktype & 0x80)) {
		V_ASSERT(off >= 2 && off <= LEN, "K: consumed size at least two and inside the buffer");
		if (node->type == BT_EN_TYPE_STR) V_ASSERT(off < LEN, "K: a string never ends the buffer");
	}
#if FN == 2	/* walk, search and free the decoded tree (costly in CBMC: union of pointers read through symbolic node types) */
	if (node->type == BT_EN_TYPE_LIST) {
		V_ASSERT(node->val.l != NULL && node->val_count >= 1, "list: items present");
		for (size_t i = 0; i < node->val_count; i++) chk_node(node->val.l[i], src);
		V_WITNESS("bt list");
	}
	if (node->type == BT_EN_TYPE_DICT) {
		for (size_t i = 0; i < node->val_count; i++) { chk_node(node->val.d[i].key, src); chk_node(node->val.d[i].val, src); }
		size_t co = IN.off;
		V_ASSUME(co <= node->val_count);
		int fr = bt_dict_find(node, (IN.ktype & 0x40) ? NULL : &co, IN.key, 1 + (IN.ktype & 1), (IN.ktype & 2) ? BT_EN_TYPE_ALL : BT_EN_TYPE_STR, &found);
		V_ASSERT(fr == 0 || fr == -1 || fr == EINVAL, "dict_find result");
		if (fr == 0) { V_ASSERT(found != NULL, "dict_find: node returned"); V_WITNESS("bt dict found"); }
		V_WITNESS("bt dict");
	}
	if (node->type == BT_EN_TYPE_STR) V_WITNESS("bt str");
	if (node->type == BT_EN_TYPE_NUM) V_WITNESS("bt num");
	bt_en_free(node);
	V_WITNESS("bt freed");
#else
	V_WITNESS("bt decoded");
#endif
}
