/* C12: src/utils/bt_encode.c - bt_en_decode (recursive, heap), bt_dict_find, bt_en_free on LEN arbitrary bytes.
 * Exactly sized input object; after a successful decode the tree is walked (top level), searched and freed.
 * KF_BT_END_READ: known finding - after the last item of a list / dict the decoder reads *cur_pos to look for 'e' even
 * when cur_pos == buf + buf_size (e.g. "li1e").  Blocking clause: the object gets one extra readable byte which is not
 * 'e'-terminated data (value symbolic), the reported sizes are still checked against LEN. */
#include "verif.h"
#include <errno.h>
#define C12_NM_HI (LEN + 1)
#define C12_SPEC_REALLOC_ITEMS
#include "libc_stubs.h"
#include "utils/bt_encode.c"

struct in_s { uint8_t src[LEN + 2]; uint8_t key[2]; uint8_t ktype; size_t off; };
#include "verif_in.h"

static void chk_node(const bt_en_node_p n, const uint8_t *src) {
	V_ASSERT(n->type <= BT_EN_TYPE_DICT, "node type");
	V_ASSERT(n->raw >= src && n->raw <= src + LEN, "node raw pointer inside the buffer");
#ifndef KF_BT_DICT_KEY
	V_ASSERT(n->raw_size <= (size_t)((src + LEN) - n->raw), "node raw span inside the buffer");
#endif
}

void harness(void) {
	V_BEGIN();
#ifdef KF_BT_END_READ
	uint8_t *src = v_buf(IN.src, LEN + 1);
#else
	uint8_t *src = v_buf(IN.src, LEN);
#endif
#ifdef MAXCONT	/* shape: at most MAXCONT bytes of the input are 'l' or 'd' => nesting depth <= MAXCONT + 1 (recursion bound) */
	{
		size_t nc = 0;
		for (size_t i = 0; i < LEN; i++) nc += (src[i] == 'l' || src[i] == 'd');
		V_ASSUME(nc <= MAXCONT);
	}
#endif
	bt_en_node_p node = NULL, found = NULL;
	size_t off = 777;
	int r = bt_en_decode(src, LEN, &node, (IN.ktype & 0x80) ? NULL : &off);
	if (LEN == 0) {
		V_ASSERT(r == EINVAL, "decode: empty buffer refused");
		V_WITNESS("bt einval");
		return;
	}
	if (r != 0) {
		V_ASSERT(node == NULL, "decode: no node on error");
		V_ASSERT(r == EBADMSG || r == EINVAL || r == ENOMEM, "decode: documented error codes");
		V_WITNESS("bt error");
		return;
	}
	V_ASSERT(node != NULL, "decode: node on success");
	if (!(IN.ktype & 0x80)) V_ASSERT(off >= 1 && off <= LEN, "decode: consumed size inside the buffer");
	chk_node(node, src);
	if (node->type == BT_EN_TYPE_LIST) {
		for (size_t i = 0; i < node->val_count; i++) chk_node(node->val.l[i], src);
		V_WITNESS("bt list");
	}
	if (node->type == BT_EN_TYPE_DICT) {
		for (size_t i = 0; i < node->val_count; i++) { chk_node(node->val.d[i].key, src); chk_node(node->val.d[i].val, src); }
		size_t co = IN.off;
		V_ASSUME(co <= node->val_count);
		int fr = bt_dict_find(node, (IN.ktype & 0x40) ? NULL : &co, IN.key, 1 + (IN.ktype & 1), (IN.ktype & 2) ? BT_EN_TYPE_ALL : BT_EN_TYPE_STR, &found);
		V_ASSERT(fr == 0 || fr == -1 || fr == EINVAL, "dict_find result");
		if (fr == 0) { V_ASSERT(found != NULL, "dict_find: node returned"); V_WITNESS("bt dict found"); }
		V_WITNESS("bt dict");
	}
	if (node->type == BT_EN_TYPE_STR) V_WITNESS("bt str");
	if (node->type == BT_EN_TYPE_NUM) V_WITNESS("bt num");
	bt_en_free(node);
	V_WITNESS("bt freed");
}
