/* C12: src/utils/bt_encode.c - bt_en_decode (recursive, heap), bt_dict_find, bt_en_free on LEN arbitrary bytes.
 *
 * Direct symbolic execution of the recursion was infeasible (LEN 3, depth 2: no verdict in 400 s; every level carries two
 * item loops, each with recursive calls and recursive frees on its error paths).  The recursion is therefore decided by
 * INDUCTION ON THE NESTING DEPTH: gen.py copies bt_encode.c renaming only the definition line to bt_en_decode_top; the
 * recursive calls inside still say bt_en_decode and are bound here to a CONTRACT STUB.  The job proves
 *     "if every nested call obeys contract K, the real body - run on ALL LEN-byte inputs - is memory safe, calls itself
 *      only on spans inside the buffer (K's precondition), terminates, and its own result obeys K".
 * K (success): *ret_data is a fresh node, type 0..3, raw span inside the given span, for strings val.s == raw;
 *     1 <= *ret_buf_off <= buf_size, strings: < buf_size.   K (failure): non-zero result, *ret_data == NULL.
 * Depth 0 (strings, integers) makes no nested call, so K holds for every depth.  Counterexamples are replayed against the
 * real recursive function (REPLAY includes the unmodified bt_encode.c); one that needs stub values the real function
 * cannot produce does not reproduce and is reported as UNCONFIRMED, never as a violation.
 *
 * KF_BT_END_READ: known finding - after the last item of a list / dict the decoder tests *cur_pos for 'e' although
 *   cur_pos may equal buf + buf_size ("li1e").  Blocking clause: one more readable byte that is not 'e'.
 * KF_BT_DICT_KEY: known finding - a dictionary whose key is not a string ("di1e..") leaves the loop with error == 0 and
 *   returns success with raw_size = (size_t)-1.  Blocking clause: raw span of dictionaries not checked. */
#include "verif.h"
#include <errno.h>
#define C12_NM_HI (LEN + 1)
#define C12_SPEC_REALLOC_ITEMS
#include "libc_stubs.h"
#include "utils/bt_encode.h"

#define NSUB (LEN + 1)
struct in_s { uint8_t src[LEN + 2]; uint8_t key[2]; uint8_t ktype; size_t off;
	struct { uint8_t ok, type; size_t off, raw_off, raw_size; } sub[NSUB]; };
#include "verif_in.h"

#ifdef REPLAY
#include "utils/bt_encode.c"
#define bt_en_decode_top bt_en_decode
#else
int bt_en_decode_top(uint8_t *buf, size_t buf_size, bt_en_node_p *ret_data, size_t *ret_buf_off);
#include "bt_encode_top.c"
static const uint8_t *g_src;
static size_t g_calls;
int bt_en_decode(uint8_t *buf, size_t buf_size, bt_en_node_p *ret_data, size_t *ret_buf_off) {
	V_ASSERT(buf >= g_src && buf <= g_src + LEN && buf_size <= (size_t)((g_src + LEN) - buf),
	    "nested call: span inside the caller's buffer (precondition of K)");
	V_ASSERT(ret_data != NULL, "nested call: result pointer given");
	if (0 == buf_size) return (EINVAL);
	size_t k = g_calls++;
	V_ASSERT(k < NSUB, "at most LEN + 1 nested calls (termination)");
	V_ASSUME(k < NSUB);
	(*ret_data) = NULL;
	if (!IN.sub[k].ok) return (EBADMSG);
	uint8_t type = (IN.sub[k].type & 3);
	size_t off = IN.sub[k].off, ro = IN.sub[k].raw_off, rs = IN.sub[k].raw_size;
	V_ASSUME(off >= 1 && off <= buf_size && (type != BT_EN_TYPE_STR || off < buf_size));
	V_ASSUME(ro <= off && rs <= off - ro);
	bt_en_node_p n = bt_en_alloc(type, buf + ro, rs);
	if (type == BT_EN_TYPE_STR) n->val.s = buf + ro;
	n->val_count = (type <= BT_EN_TYPE_NUM) ? 1 : 0;	/* nested containers: empty (their content is their own level's business) */
	(*ret_data) = n;
	if (NULL != ret_buf_off) (*ret_buf_off) = off;
	return (0);
}
#endif

static void chk_node(const bt_en_node_p n, const uint8_t *src) {
	V_ASSERT(n != NULL && n->type <= BT_EN_TYPE_DICT, "node present, type 0..3");
	V_ASSERT(n->raw >= src && n->raw <= src + LEN, "node raw pointer inside the buffer");
#ifdef KF_BT_DICT_KEY
	if (n->type != BT_EN_TYPE_DICT)
#endif
	V_ASSERT(n->raw_size <= (size_t)((src + LEN) - n->raw), "node raw span inside the buffer");
	if (n->type == BT_EN_TYPE_STR) V_ASSERT(n->val.s == n->raw, "string value is the raw span");
}

void harness(void) {
	V_BEGIN();
#ifdef KF_BT_END_READ
	uint8_t *src = v_buf(IN.src, LEN + 1);
	V_ASSUME(src[LEN] != 'e');
#else
	uint8_t *src = v_buf(IN.src, LEN);
#endif
#ifndef REPLAY
	g_src = src;
#endif
	bt_en_node_p node = NULL, found = NULL;
	size_t off = 777;
	int r = bt_en_decode_top(src, LEN, &node, (IN.ktype & 0x80) ? NULL : &off);
	if (LEN == 0) {
		V_ASSERT(r == EINVAL, "decode: empty buffer refused");
		V_WITNESS("bt einval");
		return;
	}
	if (r != 0) {
		V_ASSERT(node == NULL, "K: no node on error");
		V_WITNESS("bt error");
		return;
	}
	chk_node(node, src);
	if (!(IN.ktype & 0x80)) {
		V_ASSERT(off >= 1 && off <= LEN, "K: consumed size inside the buffer");
		if (node->type == BT_EN_TYPE_STR) V_ASSERT(off < LEN, "K: a string never ends the buffer");
	}
	if (node->type == BT_EN_TYPE_LIST) {
		V_ASSERT(node->val.l != NULL && node->val_count >= 1, "list: items present");
		for (size_t i = 0; i < node->val_count; i++) chk_node(node->val.l[i], src);
		V_WITNESS("bt list");
	}
	if (node->type == BT_EN_TYPE_DICT) {
		for (size_t i = 0; i < node->val_count; i++) { chk_node(node->val.d[i].key, src); chk_node(node->val.d[i].val, src); }
		size_t co = IN.off;
		V_ASSUME(co <= node->val_count);
		int fr = bt_dict_find(node, (IN.ktype & 0x40) ? NULL : &co, IN.key, 1 + (IN.ktype & 1), (IN.ktype & 2) ? BT_EN_TYPE_ALL : BT_EN_TYPE_STR, &found);
		V_ASSERT(fr == 0 || fr == -1 || fr == EINVAL, "dict_find result");
		if (fr == 0) { V_ASSERT(found != NULL, "dict_find: node returned"); V_WITNESS("bt dict found"); }
		V_WITNESS("bt dict");
	}
	if (node->type == BT_EN_TYPE_STR) V_WITNESS("bt str");
	if (node->type == BT_EN_TYPE_NUM) V_WITNESS("bt num");
	bt_en_free(node);
	V_WITNESS("bt freed");
}
