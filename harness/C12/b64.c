/* C12: base64_encode / base64_decode / base64_decode_fmt / base64_en_copy stay inside their buffers.
 * Shape: FN (1 encode, 2 decode, 3 decode_fmt, 4 en_copy), LEN = source length (concrete), source bytes symbolic.
 * Every destination capacity 0..MAXNEED+1 is tried inside the job; each capacity is its own exactly sized heap
 * object (the loop bound is a compile time constant, so every malloc size is a constant during symbolic execution).
 * Memory safety itself is CBMC's object-bounds check on the real code; the V_ASSERTs add: error codes, reported
 * sizes, and "the size the function reported is sufficient". */
#include "verif.h"
#include <errno.h>
#include "libc_stubs.h"
#include "utils/base64.h"

struct in_s { uint8_t src[LEN + 1]; uint8_t ret_null; };
#include "verif_in.h"

#define ENC_NEED(n) ((((n) + 2) / 3) * 4)
#define DEC_NEED(n) ((((n) + 3) / 4) * 3)

void harness(void) {
	V_BEGIN();
	uint8_t *src = v_buf(IN.src, LEN);
	size_t sz;
	int r;
#if FN == 1
	const size_t need = ENC_NEED(LEN);
	for (size_t cap = 0; cap <= ENC_NEED(LEN) + 1; cap++) {
#ifdef KF_B64_ENC_NUL	/* known finding: terminator written at dst[enc_size] when dst_size == enc_size */
		if (cap == need && LEN != 0) continue;
#endif
		uint8_t *dst = (uint8_t *)v_alloc(cap);
		sz = 777;
		r = base64_encode(src, LEN, dst, cap, IN.ret_null ? NULL : &sz);
		if (!IN.ret_null) V_ASSERT(sz == need, "encode reports the required size in every case");
		if (LEN == 0) {
			V_ASSERT(r == 0, "empty input encodes to nothing");
			V_WITNESS("encode empty");
		} else if (cap < need) {
			V_ASSERT(r == ENOBUFS, "encode: too small destination is refused");
			V_WITNESS("encode enobufs");
		} else {
			V_ASSERT(r == 0, "encode: destination of the reported size (or larger) succeeds");
			if (cap == need) V_WITNESS("encode exact-size buffer");
			V_WITNESS("encode ok");
		}
	}
#elif FN == 2
	/* the decoder strips trailing '=' first; its required size depends on what is left */
	size_t real = LEN;
	while (real > 0 && src[real - 1] == '=') real--;
	const size_t need = DEC_NEED(real);
	for (size_t cap = 0; cap <= DEC_NEED(LEN) + 1; cap++) {
#ifdef KF_B64_DEC_NUL	/* known finding: terminator written at dst[dcd_size] when dst_size == dcd_size and real % 4 == 0 */
		if (cap == need && real != 0 && (real % 4) == 0) continue;
#endif
		uint8_t *dst = (uint8_t *)v_alloc(cap);
		sz = 777;
		r = base64_decode(src, LEN, dst, cap, IN.ret_null ? NULL : &sz);
		if (real == 0) {
			V_ASSERT(r == 0 && (IN.ret_null || sz == 0), "decode: empty / padding-only input gives nothing");
			V_WITNESS("decode empty");
		} else if (real == 1) {
			V_ASSERT(r == EINVAL, "decode: a single symbol is refused");
			V_WITNESS("decode einval");
		} else if (cap < need) {
			V_ASSERT(r == ENOBUFS, "decode: too small destination is refused");
			if (!IN.ret_null) V_ASSERT(sz == need, "decode: ENOBUFS reports the required size");
			V_WITNESS("decode enobufs");
		} else {
			V_ASSERT(r == 0, "decode: destination of the reported size (or larger) succeeds");
			if (!IN.ret_null) V_ASSERT(sz <= need && sz <= cap, "decode: produced size within required size and capacity");
			if (cap == need) V_WITNESS("decode exact-size buffer");
			V_WITNESS("decode ok");
		}
	}
#elif FN == 3
	/* contract: dst_size >= src_size (the filtered copy is made in dst, then decoded in place); on top of that the
	 * in-place decoder may ask for its rounded-up estimate (ENOBUFS + size), which must then be sufficient */
	size_t rep = 0;
	const size_t top = (DEC_NEED(LEN) > LEN ? DEC_NEED(LEN) : LEN) + 1;
	for (size_t cap = 0; cap <= top; cap++) {
		uint8_t *dst = (uint8_t *)v_alloc(cap);
		sz = 777;
		r = base64_decode_fmt(src, LEN, dst, cap, IN.ret_null ? NULL : &sz);
		if (cap < LEN) {
			V_ASSERT(r == ENOBUFS, "decode_fmt: destination shorter than the source is refused");
			V_WITNESS("decode_fmt enobufs (shorter than source)");
		} else if (r == ENOBUFS) {
			V_ASSERT(cap < DEC_NEED(LEN), "decode_fmt: the rounded-up estimate for the whole source always suffices");
			if (!IN.ret_null) {
				V_ASSERT(sz > cap && sz <= DEC_NEED(LEN), "decode_fmt: ENOBUFS reports a required size above the capacity");
				rep = sz;
			}
			V_WITNESS("decode_fmt enobufs (estimate)");
		} else {
			V_ASSERT(r == 0 || r == EINVAL, "decode_fmt: only 0 / EINVAL / ENOBUFS");
			if (r == 0 && !IN.ret_null) V_ASSERT(sz <= cap, "decode_fmt: produced size within capacity");
			if (r == 0) V_WITNESS("decode_fmt ok");
			if (r == EINVAL) V_WITNESS("decode_fmt einval");
		}
		if (rep != 0 && cap == rep) V_ASSERT(r == 0, "decode_fmt: the size reported with ENOBUFS is sufficient");
	}
#elif FN == 4
	{
		uint8_t *dst = (uint8_t *)v_alloc(LEN);
		sz = 777;
		r = base64_en_copy(src, dst, LEN, IN.ret_null ? NULL : &sz);
		V_ASSERT(r == 0, "en_copy succeeds");
		if (!IN.ret_null) V_ASSERT(sz <= LEN, "en_copy: copied size within buffer size");
		V_WITNESS("en_copy ok");
	}
#endif
}
