/* C12: environment stubs (CBMC only; under -DREPLAY glibc is used unchanged).
 *  - reallocarray: cbmc 6.11 has no model (memchr/memrchr/memmem come from lib/libc_models.h).  Overflow check as in the
 *    man page, then realloc.
 *  - calloc / reallocarray with a data-dependent size: CBMC's memory model blows up on objects of symbolic size
 *    (18 GB on a 3-byte INI file).  The stubs case-split on the requested size over the range the harness declares
 *    (C12_SZ_LO..C12_SZ_HI bytes for calloc, 0..C12_NM_HI members for reallocarray) and allocate an object of exactly that
 *    concrete size in each case, so a one-byte overrun is still an object-bounds violation.  Sizes outside the declared
 *    range fall through to the plain call.
 *  - allocation never fails (allocation failure is outside C12).
 * Include AFTER verif.h and BEFORE any liblcb header. */
#ifndef C12_LIBC_STUBS_H
#define C12_LIBC_STUBS_H
#include <string.h>
#include <stdlib.h>
#include <errno.h>
#ifndef REPLAY
#ifndef C12_SZ_LO
#define C12_SZ_LO 1
#define C12_SZ_HI 0
#endif
#ifndef C12_NM_HI
#define C12_NM_HI 0
#endif
static void *v_calloc(size_t nm, size_t sz) {
	size_t t;
	void *r;
	if (__builtin_mul_overflow(nm, sz, &t)) { errno = ENOMEM; return (NULL); }
	for (size_t k = C12_SZ_LO; k <= C12_SZ_HI; k++) {
		if (t == k) { r = calloc(1, k); __CPROVER_assume(r != NULL); return (r); }
	}
	r = calloc(nm, sz);
	__CPROVER_assume(r != NULL);
	return (r);
}
static void *v_reallocarray(void *p, size_t nm, size_t sz) {
	size_t t;
	void *r;
	if (__builtin_mul_overflow(nm, sz, &t)) { errno = ENOMEM; return (NULL); }
	for (size_t k = 1; k <= C12_NM_HI; k++) {
		if (nm == k) { r = realloc(p, k * sz); __CPROVER_assume(r != NULL); return (r); }
	}
	r = realloc(p, t);
	__CPROVER_assume(r != NULL);
	return (r);
}
#define calloc v_calloc
#define reallocarray v_reallocarray
#endif /* !REPLAY */
#endif
