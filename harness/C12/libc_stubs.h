/* C12: environment stubs (CBMC only; under -DREPLAY glibc is used unchanged).
 *  - reallocarray: cbmc 6.11 has no model (memchr/memrchr/memmem come from lib/libc_models.h).  Overflow check as in the
 *    man page, then realloc.
 *  - calloc / reallocarray with a data-dependent size: CBMC's memory model blows up on objects of symbolic size
 *    (18 GB on a 3-byte INI file).  The stubs case-split on the requested size over the range the harness declares
 *    (C12_SZ_LO..C12_SZ_HI bytes for calloc, 0..C12_NM_HI members for reallocarray) and allocate an object of exactly that
 *    concrete size in each case, so a one-byte overrun is still an object-bounds violation.  Sizes outside the declared
 *    range fall through to the plain call.
 *  - allocation never fails (allocation failure is outside C12).
 * Include AFTER verif.h and BEFORE any liblcb header. */
#ifndef C12_LIBC_STUBS_H
#define C12_LIBC_STUBS_H
#include <string.h>
#include <stdlib.h>
#include <errno.h>
#ifndef REPLAY
#ifndef C12_SZ_LO
#define C12_SZ_LO 1
#define C12_SZ_HI 0
#endif
#ifndef C12_NM_HI
#define C12_NM_HI 0
#endif
static void *v_calloc(size_t nm, size_t sz) {
	size_t t;
	void *r;
	if (__builtin_mul_overflow(nm, sz, &t)) { errno = ENOMEM; return (NULL); }
	for (size_t k = C12_SZ_LO; k <= C12_SZ_HI; k++) {
		if (t == k) { r = calloc(1, k); __CPROVER_assume(r != NULL); return (r); }
	}
	r = calloc(nm, sz);
	__CPROVER_assume(r != NULL);
	return (r);
}
static void *v_reallocarray(void *p, size_t nm, size_t sz) {
	size_t t;
	void *r;
	if (__builtin_mul_overflow(nm, sz, &t)) { errno = ENOMEM; return (NULL); }
	for (size_t k = 1; k <= C12_NM_HI; k++) {
		if (nm == k) { r = realloc(p, k * sz); __CPROVER_assume(r != NULL); return (r); }
	}
	r = realloc(p, t);
	__CPROVER_assume(r != NULL);
	return (r);
}
#define calloc v_calloc
#define reallocarray v_reallocarray
#endif /* !REPLAY */

/* Specification stub for a lower layer (DESIGN 1.3): realloc_items() of utils/mem_utils.h, used by ini.c and bt_encode.c to
 * grow their pointer arrays in blocks of 64.  The real function is checked on its own in mem.c (jobs mem-cmp-*: after
 * return *allocated > count, slot [count] writable, earlier items preserved, new memory zeroed).  Arrays of 64 pointers
 * kept in a uint8_t-typed realloc block cost CBMC gigabytes (byte-wise pointer encoding), so ini/bencode harnesses define
 * C12_SPEC_REALLOC_ITEMS and run against this contract implementation: an array of exactly count + 1 items (tighter
 * than the real pre-allocation, so any access beyond [count] is an object-bounds violation).  CBMC only; replays run the
 * real realloc_items. */
#if defined(C12_SPEC_REALLOC_ITEMS) && !defined(REPLAY)
#include <stdint.h>
static int spec_realloc_items(void **items, const size_t item_size, size_t *allocated,
    const size_t alloc_blk_cnt, const size_t count) {
	if (NULL == items || NULL == allocated || 0 == alloc_blk_cnt) return (EINVAL);
	if (NULL != (*items) && (*allocated) > count) return (0);
	size_t n = count + 1, keep = ((NULL != (*items)) ? (*allocated) : 0);
	if (keep > n) keep = n;
	uint8_t *nw = (uint8_t *)malloc(n * item_size);
	__CPROVER_assume(nw != NULL);
	if (keep) memcpy(nw, (*items), keep * item_size);
	memset(nw + keep * item_size, 0x00, (n - keep) * item_size);
	free((*items));
	(*items) = nw;
	(*allocated) = n;
	return (0);
}
#include "utils/mem_utils.h"
#define realloc_items spec_realloc_items
#endif
#endif
