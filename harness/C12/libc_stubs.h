/* C12: environment stub for reallocarray (cbmc 6.11 has no model; memchr/memrchr/memmem come from lib/libc_models.h).
 * CBMC only: overflow check as in the man page, then realloc, which is assumed to succeed (allocation failure is
 * outside C12).  Under -DREPLAY glibc's reallocarray is used.  Include AFTER verif.h and BEFORE any liblcb header. */
#ifndef C12_LIBC_STUBS_H
#define C12_LIBC_STUBS_H
#include <string.h>
#include <stdlib.h>
#include <errno.h>
#ifndef REPLAY
static void *v_reallocarray(void *p, size_t nm, size_t sz) {
	size_t t;
	if (__builtin_mul_overflow(nm, sz, &t)) { errno = ENOMEM; return (NULL); }
	void *r = realloc(p, t);
	__CPROVER_assume(r != NULL);
	return (r);
}
#define reallocarray v_reallocarray
#endif /* !REPLAY */
#endif
