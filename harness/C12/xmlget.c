/* C12: xml_get_val_arr / xml_get_val_ns_arr (src/utils/xml.c) on LEN arbitrary bytes, NTAG one-byte tag names (symbolic),
 * tag arrays exactly NTAG entries.  First call from the start, second call resumed from the returned next_pos.
 * Asserted: CBMC object bounds (data, tag arrays, ns arrays), results NULL or inside the data, and PROGRESS of next_pos
 * (what makes the `while (0 == xml_get_val_arr(.., &next_pos, ..))` loop of xml_calc_tag_count_args terminate).
 * KF_XML_GET_VAL: known findings (see findings/xml_get_val_arr.md): '<' as last byte is followed by a read past the end;
 *   a close tag at nesting level 0 indexes tag_arr[-1]; an open tag after the target indexes tag_arr[tag_arr_count];
 *   next_pos == end of data is treated as "not set" and the scan restarts (xml_calc_tag_count_args never ends).
 *   These interact, so the blocking clause is an input class: no '/' byte (no close / empty-element tags), last byte
 *   not '<', no white space right after '<', and one spare (NULL, 0) slot after the tag arrays as the variadic
 *   wrappers provide. */
#include "verif.h"
#include <errno.h>
#include "libc_stubs.h"
#include "utils/xml.c"

#ifndef NTAG
#define NTAG 1
#endif
struct in_s { uint8_t src[LEN + 1]; uint8_t tag[NTAG + 1]; uint8_t flags; };
#include "verif_in.h"

#define INSIDE_OR_NULL(p, n) ((p) == NULL || ((p) >= src && (p) <= src + LEN && (size_t)(n) <= (size_t)((src + LEN) - (p))))

void harness(void) {
	V_BEGIN();
	uint8_t *src = v_buf(IN.src, LEN);
	uint8_t *tags = v_buf(IN.tag, NTAG);
#ifdef KF_XML_GET_VAL
	V_ASSUME(LEN == 0 || src[LEN - 1] != '<');
	for (size_t i = 0; i < LEN; i++) {
		V_ASSUME(src[i] != '/');
		if (i + 1 < LEN && src[i] == '<') V_ASSUME(!is_space(src[i + 1]));
	}
	const uint8_t **ta = (const uint8_t **)v_alloc(sizeof(uint8_t *) * (NTAG + 1));
	size_t *tc = (size_t *)v_alloc(sizeof(size_t) * (NTAG + 1));
	ta[NTAG] = NULL; tc[NTAG] = 0;
#else
	const uint8_t **ta = (const uint8_t **)v_alloc(sizeof(uint8_t *) * NTAG);
	size_t *tc = (size_t *)v_alloc(sizeof(size_t) * NTAG);
#endif
	for (size_t i = 0; i < NTAG; i++) { ta[i] = tags + i; tc[i] = 1; }
	const uint8_t *np = NULL, *attr = NULL, *val = NULL;
	size_t asz = 777, vsz = 777;
	int r;
#if FN == 1
	r = xml_get_val_arr(src, LEN, (IN.flags & 1) ? NULL : &np, NTAG, ta, tc, &attr, &asz, &val, &vsz);
#else
	const uint8_t **ns = (const uint8_t **)v_alloc(sizeof(uint8_t *) * NTAG);
	size_t *nss = (size_t *)v_alloc(sizeof(size_t) * NTAG);
	r = xml_get_val_ns_arr(src, LEN, (IN.flags & 1) ? NULL : &np, NTAG, ta, tc, ns, nss, &attr, &asz, &val, &vsz);
	if (LEN == 0) { V_ASSERT(r == EINVAL, "ns: empty data refused"); V_WITNESS("xml ns einval"); return; }
#endif
	if (r != 0) {
		V_ASSERT(r == ESPIPE, "get_val: only 0 / ESPIPE");
		V_WITNESS("xml not found");
		return;
	}
	V_ASSERT(INSIDE_OR_NULL(val, vsz), "get_val: value span inside the data");
	V_ASSERT(INSIDE_OR_NULL(attr, asz), "get_val: attribute span inside the data");
	if (!(IN.flags & 1)) {
		V_ASSERT(np > src && np <= src + LEN, "get_val: next_pos inside the data and advanced");
		const uint8_t *np2 = np;
#if FN == 1
		r = xml_get_val_arr(src, LEN, &np2, NTAG, ta, tc, &attr, &asz, &val, &vsz);
#else
		r = xml_get_val_ns_arr(src, LEN, &np2, NTAG, ta, tc, ns, nss, &attr, &asz, &val, &vsz);
#endif
		if (r == 0) {
			V_ASSERT(np2 > np, "get_val: a resumed search makes progress (termination of the counting loop)");
			V_WITNESS("xml found twice");
		}
	}
	V_WITNESS("xml found");
}
