/* Shared by mem.c (mem_replace_arr) and xml.c (xml_encode / xml_decode): capacity sweep for a replacing codec.
 * REPL_CALL(dst, cap, psz) performs the call on the fixed source.  MAXOUT = largest possible output.
 * Oracle-free: the true output size is what the function itself produces in a comfortably large buffer; then every
 * capacity 0..MAXOUT+1 is tried in its own exactly sized object.
 * Strict mode (no KF_MEM_REPLACE_BOUNDS): too small => ENOBUFS with the required size reported, required size (and
 * anything larger) => success with that size.
 * KF_MEM_REPLACE_BOUNDS (known finding: the capacity test uses the length of the *searched* pattern and the tail copy is
 * not tested at all => overflow whenever capacity < output size; exact capacity is sometimes refused; no size reported):
 * capacities below the output size are skipped, success is not demanded, everything else is. */
#ifndef REPLACE_CHECK_H
#define REPLACE_CHECK_H
#define REPLACE_CHECK(MAXOUT, NAME) do { \
	size_t need = 777, sz; int r0, r; \
	uint8_t *big = (uint8_t *)v_alloc(2 * (MAXOUT) + 16); \
	r0 = REPL_CALL(big, 2 * (MAXOUT) + 16, &need); \
	V_ASSERT(r0 == 0 && need <= (MAXOUT), NAME ": large buffer succeeds, output bounded"); \
	for (size_t cap = 0; cap <= (MAXOUT) + 1; cap++) { \
		REPLACE_KF_SKIP \
		uint8_t *dst = (uint8_t *)v_alloc(cap); \
		sz = 777; \
		r = REPL_CALL(dst, cap, &sz); \
		if (cap < need) { \
			V_ASSERT(r == ENOBUFS, NAME ": too small destination is refused"); \
			V_ASSERT(sz == need, NAME ": ENOBUFS reports the required size"); \
			V_WITNESS(NAME " enobufs"); \
		} else { \
			REPLACE_OK_ASSERT(NAME) \
			if (r == 0) V_ASSERT(sz == need, NAME ": produced size is the output size"); \
			if (r == 0 && cap == need) V_WITNESS(NAME " exact-size buffer"); \
			if (r == 0) V_WITNESS(NAME " ok"); \
		} \
	} \
} while (0)
#ifdef KF_MEM_REPLACE_BOUNDS
#define REPLACE_KF_SKIP if (cap < need) continue;
#define REPLACE_OK_ASSERT(NAME) V_ASSERT(r == 0 || r == ENOBUFS, NAME ": only 0 / ENOBUFS");
#else
#define REPLACE_KF_SKIP
#define REPLACE_OK_ASSERT(NAME) V_ASSERT(r == 0, NAME ": destination of the required size (or larger) succeeds");
#endif
#endif
