import os
SOLVER = os.environ.get("C12_SOLVER", "cadical")

META = {
    "bounds": "every input byte symbolic, every buffer an exactly sized heap object, lengths/capacities concrete per job. "
              "base64_encode/decode/decode_fmt/en_copy: source 0..9 bytes (thorough 0..13), every capacity 0..required+1; "
              "cvt_bin2hex/cvt_hex2bin: 0..6 (10) bytes, every capacity; calc_*sptab*, buf2args (max_args 1..2(3)), "
              "buf_get_next_line (any previous line; iteration from NULL), data_xor8, memxorbuf, yn_set_flag32: 0..6 (10) bytes; "
              "mem_chr/rchr/find (+_off/_ptr), mem_cmp*/mem_to_lower/upper/mem_dup2/realloc_items: 0..5 (8) bytes, needles 1..2 (0..3); "
              "mem_find_stream: chunk/pattern (1,1) (1,2) (2,1) (2,2) (3,1) [(1,3) (3,2) thorough], any carried state; "
              "20 str2num + 20 strh2num parsers: 0 and 5 (0..22) arbitrary bytes; utf8_decode: 0..4 (6) bytes, capacities {0,1,L,L+1}; "
              "asn_parse: 0..8 (12) bytes, any offset, any NULL out-pointers; crc32 (8 variants + 4/8-bit kernels): 0,1,3,63,64,65 bytes; "
              "xml_encode: 1..2 (0..3) bytes, xml_decode: 4..5 (1,4..7) bytes, capacities around smallest/largest required size (thorough: all); "
              "xml_get_val_arr/_ns_arr: 2..3 (1..5) bytes, 1 (1..2) one-byte tag names, call + resumed call; "
              "ini_buf_parse/calc_size/gen/destroy: 1..2 input bytes, capacities {0,3}/{4} (thorough 0..7); "
              "bt_en_decode: body on 0..4 (0..7) bytes with nested calls bound to a contract stub (induction on nesting depth), "
              "plus inputs with <= 1 container byte 3 (3..6) bytes, plus the 22-byte near-SIZE_MAX string length shape once its KF is lifted",
    "outside": "xml_get_val_*_args / xml_calc_tag_count_args variadic wrappers (only their callee xml_get_val_arr is executed; the "
               "termination argument for the counting loop is the progress assertion on next_pos); mem_replace_arr with other rule "
               "sets than the five XML entities and with repl_count > 31 (tmp_arr path); mem_find_stream beyond the listed shapes "
               "(goto-built loops: CBMC's unwinding assertions do not pass; [measured] L=2,N=3 fails at bound 5 after 112 s); "
               "bt_dict_find / bt_en_free and walking a decoded tree (harness code exists as FN=2 in bt.c; CBMC ran out of 8-10 GB on the "
               "union-of-pointers node type even for 1 input byte), bt_en_decode by direct recursion (no verdict in 400 s at 3 bytes); "
               "INI inputs longer than 2 bytes (LEN 3: no verdict in 300 s / 7 GB), ini_val_set and the rest of the INI store (C17); "
               "fmt_as_uptime (snprintf), mapalloc; non-default builds of al/os.h (own memrchr/memmem/reallocarray fallbacks); "
               "signed overflow / shifts inside the digit accumulation of str2num/strh2num (value semantics are C14); "
               "forming an out-of-range pointer value without accessing it (CBMC 'pointer relation' check) in bt_en_decode's length test "
               "is excluded by prop_exclude in the bt jobs - its wrap-around consequence is the bt-strlen job; likewise the relational "
               "compare of *next_pos == NULL with xml_data (the documented 'start from the beginning' convention) in the xml-get jobs; "
               "cvt_hex2bin and base64_decode_fmt (dst shorter than src) refuse without reporting a size: only 'no overflow, "
               "LEN/2 resp. the rounded-up estimate suffices' is decided; allocation failure paths",
    "assumptions": [
        "malloc/calloc/realloc/reallocarray never fail (v_alloc, v_calloc, v_reallocarray assume non-NULL; bt/ini jobs pass --no-malloc-may-fail)",
        "lib/libc_models.h bodies for memchr/memrchr/memmem (CBMC only); libc_stubs.h: reallocarray = overflow check + realloc; "
        "calloc/reallocarray case-split on the requested size so that every object has a concrete exact size (CBMC only)",
        "spec stub for realloc_items (libc_stubs.h, C12_SPEC_REALLOC_ITEMS, used by inibuf.c and bt.c under CBMC): array of exactly "
        "count+1 items, old items kept, new zeroed; the real realloc_items is decided by the mem-cmp-* jobs",
        "bt.c: nested bt_en_decode calls are a contract stub (K: success => fresh node, type 0..3, raw span inside the given span, "
        "2 <= consumed <= size, strings < size, bytes consistent with the leading byte; failure => NULL); the job proves K for the "
        "real body, so K holds for every nesting depth by induction; gen.py renames only the definition line of bt_en_decode",
        "xmlcodec.c required-size oracle: encode 1 byte -> 1/4/5/6; decode left-to-right entity scan (entities are prefix-free)",
        "known-finding blocking clauses while the KF_ defines are in force (each described in findings/*.md and in the harness): "
        "KF_B64_ENC_NUL, KF_B64_DEC_NUL (capacity == required size skipped), KF_BUF2ARGS_NUL (buf[buf_size] part of the object), "
        "KF_ASN_TAG_INDEX (universal class long-form tag >= 32 excluded), KF_ASN_SHORT_LEN (data span / next offset not checked), "
        "KF_MEM_REPLACE_BOUNDS (xml_encode/xml_decode only for capacity >= required + 6), KF_BT_END_READ (one more readable byte, not 'e'), "
        "KF_BT_DICT_KEY (raw span of dictionaries not checked), KF_BT_LEN_WRAP (< 20 length digits), "
        "KF_XML_GET_VAL (inputs without '/', not ending in '<', no blank after '<', spare tag slot)",
    ],
    "harness_functions": ["harness", "v_alloc", "v_buf", "v_calloc", "v_reallocarray", "spec_realloc_items", "memchr", "memrchr", "memmem",
                          "explicit_bzero", "ent_at", "chk_node", "bt_en_decode"],
}

KF = set()   # the other nine were repaired in /repo (known_findings.json: fixed)   # KF_INI_GEN_BOUNDS lifted: fixed in /repo by 8cdc02c   # known-finding blocking defines in force (see findings/*.md); removed once the fixes are in /repo

def J(name, src, defs, unwind, shape, desc, **kw):
    d = {"name": name, "src": src, "defs": dict(defs), "unwind": unwind, "solver": SOLVER, "shape": shape, "desc": desc}
    d.update(kw)
    return d

def b64_jobs(tier):
    out = []
    top = 13 if tier == "thorough" else 9
    for fn, nm in ((1, "enc"), (2, "dec"), (3, "fmt"), (4, "encopy")):
        for L in range(0, top + 1):
            defs = {"FN": fn, "LEN": L}
            for k in ("KF_B64_ENC_NUL", "KF_B64_DEC_NUL"):
                if k in KF: defs[k] = None
            out.append(J("b64-%s-L%d" % (nm, L), "b64.c", defs, max(L + 8, 4 * ((L + 2) // 3) + 5),
                         "base64 %s: source length %d (bytes symbolic), every destination capacity 0..required+1" % (nm, L),
                         "bounds of src/dst objects, error codes, reported size == required size, reported size suffices"))
    return out

def kf(defs, *names):
    for k in names:
        if k in KF: defs[k] = None
    return defs

def bufstr_jobs(tier):
    out = []
    top = 10 if tier == "thorough" else 6
    for L in range(0, top + 1):
        out.append(J("hex-bin2hex-L%d" % L, "bufstr.c", {"FN": 1, "LEN": L}, 2 * L + 8,
                     "cvt_bin2hex: %d source bytes, auto_out_size and NULL size pointer symbolic, capacities 0..2*LEN+3" % L,
                     "object bounds, EINVAL/EOVERFLOW/0, EOVERFLOW reports 2*LEN, produced size <= capacity, terminator only if room"))
        out.append(J("hex-hex2bin-L%d" % L, "bufstr.c", {"FN": 2, "LEN": L}, L + 8,
                     "cvt_hex2bin: %d source bytes (arbitrary, non-hex skipped), capacities 0..LEN/2+1" % L,
                     "object bounds, never overflows, LEN/2 suffices, produced size <= capacity"))
        out.append(J("bufstr-calc-L%d" % L, "bufstr.c", {"FN": 3, "LEN": L}, L + 4,
                     "calc_sptab_count/_r, calc_non_sptab_count/_r on %d arbitrary bytes" % L, "object bounds, result <= length"))
        for ma in ((1, 2, 3) if tier == "thorough" else (1, 2)):
            if ma > max(1, (L + 1) // 2 + 1): continue
            out.append(J("bufstr-buf2args-L%d-A%d" % (L, ma), "bufstr.c", kf({"FN": 5, "LEN": L, "MAXARGS": ma}, "KF_BUF2ARGS_NUL"), L + 4,
                         "buf2args: %d arbitrary bytes, max_args=%d, args/args_sizes arrays of exactly max_args" % (L, ma),
                         "object bounds of buf/args/args_sizes, count <= max_args, every argument inside the buffer"))
        out.append(J("bufstr-nextline-L%d" % L, "bufstr.c", {"FN": 6, "LEN": L}, L + 4,
                     "buf_get_next_line: %d arbitrary bytes, previous line = NULL or any (offset,size) inside the buffer" % L,
                     "object bounds, returned line inside buffer, never backwards"))
        out.append(J("bufstr-lineiter-L%d" % L, "bufstr.c", {"FN": 7, "LEN": L}, L + 4,
                     "buf_get_next_line iterated from NULL as ini_buf_parse does, %d arbitrary bytes" % L,
                     "every line inside buffer, strict progress, at most LEN lines (termination)"))
        for L2 in (1, 3):
            out.append(J("bufstr-xor-L%d-S%d" % (L, L2), "bufstr.c", {"FN": 8, "LEN": L, "LEN2": L2}, L + 4,
                         "data_xor8 / memxorbuf(dst %d bytes, key %d bytes) / yn_set_flag32" % (L, L2), "object bounds"))
    return out

def mem_jobs(tier):
    out = []
    top = 8 if tier == "thorough" else 5
    for L in range(0, top + 1):
        out.append(J("mem-chr-L%d" % L, "mem.c", {"FN": 1, "LEN": L}, L + 4,
                     "mem_chr/_off/_ptr, mem_rchr/_off/_ptr: %d arbitrary bytes, any byte, any offset <= size" % L,
                     "object bounds, result NULL or inside the searched span"))
        for L2 in ((0, 1, 2, 3) if tier == "thorough" else (1, 2)):
            out.append(J("mem-find-L%d-N%d" % (L, L2), "mem.c", {"FN": 2, "LEN": L, "LEN2": L2}, L + L2 + 4,
                         "mem_find/_off/_ptr: haystack %d, needle %d arbitrary bytes, any offset <= size" % (L, L2),
                         "object bounds, match (if any) lies completely inside the searched span"))
            out.append(J("mem-cmp-L%d-N%d" % (L, L2), "mem.c", {"FN": 5, "LEN": L, "LEN2": L2}, L + L2 + 40,
                         "mem_cmp/cmpn/cmpi/cmpin, mem_to_lower/upper, mem_dup2, realloc_items: buffers of %d and %d bytes" % (L, L2),
                         "object bounds; realloc_items leaves room for the next item"))
    # mem_find_stream: goto-built loops; CBMC counts iterations per traversal, not per path, so unwinding assertions only
    # pass for these small shapes [measured: L=2,N=3 and L=3,N=3 still fail their unwinding assertion at bound 5 / 112 s]
    for L, L2, u in ((1, 1, 3), (1, 2, 3), (1, 3, 3), (2, 1, 3), (2, 2, 3), (3, 1, 4), (3, 2, 4)):
        if tier == "quick" and (L, L2) in ((3, 2), (1, 3)): continue
        out.append(J("mem-stream-L%d-N%d" % (L, L2), "mem.c", {"FN": 3, "LEN": L, "LEN2": L2}, u,
                     "mem_find_stream: chunk %d bytes, pattern %d bytes, any carried state" % (L, L2),
                     "object bounds of chunk and pattern, state < pattern size, end offset inside chunk, termination"))
    return out

NUMT = ["usize", "u8", "u16", "u32", "u64", "ssize", "s8", "s16", "s32", "s64"]

def small_jobs(tier):
    out = []
    noarith = ["--no-signed-overflow-check", "--no-undefined-shift-check"]
    for fam, lens in (("strh2", (0, 5) if tier == "quick" else (0, 1, 2, 5, 9, 18)),
                      ("str2", (0, 5) if tier == "quick" else (0, 1, 2, 5, 9, 22))):
        for t in NUMT:
            for pre, ch in (("", "char"), ("u", "uint8_t")):
                for L in lens:
                    if tier == "quick" and pre == "u" and L != 5: continue
                    fn = "%s%s%s" % (pre, fam, t)
                    out.append(J("num-%s-L%d" % (fn, L), "small.c", {"FN": 1, "LEN": L, "T_PARSE": fn, "T_CH": ch}, L + 3,
                                 "%s on %d arbitrary bytes (signs, digits, junk anywhere), exactly sized buffer" % (fn, L),
                                 "reads only the given bytes, terminates", flags=noarith))
    for L in range(0, (7 if tier == "thorough" else 5)):
        for cap in sorted(set((0, 1, L, L + 1))):
            out.append(J("utf8-L%d-C%d" % (L, cap), "small.c", {"FN": 2, "LEN": L, "CAP": cap}, L + 3,
                         "utf8_decode: %d arbitrary bytes into %d bytes" % (L, cap), "object bounds incl. the utf8d table, result <= capacity"))
    for L in range(0, (13 if tier == "thorough" else 9)):
        out.append(J("asn1-L%d" % L, "small.c", kf({"FN": 3, "LEN": L}, "KF_ASN_TAG_INDEX", "KF_ASN_SHORT_LEN"), L + 12,
                     "asn_parse: %d arbitrary bytes, any start offset, any subset of NULL out-pointers" % L,
                     "object bounds incl. asn_class_uni_ps table, header/data/next offset inside the buffer, error codes"))
    for L in ((0, 1, 3, 63, 64, 65) if tier == "quick" else (0, 1, 2, 3, 7, 63, 64, 65, 80)):
        out.append(J("crc32-L%d" % L, "small.c", {"FN": 4, "LEN": L}, L + 3,
                     "all eight crc32 variants + the 4/8-bit table kernels on %d arbitrary bytes, any start value" % L,
                     "object bounds of data and lookup tables (16 and 256 entries)"))
    return out

def bt_jobs(tier):
    out = []
    BTKF = ("KF_BT_END_READ", "KF_BT_DICT_KEY", "KF_BT_LEN_WRAP")
    # forming an out-of-range pointer VALUE in a comparison (no access) is reported by CBMC as "pointer relation"; it is
    # not a memory access and no sanitizer sees it: excluded here (the wrap-around case it can lead to is job bt-strlen-L22)
    excl = "pointer relation"
    def us(L, K, R):
        return ["bt_en_decode_top.%d:%d" % (i, K) for i in range(4)] + ["bt_en_free:%d" % R, "bt_en_free.0:%d" % (K if R > 1 else 1), "bt_en_free.1:%d" % (K if R > 1 else 1)]
    for L in ((0, 1, 2, 3, 4) if tier == "quick" else (0, 1, 2, 3, 4, 5, 6, 7)):
        out.append(J("bt-dec-L%d" % L, "bt.c", kf({"FN": 1, "LEN": L}, *BTKF), L + 3,
                     "bt_en_decode body on %d arbitrary bytes; nested calls = contract stub (induction on nesting depth)" % L,
                     "object bounds, nested calls stay inside the buffer, <= LEN+1 nested calls, result obeys the contract",
                     unwindset=us(L, L + 2, 1), prop_exclude=excl, timeout=300, flags=["--no-malloc-may-fail"], cost=30 * L))
    for L in ((3,) if tier == "quick" else (3, 4, 5, 6)):
        out.append(J("bt-flat-L%d" % L, "bt.c", kf({"FN": 1, "LEN": L, "MAXCONT": 1}, *BTKF), L + 3,
                     "as bt-dec-L%d, inputs with at most one 'l'/'d' byte (nested items are strings / integers, for which the stub is byte-exact)" % L,
                     "same obligations; counterexamples of this shape replay against the real recursive function",
                     unwindset=us(L, L + 2, 1), prop_exclude=excl, timeout=300, flags=["--no-malloc-may-fail"], cost=30 * L))
    for L in (() if "KF_BT_LEN_WRAP" in KF else (22,)):   # the shape IS the known finding's input class: vacuous while blocked
        out.append(J("bt-strlen-L%d" % L, "bt.c", kf({"FN": 1, "LEN": L, "DIGIT0": None, "NEARMAX": None}, *BTKF), L + 3,
                     "bt_en_decode on %d bytes: '<%d digits>:' + one byte, length value within 2^32 of SIZE_MAX" % (L, L - 2),
                     "as bt-dec; reaches the 20-digit lengths around SIZE_MAX",
                     unwindset=us(L, 2, 1), prop_exclude=excl, timeout=300, flags=["--no-malloc-may-fail"]))
    return out

def xml_jobs(tier):
    out = []
    for fn, nm in ((1, "get"), (2, "getns")):
        for L in ((2, 3) if tier == "quick" else (1, 2, 3, 4, 5)):
            for nt in ((1,) if tier == "quick" else (1, 2)):
                out.append(J("xml-%s-L%d-T%d" % (nm, L, nt), "xmlget.c", kf({"FN": fn, "LEN": L, "NTAG": nt}, "KF_XML_GET_VAL"), 4,
                             "xml_get_val%s_arr: %d arbitrary bytes, %d one-byte tag names, exactly sized tag arrays; call + resumed call" % ("_ns" if fn == 2 else "", L, nt),
                             "object bounds (data, tag arrays), result spans inside the data, progress of next_pos",
                             unwindset=["xml_get_val_arr.%d:%d" % (i, L + 2) for i in range(3)] + ["xml_get_val_ns_arr.%d:%d" % (i, L + 2) for i in range(3)] +
                                       ["memchr.0:%d" % (L + 2), "memmem.0:5", "memmem.1:%d" % (L + 2), "memcmp.0:10", "harness.0:%d" % (L + 2), "harness.1:%d" % (L + 2)],
                             timeout=300, prop_exclude="same object violation|pointer NULL in \\*next_pos", cost=100 * L))
    return out

def xmlcodec_jobs(tier):
    out = []
    kfm = "KF_MEM_REPLACE_BOUNDS" in KF
    def minneed_dec(L):   # fewest output bytes of an L-byte input: entities of 4/5/6 bytes give 1 byte, anything else 1:1
        best = [0] * (L + 1)
        for n in range(1, L + 1):
            best[n] = min(best[n - k] + 1 for k in (1, 4, 5, 6) if k <= n)
        return best[L]
    for fn, nm in ((1, "encode"), (2, "decode")):
        if fn == 1: lens = (1, 2) if tier == "quick" else (0, 1, 2, 3)     # L=3: 160-190 s per capacity [measured]
        else: lens = (4, 5) if tier == "quick" else (1, 4, 5, 6, 7)         # entities need >= 4 bytes; L=6: 145 s [measured]
        for L in lens:
            lo, hi = (L, 6 * L) if fn == 1 else (minneed_dec(L), L)       # smallest / largest possible required size
            if kfm:   # blocked class: capacity < required + 6
                caps = sorted(set([lo + 6, lo + 7, hi + 6, hi + 7]))
            elif tier == "quick":
                caps = sorted(set([0, 1, lo, lo + 1, hi, hi + 1]))
            else:
                caps = list(range(0, hi + 2))
            for cap in caps:
                out.append(J("xml-%s-L%d-C%d" % (nm, L, cap), "xmlcodec.c", kf({"FN": fn, "LEN": L, "CAP": cap}, "KF_MEM_REPLACE_BOUNDS"), L + 3,
                             "xml_%s (mem_replace_arr, 5 entity rules): %d arbitrary source bytes, capacity %d" % (nm, L, cap),
                             "object bounds, ENOBUFS + required size when too small, required size suffices and is produced",
                             unwindset=["mem_replace_arr.0:6", "mem_replace_arr.1:6", "mem_replace_arr.2:6", "mem_replace_arr.3:%d" % (L + 2),
                                        "memmem.0:7", "memmem.1:%d" % (L + 2), "memcmp.0:8", "harness.0:%d" % (L + 2), "harness.1:%d" % (L + 2)],
                             timeout=300, cost=20))
    return out

def ini_jobs(tier):
    out = []
    shapes = ((1, (0, 3)), (2, (4,))) if tier == "quick" else ((1, (0, 1, 2, 3, 4)), (2, (0, 2, 3, 4, 5, 6, 7)))
    for L, caps in shapes:
        for cap in caps:
            if "KF_INI_GEN_BOUNDS" in KF and cap == 1: continue
            out.append(J("ini-L%d-C%d" % (L, cap), "inibuf.c", kf({"LEN": L, "CAP": cap}, "KF_INI_GEN_BOUNDS"), L + 3,
                         "ini_buf_parse on %d arbitrary bytes, ini_buf_calc_size, ini_buf_gen into %d bytes, ini_destroy" % (L, cap),
                         "object bounds (lines, pointer array, output), names/values inside their line, calc_size == sum, gen never overruns, exact size suffices",
                         unwindset=["v_calloc.0:%d" % (L + 2)], flags=["--slice-formula"], timeout=400, mem_gb=10, cost=300 * L))
    return out

def jobs(tier):
    return (b64_jobs(tier) + bufstr_jobs(tier) + mem_jobs(tier) + small_jobs(tier) + bt_jobs(tier) + xml_jobs(tier) +
            xmlcodec_jobs(tier) + ini_jobs(tier))
