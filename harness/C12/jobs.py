import os
SOLVER = os.environ.get("C12_SOLVER", "cadical")

META = {"bounds": "", "outside": "", "assumptions": [], "harness_functions": ["harness", "v_alloc", "v_buf", "v_reallocarray", "memchr", "memrchr", "memmem", "explicit_bzero"]}

KF = set() if os.environ.get("C12_NO_KF") else {"KF_B64_ENC_NUL", "KF_B64_DEC_NUL", "KF_BUF2ARGS_NUL", "KF_ASN_TAG_INDEX", "KF_ASN_SHORT_LEN", "KF_MEM_REPLACE_BOUNDS", "KF_BT_END_READ", "KF_BT_DICT_KEY", "KF_BT_LEN_WRAP", "KF_INI_GEN_BOUNDS"}   # known-finding blocking defines in force (see findings/*.md); removed once the fixes are in /repo

def J(name, src, defs, unwind, shape, desc, **kw):
    d = {"name": name, "src": src, "defs": dict(defs), "unwind": unwind, "solver": SOLVER, "shape": shape, "desc": desc}
    d.update(kw)
    return d

def b64_jobs(tier):
    out = []
    top = 13 if tier == "thorough" else 9
    for fn, nm in ((1, "enc"), (2, "dec"), (3, "fmt"), (4, "encopy")):
        for L in range(0, top + 1):
            defs = {"FN": fn, "LEN": L}
            for k in ("KF_B64_ENC_NUL", "KF_B64_DEC_NUL"):
                if k in KF: defs[k] = None
            out.append(J("b64-%s-L%d" % (nm, L), "b64.c", defs, L + 8,
                         "base64 %s: source length %d (bytes symbolic), every destination capacity 0..required+1" % (nm, L),
                         "bounds of src/dst objects, error codes, reported size == required size, reported size suffices"))
    return out

def kf(defs, *names):
    for k in names:
        if k in KF: defs[k] = None
    return defs

def bufstr_jobs(tier):
    out = []
    top = 10 if tier == "thorough" else 6
    for L in range(0, top + 1):
        out.append(J("hex-bin2hex-L%d" % L, "bufstr.c", {"FN": 1, "LEN": L}, 2 * L + 8,
                     "cvt_bin2hex: %d source bytes, auto_out_size and NULL size pointer symbolic, capacities 0..2*LEN+3" % L,
                     "object bounds, EINVAL/EOVERFLOW/0, EOVERFLOW reports 2*LEN, produced size <= capacity, terminator only if room"))
        out.append(J("hex-hex2bin-L%d" % L, "bufstr.c", {"FN": 2, "LEN": L}, L + 8,
                     "cvt_hex2bin: %d source bytes (arbitrary, non-hex skipped), capacities 0..LEN/2+1" % L,
                     "object bounds, never overflows, LEN/2 suffices, produced size <= capacity"))
        out.append(J("bufstr-calc-L%d" % L, "bufstr.c", {"FN": 3, "LEN": L}, L + 4,
                     "calc_sptab_count/_r, calc_non_sptab_count/_r on %d arbitrary bytes" % L, "object bounds, result <= length"))
        for ma in ((1, 2, 3) if tier == "thorough" else (1, 2)):
            if ma > max(1, (L + 1) // 2 + 1): continue
            out.append(J("bufstr-buf2args-L%d-A%d" % (L, ma), "bufstr.c", kf({"FN": 5, "LEN": L, "MAXARGS": ma}, "KF_BUF2ARGS_NUL"), L + 4,
                         "buf2args: %d arbitrary bytes, max_args=%d, args/args_sizes arrays of exactly max_args" % (L, ma),
                         "object bounds of buf/args/args_sizes, count <= max_args, every argument inside the buffer"))
        out.append(J("bufstr-nextline-L%d" % L, "bufstr.c", {"FN": 6, "LEN": L}, L + 4,
                     "buf_get_next_line: %d arbitrary bytes, previous line = NULL or any (offset,size) inside the buffer" % L,
                     "object bounds, returned line inside buffer, never backwards"))
        out.append(J("bufstr-lineiter-L%d" % L, "bufstr.c", {"FN": 7, "LEN": L}, L + 4,
                     "buf_get_next_line iterated from NULL as ini_buf_parse does, %d arbitrary bytes" % L,
                     "every line inside buffer, strict progress, at most LEN lines (termination)"))
        for L2 in (1, 3):
            out.append(J("bufstr-xor-L%d-S%d" % (L, L2), "bufstr.c", {"FN": 8, "LEN": L, "LEN2": L2}, L + 4,
                         "data_xor8 / memxorbuf(dst %d bytes, key %d bytes) / yn_set_flag32" % (L, L2), "object bounds"))
    return out

def mem_jobs(tier):
    out = []
    top = 8 if tier == "thorough" else 5
    for L in range(0, top + 1):
        out.append(J("mem-chr-L%d" % L, "mem.c", {"FN": 1, "LEN": L}, L + 4,
                     "mem_chr/_off/_ptr, mem_rchr/_off/_ptr: %d arbitrary bytes, any byte, any offset <= size" % L,
                     "object bounds, result NULL or inside the searched span"))
        for L2 in ((0, 1, 2, 3) if tier == "thorough" else (1, 2)):
            out.append(J("mem-find-L%d-N%d" % (L, L2), "mem.c", {"FN": 2, "LEN": L, "LEN2": L2}, L + L2 + 4,
                         "mem_find/_off/_ptr: haystack %d, needle %d arbitrary bytes, any offset <= size" % (L, L2),
                         "object bounds, match (if any) lies completely inside the searched span"))
            out.append(J("mem-cmp-L%d-N%d" % (L, L2), "mem.c", {"FN": 5, "LEN": L, "LEN2": L2}, L + L2 + 40,
                         "mem_cmp/cmpn/cmpi/cmpin, mem_to_lower/upper, mem_dup2, realloc_items: buffers of %d and %d bytes" % (L, L2),
                         "object bounds; realloc_items leaves room for the next item"))
        for L2 in ((1, 2, 3, 4) if tier == "thorough" else (1, 2, 3)):
            out.append(J("mem-stream-L%d-N%d" % (L, L2), "mem.c", {"FN": 3, "LEN": L, "LEN2": L2}, 2 * (L + L2) + 6,
                         "mem_find_stream: chunk %d bytes, pattern %d bytes, any carried state" % (L, L2),
                         "object bounds of chunk and pattern, state < pattern size, end offset inside chunk, termination"))
        if L <= (5 if tier == "thorough" else 4):
            out.append(J("mem-replace-L%d" % L, "mem.c", kf({"FN": 4, "LEN": L}, "KF_MEM_REPLACE_BOUNDS"), 3 * L + 8,
                         "mem_replace_arr: %d source bytes, rules 'ab'->1 byte and <byte>->3 bytes, capacities 0..3*LEN+1" % L,
                         "object bounds, ENOBUFS + required size when too small, required size suffices"))
    return out

NUMT = ["usize", "u8", "u16", "u32", "u64", "ssize", "s8", "s16", "s32", "s64"]

def small_jobs(tier):
    out = []
    noarith = ["--no-signed-overflow-check", "--no-undefined-shift-check"]
    for fam, lens in (("strh2", (0, 1, 5) if tier == "quick" else (0, 1, 2, 5, 9, 18)),
                      ("str2", (0, 1, 5) if tier == "quick" else (0, 1, 2, 5, 9, 22))):
        for t in NUMT:
            for pre, ch in (("", "char"), ("u", "uint8_t")):
                for L in lens:
                    if tier == "quick" and pre == "u" and L != 5: continue
                    fn = "%s%s%s" % (pre, fam, t)
                    out.append(J("num-%s-L%d" % (fn, L), "small.c", {"FN": 1, "LEN": L, "T_PARSE": fn, "T_CH": ch}, L + 3,
                                 "%s on %d arbitrary bytes (signs, digits, junk anywhere), exactly sized buffer" % (fn, L),
                                 "reads only the given bytes, terminates", flags=noarith))
    for L in range(0, (7 if tier == "thorough" else 5)):
        for cap in sorted(set((0, 1, L, L + 1))):
            out.append(J("utf8-L%d-C%d" % (L, cap), "small.c", {"FN": 2, "LEN": L, "CAP": cap}, L + 3,
                         "utf8_decode: %d arbitrary bytes into %d bytes" % (L, cap), "object bounds incl. the utf8d table, result <= capacity"))
    for L in range(0, (13 if tier == "thorough" else 9)):
        out.append(J("asn1-L%d" % L, "small.c", kf({"FN": 3, "LEN": L}, "KF_ASN_TAG_INDEX", "KF_ASN_SHORT_LEN"), L + 12,
                     "asn_parse: %d arbitrary bytes, any start offset, any subset of NULL out-pointers" % L,
                     "object bounds incl. asn_class_uni_ps table, header/data/next offset inside the buffer, error codes"))
    for L in ((0, 1, 3, 63, 64, 65) if tier == "quick" else (0, 1, 2, 3, 7, 63, 64, 65, 80)):
        out.append(J("crc32-L%d" % L, "small.c", {"FN": 4, "LEN": L}, L + 3,
                     "all eight crc32 variants + the 4/8-bit table kernels on %d arbitrary bytes, any start value" % L,
                     "object bounds of data and lookup tables (16 and 256 entries)"))
    return out

def bt_jobs(tier):
    out = []
    BTKF = ("KF_BT_END_READ", "KF_BT_DICT_KEY", "KF_BT_LEN_WRAP")
    # forming an out-of-range pointer VALUE in a comparison (no access) is reported by CBMC as "pointer relation"; it is
    # not a memory access and no sanitizer sees it: excluded here (the wrap-around case it can lead to is job bt-strlen-L22)
    excl = "pointer relation"
    def us(L, K, R):
        return ["bt_en_decode_top.%d:%d" % (i, K) for i in range(4)] + ["bt_en_free:%d" % R, "bt_en_free.0:%d" % (K if R > 1 else 1), "bt_en_free.1:%d" % (K if R > 1 else 1)]
    for L in ((0, 1, 2, 3, 4, 5, 6) if tier == "quick" else (0, 1, 2, 3, 4, 5, 6, 7, 8)):
        out.append(J("bt-dec-L%d" % L, "bt.c", kf({"FN": 1, "LEN": L}, *BTKF), L + 3,
                     "bt_en_decode body on %d arbitrary bytes; nested calls = contract stub (induction on nesting depth)" % L,
                     "object bounds, nested calls stay inside the buffer, <= LEN+1 nested calls, result obeys the contract",
                     unwindset=us(L, L + 2, 1), prop_exclude=excl, timeout=300, flags=["--no-malloc-may-fail"]))
    for L in ((3, 4, 5) if tier == "quick" else (3, 4, 5, 6, 7)):
        out.append(J("bt-flat-L%d" % L, "bt.c", kf({"FN": 1, "LEN": L, "MAXCONT": 1}, *BTKF), L + 3,
                     "as bt-dec-L%d, inputs with at most one 'l'/'d' byte (nested items are strings / integers, for which the stub is byte-exact)" % L,
                     "same obligations; counterexamples of this shape replay against the real recursive function",
                     unwindset=us(L, L + 2, 1), prop_exclude=excl, timeout=300, flags=["--no-malloc-may-fail"]))
    for L in ((22,) if tier == "quick" else (21, 22, 23)):
        out.append(J("bt-strlen-L%d" % L, "bt.c", kf({"FN": 1, "LEN": L, "DIGIT0": None, "NEARMAX": None}, *BTKF), L + 3,
                     "bt_en_decode on %d bytes: '<%d digits>:' + one byte, length value within 2^32 of SIZE_MAX" % (L, L - 2),
                     "as bt-dec; reaches the 20-digit lengths around SIZE_MAX",
                     unwindset=us(L, 2, 1), prop_exclude=excl, timeout=300, flags=["--no-malloc-may-fail"]))
    return out

def jobs(tier):
    return b64_jobs(tier) + bufstr_jobs(tier) + mem_jobs(tier) + small_jobs(tier) + bt_jobs(tier)
