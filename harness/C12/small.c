/* C12: small header-only utilities.  FN: 1 strh2num / str2num parser on arbitrary bytes (T_PARSE, T_CH), 2 utf8_decode,
 * 3 asn_parse, 4 crc32 family.  LEN = input length (concrete), bytes symbolic, exactly sized heap objects.
 * For FN 1 signed overflow / shifts of negative values inside the accumulation are not part of C12 (jobs pass
 * --no-signed-overflow-check --no-undefined-shift-check; the value semantics are C14's subject). */
#include "verif.h"
#include <errno.h>
#include <sys/types.h>
#include "libc_stubs.h"
#include "utils/str2num.h"
#include "utils/strh2num.h"
#include "utils/utf8.h"
#include "utils/asn1.h"
#include "math/crc32.h"

#ifndef CAP
#define CAP 0
#endif
struct in_s { uint8_t src[LEN + 1]; size_t off; uint8_t flags; uint32_t crc; };
#include "verif_in.h"

void harness(void) {
	V_BEGIN();
	uint8_t *src = v_buf(IN.src, LEN);
#if FN == 1
	volatile int64_t sink = (int64_t)T_PARSE((const T_CH *)src, LEN);
	(void)sink;
	V_WITNESS("parser returned");
#elif FN == 2
	{
		uint8_t *dst = (uint8_t *)v_alloc(CAP);
		size_t n = utf8_decode(src, LEN, dst, CAP);
		V_ASSERT(n <= CAP, "utf8_decode: returned size within capacity");
		V_WITNESS("utf8_decode returned");
	}
#elif FN == 3
	{
		size_t off = IN.off, hdr = 777, tag = 777, dsz = 777;
		uint8_t cls = 77, ps = 77, *data = NULL;
#ifdef KF_ASN_TAG_INDEX	/* known finding: universal class + long-form tag >= 32 indexes asn_class_uni_ps[32] out of bounds */
		{
			size_t o = (IN.flags & 1) ? 0 : IN.off;
			if (o <= LEN && LEN - o >= 2 && (src[o] & 0xc0) == 0 && (src[o] & 0x1f) == 0x1f) {
				size_t t = 0, k = o + 1;
				do { t = (t << 7) | (size_t)(src[k] & 0x7f); } while ((src[k++] & 0x80) && k < LEN);
				V_ASSUME(t < 32);
			}
		}
#endif
		int r = asn_parse(src, LEN, (IN.flags & 1) ? NULL : &off, (IN.flags & 2) ? NULL : &hdr, &cls, &ps,
		    (IN.flags & 4) ? NULL : &tag, (IN.flags & 8) ? NULL : &data, (IN.flags & 16) ? NULL : &dsz);
		size_t off0 = (IN.flags & 1) ? 0 : IN.off;
		if (r == 0) {
			if (!(IN.flags & 2)) V_ASSERT(hdr >= 2 && hdr <= LEN - off0, "asn_parse: header inside the buffer");
			if (!(IN.flags & 8)) V_ASSERT(data >= src + off0 && data <= src + LEN, "asn_parse: data pointer inside the buffer");
#ifndef KF_ASN_SHORT_LEN	/* known finding: short-form length is not checked against the remaining bytes */
			if (!(IN.flags & 8) && !(IN.flags & 16)) V_ASSERT(dsz <= (size_t)((src + LEN) - data), "asn_parse: data span inside the buffer");
			if (!(IN.flags & 1)) V_ASSERT(off > off0 && off <= LEN, "asn_parse: next offset inside the buffer and advanced");
#endif
			V_WITNESS("asn_parse ok");
		} else {
			V_ASSERT(r == EINVAL || r == ESPIPE || r == EBADMSG || r == EDOM || r == EOVERFLOW, "asn_parse: documented error codes");
			if (!(IN.flags & 1)) V_ASSERT(off == IN.off, "asn_parse: offset untouched on error");
			V_WITNESS("asn_parse error");
		}
	}
#elif FN == 4
	{
		uint32_t c = 0, c0 = IN.crc;	/* every call starts from the same symbolic value: no 13-deep dependency chain */
		c ^= crc32a_update(c0, src, LEN); c ^= crc32b_update(c0, src, LEN);
		c ^= crc32_normal8(crc32_tbl256_814141ab, c0, src, LEN);
		c ^= crc32_reflect8(crc32_tbl256_a833982b, c0, src, LEN);
#if LEN < 40
		c ^= crc32cksum_update(c0, src, LEN); c ^= crc32mpeg2_update(c0, src, LEN);
		c ^= crc32jamcrc_update(c0, src, LEN); c ^= crc32c_update(c0, src, LEN);
		c ^= crc32d_update(c0, src, LEN); c ^= crc32q_update(c0, src, LEN);
		c ^= crc32_normal4(crc32_tbl256_04c11db7, c0, src, LEN);
		c ^= crc32_reflect4(crc32_tbl16_1edc6f41, c0, src, LEN);
		c ^= crc32_reflect(crc32_tbl256_edb88320, NULL, c0, src, LEN);
#endif
		volatile uint32_t sink = c; (void)sink;
		V_WITNESS("crc32 family returned");
	}
#endif
}
