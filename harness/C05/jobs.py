import itertools

# Shape of a job: NTHR pool threads (+ the virtual thread), a concrete step pattern PAT over
#   s = send (actor, src form, destination, flags: symbolic)       n = the same send issued from inside a callback
#   r = one tpt_loop dispatch of a (symbolic) pool thread, own queue   v = same, virtual thread's queue
# DOWN = mask of threads whose pthread_create failed (state STOP), LATE = mask of threads still STARTING.
# Everything else (who sends, to whom, which flags, which write() fails and how, which worker receives, spurious
# wake-ups of the nested epoll) is a solver variable.

META = {
    "bounds": "pools of 2 and 3 threads plus the shared virtual thread; queue capacity 2 packets (then EAGAIN); schedules of "
              "4 (quick) / 4-5 (thorough) steps drawn from {send, send-from-callback, receive own queue, receive virtual queue} "
              "followed by a full drain; per send: sender in {outside thread, any running pool thread}, src NULL or own tpt, "
              "destination any real thread or the virtual thread, all 8 combinations of SELF_DIRECT/FORCE/FAIL_DIRECT, "
              "write() result in {ok, EAGAIN, EPIPE, EBADF} per call; destination thread running / still STARTING / not "
              "created; one read() returns every queued packet (<= 2)",
    "outside": "pools of 4..16 threads; more than 5 steps; more than 2 packets per read() (the second iteration of the read loop "
               "needs 1024 queued packets); damaged packets and the resynchronisation code (the kernel cannot produce them: "
               "atomic 32-byte writes - covered for memory safety elsewhere); interleavings finer than system-call "
               "granularity (the only shared access of tpt_msg_send besides write() is the unlocked read of tpt->state); "
               "sends racing with thread exit / pool destruction (C11); ordering between a queued and a later direct-call "
               "message (direct calls are synchronous by specification, the order clause is decided for queued messages)",
    "assumptions": [
        "sequentialisation: tpt_msg_send and one tpt_loop dispatch are atomic steps; every interleaving of such steps within the bound is explored",
        "pipe model (common/tp/post.h): atomic 32-byte writes, FIFO, capacity V_QCAP, read returns all whole packets, EAGAIN when empty/full",
        "epoll model: epoll_wait(maxevents=1) reports any one ready registration; the nested (virtual thread) epoll may wake a worker spuriously",
        "tpt_loop is left after one dispatch through its epoll_wait error branch (harness pre-emption); the loop keeps no state between iterations",
        "thread start is modelled by the harness doing what the head of tp_thread_proc does (state = RUNNING, TLS pointer)",
        "--no-malloc-may-fail: allocation failure is injected explicitly by the model (C11), never by CBMC's allocator",
        "the unit compiled is a verbatim slice of threadpool_msg_sys.c (gen.py): broadcast and async-op functions dropped so that "
        "CBMC's arity-based resolution of `msg_cb(...)` does not fan out into them; tpt_msg_send, tpt_msg_recv_and_process, "
        "tpt_msg_queue_create/destroy are byte-for-byte the repository's",
        "explicit_bzero is redirected to memset (same effect); syslog/snprintf/sigmask/affinity/name stubs do nothing",
    ],
    "harness_functions": ["harness", "cb_log", "do_send", "recv_step", "start_thread", "thr_tpt", "dst_tpt", "env_move"],
}


def unwindset(nthr, nstep, nest):
    us = ["v_close.0:4", "v_close.1:%d" % (nthr + 3), "memmem.0:1", "memmem.1:1",
          "tpt_msg_recv_and_process.2:1", "tpt_msg_recv_and_process.0:2", "tpt_msg_recv_and_process.1:4",
          "tpt_msg_recv_and_process:0", "pthread_create_eagain.0:2", "tpt_loop.0:3",
          "tp_create.3:%d" % (nthr + 2), "tp_threads_create.0:%d" % (nthr + 2), "strlen.0:4",
          "thr_tpt.0:%d" % (nthr + 2), "recv_step.0:%d" % (nthr + 2)]
    us += ["harness.%d:%d" % (i, max(nstep, nthr + 1) + 2) for i in range(8)]
    if nest:
        us += ["tpt_msg_send:1", "cb_log:1", "do_send:1"]
    else:
        us += ["tpt_msg_send:1", "cb_log:0"]
    return us


def job(nthr, pat, down=0, late=0, tier="quick"):
    nest = "n" in pat
    defs = {"NTHR": nthr, "NSTEP": len(pat), "PAT": '"%s"' % pat, "DOWN": down, "LATE": late, "V_NO_FAULTS": None,
            "TPT_MSG_COUNT_TO_READ": 3}   # LIBLCB_VERIF hook: 3-packet read buffer (the pipe model holds <= 2)
    if nest:
        defs["NEST"] = None
    return {
        "name": "uni-t%d-%s-d%d-l%d" % (nthr, pat, down, late), "src": "uni.c", "defs": defs,
        "unwind": 3, "unwindset": unwindset(nthr, len(pat), nest), "solver": "cadical",
        "flags": ["--no-malloc-may-fail"], "timeout": 400 if tier == "quick" else 1500, "mem_gb": 24 if nest else (8 if tier == "quick" else 12), "heavy": nest,
        "shape": "threads=%d(+virtual) steps=%s down-mask=%d starting-mask=%d queue-capacity=2" % (nthr, pat, down, late),
        "desc": "return code / direct call / exactly once / right thread / per-sender order, for every actor, destination, "
                "flag set and write() outcome of the pattern",
    }


def jobs(tier):
    out = []
    quick = [(2, "sssr", 0, 0), (2, "ssrs", 0, 0), (2, "srsr", 0, 0), (2, "svsr", 0, 0), (2, "ssvs", 0, 0),
             (2, "ssrs", 2, 0), (2, "ssrs", 0, 1)]
    if tier == "quick":
        return [job(*q) for q in quick]
    seen = set()
    for q in quick:
        seen.add(q)
        out.append(job(*q, tier=tier))
    for pat in ("".join(p) for p in itertools.product("srv", repeat=4)):
        if pat.count("s") < 2:
            continue
        q = (2, pat, 0, 0)
        if q not in seen:
            seen.add(q)
            out.append(job(*q, tier=tier))
    for q in [(2, "snrs", 0, 0), (2, "sssr", 1, 0), (2, "svsv", 2, 0), (2, "srsr", 0, 2), (2, "svsr", 0, 3), (2, "nsrs", 0, 0), (2, "svnr", 0, 0),
              (3, "ssrs", 0, 0), (3, "svsr", 0, 0), (3, "ssrs", 4, 0), (3, "ssvr", 0, 2),
              (2, "ssrsr", 0, 0), (2, "sssrs", 0, 0), (2, "svsvs", 0, 0)]:
        if q not in seen:
            seen.add(q)
            out.append(job(*q, tier=tier))
    return out
