/* C05: unicast thread-pool messages - exactly once, in order, on the right thread.
 *
 * Real code executed: tp_create (+ tpt_data_init, tpt_data_event_init, tpt_msg_queue_create, tpt_ev_add_args2,
 * tpt_ev_post, epoll_ctl_ex), tp_threads_create, tpt_msg_send, tpt_loop (one dispatch per step, incl. the nested
 * epoll of the shared virtual thread), tpt_msg_recv_and_process, the threadpool.h accessors.
 * Environment: common/tp (pipe / epoll / pthread model).
 *
 * Shape: NTHR pool threads (+ the virtual thread, destination index NTHR), NSTEP solver-chosen steps:
 *   kind 0  actor `who` (0 = thread outside the pool, 1.. = pool thread who-1) calls
 *           tpt_msg_send(dst, src = NULL or own tpt, flags in {SELF_DIRECT, FORCE, FAIL_DIRECT}*, cb, &msg[step])
 *           [kind 3, if NEST: the same send is issued from inside a callback that is being delivered]
 *   kind 1  pool thread `who` runs ONE iteration of the real tpt_loop (epoll_wait -> dispatch -> callbacks);
 *           `pick` chooses which ready registration epoll_wait reports (own queue / virtual thread),
 *           `spur` lets the virtual thread's epoll be reported although another worker already emptied it.
 * Afterwards every started thread drains its own and the virtual queue.
 */
#include "verif.h"
#include "common/tp/pre.h"

#ifndef NSTEP
#define NSTEP 4
#endif

struct step_s {
	uint8_t	kind;		/* 0 send, 1 receive */
	uint8_t	who;		/* send: 0 external, 1..NTHR pool thread; receive: pool thread index */
	uint8_t	src_null;	/* send: pass src == NULL (rely on TLS) instead of the own tpt */
	uint8_t	dst;		/* 0..NTHR-1 real thread, NTHR = virtual thread */
	uint8_t	flags;		/* TP_MSG_F_* bits 0..2 */
	uint8_t	pick, spur;	/* receive: epoll_wait choice */
};

struct in_s {
	struct tp_in_s	tp;
	uint8_t		pc_res[NTHR + 2];	/* pthread_create results (0 ok, 1 EAGAIN, 2 EPERM) */
	uint8_t		started[NTHR];		/* created thread already entered its loop (RUNNING) before step 0 */
	struct step_s	step[NSTEP];
};
#include "verif_in.h"

/* Shape knobs (concrete per job, they keep CBMC's state merging small):
 *   PAT   string over {s,r,v,n}: kind of step i (send / receive from the own queue / receive from the virtual thread's
 *         queue / send from inside a callback); default: symbolic kinds
 *   DOWN  bit mask of threads whose pthread_create() fails with EPERM (state stays STOP); default: symbolic results
 *   LATE  bit mask of created threads that are still STARTING (not yet in their loop) during the steps */
#ifdef DOWN
#define V_PC_RESULT(i)	((((DOWN) >> (i)) & 1) ? 2 : 0)
#else
#define V_PC_RESULT(i)	(IN.pc_res[(i)] % 3)
#endif
#ifdef PAT
#define STEP_KIND(i)	((PAT)[(i)] == 's' ? 0 : ((PAT)[(i)] == 'n' ? 3 : 1))
#define STEP_ONLY(i)	((PAT)[(i)] == 'r' ? 0 : ((PAT)[(i)] == 'v' ? 1 : -1))	/* r: own queue, v: virtual thread's queue */
#else
#define STEP_KIND(i)	(IN.step[(i)].kind)
#define STEP_ONLY(i)	(-1)
#endif
#ifdef LATE
#define STARTED(t)	(!(((LATE) >> (t)) & 1))
#else
#define STARTED(t)	(IN.started[(t)])
#endif

#include "threadpool/threadpool.c"
#include "c05_msg_sys_unicast.c"	/* verbatim slice of threadpool_msg_sys.c written by gen.py: broadcast and async-op functions dropped */

static void env_move(int point, const void *obj) { (void)point; (void)obj; }	/* steps are the interleaving */
#include "common/tp/post.h"

/* ---- ghost log ---- */
struct msg_s {
	int	sent;		/* a send step used this slot */
	int	ret;		/* return code of tpt_msg_send */
	int	sender;		/* v_cur of the sender */
	int	dst;		/* destination index */
	int	cnt;		/* callback invocations */
	int	cnt_at_ret;	/* invocations when tpt_msg_send returned (1 = direct call) */
	int	ran_on;		/* v_cur inside the callback */
	tpt_p	tpt_arg;	/* first argument the callback saw */
	unsigned stamp;		/* global order of the callback */
	int	wr_failed;	/* the model's write() refused this packet */
	int	dst_running;	/* tpt_is_running(dst) at the time of the send */
	unsigned sent_at;	/* global time of the tpt_msg_send call (a nested send happens later than its step index says) */
};
static struct msg_s	msg[NSTEP];
static unsigned		clk;
static int		foreign_cb;	/* callback invoked with an argument that is no message */
static tp_p		tp;
static int		up[NTHR], running[NTHR];
static int		nest_step = -1;	/* step whose send is issued from inside the next delivered callback */

/* Pointers are selected by an if-chain over CONSTANT indices: `&tp->threads[d]` with a symbolic d would be a pointer with
 * a symbolic offset into the pool object, and every dereference of it a byte-level extraction (10 M SAT variables). */
static tpt_p
thr_tpt(int t) {
	tpt_p r = NULL;
	for (int k = 0; k < NTHR; k ++) {
		if (t == k)
			r = tp_thread_get(tp, (size_t)k);
	}
	return (r);
}
static tpt_p
dst_tpt(unsigned d) {
	return ((d == NTHR) ? tp_thread_get_pvt(tp) : thr_tpt((int)d));
}

static void do_send(int s);

static void
cb_log(tpt_p tpt, void *udata) {
	/* The argument is the message number + 1 carried as an integer: CBMC resolves indirect calls by arity only, so this
	 * function is also a candidate target of tpt_loop's `tp_udata->cb_func(&ev, tp_udata)`; writing through a pointer
	 * argument would make every pool object a potential target of those writes. */
	size_t id = (size_t)udata;
	if (0 == id || id > NSTEP) {
		foreign_cb ++;
		return;
	}
	struct msg_s *m = &msg[id - 1];
	m->cnt ++;
	m->ran_on = v_cur;
	m->tpt_arg = tpt;
	m->stamp = ++ clk;
#ifdef NEST
	if (nest_step >= 0) { /* a pool thread sends from inside a callback (its receive loop is mid-batch) */
		int s = nest_step;
		nest_step = -1;
		do_send(s);
	}
#endif
}

static void
start_thread(int t) { /* what the head of tp_thread_proc does before tpt_loop: RUNNING + TLS */
	tpt_p tpt = thr_tpt(t);
	tpt->state = TP_THREAD_STATE_RUNNING;
	v_tls[t + 1] = tpt;
	running[t] = 1;
}

static void
recv_step(int t, int pick, int spur, int only) {
	int save = v_cur;
	v_cur = t;
	v_ew_budget = 1;
	v_ew_only = only;
	v_ew_pick = pick;
	v_ew_spurious = spur;
	for (int k = 0; k < NTHR; k ++) {
		if (t == k)
			tpt_loop(tp_thread_get(tp, (size_t)k));	/* constant pointer in each unrolled branch */
	}
	v_ew_spurious = 0;
	v_cur = save;
}

static void
do_send(int s) {
	const struct step_s *st = &IN.step[s];
	struct msg_s *m = &msg[s];
	unsigned d = st->dst % (NTHR + 1);
	tpt_p dst = dst_tpt(d), src = NULL;
	uint32_t flags = st->flags & TP_MSG_F__ALL__;
	int before_fail = v_n_write_fail;
	m->sent_at = ++ clk;

	if (v_cur >= 0 && !st->src_null)
		src = thr_tpt(v_cur);
	m->sent = 1;
	m->sender = v_cur;
	m->dst = (int)d;
	m->dst_running = tpt_is_running(dst);
	m->ret = tpt_msg_send(dst, src, flags, cb_log, (void *)(uintptr_t)(s + 1));
	m->cnt_at_ret = m->cnt;
	m->wr_failed = (v_n_write_fail != before_fail);

	V_ASSERT(m->cnt <= 1, "callback not run more than once by the time send returns");
	if (0 != m->ret)
		V_ASSERT(0 == m->cnt, "a send that reports failure has not run the callback");
	if (1 == m->cnt) { /* direct call */
		V_ASSERT(0 == m->ret, "direct call reports success");
		V_ASSERT(0 != flags, "direct call only with a direct-call option");
		V_ASSERT(m->ran_on == v_cur, "direct call runs synchronously in the caller");
		V_ASSERT(m->tpt_arg == dst, "direct call passes the destination thread");
	}
	/* the direct-call options must take effect */
	if (0 != (TP_MSG_F_SELF_DIRECT & flags) && v_cur >= 0 && (int)d == v_cur)
		V_ASSERT(1 == m->cnt && 0 == m->ret, "SELF_DIRECT to the own thread is a direct call");
	else if (!m->dst_running) {
		if (0 != (TP_MSG_F_FORCE & flags))
			V_ASSERT(1 == m->cnt && 0 == m->ret, "FORCE on a not running thread is a direct call");
		else
			V_ASSERT(EHOSTDOWN == m->ret, "not running destination without FORCE: EHOSTDOWN");
	} else if (m->wr_failed) {
		if (0 != (TP_MSG_F_FAIL_DIRECT & flags))
			V_ASSERT(1 == m->cnt && 0 == m->ret, "FAIL_DIRECT after a failed queue write is a direct call");
		else
			V_ASSERT(EAGAIN == m->ret || EPIPE == m->ret || EBADF == m->ret, "failed queue write: errno reported");
	} else {
		V_ASSERT(0 == m->ret && 0 == m->cnt, "accepted by the queue: success, callback deferred");
	}
}

void
harness(void) {
	V_BEGIN();
	tp_settings_t s;
	int t, i, j;

	V_ASSUME(IN.tp.fail_at < 0);	/* resource exhaustion is C11's subject */
	memset(&s, 0, sizeof(s));
	s.threads_max = NTHR;
	s.flags = 0;
	V_ASSERT(0 == tp_create(&s, &tp), "tp_create succeeds when every resource is available");
	V_ASSERT(0 == tp_threads_create(tp, 0), "tp_threads_create");
	for (t = 0; t < NTHR; t ++) {
		up[t] = tpt_is_running(tp_thread_get(tp, (size_t)t));	/* t is a constant after unrolling */	/* STARTING unless pthread_create failed */
		if (up[t] && STARTED(t))
			start_thread(t);
	}

	for (i = 0; i < NSTEP; i ++) {
		const struct step_s *st = &IN.step[i];
		if (0 == STEP_KIND(i)) {
			unsigned w = st->who % (NTHR + 1);
			if (w > 0 && !running[w - 1])
				continue;	/* only a thread that runs can send as itself */
			v_cur = (int)w - 1;
			do_send(i);
			v_cur = -1;
		}
#ifdef NEST
		else if (3 == STEP_KIND(i)) {
			if (nest_step < 0)
				nest_step = i;	/* issued by whichever pool thread delivers the next callback */
		}
#endif
		else {
			t = st->who % NTHR;
			if (!running[t])
				continue;
			recv_step(t, st->pick & 1, st->spur & 1, STEP_ONLY(i));
		}
	}
	nest_step = -1;

	/* drain: every created thread eventually runs its loop until the queues are empty */
	int nrun = 0;
	for (t = 0; t < NTHR; t ++) {
		if (!up[t])
			continue;
		if (!running[t])
			start_thread(t);
		nrun ++;
		recv_step(t, 0, 0, 0);
		recv_step(t, 1, 0, 1);
	}
	for (t = 0; t <= NTHR; t ++)
		V_ASSERT(0 == v_pipes[t].cnt || (t == 0 ? 0 == nrun : !up[t - 1]), "drain leaves only queues nobody serves");

	V_ASSERT(0 == foreign_cb, "receiver never invokes a callback with an argument that was not sent");
	for (i = 0; i < NSTEP; i ++) {
		struct msg_s *m = &msg[i];
		if (!m->sent) {
			V_ASSERT(0 == m->cnt, "nothing delivered for a slot that was never sent");
			continue;
		}
		if (0 != m->ret) {
			V_ASSERT(0 == m->cnt, "failed send: callback never runs");
			continue;
		}
		int servable = (m->dst == NTHR) ? (nrun > 0) : 1;
		if (!servable)
			continue;	/* virtual thread with no worker at all: stays queued */
		V_ASSERT(1 == m->cnt, "successful send: callback ran exactly once");
		V_ASSERT(m->tpt_arg == dst_tpt((unsigned)m->dst), "callback got the destination thread");
		if (0 == m->cnt_at_ret) {
			if (m->dst < NTHR)
				V_ASSERT(m->ran_on == m->dst, "queued message ran on the destination thread");
			else
				V_ASSERT(m->ran_on >= 0 && m->ran_on < NTHR, "virtual-thread message ran on one pool thread");
		}
		/* send order = order of the tpt_msg_send calls (sent_at), not of the step indices: a send issued from inside a
		 * callback (nested step) happens when that callback runs. [First thorough run: the index-based form of this oracle
		 * raised a false alarm on pattern nsrs; corrected.] */
		for (j = 0; j < NSTEP; j ++) {
			struct msg_s *n = &msg[j];
			if (j != i && n->sent && 0 == n->ret && n->sender == m->sender && n->dst == m->dst && m->dst < NTHR &&
			    0 == m->cnt_at_ret && 0 == n->cnt_at_ret && 1 == n->cnt && m->sent_at < n->sent_at)
				V_ASSERT(m->stamp < n->stamp, "same sender, same real destination: callbacks in send order");
		}
	}
	V_WITNESS("end of schedule");
	if (msg[0].sent && msg[1].sent && 0 == msg[0].cnt_at_ret && 0 == msg[1].cnt_at_ret &&
	    0 == msg[0].ret && 0 == msg[1].ret && msg[0].dst == msg[1].dst)
		V_WITNESS("two queued messages to one destination");
	for (i = 0; i < NSTEP; i ++) {
		if (msg[i].sent && 1 == msg[i].cnt_at_ret) V_WITNESS("direct call");
		if (msg[i].sent && msg[i].wr_failed && 0 != msg[i].ret) V_WITNESS("queue write failed, error returned");
		if (msg[i].sent && msg[i].dst == NTHR && 1 == msg[i].cnt && 0 == msg[i].cnt_at_ret) V_WITNESS("virtual thread delivery");
		if (msg[i].sent && EHOSTDOWN == msg[i].ret) V_WITNESS("EHOSTDOWN");
	}
}
