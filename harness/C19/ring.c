/* C19: packet ring (src/utils/ring_buffer.c), single writer / readers, bounded histories.
 *
 * The real ring_buffer.c is included as a translation unit.  Environment stubs (listed in META):
 *   mapalloc_fd/mapalloc/mapfree -> calloc/free of the two concrete sizes r_buf_alloc asks for,
 *   sysconf(_SC_PAGE_SIZE)       -> sizeof(iovec_t)  (so iov_size == iov_count * sizeof(iovec_t): any access past the
 *                                   iov table r_buf_alloc computed is an object-bounds violation),
 *   raise(SIGTRAP) (debug_break) -> flag, asserted never to be reached.
 *
 * Shape (concrete, from jobs.py): SIZE ring bytes, MBS min_block_size, PAT schedule pattern (one letter per step = set of
 * operation kinds the solver may pick at that step), NR readers, ROUND0 initial round counter (poked into the freshly
 * allocated, still empty ring: the only way to get near SIZE_MAX), IOVTAB materialised iov entries (see below).
 * Everything else - which operation each step performs and all its arguments - is in IN.
 * KF_* defines: blocking assumptions for the defects described in findings/ (each blocks exactly that input class).
 *
 * Ghost state (harness only, never read by the code under test):
 *   sh[i]    sequence number of the stream byte currently stored at ring offset i (-1: never written / header gap)
 *   wseq     sequence number of the next stream byte the writer will commit
 *   exp[r]   next sequence number reader r is entitled to (valid when synced[r])
 *   synced[r]  0 after attach (rpos_init / wbuf_set2(rpos)) or after a reported drop: the next byte handed out
 *              defines the new expectation; it must be a live stream byte and not older than the old expectation
 *   told[r]  a drop (drop_size > 0) was reported to r since it last received data
 *
 * Contract taken from the code (what "by design" means below):
 *   - r_buf_data_get returns whole blocks (first one from rpos->iov_off), up to data_size bytes, as at most iov_cnt
 *     regions; *data_size_ret = bytes covered; the reader then calls r_buf_rpos_inc(n) with n <= bytes it was given.
 *   - *drop_size_ret is written only when the position check runs; callers pre-set it to 0.  drop_size > 0 means "you
 *     lost data"; its value is an estimate in units of the ring size (size * rounds, or size + bytes of the blocks
 *     between reader index and writer index) - it is NOT the exact number of skipped stream bytes by design, so only
 *     "drop_size > 0 whenever stream bytes are skipped" is asserted, plus "after a reported drop the stream resumes
 *     strictly later".
 *   - the ring is lossy: the writer may overwrite data of slow readers (no back pressure), so "writer region does not
 *     overlap reader data" is not a design property; what is asserted instead is that no reader is ever handed bytes
 *     whose sequence numbers are not exactly the ones it is entitled to.
 */
#include "verif.h"
#include <errno.h>
#include <signal.h>
#include <unistd.h>
#include <sys/mman.h>

static int v_trap_hit;
static int v_raise(int s) { (void)s; v_trap_hit = 1; return (0); }
#define raise(s) v_raise(s)
#define sysconf(x) ((long)sizeof(iovec_t))

#include "utils/macro.h"
#include "utils/mem_utils.h"
#include "utils/ring_buffer.h"

#ifndef SIZE
#error shape macros missing
#endif
#define IOVCNT ((SIZE / MBS) + 32)			/* the real formula of r_buf_alloc */
#define IOVBYTES (IOVCNT * sizeof(iovec_t))

/* Typed static objects of exactly the requested sizes (a calloc'ed byte object makes every iov[] access a byte-level
 * extraction of a pointer under CBMC; one-past accesses are still caught: array bounds / ASan global red zones). */
static uint8_t v_ring_mem[SIZE];
/* IOVTAB <= IOVCNT entries are materialised. r_buf_alloc asks for IOVCNT (= size/min_block + 32); handing out a SHORTER
 * object is sound for a HOLD verdict: any access past entry IOVTAB-1 is an array-bounds violation (CBMC) / red-zone hit
 * (ASan) and is reported, so a run without such a report behaves exactly as with the full table. Why: every access
 * through the `iovec_p iov` parameters is a byte-level extraction from the whole table at a symbolic offset. */
#ifndef IOVTAB
#define IOVTAB IOVCNT
#endif
static iovec_t v_iov_mem[IOVTAB];
static int v_ring_used, v_iov_used;
static void *v_mapalloc_fd(uintptr_t fd, size_t size) {
	(void)fd;
	/* concrete sizes only (a symbolic allocation size is intractable); anything else is a harness error */
	if (size == (size_t)SIZE && !v_ring_used) { v_ring_used = 1; return (v_ring_mem); }	/* static: zero filled like fresh pages */
	if (size == IOVBYTES && !v_iov_used) { v_iov_used = 1; return (v_iov_mem); }
	V_ASSERT(0, "HARNESS unexpected mapalloc size");
	return (NULL);
}
static void v_mapfree(void *p, size_t size) { (void)size; (void)p; }
#define mapalloc_fd v_mapalloc_fd
#define mapfree v_mapfree

#ifdef TYPED_RBUF	/* calloc(1, sizeof(r_buf_t)) in r_buf_alloc -> one typed zeroed object */
static r_buf_t v_rbuf_mem;
static void *v_calloc(size_t n, size_t sz) { V_ASSERT(n == 1 && sz == sizeof(r_buf_t), "HARNESS unexpected calloc"); return (&v_rbuf_mem); }
#define calloc v_calloc
#endif

#include "utils/ring_buffer.c"

#define OP_WSET   0	/* wbuf_get(a) ; fill ; wbuf_set(offset=b, buf_size=c) */
#define OP_WSET2  1	/* wbuf_get(a) ; fill ; wbuf_set2(buf+b, c, rpos of reader r or NULL) */
#define OP_RGET   2	/* data_get(size=a) ; checks ; rpos_inc(b) with b <= bytes given */
#define OP_RAVAIL 3	/* data_avail_size ; full data_get ; compare */
#define OP_RINIT  4	/* rpos_init(data_size=a) */
#define OP_NOP    5
#ifndef NR
#define NR 1
#endif
#ifndef ROUND0
#define ROUND0 0
#endif
#define IOVN (SIZE / MBS + 2)	/* full reads: more regions than blocks can exist in two rounds' worth of table */
#ifndef GIOVN
#define GIOVN 3			/* iov_cnt of ordinary reads (caller's choice; a short array just truncates the read) */
#endif

/* PAT: one letter per step = the set of operations the solver may choose from at that step (the schedule skeleton is
 * shape, everything else symbolic; every letter also allows "no operation", so a pattern covers all its subsequences):
 *   w writer (wbuf_set or wbuf_set2)   v writer or rpos_init   g data_get+rpos_inc   a avail+full read   i rpos_init   r any reader op   x any */
static const char v_pat[] = PAT;
#define NSTEPS (sizeof(PAT) - 1)
static inline unsigned v_mask(char c) {
	return (c == 'w' ? 0x23u : c == 'v' ? 0x33u : c == 'g' ? 0x24u : c == 'a' ? 0x28u : c == 'i' ? 0x30u :
	    c == 'r' ? 0x3cu : 0x3fu);
}
#define HAS(m, o) (((m) >> (o)) & 1u)
#ifdef REPLAY	/* narrate the history when a counterexample is replayed */
#define LOG(...) do { printf(__VA_ARGS__); fflush(stdout); } while (0)
#else
#define LOG(...) do { } while (0)
#endif

struct step_s { uint8_t op, r, a, b, c, f; };
struct in_s { struct step_s st[NSTEPS]; };
#include "verif_in.h"

static r_buf_p rb;
static r_buf_rpos_t rp[NR];
typedef int8_t seq_t;	/* sequence numbers stay below 8 * NSTEPS <= 127 */
static seq_t sh[SIZE];
static seq_t wseq, wseq_round;	/* wseq_round: value of wseq when the writer entered its current round */
static seq_t expq[NR];
static uint8_t synced[NR], told[NR];
static int wrapped, dropped, got, wgets;

static int in_ring(const uint8_t *p, size_t len) {
	return (p >= rb->buf && len <= (size_t)SIZE && (size_t)(p - rb->buf) <= (size_t)SIZE - len);
}

/* Every region inside the ring; bytes carry exactly the expected sequence numbers. Returns total bytes. */
static size_t check_regions(const size_t r, iovec_p iov, size_t cnt, const size_t maxcnt) {
	size_t total = 0;
	seq_t e = expq[r], first = -1;
	int s_ok = synced[r];
	V_ASSERT(cnt <= maxcnt, "REGION data_get returns at most iov_cnt regions");
	for (size_t k = 0; k < cnt && k < maxcnt; k++) {
		V_ASSERT(in_ring(iov[k].iov_base, iov[k].iov_len), "REGION region handed to a reader lies inside the ring");
		if (!in_ring(iov[k].iov_base, iov[k].iov_len)) return (total);
		size_t off = (size_t)(iov[k].iov_base - rb->buf);
		for (size_t j = 0; j < iov[k].iov_len; j++) {
			seq_t s = sh[off + j];
			if (!s_ok) {	/* e is only a lower bound here */
				V_ASSERT(s >= 0, "ORDER first byte after attach/resync is a committed stream byte");
				V_ASSERT(s >= e, "ORDER after a reported drop the stream resumes strictly later (no repetition)");
				e = s; s_ok = 1; first = s;
			}
			V_ASSERT(s == e, "ORDER bytes handed to a reader continue its stream exactly (in order, no gap, no stale/overwritten byte)");
			e++;
		}
		total += iov[k].iov_len;
	}
	if (total > 0 && !synced[r]) { expq[r] = first; synced[r] = 1; told[r] = 0; }
	return (total);
}

static void note_drop(const size_t r, size_t drop) {
	if (drop == 0) return;
	dropped++;
#ifdef KF_FALSE_DROP	/* finding false_drop_more_blocks */
	V_ASSUME(!(synced[r] && expq[r] >= wseq_round));
#endif
	V_ASSERT(!(synced[r] && expq[r] >= wseq_round), "DROP no drop is reported to a reader whose unread data lies entirely in the writer's current round");
	V_ASSERT(r_buf_rpos_check_fast(rb, &rp[r]) == 1, "DROP a reader told about a drop has been resynchronised to a valid position");
	told[r] = 1;
	/* whatever comes next must be strictly later than what it already had: at least one byte is gone */
	if (synced[r]) { synced[r] = 0; expq[r] = expq[r] + 1; }
}

/* ---- pre-state predicates used only by the known-finding guards (KF_*), see findings/ ---- */
static int prev_round(const size_t r) {	/* reader is one round behind and inside the previous round's block table */
	return ((size_t)(rp[r].round_num + 1) == rb->round_num && rp[r].iov_index <= rb->iov_index_max);
}
static size_t prev_round_unread(const size_t r) {	/* bytes of the previous round the reader has not consumed */
	size_t t = 0;
	for (size_t k = 0; k < IOVTAB; k++) {
		if (k >= rp[r].iov_index && k <= rb->iov_index_max) t += rb->iov[k].iov_len;
	}
	return (t - rp[r].iov_off);
}
static void kf_pre_guards(const size_t r) {
	(void)r;
#ifdef KF_STALE_PREV	/* finding stale_prev_round: block index ahead of the writer's index but block bytes already overwritten */
	for (size_t k = 0; k < IOVTAB; k++) {
		if (k == rp[r].iov_index)
			V_ASSUME(!(prev_round(r) && k > rb->iov_index && rb->iov[k].iov_base < rb->buf + rb->wpos));
	}
#endif
#ifdef KF_SLOW_STUCK	/* finding slow_reader_stuck: one round behind, block index <= writer index: reported, never resynchronised */
	V_ASSUME(!(prev_round(r) && rp[r].iov_index <= rb->iov_index));
#endif
#ifdef KF_ROUND_WRAP	/* finding round_wrap_silent: >= 2 rounds behind across the SIZE_MAX wrap of round_num */
	V_ASSUME(!((size_t)(rb->round_num - rp[r].round_num) >= 2 && (size_t)(rp[r].round_num + 1) >= rb->round_num));
#endif
}
/* after a data_get of a reader that was in the previous round: the regions switched to the current round (address
 * went down) although `unread` previous-round bytes were not all handed out */
static int gather_skipped(iovec_p iov, size_t cnt, const size_t maxcnt, size_t unread) {
	size_t old = 0;
	for (size_t k = 0; k < cnt && k < maxcnt; k++) {
		if (k > 0 && iov[k].iov_base < iov[k - 1].iov_base) return (old < unread);
		old += iov[k].iov_len;
	}
	return (0);
}
static size_t regions_total(iovec_p iov, size_t cnt, const size_t maxcnt) {
	size_t t = 0;
	for (size_t k = 0; k < cnt && k < maxcnt; k++) t += iov[k].iov_len;
	return (t);
}

static void writer_step(struct step_s s, unsigned m, size_t r) {
	uint8_t *p = NULL;
	size_t round_before = rb->round_num;
	size_t n = r_buf_wbuf_get(rb, s.a, &p);
	LOG("W%d wbuf_get(min=%u) -> %zu at off %ld  [round %zu idx %zu max %zu wpos %zu flags %u]\n", s.op, s.a, n,
	    p ? (long)(p - rb->buf) : -1L, rb->round_num, rb->iov_index, rb->iov_index_max, rb->wpos, rb->flags);
	if (s.a > SIZE) {
		V_ASSERT(n == 0, "WRITER request larger than the ring is refused");
		return;
	}
	wgets++;
	V_ASSERT(n >= s.a && n >= MBS, "WRITER region is at least as large as requested and as the minimum block");
	V_ASSERT(p != NULL && in_ring(p, n), "REGION region handed to the writer lies inside the ring");
	if (!(p != NULL && in_ring(p, n))) return;
	if (rb->round_num != round_before) { wrapped++; wseq_round = wseq; }
	size_t po = (size_t)(p - rb->buf);
	if (HAS(m, OP_WSET) && s.op == OP_WSET) {
		size_t off = s.b, bs = s.c;
		V_ASSUME(bs <= n);	/* the caller cannot have filled more than it was given */
		int e = r_buf_wbuf_set(rb, off, bs);
		LOG("   wbuf_set(off=%zu, size=%zu) -> %d  seq %d..  [idx %zu max %zu wpos %zu]\n", off, bs, e, wseq, rb->iov_index, rb->iov_index_max, rb->wpos);
		if (off >= bs || bs - off < MBS) {
			V_ASSERT(e == EINVAL, "WRITER empty / too small commit is refused");
			return;
		}
		V_ASSERT(e == 0, "WRITER commit that fits the region handed out succeeds");
		if (e != 0) return;
		for (size_t j = 0; j < bs; j++) sh[po + j] = (j < off) ? -1 : wseq + (seq_t)(j - off);
		wseq += (seq_t)(bs - off);
	} else {
		size_t off = s.b, ds = s.c;
		V_ASSUME(off <= n && ds <= n - off);
		r_buf_rpos_p rpp = NULL;
		if (s.f & 1) rpp = (NR == 1 || r == 0) ? &rp[0] : &rp[NR - 1];
		int e = r_buf_wbuf_set2(rb, p + off, ds, rpp);
		LOG("   wbuf_set2(buf+%zu, size=%zu, rpos=%s) -> %d  seq %d..  [idx %zu max %zu wpos %zu]\n", off, ds, rpp ? "reader" : "NULL", e, wseq, rb->iov_index, rb->iov_index_max, rb->wpos);
		if (ds < MBS) {
			V_ASSERT(e == EINVAL, "WRITER too small commit is refused");
			return;
		}
		V_ASSERT(e == 0, "WRITER commit that fits the region handed out succeeds");
		if (e != 0) return;
		for (size_t j = 0; j < ds; j++) sh[po + off + j] = wseq + (seq_t)j;
		if (rpp != NULL) { synced[r] = 1; expq[r] = wseq; told[r] = 0; }
		wseq += (seq_t)ds;
	}
}

/* r is a compile-time constant at every call site (a symbolic &rp[r] costs two orders of magnitude) */
static void reader_step(struct step_s s, unsigned m, const size_t r) {
	if (HAS(m, OP_RGET) && s.op == OP_RGET) {
		iovec_t iov[GIOVN];
		size_t drop = 0, dsz = 12345;
		LOG("R%zu data_get(size=%u) rpos before {idx %zu off %zu round %zu} expecting seq %d (synced %d)\n", r, s.a, rp[r].iov_index, rp[r].iov_off, rp[r].round_num, expq[r], synced[r]);
		kf_pre_guards(r);
		int was_prev = prev_round(r) && rp[r].iov_index > rb->iov_index;
		size_t unread = was_prev ? prev_round_unread(r) : 0;
		size_t cnt = r_buf_data_get(rb, &rp[r], s.a, iov, GIOVN, &drop, &dsz);
#ifdef KF_GATHER_SKIP	/* finding gather_skips_block */
		V_ASSUME(!(was_prev && gather_skipped(iov, cnt, GIOVN, unread)));
#endif
#ifdef KF_DSZ		/* finding data_size_ret_wrong */
		V_ASSUME(!(was_prev && cnt > 0 && dsz != regions_total(iov, cnt, GIOVN)));
#endif
		LOG("   -> %zu regions, data_size_ret %zu, drop %zu; rpos {idx %zu off %zu round %zu}\n", cnt, dsz, drop, rp[r].iov_index, rp[r].iov_off, rp[r].round_num);
		for (size_t k = 0; k < cnt && k < GIOVN; k++) LOG("   region %zu: off %ld len %zu\n", k, (long)(iov[k].iov_base - rb->buf), iov[k].iov_len);
		for (size_t k = 0; k < SIZE; k++) LOG(" %d", sh[k]);
		LOG("  <- seq per ring byte\n");
		size_t total = check_regions(r, iov, cnt, GIOVN);
		if (cnt > 0) {
			V_ASSERT(drop == 0, "DROP no drop is reported together with data");
			V_ASSERT(dsz == total, "DSZ data_size_ret equals the bytes in the returned regions");
			V_ASSERT(total <= s.a, "DSZ not more than requested");
			got++;
		}
		note_drop(r, drop);
		size_t inc = s.b;
		V_ASSUME(inc <= total);
		r_buf_rpos_inc(rb, &rp[r], inc);
		LOG("   rpos_inc(%zu) -> {idx %zu off %zu round %zu}\n", inc, rp[r].iov_index, rp[r].iov_off, rp[r].round_num);
		V_ASSERT(!v_trap_hit, "INC consuming not more than was handed out never reaches the 'BUG' branch of rpos_inc");
		expq[r] += (seq_t)inc;
	} else if (HAS(m, OP_RAVAIL) && s.op == OP_RAVAIL) {
		iovec_t iov[IOVN];
		size_t drop = 0, drop2 = 0, dsz = 0;
#ifdef KF_AVAIL_FRESH	/* finding avail_fresh: iov[0].iov_base is NULL until the first wbuf_get; avail computes wpos - (NULL - buf) */
		V_ASSUME(wgets > 0);
#endif
		LOG("R%zu avail: rpos before {idx %zu off %zu round %zu} expecting seq %d (synced %d)\n", r, rp[r].iov_index, rp[r].iov_off, rp[r].round_num, expq[r], synced[r]);
		kf_pre_guards(r);
		size_t av = r_buf_data_avail_size(rb, &rp[r], &drop);
		LOG("   -> avail %zu drop %zu; rpos {idx %zu off %zu round %zu}\n", av, drop, rp[r].iov_index, rp[r].iov_off, rp[r].round_num);
		note_drop(r, drop);
		size_t cnt = r_buf_data_get(rb, &rp[r], (size_t)SIZE + 1, iov, IOVN, &drop2, &dsz);
		LOG("   full read -> %zu regions, data_size_ret %zu, drop %zu\n", cnt, dsz, drop2);
		for (size_t k = 0; k < cnt && k < IOVN; k++) LOG("   region %zu: off %ld len %zu\n", k, (long)(iov[k].iov_base - rb->buf), iov[k].iov_len);
		for (size_t k = 0; k < SIZE; k++) LOG(" %d", sh[k]);
		LOG("  <- seq per ring byte\n");
		size_t total = check_regions(r, iov, cnt, IOVN);
		V_ASSERT(cnt < IOVN, "HARNESS full read is not truncated by the region array");
		if (drop == 0) V_ASSERT(av == total, "AVAIL data_avail_size equals the bytes a full read returns");
		else V_ASSERT(av == 0, "AVAIL nothing is available in the call that reports a drop");
		V_ASSERT(av <= SIZE, "AVAIL not more than the ring holds");
		if (drop == 0) V_ASSERT(drop2 == 0, "DROP the read right after a clean avail query reports no drop");
		if (total) got++;
	} else if (HAS(m, OP_RINIT) && s.op == OP_RINIT) {
		V_ASSERT(r_buf_rpos_init(rb, &rp[r], s.a) == 0, "rpos_init succeeds");
		LOG("R%zu rpos_init(%u) -> {idx %zu off %zu round %zu}\n", r, s.a, rp[r].iov_index, rp[r].iov_off, rp[r].round_num);
		synced[r] = 0; expq[r] = 0; told[r] = 0;
	}
}

void harness(void) {
	V_BEGIN();
	rb = r_buf_alloc((uintptr_t)-1, SIZE, MBS);
	V_ASSUME(rb != NULL);
	V_ASSERT(rb->iov_count == IOVCNT && rb->iov_size == IOVBYTES, "HARNESS iov table has the size of the real formula");
	rb->round_num = (size_t)(ROUND0);	/* empty ring at a late round (see header) */
	for (size_t i = 0; i < SIZE; i++) sh[i] = -1;
	wseq = 0;
	for (size_t r = 0; r < NR; r++) {	/* readers attach to the empty ring */
		V_ASSERT(r_buf_rpos_init(rb, &rp[r], 0) == 0, "rpos_init succeeds");
		expq[r] = 0; synced[r] = 1; told[r] = 0;
	}
	for (size_t i = 0; i < NSTEPS; i++) {
		struct step_s s = IN.st[i];
		const unsigned m = v_mask(v_pat[i]);
		V_ASSUME(s.op <= OP_NOP && HAS(m, s.op));
		V_ASSUME(s.r < NR);
		if (s.op == OP_WSET || s.op == OP_WSET2) {
			if (m & 3u) writer_step(s, m, s.r);
		} else if (m & 0x1cu) {
			if (NR == 1 || s.r == 0) reader_step(s, m, 0);
			else reader_step(s, m, NR - 1);
		}
	}
	V_ASSERT(!v_trap_hit, "INC debug_break never reached");
	if (wrapped >= 1) V_WITNESS("history with a wrap of the ring");
	if (wrapped >= 2) V_WITNESS("history with two wraps");
	if (dropped) V_WITNESS("history with a reported drop");
	if (got && wrapped) V_WITNESS("reader received data in a history with a wrap");
#if ROUND0 != 0
	if (rb->round_num < (size_t)(ROUND0)) V_WITNESS("round counter wrapped through SIZE_MAX");
#endif
	V_WITNESS("end of history");
}
