import os

SOLVER = os.environ.get("C19_SOLVER", "cadical")
ALLKF = ["KF_AVAIL_FRESH", "KF_STALE_PREV", "KF_SLOW_STUCK", "KF_FALSE_DROP", "KF_GATHER_SKIP", "KF_DSZ", "KF_ROUND_WRAP"]
# C19_NOKF=all (none in force) or a comma list of guards to switch off (to exhibit that finding on the unchanged tree)
_off = os.environ.get("C19_NOKF", "")
KF = {} if _off == "all" else {k: None for k in ALLKF if k not in _off.split(",")}   # known-finding guards in force: {"KF_<NAME>": None}

META = {
    "bounds": "TBD",
    "outside": "TBD",
    "assumptions": [],
    "harness_functions": ["harness", "check_regions", "note_drop", "in_ring", "v_mapalloc_fd", "v_mapfree", "v_raise",
                          "v_calloc"],
}


def ring_job(pat, size=8, mbs=2, nr=1, round0=None, timeout=None, extra=None, pi=None, px=None, tag=""):
    """pat: one letter per step (w writer, g get+inc, a avail+full read, i rpos_init, r any reader op, x any)"""
    blocks = size // mbs
    defs = {"SIZE": size, "MBS": mbs, "PAT": '"%s"' % pat, "NR": nr, "TYPED_RBUF": None, "IOVTAB": blocks + 2}
    if round0 is not None:
        defs["ROUND0"] = round0
    defs.update(KF)
    if extra:
        defs.update(extra)
    lb = blocks + 2
    name = "ring%d-m%d-%s%s%s%s" % (size, mbs, pat, "-r%d" % nr if nr != 1 else "", "-late" if round0 else "", tag)
    j = {"name": name, "src": "ring.c", "defs": defs, "unwind": max(size, len(pat)) + 2,
         "unwindset": ["r_buf_rpos_inc.0:%d" % lb, "r_buf_rpos_init.0:%d" % lb, "r_buf_rpos_init.1:%d" % lb,
                       "iovec_aggregate_ex.0:%d" % lb, "r_buf_iovec_calc_size.0:%d" % lb,
                       "check_regions.1:%d" % (blocks + 3), "check_regions.0:%d" % (size + 1), "prev_round_unread.0:%d" % (blocks + 3),
                       "kf_pre_guards.0:%d" % (blocks + 3), "gather_skipped.0:%d" % (blocks + 3), "regions_total.0:%d" % (blocks + 3)],
         "solver": SOLVER,
         "shape": "ring=%d min_block=%d schedule=%s readers=%d round0=%s" % (size, mbs, pat, nr, round0 or 0),
         "desc": "regions inside ring; reader stream in order / drops reported; avail == full read; data_size_ret",
         "prop_include": pi, "prop_exclude": px}
    if timeout:
        j["timeout"] = timeout
    return j


def jobs(tier):
    out = []
    for spec in os.environ.get("C19_PATS", "x xx vvg vva vvvg vvva vgvg").split():
        pat, _, shape = spec.partition(":")
        late = pat.endswith("!")
        pat = pat.rstrip("!")
        size, mbs = (int(x) for x in shape.split("/")) if shape else (8, 2)
        out.append(ring_job(pat, size, mbs, round0="(SIZE_MAX-1)" if late else None, pi=os.environ.get("C19_PI")))
    return out
