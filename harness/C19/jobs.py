import os

SOLVER = os.environ.get("C19_SOLVER", "cadical")
# KF_AVAIL_FRESH and KF_ROUND_WRAP were repaired in /repo (known_findings.json: fixed). The other five are recorded, unrepaired known
# findings: their defines are injected by bin/check from /verif/known_findings.json (status "known"), not from here.
ALLKF = []
# C19_NOKF=all (none in force) or a comma list of guards to switch off (to exhibit that finding on the unchanged tree)
_off = os.environ.get("C19_NOKF", "")
KF = {} if _off == "all" else {k: None for k in ALLKF if k not in _off.split(",")}   # known-finding guards in force: {"KF_<NAME>": None}

META = {
    "bounds": "ring_buffer.c included whole; rings of 8 bytes (min_block 2 and 3), 10/2 and 12/2 (quick: 3 steps), 6/2; one reader "
              "(two in one job; readers never modify r_buf_t, so they are independent); histories given as schedule patterns "
              "(letters: v = writer step wbuf_get->fill->wbuf_set|wbuf_set2(+optional rpos) or rpos_init or nothing, "
              "g = data_get(any size, iov_cnt 3)+rpos_inc(n <= bytes given), a = data_avail_size + full data_get, x = any); every "
              "operation kind, size, offset, increment is a solver variable. quick: <= 3 steps on rings 8/2, 10/2, 12/2, <= 4 steps on ring 8/3 "
              "(one wrap, two with full-ring writes); thorough: 4-5 steps on 8/2, <= 6 steps on 8/3 and 6/2, 4 on 10/2 and 12/2; round counter started at SIZE_MAX-1 in the '-late' jobs. "
              "Asserted: every iovec handed to a reader and every writer region inside [buf, buf+size); bytes handed to a reader "
              "carry exactly consecutive stream sequence numbers from its expectation (ghost shadow per ring byte) or a drop was "
              "reported and the stream resumes strictly later; no drop together with data; no drop for a reader whose unread data "
              "is all in the writer's current round; after a drop the position is valid again (r_buf_rpos_check_fast); "
              "data_avail_size == sum of iov_len of a full read; *data_size_ret == bytes in the regions; rpos_inc never reaches its "
              "'BUG' branch; all CBMC built-in memory checks. Seven genuine defects found (findings/*.md), each blocked by a KF_ guard.",
    "outside": "histories longer than the pattern lengths above; rings other than 6/8/10/12 bytes, min_block_size > 3; the exact numeric "
               "value of drop_size (by design an estimate in units of the ring size - only 'drop_size > 0 iff told' is used); "
               "r_buf_rpos_inc called after an intervening writer step or with more than was handed out (caller contract); "
               "r_buf_wbuf_set with buf_size larger than r_buf_wbuf_get returned (caller cannot have filled it; note: the "
               "'not enough space' check tests data_size, not buf_size); r_buf_rpos_cmp / r_buf_rpos_calc_size / "
               "r_buf_rpos_init_near / r_buf_data_get_conv2off / r_buf_free; mmap failure paths; the writer-region-does-not-overlap-"
               "reader-data clause of DESIGN 5.19 is not a design property (lossy ring: the writer may overwrite slow readers) and "
               "is replaced by the reader-side stale-byte assertion; input classes blocked by the KF_ guards in force.",
    "assumptions": [
        "mapalloc_fd/mapalloc -> typed static objects of the requested sizes (ring: SIZE bytes); mapfree -> no-op",
        "iov table: r_buf_alloc requests size/min_block+32 entries; only IOVTAB = size/min_block+2 are materialised - any access "
        "beyond is an array-bounds violation and would be reported, so HOLD carries over to the full table",
        "sysconf(_SC_PAGE_SIZE) -> sizeof(iovec_t); calloc(1, sizeof(r_buf_t)) -> one typed zeroed static object",
        "raise(SIGTRAP) in debug_break -> flag that is asserted never to be set",
        "writer step is atomic w.r.t. readers: wbuf_get, fill, wbuf_set/wbuf_set2 with sizes that fit the region handed out",
        "round_num of the freshly allocated empty ring is set directly to SIZE_MAX-1 in the '-late' jobs (not reachable in bounded time)",
        "r_buf_data_get callers pre-set *drop_size to 0 (the function does not write it on its early-return path)",
        "KF guards in force (block exactly the input class of a reported defect): " + ", ".join(sorted(KF)),
    ],
    "harness_functions": ["harness", "check_regions", "note_drop", "in_ring", "v_mapalloc_fd", "v_mapfree", "v_raise", "v_calloc",
                          "writer_step", "reader_step", "v_mask", "prev_round", "prev_round_unread", "kf_pre_guards",
                          "gather_skipped", "regions_total"],
}

def ring_job(pat, size=8, mbs=2, nr=1, round0=None, timeout=None, extra=None, pi=None, px=None, tag=""):
    """pat: one letter per step (w writer, g get+inc, a avail+full read, i rpos_init, r any reader op, x any)"""
    blocks = size // mbs
    defs = {"SIZE": size, "MBS": mbs, "PAT": '"%s"' % pat, "NR": nr, "TYPED_RBUF": None, "IOVTAB": blocks + 2}
    if round0 is not None:
        defs["ROUND0"] = round0
    defs.update(KF)
    if extra:
        defs.update(extra)
    lb = blocks + 2
    name = "ring%d-m%d-%s%s%s%s" % (size, mbs, pat, "-r%d" % nr if nr != 1 else "", "-late" if round0 else "", tag)
    j = {"name": name, "src": "ring.c", "defs": defs, "unwind": max(size, len(pat)) + 2,
         "unwindset": ["r_buf_rpos_inc.0:%d" % lb, "r_buf_rpos_init.0:%d" % lb, "r_buf_rpos_init.1:%d" % lb,
                       "iovec_aggregate_ex.0:%d" % lb, "r_buf_iovec_calc_size.0:%d" % lb,
                       "check_regions.1:%d" % (blocks + 3), "check_regions.0:%d" % (size + 1), "prev_round_unread.0:%d" % (blocks + 3),
                       "kf_pre_guards.0:%d" % (blocks + 3), "gather_skipped.0:%d" % (blocks + 3), "regions_total.0:%d" % (blocks + 3)],
         "solver": SOLVER,
         "shape": "ring=%d min_block=%d schedule=%s readers=%d round0=%s" % (size, mbs, pat, nr, round0 or 0),
         "desc": "regions inside ring; reader stream in order / drops reported; avail == full read; data_size_ret",
         "prop_include": pi, "prop_exclude": px}
    if timeout:
        j["timeout"] = timeout
    return j


def parse_spec(spec):
    pat, _, shape = spec.partition(":")
    late = pat.endswith("!")
    pat = pat.rstrip("!")
    nr = 2 if pat.endswith("2") else 1
    pat = pat.rstrip("2")
    size, mbs = (int(x) for x in shape.split("/")) if shape else (8, 2)
    return pat, size, mbs, nr, late


# vggg / vvggg: three consecutive reader advances (partial, to the block boundary, next read) - added after the seeded change
# C19-rpos-inc-iov-off-not-reset was missed by every pattern with at most two reader steps
QUICK = "x:8/2 xx:8/2 vvg:8/2 vva:8/2 vvvg:8/3 vvva:8/3 vvvg!:8/3 vgvg:8/3 vvg:10/2 vva:12/2 vvg2:8/3 vggg:8/2 vvggg:8/3"
# vvvgvg (6 steps, ring 8/3) and its late-round twin: no verdict in 1500 s on a loaded machine [measured] -> withdrawn; 5-step patterns are the bound
THOROUGH = QUICK + " vvvg:8/2 vvvvg:8/3 vvva:8/2 vgvg:8/2 vvvvg:8/2 vvvva:8/3 vvvvvg:8/3  vgvvg:8/3 vvvg:10/2 vvvg:12/2 vvvvvg:6/2"


def jobs(tier):
    out = []
    specs = os.environ.get("C19_PATS") or (QUICK if tier == "quick" else THOROUGH)
    for spec in specs.split():
        pat, size, mbs, nr, late = parse_spec(spec)
        out.append(ring_job(pat, size, mbs, nr=nr, round0="(SIZE_MAX-1)" if late else None, pi=os.environ.get("C19_PI"),
                            timeout=450 if tier == "quick" else 1500))
    return out
