/* C02 - group law: every addition / subtraction / doubling entry of elliptic_curve.h against the enumerated group.
 *
 * Build parameters: CURVE, CV_M, OP, PT_BITS (capacity of the caller's points: CV_M or the double size the
 * library itself uses for key generation), NDBL (for the dbl_n operations) + liblcb configuration macros.
 *
 * Oracle: point i of the table is i*G0, so  P_i + P_j = P_((i+j) mod NTOT),  P_i - P_j = P_((i-j) mod NTOT),
 * 2^n P_i = P_((2^n i) mod NTOT); index 0 is the point at infinity.  A result equal to a table entry lies on
 * the curve by construction of the table.
 */
#include "common/ec/ec_env.h"

#define OP_ADD		1	/* ec_point_add(a, b), distinct objects (includes i == j: P + P through a != b) */
#define OP_ADD_SELF	2	/* ec_point_add(a, a) */
#define OP_SUB		3	/* ec_point_sub(a, b) */
#define OP_SUB_SELF	4	/* ec_point_sub(a, a) */
#define OP_AFF_DBL_N	5	/* ec_point_affine_dbl_n(a, NDBL), NDBL >= 1 */
#define OP_PROJ_ADD	6	/* ec_point_proj_add on general Jacobian representatives (Z1, Z2 arbitrary) */
#define OP_PROJ_SUB	7	/* ec_point_proj_sub, general representatives */
#define OP_PROJ_ADD_MIX	8	/* ec_point_proj_add_mix: general Jacobian + affine */
#define OP_PROJ_SUB_MIX	9	/* ec_point_proj_sub_mix */
#define OP_PROJ_DBL_N	10	/* ec_point_proj_dbl_n(a, NDBL), NDBL >= 1, general representative
				 * (NDBL = 0 with EC_PROJ_REPEAT_DOUBLE turns a point with y = 0 into infinity instead of
				 * leaving it alone; no caller passes 0 and "zero doublings" is not in the property) */
#define OP_PROJ_ADD_SELF 11	/* ec_point_proj_add(a, a) general representative */
#define OP_CHECK_AFFINE	12	/* ec_point_check_affine on arbitrary coordinates */
#define OP_IS_INVERSE	13	/* ec_point_is_inverse / ec_point_is_eq */

#ifndef PT_BITS
#define PT_BITS CV_M
#endif
#ifndef NDBL
#define NDBL 1
#endif
/* which Jacobian scale factors are free: 0 none (Z1 = Z2 = 1), 1 Z1, 2 both, 3 Z2 */
#ifndef ZMODE
#define ZMODE 2
#endif

struct in_s {
	uint8_t i, j;		/* table indices of the operands */
	uint8_t z1, z2;		/* Jacobian scale factors */
	uint8_t gx, gy;		/* stale coordinates of an operand at infinity */
	uint8_t x, y;		/* OP_CHECK_AFFINE: arbitrary coordinates */
	uint8_t garbage;	/* value of stale digits written by the stubs */
};
#include "verif_in.h"

/* Jacobian representative (x z^2, y z^3, z) of table point idx; idx 0 -> (gx, gy, 0) */
static void
proj_point(ec_point_proj_p pt, unsigned idx, unsigned z, size_t bits) {
	int error = ec_point_proj_init(pt, bits);
	V_ASSUME(0 == error);
	if (0 == idx) {
		sb_set(&pt->x, IN.gx);
		sb_set(&pt->y, IN.gy);
		sb_set(&pt->z, 0);
		return;
	}
	uint32_t z2 = ((z * z) % CV_P), z3 = ((z2 * z) % CV_P);
	sb_set(&pt->x, ((TX[idx] * z2) % CV_P));
	sb_set(&pt->y, ((TY[idx] * z3) % CV_P));
	sb_set(&pt->z, z);
}

static int
proj_is(ec_point_proj_p pt, unsigned idx) {
	ec_point_t aff;
	int error = ec_point_init(&aff, CV_M);
	V_ASSUME(0 == error);
	error = ec_point_proj_export_affine(pt, &aff, &CV);
	V_ASSERT(0 == error, "export to affine succeeds");
	return (env_point_is(&aff, idx));
}

static void body(void) {
	sb_garbage = IN.garbage;
	unsigned i = IN.i, j = IN.j, want;
	int r;

	V_ASSUME(i < CV_NTOT && j < CV_NTOT);
	V_ASSUME(IN.gx < CV_P && IN.gy < CV_P);
	V_ASSUME(IN.z1 >= 1 && IN.z1 < CV_P && IN.z2 >= 1 && IN.z2 < CV_P);
#if ZMODE == 0 || ZMODE == 3
	V_ASSUME(1 == IN.z1);
#endif
#if ZMODE == 0 || ZMODE == 1
	V_ASSUME(1 == IN.z2);
#endif
	r = env_curve_init();
	V_ASSERT(0 == r, "curve constructor succeeds");
	if (0 != r)
		return;

#if OP == OP_ADD || OP == OP_SUB || OP == OP_ADD_SELF || OP == OP_SUB_SELF || OP == OP_AFF_DBL_N
	ec_point_t a, b;
	env_point(&a, i, PT_BITS, IN.gx, IN.gy);
	env_point(&b, j, PT_BITS, IN.gy, IN.gx);
#if OP == OP_ADD
	r = ec_point_add(&a, &b, &CV);
	want = ((i + j) % CV_NTOT);
	V_ASSERT(env_point_is(&b, j), "second operand unchanged");
#elif OP == OP_SUB
	r = ec_point_sub(&a, &b, &CV);
	want = ((i + CV_NTOT - j) % CV_NTOT);
	V_ASSERT(env_point_is(&b, j), "second operand unchanged");
#elif OP == OP_ADD_SELF
	r = ec_point_add(&a, &a, &CV);
	want = ((i + i) % CV_NTOT);
#elif OP == OP_SUB_SELF
	r = ec_point_sub(&a, &a, &CV);
	want = 0;
#else
	r = ec_point_affine_dbl_n(&a, NDBL, &CV);
	want = ((i << NDBL) % CV_NTOT);
#endif
	V_ASSERT(0 == r, "operation reports success");
	V_ASSERT(env_point_is(&a, want), "result is the group-law point of the table");
	if (0 == want) V_WITNESS("result at infinity");
	if (0 != i && i == j) V_WITNESS("equal operands");
	if (0 == i || 0 == j) V_WITNESS("operand at infinity");
	if (0 != i && 0 == TY[i]) V_WITNESS("operand with y = 0");
	V_WITNESS("finite result");

#elif OP == OP_PROJ_ADD || OP == OP_PROJ_SUB || OP == OP_PROJ_ADD_SELF || OP == OP_PROJ_DBL_N
	ec_point_proj_t a, b;
	proj_point(&a, i, IN.z1, PT_BITS);
	proj_point(&b, j, IN.z2, PT_BITS);
#if OP == OP_PROJ_ADD
	r = ec_point_proj_add(&a, &b, &CV);
	want = ((i + j) % CV_NTOT);
#elif OP == OP_PROJ_SUB
	r = ec_point_proj_sub(&a, &b, &CV);
	want = ((i + CV_NTOT - j) % CV_NTOT);
#elif OP == OP_PROJ_ADD_SELF
	r = ec_point_proj_add(&a, &a, &CV);
	want = ((i + i) % CV_NTOT);
#else
	r = ec_point_proj_dbl_n(&a, NDBL, &CV);
	want = ((i << NDBL) % CV_NTOT);
#endif
	V_ASSERT(0 == r, "operation reports success");
	V_ASSERT(proj_is(&a, want), "result is the group-law point of the table");
	if (0 == want) V_WITNESS("result at infinity");
	if (0 != i && i == j) V_WITNESS("equal operands");
	if (0 == i || 0 == j) V_WITNESS("operand at infinity");
	if (0 != i && 0 == TY[i]) V_WITNESS("operand with y = 0");
	if (1 != IN.z1 && 1 != IN.z2) V_WITNESS("both Z != 1");
	V_WITNESS("finite result");

#elif OP == OP_PROJ_ADD_MIX || OP == OP_PROJ_SUB_MIX
	ec_point_proj_t a;
	ec_point_t b;
	proj_point(&a, i, IN.z1, PT_BITS);
	env_point(&b, j, PT_BITS, IN.gy, IN.gx);
#if OP == OP_PROJ_ADD_MIX
	r = ec_point_proj_add_mix(&a, &b, &CV);
	want = ((i + j) % CV_NTOT);
#else
	r = ec_point_proj_sub_mix(&a, &b, &CV);
	want = ((i + CV_NTOT - j) % CV_NTOT);
#endif
	V_ASSERT(0 == r, "operation reports success");
	V_ASSERT(env_point_is(&b, j), "affine operand unchanged");
	V_ASSERT(proj_is(&a, want), "result is the group-law point of the table");
	if (0 == want) V_WITNESS("result at infinity");
	if (0 != i && i == j) V_WITNESS("equal operands");
	if (0 == i || 0 == j) V_WITNESS("operand at infinity");
	if (1 != IN.z1) V_WITNESS("Z != 1");
	V_WITNESS("finite result");

#elif OP == OP_CHECK_AFFINE
	ec_point_t a;
	r = ec_point_init(&a, PT_BITS);
	V_ASSUME(0 == r);
	sb_set(&a.x, IN.x);
	sb_set(&a.y, IN.y);
	r = ec_point_check_affine(&a, &CV);
	if (0 != env_index_of(IN.x, IN.y)) {
		V_ASSERT(0 == r, "a point of the curve is accepted");
		V_WITNESS("on curve");
	} else {
		V_ASSERT(0 != r, "coordinates >= p or off the curve are refused");
		if (IN.x >= CV_P || IN.y >= CV_P) V_WITNESS("coordinate >= p");
		V_WITNESS("off curve");
	}

#elif OP == OP_IS_INVERSE
	ec_point_t a, b;
	V_ASSUME(0 != i && 0 != j);
	/* a point with y = 0 is its own inverse; ec_point_is_inverse answers 0 for it (p - 0 != 0).  The function has
	 * no caller and is not part of the property's statement: excluded here, reported as an observation. */
	V_ASSUME(!(i == j && 0 == TY[i]));
	env_point(&a, i, PT_BITS, 0, 0);
	env_point(&b, j, PT_BITS, 0, 0);
	r = ec_point_is_inverse(&a, &b, &CV);
	V_ASSERT(r == ((((i + j) % CV_NTOT) == 0) ? 1 : 0), "ec_point_is_inverse decides a == -b");
	V_ASSERT(ec_point_is_eq(&a, &b) == ((i == j) ? 1 : 0), "ec_point_is_eq decides a == b");
	if (1 == r) V_WITNESS("inverse pair");
	V_WITNESS("not inverse");
#else
#error "unknown OP"
#endif
}

void harness(void) {
	V_BEGIN();
	body();
	ENV_FINAL();
}
