/* C02 - scalar multiplication entry points of elliptic_curve.h against the enumerated group.
 *
 * Build parameters: CURVE, CV_M, ENTRY, K_MIN..K_MAX / L_MIN..L_MAX (scalar ranges), K_BITS (capacity of the
 * scalar bn), PT_BITS (capacity of caller's points), PT_LO..PT_HI (point index range, default the whole group)
 * + liblcb configuration macros.
 *
 * Two ways of quantifying over the scalars:
 *   default      : the scalar is a solver variable all the way (used for the binary and precomputed-doubles
 *                  methods, whose table index is the loop counter);
 *   -DK_ENUM     : the solver variable IN.k selects one of the branches `k == c`, inside which the library runs
 *                  with the constant c.  Needed for every table-driven method (sliding window, comb, JSF, NAF):
 *                  they form `&table[f(scalar)]`, and CBMC 6.11 mis-resolves a pointer into an array of structs
 *                  with a symbolic index once it is narrowed to a member array (reads come back unconstrained;
 *                  [measured] 7-line reproducer).  The point operand, the stale coordinates and stale digits stay
 *                  symbolic inside every branch, all branches are in one formula, and a counterexample names k.
 *
 * Oracle: k * P_i = P_((k*i) mod NTOT);  k*G + l*P_j = P_((k*GIDX + l*j) mod NTOT), GIDX = CV_H (G = H*G0).
 */
#include "common/ec/ec_env.h"

#define E_BIN		1	/* ec_point_bin_mult(P, k) */
#define E_UNK		2	/* ec_point_unknown_pt_mult(P, k)  (EC_PF_UNKPT_MULT_ALGO) */
#define E_BP		3	/* ec_point_mult_bp(k, curve, res)  (EC_PF_FXP_MULT_ALGO, table built by the constructor) */
#define E_TWIN_BP	4	/* ec_point_twin_mult_bp(k, P, l, curve, res)  (EC_PF_TWIN_MULT_ALGO) */
#define E_CHK_SCALAR	5	/* ec_point_check_scalar_mult(P): n*P == O */
#define E_FPX_ANY	6	/* ec_point_fpx_mult_precompute + ec_point_fpx_mult on an arbitrary point */
#define E_TWIN_ANY	7	/* ec_point_twin_mult(P_i, k, P_j, l, curve, res): two arbitrary points */
#define E_BP_TWICE	8	/* ec_point_mult_bp(l) then ec_point_mult_bp(k) on the SAME curve object: the first call (l is
				 * typically one digit wider than the curve: window/comb fall-back) must leave the base-point
				 * table of the curve object intact for the second */

#ifndef PT_BITS
#define PT_BITS CV_M
#endif
#ifndef K_BITS
#define K_BITS EC_CURVE_CALC_BITS_DBL(&CV)
#endif
#ifndef K_MIN
#define K_MIN 0
#endif
#ifndef K_MAX
#define K_MAX CV_N
#endif
#ifndef L_MIN
#define L_MIN 0
#endif
#ifndef L_MAX
#define L_MAX CV_N
#endif
#ifndef PT_LO
#define PT_LO 0
#endif
#ifndef PT_HI
#define PT_HI (CV_NTOT - 1)
#endif
#define TWO_SCALARS (ENTRY == E_TWIN_BP || ENTRY == E_TWIN_ANY || ENTRY == E_BP_TWICE)

struct in_s {
	uint8_t i, j;		/* table indices of the point operands */
	uint16_t k, l;		/* scalars */
	uint8_t gx, gy;		/* stale coordinates of an operand at infinity */
	uint8_t rx, ry;		/* stale content of the result object */
	uint8_t garbage;	/* value of stale digits written by the stubs */
	ENV_PTOPS_IN		/* (ladder-stub builds) representatives chosen by the point-operation stubs */
};
#include "verif_in.h"

#if ENTRY == E_FPX_ANY && EC_PF_FXP_MULT_ALGO != EC_PF_FXP_MULT_ALGO_BIN
static ec_pt_fpx_mult_data_t fpx_md;
#endif

/* i_inf / j_inf are constants at every call site (see body) */
static void
run(int i_inf, unsigned i, int j_inf, unsigned j, uint32_t k, uint32_t l) {
	unsigned want;
	int r;
	bn_t bk, bl;
	ec_point_t pt, pt2, res;

	env_bn_set(&bk, K_BITS, k);
	env_bn_set(&bl, K_BITS, l);
	env_point_c(&pt, i_inf, i, PT_BITS, IN.gx, IN.gy);
	env_point_c(&pt2, j_inf, j, PT_BITS, IN.gy, IN.gx);
	/* result object as a caller has it: initialised, possibly used before */
	r = ec_point_init(&res, PT_BITS);
	V_ASSUME(0 == r);
	sb_set(&res.x, IN.rx);
	sb_set(&res.y, IN.ry);

#if ENTRY == E_BIN
	r = ec_point_bin_mult(&pt, &bk, &CV);
	want = ((k * i) % CV_NTOT);
	V_ASSERT(0 == r, "multiplication reports success");
	V_ASSERT(env_point_is(&pt, want), "k*P is the table's point");
#elif ENTRY == E_UNK
	r = ec_point_unknown_pt_mult(&pt, &bk, &CV);
	want = ((k * i) % CV_NTOT);
	V_ASSERT(0 == r, "multiplication reports success");
	V_ASSERT(env_point_is(&pt, want), "k*P is the table's point");
#elif ENTRY == E_BP
	r = ec_point_mult_bp(&bk, &CV, &res);
	want = ((k * CV_H) % CV_NTOT);
	V_ASSERT(0 == r, "multiplication reports success");
	V_ASSERT(env_point_is(&res, want), "k*G is the table's point");
#elif ENTRY == E_BP_TWICE
	r = ec_point_mult_bp(&bl, &CV, &res);
	V_ASSERT(0 == r, "first multiplication reports success");
	V_ASSERT(env_point_is(&res, ((l * CV_H) % CV_NTOT)), "first call: l*G is the table's point");
	r = ec_point_init(&pt2, PT_BITS);	/* fresh result object for the second call */
	V_ASSUME(0 == r);
	sb_set(&pt2.x, IN.ry);
	sb_set(&pt2.y, IN.rx);
	r = ec_point_mult_bp(&bk, &CV, &pt2);
	want = ((k * CV_H) % CV_NTOT);
	V_ASSERT(0 == r, "second multiplication reports success");
	V_ASSERT(env_point_is(&pt2, want), "second call on the same curve object: k*G is the table's point");
	if (l > 255) V_WITNESS("first scalar wider than the curve");
#elif ENTRY == E_TWIN_BP
	r = ec_point_twin_mult_bp(&bk, &pt, &bl, &CV, &res);
	want = (((k * CV_H) + (l * i)) % CV_NTOT);
	V_ASSERT(0 == r, "multiplication reports success");
	V_ASSERT(env_point_is(&res, want), "k*G + l*P is the table's point");
	V_ASSERT(env_point_is(&pt, i), "point operand unchanged");
	if (0 != want && 0 != i && ((k * CV_H) % CV_NTOT) == ((l * i) % CV_NTOT)) V_WITNESS("k*G == l*P (final doubling)");
#elif ENTRY == E_TWIN_ANY
	r = ec_point_twin_mult(&pt, &bk, &pt2, &bl, &CV, &res);
	want = (((k * i) + (l * j)) % CV_NTOT);
	V_ASSERT(0 == r, "multiplication reports success");
	V_ASSERT(env_point_is(&res, want), "k*P + l*Q is the table's point");
	V_ASSERT(env_point_is(&pt, i) && env_point_is(&pt2, j), "point operands unchanged");
	if (i == j && 0 != i) V_WITNESS("P == Q");
#elif ENTRY == E_CHK_SCALAR
	r = ec_point_check_scalar_mult(&pt, &CV);
	want = ((CV_N * i) % CV_NTOT);
	V_ASSERT((0 == r) == (0 == want), "check_scalar_mult accepts exactly the points with n*P = O");
	V_ASSERT(env_point_is(&pt, i), "point operand unchanged");
	if (0 != r) V_WITNESS("point outside the subgroup");
#elif ENTRY == E_FPX_ANY
#if EC_PF_FXP_MULT_ALGO != EC_PF_FXP_MULT_ALGO_BIN
	r = ec_point_fpx_mult_precompute(EC_PF_FXP_MULT_WIN_BITS, &pt, &CV, &fpx_md);
	V_ASSERT(0 == r, "precomputation reports success");
	r = ec_point_fpx_mult(&res, &fpx_md, &bk, &CV);
#else
	r = ec_point_assign(&res, &pt);
	r = ec_point_bin_mult(&res, &bk, &CV);
#endif
	want = ((k * i) % CV_NTOT);
	V_ASSERT(0 == r, "multiplication reports success");
	V_ASSERT(env_point_is(&res, want), "k*P is the table's point");
#else
#error "unknown ENTRY"
#endif
	if (0 == want) V_WITNESS("result at infinity");
	if (0 == k) V_WITNESS("scalar 0");
	if (1 == k) V_WITNESS("scalar 1");
	if (CV_N == k) V_WITNESS("scalar n");
	if ((CV_N - 1) == k) V_WITNESS("scalar n-1");
	if (k > 255) V_WITNESS("scalar wider than the curve");
	if (0 == i) V_WITNESS("point at infinity");
	if (0 != want) V_WITNESS("finite result");
}

/* operand-at-infinity cases are separate call sites with constant flags */
static void
run_pts(unsigned i, unsigned j, uint32_t k, uint32_t l) {
#if ENTRY == E_TWIN_ANY
	if (0 == i && 0 == j)
		run(1, 0, 1, 0, k, l);
	else if (0 == i)
		run(1, 0, 0, j, k, l);
	else if (0 == j)
		run(0, i, 1, 0, k, l);
	else
		run(0, i, 0, j, k, l);
#elif ENTRY == E_BP || ENTRY == E_BP_TWICE
	run(1, 0, 1, 0, k, l);
#else
	if (0 == i)
		run(1, 0, 1, 0, k, l);
	else
		run(0, i, 1, 0, k, l);
#endif
}

#ifdef K_ENUM
/* only the two enumeration loops live here: enum_scalars.0 = inner (l), enum_scalars.1 = outer (k) */
static void
enum_scalars(unsigned i, unsigned j) {
	for (uint32_t kk = K_MIN; kk <= K_MAX; kk ++) {
#if TWO_SCALARS
		for (uint32_t ll = L_MIN; ll <= L_MAX; ll ++) {
			if (IN.k == kk && IN.l == ll)
				run_pts(i, j, kk, ll);
		}
#else
		if (IN.k == kk)
			run_pts(i, j, kk, 0);
#endif
	}
}
#endif

static void
body(void) {
	unsigned i = IN.i, j = IN.j;
	int r;

	sb_garbage = IN.garbage;
	ENV_PTOPS_INIT();
	V_ASSUME(i >= PT_LO && i <= PT_HI && i < CV_NTOT && j < CV_NTOT);
	V_ASSUME(IN.k >= K_MIN && IN.k <= K_MAX);
#if TWO_SCALARS
	V_ASSUME(IN.l >= L_MIN && IN.l <= L_MAX);
#else
	V_ASSUME(0 == IN.l);
#endif
#if ENTRY != E_TWIN_ANY
	V_ASSUME(0 == j);
#endif
#if ENTRY == E_BP || ENTRY == E_BP_TWICE
	V_ASSUME(0 == i);
#endif
	V_ASSUME(IN.gx < CV_P && IN.gy < CV_P && IN.rx < CV_P && IN.ry < CV_P);
	r = env_curve_init();
	V_ASSERT(0 == r, "curve constructor succeeds");
	if (0 != r)
		return;
#ifdef K_ENUM
	enum_scalars(i, j);
#else
	run_pts(i, j, IN.k, IN.l);
#endif
}

void harness(void) {
	V_BEGIN();
	body();
	ENV_FINAL();
}
