"""C02 - elliptic-curve group law and scalar multiplication, every build.

Layers (see common/ec/ec_ptops_spec.h):
  A  grp.c            real point operations, field layer = spec stubs (common/ec/spec_bn.h)
  B  mul.c + -DEC_LADDER_STUBS   real ladder / window / comb / JSF / NAF code, point operations = contract of A
  C  mul.c            end-to-end (ladder + point operations real, field stubs) on the shapes that finish
"""
import os

SOLVER = os.environ.get("C02_SOLVER", "cadical")

# curve ids of common/ec/gen_curve.py
TINY = [8, 9, 10, 11]          # p = 7 / 11: prime order 11, 7; cofactor-2 orders 10, 14
SMALL = [1, 2, 4, 5]           # p = 23 / 31: prime order 31, 23; cofactor-2 order 26 (a = p-3 and generic)
ORDER = {1: 31, 2: 23, 3: 59, 4: 13, 5: 13, 6: 223, 7: 239, 8: 11, 9: 7, 10: 5, 11: 7}     # curve->n
NTOT = {1: 31, 2: 23, 3: 59, 4: 26, 5: 26, 6: 223, 7: 239, 8: 11, 9: 7, 10: 10, 11: 14}
CNAME = {1: "p23n31m3", 2: "p31n23", 3: "p61n59", 4: "p23n13h2m3", 5: "p23n13h2", 8: "p7n11m3", 9: "p11n7",
         10: "p7n5h2m3", 11: "p11n7h2"}

BIN, PRE_DBL, SL_WIN, COMB_1T, COMB_2T = 0, 1, 2, 3, 4
T_BIN, T_FXP_UNKPT, T_JOINT, T_INTER = 0, 1, 2, 3
ALGO_NAME = {BIN: "bin", PRE_DBL: "predbl", SL_WIN: "slwin", COMB_1T: "comb1t", COMB_2T: "comb2t"}
TWIN_NAME = {T_BIN: "bin", T_FXP_UNKPT: "fxpunk", T_JOINT: "joint", T_INTER: "inter"}

# coordinate-system builds
AFF = {}
PROJ = {"EC_USE_PROJECTIVE": 1}
PROJ_MIX = {"EC_USE_PROJECTIVE": 1, "EC_PROJ_ADD_MIX": 1}
PROJ_REP = {"EC_USE_PROJECTIVE": 1, "EC_PROJ_REPEAT_DOUBLE": 1}
PROJ_MIX_REP = {"EC_USE_PROJECTIVE": 1, "EC_PROJ_ADD_MIX": 1, "EC_PROJ_REPEAT_DOUBLE": 1}
COORD = {"aff": AFF, "proj": PROJ, "projmix": PROJ_MIX, "projrep": PROJ_REP, "projmixrep": PROJ_MIX_REP}

NOFXP = {"EC_PF_FXP_MULT_ALGO": BIN}     # group-law jobs: no base-point table in the constructor

META = {
    "bounds": "8-bit bignum digits, curve->m = 8; synthetic curves with the whole group enumerated: prime order "
              "(p=7 n=11 a=p-3; p=11 n=7; p=23 n=31 a=p-3; p=31 n=23), cofactor 2 with a 2-torsion point "
              "(p=7 #E=10 a=p-3; p=11 #E=14; p=23 #E=26 a=p-3 and generic a).  (A) every point operation on ALL pairs of group "
              "elements incl. infinity, P+P through distinct objects, P+(-P), y=0, and ALL Jacobian representatives "
              "(both Z free on the p=7/11 curves; one Z free at a time on p=23/31).  (B) every multiplication "
              "algorithm x coordinate build on the p=7 n=11 curve (twin: also p=11 n=7) for ALL points and ALL "
              "scalars 0..n, plus scalars one digit wider than the curve (256..256+n) for the window/comb "
              "fall-back; default and affine/binary configurations also on p=23.  (C) end-to-end binary "
              "multiplication for all points x all scalars 0..n on p=7 (quick) and p=23 n=31 (thorough).",
    "outside": "the 32 built-in curves at full size (field arithmetic on 112..521 bits is beyond bit-blasting); digit "
               "widths other than 8 for the EC layer; window widths > 4 (table larger than an 8-bit curve's scalar); "
               "end-to-end runs (ladder + point formulas in one query) for the window/comb/JSF/NAF methods - these are "
               "decided compositionally (A + B); scalars with more than 9 bits; the real bn_mod_* code under the EC "
               "layer (C01's subject); affine + EC_PF_TWIN_MULT_ALGO_INTER is not a selectable build (elliptic_curve.h "
               "has no ec_point_affine_inter_twin_mult; the selection does not compile); builds with "
               "EC_PF_UNKPT_MULT_WIN_BITS > EC_PF_FXP_MULT_WIN_BITS (stack overflow, findings/unkpt-window-wider.md; the "
               "matrix keeps the fixed-point width >= the unknown-point width); ec_point_is_inverse for a "
               "point with y = 0 and ec_point_proj_dbl_n(P, 0) (no caller, not in the statement).",
    "assumptions": [
        "field layer: bn_mod, bn_mod_add, bn_mod_sub, bn_mod_mult, bn_mod_mult_digit, bn_mod_square, bn_mod_exp_digit, "
        "bn_mod_inv(_bin) are value-level transliterations on uint32_t (common/ec/spec_bn.h) that return the real "
        "functions' EINVAL/EOVERFLOW conditions; inverses come from a generated table; their preconditions "
        "(normalised operands, no carry lost in bn_mult_digit(2|3), modulus is p or n) are checked as a property",
        "bn_import_be_hex in the curve constructor is a stub (the real scanner forms a pointer one before the string)",
        "libc memcpy = bounded byte loop (at most one bignum, checked)",
        "stale digits above bn->digits written by the stubs hold one solver-chosen byte; stale coordinates of points "
        "at infinity and of result objects are solver-chosen values < p",
        "layer B: ec_point_{affine_add,affine_sub,affine_dbl_n,proj_add,proj_sub,proj_add_mix,proj_sub_mix,proj_dbl_n,"
        "proj_norm,proj_export_affine} are replaced, below the ladder functions only, by index arithmetic on the "
        "enumerated group (common/ec/ec_ptops_spec.h, inserted by gen_curve.py:write_split_header without touching /repo); "
        "returned Jacobian representatives are the affine coordinates scaled by the build constant PTOPS_Z (1, thorough also 2)",
        "table-driven methods run with the scalar as a constant inside a solver-selected branch (-DK_ENUM) because "
        "CBMC 6.11 mis-resolves &table[symbolic].member.array; points and stale state stay symbolic",
        "pointer checks (--pointer-check) are on in the group-law jobs and off in the multiplication jobs "
        "(4-5x symbolic-execution time); bounds, overflow, shift, conversion and division checks are on everywhere",
        "malloc-free code: no allocation assumptions",
    ],
    "harness_functions": ["harness", "body", "run", "run_pts", "enum_scalars", "proj_point", "proj_is", "env_curve_init",
                          "env_bn_set", "env_point", "env_point_c", "env_point_is", "env_index_of", "v_memcpy",
                          "sb_val", "sb_set", "sb_is_norm", "sb_mask", "sb_digits_of", "sb_clz8", "sb_top", "sb_rem",
                          "spec_bn_mod", "spec_bn_mod_add", "spec_bn_mod_sub", "spec_bn_mod_mult", "spec_bn_mod_mult_digit",
                          "spec_bn_mod_square", "spec_bn_mod_exp_digit", "spec_bn_mod_inv", "spec_bn_import_be_hex",
                          "ptops_next_z", "ptops_index_xy", "ptops_index_affine", "ptops_index_proj", "ptops_set_affine",
                          "ptops_set_proj", "spec_ec_point_proj_add", "spec_ec_point_proj_sub", "spec_ec_point_proj_dbl_n",
                          "spec_ec_point_proj_add_mix", "spec_ec_point_proj_sub_mix", "spec_ec_point_proj_norm",
                          "spec_ec_point_proj_export_affine", "spec_ec_point_affine_add", "spec_ec_point_affine_sub",
                          "spec_ec_point_affine_dbl_n"],
}

OPS = {1: "add", 2: "addself", 3: "sub", 4: "subself", 5: "affdbln", 6: "projadd", 7: "projsub", 8: "projaddmix",
       9: "projsubmix", 10: "projdbln", 11: "projaddself", 12: "checkaffine", 13: "iseq"}
OPDESC = {1: "ec_point_add(a,b) == table[i+j], b unchanged", 2: "ec_point_add(a,a) == table[2i]",
          3: "ec_point_sub(a,b) == table[i-j]", 4: "ec_point_sub(a,a) == infinity",
          5: "ec_point_affine_dbl_n == table[2^n i]", 6: "ec_point_proj_add on arbitrary Jacobian representatives",
          7: "ec_point_proj_sub on arbitrary representatives", 8: "ec_point_proj_add_mix (Jacobian + affine)",
          9: "ec_point_proj_sub_mix", 10: "ec_point_proj_dbl_n on an arbitrary representative",
          11: "ec_point_proj_add(a,a)", 12: "ec_point_check_affine accepts exactly the curve's points",
          13: "ec_point_is_eq / ec_point_is_inverse"}


def grp_job(curve, op, coord, zmode=2, ndbl=None, pt_bits=None, timeout=None, cost=1):
    defs = dict(COORD[coord], **NOFXP)
    defs.update({"CURVE": curve, "OP": op, "ZMODE": zmode})
    name = "A-%s-%s-%s-z%d" % (CNAME[curve], OPS[op], coord, zmode)
    if ndbl is not None:
        defs["NDBL"] = ndbl
        name += "-n%d" % ndbl
    if pt_bits:
        defs["PT_BITS"] = pt_bits
        name += "-cap%d" % pt_bits
    j = {"name": name, "src": "grp.c", "defs": defs, "unwind": 8, "solver": SOLVER, "cost": cost,
         "shape": "curve %s, all %d x %d operand pairs (incl. infinity), Z freedom mode %d%s, build %s" % (
             CNAME[curve], NTOT[curve], NTOT[curve], zmode, (", n=%d" % ndbl) if ndbl is not None else "", coord),
         "desc": OPDESC[op] + "; status 0; memory safety (pointer checks on)"}
    if timeout:
        j["timeout"] = timeout
    return j


def grp_jobs(tier):
    out = []
    curves = ([8, 9, 10, 1] if tier == "quick" else TINY + SMALL)
    for c in curves:
        tiny = c in TINY
        # affine build: public add/sub + affine dbl_n + membership test
        for op in (1, 2, 3, 4, 12, 13):
            out.append(grp_job(c, op, "aff", 0))
        for n in ((1, 3) if tier == "quick" else (1, 2, 3, 4)):
            out.append(grp_job(c, 5, "aff", 0, ndbl=n))
        # projective builds: public add/sub go through import -> add_mix -> export
        for coord in ("proj", "projmix"):
            for op in ((1, 3) if (tier == "quick" and not tiny) else (1, 2, 3, 4)):
                out.append(grp_job(c, op, coord, 0))
        if tier == "quick" and not tiny:
            continue
        zmodes = (2,) if tiny else (1, 3)
        for z in zmodes:
            for op in ((6,) if tier == "quick" else (6, 7)):
                out.append(grp_job(c, op, "proj", z, timeout=600 if not tiny else None, cost=5 if not tiny else 1))
        out.append(grp_job(c, 11, "proj", 1))
        for coord in ("proj", "projmix"):
            for op in ((8,) if tier == "quick" else (8, 9)):
                out.append(grp_job(c, op, coord, 1, timeout=600 if not tiny else None, cost=4 if not tiny else 1))
        for coord in ("proj", "projrep"):
            for n in ((1, 2) if tier == "quick" else (1, 2, 3, 4)):
                out.append(grp_job(c, 10, coord, 1, ndbl=n, cost=2))
        if tier == "thorough":
            out.append(grp_job(c, 1, "aff", 0, pt_bits=24))
            out.append(grp_job(c, 1, "projmix", 0, pt_bits=24))
    return out


ENTRY = {"bin": 1, "unk": 2, "bp": 3, "twinbp": 4, "chk": 5, "fpxany": 6, "twinany": 7, "bp2": 8}


def algo_defs(fxp=(BIN, 2), unk=(BIN, 2), twin=T_BIN):
    # The table types of elliptic_curve.h are sized by EC_PF_FXP_MULT_WIN_BITS only; an unknown-point window wider
    # than that overflows the local table of ec_point_unknown_pt_mult (findings/unkpt-window-wider.md).  The matrix
    # therefore keeps FXP_WIN_BITS >= UNKPT_WIN_BITS; C02_UNKPT_WIDER=1 reproduces the overflow.
    if not os.environ.get("C02_UNKPT_WIDER") and unk[0] in (SL_WIN, COMB_1T, COMB_2T) and fxp[1] < unk[1]:
        fxp = (fxp[0], unk[1])
    return {"EC_PF_FXP_MULT_ALGO": fxp[0], "EC_PF_FXP_MULT_WIN_BITS": fxp[1],
            "EC_PF_UNKPT_MULT_ALGO": unk[0], "EC_PF_UNKPT_MULT_WIN_BITS": unk[1], "EC_PF_TWIN_MULT_ALGO": twin}


def mul_job(layer, curve, entry, coord, adefs, tag, enum, kmin=None, kmax=None, lmin=None, lmax=None, extra=None,
            timeout=None, cost=3, unwind=10):
    n = ORDER[curve]
    defs = dict(COORD[coord])
    defs.update(adefs)
    defs.update({"CURVE": curve, "ENTRY": ENTRY[entry]})
    if layer == "B":
        defs["EC_LADDER_STUBS"] = 1
    kmin = 0 if kmin is None else kmin
    kmax = n if kmax is None else kmax
    defs["K_MIN"], defs["K_MAX"] = kmin, kmax
    two = entry in ("twinbp", "twinany", "bp2")
    if two:
        lmin = 0 if lmin is None else lmin
        lmax = n if lmax is None else lmax
        defs["L_MIN"], defs["L_MAX"] = lmin, lmax
    uset = []
    if enum:
        defs["K_ENUM"] = 1
        if two:
            uset = ["enum_scalars.0:%d" % (lmax - lmin + 2), "enum_scalars.1:%d" % (kmax - kmin + 2)]
        else:
            uset = ["enum_scalars.0:%d" % (kmax - kmin + 2)]
    if extra:
        defs.update(extra)
    name = "%s-%s-%s-%s-%s-k%d_%d" % (layer, CNAME[curve], entry, coord, tag, kmin, kmax)
    if two:
        name += "-l%d_%d" % (lmin, lmax)
    if extra:
        name += "-" + "_".join("%s%s" % (k.lower().replace("_", ""), v) for k, v in sorted(extra.items()))
    j = {"name": name, "src": "mul.c", "defs": defs, "unwind": unwind, "unwindset": uset, "solver": SOLVER,
         "flags": ["--no-pointer-check"], "cost": cost,
         "shape": "curve %s, %s points, scalars k in [%d,%d]%s, build %s / %s%s" % (
             CNAME[curve], "all %d" % NTOT[curve] if entry not in ("bp", "bp2") else "base point", kmin, kmax,
             (" l in [%d,%d]" % (lmin, lmax)) if two else "", coord, tag,
             " (scalar constant per solver-selected branch)" if enum else " (scalar symbolic)"),
         "desc": {"bin": "ec_point_bin_mult == table[k*i]", "unk": "ec_point_unknown_pt_mult == table[k*i]",
                  "bp": "ec_point_mult_bp == table[k*G] (table built by ecdsa_curve_from_str)",
                  "twinbp": "ec_point_twin_mult_bp == table[k*G + l*i], operand unchanged",
                  "twinany": "ec_point_twin_mult == table[k*i + l*j]",
                  "chk": "ec_point_check_scalar_mult accepts exactly the points with n*P = O",
                  "bp2": "ec_point_mult_bp(l) then ec_point_mult_bp(k) on one curve object: both == table (the first call, "
                         "with a scalar wider than the curve, must not damage the curve's base-point table)",
                  "fpxany": "precompute + fixed-point multiply of an arbitrary point"}[entry] +
                 ("; point operations = contract established by the A jobs" if layer == "B" else "; end to end")}
    if timeout:
        j["timeout"] = timeout
    return j


def fxp_variants(tier):
    v = [(BIN, 2, "bin"), (PRE_DBL, 2, "predbl")]
    for w in (1, 2, 4):
        v.append((SL_WIN, w, "slwin%d" % w))
    for w in (2, 3, 4):
        v.append((COMB_1T, w, "comb1t%d" % w))
    for w in (2, 3, 4):
        v.append((COMB_2T, w, "comb2t%d" % w))
    return v


def needs_enum(algo):
    return algo not in (BIN, PRE_DBL)


DEFAULT = algo_defs(fxp=(COMB_2T, 4), unk=(COMB_1T, 2), twin=T_INTER)      # tests/ecdsa/main.c with w=9 -> 4
# same selection for the entry points that never touch the base-point table (saves its construction per job)
DEFAULT_NOTAB = algo_defs(fxp=(BIN, 2), unk=(COMB_1T, 2), twin=T_INTER)
AFFBIN = algo_defs()                                                          # affine / everything binary


def twin_chunks(layer, curve, coord, adefs, tag, enum, tier, cost=3, timeout=None, unwind=17):
    """twin multiplication: (n+1)^2 scalar pairs; with K_ENUM one job per value of k (all l inside)."""
    n = ORDER[curve]
    out = []
    if not enum:
        out.append(mul_job(layer, curve, "twinbp", coord, adefs, tag, False, cost=cost, timeout=timeout, unwind=unwind))
        return out
    half = (n + 1) // 2
    for k in range(0, n + 1):
        for lo, hi in ((0, half - 1), (half, n)):       # two halves of the l range: ~45 s per job [measured]
            out.append(mul_job(layer, curve, "twinbp", coord, adefs, tag, True, kmin=k, kmax=k, lmin=lo, lmax=hi,
                               cost=cost, timeout=timeout or 400, unwind=unwind))
    return out


def bp_twice_jobs(curve, coord, variants):
    """first scalar l in {256, 257, 256 + n} (two digits: fall-back / second digit of the window walk), then every k in 0..n"""
    out = []
    n = ORDER[curve]
    for algo, w, tag in variants:
        out.append(mul_job("B", curve, "bp2", coord, algo_defs(fxp=(algo, w)), "fxp_" + tag, True, lmin=256, lmax=257,
                           unwind=17 if w == 4 else 12, cost=3))
    return out


def mul_jobs(tier):
    out = []
    T = 8          # build-matrix curve p=7, n=11
    if tier == "quick":
        # default configuration of tests/ecdsa (projective, mixed add, repeated double, comb2t / comb1t / inter)
        out.append(mul_job("B", T, "bp", "projmixrep", DEFAULT, "default", True, unwind=17))
        out.append(mul_job("B", T, "unk", "projmixrep", DEFAULT_NOTAB, "default", True, unwind=10, cost=9, timeout=400))
        out += twin_chunks("B", 9, "projmixrep", DEFAULT_NOTAB, "default", True, tier, cost=4, unwind=10)
        # affine two-table comb with an ODD column count (m = 8, w = 3: 3 columns, e = 2): top-column boundary of step 2
        out.append(mul_job("B", T, "bp", "aff", algo_defs(fxp=(COMB_2T, 3)), "fxp_comb2t3", True))
        # two consecutive base-point multiplications on one curve object, the first with a scalar one digit wider than
        # the curve (comb fall-back to the binary method): the curve's precomputed table must survive
        out += bp_twice_jobs(T, "aff", [(COMB_1T, 2, "comb1t2"), (COMB_2T, 3, "comb2t3")])
        out += bp_twice_jobs(T, "projmix", [(COMB_1T, 2, "comb1t2")])
        # affine / binary
        out.append(mul_job("B", T, "bin", "aff", AFFBIN, "bin", False))
        out.append(mul_job("B", T, "bp", "aff", AFFBIN, "bin", False))
        out.append(mul_job("B", T, "twinbp", "aff", AFFBIN, "bin", False, cost=5))
        out.append(mul_job("B", 10, "chk", "aff", AFFBIN, "bin", False, kmin=0, kmax=0))
        # end to end, binary, all points x all scalars
        out.append(mul_job("C", T, "bin", "aff", AFFBIN, "bin", False, cost=10, timeout=400))
        return out
    # ---------------- thorough: the build matrix on the tiny curve
    for coord in ("aff", "proj", "projmix"):
        for algo, w, tag in fxp_variants(tier):
            en = needs_enum(algo)
            uw = 17 if w == 4 else 10
            out.append(mul_job("B", T, "bp", coord, algo_defs(fxp=(algo, w)), "fxp_" + tag, en, unwind=uw))
            # arbitrary point: the precomputed table is symbolic; big tables x 12 scalar branches exhaust the solver's
            # memory [measured: comb2t w=3,4 and comb1t w=4 with all 12 scalars in one job], so those are split
            chunk = {(COMB_1T, 4): 2, (COMB_1T, 3): 4, (SL_WIN, 4): 3}.get((algo, w), ORDER[T] + 1)
            if algo == COMB_2T:
                # two-table comb on an ARBITRARY point is not decided: ec_point_*_fpx_comb2t_mult_precompute passes its
                # table to the comb1t routine through a struct-pointer cast and CBMC then loses the window counts of the
                # local table (solver memory exhausted / ERROR statuses even for one scalar [measured]).  The algorithm is
                # decided for the base point (bp / bp2 jobs: table inside the curve object) for every width.
                continue
            for lo in range(0, ORDER[T] + 1, chunk):
                out.append(mul_job("B", T, "unk", coord, algo_defs(unk=(algo, w)), "unk_" + tag, en, kmin=lo,
                                   kmax=min(lo + chunk - 1, ORDER[T]), unwind=uw, cost=6, timeout=1500))
            if algo not in (BIN, PRE_DBL):
                # two-call job with a first scalar one digit wider than the curve: only for the algorithms that have a
                # documented fall-back for such scalars (sliding window, comb). The precomputed-doubles table has exactly m
                # entries: a 9-bit scalar on an 8-bit curve is outside the property's domain (bit length <= curve size) and
                # reads behind the table [observed: ASan-confirmed counterexample, harness job withdrawn, not a finding].
                out += bp_twice_jobs(T, coord, [(algo, w, tag)])
            if algo in (COMB_1T, COMB_2T) or algo == SL_WIN:
                # scalar one digit wider than the curve: comb falls back to binary, sliding window walks two digits
                out.append(mul_job("B", T, "unk", coord, algo_defs(unk=(algo, w)), "unk_" + tag, True, kmin=256,
                                   kmax=256 + ORDER[T], unwind=max(uw, 12), cost=6))
        # twin multiplication
        twins = [(T_BIN, "bin", False), (T_JOINT, "joint", True), (T_FXP_UNKPT, "fxpunk", True)]
        if coord != "aff":
            twins.append((T_INTER, "inter", True))      # no affine implementation exists (does not compile)
        for tw, tag, en in twins:
            ad = algo_defs(fxp=(COMB_2T, 3), unk=(COMB_1T, 2), twin=tw) if tw == T_FXP_UNKPT else algo_defs(twin=tw)
            for c in ((9,) if en else (T,)):      # table-driven twins: p=11 n=7 (64 scalar pairs); binary: p=7 n=11
                out += twin_chunks("B", c, coord, ad, "twin_" + tag, en, tier, cost=4)
        # ec_point_twin_mult on two arbitrary points (joint / inter / bin), small scalar window, p=11 n=7
        for tw, tag, en in twins:
            if tw == T_FXP_UNKPT:
                continue
            for k in range(0, ORDER[9] + 1):
                out.append(mul_job("B", 9, "twinany", coord, algo_defs(twin=tw), "twin_" + tag, en, kmin=k, kmax=k, cost=5))
        # subgroup check on the cofactor-2 curves
        for c in (10, 11):
            out.append(mul_job("B", c, "chk", coord, algo_defs(unk=(COMB_1T, 2)), "unk_comb1t2", True, kmin=0, kmax=0))
            out.append(mul_job("B", c, "chk", coord, AFFBIN, "bin", False, kmin=0, kmax=0))
    # representative independence: default configuration with PTOPS_Z = 2
    out.append(mul_job("B", T, "unk", "projmixrep", DEFAULT_NOTAB, "default", True, unwind=10, extra={"PTOPS_Z": 2}, cost=6))
    out.append(mul_job("B", T, "bp", "projmixrep", DEFAULT, "default", True, unwind=17, extra={"PTOPS_Z": 2}))
    # default + affine/binary configurations on the p=23 curves (prime order 31, and cofactor 2)
    for c in (1, 4):
        out.append(mul_job("B", c, "bp", "projmixrep", DEFAULT, "default", True, unwind=17, cost=6))
        out.append(mul_job("B", c, "bin", "aff", AFFBIN, "bin", False, cost=6))
        out.append(mul_job("B", c, "bin", "proj", AFFBIN, "bin", False, cost=6))
        for lo in range(0, ORDER[c] + 1, 8):
            out.append(mul_job("B", c, "unk", "projmixrep", DEFAULT_NOTAB, "default", True, kmin=lo,
                               kmax=min(lo + 7, ORDER[c]), unwind=10, cost=8, timeout=1500))
    out.append(mul_job("B", 4, "chk", "projmixrep", DEFAULT_NOTAB, "default", True, kmin=0, kmax=0, unwind=10))
    # ---------------- end to end
    out.append(mul_job("C", T, "bin", "aff", AFFBIN, "bin", False, cost=8))
    out.append(mul_job("C", T, "bin", "proj", AFFBIN, "bin", False, cost=9))
    out.append(mul_job("C", 1, "bin", "aff", AFFBIN, "bin", False, cost=20, timeout=1500))
    out.append(mul_job("C", 1, "bin", "proj", AFFBIN, "bin", False, cost=30, timeout=1500))
    out.append(mul_job("C", 10, "bin", "projrep", AFFBIN, "bin", False, cost=9))
    for lo in range(0, ORDER[T] + 1, 3):
        out.append(mul_job("C", T, "unk", "projmixrep", DEFAULT_NOTAB, "default", True, kmin=lo, kmax=min(lo + 2, ORDER[T]),
                           unwind=10, cost=25, timeout=1500))
    return out


def jobs(tier):
    return grp_jobs(tier) + mul_jobs(tier)
