/* C04(a) lemma: the OR-forms of Ch / Maj used by the references under -DV_REF_ALT equal the XOR-forms printed in
 * FIPS 180-4 (4.2), (4.3), (4.8), (4.9) for ALL 32-bit resp. 64-bit x, y, z. Together with the "-eq" jobs
 * (library == reference with OR-forms) this gives library == reference with the standard's forms. */
#include "verif.h"
#include "v_ref_sha256.h"
#include "v_ref_sha512.h"
struct in_s { uint32_t x, y, z; uint64_t X, Y, Z; };
#include "verif_in.h"
void harness(void) {
	V_BEGIN();
	V_ASSERT(V_REF256_CH_STD(IN.x, IN.y, IN.z) == V_REF256_CH_ALT(IN.x, IN.y, IN.z), "Ch 32: xor form == or form");
	V_ASSERT(V_REF256_MAJ_STD(IN.x, IN.y, IN.z) == V_REF256_MAJ_ALT(IN.x, IN.y, IN.z), "Maj 32: xor form == or form");
	V_ASSERT(V_REF512_CH_STD(IN.X, IN.Y, IN.Z) == V_REF512_CH_ALT(IN.X, IN.Y, IN.Z), "Ch 64: xor form == or form");
	V_ASSERT(V_REF512_MAJ_STD(IN.X, IN.Y, IN.Z) == V_REF512_MAJ_ALT(IN.X, IN.Y, IN.Z), "Maj 64: xor form == or form");
	V_WITNESS_MUST("lemma evaluated");
}
