/* C04(b) for GOST R 34.11-2012 (Streebog): gost3411_2012_init / _update / _final, one-shot and hex-string entry points
 * with the two compression entry points abstracted (common/hash/alg_gost.h, V_ABSTRACT):
 *     transform_n(ctx, bits, blocks..)  per block: logs (h, N, Sigma, block, bits), h := arbitrary (IN.out[k]),
 *                                       N += bits, Sigma += block  (reference adders; the real ones are decided in gxform.c)
 *     transform_1(ctx, block)           logs (h, block), h := arbitrary
 * Oracle, RFC 6986 section 8 (stages 1-3): for a message of LEN bytes, q = LEN / 64 full blocks and r = LEN % 64:
 *     calls 0..q-1 : transform_n, block = M[64k .. 64k+63], bits = 512, N seen = 512 k, Sigma seen = sum of earlier blocks
 *     call q       : transform_n, block = M[64q ..] || 0x01 || 0x00.., bits = 8 r
 *     call q+1     : transform_1, block = N  = 8 LEN                      (as a 512-bit little endian number)
 *     call q+2     : transform_1, block = Sigma = sum of the q+1 blocks above mod 2^512
 *     call 0 sees h = IV (0x00.. for 512, 0x01.. for 256), N = 0, Sigma = 0; each later call sees the previous result;
 *     digest = last result (bytes 32..63 of it for the 256-bit variant); context all zero afterwards.
 * Build parameters: BITS, LEN, SPLITS (as stream.c), ENTRY_POINTS. */
#define V_ABSTRACT
#define V_MAXCALLS (V_PADBLOCKS(LEN) + 1)
#include "verif.h"
#include "common/hash/alg_gost.h"

struct in_s {
	uint8_t msg[LEN + 1];
	a_word_t out[V_MAXCALLS][A_STW];
	a_havoc_t havoc[V_MAXCALLS][A_HAVOC];
};
#include "verif_in.h"

#define Q	((LEN) / 64)
#define RR	((LEN) % 64)
static uint8_t padded[(Q + 1) * 64];		/* the q full blocks and the padded last block */
static uint8_t n_total[64], sigma_total[64];

static void oracle_prepare(void) {
	uint8_t bits512[64] = { 0 }, run_n[64] = { 0 };
	for (size_t i = 0; i < sizeof(padded); i++)
		padded[i] = (i < (LEN)) ? IN.msg[i] : (i == (LEN) ? 0x01 : 0x00);
	memset(sigma_total, 0, 64);
	for (size_t k = 0; k <= Q; k++)
		v_gost_add512(sigma_total, padded + 64 * k);
	memset(n_total, 0, 64);
	for (size_t i = 0; i < 8; i++)
		n_total[i] = (uint8_t)(((uint64_t)(LEN) * 8) >> (8 * i));
	(void)bits512; (void)run_n;
}

static void check_run(const uint8_t *digest) {
	uint8_t run_n[64] = { 0 }, run_s[64] = { 0 }, b512[64] = { 0 };
	b512[1] = 0x02;				/* 512 as a little endian 512-bit number */
	V_ASSERT(v_ncalls == Q + 3, "q+1 compression calls for the message and two for N and Sigma");
	if (v_ncalls != Q + 3)
		return;
	for (size_t k = 0; k < Q + 3; k++) {
		const uint8_t *blk = (k <= Q) ? padded + 64 * k : (k == Q + 1 ? n_total : sigma_total);
		for (size_t i = 0; i < 64; i++)
			V_ASSERT(v_log_blk[k][i] == blk[i], "block given to the compression function == RFC 6986 stage 2/3 block");
		for (size_t i = 0; i < 8; i++) {
			if (k == 0)
				V_ASSERT(v_log_st[0][i] == (uint64_t)A_GOST_IV_BYTE * 0x0101010101010101ull, "first block compressed from the IV");
			else
				V_ASSERT(v_log_st[k][i] == v_out[k - 1][i], "chaining value == result of the previous call");
		}
		if (k <= Q) {
			V_ASSERT(v_log_bits[k] == (k < Q ? 512 : 8 * (size_t)RR), "bit count added to N: 512 per full block, 8r for the last");
			for (size_t i = 0; i < 64; i++) {
				V_ASSERT(v_log_N[k][i] == run_n[i], "N seen by g_N == 512 * number of earlier blocks");
				V_ASSERT(v_log_sigma[k][i] == run_s[i], "Sigma seen == sum of earlier blocks");
			}
			v_gost_add512(run_n, b512);
			v_gost_add512(run_s, padded + 64 * k);
		} else
			V_ASSERT(v_log_bits[k] == V_GOST_T1, "N and Sigma are compressed with g_0 (transform_1)");
	}
	for (size_t i = 0; i < A_DIG; i++)
		V_ASSERT(digest[i] == ((const uint8_t *)v_out[Q + 2])[64 - A_DIG + i], "digest == (most significant half of) the last result");
}

static void run_split(size_t s1, size_t s2) {
	a_ctx_t ctx_obj;
	a_ctx_t *ctx = &ctx_obj;
	uint8_t *c1 = v_buf(IN.msg, s1), *c2 = v_buf(IN.msg + s1, s2 - s1), *c3 = v_buf(IN.msg + s2, LEN - s2);
	uint8_t *digest = (uint8_t *)v_alloc(A_DIG);

	v_abs_load(IN.out, IN.havoc);
	a_init(ctx);
	a_update(ctx, c1, s1);
	a_update(ctx, c2, s2 - s1);
	a_update(ctx, c3, LEN - s2);
	a_final(ctx, digest);
	check_run(digest);
	for (size_t i = 0; i < sizeof(a_ctx_t); i++)
		V_ASSERT(((const uint8_t *)ctx)[i] == 0, "every context byte is zero after final");
}

void harness(void) {
	V_BEGIN();
	oracle_prepare();
#define X(s1, s2) run_split((s1), (s2));
	SPLITS
#undef X
	V_WITNESS_MUST("all update partitions of this shape ran");
#ifdef ENTRY_POINTS
	{
		uint8_t *m = v_buf(IN.msg, LEN);
		uint8_t *digest = (uint8_t *)v_alloc(A_DIG);
		v_abs_load(IN.out, IN.havoc);
		a_oneshot(m, LEN, digest);
		check_run(digest);
	}
	{
		uint8_t *m = v_buf(IN.msg, LEN);
		char *str = (char *)v_alloc(2 * A_DIG + 1);
		uint8_t want[A_DIG];
		v_abs_load(IN.out, IN.havoc);
		a_oneshot_str(m, LEN, str);
		for (size_t i = 0; i < A_DIG; i++)
			want[i] = ((const uint8_t *)v_out[Q + 2])[64 - A_DIG + i];
		check_run(want);
		for (size_t i = 0; i < A_DIG; i++) {
			V_ASSERT(str[2 * i] == "0123456789abcdef"[want[i] >> 4], "hex string, high nibble");
			V_ASSERT(str[2 * i + 1] == "0123456789abcdef"[want[i] & 15], "hex string, low nibble");
		}
		V_ASSERT(str[2 * A_DIG] == 0, "hex string NUL terminated");
	}
	V_WITNESS_MUST("one-shot and hex-string entry points ran");
#endif
}
