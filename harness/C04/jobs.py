import os

HERE = os.path.dirname(os.path.abspath(__file__))
# z3 + native bit-vector cvc5 side by side (NOT the bv-as-int shim of the driver's "cvc5" solver), see the script
SMT = os.path.join(HERE, "..", "common", "hash", "smt-portfolio.sh")
SMT_FLAGS = ["--cvc5", "--slice-formula", "--external-smt2-solver", os.path.normpath(SMT), "--no-standard-checks"]

# step.c: the symbolic-offset memcpy of sha2_update makes ctx->hash_size a non-constant expression for CBMC's symbolic
# execution, so the digest byte-swap loops of sha2_final need an explicit bound (64/4 resp. 64/8 iterations at most)
SHA2_US = ["sha2_memcpy_bswap4.0:18", "sha2_memcpy_bswap8.0:10"]

# name, adapter, block, state bytes, ctx bytes (for unwind), alignment offsets worth distinguishing, defs
ALGS = {
    "md5":    dict(h="common/hash/alg_md5.h", blk=64, lenb=8, offs=[0, 1, 2], defs={}, upd="md5_update.0"),
    "sha1":   dict(h="common/hash/alg_sha1.h", blk=64, lenb=8, offs=[0, 1], defs={}),
    "sha224": dict(h="common/hash/alg_sha2.h", blk=64, lenb=8, offs=[0], defs={"BITS": 224}, step_us=SHA2_US),
    "sha256": dict(h="common/hash/alg_sha2.h", blk=64, lenb=8, offs=[0, 1], defs={"BITS": 256}, step_us=SHA2_US),
    "sha384": dict(h="common/hash/alg_sha2.h", blk=128, lenb=16, offs=[0], defs={"BITS": 384}, step_us=SHA2_US),
    "sha512": dict(h="common/hash/alg_sha2.h", blk=128, lenb=16, offs=[0, 1], defs={"BITS": 512}, step_us=SHA2_US),
}

META = {
    "bounds": "PORTABLE build (SIMD macros undefined exactly as tests/hash/main.c does). "
              "(a) block transforms, one block (thorough: also two consecutive blocks), chaining state + block bytes + every "
              "other context field symbolic, block pointer aligned and unaligned: md5_transform, sha1_transform(_generic), "
              "sha2_transform -> block64_generic / block128_generic (state of SHA-224/256/384/512) == straight-line references "
              "generated from RFC 1321 (T[i] from sin, shifts, word order), RFC 3174, FIPS 180-4 (K/IV from cube/square roots "
              "of primes); equality decided by z3 + cvc5 on bit-vector terms, built-in memory-safety/UB checks and the frame "
              "condition by SAT. Streebog: gost3411_2012_transform_n_generic / _1_generic with the LPS kernel abstracted == g_N, "
              "E, key schedule with C1..C12, N += bits, Sigma += m of RFC 6986 for all h, N, Sigma, m, bits; the table kernel "
              "gost3411_2012_SLP against pi/tau/A of RFC 6986 in byte-difference form, quick: byte position 9 of 64, thorough: "
              "all 64 positions (+ small-table builds at positions 0, 9, 63). "
              "(b) streaming with the transform abstracted (arbitrary result per call): init/update/final, one-shot and hex-string "
              "entry points from *_init: quick message lengths {0, B-L-1, B-L, B+1} (B block bytes, L length-field bytes) for "
              "MD5/SHA-1/SHA-256/SHA-512, {B-L} for SHA-224/384, Streebog-512 {0,63,64,70}, Streebog-256 {64,70}; partitions into "
              "<= 3 updates with split points from {0,1,B-1,B,B+1,2B-1,2B,2B+1,n-1,n} (empty updates included); thorough: every "
              "length 0..2B+L+1 (Streebog 0..130) with boundary lengths under all those split pairs. Inductive step (MD-style "
              "hashes): update(L bytes)+final from an ARBITRARY mid-stream context with byte count n = 64q+R resp. 128q+R, q "
              "symbolic over the whole domain of the standard (carry into count_hi included), quick 4 (R,L) shapes per main "
              "variant, thorough ~60 (R,L) shapes and all R at once for L = B+1. Asserted everywhere: blocks given to the "
              "transform == pad(msg) of the standard, chaining from the standard IV, digest/hex bytes, reported sizes, every "
              "context byte zero after *_final.",
    "outside": "SSE / SHA-NI / AVX / AVX2 transforms and the CPUID dispatch flags (vendor intrinsics are not modelled by goto-cc); "
               "compiler and optimisation-level matrix (CBMC decides C semantics; what is decided instead: no UB/bounds "
               "violation inside the bounds); real alignment faults (alignment-dependent BRANCHES are covered through the "
               "block offset shapes); Streebog LPS kernel in the quick tier at 63 of the 64 byte positions (thorough covers all; "
               "measured HOLD at positions 0, 7, 9, 56, 63, 100-360 s each); the direct one-block equivalence of Streebog "
               "without the LPS abstraction (no verdict in 280 s, replaced by kernel + structure as planned in DESIGN 5.4); "
               "Streebog inductive step harness (only bounded lengths 0..130 from init); end-to-end lengths above 2B+L+1 "
               "except through the inductive step; more than 3 updates per message except through the inductive step.",
    "assumptions": [
        "portable build: __SSE2__, __SSE3__, __SSSE3__, __SSE4_1__, __SSE4_2__, __AVX__, __AVX2__, __SHA__ undefined before the includes",
        "layer (b) abstraction: md5_transform / sha1_transform_generic / sha2_transform_block64_generic / "
        "sha2_transform_block128_generic / gost3411_2012_transform_n_generic / gost3411_2012_transform_1_generic are replaced "
        "by logging stubs through a function-like macro that pastes onto the first token of the first argument "
        "(common/hash/v_abs.h; compile error if liblcb spells a call differently); stub result = arbitrary value per call "
        "(weaker than an uninterpreted function: no functional consistency assumed) + arbitrary contents in the transform's "
        "scratch area (W[], md5/gost buffer copy, kbuf/tbuf/sbuf); layer (a) decides the frame condition that nothing else changes",
        "Streebog stub for transform_n performs N += bits and Sigma += block with a byte-wise reference adder; the real "
        "adders are decided against the same adder in gost-xform-gN",
        "Streebog kernel: byte-separability of L(P(S(.))) of RFC 6986 (L and P are GF(2)-linear, S acts on bytes) is used as a "
        "mathematical fact to go from the byte-difference form to SLP == LPS",
        "SHA-2 references in the -eq jobs use the OR-forms of Ch/Maj; lemma-ch-maj decides OR-form == XOR-form of FIPS 180-4 for all inputs",
        "reference code generated by common/hash/hashgen.py / hashgen_streebog.py from the standards only; generator self-checks "
        "against Python hashlib (MD5/SHA) and RFC 6986 examples + libgcrypt (Streebog; also nettle at development time)",
        "Streebog digest byte order: byte 0 = least significant byte of the 512-bit value (libgcrypt/nettle/RFC 7836 convention; "
        "RFC 6986 section 10 prints the same bytes reversed)",
        "malloc never fails in harness allocations (v_alloc assumes non-NULL; --no-malloc-may-fail because liblcb's hash code never allocates)",
        "step.c pre-state: any context satisfying the stated invariant; domain of n limited to the standard's (SHA-1/224/256: "
        "< 2^61 bytes, SHA-384/512: < 2^125 bytes, MD5: < 2^64 bytes without wrap of the byte counter)",
        "-eq jobs: built-in checks off (sibling -safe job runs the same code and shape with all built-in checks on)",
    ],
    "harness_functions": ["harness", "run_split", "check_common", "check_run", "oracle_prepare", "frame", "v_abs_load", "v_abs_step",
                          "v_pad_tail", "v_check_seg", "v_check_log", "v_serialise", "v_alloc", "v_buf", "a_real_transform",
                          "v_md5_transform_stub", "v_sha1_transform_stub", "v_sha2_transform_stub", "v_sha2_transform_wrong",
                          "v_gost_tn_stub", "v_gost_t1_stub", "v_gost_slp_stub", "v_gost_havoc", "v_gost_X", "v_gost_S", "v_gost_P",
                          "v_gost_L", "v_gost_LPS", "v_gost_LPS_tab", "v_gost_add512", "v_gost_g", "v_ref_md5_compress",
                          "v_ref_md5_compress_w", "v_ref_md5_decode", "v_ref_sha1_compress", "v_ref_sha1_compress_w",
                          "v_ref_sha1_decode", "v_ref_sha256_compress", "v_ref_sha256_compress_w", "v_ref_sha256_decode",
                          "v_ref_sha512_compress", "v_ref_sha512_compress_w", "v_ref_sha512_decode"],
}


def alg_defs(a):
    d = {"ALG_H": '"%s"' % ALGS[a]["h"]}
    d.update(ALGS[a]["defs"])
    return d


def padblocks(a, n):
    A = ALGS[a]
    return (n + 1 + A["lenb"] + A["blk"] - 1) // A["blk"]


def xform_jobs(tier):
    out = []
    for a, A in ALGS.items():
        for nblk in ([1] if tier == "quick" else [1, 2]):
            for off in A["offs"]:
                if nblk == 2 and off not in (0, 1):
                    continue
                defs = dict(alg_defs(a), NBLK=nblk, OFF=off)
                if a.startswith("sha2") or a.startswith("sha3") or a.startswith("sha5"):
                    defs["V_REF_ALT"] = None        # OR-forms of Ch/Maj; == the standard's XOR-forms by the lemma job
                shape = "%s transform, %d block(s), block at offset %d of its object, state+block+context symbolic" % (a, nblk, off)
                uw = 100
                out.append({"name": "xform-%s-n%d-o%d-eq" % (a, nblk, off), "src": "xform.c", "defs": defs, "unwind": uw,
                            "solver": "minisat", "flags": SMT_FLAGS, "prop_include": "standard compression|EXTRA",
                            "shape": shape, "desc": "portable transform == compression function of the standard "
                            "(generated straight-line reference); decided by cvc5 on bit-vector terms",
                            "timeout": 900 if tier == "quick" else 1500, "cost": 50})
                out.append({"name": "xform-%s-n%d-o%d-safe" % (a, nblk, off), "src": "xform.c", "defs": dict(defs, NO_REF=None),
                            "unwind": uw, "solver": "cadical", "mem_gb": 12,
                            "shape": shape, "desc": "built-in memory-safety / UB checks of the transform; frame condition "
                            "(only chaining state and scratch change)", "cost": 2})
    return out


FULL = ("md5", "sha1", "sha256", "sha512")     # variants with their own code paths; sha224/sha384 only differ by IV/size


def split_points(a, n, tier):
    B, LB = ALGS[a]["blk"], ALGS[a]["lenb"]
    pts = {0, 1, n - 1, n}
    for k in (1, 2):
        pts |= {k * B - 1, k * B, k * B + 1}
    if tier == "thorough" and a in FULL:
        pts |= {2, B - 2, B + 2, B - LB - 1, B - LB, 2 * B - 2, 2 * B + 2}
    return sorted(p for p in pts if 0 <= p <= n)


def splits_for(a, n, tier):
    pts = split_points(a, n, tier)
    return [(s1, s2) for s1 in pts for s2 in pts if s1 <= s2]


CHUNK = 6       # partitions per job: symbolic execution time grows quadratically with the number of runs in one job


def stream_jobs(tier):
    out = []
    for a, A in ALGS.items():
        B, LB = A["blk"], A["lenb"]
        edge = [0, 1, B - LB - 1, B - LB, B - 1, B, B + 1, 2 * B - LB - 1, 2 * B - LB, 2 * B, 2 * B + LB + 1]
        if tier == "quick":
            lens = [0, B - LB - 1, B - LB, B + 1] if a in FULL else [B - LB]
            few = True
        else:
            if a in ("md5", "sha256"):
                lens = list(range(0, 2 * B + LB + 2))
            elif a in FULL:
                lens = sorted(set(edge) | set(range(0, 2 * B + LB + 2, 5)))
            else:
                lens = edge
            few = False
        for n in lens:
            if tier == "thorough" and n not in edge:
                # in-between lengths: one-, two- and three-update partitions at a few places
                sp = sorted({(0, 0), (n, n), (1, n), (n // 2, n // 2), (1, n - 1 if n else 0), (min(B, n), min(B + 1, n))})
                sp = [x for x in sp if 0 <= x[0] <= x[1] <= n]
            else:
                sp = splits_for(a, n, tier)
                if few and a not in FULL:
                    sp = sp[::3]
            chunks = [sp[i:i + CHUNK] for i in range(0, len(sp), CHUNK)] or [[(0, 0)]]
            for ci, ch in enumerate(chunks):
                defs = dict(alg_defs(a), LEN=n, SPLITS=" ".join("X(%d,%d)" % x for x in ch))
                if ci == 0:
                    defs["ENTRY_POINTS"] = None
                out.append({"name": "stream-%s-L%d-p%d" % (a, n, ci), "src": "stream.c", "defs": defs,
                            "unwind": 900, "solver": "cadical",
                            "shape": "%s message length %d, update partitions (s1,s2) = %s%s; message bytes and all "
                                     "transform results symbolic" % (a, n, ",".join("(%d,%d)" % x for x in ch),
                                                                     " + one-shot + hex-string entry points" if ci == 0 else ""),
                            "desc": "transform log == pad(msg) blocks from the standard IV, digest/hex == serialised last "
                                    "state, context zero after final", "cost": len(ch)})
    return out


def step_shapes(a, tier):
    B, LB = ALGS[a]["blk"], ALGS[a]["lenb"]
    if tier == "quick":
        if a not in FULL:
            return [(B - LB, 1)]
        # (1, 2B-1): partial block buffered + rest of it + one whole block in ONE update (added after the seeded change
        # C04-sha2-update-else-if was missed by the quick tier: whole blocks after a top-up were never hashed)
        return [(0, 0), (B - 1, 1), (B - LB, 0), (B - 1, 2), (1, 2 * B - 1)]
    rs = [0, 1, B - LB - 1, B - LB, B // 2, B - 1] if a in FULL else [0, B - LB]
    out = set()
    for r in rs:
        for l in (0, 1, B - r - 1, B - r, B - r + 1, 2 * B - r, 2 * B + 1, 3 * B - r + 1):
            if l >= 0:
                out.add((r, l))
    return sorted(out)


def step_jobs(tier):
    out = []
    for a, A in ALGS.items():
        B = A["blk"]
        for r, l in step_shapes(a, tier):
            us = (["%s:%d" % (A["upd"], l // B + 3)] if A.get("upd") else []) + A.get("step_us", [])
            out.append({"name": "step-%s-R%d-L%d" % (a, r, l), "src": "step.c", "defs": dict(alg_defs(a), R=r, L=l),
                        "unwind": 900, "unwindset": us, "solver": "kissat",
                        "shape": "%s mid-stream context: ANY byte count n with n mod %d = %d (n symbolic), any chaining "
                                 "value/tail/other context bytes; update(%d bytes) then final" % (a, B, r, l),
                        "desc": "inductive step: blocks given to the transform, chaining, count(+carry), buffer tail after "
                                "update; padding with the bit length of n+L, digest, zeroisation after final",
                        "cost": 10, "timeout": 600 if tier == "quick" else 1500})
        if tier == "thorough" and a in FULL:
            l = B + 1
            us = (["%s:%d" % (A["upd"], l // B + 3)] if A.get("upd") else []) + A.get("step_us", [])
            out.append({"name": "step-%s-Rsym-L%d" % (a, l), "src": "step.c", "defs": dict(alg_defs(a), L=l),
                        "unwind": 900, "unwindset": us, "solver": "kissat",
                        "shape": "%s mid-stream context: ANY byte count n (residue n mod %d symbolic too); update(%d "
                                 "bytes) then final" % (a, B, l),
                        "desc": "inductive step for all residues in one query", "cost": 300, "timeout": 2400})
    return out


def gost_jobs(tier):
    out = []
    variants = [("big", {})]
    if tier == "thorough":
        variants += [("small", {"GOST3411_2012_USE_SMALL_TABLES": None}),
                     ("smalltau", {"GOST3411_2012_USE_SMALL_TABLES": None, "GOST3411_2012_USE_SMALL_TABLES_TABLE_TAU": None})]
    for off in ([0, 1] if tier == "quick" else [0, 1, 4]):
        for g0 in (0, 1):
            if g0 and off:
                continue
            defs = {"BITS": 512, "MODE_ABS": None, "OFF": off}
            if g0:
                defs["G0"] = None
            out.append({"name": "gost-xform-%s-o%d" % ("g0" if g0 else "gN", off), "src": "gxform.c", "defs": defs, "unwind": 70,
                        "solver": "cadical", "shape": "Streebog %s, one block at offset %d, h/N/Sigma/m/bits/context symbolic, "
                        "LPS kernel abstracted (arbitrary result per application)" % ("transform_1 (g_0)" if g0 else "transform_n (g_N)", off),
                        "desc": "arguments of all 25 LPS applications == RFC 6986 (g_N, E, key schedule with C1..C12), "
                                "h' = E(K,m)^h^m, N += bits, Sigma += m mod 2^512, frame", "cost": 60, "timeout": 900 if tier == "quick" else 1500})
    pos = [9] if tier == "quick" else list(range(64))
    for vn, vd in variants:
        for p in pos:
            if vn != "big" and p not in (0, 9, 63):
                continue
            out.append({"name": "gost-kernel-%s-p%d" % (vn, p), "src": "gxform.c",
                        "defs": dict({"BITS": 512, "MODE_SLPD": None, "PLO": p, "PHI": p + 1}, **vd), "unwind": 70, "solver": "kissat",
                        "shape": "Streebog SLP kernel (%s tables), byte position %d: all 512-bit x, all replacement bytes b" % (vn, p),
                        "desc": "SLP(x) ^ SLP(x[p:=b]) == LPS(e_p(x_p)) ^ LPS(e_p(b)) and SLP(0) == LPS(0) against pi, tau, A of RFC 6986",
                        "cost": 200, "timeout": 900 if tier == "quick" else 1500})
    return out


def gost_stream_jobs(tier):
    out = []
    for bits in (256, 512):
        if tier == "quick":
            shapes = [(0, [(0, 0)]), (63, [(0, 63), (1, 62)]), (64, [(0, 64), (1, 63), (64, 64)]), (70, [(1, 65), (63, 64)])]
            if bits == 256:
                shapes = shapes[2:]
        else:
            shapes = []
            for n in sorted({0, 1, 62, 63, 64, 65, 127, 128, 129, 130} | set(range(0, 131, 8))):
                pts = sorted({0, 1, 63, 64, 65, 127, 128, n - 1, n} & set(range(0, n + 1)))
                sp = [(a, b) for a in pts for b in pts if a <= b]
                if n not in (0, 1, 62, 63, 64, 65, 127, 128, 129, 130):
                    sp = sorted({(0, 0), (n, n), (1, n - 1), (n // 2, n // 2)})
                for ci in range(0, len(sp), 4):
                    shapes.append((n, sp[ci:ci + 4]))
        seen = {}
        for n, sp in shapes:
            ci = seen.get(n, 0)
            seen[n] = ci + 1
            defs = {"BITS": bits, "LEN": n, "SPLITS": " ".join("X(%d,%d)" % x for x in sp)}
            if ci == 0:
                defs["ENTRY_POINTS"] = None
            out.append({"name": "stream-gost%d-L%d-p%d" % (bits, n, ci), "src": "gstream.c", "defs": defs, "unwind": 600,
                        "solver": "cadical",
                        "shape": "Streebog-%d message length %d, update partitions %s%s; message bytes and all compression "
                                 "results symbolic" % (bits, n, ",".join("(%d,%d)" % x for x in sp),
                                                       " + one-shot + hex-string" if ci == 0 else ""),
                        "desc": "compression log == RFC 6986 stages 1-3 (blocks, 0x01 padding, bit counts, N, Sigma, g_0(N), "
                                "g_0(Sigma)), IV, digest/hex, context zero after final", "cost": 10 * len(sp)})
    return out


def lemma_jobs(tier):
    return [{"name": "lemma-ch-maj", "src": "lemma.c", "defs": {}, "unwind": 2, "solver": "cadical",
             "shape": "all 32-bit and 64-bit x, y, z",
             "desc": "OR-forms of Ch/Maj (used by the SHA-2 references in the -eq jobs) == XOR-forms of FIPS 180-4"}]


def _jobs_all(tier):
    out = lemma_jobs(tier) + xform_jobs(tier) + gost_jobs(tier) + gost_stream_jobs(tier) + stream_jobs(tier) + step_jobs(tier)
    for j in out:
        # The harness' own allocations are `p = malloc(n); assume(p != 0)` (verif.h); liblcb's hash code never allocates.
        # With CBMC's default --malloc-may-fail every later access through p is executed for the NULL case as well and
        # only discarded by the assumption inside the solver [measured: SHA-512 transform 227149 SSA steps / out of
        # memory, against 2677 steps / 2 s with this flag].
        j["flags"] = list(j.get("flags", [])) + ["--no-malloc-may-fail"]
    return out


# Full thorough run of this session (12 jobs in parallel, 62 GB): the two-block SHA-384/512 equivalence jobs got no verdict in
# 1500 s, and the step jobs of the 128-byte-block hashes with update lengths >= 2 blocks were killed for memory (rc -9) or ended
# UNKNOWN next to their siblings -> the former are withdrawn (stated outside: two consecutive blocks for SHA-384/512), the latter
# run as "heavy" jobs (after the pool, two at a time).
WITHDRAWN = {"xform-sha384-n2-o0-eq", "xform-sha512-n2-o0-eq", "xform-sha512-n2-o1-eq", "step-sha512-Rsym-L129"}


def jobs(tier):
    out = [j for j in _jobs_all(tier) if j["name"] not in WITHDRAWN]
    import re as _re
    for j in out:
        m = _re.match(r"step-sha(384|512)-R\d+-L(\d+)$", j["name"])
        if m and int(m.group(2)) >= 145:
            j["heavy"] = True
            j["mem_gb"] = 28
    return out
