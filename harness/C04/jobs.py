import os

HERE = os.path.dirname(os.path.abspath(__file__))
# z3 + native bit-vector cvc5 side by side (NOT the bv-as-int shim of the driver's "cvc5" solver), see the script
SMT = os.path.join(HERE, "..", "common", "hash", "smt-portfolio.sh")
SMT_FLAGS = ["--cvc5", "--slice-formula", "--external-smt2-solver", os.path.normpath(SMT), "--no-standard-checks"]

# step.c: the symbolic-offset memcpy of sha2_update makes ctx->hash_size a non-constant expression for CBMC's symbolic
# execution, so the digest byte-swap loops of sha2_final need an explicit bound (64/4 resp. 64/8 iterations at most)
SHA2_US = ["sha2_memcpy_bswap4.0:18", "sha2_memcpy_bswap8.0:10"]

# name, adapter, block, state bytes, ctx bytes (for unwind), alignment offsets worth distinguishing, defs
ALGS = {
    "md5":    dict(h="common/hash/alg_md5.h", blk=64, lenb=8, offs=[0, 1, 2], defs={}, upd="md5_update.0"),
    "sha1":   dict(h="common/hash/alg_sha1.h", blk=64, lenb=8, offs=[0, 1], defs={}),
    "sha224": dict(h="common/hash/alg_sha2.h", blk=64, lenb=8, offs=[0], defs={"BITS": 224}, step_us=SHA2_US),
    "sha256": dict(h="common/hash/alg_sha2.h", blk=64, lenb=8, offs=[0, 1], defs={"BITS": 256}, step_us=SHA2_US),
    "sha384": dict(h="common/hash/alg_sha2.h", blk=128, lenb=16, offs=[0], defs={"BITS": 384}, step_us=SHA2_US),
    "sha512": dict(h="common/hash/alg_sha2.h", blk=128, lenb=16, offs=[0, 1], defs={"BITS": 512}, step_us=SHA2_US),
}

META = {
    "bounds": "",
    "outside": "",
    "assumptions": [],
    "harness_functions": ["harness", "run_split", "check_common", "v_abs_load", "v_abs_step", "v_pad_tail", "v_check_seg",
                          "v_check_log", "v_serialise", "v_alloc", "v_buf"],
}


def alg_defs(a):
    d = {"ALG_H": '"%s"' % ALGS[a]["h"]}
    d.update(ALGS[a]["defs"])
    return d


def padblocks(a, n):
    A = ALGS[a]
    return (n + 1 + A["lenb"] + A["blk"] - 1) // A["blk"]


def xform_jobs(tier):
    out = []
    for a, A in ALGS.items():
        for nblk in ([1] if tier == "quick" else [1, 2]):
            for off in A["offs"]:
                if nblk == 2 and off not in (0, 1):
                    continue
                defs = dict(alg_defs(a), NBLK=nblk, OFF=off)
                if a.startswith("sha2") or a.startswith("sha3") or a.startswith("sha5"):
                    defs["V_REF_ALT"] = None        # OR-forms of Ch/Maj; == the standard's XOR-forms by the lemma job
                shape = "%s transform, %d block(s), block at offset %d of its object, state+block+context symbolic" % (a, nblk, off)
                uw = 100
                out.append({"name": "xform-%s-n%d-o%d-eq" % (a, nblk, off), "src": "xform.c", "defs": defs, "unwind": uw,
                            "solver": "minisat", "flags": SMT_FLAGS, "prop_include": "standard compression|EXTRA",
                            "shape": shape, "desc": "portable transform == compression function of the standard "
                            "(generated straight-line reference); decided by cvc5 on bit-vector terms",
                            "timeout": 300 if tier == "quick" else 1500, "cost": 5})
                out.append({"name": "xform-%s-n%d-o%d-safe" % (a, nblk, off), "src": "xform.c", "defs": dict(defs, NO_REF=None),
                            "unwind": uw, "solver": "cadical", "mem_gb": 12,
                            "shape": shape, "desc": "built-in memory-safety / UB checks of the transform; frame condition "
                            "(only chaining state and scratch change)", "cost": 2})
    return out


FULL = ("md5", "sha1", "sha256", "sha512")     # variants with their own code paths; sha224/sha384 only differ by IV/size


def split_points(a, n, tier):
    B, LB = ALGS[a]["blk"], ALGS[a]["lenb"]
    pts = {0, 1, n - 1, n}
    for k in (1, 2):
        pts |= {k * B - 1, k * B, k * B + 1}
    if tier == "thorough" and a in FULL:
        pts |= {2, B - 2, B + 2, B - LB - 1, B - LB, 2 * B - 2, 2 * B + 2}
    return sorted(p for p in pts if 0 <= p <= n)


def splits_for(a, n, tier):
    pts = split_points(a, n, tier)
    return [(s1, s2) for s1 in pts for s2 in pts if s1 <= s2]


CHUNK = 6       # partitions per job: symbolic execution time grows quadratically with the number of runs in one job


def stream_jobs(tier):
    out = []
    for a, A in ALGS.items():
        B, LB = A["blk"], A["lenb"]
        edge = [0, 1, B - LB - 1, B - LB, B - 1, B, B + 1, 2 * B - LB - 1, 2 * B - LB, 2 * B, 2 * B + LB + 1]
        if tier == "quick":
            lens = [0, B - LB - 1, B - LB, B + 1, 2 * B] if a in FULL else [B - LB, B + 1]
            few = True
        else:
            lens = list(range(0, 2 * B + LB + 2)) if a in FULL else edge
            few = False
        for n in lens:
            if tier == "thorough" and n not in edge:
                # in-between lengths: one-, two- and three-update partitions at a few places
                sp = sorted({(0, 0), (n, n), (1, n), (n // 2, n // 2), (1, n - 1 if n else 0), (min(B, n), min(B + 1, n))})
                sp = [x for x in sp if 0 <= x[0] <= x[1] <= n]
            else:
                sp = splits_for(a, n, tier)
                if few and a not in FULL:
                    sp = sp[::3]
            chunks = [sp[i:i + CHUNK] for i in range(0, len(sp), CHUNK)] or [[(0, 0)]]
            for ci, ch in enumerate(chunks):
                defs = dict(alg_defs(a), LEN=n, SPLITS=" ".join("X(%d,%d)" % x for x in ch))
                if ci == 0:
                    defs["ENTRY_POINTS"] = None
                out.append({"name": "stream-%s-L%d-p%d" % (a, n, ci), "src": "stream.c", "defs": defs,
                            "unwind": 900, "solver": "cadical",
                            "shape": "%s message length %d, update partitions (s1,s2) = %s%s; message bytes and all "
                                     "transform results symbolic" % (a, n, ",".join("(%d,%d)" % x for x in ch),
                                                                     " + one-shot + hex-string entry points" if ci == 0 else ""),
                            "desc": "transform log == pad(msg) blocks from the standard IV, digest/hex == serialised last "
                                    "state, context zero after final", "cost": len(ch)})
    return out


def step_shapes(a, tier):
    B, LB = ALGS[a]["blk"], ALGS[a]["lenb"]
    if tier == "quick":
        if a not in FULL:
            return [(B - LB, 1), (1, 2 * B)]
        return [(0, 0), (0, B), (1, B - 2), (1, B - 1), (B - LB - 1, 0), (B - LB, 0), (B - 1, 1), (B - 1, B + 2)]
    rs = [0, 1, 2, B - LB - 2, B - LB - 1, B - LB, B - LB + 1, B // 2, B - 2, B - 1] if a in FULL else [0, B - LB, B - 1]
    out = set()
    for r in rs:
        for l in (0, 1, B - r - 1, B - r, B - r + 1, 2 * B - r, 2 * B + 1, 3 * B - r + 1):
            if l >= 0:
                out.add((r, l))
    return sorted(out)


def step_jobs(tier):
    out = []
    for a, A in ALGS.items():
        B = A["blk"]
        for r, l in step_shapes(a, tier):
            us = (["%s:%d" % (A["upd"], l // B + 3)] if A.get("upd") else []) + A.get("step_us", [])
            out.append({"name": "step-%s-R%d-L%d" % (a, r, l), "src": "step.c", "defs": dict(alg_defs(a), R=r, L=l),
                        "unwind": 900, "unwindset": us, "solver": "kissat",
                        "shape": "%s mid-stream context: ANY byte count n with n mod %d = %d (n symbolic), any chaining "
                                 "value/tail/other context bytes; update(%d bytes) then final" % (a, B, r, l),
                        "desc": "inductive step: blocks given to the transform, chaining, count(+carry), buffer tail after "
                                "update; padding with the bit length of n+L, digest, zeroisation after final",
                        "cost": 10, "timeout": 200 if tier == "quick" else 1500})
        if tier == "thorough" and a in FULL:
            l = B + 1
            us = (["%s:%d" % (A["upd"], l // B + 3)] if A.get("upd") else []) + A.get("step_us", [])
            out.append({"name": "step-%s-Rsym-L%d" % (a, l), "src": "step.c", "defs": dict(alg_defs(a), L=l),
                        "unwind": 900, "unwindset": us, "solver": "kissat",
                        "shape": "%s mid-stream context: ANY byte count n (residue n mod %d symbolic too); update(%d "
                                 "bytes) then final" % (a, B, l),
                        "desc": "inductive step for all residues in one query", "cost": 300, "timeout": 2400})
    return out


def lemma_jobs(tier):
    return [{"name": "lemma-ch-maj", "src": "lemma.c", "defs": {}, "unwind": 2, "solver": "cadical",
             "shape": "all 32-bit and 64-bit x, y, z",
             "desc": "OR-forms of Ch/Maj (used by the SHA-2 references in the -eq jobs) == XOR-forms of FIPS 180-4"}]


def jobs(tier):
    out = lemma_jobs(tier) + xform_jobs(tier) + stream_jobs(tier) + step_jobs(tier)
    for j in out:
        # The harness' own allocations are `p = malloc(n); assume(p != 0)` (verif.h); liblcb's hash code never allocates.
        # With CBMC's default --malloc-may-fail every later access through p is executed for the NULL case as well and
        # only discarded by the assumption inside the solver [measured: SHA-512 transform 227149 SSA steps / out of
        # memory, against 2677 steps / 2 s with this flag].
        j["flags"] = list(j.get("flags", [])) + ["--no-malloc-may-fail"]
    return out
