import os

HERE = os.path.dirname(os.path.abspath(__file__))
# z3 + native bit-vector cvc5 side by side (NOT the bv-as-int shim of the driver's "cvc5" solver), see the script
SMT = os.path.join(HERE, "..", "common", "hash", "smt-portfolio.sh")
SMT_FLAGS = ["--cvc5", "--slice-formula", "--external-smt2-solver", os.path.normpath(SMT), "--no-standard-checks"]

# name, adapter, block, state bytes, ctx bytes (for unwind), alignment offsets worth distinguishing, defs
ALGS = {
    "md5":    dict(h="common/hash/alg_md5.h", blk=64, lenb=8, offs=[0, 1, 2], defs={}, upd="md5_update.0"),
    "sha1":   dict(h="common/hash/alg_sha1.h", blk=64, lenb=8, offs=[0, 1], defs={}),
    "sha224": dict(h="common/hash/alg_sha2.h", blk=64, lenb=8, offs=[0], defs={"BITS": 224}),
    "sha256": dict(h="common/hash/alg_sha2.h", blk=64, lenb=8, offs=[0, 1], defs={"BITS": 256}),
    "sha384": dict(h="common/hash/alg_sha2.h", blk=128, lenb=16, offs=[0], defs={"BITS": 384}),
    "sha512": dict(h="common/hash/alg_sha2.h", blk=128, lenb=16, offs=[0, 1], defs={"BITS": 512}),
}

META = {
    "bounds": "",
    "outside": "",
    "assumptions": [],
    "harness_functions": ["harness", "run_split", "check_common", "v_abs_load", "v_abs_step", "v_pad_tail", "v_check_seg",
                          "v_check_log", "v_serialise", "v_alloc", "v_buf"],
}


def alg_defs(a):
    d = {"ALG_H": '"%s"' % ALGS[a]["h"]}
    d.update(ALGS[a]["defs"])
    return d


def padblocks(a, n):
    A = ALGS[a]
    return (n + 1 + A["lenb"] + A["blk"] - 1) // A["blk"]


def xform_jobs(tier):
    out = []
    for a, A in ALGS.items():
        for nblk in ([1] if tier == "quick" else [1, 2]):
            for off in A["offs"]:
                if nblk == 2 and off not in (0, 1):
                    continue
                defs = dict(alg_defs(a), NBLK=nblk, OFF=off)
                shape = "%s transform, %d block(s), block at offset %d of its object, state+block+context symbolic" % (a, nblk, off)
                uw = A.get("ctx_unwind", 700)
                out.append({"name": "xform-%s-n%d-o%d-eq" % (a, nblk, off), "src": "xform.c", "defs": defs, "unwind": uw,
                            "solver": "minisat", "flags": SMT_FLAGS, "prop_include": "standard compression|EXTRA",
                            "shape": shape, "desc": "portable transform == compression function of the standard "
                            "(generated straight-line reference); decided by cvc5 on bit-vector terms",
                            "timeout": 300 if tier == "quick" else 1500, "cost": 5})
                out.append({"name": "xform-%s-n%d-o%d-safe" % (a, nblk, off), "src": "xform.c", "defs": defs, "unwind": uw,
                            "solver": "cadical", "prop_exclude": "standard compression|EXTRA",
                            "shape": shape, "desc": "built-in memory-safety / UB checks of the transform; frame condition "
                            "(only chaining state and scratch change)", "cost": 2})
    return out


def splits_for(a, n, tier):
    B = ALGS[a]["blk"]
    pts = {0, 1, n - 1, n}
    for k in (1, 2, 3):
        for d in ((-1, 0, 1) if tier == "quick" else (-2, -1, 0, 1, 2)):
            pts.add(k * B + d)
    pts |= {B - ALGS[a]["lenb"] - 1, B - ALGS[a]["lenb"]}
    pts = sorted(p for p in pts if 0 <= p <= n)
    return [(s1, s2) for s1 in pts for s2 in pts if s1 <= s2]


def stream_jobs(tier):
    out = []
    for a, A in ALGS.items():
        B, LB = A["blk"], A["lenb"]
        if tier == "quick":
            lens = sorted({0, 1, B - LB - 1, B - LB, B - 1, B, B + 1, 2 * B - LB - 1, 2 * B - LB, 2 * B, 2 * B + LB + 1})
        else:
            lens = list(range(0, 2 * B + LB + 2))
        for n in lens:
            sp = splits_for(a, n, tier)
            defs = dict(alg_defs(a), LEN=n, SPLITS="%s" % " ".join("X(%d,%d)" % s for s in sp), ENTRY_POINTS=None)
            out.append({"name": "stream-%s-L%d" % (a, n), "src": "stream.c", "defs": defs,
                        "unwind": max(A.get("ctx_unwind", 700), padblocks(a, n) * B + 2), "solver": "cadical",
                        "shape": "%s message length %d, %d partitions into <= 3 updates (split points around block "
                                 "boundaries), + one-shot + hex-string; bytes and transform results symbolic" % (a, n, len(sp)),
                        "desc": "transform log == pad(msg) blocks from the standard IV, digest/hex == serialised last "
                                "state, context zero after final", "cost": 1 + len(sp) // 20})
    return out


def jobs(tier):
    return xform_jobs(tier) + stream_jobs(tier)
