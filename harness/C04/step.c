/* C04(b), inductive step: *_update and *_final started from an ARBITRARY mid-stream context.
 *
 * Invariant Inv(ctx, n, h, tail) of the MD-style hashes after n message bytes were absorbed:
 *     chaining state == h,  count (and count_hi) == n,  buffer[0 .. n mod B) == the last n mod B message bytes,
 *     (SHA-2: hash_size / block_size as set by sha2_init).  Everything else in the context is arbitrary.
 * *_init establishes Inv for n = 0 (checked end-to-end in stream.c). This harness decides, for every n with
 * n mod B == R (R concrete, the quotient symbolic: 2^64 resp. 2^125 bytes), every h, every tail, every other context
 * byte and every chunk content:
 *     update(chunk of L bytes): transform called once per completed block of tail||chunk, with those bytes, chained
 *         from h; afterwards Inv(ctx, n + L, last result, new tail) - in particular count += L with carry into count_hi;
 *     final: transform log == blocks of  newtail || 0x80 || 0.. || bitlen(n + L)  (RFC 1321 3.1-3.2 / FIPS 180-4 5.1),
 *         digest == serialised last state, context all zero.
 * By induction over the update calls this covers messages of ANY length in ANY partition whose chunks have one of the
 * enumerated (R, L) shapes; the per-call behaviour depends on (R, L) only through R, L mod B and floor((R+L)/B) in
 * {0,1,2,3+}; jobs.py enumerates R over 0..B-1 and L over 0..2B+1 (thorough) resp. the boundary values (quick).
 * Domain: the standards define SHA-1/SHA-256 for < 2^64 bits and SHA-384/512 for < 2^128 bits: A_MAXQ bounds the
 * symbolic quotient accordingly; MD5 uses the low 64 bits of the bit length (RFC 1321 3.2) so no bound is needed.
 *
 * Build parameters: ALG_H, L (chunk bytes), optionally R (0..B-1); without -DR the residue is SYMBOLIC (IN.r, all
 * 0..B-1 in one query - possible because the buffer index is `count & mask`, symbolic for CBMC anyway). */
#define V_ABSTRACT
#ifdef R
#define RMAX (R)
#else
#define RMAX (A_BLK - 1)		/* R symbolic: IN.r in 0..B-1 */
#endif
#define V_MAXCALLS (((RMAX) + (L)) / A_BLK + 3)
#include "verif.h"
#include ALG_H

struct in_s {
	a_ctx_t ctx0;				/* arbitrary context */
	a_word_t st[A_STW];
	uint64_t q_lo, q_hi;			/* n = (q_hi:q_lo) * B + R */
	uint8_t tail[RMAX + 1];
	size_t r;				/* used when R is not fixed by the shape */
	uint8_t chunk[L + 1];
	a_word_t out[V_MAXCALLS][A_STW];
	a_havoc_t havoc[V_MAXCALLS][A_HAVOC];
};
#include "verif_in.h"
#include "common/hash/v_oracle.h"

static uint8_t stream[RMAX + L + 1];		/* tail || chunk */
static uint8_t padded[2 * A_BLK];

void harness(void) {
	V_BEGIN();
	a_ctx_t ctx_obj;
	a_ctx_t *ctx = &ctx_obj;
	uint8_t *chunk = v_buf(IN.chunk, L);
	uint8_t *digest = (uint8_t *)v_alloc(A_DIG);
	uint8_t want[A_STW * sizeof(a_word_t)];
	uint64_t n_lo, n_hi, m_lo, m_hi;
#ifdef R
	const size_t r = (R);
#else
	const size_t r = IN.r;
	V_ASSUME(r < A_BLK);
#endif
	const size_t NUPD = (r + (L)) / A_BLK;		/* blocks completed by the update */
	const size_t R2 = (r + (L)) % A_BLK;		/* bytes left in the buffer afterwards */
	const size_t NFIN = (R2 + 1 + A_LENB + A_BLK - 1) / A_BLK;	/* blocks of the final padding */

	/* n = q * B + R as a 128-bit number */
	V_ASSUME(IN.q_hi <= A_MAXQ_HI);
#if A_LENB == 8
	V_ASSUME(IN.q_hi == 0);
#endif
	n_hi = (IN.q_hi * A_BLK) | (IN.q_lo >> (64 - A_BLK_LOG2));
	n_lo = (IN.q_lo * A_BLK) | (uint64_t)r;
	V_ASSUME(n_hi <= A_MAXN_HI);
	/* n + L must stay inside the standard's domain too */
	m_lo = n_lo + (uint64_t)(L);
	m_hi = n_hi + (m_lo < n_lo ? 1 : 0);
	V_ASSUME(m_hi <= A_MAXN_HI);
#if A_LENB == 8 && defined(A_MAXN_LO)
	V_ASSUME(n_lo <= A_MAXN_LO && m_lo <= A_MAXN_LO && m_lo >= n_lo);
#endif

	ctx_obj = IN.ctx0;
	memcpy(a_state(ctx), IN.st, sizeof(IN.st));
	a_step_prepare(ctx, n_lo, n_hi);		/* count fields, SHA-2 sizes */
	for (size_t i = 0; i < RMAX; i++)
		if (i < r)
			a_buffer(ctx)[i] = IN.tail[i];
	for (size_t i = 0; i < RMAX + (L); i++)
		stream[i] = (i < r) ? IN.tail[i] : ((i - r < (L)) ? IN.chunk[i - r] : 0);

	v_abs_load(IN.out, IN.havoc);
	a_update(ctx, chunk, L);

	/* --- after update --- */
	v_check_seg(stream, NUPD, 0, 0);
	V_ASSERT(v_ncalls == NUPD, "update calls the transform exactly once per completed block");
	for (size_t i = 0; i < A_STW; i++) {
		if (NUPD > 0) {
			V_ASSERT(v_log_st[0][i] == IN.st[i], "first completed block is compressed from the current chaining value");
			V_ASSERT(a_state(ctx)[i] == IN.out[NUPD - 1][i], "chaining value after update == result of the last transform call");
		} else
			V_ASSERT(a_state(ctx)[i] == IN.st[i], "chaining value untouched when no block was completed");
	}
	V_ASSERT(a_count_lo(ctx) == m_lo, "count advanced by the chunk length");
	V_ASSERT(a_count_hi(ctx) == m_hi, "carry into the high count word");
	for (size_t i = 0; i < A_BLK - 1; i++)
		if (i < R2)
			V_ASSERT(a_buffer(ctx)[i] == stream[NUPD * A_BLK + i], "buffer holds the bytes after the last completed block");
	a_step_invariant(ctx);
	V_WITNESS_MUST("update returned");

	/* --- final --- */
	v_pad_tail(padded, sizeof(padded), stream + NUPD * A_BLK, R2, m_lo, m_hi);
	a_final(ctx, digest);
	v_check_seg(padded, NFIN, NUPD, 0);
	if (NUPD == 0)
		for (size_t i = 0; i < A_STW; i++)
			V_ASSERT(v_log_st[0][i] == IN.st[i], "first padding block is compressed from the current chaining value");
	V_ASSERT(v_ncalls == NUPD + NFIN, "final calls the transform exactly once per padding block");
	v_serialise(want, v_out[NUPD + NFIN - 1]);
	for (size_t i = 0; i < A_DIG; i++)
		V_ASSERT(digest[i] == want[i], "digest == serialised final chaining value");
	for (size_t i = 0; i < sizeof(a_ctx_t); i++)
		V_ASSERT(((const uint8_t *)ctx)[i] == 0, "every context byte is zero after final");
	V_WITNESS_MUST("final returned");
}
