/* C04(b): streaming logic of the MD-style hashes (MD5, SHA-1, SHA-224/256/384/512): init / update / final, the
 * one-shot and the hex-string entry points, with the block transform abstracted (common/hash/v_abs.h).
 *
 * Build parameters: ALG_H adapter, LEN message length (concrete), SPLITS = list of X(s1, s2) with 0 <= s1 <= s2 <= LEN:
 * the message is fed as update(msg[0..s1)), update(msg[s1..s2)), update(msg[s2..LEN)) - empty updates included; every
 * chunk lives in its own exactly sized heap object. Message bytes and all transform results are symbolic.
 *
 * Oracle: pad(msg) per RFC 1321 3.1-3.2 / FIPS 180-4 5.1 (0x80, zeros, 64/128-bit bit length, little/big endian) cut
 * into blocks. Asserted per run:
 *   - the transform is called exactly once per block of pad(msg), in order, with exactly those bytes,
 *   - call 0 sees the standard's initial value, call k sees what call k-1 left (arbitrary value from IN.out),
 *   - digest == serialisation of the last chaining value (truncated for SHA-224/384), hex string == its lower-case hex,
 *   - every byte of the context is zero after *_final.
 * With C04(a) (transform == standard compression function) this is the standard digest. */
#define V_ABSTRACT
#define V_MAXCALLS (V_PADBLOCKS(LEN) + 1)
#include "verif.h"
#include ALG_H

struct in_s {
	uint8_t msg[LEN + 1];
	a_word_t out[V_MAXCALLS][A_STW];
	a_havoc_t havoc[V_MAXCALLS][A_HAVOC];
};
#include "verif_in.h"
#include "common/hash/v_oracle.h"

static uint8_t padded[V_PADBLOCKS(LEN) * A_BLK];

static void check_common(const uint8_t *digest) {
	uint8_t want[A_STW * sizeof(a_word_t)];

	v_check_log(padded, V_PADBLOCKS(LEN), 0, 1);
	v_serialise(want, v_out[V_PADBLOCKS(LEN) - 1]);
	for (size_t i = 0; i < A_DIG; i++)
		V_ASSERT(digest[i] == want[i], "digest == serialised final chaining value (standard byte order, truncation)");
}

static void run_split(size_t s1, size_t s2) {
	a_ctx_t ctx_obj;	/* typed object: fields stay separate in CBMC; out-of-object access is still a violation */
	a_ctx_t *ctx = &ctx_obj;
	uint8_t *c1 = v_buf(IN.msg, s1), *c2 = v_buf(IN.msg + s1, s2 - s1), *c3 = v_buf(IN.msg + s2, LEN - s2);
	uint8_t *digest = (uint8_t *)v_alloc(A_DIG);

	v_abs_load(IN.out, IN.havoc);
	a_init(ctx);
	a_update(ctx, c1, s1);
	a_update(ctx, c2, s2 - s1);
	a_update(ctx, c3, LEN - s2);
	a_final(ctx, digest);
	check_common(digest);
	for (size_t i = 0; i < sizeof(a_ctx_t); i++)
		V_ASSERT(((const uint8_t *)ctx)[i] == 0, "every context byte is zero after final");
}

void harness(void) {
	V_BEGIN();
	v_pad(padded, sizeof(padded), IN.msg, LEN);

#define X(s1, s2) run_split((s1), (s2));
	SPLITS
#undef X
	V_WITNESS_MUST("all update partitions of this shape ran");

#ifdef ENTRY_POINTS
	{	/* one-shot */
		uint8_t *m = v_buf(IN.msg, LEN);
		uint8_t *digest = (uint8_t *)v_alloc(A_DIG);
		v_abs_load(IN.out, IN.havoc);
		a_oneshot(m, LEN, digest);
		check_common(digest);
	}
	{	/* hex string */
		uint8_t *m = v_buf(IN.msg, LEN);
		char *str = (char *)v_alloc(2 * A_DIG + 1);
		uint8_t want[A_STW * sizeof(a_word_t)];
		v_abs_load(IN.out, IN.havoc);
		a_oneshot_str(m, LEN, str);
		v_check_log(padded, V_PADBLOCKS(LEN), 0, 1);
		v_serialise(want, v_out[V_PADBLOCKS(LEN) - 1]);
		for (size_t i = 0; i < A_DIG; i++) {
			V_ASSERT(str[2 * i] == "0123456789abcdef"[want[i] >> 4], "hex string, high nibble");
			V_ASSERT(str[2 * i + 1] == "0123456789abcdef"[want[i] & 15], "hex string, low nibble");
		}
		V_ASSERT(str[2 * A_DIG] == 0, "hex string NUL terminated");
	}
	V_WITNESS_MUST("one-shot and hex-string entry points ran");
#endif
}
